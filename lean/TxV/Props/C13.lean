import TxV.Proofs.Simultaneous
/-!
# C13 — simultaneous methods run together and exchange data

"Two bodies related by simultaneous() (e.g. Connect.read and Connect.write) run in exactly the same
cycles, and data passed into one is delivered to the other in the same cycle in both directions —
for every design connecting callers through Connect or simultaneous(), with arbitrary readiness of
the callers' other methods."

As for C12 the theorems are about the POST-merge flat design (every group of simultaneous
transactions has become one merged transaction calling the methods made from its members), every
valuation and every assignment `run` of the run signals satisfying the core's cycle facts
(`Accepted`, `Cycle`: obtained from the executable model by `c12_model_hyps`).  `ShapeC13 D a b L`
(decidable: `shapeC13B`; printed by `Driver/C13.lean` as `shape13=`; PROVED for `w` writers × `r`
readers of one `Connect` from the executable model of `_simultaneous`: `simultaneous_shape_connect`)
says that every transaction reaching one of the two bodies calls the other one through
unconditional calls; `LinkEn` says that such calls are enabled whenever their caller runs.

`Connect` (connectors.py:268-283) is two wires: `read` returns `read_value`, assigned from `write`'s
argument, and `write` returns `rev_read_value`, assigned from `read`'s argument
(`connectReadOut`, `connectWriteOut` = the other method's `data_in`).
-/
namespace TxV.Core

variable {D : Design} {v : Val} {S : Sched} {run : Nat → Bool} {L : List Nat}

-- OBLIGATION c13_same_cycles : sentence 1: for every post-merge design with ShapeC13 for the pair (a, b) (driver-checked per design; proved for the Connect family), every valuation and run assignment with the core cycle facts and LinkEn: a runs iff b runs
theorem c13_same_cycles (hA : Accepted D S) (hC : Cycle D v S run) (hl : LinkEn D v run L) {a b : Nat}
    (hS : ShapeC13 D a b L) : run a = true ↔ run b = true :=
  same_cycles hA hC hl hS

-- OBLIGATION c13_data : sentence 2 for Connect (exclusive write w and read r): in every cycle in which write runs, write and read each have exactly one active call site, read returns the argument passed to write at that site and write returns the argument passed to read (both directions, same cycle; any number of writers and readers)
theorem c13_data (hA : Accepted D S) (hC : Cycle D v S run) (hn : D.SitesNodup) (hl : LinkEn D v run L)
    {w r : Nat} (hS : ShapeC13 D w r L) (hxw : D.nonexcl w = false) (hxr : D.nonexcl r = false)
    (hr : run w = true) :
    ∃ sw sr, activeSites D v run w = [sw] ∧ activeSites D v run r = [sr] ∧
      connectReadOut D v run w = v.arg sw.2.site ∧ connectWriteOut D v run r = v.arg sr.2.site :=
  connect_data hA hC hn hl hS hxw hxr hr

-- OBLIGATION c13_callers_together : consequence for the callers: the caller whose call of write is active and the caller whose call of read is active both run in that cycle (the data is exchanged between running callers)
theorem c13_callers_together (hA : Accepted D S) (hC : Cycle D v S run) (hn : D.SitesNodup) (hl : LinkEn D v run L)
    {w r : Nat} (hS : ShapeC13 D w r L) (hxw : D.nonexcl w = false) (hxr : D.nonexcl r = false)
    (hr : run w = true) :
    ∃ sw sr, sw ∈ D.allSites ∧ sr ∈ D.allSites ∧ sw.2.callee = w ∧ sr.2.callee = r ∧
      run sw.1 = true ∧ run sr.1 = true := by
  obtain ⟨sw, sr, h1, h2, _, _⟩ := connect_data hA hC hn hl hS hxw hxr hr
  have m1 : sw ∈ activeSites D v run w := by rw [h1]; simp
  have m2 : sr ∈ activeSites D v run r := by rw [h2]; simp
  obtain ⟨⟨c1, r1, _⟩, e1⟩ := mem_activeSites.1 m1
  obtain ⟨⟨c2, r2, _⟩, e2⟩ := mem_activeSites.1 m2
  exact ⟨sw, sr, Design.mem_allSites.2 c1, Design.mem_allSites.2 c2, e1, e2, r1, r2⟩

-- OBLIGATION c13_shape_checker_sound : the Boolean checkers evaluated by the driver imply ShapeC13 and LinkEn
theorem c13_shape_checker_sound (hb : Bounded D) {a b : Nat} :
    (shapeC13B D a b L = true → ShapeC13 D a b L) ∧ (linkEnB D v run L = true → LinkEn D v run L) :=
  ⟨shapeC13B_sound hb, linkEnB_sound⟩

end TxV.Core

#print axioms TxV.Core.c13_same_cycles
#print axioms TxV.Core.c13_data
#print axioms TxV.Core.c13_callers_together
#print axioms TxV.Core.c13_shape_checker_sound
