import TxV.Proofs.BasicFifo
import TxV.Proofs.BufferedFifo
/-!
# C14 — FIFO and BasicFifo behave as bounded queues

"For every sequence of calls, FIFO and BasicFifo return from read (and peek, without removal)
exactly the written elements in write order with no loss or duplication; read and peek are
ready iff the queue is non-empty and write iff it is not full. After clear runs the BasicFifo
is empty in the next cycle, even if write ran in the same cycle."

`step`/`run` is the transcription of BasicFifo over CircularAllocator(depth,1,1)
(`Model/BasicFifo.lean`); `specStep`/`specRun` is the bounded queue, which is also the
(trusted, DESIGN §4) model of `connectors.FIFO` over `SyncFIFO`.  `hist` gives, for a list of
per-cycle events, the values delivered by reads and the values stored by writes since the
last clear.  All theorems are for every depth `d ≥ 1` (`d ≥ 0` for the queue), every data
value and every history of simultaneous call attempts from reset.
-/
namespace TxV.BasicFifo
open TxV.QueueUtil

/-- events of a history from reset -/
def events (d : Nat) (is : List In) : List Ev := (run d (init d) is).2.map ev
/-- state after a history from reset -/
def after (d : Nat) (is : List In) : State := (run d (init d) is).1
/-- stored elements (oldest first) after a history from reset -/
def stored (d : Nat) (is : List In) : List Nat := abs d (after d is)

theorem inv_after (d : Nat) (hd : 0 < d) (is : List In) : Inv d (after d is) :=
  (run_refines is (inv_init d hd)).1

-- OBLIGATION c14_refines : BasicFifo (all depths ≥ 1, all histories) is observationally the bounded queue: same done bits, returned data and readiness in every cycle, and its stored elements are the queue's
theorem c14_refines (d : Nat) (hd : 0 < d) (is : List In) :
    (run d (init d) is).2 = (specRun d [] is).2 ∧ stored d is = (specRun d [] is).1 := by
  have := run_refines is (inv_init d hd)
  rw [abs_init] at this
  exact ⟨this.2.1, this.2.2⟩

-- OBLIGATION c14_order : no loss, no duplication, write order: (values returned by reads) ++ (elements still stored) = (values written), all since the last clear, after every history
theorem c14_order (d : Nat) (hd : 0 < d) (is : List In) :
    (hist (events d is)).1 ++ stored d is = (hist (events d is)).2 := by
  obtain ⟨h1, h2⟩ := c14_refines d hd is
  unfold events
  rw [h1, h2]
  exact spec_hist_run d is [] ([], []) rfl

-- OBLIGATION c14_read_value : in every cycle (also one in which clear runs) an executed read, and an executed peek, return the oldest written element not yet delivered: element number |delivered| of the values written since the last clear
theorem c14_read_value (d : Nat) (hd : 0 < d) (is : List In) (i : In) (v : Nat)
    (h : (step d (after d is) i).2.rd = some v ∨ (step d (after d is) i).2.pk = some v) :
    (hist (events d is)).2[(hist (events d is)).1.length]? = some v := by
  have hinv := inv_after d hd is
  rw [first_undelivered (c14_order d hd is)]
  have ho := (refines hinv i).2.1
  rw [ho] at h
  simp only [specStep] at h
  unfold stored
  rcases h with h | h <;> (split at h <;> simp_all)

-- OBLIGATION c14_peek : peek is without removal: whether peek is attempted changes neither the next state nor any other method's outcome
theorem c14_peek (d : Nat) (s : State) (i : In) :
    (step d s i).1 = (step d s { i with p := false }).1 ∧
    (step d s i).2.rd = (step d s { i with p := false }).2.rd ∧
    (step d s i).2.wr = (step d s { i with p := false }).2.wr ∧
    (step d s i).2.clr = (step d s { i with p := false }).2.clr := by
  simp [step]

-- OBLIGATION c14_ready : after every history, read and peek are ready (execute when attempted) iff the queue is non-empty, write iff it is not full, clear always
theorem c14_ready (d : Nat) (hd : 0 < d) (is : List In) (i : In) :
    let o := (step d (after d is) i).2
    (o.rrdy = true ↔ stored d is ≠ []) ∧
    (o.wrdy = true ↔ (stored d is).length < d) ∧
    (o.rd.isSome = true ↔ (i.r = true ∧ stored d is ≠ [])) ∧
    (o.pk.isSome = true ↔ (i.p = true ∧ stored d is ≠ [])) ∧
    (o.wr = if (stored d is).length < d then i.w else none) ∧
    (o.clr = i.c) := by
  have hinv := inv_after d hd is
  have hlen : (stored d is).length = (after d is).alloc := abs_length d _
  have hne : stored d is ≠ [] ↔ (after d is).alloc ≠ 0 := by
    rw [← hlen]; cases stored d is <;> simp
  have hle := hinv.ha
  simp only [step, hne, hlen]
  refine ⟨by simp, ?_, ?_, ?_, ?_, trivial⟩
  · simp; omega
  · cases i.r <;> by_cases h0 : (after d is).alloc = 0 <;> simp [h0]
  · cases i.p <;> by_cases h0 : (after d is).alloc = 0 <;> simp [h0]
  · by_cases h1 : (after d is).alloc = d
    · simp [h1]
    · have : (after d is).alloc < d := by omega
      simp [h1, this]

-- OBLIGATION c14_clear : after a cycle in which clear runs the BasicFifo is empty (level 0, no stored element, read/peek not ready), whatever else ran in that cycle, in particular a write
theorem c14_clear (d : Nat) (is : List In) (i : In) (hc : i.c = true) :
    stored d (is ++ [i]) = [] ∧ (after d (is ++ [i])).alloc = 0 ∧
    ∀ j : In, (step d (after d (is ++ [i])) j).2.rd = none ∧
              (step d (after d (is ++ [i])) j).2.pk = none ∧
              (step d (after d (is ++ [i])) j).2.rrdy = false := by
  have e : after d (is ++ [i]) = (step d (after d is) i).1 := by
    simp [after, run_append, run]
  have ha : (after d (is ++ [i])).alloc = 0 := by rw [e]; simp [step, hc]
  refine ⟨?_, ha, ?_⟩
  · unfold stored; simp [abs, ha]
  · intro j; simp [step, ha]


-- OBLIGATION c14_callers : when several transactions call read (resp. write) in one cycle, at most one of the callers executes, it is one that attempted, and it gets exactly the single-port outcome of the step — so the theorems above hold for the union of all callers (every value delivered to exactly one reader)
theorem c14_callers (d : Nat) (s : State) (ow or : List Nat) (i : MIn) (k1 k2 v1 v2 : Nat) :
    let e := eff ow or i
    let o := (step d s ⟨e.w, e.r, e.p, e.c⟩).2
    ((onlyTo i.ws.length e.gr o.rd)[k1]? = some (some v1) → (onlyTo i.ws.length e.gr o.rd)[k2]? = some (some v2) →
        k1 = k2 ∧ o.rd = some v1 ∧ i.rs.getD k1 false = true) ∧
    ((onlyTo i.ws.length e.gw o.wr)[k1]? = some (some v1) → (onlyTo i.ws.length e.gw o.wr)[k2]? = some (some v2) →
        k1 = k2 ∧ o.wr = some v1 ∧ (i.ws.map Option.isSome).getD k1 false = true) :=
  ⟨fun h1 h2 => callers_exclusive h1 h2, fun h1 h2 => callers_exclusive h1 h2⟩

/-! ### `connectors.FIFO` (wrapper over `SyncFIFO`, modelled as the bounded queue) -/

-- OBLIGATION c14_fifo_order : FIFO (ideal-queue model, every depth ≥ 0, every history): delivered ++ stored = written
theorem c14_fifo_order (d : Nat) (is : List In) :
    (hist ((specRun d [] is).2.map ev)).1 ++ (specRun d [] is).1
      = (hist ((specRun d [] is).2.map ev)).2 :=
  spec_hist_run d is [] ([], []) rfl

-- OBLIGATION c14_fifo_read_value : FIFO: an executed read returns the oldest written element not yet delivered
theorem c14_fifo_read_value (d : Nat) (is : List In) (i : In) (v : Nat)
    (h : (specStep d (specRun d [] is).1 i).2.rd = some v) :
    (hist ((specRun d [] is).2.map ev)).2[(hist ((specRun d [] is).2.map ev)).1.length]? = some v := by
  rw [first_undelivered (c14_fifo_order d is)]
  simp only [specStep] at h
  split at h <;> simp_all

-- OBLIGATION c14_fifo_ready : FIFO: read is ready / executes when attempted iff the queue is non-empty, write iff it holds fewer than depth elements
theorem c14_fifo_ready (d : Nat) (q : List Nat) (hq : q.length ≤ d) (w : Option Nat) (r : Bool) :
    let o := (specStep d q (fifoIn w r)).2
    (o.rrdy = true ↔ q ≠ []) ∧ (o.wrdy = true ↔ q.length < d) ∧
    (o.rd.isSome = true ↔ (r = true ∧ q ≠ [])) ∧
    (o.wr = if q.length < d then w else none) ∧
    (specStep d q (fifoIn w r)).1.length ≤ d := by
  have hne : q ≠ [] ↔ q.length ≠ 0 := by cases q <;> simp
  simp only [specStep, fifoIn, hne]
  refine ⟨by simp, by simp; omega, ?_, ?_, ?_⟩
  · cases r <;> cases q <;> simp
  · by_cases h1 : q.length = d
    · simp [h1]
    · have : q.length < d := by omega
      simp [h1, this]
  · by_cases h1 : q.length = d
    · cases r <;> cases q <;> simp_all <;> omega
    · have : q.length < d := by omega
      cases r <;> cases q <;> cases w <;> simp_all <;> omega


-- OBLIGATION c14_fifo_callers : when several transactions call read (resp. write) in one cycle, at most one of the callers executes, it is one that attempted, and it gets exactly the single-port outcome of the step — so the theorems above hold for the union of all callers (every value delivered to exactly one reader)
theorem c14_fifo_callers (d : Nat) (q : List Nat) (ow or : List Nat) (i : MIn) (k1 k2 v1 v2 : Nat) :
    let e := eff ow or i
    let o := (specStep d q (fifoIn e.w e.r)).2
    ((onlyTo i.ws.length e.gr o.rd)[k1]? = some (some v1) → (onlyTo i.ws.length e.gr o.rd)[k2]? = some (some v2) →
        k1 = k2 ∧ o.rd = some v1 ∧ i.rs.getD k1 false = true) ∧
    ((onlyTo i.ws.length e.gw o.wr)[k1]? = some (some v1) → (onlyTo i.ws.length e.gw o.wr)[k2]? = some (some v2) →
        k1 = k2 ∧ o.wr = some v1 ∧ (i.ws.map Option.isSome).getD k1 false = true) :=
  ⟨fun h1 h2 => callers_exclusive h1 h2, fun h1 h2 => callers_exclusive h1 h2⟩

/-- non-vacuity: depth 3, a history with wrap-around, simultaneous read/write/peek, a clear
    racing with a write, and a later read; the theorems' hypotheses are met and the outputs
    are the expected ones -/
example :
    let is : List In := [⟨some 7, false, false, false⟩, ⟨some 8, true, true, false⟩, ⟨some 9, false, false, false⟩,
                         ⟨some 10, true, false, false⟩, ⟨some 11, true, false, true⟩, ⟨some 12, true, true, false⟩,
                         ⟨none, true, false, false⟩]
    (run 3 (init 3) is).2.map (fun o => (o.wr, o.rd, o.pk)) =
      [(some 7, none, none), (some 8, some 7, some 7), (some 9, none, none), (some 10, some 8, none),
       (some 11, some 9, none), (some 12, none, none), (none, some 12, none)] ∧
    hist (events 3 is) = ([12], [12]) ∧ stored 3 is = [] := by
  decide

/-- non-vacuity of `c14_clear`: a write executes in the clear cycle and is discarded -/
example : (step 2 (after 2 [⟨some 5, false, false, false⟩]) ⟨some 6, false, false, true⟩).2.wr = some 6 ∧
    stored 2 [⟨some 5, false, false, false⟩, ⟨some 6, false, false, true⟩] = [] := by decide

end TxV.BasicFifo

/-! ### `connectors.FIFO(…, fifo_type=SyncFIFOBuffered)`

Model: `Model/BufferedFifo.lean` (inner queue of depth − 1 feeding an output register; readiness
is the wrapped FIFO's own `w_rdy`/`r_rdy`).  The data clauses of C14 hold in full; of the
readiness clause only "ready ⇒ possible" and "at most one cycle late" hold — the "iff" does
not (last `example`; recorded as a finding, it is the behaviour of the unchanged code). -/
namespace TxV.BufferedFifo
open TxV.QueueUtil

def after (d : Nat) (is : List In) : State := (run d init is).1
def events (d : Nat) (is : List In) : List Ev := (run d init is).2.map ev
/-- stored elements (oldest first: output register, then inner memory) after a history from reset -/
def stored (d : Nat) (is : List In) : List Nat := abs (after d is)

theorem inv_after (d : Nat) (is : List In) : Inv d (after d is) := inv_run d is init (inv_init d)

-- OBLIGATION c14_buffered_data : FIFO over SyncFIFOBuffered refines the abstract queue on accepted calls (every depth, every reachable state): an executed read returns and removes the oldest stored element, an executed write appends its argument, nothing else changes the stored sequence, which never exceeds depth
theorem c14_buffered_data (d : Nat) (is : List In) (i : In) :
    let o := (step d (after d is) i).2
    stored d (is ++ [i]) = (if o.rd.isSome then (stored d is).tail else stored d is) ++ o.wr.toList ∧
    (∀ v, o.rd = some v → (stored d is).head? = some v) ∧
    (stored d is).length ≤ d := by
  have hinv := inv_after d is
  obtain ⟨_, h2, h3⟩ := step_data hinv i
  have e : after d (is ++ [i]) = (step d (after d is) i).1 := by
    simp [after, run, runWith_append, runWith]
  exact ⟨by unfold stored; rw [e]; exact h2, h3, abs_length_le hinv⟩

-- OBLIGATION c14_buffered_order : FIFO over SyncFIFOBuffered, every depth, every history: (values returned by reads) ++ (elements still stored) = (values written): no loss, no duplication, write order
theorem c14_buffered_order (d : Nat) (is : List In) :
    (hist (events d is)).1 ++ stored d is = (hist (events d is)).2 :=
  hist_run d is init ([], []) (inv_init d) (by simp [abs_init])

-- OBLIGATION c14_buffered_read_value : FIFO over SyncFIFOBuffered: an executed read returns the oldest written element not yet delivered
theorem c14_buffered_read_value (d : Nat) (is : List In) (i : In) (v : Nat)
    (h : (step d (after d is) i).2.rd = some v) :
    (hist (events d is)).2[(hist (events d is)).1.length]? = some v := by
  rw [first_undelivered (c14_buffered_order d is)]
  exact (c14_buffered_data d is i).2.1 v h

-- OBLIGATION c14_buffered_ready_partial : readiness of FIFO over SyncFIFOBuffered, WEAKER than the property's "iff" (which the unchanged code does not meet, see the example below): methods execute iff attempted and ready; read ready ⇒ non-empty; write ready ⇒ not full; and readiness is at most one cycle late: non-empty but read not ready ⇒ read ready in the next cycle, not full but write not ready ⇒ write ready in the next cycle
theorem c14_buffered_ready_partial (d : Nat) (is : List In) (i j : In) :
    let o := (step d (after d is) i).2
    let o' := (step d (after d (is ++ [i])) j).2
    (o.rd.isSome = true ↔ (i.r = true ∧ o.rrdy = true)) ∧
    (o.wr = if o.wrdy = true then i.w else none) ∧
    (o.rrdy = true → stored d is ≠ []) ∧
    (o.wrdy = true → (stored d is).length < d) ∧
    (stored d is ≠ [] → o.rrdy = false → o'.rrdy = true) ∧
    ((stored d is).length < d → o.wrdy = false → o'.wrdy = true) := by
  have hinv := inv_after d is
  have e : after d (is ++ [i]) = (step d (after d is) i).1 := by
    simp [after, run, runWith_append, runWith]
  rw [e]
  unfold stored
  generalize after d is = s at *
  obtain ⟨inner, rv, rd⟩ := s
  obtain ⟨w, r⟩ := i
  have hi := hinv.hi
  simp only at hi
  by_cases hd0 : d = 0
  · have := hinv.h0 hd0
    simp only at this
    subst hd0; subst this
    have hin : inner = [] := by cases inner <;> simp_all
    subst hin
    simp [step, abs]
  · by_cases hd1 : d = 1
    · subst hd1
      have hin : inner = [] := by cases inner <;> simp_all
      subst hin
      cases rv <;> cases w <;> cases r <;> simp [step, abs]
    · have hne : ¬ d - 1 = 0 := by omega
      simp only [step, hd0, hd1, if_false]
      by_cases hf : inner.length = d - 1
      · cases inner <;> cases rv <;> cases r <;> simp_all [abs] <;> omega
      · have : inner.length < d - 1 := by omega
        cases inner <;> cases rv <;> cases r <;> cases w <;> simp_all [abs] <;> omega

/-- non-vacuity: depth 3, writes and reads interleaved; the three values come out once, in order -/
example :
    let is : List In := [⟨some 1, true⟩, ⟨some 2, true⟩, ⟨some 3, true⟩, ⟨none, true⟩, ⟨none, true⟩, ⟨none, true⟩]
    (run 3 init is).2.map (fun o => (o.wr, o.rd)) =
      [(some 1, none), (some 2, none), (some 3, some 1), (none, some 2), (none, some 3), (none, none)] ∧
    hist (events 3 is) = ([1, 2, 3], [1, 2, 3]) ∧ stored 3 is = [] := by decide

/-- the readiness "iff" of the property FAILS on this configuration class (unchanged code, finding
    F-c14-1): depth 2, after one write the queue holds one element, yet neither `read` (output
    register still empty) nor `write` (inner memory of depth 1 full) is ready -/
example :
    stored 2 [⟨some 1, false⟩] = [1] ∧
    (step 2 (after 2 [⟨some 1, false⟩]) ⟨none, true⟩).2.rrdy = false ∧
    (step 2 (after 2 [⟨some 1, false⟩]) ⟨none, true⟩).2.wrdy = false := by decide

end TxV.BufferedFifo

#print axioms TxV.BasicFifo.c14_refines
#print axioms TxV.BasicFifo.c14_order
#print axioms TxV.BasicFifo.c14_read_value
#print axioms TxV.BasicFifo.c14_peek
#print axioms TxV.BasicFifo.c14_ready
#print axioms TxV.BasicFifo.c14_clear
#print axioms TxV.BasicFifo.c14_callers
#print axioms TxV.BasicFifo.c14_fifo_callers
#print axioms TxV.BasicFifo.c14_fifo_order
#print axioms TxV.BasicFifo.c14_fifo_read_value
#print axioms TxV.BasicFifo.c14_fifo_ready
#print axioms TxV.BufferedFifo.c14_buffered_data
#print axioms TxV.BufferedFifo.c14_buffered_order
#print axioms TxV.BufferedFifo.c14_buffered_read_value
#print axioms TxV.BufferedFifo.c14_buffered_ready_partial
