import TxV.Proofs.MultiportMemIlvtOuter
/-!
# C23 — multiport memories are equivalent to an ideal synchronous memory

"MultiReadMemory, MultiportXORMemory, MultiportXORILVTMemory and MultiportOneHotILVTMemory
produce, on every read port and in every cycle, the same data as an ideal Amaranth synchronous
memory with the same initial contents, read-enable behaviour, transparency and write
granularity, for every port sequence in which no two write ports address the same row in one
cycle" — for every (depth, width, read/write port count, init, transparency, granularity)
configuration the constructors accept.

`Ideal` (TxV/Model/MultiportMem.lean) is the ideal Amaranth synchronous memory; `X.run c (X.init c) is`
is the list, cycle by cycle, of the data shown by all read ports of class `X` from reset under the
port history `is`.  All theorems are for every depth, width, initial contents, number of read
ports, per-port transparency sets and every history; "for every number of write ports" is
`c.nw = c.grans.length` arbitrary.

Hypotheses and where they come from (each excluded point was tried on the real code):
* `OkIn c i`: one entry per write port; the enables have one bit (the constructors of the XOR
  memory and of the one-hot table refuse granularity, so this is every accepted configuration;
  for the ILVT memories it excludes granularity — finding F9, the real classes accept it and answer
  wrongly); addresses are rows (`< depth`; for a depth that is not a power of two larger addresses
  are representable: there MultiportXORMemory's bypass shows the dropped write, Amaranth shows 0);
  and the property's own hypothesis `DistinctRows` (enabled write ports address distinct rows).
* `0 < c.nw` for the XOR/ILVT classes: with no write port they have no bank at all and show 0
  instead of `init` (real code: same).
-/
namespace TxV.MultiportMem

-- OBLIGATION c23_refines_multiread : MultiReadMemory shows on every read port in every cycle the data of the ideal memory - every depth/width/init, every number of read ports, every transparency set, the optional write port with every granularity, every history (no hypothesis at all)
theorem c23_refines_multiread (c : Cfg) (is : List In) :
    MultiRead.run c (MultiRead.init c) is = Ideal.run c (Ideal.init c) is :=
  MultiRead.run_eq c is _ _ (MultiRead.rel_init c)

-- OBLIGATION xor_write_restores : algebraic core of the XOR memory for ANY number n of write ports: after port j wrote d (its bank receives d xor the rows of all other banks) the XOR of all banks at that row is d
theorem xor_write_restores (n j d : Nat) (bank : Nat → Nat) (hj : j < n) :
    xorAll (fun k => if k = j then d ^^^ xorExcept bank j n else bank k) n = d := by
  apply xorAll_restore (f := bank) d hj
  · simp
  · intro k _ hne; simp [hne]

-- OBLIGATION onehot_ilvt_decode : algebraic core of the one-hot ILVT for ANY number nw of write ports: after port j wrote a row (bank j receives the mutual-exclusion code computed from the other banks' rows, whatever they hold) the decode marks bank idx consistent iff idx = j
theorem onehot_ilvt_decode (nw : Nat) (row : Nat → List Bool) (j idx : Nat) (hj : j < nw) (hidx : idx < nw) :
    OneHot.consistent nw (OneHot.wrote nw row j) idx ↔ idx = j :=
  OneHot.consistent_wrote nw row hj hidx

-- OBLIGATION onehot_ilvt_decode_later : a later write by j' (after j wrote the same row) makes j' the unique consistent bank; and in the reset state (all rows zero) bank 0, the one initialised with init, is the unique consistent bank
theorem onehot_ilvt_decode_later (nw : Nat) (row : Nat → List Bool) (j j' idx : Nat) (hj' : j' < nw)
    (hidx : idx < nw) :
    (OneHot.consistent nw (OneHot.wrote nw (OneHot.wrote nw row j) j') idx ↔ idx = j') ∧
    (OneHot.consistent nw (fun _ => OneHot.zeroRow nw) idx ↔ idx = 0) :=
  ⟨OneHot.consistent_wrote nw _ hj' hidx, OneHot.consistent_zero nw hidx⟩

-- OBLIGATION c23_refines_xor : MultiportXORMemory (two-stage write pipeline, feedback banks, double-stage and transparent bypasses as in memory.py:204-302) shows on every read port in every cycle the data of the ideal memory - every depth/width/init, every number >= 1 of write ports and every number of read ports, every transparency set, every history of in-range port values whose enabled write ports address pairwise distinct rows
theorem c23_refines_xor (c : Cfg) (hnw : 0 < c.nw) (hg : ∀ g ∈ c.grans, g = 0) (is : List In)
    (his : ∀ i ∈ is, OkIn c i) :
    Xor.run c (Xor.init c) is = Ideal.run c (Ideal.init c) is :=
  Xor.run_eq hg is his (Xor.inv_init c hnw)

-- OBLIGATION c23_onehot_table : OneHotCodedILVT (two-stage write pipeline with feedback ports, transparent banks and bypass registers as in memory.py:322-439) answers, in the cycle after an enabled read, with the one-hot code of the write port that wrote the row last (port 0 for a row never written), i.e. its encoded answer equals the read register of an ideal non-transparent memory of port numbers - every depth, every number >= 1 of write ports, every number of read ports, every history with distinct enabled write rows
theorem c23_onehot_table (c : Cfg) (hnw : 0 < c.nw) (is : List In) (his : ∀ i ∈ is, OkIn c i) (i : In)
    (hi : OkIn c i) (r : Nat) (hr : r < c.nr) (hen : i.rEn r = true) :
    OneHot.encode (OneHot.outR c.nw (OneHot.runSt c (OneHot.init c.depth c.nw c.nr) (is ++ [i])) r)
      = nthD 0 (OneHot.runIdeal c (Ideal.init (Ilvt.tableCfg c)) (is ++ [i])).rdata r := by
  obtain ⟨R, hR⟩ := OneHot.inv_run (is ++ [i])
    (fun j hj => by
      rcases List.mem_append.mp hj with h | h
      · exact his j h
      · simp at h; subst h; exact hi)
    (OneHot.inv_init c hnw)
  apply hR.out r hr
  simp only [OneHot.runSt, List.foldl_append, List.foldl_cons, List.foldl_nil]
  rw [OneHot.step_rdEnBy _ _ _ _ hr, tableIn_rEn c i hr]
  exact hen

-- OBLIGATION c23_refines_ilvt : MultiportILVTMemory with each of its tables - MultiportXORILVTMemory (kind xor), MultiportOneHotILVTMemory (kind onehot: OneHotCodedILVT + Encoder), and the constructor default amaranth Memory (kind plain) - i.e. banks + table + bypass registers as in memory.py:466-559, shows on every read port in every cycle the data of the ideal memory - every depth/width/init, every number >= 1 of write ports and every number of read ports, every transparency set, every history of in-range port values whose enabled write ports address pairwise distinct rows; granularity None (with granularity the real classes fail: finding F9)
theorem c23_refines_ilvt (kind : Ilvt.Kind) (c : Cfg) (hnw : 0 < c.nw) (hg : ∀ g ∈ c.grans, g = 0)
    (is : List In) (his : ∀ i ∈ is, OkIn c i) :
    Ilvt.run c (Ilvt.init kind c) is = Ideal.run c (Ideal.init c) is :=
  Ilvt.run_eq hg is his (Ilvt.inv_init kind c hnw)

/-! ### non-vacuity -/

instance (nw : Nat) (i : In) : Decidable (DistinctRows nw i) :=
  decidable_of_iff (∀ j, j < nw → ∀ k, k < nw → ¬ (j ≠ k ∧ i.wEn j = true ∧ i.wEn k = true ∧ i.wAddr j = i.wAddr k))
    ⟨fun h j k hj hk h1 h2 h3 h4 => h j hj k hk ⟨h1, h2, h3, h4⟩,
     fun h j hj k hk ⟨h1, h2, h3, h4⟩ => h j k hj hk h1 h2 h3 h4⟩

instance (d nw nr : Nat) (i : In) : Decidable (InRange d nw nr i) := by unfold InRange; infer_instance

/-- a 3-row, 2-write-port, 2-read-port (one transparent for both ports, one not) configuration with
    initial contents, and a history with simultaneous writes, a same-cycle read of a written row and
    reads one and two cycles after a write (all bypass paths) -/
def exCfg : Cfg := { depth := 3, w := 4, init := [9, 5], grans := [0, 0], trs := [3, 0] }
def exHist : List In :=
  [⟨[⟨1, 1, 7⟩, ⟨1, 2, 12⟩], [⟨true, 1⟩, ⟨true, 1⟩]⟩,
   ⟨[⟨0, 0, 0⟩, ⟨1, 1, 3⟩], [⟨true, 1⟩, ⟨true, 2⟩]⟩,
   ⟨[⟨1, 0, 6⟩, ⟨0, 0, 0⟩], [⟨true, 1⟩, ⟨true, 1⟩]⟩,
   ⟨[⟨0, 1, 1⟩, ⟨0, 1, 2⟩], [⟨false, 0⟩, ⟨true, 0⟩]⟩,
   ⟨[⟨0, 0, 0⟩, ⟨0, 0, 0⟩], [⟨false, 0⟩, ⟨false, 0⟩]⟩]

/-- non-vacuity: the hypotheses of `c23_refines_xor` hold for this history … -/
example : 0 < exCfg.nw ∧ (∀ g ∈ exCfg.grans, g = 0) ∧ ∀ i ∈ exHist, OkIn exCfg i := by
  refine ⟨by decide, by decide, ?_⟩
  intro i hi
  simp only [exHist, List.mem_cons, List.not_mem_nil, or_false] at hi
  rcases hi with h | h | h | h | h <;> subst h <;>
    exact ⟨by decide, by decide, by decide, by decide⟩

/-- … and the data shown is not trivial: transparent port 0 sees 7 in the cycle after the write,
    port 1 the old 5; then 3 (written over by the other port), 12, 6 -/
example : Xor.run exCfg (Xor.init exCfg) exHist = [[0, 0], [7, 5], [3, 12], [3, 3], [3, 6]] := by decide

example : Ilvt.run exCfg (Ilvt.init .xor exCfg) exHist = [[0, 0], [7, 5], [3, 12], [3, 3], [3, 6]] := by decide
example : Ilvt.run exCfg (Ilvt.init .onehot exCfg) exHist = [[0, 0], [7, 5], [3, 12], [3, 3], [3, 6]] := by decide
example : Ilvt.run exCfg (Ilvt.init .plain exCfg) exHist = [[0, 0], [7, 5], [3, 12], [3, 3], [3, 6]] := by decide

example : MultiRead.run { exCfg with grans := [2] } (MultiRead.init { exCfg with grans := [2] })
    [⟨[⟨1, 1, 15⟩], [⟨true, 1⟩, ⟨true, 1⟩]⟩, ⟨[⟨2, 1, 0⟩], [⟨true, 1⟩, ⟨true, 0⟩]⟩, ⟨[], [⟨true, 1⟩, ⟨false, 0⟩]⟩, ⟨[], []⟩]
    = [[0, 0], [7, 5], [3, 9], [3, 9]] := by decide

/-- the one-hot code for three write ports: rows of 2 bits; port 2 writes over arbitrary rows, then port 0 -/
example : (List.range 3).map (fun idx => decide (OneHot.consistent 3
      (OneHot.wrote 3 (fun k => [[true, false], [true, true], [false, true]].getD k []) 2) idx)) = [false, false, true] ∧
    (List.range 3).map (fun idx => decide (OneHot.consistent 3
      (OneHot.wrote 3 (OneHot.wrote 3 (fun k => [[true, false], [true, true], [false, true]].getD k []) 2) 0) idx))
      = [true, false, false] := by decide

end TxV.MultiportMem

#print axioms TxV.MultiportMem.c23_refines_multiread
#print axioms TxV.MultiportMem.xor_write_restores
#print axioms TxV.MultiportMem.onehot_ilvt_decode
#print axioms TxV.MultiportMem.onehot_ilvt_decode_later
#print axioms TxV.MultiportMem.c23_refines_xor
#print axioms TxV.MultiportMem.c23_onehot_table
#print axioms TxV.MultiportMem.c23_refines_ilvt
