import TxV.Proofs.RoundRobin
/-!
# C39 — RoundRobin arbiters grant fairly

"OneHotRoundRobin grants exactly one requester (one-hot) whenever any request is present and
otherwise grants none with valid low; RoundRobin's grant always designates an active requester
when valid; both serve a continuously requesting input within count cycles."

State of `OneHotRoundRobin` = index `g < count` of the set bit of `grant_reg` (all reachable
states; every such `g` is reachable).  State of `RoundRobin` = registers `grant < count`, `valid`.
All theorems are for every `count = n`, every such state and every request history.

Reading of "otherwise grants none": with no request the code drives `grant = grant_reg` (the old
holder, elaboratables.py:181) and `valid = 0`; the `grant` lines are qualified by `valid`, so
"grants none" is `valid = false` (and the register does not move).
-/
namespace TxV.RoundRobin

-- OBLIGATION c39_onehot : OneHotRoundRobin, any request present ⇒ valid is high and grant is one-hot (exactly bit p, p < count) and p is a requester (every count, every reachable state g < count, every request vector)
theorem c39_onehot {n g : Nat} (req : Nat → Bool) (hg : g < n) (h : ∃ j, j < n ∧ req j = true) :
    (rrStep n g req).2.valid = true ∧
    ∃ p, p < n ∧ req p = true ∧ (rrStep n g req).2.grant = 2 ^ p ∧
      ∀ i, (rrStep n g req).2.grant.testBit i = true ↔ i = p := by
  refine ⟨anyReq_true.2 h, pick n g req, pick_lt hg, pick_requests hg h, rfl, fun i => ?_⟩
  simp only [rrStep, Nat.testBit_two_pow]
  constructor
  · intro h; exact (of_decide_eq_true h).symm
  · intro h; exact decide_eq_true h.symm

-- OBLIGATION c39_none : OneHotRoundRobin, no request ⇒ valid is low (nothing is granted) and the grant register keeps its value
theorem c39_none {n g : Nat} (req : Nat → Bool) (hn : 0 < n) (h : ∀ j, j < n → req j = false) :
    (rrStep n g req).2.valid = false ∧ (rrStep n g req).1 = g := by
  exact ⟨anyReq_false.2 h, pick_none h hn⟩

-- OBLIGATION c39_bin_valid : RoundRobin, after any cycle: valid' ⇒ requests[grant'] of that cycle was set and grant' < count; valid' is low iff there was no request (every count, every reachable state)
theorem c39_bin_valid {n : Nat} (s : BinState) (req : Nat → Bool) (hs : s.grant < n) :
    ((binStep n s req).valid = true → req (binStep n s req).grant = true) ∧
    (binStep n s req).grant < n ∧
    ((binStep n s req).valid = true ↔ ∃ j, j < n ∧ req j = true) := by
  refine ⟨fun hv => pick_requests hs (anyReq_true.1 hv), pick_lt hs, anyReq_true⟩

-- OBLIGATION c39_bin_history : RoundRobin over every history from reset: whenever the outputs sampled in cycle t+1 have valid high, grant designates an input that requested in cycle t
theorem c39_bin_history {n : Nat} (hn : 0 < n) (rs : List (Nat → Bool)) (t : Nat) (o' : BinState) (r : Nat → Bool)
    (h1 : (binRun n binInit rs)[t+1]? = some o') (hr : rs[t]? = some r) (hv : o'.valid = true) :
    o'.grant < n ∧ r o'.grant = true := by
  have hlen : t < (binRun n binInit rs).length := by
    have := (List.getElem?_eq_some_iff.1 h1).1; omega
  obtain ⟨ho, he⟩ := binRun_getElem rs binInit t _ o' r (by simpa [binInit] using hn)
    (List.getElem?_eq_getElem hlen) h1 hr
  subst he
  exact ⟨pick_lt ho, (c39_bin_valid _ r ho).1 hv⟩

-- OBLIGATION c39_fair_onehot : OneHotRoundRobin serves an input that requests continuously within count cycles: from every reachable state g0 < count, every count ≥ 1, every request history in which j requests in cycles 0..count-1, some cycle t < count has grant = bit j (valid high)
theorem c39_fair_onehot {n j g0 : Nat} (reqs : Nat → Nat → Bool) (hj : j < n) (hg : g0 < n)
    (h : ∀ t, t < n → reqs t j = true) :
    ∃ t, t < n ∧ (rrStep n (traj n reqs g0 t) (reqs t)).2 = { grant := 2 ^ j, valid := true } := by
  obtain ⟨t, ht, he⟩ := rr_fair_n reqs hj hg h
  refine ⟨t, ht, ?_⟩
  simp only [rrStep, he]
  congr
  exact anyReq_true.2 ⟨j, hj, h t ht⟩

-- OBLIGATION c39_fair_bin : RoundRobin serves an input that requests continuously within count cycles: from every reachable state (grant < count, any valid), some cycle t < count loads grant = j with valid high
theorem c39_fair_bin {n j : Nat} (s0 : BinState) (reqs : Nat → Nat → Bool) (hj : j < n) (hg : s0.grant < n)
    (h : ∀ t, t < n → reqs t j = true) :
    ∃ t, t < n ∧ binStep n { grant := traj n reqs s0.grant t, valid := (if t = 0 then s0.valid else anyReq n (reqs (t-1))) } (reqs t)
      = { grant := j, valid := true } := by
  obtain ⟨t, ht, he⟩ := rr_fair_n reqs hj hg h
  refine ⟨t, ht, ?_⟩
  simp only [binStep, he]
  congr
  exact anyReq_true.2 ⟨j, hj, h t ht⟩

-- OBLIGATION c39_bin_traj : the register trajectory of RoundRobin is the state used in c39_fair_bin (grant follows `traj`, valid = any request of the previous cycle)
theorem c39_bin_traj (n : Nat) (reqs : Nat → Nat → Bool) (s0 : BinState) (t : Nat) :
    binTraj n reqs s0 t =
      { grant := traj n reqs s0.grant t, valid := (if t = 0 then s0.valid else anyReq n (reqs (t-1))) } := by
  induction t with
  | zero => simp [binTraj, traj]
  | succ t ih => rw [binTraj, ih]; simp [binStep, traj]

-- OBLIGATION c39_pick_order : the selection `pick` used by both arbiters is the first requester in the order g+1, …, count-1, 0, …, g-1 in which the source's If-chain gives priority (last assignment wins), g itself otherwise
theorem c39_pick_order {n g : Nat} (hg : g < n) (req : Nat → Bool) : pickSrc n g req = pick n g req :=
  pickSrc_eq_pick hg req

/-- non-vacuity: 5 inputs, register at 3, requests {1,3}: input 1 is granted (one-hot 2), then with
    input 3 requesting continuously it is served in the next cycle -/
example : (rrStep 5 3 (reqOf 0b01010)).2 = { grant := 2, valid := true } ∧
    (rrStep 5 1 (reqOf 0b01000)).2 = { grant := 8, valid := true } ∧
    (rrStep 5 1 (reqOf 0)).2 = { grant := 2, valid := false } := by decide

example : binRun 3 binInit [reqOf 0b101, reqOf 0b101, reqOf 0, reqOf 0b010] =
    [⟨0, false⟩, ⟨2, true⟩, ⟨0, true⟩, ⟨0, false⟩] := by decide

end TxV.RoundRobin

#print axioms TxV.RoundRobin.c39_onehot
#print axioms TxV.RoundRobin.c39_none
#print axioms TxV.RoundRobin.c39_bin_valid
#print axioms TxV.RoundRobin.c39_bin_history
#print axioms TxV.RoundRobin.c39_fair_onehot
#print axioms TxV.RoundRobin.c39_fair_bin
#print axioms TxV.RoundRobin.c39_bin_traj
#print axioms TxV.RoundRobin.c39_pick_order
