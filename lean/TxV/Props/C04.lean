import TxV.Core.Example2
/-!
# C04 — methods execute exactly when called by a running caller

"A method runs in a cycle if and only if at least one of its call sites is active in that cycle; a
method that is never called never runs, and a nested transaction or method never runs in a cycle
where its enclosing body does not run."

`MethodRunEq D v run` is the equation of manager.py:550–555 (`method.run = OR over calling
transactions of run & OR of the chain enables`); `activeSites D v run m` is the list of entries of
the `runs` vector of `_method_calls` (manager.py:342: `source.run & enable`) that are 1.
-/
namespace TxV.Core

variable {D : Design} {v : Val} {S : Sched} {run : Nat → Bool}

-- OBLIGATION c04_iff : sentence 1 (under driver-checked hypotheses WF and MethodRunEq = methodRunB, the equation of manager.py:550-555): for every well-formed design (callees are methods of the design), every valuation and every run assignment satisfying the method-run equations, a method runs iff its list of active call sites (caller runs ∧ enable_sig) is non-empty — call chains of any depth
theorem c04_iff (hwf : D.WF) (hm : MethodRunEq D v run) {m : Nat} (hlt : m < D.n)
    (hmt : D.isTrans m = false) : run m = true ↔ activeSites D v run m ≠ [] :=
  run_iff_active hwf hm hlt hmt

-- OBLIGATION c04_uncalled : sentence 2: a method that no call site targets never runs
theorem c04_uncalled (hm : MethodRunEq D v run) {m : Nat} (hlt : m < D.n) (hmt : D.isTrans m = false)
    (hun : ∀ c ∈ D.allCalls, c.callee ≠ m) : run m = false :=
  uncalled_never_runs hm hlt hmt hun

-- OBLIGATION c04_unreached : sentence 2, stronger: a method that no transaction reaches (transactions_for = []) never runs, even if other unreached methods call it
theorem c04_unreached (hm : MethodRunEq D v run) {m : Nat} (hlt : m < D.n) (hmt : D.isTrans m = false)
    (hun : ∀ t, ¬ TransFor D t m) : run m = false :=
  unreached_never_runs hm hlt hmt hun

-- OBLIGATION c04_nested : sentence 3, both schedulers (under driver-checked hypotheses MethodRunEq, Grants): a body that is ready-dependent on p (nested in p, body.py:94) runs only if p runs — transactions through their own runnable term, methods through the runnable term of the calling transaction
theorem c04_nested (hm : MethodRunEq D v run) (hg : Grants D v run) {p b : Nat} (hlt : b < D.n)
    (hd : ReadyDep D p b) (hr : run b = true) : run p = true :=
  readyDep_runs hm hg hlt hd hr

-- OBLIGATION c04_nesting_readyDep : sentence 3, where the dependency comes from: the relation Body.context adds to the enclosing body (body.py:94) makes the nested body ready-dependent on it
theorem c04_nesting_readyDep {p b : Nat} (hp : p < D.n) (h : nestRel b ∈ (D.body p).rels) : ReadyDep D p b :=
  nesting_readyDep hp h

/-- non-vacuity (nesting): in the second example transaction `K` (body 4) is nested in method `N`
(body 2); in the cycle where `N` is not ready neither `N` nor `K` runs, in the other both run -/
example : nestRel 4 ∈ (Ex2.D.body 2).rels ∧ cycleEagerB Ex2.D Ex2.v Ex2.S Ex2.run = true ∧
    Ex2.run 4 = true ∧ Ex2.run 2 = true ∧ cycleEagerB Ex2.D Ex2.v' Ex2.S Ex2.run' = true ∧
    Ex2.v'.ready 4 = true ∧ Ex2.run' 4 = false :=
  ⟨by decide, Ex2.cycleEager, rfl, rfl, Ex2.cycleEager', rfl, rfl⟩

/-- non-vacuity: in the example cycle `M4` runs and has a non-empty active-site list; the example
design extended by a sixth body (an uncalled method) satisfies the hypotheses of `c04_uncalled` -/
example : decide Ex.D.WF = true ∧ methodRunB Ex.D Ex.v Ex.run = true ∧ Ex.run 4 = true ∧
    activeSites Ex.D Ex.v Ex.run 4 ≠ [] ∧
    (let D' : Design := ⟨Ex.D.bodies ++ [Body.empty]⟩
     methodRunB D' Ex.v Ex.run = true ∧ 5 < D'.n ∧ D'.isTrans 5 = false ∧
       (D'.allCalls.all fun c => c.callee != 5) = true) :=
  ⟨by decide, Ex.methodRun, rfl, by decide, by decide⟩

end TxV.Core

#print axioms TxV.Core.c04_iff
#print axioms TxV.Core.c04_uncalled
#print axioms TxV.Core.c04_unreached
#print axioms TxV.Core.c04_nested
#print axioms TxV.Core.c04_nesting_readyDep
