import TxV.Proofs.Semaphore
/-!
# C20 — Semaphore counts acquisitions

"The Semaphore count always equals acquisitions minus releases since the last clear,
acquire is ready iff the count is below the maximum and release iff it is positive, and
clear resets the count to zero."

All theorems are for every `max`, every history of attempted calls, from the reset state.
-/
namespace TxV.Semaphore

-- OBLIGATION c20_count : count = acquisitions − releases since the last clear (every history, every max)
theorem c20_count (max : Nat) (is : List In) :
    (run (init max) is).1.count + rels (sinceClear (run (init max) is).2)
      = acqs (sinceClear (run (init max) is).2) := by
  have hi := inv_init max
  have hc := run_count (init max) is hi
  have hr := run_relOk (init max) is hi
  rw [hc]
  by_cases h : (run (init max) is).2.any (·.clr) = true
  · exact spec_sinceClear _ _ h hr
  · have h' : (run (init max) is).2.any (·.clr) = false := by simpa using h
    rw [sinceClear_noclear _ h']
    have := spec_noclear _ _ h' hr
    simpa [init] using this

-- OBLIGATION c20_bounded : the count never exceeds the maximum (reachable states)
theorem c20_bounded (max : Nat) (is : List In) :
    (run (init max) is).1.count ≤ max := by
  have := run_inv (init max) is (inv_init max)
  unfold Inv at this
  rwa [run_max] at this

-- OBLIGATION c20_ready : acquire executes iff attempted and count < max; release iff attempted and count > 0; clear whenever attempted
theorem c20_ready (s : State) (i : In) :
    ((step s i).2.acq = true ↔ (i.acq = true ∧ s.count < s.max)) ∧
    ((step s i).2.rel = true ↔ (i.rel = true ∧ 0 < s.count)) ∧
    ((step s i).2.clr = i.clr) := by
  simp [step, acquireReady, releaseReady]

-- OBLIGATION c20_clear : clear resets the count to zero, whatever else runs in that cycle
theorem c20_clear (s : State) (i : In) (h : i.clr = true) : (step s i).1.count = 0 := by
  simp [step, h]

-- OBLIGATION c20_holders_bounded : acquisitions since the last clear never exceed the releases since then by more than max (every history)
theorem c20_holders_bounded (max : Nat) (is : List In) :
    acqs (sinceClear (run (init max) is).2) ≤ rels (sinceClear (run (init max) is).2) + max := by
  have h1 := c20_count max is
  have h2 := c20_bounded max is
  omega

-- OBLIGATION c20_no_deadlock : for max > 0 every reachable state has acquire ready or release ready (the two readiness conditions cover all counts)
theorem c20_no_deadlock (max : Nat) (hm : 0 < max) (is : List In) :
    acquireReady (run (init max) is).1 = true ∨ releaseReady (run (init max) is).1 = true := by
  have hmx : (run (init max) is).1.max = max := by rw [run_max]; rfl
  simp only [acquireReady, releaseReady, decide_eq_true_eq, hmx]
  omega

-- OBLIGATION c20_exchange : in a reachable state an acquire and a release executing in the same cycle (no clear) leave the count unchanged; the register truncation never interferes
theorem c20_exchange (max : Nat) (is : List In) (i : In) :
    let s := (run (init max) is).1
    (step s i).2.acq = true → (step s i).2.rel = true → i.clr = false →
    (step s i).1.count = s.count := by
  intro s ha hr hc
  have hinv : Inv s := run_inv (init max) is (inv_init max)
  have h := step_count s i hinv
  have hclr : (step s i).2.clr = i.clr := (c20_ready s i).2.2
  rw [h, hclr, hc, ha, hr]
  simp

-- OBLIGATION c20_full_empty : acquire is refused exactly in the reachable states holding max acquisitions, release exactly in those holding none
theorem c20_full_empty (max : Nat) (is : List In) :
    (acquireReady (run (init max) is).1 = false ↔ (run (init max) is).1.count = max) ∧
    (releaseReady (run (init max) is).1 = false ↔ (run (init max) is).1.count = 0) := by
  have hmx : (run (init max) is).1.max = max := by rw [run_max]; rfl
  have hb := c20_bounded max is
  simp only [acquireReady, releaseReady, decide_eq_false_iff_not, hmx]
  omega

/-- non-vacuity of `c20_exchange`: acquire and release both execute at count 1 of 2 -/
example :
    let s := (run (init 2) [⟨true, false, false⟩]).1
    (step s ⟨true, true, false⟩).2.acq = true ∧ (step s ⟨true, true, false⟩).2.rel = true ∧
    (step s ⟨true, true, false⟩).1.count = 1 := by decide

/-- non-vacuity: a concrete history with a clear in the middle and both methods active -/
example :
    let is : List In := [⟨true, false, false⟩, ⟨true, true, false⟩, ⟨true, false, true⟩, ⟨true, true, false⟩, ⟨true, true, false⟩]
    (run (init 2) is).1.count = 1 ∧ acqs (sinceClear (run (init 2) is).2) = 2 ∧ rels (sinceClear (run (init 2) is).2) = 1 := by
  decide

end TxV.Semaphore

#print axioms TxV.Semaphore.c20_count
#print axioms TxV.Semaphore.c20_bounded
#print axioms TxV.Semaphore.c20_ready
#print axioms TxV.Semaphore.c20_clear
#print axioms TxV.Semaphore.c20_holders_bounded
#print axioms TxV.Semaphore.c20_no_deadlock
#print axioms TxV.Semaphore.c20_exchange
#print axioms TxV.Semaphore.c20_full_empty
