import TxV.Proofs.Assign
/-!
# C40 — structured assignment copies exactly the selected fields

"For every pair of layouts or dicts and every field selection, assign either raises (missing fields,
shape mismatch) or produces statements after which every selected field of the left side equals the
corresponding right-side field and nothing else is assigned."

Model: `TxV/Model/Assign.lean` (`assign lhs rhs sel : Except Err (List Pair)`; one `Pair` per generated
`lhs.eq(rhs)` statement: the key paths to its two operands, whether the shape check was made, and the bit
flow).  Vocabulary (`TxV/Proofs/Assign.lean`): a `Call` is one activation of `assign`; `Step c c'` = at `c`
the non-recursive part of `assign` (`plan`) decides to descend into a list `names` of member names and `c'`
is the recursive call for a member `k ∈ names` present on the left; `Reach` = reflexive-transitive closure.
The *selected leaf pairs* of a call are the reachable calls whose `plan` is `leaf`; `leafOf` is the
statement built there.  All theorems hold for every object tree (views over arbitrarily nested
struct/array/union layouts, dicts, lists, ArrayProxies, ints) and every selection.
-/
namespace TxV.Assign

/-- the call `assign(lhs, rhs, fields=sel)` made by a user -/
def root (lhs rhs : Obj) (sel : Sel) : Call := nrm lhs none none rhs sel false false [] []

-- OBLIGATION c40_sound : nothing else is assigned: every generated statement is the statement of a selected leaf pair (a call reachable from the user's call by descending only into selected member names, whose operands are not both containers)
theorem c40_sound (lhs rhs : Obj) (sel : Sel) (ps : List Pair) (h : assign lhs rhs sel = .ok ps) :
    ∀ p ∈ ps, ∃ c', Reach (root lhs rhs sel) c' ∧ c'.planOf = .ok .leaf ∧ c'.leafOf = .ok [p] :=
  soundObj lhs none none rhs sel false false [] [] ps h

-- OBLIGATION c40_complete : every selected field is assigned: each selected leaf pair has its statement among the generated ones
theorem c40_complete (lhs rhs : Obj) (sel : Sel) (ps : List Pair) (h : assign lhs rhs sel = .ok ps) :
    ∀ c', Reach (root lhs rhs sel) c' → c'.planOf = .ok .leaf → ∃ p ∈ ps, c'.leafOf = .ok [p] :=
  completeObj lhs none none rhs sel false false [] [] ps h

-- OBLIGATION c40_once : each once: no two statements have the same left operand path, provided member names are pairwise distinct at every level of the left operand (wfObj: struct members and dicts are Python dicts, so every Python operand satisfies it)
theorem c40_once (lhs rhs : Obj) (sel : Sel) (ps : List Pair) (hw : wfObj lhs) (h : assign lhs rhs sel = .ok ps) :
    (ps.map (·.lpath)).Nodup :=
  nodupObj lhs none none rhs sel false false [] [] ps hw h

-- OBLIGATION c40_same_path : same path both sides: a statement's operands are found under the same key path q on the left and on the right, followed on each side only by a chain of single-member views (the unwrapping loops); its flow copies the right operand into the left one, and when the shape check was made the two shapes are equal
theorem c40_same_path (lhs rhs : Obj) (sel : Sel) (ps : List Pair) (h : assign lhs rhs sel = .ok ps) :
    ∀ p ∈ ps, ∃ (c' : Call) (q : Path) (l : Obj) (ul : Path) (r : Obj) (ur : Path),
      Reach (root lhs rhs sel) c' ∧ c'.lp = q ∧ c'.rp = q ∧
      Chain c'.lc c'.lhs ul l ∧ Chain c'.R.1 c'.R.2 ur r ∧
      p.lpath = q ++ ul ∧ p.rpath = q ++ ur ∧ p.flow = flowOf c'.lc l c'.R.1 r ∧
      p.checked = (isVC c'.lc l || isVC c'.R.1 r ||
        ((strictAfter c'.ls ul l || explicit c'.lc l) && (strictAfter c'.rs ur r || explicit c'.R.1 r))) ∧
      (p.checked = true → shapeEq (shapeOf c'.lc l) (shapeOf c'.R.1 r) = true) := by
  intro p hp
  obtain ⟨c', hreach, _, hleaf⟩ := c40_sound lhs rhs sel ps h p hp
  obtain ⟨q, h1, h2⟩ := reach_paths hreach
  obtain ⟨_, _, _, l, ul, r, ur, hl, hr, hp1, hp2, hfl, hck, hsh⟩ := leaf_spec _ _ _ _ _ _ _ _ _ p hleaf
  have e1 : c'.lp = q := by rw [h1]; rfl
  have e2 : c'.rp = q := by rw [h2]; rfl
  exact ⟨c', q, l, ul, r, ur, hreach, e1, e2, unwrap_chain _ _ _ _ hl, unwrap_chain _ _ _ _ hr,
    by rw [hp1, e1], by rw [hp2, e2], hfl, hck, hsh⟩

-- OBLIGATION c40_shapes : equal shapes, full strength: every statement whose operands are not Python constants (ints, enum members) was shape-checked and copies between equal shapes - for all operands in which a value without explicit shape (the as_signed() operator of a signed member) occurs only as a member of a view (okE: true of everything Python can build from Signals, views, dicts, lists, Arrays and ints). Holds since /repo 744698a; before, the unwrapping loops lost the check (F-b7-1)
theorem c40_shapes (lhs rhs : Obj) (sel : Sel) (ps : List Pair) (h : assign lhs rhs sel = .ok ps)
    (hl : okE false lhs) (hr : okE false rhs) :
    ∀ p ∈ ps, ∃ (c' : Call) (l r : Obj) (ul ur : Path), Reach (root lhs rhs sel) c' ∧
      unwrap c'.lc c'.lhs = .ok (l, ul) ∧ unwrap c'.R.1 c'.R.2 = .ok (r, ur) ∧ p.flow = flowOf c'.lc l c'.R.1 r ∧
      (isLit l = false → isLit r = false →
        p.checked = true ∧ shapeEq (shapeOf c'.lc l) (shapeOf c'.R.1 r) = true) := by
  intro p hp
  obtain ⟨c', hreach, _, hleaf⟩ := c40_sound lhs rhs sel ps h p hp
  obtain ⟨_, hvl, hvr, l, ul, r, ur, hul, hur, _, _, hfl, hck, hsh⟩ := leaf_spec _ _ _ _ _ _ _ _ _ p hleaf
  have hroot : Inv (root lhs rhs sel) :=
    inv_nrm lhs none none rhs sel false false [] [] ⟨false, hl, fun e => by cases e⟩ ⟨false, hr, fun e => by cases e⟩
  have hinv := inv_reach hroot hreach
  refine ⟨c', l, r, ul, ur, hreach, hul, hur, hfl, fun hil hir => ?_⟩
  have h1 := side_checked c'.lc c'.lhs l ul c'.ls hinv.l (.inr hinv.np) hvl hul hil
  obtain ⟨hR, hRp⟩ := strip_side c'.rc c'.rhs c'.rs hinv.r
  have h2 := side_checked c'.R.1 c'.R.2 r ur c'.rs hR hRp hvr hur hir
  have hc : p.checked = true := by rw [hck, h1, h2]; simp
  exact ⟨hc, hsh hc⟩

-- OBLIGATION c40_select : field selection: when both operands have members, assign descends exactly into selNames (COMMON = intersection, LHS = left members, RHS = right members, ALL = union, iterable = its items, mapping = its keys), provided these are non-empty (or both operands have no members) and present on both sides; otherwise it raises; such a pair is never treated as a leaf
theorem c40_select (lc : Option PCtx) (lhs : Obj) (rc : Option PCtx) (rhs : Obj) (sel : Sel) (lf rf : List Key)
    (hl : argFields lc lhs = .ok (some lf)) (hr : argFields rc rhs = .ok (some rf)) :
    (∀ names, plan lc lhs rc rhs sel = .ok (.descend names) ↔
      (names = selNames sel lf rf ∧ (names = [] → lf = [] ∧ rf = []) ∧ ∀ n ∈ names, n ∈ lf ∧ n ∈ rf)) ∧
    plan lc lhs rc rhs sel ≠ .ok .leaf ∧
    (∀ n, n ∈ selNames sel lf rf ↔
      match sel with
      | .mode .common => n ∈ lf ∧ n ∈ rf
      | .mode .lhs => n ∈ lf
      | .mode .rhs => n ∈ rf
      | .mode .all => n ∈ lf ∨ n ∈ rf
      | .iter ks => n ∈ ks
      | .map ms => n ∈ ms.keys) :=
  ⟨(plan_containers lc lhs rc rhs sel lf rf hl hr).1, (plan_containers lc lhs rc rhs sel lf rf hl hr).2,
    fun n => mem_selNames sel lf rf n⟩

-- OBLIGATION c40_err : the raising cases: assign raises iff some selected call fails by itself - its plan raises (no common fields / a selected name missing on a side / ill-formed union assignment), its leaf statement raises (selection given for non-structures, unsupported operand, shape mismatch), or the right operand or the mapping selection has no entry for a selected member
theorem c40_err (lhs rhs : Obj) (sel : Sel) :
    (∃ e, assign lhs rhs sel = .error e) ↔ ∃ c', Reach (root lhs rhs sel) c' ∧ Fails c' := by
  constructor
  · rintro ⟨e, h⟩
    exact errObj lhs none none rhs sel false false [] [] e h
  · rintro ⟨c', hreach, hf⟩
    cases h : assign lhs rhs sel with
    | error e => exact ⟨e, rfl⟩
    | ok ps => exact absurd hf (okObj lhs none none rhs sel false false [] [] ps h c' hreach)

-- OBLIGATION c40_nested_proxy : nested ArrayProxies arr[i]..[k] of any depth: the object built for them is an ArrayProxy over ALL views below it (the recursive flatten_elems), and the signal it drives / reads at run time is the view selected by the index values
theorem c40_nested_proxy (t : PTree) (idxs : List Nat) (tmpl o : Obj) (h : nestedProxy t idxs tmpl = some o) :
    ∃ s i, t.select idxs = some s ∧ s ∈ t.leaves ∧ o = .proxy i t.leaves tmpl ∧ t.leaves[i]? = some s := by
  unfold nestedProxy at h
  cases hs : t.select idxs with
  | none => simp [hs] at h
  | some s =>
    simp only [hs, Option.map_some, Option.some.injEq] at h
    exact ⟨s, _, rfl, select_mem t idxs s hs, h.symm, getElem?_idxOf_mem _ s (select_mem t idxs s hs)⟩

/-- a struct view assigned from a larger struct view with an iterable selection -/
def exL : Obj := ofLayout (.struct (.cons "x" (.leaf 2 false) (.cons "y" (.leaf 1 false) .nil))) 0 0 true
def exR : Obj := ofLayout (.struct (.cons "x" (.leaf 2 false) (.cons "y" (.leaf 1 false) (.cons "z" (.leaf 3 true) .nil)))) 1 0 true

/-- non-vacuity: two statements, for x and y, nothing for z -/
example : (assign exL exR (.mode .common)).toOption.map (·.map (·.lpath)) = some [[.name "x"], [.name "y"]] ∧
    (assign exL exR (.mode .rhs)).toOption = none ∧ wfObj exL := by
  refine ⟨by decide, by decide, ?_⟩
  simp [exL, ofLayout, ofStruct, wfObj, wfMembers, Members.keys, fieldObj]

/-- non-vacuity of the hypothesis of `c40_shapes`: signals over layouts (signed members included) satisfy `okE` -/
example : okE false exL ∧ okE false exR := by
  simp [exL, exR, ofLayout, ofStruct, okE, okEM, fieldObj]

def raisesValueError (r : Except Err (List Pair)) : Bool :=
  match r with
  | .error .valueError => true
  | _ => false

/-- enum-shaped members: a `data.Const` member of an `enum.Enum` class is strict and carries its class as shape -
    into a plain 3-bit member it raises, into a member of the same class it is assigned; an `IntEnum` member is an
    int and is assigned unchecked (truncated) -/
example :
    raisesValueError (assign (ofLayout (.struct (.cons "a" (.leaf 3 false) (.cons "b" (.leaf 2 false) .nil))) 0 0 true)
      (ofConst (.struct (.cons "a" (.enum 3 1 false) (.cons "b" (.leaf 2 false) .nil))) 13) (.mode .all)) = true ∧
    ((assign (ofLayout (.struct (.cons "a" (.enum 3 1 false) (.cons "b" (.leaf 2 false) .nil))) 0 0 true)
      (ofConst (.struct (.cons "a" (.enum 3 1 false) (.cons "b" (.leaf 2 false) .nil))) 13) (.mode .all)).toOption.map
        (·.map (·.checked))) = some [true, false] ∧
    ((assign (ofLayout (.struct (.cons "a" (.leaf 1 false) (.cons "b" (.leaf 2 false) .nil))) 0 0 true)
      (ofConst (.struct (.cons "a" (.enum 3 7 true) (.cons "b" (.leaf 2 false) .nil))) 13) (.mode .all)).toOption.map
        (·.map (·.checked))) = some [false, false] := by
  decide

/-- regression examples of the two repaired defects: F-b7-1 `assign(Signal(4), Signal(StructLayout({"a": signed(3)})))`
    now raises (ValueError: shapes differ) in both directions; F-b7-2 an ArrayProxy over views of an ArrayLayout
    is a container with the index keys -/
example :
    raisesValueError (assign (ofLayout (.leaf 4 false) 0 0 true)
      (ofLayout (.struct (.cons "a" (.leaf 3 true) .nil)) 1 0 true) (.mode .rhs)) = true ∧
    raisesValueError (assign (ofLayout (.struct (.cons "a" (.leaf 3 true) .nil)) 1 0 true)
      (ofLayout (.leaf 4 false) 0 0 true) (.mode .rhs)) = true ∧
    ((assign (.proxy 0 [0, 1] (ofLayout (.array (.leaf 2 false) 2) 0 0 true)) (ofLayout (.array (.leaf 2 false) 2) 5 0 true)
      (.mode .rhs)).toOption.map (·.map (·.lpath))) = some [[.idx 0], [.idx 1]] := by
  decide

end TxV.Assign

#print axioms TxV.Assign.c40_sound
#print axioms TxV.Assign.c40_complete
#print axioms TxV.Assign.c40_once
#print axioms TxV.Assign.c40_same_path
#print axioms TxV.Assign.c40_shapes
#print axioms TxV.Assign.c40_select
#print axioms TxV.Assign.c40_err
#print axioms TxV.Assign.c40_nested_proxy
