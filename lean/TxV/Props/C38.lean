import TxV.Proofs.Encoders
import TxV.Proofs.Coding
/-!
# C38 — Encoders, multiplexers and selecting networks are correct

"For every input, OneHotMux/one_hot_mux select the input of the set bit (the lowest with priority,
the default when none), MultiPriorityEncoder and RingMultiPriorityEncoder return the first set bits
in (circular) order with correct valid flags, StableSelectingNetwork returns the valid inputs in
order with their count, and the coding module's encoders/decoders and Gray code match their
definitions."

The models (`TxV/Model/Encoders.lean`, `TxV/Model/Coding.lean`) mirror the construction in the
source; every theorem below is for every width, every output count and every input valuation.
Bit vectors are `List Bool`, LSB first: "bit `i` is the lowest set bit of `sel`" is written
`sel = List.replicate i false ++ true :: rest`.
-/
namespace TxV.Encoders

/-! ## one_hot_mux / OneHotMux -/

-- OBLIGATION c38_mux_priority : with priority=True the output is the input of the lowest set select bit (any number of inputs, with or without default, any other select bits above it)
theorem c38_mux_priority (sel : List Bool) (data : List Nat) (dflt : Option Nat) (i : Nat) (rest : List Bool) (d : Nat)
    (hlen : sel.length = data.length) (hs : sel = List.replicate i false ++ true :: rest) (hd : data[i]? = some d) :
    oneHotMux true sel data dflt = d :=
  mux_priority sel data dflt i rest d hlen hs hd

-- OBLIGATION c38_mux_onehot : with a one-hot select vector (exactly bit i set) the output is input i, with and without priority, with or without default
theorem c38_mux_onehot (priority : Bool) (sel : List Bool) (data : List Nat) (dflt : Option Nat) (i m : Nat) (d : Nat)
    (hlen : sel.length = data.length) (hs : sel = List.replicate i false ++ true :: List.replicate m false)
    (hd : data[i]? = some d) :
    oneHotMux priority sel data dflt = d :=
  mux_onehot sel data dflt i m d hlen hs hd priority

-- OBLIGATION c38_mux_default : when no select bit is set the output is the default input (every number of inputs including 0)
theorem c38_mux_default (priority : Bool) (n : Nat) (data : List Nat) (d : Nat) (hlen : data.length = n) :
    oneHotMux priority (List.replicate n false) data (some d) = d :=
  mux_default priority n data d hlen

-- OBLIGATION c38_mux_nodefault : without default and without a set select bit the output is 0 for inputs_count ≠ 1, and with a single input it is that input whatever the select bit (OneHotMux docstring)
theorem c38_mux_nodefault (priority : Bool) :
    (∀ (n : Nat) (data : List Nat), data.length ≠ 1 → oneHotMux priority (List.replicate n false) data none = 0) ∧
    (∀ (sel : List Bool) (x : Nat), oneHotMux priority sel [x] none = x) :=
  ⟨fun n data h => mux_none priority n data h, fun sel x => mux_single priority sel x⟩

-- OBLIGATION c38_mux_typed : one_hot_mux on signed / mixed-width operands: the returned Value has the unified shape of all operands (incl. default) and its mathematical value (what a wider consumer sees after sign/zero extension) is exactly the selected operand's value — lowest set bit with priority, the only set bit without, the default when none — for every operand representable in its own shape
theorem c38_mux_typed (priority : Bool) (data : List (Shp × Int)) (dflt : Option (Shp × Int)) :
    (∀ (sel : List Bool) (i : Nat) (rest : List Bool) (s : Shp) (z : Int), sel.length = data.length →
      sel = List.replicate i false ++ true :: rest →
      (priority = true ∨ rest = List.replicate rest.length false) → data[i]? = some (s, z) → fits s z →
      oneHotMuxZ priority sel data dflt = (unifyShp (data.map (·.1) ++ dflt.toList.map (·.1)), z)) ∧
    (∀ (s : Shp) (z : Int), fits s z →
      oneHotMuxZ priority (List.replicate data.length false) data (some (s, z)) =
        (unifyShp (data.map (·.1) ++ [s]), z)) :=
  ⟨fun sel i rest s z hlen hs hp hd hfit => muxZ_select priority sel data dflt i rest s z hlen hs hp hd hfit,
   fun s z hfit => muxZ_default priority data.length data s z rfl hfit⟩

/-- non-vacuity: a selected negative signed(4) operand next to an unsigned(5) one comes out as -3 in signed(6) -/
example : oneHotMuxZ true [false, true, true] [(⟨5, false⟩, 9), (⟨4, true⟩, -3), (⟨3, true⟩, 2)] (some (⟨2, false⟩, 1))
    = (⟨6, true⟩, -3) := by decide

-- OBLIGATION c38_lowest_set : extract_lowest_set_bit (`value & -value`) keeps exactly the lowest set bit, and maps 0 to 0 (every width)
theorem c38_lowest_set :
    (∀ (i : Nat) (rest : List Bool), lowestSet (List.replicate i false ++ true :: rest) =
        List.replicate i false ++ true :: List.replicate rest.length false) ∧
    (∀ n, lowestSet (List.replicate n false) = List.replicate n false) :=
  ⟨lowestSet_spec, lowestSet_zero⟩

/-! ## MultiPriorityEncoder -/

-- OBLIGATION c38_mpe : the recursive tree returns the first outputs_count set-bit positions in ascending order (zero padded) and valid flags that are a prefix of min(popcount, outputs_count) ones — every input width, output count, input
theorem c38_mpe (K : Nat) (bits : List Bool) :
    mpe K bits = (padN K (setBits bits), padB K (setBits bits).length) := by
  rw [mpe_eq_spec, spec, idxs_zero_eq_setBits]

-- OBLIGATION c38_mpe_elem : output j < outputs_count is valid iff there are more than j set bits, and then it is the j-th set-bit position (0 otherwise)
theorem c38_mpe_elem (K : Nat) (bits : List Bool) (j : Nat) (hj : j < K) :
    (mpe K bits).2[j]? = some (decide (j < (setBits bits).length)) ∧
    (mpe K bits).1[j]? = some (if h : j < (setBits bits).length then (setBits bits)[j] else 0) := by
  rw [c38_mpe]
  exact ⟨padB_getElem? K _ j hj, padN_getElem? K _ j hj⟩

/-! ## RingMultiPriorityEncoder -/

-- OBLIGATION c38_ring : for first, last < input_width the outputs are the first outputs_count set bits met when walking from `first` (inclusive) circularly to `last` (exclusive), with a prefix of valid flags; outputs that are not valid read `first`
theorem c38_ring (K : Nat) (inp : List Bool) (first last : Nat) (hf : first < inp.length) (hl : last < inp.length) :
    ring K inp first last =
      ((ringSel inp first last ++ List.replicate K first).take K, padB K (ringSel inp first last).length) :=
  ring_eq K inp first last hf hl

-- OBLIGATION c38_ring_elem : output j is valid iff the window [first, last) holds more than j set bits and then it is the j-th of them in circular order
theorem c38_ring_elem (K : Nat) (inp : List Bool) (first last : Nat) (hf : first < inp.length) (hl : last < inp.length)
    (j : Nat) (hj : j < K) :
    (ring K inp first last).2[j]? = some (decide (j < (ringSel inp first last).length)) ∧
    (∀ h : j < (ringSel inp first last).length, (ring K inp first last).1[j]? = some (ringSel inp first last)[j]) := by
  rw [c38_ring K inp first last hf hl]
  refine ⟨padB_getElem? K _ j hj, fun h => ?_⟩
  simp only [List.getElem?_take, hj, if_true, List.getElem?_append, h, List.getElem?_eq_getElem]

-- OBLIGATION c38_ring_empty : first = last selects nothing: no output is valid
theorem c38_ring_empty (K : Nat) (inp : List Bool) (first : Nat) (hf : first < inp.length) :
    (ring K inp first first).2 = List.replicate K false := by
  rw [c38_ring K inp first first hf hf]
  simp [ringSel, ringOrder, padB]

/-! ## StableSelectingNetwork -/

-- OBLIGATION c38_ssn : for every n ≥ 1 the network yields n outputs whose first output_cnt elements are exactly the inputs with a set valid bit, in input order, and output_cnt is their number
theorem c38_ssn (inputs : List Nat) (valids : List Bool) (h : inputs.length = valids.length) (hn : 0 < inputs.length) :
    ∃ o c, ssn inputs valids = some (o, c) ∧ o.take c = selectValid inputs valids ∧
      c = (selectValid inputs valids).length ∧ o.length = inputs.length :=
  ssn_spec inputs valids h hn

end TxV.Encoders

namespace TxV.Coding
open TxV.Encoders

/-! ## coding module -/

-- OBLIGATION c38_encoder : Encoder: a one-hot input 2^j (j < width) gives o = j, n = 0; every other input gives o = 0, n = 1
theorem c38_encoder (w : Nat) :
    (∀ j, j < w → encoder w (2 ^ j) = (j, false)) ∧
    (∀ x, (∀ j, j < w → x ≠ 2 ^ j) → encoder w x = (0, true)) :=
  ⟨encoder_onehot w, encoder_other w⟩

-- OBLIGATION c38_prio_encoder : PriorityEncoder: if any bit is set, o = index of the lowest set bit and n = 0; for the zero input o = 0 and n = 1 — every width (after repair c60fe3d of finding F-b3-1)
theorem c38_prio_encoder :
    (∀ (i : Nat) (rest : List Bool), prioEncoder (List.replicate i false ++ true :: rest) = (i, false)) ∧
    (∀ n, prioEncoder (List.replicate n false) = (0, true)) :=
  ⟨prioEncoder_set, prioEncoder_zero⟩

/-- non-vacuity: the former counter-example (width 3, input 0) and an ordinary input -/
example : prioEncoder [false, false, false] = (0, true) ∧ prioEncoder [false, false, true, true, false] = (2, false) := by
  decide

-- OBLIGATION c38_ctz : count_trailing_zeros (the recursion PriorityEncoder is built from) returns the index of the lowest set bit, and the width for the zero vector — every width
theorem c38_ctz :
    (∀ (i : Nat) (rest : List Bool), ctz (List.replicate i false ++ true :: rest) = i) ∧
    (∀ n, ctz (List.replicate n false) = n) :=
  ⟨fun i rest => by rw [ctz_eq, firstSet_onehot], fun n => by rw [ctz_eq, firstSet_falses]⟩

-- OBLIGATION c38_decoder : Decoder / PriorityDecoder: n = 0 and i < width gives exactly bit i; n = 1 (or i ≥ width) gives 0
theorem c38_decoder (w i : Nat) :
    (i < w → decoder w i false = 2 ^ i) ∧ (w ≤ i → decoder w i false = 0) ∧ decoder w i true = 0 :=
  ⟨decoder_valid w i, decoder_out_of_range w i, decoder_invalid w i⟩

-- OBLIGATION c38_gray_inverse : GrayDecoder ∘ GrayEncoder = id and GrayEncoder ∘ GrayDecoder = id on vectors of every width (both are width preserving)
theorem c38_gray_inverse (bits : List Bool) :
    grayDec (grayEnc bits) = bits ∧ grayEnc (grayDec bits) = bits ∧
    (grayEnc bits).length = bits.length ∧ (grayDec bits).length = bits.length :=
  ⟨grayDec_grayEnc bits, grayEnc_grayDec bits, grayEnc_length bits, grayDec_length bits⟩

-- OBLIGATION c38_gray_adjacent : the encoder output is a Gray code: the codes of x and x+1 (x+1 < 2^width) differ in exactly one bit
theorem c38_gray_adjacent (bits : List Bool) (h : bits.all id = false) :
    natOf (incL bits) = natOf bits + 1 ∧ hamming (grayEnc bits) (grayEnc (incL bits)) = 1 :=
  ⟨natOf_incL bits h, gray_adjacent bits h⟩

end TxV.Coding

namespace TxV.Encoders
/-- non-vacuity: concrete instances of every component -/
example : mpe 2 [false, true, false, true, true] = ([1, 3], [true, true]) ∧
    mpe 3 [false, true, false, false] = ([1, 0, 0], [true, false, false]) := by decide
example : ring 2 [true, true, false, true, true] 3 1 = ([3, 4], [true, true]) ∧
    ringSel [true, true, false, true, true] 3 1 = [3, 4, 0] ∧
    ring 2 [true, true, false, true, true] 1 3 = ([1, 1], [true, false]) := by decide
example : ssn [10, 20, 30, 40, 50] [false, true, false, true, true] = some ([20, 40, 50, 0, 0], 3) := by decide
example : oneHotMux true [false, true, true] [5, 6, 7] (some 9) = 6 ∧
    oneHotMux false [false, false, false] [5, 6, 7] (some 9) = 9 := by decide
example : TxV.Coding.grayEnc (bitsOf 4 5) = bitsOf 4 7 ∧ TxV.Coding.grayDec (bitsOf 4 7) = bitsOf 4 5 := by decide
end TxV.Encoders

#print axioms TxV.Encoders.c38_mux_priority
#print axioms TxV.Encoders.c38_mux_onehot
#print axioms TxV.Encoders.c38_mux_default
#print axioms TxV.Encoders.c38_mux_nodefault
#print axioms TxV.Encoders.c38_mux_typed
#print axioms TxV.Encoders.c38_lowest_set
#print axioms TxV.Encoders.c38_mpe
#print axioms TxV.Encoders.c38_mpe_elem
#print axioms TxV.Encoders.c38_ring
#print axioms TxV.Encoders.c38_ring_elem
#print axioms TxV.Encoders.c38_ring_empty
#print axioms TxV.Encoders.c38_ssn
#print axioms TxV.Coding.c38_encoder
#print axioms TxV.Coding.c38_prio_encoder
#print axioms TxV.Coding.c38_ctz
#print axioms TxV.Coding.c38_decoder
#print axioms TxV.Coding.c38_gray_inverse
#print axioms TxV.Coding.c38_gray_adjacent
