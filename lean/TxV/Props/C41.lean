import TxV.Proofs.DataHelpers
/-!
# C41 — data helpers are correct

"transpose swaps the two levels of a layout so that transpose(v)[i][o] equals v[o][i] and transposing
twice restores the layout; signed_to_int/int_to_signed are inverse on width-bounded values; the
align_* helpers round to the requested power of two; make_hashable preserves equality."

Models: `TxV/Model/DataHelpers.lean`.  Layouts are two-level (`Outer = Lay (Lay Leaf)`; a third-level
member shape is opaque: width + identity tag); a value is its bit list (LSB first) and member access
`getField`/`getPath` slices it at the running-sum offsets of the layout, exactly like Amaranth's
`View.__getitem__`.  `transposeVal` is the `Cat(view[o][i] for i in i_keys for o in o_keys)` of the code and
`transposeLayout` its `mk_layout` construction, so `c41_transpose_get` says that the layout that is
*built* and the bit order that is *concatenated* fit together.  Python's `&`, `|`, `~` on unbounded
integers are `pyAnd`, `pyOr`, `pyNot`.
-/
namespace TxV.DataHelpers

-- OBLIGATION c41_transpose_get : for every two-level layout accepted by transpose_layout, every value v of that layout and every outer key o and inner key i: member [i][o] of transpose(v) exists and has the same shape and the same bits as member [o][i] of v
theorem c41_transpose_get (l r : Outer) (ok ik : List Key) (v tv : List Bool)
    (hl : transposeLayout l = .ok (r, ok, ik)) (hv : v.length = outerSize l)
    (htv : transposeVal l ok ik v = some tv) (o i : Key) (ho : o ∈ ok) (hi : i ∈ ik) :
    getPath r tv i o = getPath l v o i ∧
    ∃ leaf bits, getPath l v o i = some (leaf, bits) ∧ bits.length = leaf.w := by
  have h := transposeLayout_ok l r ok ik hl
  refine ⟨(getPath_transposed l r ok ik h v tv hv htv o i ho hi).1, _, _, getPath_orig l ok ik h.toTChk v hv o i ho hi⟩

-- OBLIGATION c41_transpose_defined : whenever the layout is accepted the transposed value is defined (no member lookup fails), fills the transposed layout exactly, and the returned keys are the outer keys of the layout and the common inner keys of all its members
theorem c41_transpose_defined (l r : Outer) (ok ik : List Key) (v : List Bool)
    (hl : transposeLayout l = .ok (r, ok, ik)) (hv : v.length = outerSize l) :
    (∃ tv, transposeVal l ok ik v = some tv ∧ tv.length = outerSize r) ∧
    ok = l.keys ∧ ok ≠ [] ∧ ik ≠ [] ∧ (∀ p ∈ l.fields, p.2.keys = ik) ∧ r.keys = ik := by
  have h := transposeLayout_ok l r ok ik hl
  have htv := transposeVal_eq l ok ik h.toTChk v hv
  obtain ⟨o, ho⟩ := List.exists_mem_of_ne_nil ok h.ok_ne
  obtain ⟨i, hi⟩ := List.exists_mem_of_ne_nil ik h.ik_ne
  exact ⟨⟨_, htv, (getPath_transposed l r ok ik h v _ hv htv o i ho hi).2⟩, h.ok_eq, h.ok_ne, h.ik_ne, h.inner_keys,
    keys_of_fields r ik _ (transposed_fields l r ok ik h).1⟩

-- OBLIGATION c41_transpose_involution : transposing twice restores the layout (and swaps the key lists back), for every accepted layout whose struct member names are pairwise distinct (WF: an invariant of StructLayout, whose members are a dict - no Python input violates it)
theorem c41_transpose_involution (l r : Outer) (ok ik : List Key)
    (hl : transposeLayout l = .ok (r, ok, ik)) (hwf : WF l) :
    transposeLayout r = .ok (l, ik, ok) :=
  transpose_involution l r ok ik hl hwf

-- OBLIGATION c41_transpose_total : transpose_layout either returns or raises one of its five ValueErrors: the model's `internal` outcome (a failing member lookup inside mk_layout) is impossible, for every layout
theorem c41_transpose_total (l : Outer) : transposeLayout l ≠ .error .internal :=
  transposeLayout_total l

-- OBLIGATION c41_signed_roundtrip : signed_to_int(int_to_signed(x, w), w) = x for every width w >= 1 and every -2^(w-1) <= x < 2^(w-1)
theorem c41_signed_roundtrip (x : Int) (w : Nat) (hw : 1 ≤ w)
    (hlo : -(2 ^ (w - 1)) ≤ x) (hhi : x < 2 ^ (w - 1)) :
    signedToInt (intToSigned x w) w = some x := by
  obtain ⟨k, rfl⟩ : ∃ k, w = k + 1 := ⟨w - 1, by omega⟩
  simp only [Nat.add_sub_cancel] at hlo hhi
  have hq := Nat.two_pow_pos k
  have h2 : 2 ^ (k + 1) = 2 * 2 ^ k := by rw [Nat.pow_succ]; omega
  rw [intToSigned_eq]
  rw [pow_cast k] at hlo hhi
  rw [pow_cast (k + 1), h2]
  by_cases hx : 0 ≤ x
  · have hm : x % ((2 * 2 ^ k : Nat) : Int) = x := Int.emod_eq_of_lt hx (by omega)
    obtain ⟨m, rfl⟩ := Int.eq_ofNat_of_zero_le hx
    rw [hm, signedToInt_nat m k (by omega)]
    have : m < 2 ^ k := by omega
    simp [this]
  · have hm : x % ((2 * 2 ^ k : Nat) : Int) = x + ((2 * 2 ^ k : Nat) : Int) := by
      rw [← Int.add_emod_right]
      exact Int.emod_eq_of_lt (by omega) (by omega)
    rw [hm]
    obtain ⟨m, hm'⟩ := Int.eq_ofNat_of_zero_le (show 0 ≤ x + ((2 * 2 ^ k : Nat) : Int) by omega)
    rw [hm', signedToInt_nat m k (by omega)]
    have : ¬ m < 2 ^ k := by omega
    simp only [this, if_false, pow_cast (k + 1), h2]
    congr 1; omega

-- OBLIGATION c41_unsigned_roundtrip : conversely, for every width w >= 1 and every 0 <= u < 2^w, signed_to_int(u, w) lies in [-2^(w-1), 2^(w-1)) and int_to_signed of it is u again
theorem c41_unsigned_roundtrip (u w : Nat) (hw : 1 ≤ w) (hu : u < 2 ^ w) :
    ∃ s : Int, signedToInt (u : Int) w = some s ∧ -(2 ^ (w - 1)) ≤ s ∧ s < 2 ^ (w - 1) ∧ intToSigned s w = (u : Int) := by
  obtain ⟨k, rfl⟩ : ∃ k, w = k + 1 := ⟨w - 1, by omega⟩
  have hq := Nat.two_pow_pos k
  have h2 : 2 ^ (k + 1) = 2 * 2 ^ k := by rw [Nat.pow_succ]; omega
  rw [signedToInt_nat u k hu]
  refine ⟨_, rfl, ?_⟩
  simp only [Nat.add_sub_cancel, intToSigned_eq]
  rw [pow_cast k, pow_cast (k + 1), h2]
  by_cases hlt : u < 2 ^ k
  · simp only [hlt, if_true]
    refine ⟨by omega, by omega, Int.emod_eq_of_lt (by omega) (by omega)⟩
  · simp only [hlt, if_false]
    refine ⟨by omega, by omega, ?_⟩
    rw [Int.sub_emod_right]
    exact Int.emod_eq_of_lt (by omega) (by omega)

-- OBLIGATION c41_align_down : align_down_to_power_of_two(num, p) is the greatest multiple of 2^p that is <= num, for every integer num (negative ones included) and every p
theorem c41_align_down (num : Int) (p : Nat) :
    alignDown num p % 2 ^ p = 0 ∧ alignDown num p ≤ num ∧ num < alignDown num p + 2 ^ p := by
  have hp := pow_pos_int p
  rw [alignDown_eq]
  have h1 := Int.emod_nonneg num (Int.ne_of_gt hp)
  have h2 := Int.emod_lt_of_pos num hp
  refine ⟨?_, by omega, by omega⟩
  have := Int.mul_ediv_add_emod num (2 ^ p)
  have e : num - num % 2 ^ p = 2 ^ p * (num / 2 ^ p) := by omega
  rw [e, Int.mul_emod_right]

-- OBLIGATION c41_align_up : align_to_power_of_two(num, p) is the least multiple of 2^p that is >= num, for every integer num and every p
theorem c41_align_up (num : Int) (p : Nat) :
    alignUp num p % 2 ^ p = 0 ∧ num ≤ alignUp num p ∧ alignUp num p < num + 2 ^ p := by
  have hp := pow_pos_int p
  rw [alignUp_eq]
  have h1 := Int.emod_nonneg num (Int.ne_of_gt hp)
  have h2 := Int.emod_lt_of_pos num hp
  by_cases h0 : num % 2 ^ p = 0
  · rw [if_pos h0]
    exact ⟨h0, by omega, by omega⟩
  · rw [if_neg h0]
    refine ⟨?_, by omega, by omega⟩
    have := Int.mul_ediv_add_emod num (2 ^ p)
    have e : num - num % 2 ^ p + 2 ^ p = 2 ^ p * (num / 2 ^ p + 1) := by
      rw [Int.mul_add]; omega
    rw [e, Int.mul_emod_right]

-- OBLIGATION c41_make_hashable_eq : make_hashable preserves equality: for all (arbitrarily nested) values a, b built from ints, strings, tuples, lists, dicts, sets and frozensets, a == b (Python equality: sets and dicts compared without regard to order, set == frozenset allowed) implies make_hashable(a) == make_hashable(b)
theorem c41_make_hashable_eq (a b : PyVal) (h : pyEq a b = true) :
    pyEq (makeHashable a) (makeHashable b) = true :=
  mh_eq a b h

/-- non-vacuity (transpose): a struct of two arrays with different element widths is accepted and well formed -/
example :
    (transposeLayout (.struct [("a", .array ⟨2, 1⟩ 3), ("b", .array ⟨5, 0⟩ 3)])).toOption =
      some (.array (.struct [("a", ⟨2, 1⟩), ("b", ⟨5, 0⟩)]) 3, [.name "a", .name "b"], [.idx 0, .idx 1, .idx 2]) ∧
    (Lay.keys (σ := Inner) (.struct [("a", .array ⟨2, 1⟩ 3), ("b", .array ⟨5, 0⟩ 3)])).Nodup ∧
    (∀ p ∈ Lay.fields (σ := Inner) (.struct [("a", .array ⟨2, 1⟩ 3), ("b", .array ⟨5, 0⟩ 3)]), p.2.keys.Nodup) := by
  decide

/-- non-vacuity (numeric): -3 at width 4; 13 and -13 against 2^2 -/
example : intToSigned (-3) 4 = 13 ∧ signedToInt 13 4 = some (-3) ∧ alignUp 13 2 = 16 ∧ alignDown (-13) 2 = -16 := by
  refine ⟨?_, ?_, ?_, ?_⟩
  · rw [intToSigned_eq]; decide
  · exact signedToInt_nat 13 3 (by decide)
  · rw [alignUp_eq]; decide
  · rw [alignDown_eq]; decide

/-- non-vacuity (make_hashable): the F12 witness - two equal sets iterated in different orders; a list is
    not a tuple; a dict holding a list becomes a frozenset of pairs -/
example :
    pyEq (.set (.cons (.int 0) (.cons (.int 8) .nil))) (.set (.cons (.int 8) (.cons (.int 0) .nil))) = true ∧
    pyEq (.list (.cons (.int 1) .nil)) (.tuple (.cons (.int 1) .nil)) = false ∧
    pyEq (makeHashable (.dict (.cons (.str "k") (.list (.cons (.int 1) .nil)) .nil)))
      (.fset (.cons (.tuple (.cons (.str "k") (.cons (.tuple (.cons (.int 1) .nil)) .nil))) .nil)) = true := by
  simp [pyEq, eqList, subList, PyList.any, PyList.length, makeHashable, mhPairs, mhList]

end TxV.DataHelpers

#print axioms TxV.DataHelpers.c41_transpose_get
#print axioms TxV.DataHelpers.c41_transpose_defined
#print axioms TxV.DataHelpers.c41_transpose_involution
#print axioms TxV.DataHelpers.c41_transpose_total
#print axioms TxV.DataHelpers.c41_signed_roundtrip
#print axioms TxV.DataHelpers.c41_unsigned_roundtrip
#print axioms TxV.DataHelpers.c41_align_down
#print axioms TxV.DataHelpers.c41_align_up
#print axioms TxV.DataHelpers.c41_make_hashable_eq
