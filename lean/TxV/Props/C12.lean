import TxV.Proofs.Simultaneous
import TxV.Proofs.SimultaneousShape
/-!
# C12 — `condition()` picks one admissible branch

"Inside condition(m), a branch runs only if the enclosing body runs, its condition holds and all
methods it calls are ready; at most one branch runs per cycle; the default branch runs only when no
other condition holds; the enclosing body runs only together with a branch unless nonblocking is set
and no condition holds; with priority=True a branch runs only if no earlier branch was admissible —
for every use (blocking/nonblocking, with/without priority and default, overlapping conditions,
nested conditions, conditions inside methods, shared callees across branches) and every input
valuation."

The theorems are about the POST-merge flat design `D` that `TransactionManager._simultaneous`
hands to the rest of the manager (branches and the enclosing body have become methods, one merged
transaction per group of simultaneous transactions), every valuation `v`, every assignment `run` of
the run signals of all bodies:

* `Accepted D S`, `ValidOrder D S`, `Cycle D v S run`, `Eager D v S run` — the hypotheses of the core
  theorems C01–C08; `c12_model_hyps` derives them from the executable manager model accepting the
  design (`CoreModel.elaborate D = ok E`), the executable check of the implementation's priority order
  and the per-valuation check `Bridge.cycleOk` (both printed by `Driver/C12.lean`: `vo=`, `hyp=`);
* `ShapeC12 D U L Dr` — the shape of the merged design for the use `U` (decidable: `shapeC12B`,
  `shapeC12B_sound`; printed as `shape12=`); PROVED for the family "one parent transaction, `n`
  branches" from the executable model of `_simultaneous` for every `n`
  (`simultaneous_shape_basic`), checked per design for nested / in-method / multi-caller uses;
* `LinkEn`, `DerEn`, `DefaultReady` — how enables of unconditional calls, `enable_call`s of merged
  calls (manager.py:454-455) and the readiness of the catch-all branch (simultaneous.py:78) are
  derived; evaluated per valuation by the driver (`link=`, `der=`, `dflt=`), and in the executable
  model they hold by construction.

A running branch "whose condition holds" is `v.ready b` : the branch body's `ready` IS the condition
(simultaneous.py:78), and the harness compares it with the condition input on every valuation.
-/
namespace TxV.Core

variable {D : Design} {v : Val} {S : Sched} {run : Nat → Bool} {U : CondUse} {L : List Nat}
  {Dr : List (Nat × List Nat)}

-- OBLIGATION c12_branch_needs : sentence 1 (PARTIAL for nested / in-method / multi-caller uses: the added hypothesis ShapeC12 is checked there per generated design by the driver; it is proved for the basic family, see simultaneous_shape_basic and c12_basic_family), every post-merge design with ShapeC12 (driver-checked per design; proved for the basic family), every valuation/run assignment with the core cycle facts: a running branch ⇒ the enclosing body runs ∧ the branch's condition (= its ready) holds ∧ every method of its static call tree is ready
theorem c12_branch_needs (hA : Accepted D S) (hC : Cycle D v S run) (hS : ShapeC12 D U L Dr)
    (hl : LinkEn D v run L) (hd : DerEn v run Dr) {b : Nat} (hb : b ∈ U.branches) (hr : run b = true) :
    run U.parent = true ∧ v.ready b = true ∧ ∀ m, Reaches D b m → v.ready m = true :=
  branch_needs hA hC hS hl hd hb hr

-- OBLIGATION c12_one : sentence 2 (same added hypothesis ShapeC12): two running branches of one condition() are the same branch (their merged transactions share the exclusive method made from the parent's caller, hence a conflict edge, hence mutual exclusion by either scheduler)
theorem c12_one (hA : Accepted D S) (hC : Cycle D v S run) (hS : ShapeC12 D U L Dr) {b b' : Nat}
    (hb : b ∈ U.branches) (hb' : b' ∈ U.branches) (hr : run b = true) (hr' : run b' = true) : b = b' :=
  one_branch hA hC hS hb hb' hr hr'

-- OBLIGATION c12_default : sentence 3 (same added hypothesis ShapeC12; DefaultReady is the model of simultaneous.py:78, compared with the real ready bit on every valuation): the catch-all branch (last branch of a use with a default) runs only if no other branch's condition holds (DefaultReady: ready = ~any(conds), simultaneous.py:78)
theorem c12_default (hA : Accepted D S) (hC : Cycle D v S run) (hS : ShapeC12 D U L Dr)
    (hl : LinkEn D v run L) (hd : DerEn v run Dr) (hdr : DefaultReady v U) (hdef : U.hasDefault = true)
    {d : Nat} (hlast : U.branches.getLast? = some d) (hr : run d = true) :
    ∀ b ∈ U.branches.dropLast, v.ready b = false :=
  default_needs hA hC hS hl hd hdr hdef hlast hr

-- OBLIGATION c12_parent : sentence 4, blocking form (same added hypothesis ShapeC12): whenever the enclosing body runs, one of the branches of the use runs (for nonblocking=True without an explicit default, condition() itself appends an empty catch-all branch, simultaneous.py:93-95, which is a branch of the use)
theorem c12_parent (hA : Accepted D S) (hC : Cycle D v S run) (hS : ShapeC12 D U L Dr)
    (hl : LinkEn D v run L) (hd : DerEn v run Dr) (hr : run U.parent = true) :
    ∃ b ∈ U.branches, run b = true :=
  parent_needs_branch hA hC hS hl hd hr

-- OBLIGATION c12_parent_nonblocking : sentence 4, "unless nonblocking is set and no condition holds": for a use whose last branch is the catch-all, the enclosing body runs only together with one of the other branches, or no other branch's condition holds
theorem c12_parent_nonblocking (hA : Accepted D S) (hC : Cycle D v S run) (hS : ShapeC12 D U L Dr)
    (hl : LinkEn D v run L) (hd : DerEn v run Dr) (hdr : DefaultReady v U) (hdef : U.hasDefault = true)
    (hr : run U.parent = true) :
    (∃ b ∈ U.branches.dropLast, run b = true) ∨ (∀ b ∈ U.branches.dropLast, v.ready b = false) := by
  obtain ⟨b, hb, hrb⟩ := parent_needs_branch hA hC hS hl hd hr
  have hne : U.branches ≠ [] := by intro h; rw [h] at hb; cases hb
  have hlast := List.getLast?_eq_getLast hne
  by_cases h : b = U.branches.getLast hne
  · right
    rw [← h] at hlast
    exact default_needs hA hC hS hl hd hdr hdef hlast hrb
  · left
    refine ⟨b, ?_, hrb⟩
    have := List.dropLast_concat_getLast hne
    rw [← this] at hb
    simp only [List.mem_append, List.mem_singleton] at hb
    exact hb.resolve_right h

-- OBLIGATION c12_priority_partial : sentence 5, eager scheduler, with the ADDED hypothesis NbrOk (driver-checked per design on the conflict graph: no transaction outside the use competes for what only an earlier branch needs — e.g. a callee of that branch shared with an unrelated transaction; generators do not produce such sharing): with priority=True, if the j-th branch runs then for no i < j a transaction executing the i-th branch is fully enabled (ready ∧ runnable: enclosing body, condition, all callees ready)
theorem c12_priority_partial (hA : Accepted D S) (hC : Cycle D v S run) (he : Eager D v S run)
    (ho : ValidOrder D S) (hS : ShapeC12 D U L Dr) (hN : NbrOk D S U) (hp : U.priority = true)
    {i j : Nat} (hij : i < j) (hj : j < U.branches.length) (hr : run (U.branches[j]'hj) = true) :
    ¬ Admissible D v run (U.branches[i]'(by omega)) :=
  priority_needs hA hC he ho hS hN hp hij hj hr

-- OBLIGATION c12_model_hyps : where the hypotheses come from: if the executable manager model accepts the post-merge design, the implementation's priority order passes the executable order check and the per-valuation check cycleOk holds (all three printed by the driver for every generated design / valuation), then Accepted, ValidOrder, SitesNodup, Cycle and Eager hold for the abstraction of that design
theorem c12_model_hyps {Dm : CoreModel.Design} {E : CoreModel.Elab} {order : List Nat} {vm : CoreModel.Val}
    {r : Nat → Bool} (hel : CoreModel.elaborate Dm = .ok E)
    (hvo : CoreModel.validOrder E.g.before Dm.transactions order = true)
    (hcy : Bridge.cycleOk Dm E order vm r = true) :
    Accepted (Bridge.toAbs Dm) (Bridge.toSched E order) ∧ ValidOrder (Bridge.toAbs Dm) (Bridge.toSched E order) ∧
    (Bridge.toAbs Dm).SitesNodup ∧
    Cycle (Bridge.toAbs Dm) (Bridge.toVal Dm vm) (Bridge.toSched E order) (Bridge.runAll E vm r) ∧
    Eager (Bridge.toAbs Dm) (Bridge.toVal Dm vm) (Bridge.toSched E order) (Bridge.runAll E vm r) :=
  model_hyps hel hvo hcy

-- OBLIGATION c12_shape_checker_sound : the Boolean checkers evaluated by the driver imply the hypotheses ShapeC12 / NbrOk / LinkEn / DerEn / DefaultReady
theorem c12_shape_checker_sound (hb : Bounded D) :
    (shapeC12B D U L Dr = true → ShapeC12 D U L Dr) ∧ (nbrOkB D S U = true → NbrOk D S U) ∧
    (linkEnB D v run L = true → LinkEn D v run L) ∧ (derEnB v run Dr = true → DerEn v run Dr) ∧
    (defaultReadyB v U = true → DefaultReady v U) :=
  ⟨shapeC12B_sound hb, nbrOkB_sound, linkEnB_sound, derEnB_sound, defaultReadyB_sound⟩

-- OBLIGATION simultaneous_shape_basic : the shape hypothesis is PROVED for the basic family, for every n >= 1, with and without priority, with and without a catch-all: whenever the executable model of _simultaneous (TxV.Simul.simultaneous, compared with the real _simultaneous on every generated design) succeeds on the pre-merge design of "one transaction containing condition() with n branches" (TxV.Simul.basicPre), its result satisfies ShapeC12 with all merged calls unconditional (the groups are exactly the pairs {parent, branch_i}: closure_sound/closure_complete on the worklist loop); success itself is shown for concrete n by evaluation (example below) and on every generated design by the driver
theorem simultaneous_shape_basic (n : Nat) (prio hd : Bool) (hn : 0 < n) {R : Simul.MergeOut}
    (h : Simul.simultaneous (Simul.basicPre n prio) 0 = .ok R) :
    ShapeC12 (Bridge.toAbs R.D) ⟨0, (List.range n).map (· + 1), hd, prio⟩
      (Simul.linkSites R.D R.enDeps 0) R.enDeps :=
  Simul.simultaneous_shape_basic n prio hd hn h

-- OBLIGATION c12_basic_family : sentences 1, 2 and 4 WITHOUT a shape hypothesis for the basic family (one transaction, n >= 1 branches, any priority flag): from the executable models alone (model of _simultaneous succeeds, manager model accepts the merged design, the implementation's order passes validOrder) and the per-valuation checks cycleOk / linkEnB / derEnB: a running branch implies the running parent and the branch's condition; two running branches coincide; the running parent implies a running branch
theorem c12_basic_family (n : Nat) (prio hd : Bool) (hn : 0 < n) {R : Simul.MergeOut} {E : CoreModel.Elab}
    {order : List Nat} {vm : CoreModel.Val} {r : Nat → Bool}
    (h : Simul.simultaneous (Simul.basicPre n prio) 0 = .ok R) (hel : CoreModel.elaborate R.D = .ok E)
    (hvo : CoreModel.validOrder E.g.before R.D.transactions order = true)
    (hcy : Bridge.cycleOk R.D E order vm r = true)
    (hl : linkEnB (Bridge.toAbs R.D) (Bridge.toVal R.D vm) (Bridge.runAll E vm r) (Simul.linkSites R.D R.enDeps 0) = true)
    (hde : derEnB (Bridge.toVal R.D vm) (Bridge.runAll E vm r) R.enDeps = true) :
    (∀ b, 1 ≤ b → b ≤ n → Bridge.runAll E vm r b = true → Bridge.runAll E vm r 0 = true ∧ vm.ready b = true) ∧
    (∀ b b', 1 ≤ b → b ≤ n → 1 ≤ b' → b' ≤ n → Bridge.runAll E vm r b = true → Bridge.runAll E vm r b' = true → b = b') ∧
    (Bridge.runAll E vm r 0 = true → ∃ b, 1 ≤ b ∧ b ≤ n ∧ Bridge.runAll E vm r b = true) := by
  obtain ⟨hA, _, _, hC, _⟩ := model_hyps hel hvo hcy
  have hS := Simul.simultaneous_shape_basic n prio hd hn h
  have hL := linkEnB_sound hl
  have hD := derEnB_sound hde
  have hbr : ∀ b, b ∈ (List.range n).map (· + 1) ↔ 1 ≤ b ∧ b ≤ n := by
    intro b; simp only [List.mem_map, List.mem_range]
    constructor
    · rintro ⟨a, ha, rfl⟩; omega
    · rintro ⟨h1, h2⟩; exact ⟨b - 1, by omega, by omega⟩
  refine ⟨?_, ?_, ?_⟩
  · intro b h1 h2 hr
    have := branch_needs hA hC hS hL hD ((hbr b).2 ⟨h1, h2⟩) hr
    exact ⟨this.1, this.2.1⟩
  · intro b b' h1 h2 h1' h2' hr hr'
    exact one_branch hA hC hS ((hbr b).2 ⟨h1, h2⟩) ((hbr b').2 ⟨h1', h2'⟩) hr hr'
  · intro hr
    obtain ⟨b, hb, hrb⟩ := parent_needs_branch hA hC hS hL hD hr
    obtain ⟨h1, h2⟩ := (hbr b).1 hb
    exact ⟨b, h1, h2, hrb⟩

/-- non-vacuity: `condition(m, priority=True)` with two branches in one transaction.  The model of
`_simultaneous` succeeds, the manager model accepts the merged design, and in the cycle where everything
is ready all hypotheses of the theorems hold (`validOrder`, `cycleOk`, `shapeC12B`, `nbrOkB`, `linkEnB`,
`derEnB`), the parent and the first branch run, the second branch does not -/
def nvC12 : Bool :=
  match Simul.simultaneous (Simul.basicPre 2 true) 0 with
  | .ok R =>
    match CoreModel.elaborate R.D with
    | .ok E =>
      let v : CoreModel.Val := ⟨fun _ => true, fun _ => true, fun _ => 0, fun _ => 0⟩
      let run := CoreModel.evalEager R.D E v [3, 4]
      CoreModel.validOrder E.g.before R.D.transactions [3, 4] &&
      Bridge.cycleOk R.D E [3, 4] v run &&
      shapeC12B (Bridge.toAbs R.D) ⟨0, [1, 2], false, true⟩ (Simul.linkSites R.D R.enDeps 0) R.enDeps &&
      nbrOkB (Bridge.toAbs R.D) (Bridge.toSched E [3, 4]) ⟨0, [1, 2], false, true⟩ &&
      linkEnB (Bridge.toAbs R.D) (Bridge.toVal R.D v) (Bridge.runAll E v run) (Simul.linkSites R.D R.enDeps 0) &&
      derEnB (Bridge.toVal R.D v) (Bridge.runAll E v run) R.enDeps &&
      Bridge.runAll E v run 0 && Bridge.runAll E v run 1 && !Bridge.runAll E v run 2
    | .error _ => false
  | .error _ => false

example : nvC12 = true := by decide +kernel

/-- non-vacuity of `simultaneous_shape_basic`: the model succeeds on the family for n = 1, 2, 3, 4 -/
example : ((List.range 4).all fun k => (Simul.simultaneous (Simul.basicPre (k + 1) (k % 2 == 0)) 0).toOption.isSome) = true := by
  decide +kernel

end TxV.Core

#print axioms TxV.Core.simultaneous_shape_basic
#print axioms TxV.Core.c12_basic_family
#print axioms TxV.Core.c12_branch_needs
#print axioms TxV.Core.c12_one
#print axioms TxV.Core.c12_default
#print axioms TxV.Core.c12_parent
#print axioms TxV.Core.c12_parent_nonblocking
#print axioms TxV.Core.c12_priority_partial
#print axioms TxV.Core.c12_model_hyps
#print axioms TxV.Core.c12_shape_checker_sound
