import TxV.Proofs.Simultaneous
/-!
# C12 — `condition()` picks one admissible branch

"Inside condition(m), a branch runs only if the enclosing body runs, its condition holds and all
methods it calls are ready; at most one branch runs per cycle; the default branch runs only when no
other condition holds; the enclosing body runs only together with a branch unless nonblocking is set
and no condition holds; with priority=True a branch runs only if no earlier branch was admissible —
for every use (blocking/nonblocking, with/without priority and default, overlapping conditions,
nested conditions, conditions inside methods, shared callees across branches) and every input
valuation."

The theorems are about the POST-merge flat design `D` that `TransactionManager._simultaneous`
hands to the rest of the manager (branches and the enclosing body have become methods, one merged
transaction per group of simultaneous transactions), every valuation `v`, every assignment `run` of
the run signals of all bodies:

* `Accepted D S`, `ValidOrder D S`, `Cycle D v S run`, `Eager D v S run` — the hypotheses of the core
  theorems C01–C08; `c12_model_hyps` derives them from the executable manager model accepting the
  design (`CoreModel.elaborate D = ok E`), the executable check of the implementation's priority order
  and the per-valuation check `Bridge.cycleOk` (both printed by `Driver/C12.lean`: `vo=`, `hyp=`);
* `ShapeC12 D U L Dr` — the shape of the merged design for the use `U` (decidable: `shapeC12B`,
  `shapeC12B_sound`; printed as `shape12=`); PROVED for the family "one parent transaction, `n`
  branches" from the executable model of `_simultaneous` for every `n`
  (`simultaneous_shape_basic`), checked per design for nested / in-method / multi-caller uses;
* `LinkEn`, `DerEn`, `DefaultReady` — how enables of unconditional calls, `enable_call`s of merged
  calls (manager.py:454-455) and the readiness of the catch-all branch (simultaneous.py:78) are
  derived; evaluated per valuation by the driver (`link=`, `der=`, `dflt=`), and in the executable
  model they hold by construction.

A running branch "whose condition holds" is `v.ready b` : the branch body's `ready` IS the condition
(simultaneous.py:78), and the harness compares it with the condition input on every valuation.
-/
namespace TxV.Core

variable {D : Design} {v : Val} {S : Sched} {run : Nat → Bool} {U : CondUse} {L : List Nat}
  {Dr : List (Nat × List Nat)}

-- OBLIGATION c12_branch_needs : sentence 1, every post-merge design with ShapeC12 (driver-checked per design; proved for the basic family), every valuation/run assignment with the core cycle facts: a running branch ⇒ the enclosing body runs ∧ the branch's condition (= its ready) holds ∧ every method of its static call tree is ready
theorem c12_branch_needs (hA : Accepted D S) (hC : Cycle D v S run) (hS : ShapeC12 D U L Dr)
    (hl : LinkEn D v run L) (hd : DerEn v run Dr) {b : Nat} (hb : b ∈ U.branches) (hr : run b = true) :
    run U.parent = true ∧ v.ready b = true ∧ ∀ m, Reaches D b m → v.ready m = true :=
  branch_needs hA hC hS hl hd hb hr

-- OBLIGATION c12_one : sentence 2: two running branches of one condition() are the same branch (their merged transactions share the exclusive method made from the parent's caller, hence a conflict edge, hence mutual exclusion by either scheduler)
theorem c12_one (hA : Accepted D S) (hC : Cycle D v S run) (hS : ShapeC12 D U L Dr) {b b' : Nat}
    (hb : b ∈ U.branches) (hb' : b' ∈ U.branches) (hr : run b = true) (hr' : run b' = true) : b = b' :=
  one_branch hA hC hS hb hb' hr hr'

-- OBLIGATION c12_default : sentence 3: the catch-all branch (last branch of a use with a default) runs only if no other branch's condition holds (DefaultReady: ready = ~any(conds), simultaneous.py:78)
theorem c12_default (hA : Accepted D S) (hC : Cycle D v S run) (hS : ShapeC12 D U L Dr)
    (hl : LinkEn D v run L) (hd : DerEn v run Dr) (hdr : DefaultReady v U) (hdef : U.hasDefault = true)
    {d : Nat} (hlast : U.branches.getLast? = some d) (hr : run d = true) :
    ∀ b ∈ U.branches.dropLast, v.ready b = false :=
  default_needs hA hC hS hl hd hdr hdef hlast hr

-- OBLIGATION c12_parent : sentence 4, blocking form: whenever the enclosing body runs, one of the branches of the use runs (for nonblocking=True without an explicit default, condition() itself appends an empty catch-all branch, simultaneous.py:93-95, which is a branch of the use)
theorem c12_parent (hA : Accepted D S) (hC : Cycle D v S run) (hS : ShapeC12 D U L Dr)
    (hl : LinkEn D v run L) (hd : DerEn v run Dr) (hr : run U.parent = true) :
    ∃ b ∈ U.branches, run b = true :=
  parent_needs_branch hA hC hS hl hd hr

-- OBLIGATION c12_parent_nonblocking : sentence 4, "unless nonblocking is set and no condition holds": for a use whose last branch is the catch-all, the enclosing body runs only together with one of the other branches, or no other branch's condition holds
theorem c12_parent_nonblocking (hA : Accepted D S) (hC : Cycle D v S run) (hS : ShapeC12 D U L Dr)
    (hl : LinkEn D v run L) (hd : DerEn v run Dr) (hdr : DefaultReady v U) (hdef : U.hasDefault = true)
    (hr : run U.parent = true) :
    (∃ b ∈ U.branches.dropLast, run b = true) ∨ (∀ b ∈ U.branches.dropLast, v.ready b = false) := by
  obtain ⟨b, hb, hrb⟩ := parent_needs_branch hA hC hS hl hd hr
  have hne : U.branches ≠ [] := by intro h; rw [h] at hb; cases hb
  have hlast := List.getLast?_eq_getLast hne
  by_cases h : b = U.branches.getLast hne
  · right
    rw [← h] at hlast
    exact default_needs hA hC hS hl hd hdr hdef hlast hrb
  · left
    refine ⟨b, ?_, hrb⟩
    have := List.dropLast_concat_getLast hne
    rw [← this] at hb
    simp only [List.mem_append, List.mem_singleton] at hb
    exact hb.resolve_right h

-- OBLIGATION c12_priority_partial : sentence 5, eager scheduler, with the ADDED hypothesis NbrOk (driver-checked per design on the conflict graph: no transaction outside the use competes for what only an earlier branch needs — e.g. a callee of that branch shared with an unrelated transaction; generators do not produce such sharing): with priority=True, if the j-th branch runs then for no i < j a transaction executing the i-th branch is fully enabled (ready ∧ runnable: enclosing body, condition, all callees ready)
theorem c12_priority_partial (hA : Accepted D S) (hC : Cycle D v S run) (he : Eager D v S run)
    (ho : ValidOrder D S) (hS : ShapeC12 D U L Dr) (hN : NbrOk D S U) (hp : U.priority = true)
    {i j : Nat} (hij : i < j) (hj : j < U.branches.length) (hr : run (U.branches[j]'hj) = true) :
    ¬ Admissible D v run (U.branches[i]'(by omega)) :=
  priority_needs hA hC he ho hS hN hp hij hj hr

-- OBLIGATION c12_model_hyps : where the hypotheses come from: if the executable manager model accepts the post-merge design, the implementation's priority order passes the executable order check and the per-valuation check cycleOk holds (all three printed by the driver for every generated design / valuation), then Accepted, ValidOrder, SitesNodup, Cycle and Eager hold for the abstraction of that design
theorem c12_model_hyps {Dm : CoreModel.Design} {E : CoreModel.Elab} {order : List Nat} {vm : CoreModel.Val}
    {r : Nat → Bool} (hel : CoreModel.elaborate Dm = .ok E)
    (hvo : CoreModel.validOrder E.g.before Dm.transactions order = true)
    (hcy : Bridge.cycleOk Dm E order vm r = true) :
    Accepted (Bridge.toAbs Dm) (Bridge.toSched E order) ∧ ValidOrder (Bridge.toAbs Dm) (Bridge.toSched E order) ∧
    (Bridge.toAbs Dm).SitesNodup ∧
    Cycle (Bridge.toAbs Dm) (Bridge.toVal Dm vm) (Bridge.toSched E order) (Bridge.runAll E vm r) ∧
    Eager (Bridge.toAbs Dm) (Bridge.toVal Dm vm) (Bridge.toSched E order) (Bridge.runAll E vm r) :=
  model_hyps hel hvo hcy

-- OBLIGATION c12_shape_checker_sound : the Boolean checkers evaluated by the driver imply the hypotheses ShapeC12 / NbrOk / LinkEn / DerEn / DefaultReady
theorem c12_shape_checker_sound (hb : Bounded D) :
    (shapeC12B D U L Dr = true → ShapeC12 D U L Dr) ∧ (nbrOkB D S U = true → NbrOk D S U) ∧
    (linkEnB D v run L = true → LinkEn D v run L) ∧ (derEnB v run Dr = true → DerEn v run Dr) ∧
    (defaultReadyB v U = true → DefaultReady v U) :=
  ⟨shapeC12B_sound hb, nbrOkB_sound, linkEnB_sound, derEnB_sound, defaultReadyB_sound⟩

end TxV.Core

#print axioms TxV.Core.c12_branch_needs
#print axioms TxV.Core.c12_one
#print axioms TxV.Core.c12_default
#print axioms TxV.Core.c12_parent
#print axioms TxV.Core.c12_parent_nonblocking
#print axioms TxV.Core.c12_priority_partial
#print axioms TxV.Core.c12_model_hyps
#print axioms TxV.Core.c12_shape_checker_sound
