import TxV.Core.Example2
/-!
# C07 — the eager scheduler wastes no cycle

"With the default scheduler, a transaction that is fully enabled (C03) but does not run always has
a conflicting transaction (sharing an exclusive method on non-exclusive call paths, or related by
add_conflict) running in the same cycle. Calls placed in different alternatives of one control
structure, nonexclusive methods and schedule_before never by themselves prevent a transaction from
running."

`Eager D v S run` : `run` solves the equations of schedulers.py:38–43.  `CgrSources D S` : every
edge of `cgr` was added by manager.py:273–277 (implicit) or :291–305 (lifted `add_conflict`) — the
driver checks it on the implementation's `cgr` (`cgrSourcesB`, sound by `cgrSourcesB_sound`).
-/
namespace TxV.Core

variable {D : Design} {v : Val} {S : Sched} {run : Nat → Bool}

-- OBLIGATION c07_no_waste : sentence 1, scheduler part (under driver-checked hypothesis Eager = eagerB, the equations of schedulers.py:38-43): for every solution of the eager equations, a transaction that is ready ∧ runnable but does not run has a conflict-graph neighbour that runs (and precedes it in the priority order)
theorem c07_no_waste (he : Eager D v S run) {t : Nat} (ht : D.isTrans t = true)
    (hready : v.ready t = true) (hrunnable : Runnable D v run t) (hnr : run t = false) :
    ∃ t', D.isTrans t' = true ∧ S.ord t' < S.ord t ∧ S.cgr t t' = true ∧ run t' = true :=
  eager_no_waste he ht hready hrunnable hnr

-- OBLIGATION c07_blocked_by_conflict : sentence 1 in full (under driver-checked per-cycle hypothesis Eager and hypothesis CgrSources, PROVED both for the theory's own graph cgrOf D (cgrOf_sources) and for the executable model's graph (Bridge.elaborate_cgrSources)): … and that running neighbour either shares with it an exclusive method reached on non-exclusive call paths, or is related to it by a lifted add_conflict (transactions not exclusive by definition)
theorem c07_blocked_by_conflict (he : Eager D v S run) (hsrc : CgrSources D S) {t : Nat}
    (ht : D.isTrans t = true) (hready : v.ready t = true) (hrunnable : Runnable D v run t)
    (hnr : run t = false) :
    ∃ t', D.isTrans t' = true ∧ t' ≠ t ∧ run t' = true ∧ S.ord t' < S.ord t ∧ S.cgr t t' = true ∧
      (SharedExclusive D t t' ∨ LiftedConflict D t t') :=
  blocked_by_conflict he hsrc ht hready hrunnable hnr

-- OBLIGATION cgr_sources : edges come from nowhere else: an edge of cgr joins two different transactions with an implicit conflict (calls_nonexclusive fails for a commonly reached method; then they share an exclusive method on non-exclusive call paths: cgr_implicit_shared) or a lifted add_conflict
theorem cgr_sources (hsrc : CgrSources D S) {t1 t2 : Nat} (l1 : t1 < D.n) (l2 : t2 < D.n)
    (h : S.cgr t1 t2 = true) :
    D.isTrans t1 = true ∧ D.isTrans t2 = true ∧ t1 ≠ t2 ∧ (SharedExclusive D t1 t2 ∨ LiftedConflict D t1 t2) := by
  obtain ⟨h1, h2, h3, h4⟩ := hsrc t1 l1 t2 l2 h
  exact ⟨h1, h2, h3, h4.elim (fun x => Or.inl (implicit_shared x)) Or.inr⟩

-- OBLIGATION cgr_implicit_shared : a failing calls_nonexclusive (exclusive outermost common ancestor, call paths not exclusive) exhibits an exclusive method both transactions reach on call paths that are not exclusive
theorem cgr_implicit_shared {t1 t2 : Nat} (h : ImplicitConflict D t1 t2) : SharedExclusive D t1 t2 :=
  implicit_shared h

-- OBLIGATION c07_runs_if_unblocked : sentence 2, scheduler part: nothing but a running conflict-graph neighbour keeps a ready ∧ runnable transaction from running
theorem c07_runs_if_unblocked (he : Eager D v S run) {t : Nat} (ht : D.isTrans t = true)
    (hready : v.ready t = true) (hrunnable : Runnable D v run t)
    (hfree : ∀ t', S.cgr t t' = true → run t' = false) : run t = true :=
  runs_if_unblocked he ht hready hrunnable hfree

-- OBLIGATION c07_schedule_before_no_edge : sentence 2, schedule_before: if calls_nonexclusive holds for every commonly reached method and no add_conflict relates the two call trees, there is no conflict edge, whatever non-conflict relations (schedule_before, nesting) exist
theorem c07_schedule_before_no_edge (hsrc : CgrSources D S) {t1 t2 : Nat} (l1 : t1 < D.n) (l2 : t2 < D.n)
    (hni : NoImplicitConflict D t1 t2)
    (hnc : ∀ a b, (ConflictRel D a b ∨ ConflictRel D b a) → ¬ (TransFor D t1 a ∧ TransFor D t2 b)) :
    S.cgr t1 t2 = false :=
  no_edge_without_source hsrc l1 l2 hni hnc

-- OBLIGATION c07_exclusive_alternatives_no_implicit : sentence 2, different alternatives: if every pair of call chains to a commonly reached method has exclusive call paths, there is no implicit conflict
theorem c07_exclusive_alternatives_no_implicit {t1 t2 : Nat}
    (h : ∀ ch1 ch2 m, IsChain D t1 ch1 → IsChain D t2 ch2 → target ch1 = some m → target ch2 = some m →
      cpe ch1 ch2 = true) : NoImplicitConflict D t1 t2 :=
  exclusive_alternatives_no_implicit h

-- OBLIGATION c07_nonexclusive_no_implicit : sentence 2, nonexclusive methods: if the outermost common ancestor of every pair of call chains to a commonly reached method is nonexclusive, there is no implicit conflict
theorem c07_nonexclusive_no_implicit {t1 t2 : Nat}
    (h : ∀ ch1 ch2 m, IsChain D t1 ch1 → IsChain D t2 ch2 → target ch1 = some m → target ch2 = some m →
      lcaNonexcl D ch1 ch2 = true) : NoImplicitConflict D t1 t2 :=
  nonexclusive_ancestor_no_implicit h

/-- non-vacuity: in the example cycle (a solution of the eager equations, `cgr` has only sourced
edges) `T1` is ready and runnable but does not run; `T0`, which shares `M3` with it, runs -/
example : boundedB Ex.D = true ∧ eagerB Ex.D Ex.v Ex.S Ex.run = true ∧ cgrSourcesB Ex.D Ex.S = true ∧
    Ex.v.ready 1 = true ∧ runnableB Ex.D Ex.v Ex.run 1 = true ∧ Ex.run 1 = false ∧
    Ex.run 0 = true ∧ Ex.S.cgr 1 0 = true ∧ implicitB Ex.D 1 0 = true ∧ Ex.S.cgr 0 2 = false :=
  ⟨Ex.bounded, Ex.eager, Ex.cgrSources, rfl, Ex.runnable1, rfl, rfl, by decide, by decide, by decide⟩

/-- non-vacuity (nonexclusive methods add no edge): in the second example the two transactions share
nonexclusive `N` and, below it, exclusive `M`; the computed conflict graph has no edge and both run -/
example : accept Ex2.D Ex2.ord = true ∧
    ((List.range 5).all fun a => (List.range 5).all fun b => !cgrOf Ex2.D a b) = true ∧
    noImplicitB Ex2.D 0 1 = true ∧ eagerB Ex2.D Ex2.v Ex2.S Ex2.run = true ∧
    Ex2.run 0 = true ∧ Ex2.run 1 = true :=
  ⟨Ex2.accepted, Ex2.noEdges, Ex2.noImplicit01, Ex2.eager, rfl, rfl⟩

end TxV.Core

#print axioms TxV.Core.c07_no_waste
#print axioms TxV.Core.c07_blocked_by_conflict
#print axioms TxV.Core.cgr_sources
#print axioms TxV.Core.cgr_implicit_shared
#print axioms TxV.Core.c07_runs_if_unblocked
#print axioms TxV.Core.c07_schedule_before_no_edge
#print axioms TxV.Core.c07_exclusive_alternatives_no_implicit
#print axioms TxV.Core.c07_nonexclusive_no_implicit
