import TxV.Proofs.RRSched
/-!
# C09 — Round-robin scheduler: one grant per component, no starvation

"With trivial_roundrobin_cc_scheduler, at most one transaction of each conflict component runs per
cycle, one runs whenever some transaction of the component is fully enabled, and a transaction that
stays enabled is granted within as many cycles as its component has transactions."
Quantifier: every well-formed design without intra-component ready dependencies, every input
valuation, every input history from any reachable arbiter state.

Reading.  A design enters only through (a) the partition `ccs` of its transactions into conflict
components, each listed in the arbiter's index order (any order: the theorems are for all of them),
and (b) the request bit `req t = ready t ∧ runnable t` of every transaction, which without ready
dependencies is a function of the cycle's inputs alone (`requestOf`), so the theorems quantify over
arbitrary request functions / histories `reqs : cycle → transaction → Bool`.  "Fully enabled" is
`req t = true`.  States: `Reach ccs s` (every arbiter register designates one of its inputs); these
are the states reachable from reset (`c09_reach`), and every such register value is reachable
(`arbiter_state_reachable` in Proofs/RRSched.lean).
-/
namespace TxV.RRSched
open TxV.RoundRobin

-- OBLIGATION c09_reach : the reset state satisfies Reach (all components non-empty) and Reach is preserved by every cycle, so every state along every history from reset (and from any Reach state) is a Reach state: the theorems below cover all reachable arbiter states
theorem c09_reach {ccs : List (List Nat)} (hne : ∀ cc ∈ ccs, cc ≠ []) :
    Reach ccs (init ccs) ∧
    (∀ s req, Reach ccs s → Reach ccs (step ccs s req).1) ∧
    (∀ s0 reqs τ, Reach ccs s0 → Reach ccs (traj ccs reqs s0 τ)) :=
  ⟨reach_init hne, fun _ req h => reach_step h req, fun _ reqs τ h => reach_traj h reqs τ⟩

-- OBLIGATION c09_one : at most one transaction of each component runs per cycle: for every partition without duplicates, every Reach state, every request valuation, two running transactions of the same component are equal
theorem c09_one {ccs : List (List Nat)} {s : List Nat} (req : Nat → Bool) (hnd : ccs.flatten.Nodup)
    {cc : List Nat} {t1 t2 : Nat} (hcc : cc ∈ ccs) (h1 : t1 ∈ cc) (h2 : t2 ∈ cc)
    (r1 : runOf ccs (step ccs s req).2 t1 = true) (r2 : runOf ccs (step ccs s req).2 t2 = true) : t1 = t2 := by
  obtain ⟨i, hi⟩ := List.mem_iff_getElem?.1 hcc
  obtain ⟨k1, hk1⟩ := List.mem_iff_getElem?.1 h1
  obtain ⟨k2, hk2⟩ := List.mem_iff_getElem?.1 h2
  obtain ⟨i1, cc1, g1, k1', hc1, hs1, hk1', hp1, _⟩ := runOf_step_iff.1 r1
  obtain ⟨i2, cc2, g2, k2', hc2, hs2, hk2', hp2, _⟩ := runOf_step_iff.1 r2
  obtain ⟨e1, e1'⟩ := part_unique hnd hi hc1 hk1 hk1'
  obtain ⟨e2, e2'⟩ := part_unique hnd hi hc2 hk2 hk2'
  subst e1 e1' e2 e2'
  rw [hi] at hc1 hc2; cases hc1; cases hc2
  rw [hs1] at hs2; cases hs2
  have : k1 = k2 := hp1.trans hp2.symm
  subst this
  rw [hk1] at hk2; exact Option.some.inj hk2

-- OBLIGATION c09_one_count : the same as a count: the run bits of one component (by arbiter position) contain at most one `true`, for every partition, Reach state and request valuation (no hypothesis on the partition)
theorem c09_one_count {ccs : List (List Nat)} {s : List Nat} (req : Nat → Bool) {i : Nat} {r : List Bool}
    (h : (step ccs s req).2[i]? = some r) {k1 k2 : Nat} (h1 : r[k1]? = some true) (h2 : r[k2]? = some true) :
    k1 = k2 := by
  obtain ⟨cc, g, _, _, e⟩ := step_out_get_inv h
  subst e
  exact (ccRuns_get.1 h1).2.1.trans (ccRuns_get.1 h2).2.1.symm

-- OBLIGATION c09_sub : only enabled transactions run: run t ⇒ request t (= ready ∧ runnable), for every partition, Reach state and request valuation
theorem c09_sub {ccs : List (List Nat)} {s : List Nat} (hs : Reach ccs s) (req : Nat → Bool) {t : Nat}
    (r : runOf ccs (step ccs s req).2 t = true) : req t = true := by
  obtain ⟨i, cc, g, k, hc, hg, hk, hp, ha⟩ := runOf_step_iff.1 r
  have hlt : g < cc.length := hs.2 i cc g hc hg
  have := pick_requests hlt (anyReq_true.1 ha)
  rw [← hp, ccReq_of_get hk] at this
  exact this

-- OBLIGATION c09_some : one runs whenever some transaction of the component is fully enabled: for every partition, component cc, Reach state and request valuation, a requesting member of cc implies a running (and requesting) member of cc
theorem c09_some {ccs : List (List Nat)} {s : List Nat} (hs : Reach ccs s) (req : Nat → Bool)
    {cc : List Nat} {t : Nat} (hcc : cc ∈ ccs) (ht : t ∈ cc) (hr : req t = true) :
    ∃ t', t' ∈ cc ∧ runOf ccs (step ccs s req).2 t' = true ∧ req t' = true := by
  obtain ⟨i, hi⟩ := List.mem_iff_getElem?.1 hcc
  obtain ⟨k, hk⟩ := List.mem_iff_getElem?.1 ht
  obtain ⟨g, hg, hlt⟩ := reach_state_get hs hi
  have ha := anyReq_of_member hk hr
  have hp : pick cc.length g (ccReq cc req) < cc.length := pick_lt hlt
  have hrun : runOf ccs (step ccs s req).2 cc[pick cc.length g (ccReq cc req)] = true :=
    runOf_step_iff.2 ⟨i, cc, g, _, hi, hg, List.getElem?_eq_getElem hp, rfl, ha⟩
  exact ⟨_, List.getElem_mem hp, hrun, c09_sub hs req hrun⟩

-- OBLIGATION c09_fair : a transaction that stays enabled is granted within as many cycles as its component has transactions: for every partition, component cc, Reach state s0, request history reqs with reqs τ t for all τ < |cc|, t runs in some cycle τ < |cc|
theorem c09_fair {ccs : List (List Nat)} {s0 : List Nat} (hs : Reach ccs s0) (reqs : Nat → Nat → Bool)
    {cc : List Nat} {t : Nat} (hcc : cc ∈ ccs) (ht : t ∈ cc) (h : ∀ τ, τ < cc.length → reqs τ t = true) :
    ∃ τ, τ < cc.length ∧ runOf ccs (runsAt ccs reqs s0 τ) t = true := by
  obtain ⟨i, hi⟩ := List.mem_iff_getElem?.1 hcc
  obtain ⟨k, hk⟩ := List.mem_iff_getElem?.1 ht
  obtain ⟨g, hg, hlt⟩ := reach_state_get hs hi
  have hkl : k < cc.length := (List.getElem?_eq_some_iff.1 hk).1
  obtain ⟨τ, hτ, hp⟩ := rr_fair_n (n := cc.length) (j := k) (g0 := g) (fun τ => ccReq cc (reqs τ)) hkl hlt
    (fun τ hτ => by rw [ccReq_of_get hk]; exact h τ hτ)
  refine ⟨τ, hτ, ?_⟩
  unfold runsAt
  exact runOf_step_iff.2 ⟨i, cc, _, k, hi, traj_get reqs hi hg τ, hk, hp.symm, anyReq_of_member hk (h τ hτ)⟩

-- OBLIGATION c09_no_conflict_joint_run : two transactions joined by a conflict edge never run in the same cycle, provided every conflict edge lies inside one component (decidable check `edgesIntra`, evaluated by the driver on the real cgr/ccs) and the partition has no duplicates
theorem c09_no_conflict_joint_run {ccs : List (List Nat)} {s : List Nat} (req : Nat → Bool)
    (hnd : ccs.flatten.Nodup) {edges : List (Nat × Nat)} (hin : edgesIntra edges ccs = true)
    {a b : Nat} (he : (a, b) ∈ edges) (hab : a ≠ b) :
    ¬ (runOf ccs (step ccs s req).2 a = true ∧ runOf ccs (step ccs s req).2 b = true) := by
  intro ⟨ra, rb⟩
  obtain ⟨cc, hcc, ha, hb⟩ := edgesIntra_spec hin he
  exact hab (c09_one req hnd hcc ha hb ra rb)

-- OBLIGATION c09_run_enabled : for a design without ready dependencies (requests = requestOf): a running transaction has its own body ready and every called method body ready
theorem c09_run_enabled {ccs : List (List Nat)} {s : List Nat} (hs : Reach ccs s)
    (calls : Nat → List Nat) (tr mr : Nat → Bool) {t : Nat}
    (r : runOf ccs (step ccs s (requestOf calls tr mr)).2 t = true) :
    tr t = true ∧ ∀ m ∈ calls t, mr m = true := by
  have := c09_sub hs _ r
  simpa [requestOf, List.all_eq_true] using this

/-- non-vacuity: 6 transactions, components [3,0,5] (arbiter order), [1] and [4,2]; registers at
    positions 2, 0, 1 (a Reach state, valid partition, edges inside components); requests {0,3,2}:
    position 0 (transaction 3) of the first and position 1 (transaction 2) of the third component run -/
example : validPart 6 [[3,0,5],[1],[4,2]] = true ∧ edgesIntra [(3,0),(0,5),(4,2)] [[3,0,5],[1],[4,2]] = true ∧
    ccsConnected [(3,0),(0,5),(4,2)] [[3,0,5],[1],[4,2]] = true ∧
    step [[3,0,5],[1],[4,2]] [2,0,1] (fun t => t == 0 || t == 3 || t == 2)
      = ([0,0,1], [[true,false,false],[false],[false,true]]) := by decide

example : Reach [[3,0,5],[1],[4,2]] [2,0,1] := by
  refine ⟨rfl, fun i cc g hc hs => ?_⟩
  match i, hc, hs with
  | 0, hc, hs => cases hc; cases hs; decide
  | 1, hc, hs => cases hc; cases hs; decide
  | 2, hc, hs => cases hc; cases hs; decide
  | _+3, hc, _ => cases hc

/-- fairness is tight: in a component of 3 with everybody requesting, the holder of the register is served last (cycle 2) -/
example : (List.range 3).map (fun τ => runOf [[3,0,5]] (runsAt [[3,0,5]] (fun _ _ => true) [0] τ) 3) = [false, false, true] := by
  decide

end TxV.RRSched

#print axioms TxV.RRSched.c09_reach
#print axioms TxV.RRSched.c09_one
#print axioms TxV.RRSched.c09_one_count
#print axioms TxV.RRSched.c09_sub
#print axioms TxV.RRSched.c09_some
#print axioms TxV.RRSched.c09_fair
#print axioms TxV.RRSched.c09_no_conflict_joint_run
#print axioms TxV.RRSched.c09_run_enabled
