import TxV.Proofs.Stack
/-!
# C16 — Stack behaves as a bounded LIFO

"For every sequence of calls, Stack.read returns and removes the most recently pushed element
still present, peek returns it without removal, read and write in the same cycle act as a read
followed by a push, read/peek are ready iff non-empty, write iff not full, and clear empties
the stack."

`step`/`run` transcribe stack.py (`Model/Stack.lean`); `specStep`/`specRun` is the bounded
list-stack (head of the list = most recently pushed element still present): in one cycle a
read pops, then a write pushes, a clear empties.  `stored d is` is the content (top first) of
the real structure after the history `is` from reset.  All theorems are for every depth
`d ≥ 0` (power of two or not; the real Stack elaborates with depth 0 and is then never ready), every data value, every history of simultaneous call attempts.
-/
namespace TxV.Stack
open TxV.QueueUtil

def after (d : Nat) (is : List In) : State := (run d (init d) is).1
/-- elements on the stack after a history from reset, most recently pushed first -/
def stored (d : Nat) (is : List In) : List Nat := abs (after d is)

theorem inv_after (d : Nat) (is : List In) : Inv d (after d is) :=
  (run_refines is (inv_init d)).1

-- OBLIGATION c16_refines : Stack (every depth, every history) is observationally the bounded list-stack: same done bits, returned data and readiness every cycle, and its content is the list's
theorem c16_refines (d : Nat) (is : List In) :
    (run d (init d) is).2 = (specRun d [] is).2 ∧ stored d is = (specRun d [] is).1 := by
  have := run_refines is (inv_init d)
  rw [abs_init] at this
  exact ⟨this.2.1, this.2.2⟩

-- OBLIGATION c16_read : after every history, an executed read returns the most recently pushed element still present and removes it (alone in its cycle: the rest of the stack is what remains)
theorem c16_read (d : Nat) (is : List In) (x : Nat) (rest : List Nat) (p : Bool)
    (h : stored d is = x :: rest) :
    (step d (after d is) ⟨none, true, p, false⟩).2.rd = some x ∧
    stored d (is ++ [⟨none, true, p, false⟩]) = rest := by
  have hinv := inv_after d is
  obtain ⟨_, h2, h3⟩ := refines hinv ⟨none, true, p, false⟩
  unfold stored after at *
  rw [run_snoc, h2, h3, h]
  simp [specStep]

-- OBLIGATION c16_peek : peek returns the most recently pushed element still present without removing it: attempting peek changes neither the next state nor the other methods' outcomes
theorem c16_peek (d : Nat) (is : List In) (i : In) :
    (∀ x rest, stored d is = x :: rest → i.p = true → (step d (after d is) i).2.pk = some x) ∧
    (step d (after d is) i).1 = (step d (after d is) { i with p := false }).1 ∧
    (step d (after d is) i).2.rd = (step d (after d is) { i with p := false }).2.rd ∧
    (step d (after d is) i).2.wr = (step d (after d is) { i with p := false }).2.wr := by
  have hinv := inv_after d is
  refine ⟨?_, by simp [step], by simp [step], by simp [step]⟩
  intro x rest h hp
  have h2 := (refines hinv i).2.1
  unfold stored at h
  rw [h2, h]
  simp [specStep, hp]

-- OBLIGATION c16_read_write : read and write executing in the same cycle act as a read followed by a push: the read returns the old top, and the resulting stack equals the one after a read-only cycle followed by a write-only cycle
theorem c16_read_write (d : Nat) (is : List In) (x v : Nat) (rest : List Nat) (p : Bool)
    (h : stored d is = x :: rest) (hfull : (stored d is).length < d) :
    (step d (after d is) ⟨some v, true, p, false⟩).2.rd = some x ∧
    (step d (after d is) ⟨some v, true, p, false⟩).2.wr = some v ∧
    stored d (is ++ [⟨some v, true, p, false⟩]) = v :: rest ∧
    stored d (is ++ [⟨some v, true, p, false⟩])
      = stored d (is ++ [⟨none, true, false, false⟩, ⟨some v, false, false, false⟩]) := by
  have hinv := inv_after d is
  obtain ⟨_, h2, h3⟩ := refines hinv ⟨some v, true, p, false⟩
  obtain ⟨k1, _, k3⟩ := refines hinv ⟨none, true, false, false⟩
  obtain ⟨_, _, l3⟩ := refines k1 ⟨some v, false, false, false⟩
  have hne : ¬ rest.length + 1 = d := by
    have : (x :: rest).length < d := by rw [← h]; exact hfull
    simp at this; omega
  have hne' : ¬ rest.length = d := by
    have : (x :: rest).length < d := by rw [← h]; exact hfull
    simp at this; omega
  unfold stored after at *
  rw [run_snoc, run_snoc2, h2, h3, l3, k3, h]
  simp [specStep, hne, hne']

-- OBLIGATION c16_ready : after every history, read and peek are ready (execute when attempted) iff the stack is non-empty, write iff it holds fewer than depth elements, clear always
theorem c16_ready (d : Nat) (is : List In) (i : In) :
    let o := (step d (after d is) i).2
    (o.rrdy = true ↔ stored d is ≠ []) ∧
    (o.wrdy = true ↔ (stored d is).length < d) ∧
    (o.rd.isSome = true ↔ (i.r = true ∧ stored d is ≠ [])) ∧
    (o.pk.isSome = true ↔ (i.p = true ∧ stored d is ≠ [])) ∧
    (o.wr = if (stored d is).length < d then i.w else none) ∧
    (o.clr = i.c) := by
  have hinv := inv_after d is
  have hlen : (stored d is).length = (after d is).level := abs_length hinv
  have hne : stored d is ≠ [] ↔ (after d is).level ≠ 0 := by
    rw [← hlen]; cases stored d is <;> simp
  have hle := hinv.hl
  simp only [step, hne, hlen]
  refine ⟨by simp, ?_, ?_, ?_, ?_, trivial⟩
  · simp; omega
  · cases i.r <;> by_cases h0 : (after d is).level = 0 <;> simp [h0]
  · cases i.p <;> by_cases h0 : (after d is).level = 0 <;> simp [h0]
  · by_cases h1 : (after d is).level = d
    · simp [h1]
    · have : (after d is).level < d := by omega
      simp [h1, this]

-- OBLIGATION c16_clear : a cycle in which clear runs leaves the stack empty (level 0, read/peek not ready), whatever else ran in that cycle
theorem c16_clear (d : Nat) (is : List In) (i : In) (hc : i.c = true) :
    stored d (is ++ [i]) = [] ∧ (after d (is ++ [i])).level = 0 ∧
    ∀ j : In, (step d (after d (is ++ [i])) j).2.rd = none ∧
              (step d (after d (is ++ [i])) j).2.pk = none ∧
              (step d (after d (is ++ [i])) j).2.rrdy = false := by
  have e : after d (is ++ [i]) = (step d (after d is) i).1 := run_snoc d is i _
  have ha : (after d (is ++ [i])).level = 0 := by rw [e]; simp [step, hc]
  refine ⟨?_, ha, ?_⟩
  · unfold stored; simp [abs, ha]
  · intro j; simp [step, ha]

-- OBLIGATION c16_bounded : the stack never holds more than depth elements
theorem c16_bounded (d : Nat) (is : List In) : (stored d is).length ≤ d := by
  have hinv := inv_after d is
  have : (stored d is).length = (after d is).level := abs_length hinv
  have := hinv.hl
  omega


-- OBLIGATION c16_callers : when several transactions call read (resp. write) in one cycle, at most one of the callers executes, it is one that attempted, and it gets exactly the single-port outcome of the step — so the theorems above hold for the union of all callers (every value delivered to exactly one reader)
theorem c16_callers (d : Nat) (s : State) (ow or : List Nat) (i : MIn) (k1 k2 v1 v2 : Nat) :
    let e := eff ow or i
    let o := (step d s ⟨e.w, e.r, e.p, e.c⟩).2
    ((onlyTo i.ws.length e.gr o.rd)[k1]? = some (some v1) → (onlyTo i.ws.length e.gr o.rd)[k2]? = some (some v2) →
        k1 = k2 ∧ o.rd = some v1 ∧ i.rs.getD k1 false = true) ∧
    ((onlyTo i.ws.length e.gw o.wr)[k1]? = some (some v1) → (onlyTo i.ws.length e.gw o.wr)[k2]? = some (some v2) →
        k1 = k2 ∧ o.wr = some v1 ∧ (i.ws.map Option.isSome).getD k1 false = true) :=
  ⟨fun h1 h2 => callers_exclusive h1 h2, fun h1 h2 => callers_exclusive h1 h2⟩

/-- non-vacuity: depth 3 (not a power of two): push to full, blocked push with a read, read+write
    in one cycle, peek, clear racing with a write, reuse after the clear -/
example :
    let is : List In := [⟨some 1, true, true, false⟩, ⟨some 2, false, false, false⟩, ⟨some 3, false, true, false⟩,
                         ⟨some 4, true, false, false⟩, ⟨some 5, true, false, false⟩, ⟨some 6, false, true, true⟩,
                         ⟨some 7, true, false, false⟩, ⟨none, true, true, false⟩]
    (run 3 (init 3) is).2.map (fun o => (o.wr, o.rd, o.pk)) =
      [(some 1, none, none), (some 2, none, none), (some 3, none, some 2), (none, some 3, none),
       (some 5, some 2, none), (some 6, none, some 5), (some 7, none, none), (none, some 7, some 7)] ∧
    stored 3 (is.take 5) = [5, 1] ∧ stored 3 (is.take 6) = [] ∧ stored 3 is = [] := by
  decide

/-- non-vacuity of `c16_read_write`'s hypotheses -/
example : stored 3 [⟨some 1, false, false, false⟩, ⟨some 2, false, false, false⟩] = 2 :: [1] ∧
    (stored 3 [⟨some 1, false, false, false⟩, ⟨some 2, false, false, false⟩]).length < 3 := by decide

end TxV.Stack

#print axioms TxV.Stack.c16_refines
#print axioms TxV.Stack.c16_read
#print axioms TxV.Stack.c16_peek
#print axioms TxV.Stack.c16_read_write
#print axioms TxV.Stack.c16_ready
#print axioms TxV.Stack.c16_clear
#print axioms TxV.Stack.c16_bounded
#print axioms TxV.Stack.c16_callers
