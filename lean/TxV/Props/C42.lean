import TxV.Proofs.DepMgr
/-!
# C42 — DependencyManager keys behave as documented

"For every sequence of add and get operations, a list key returns all dependencies in insertion
order, a simple key returns its single dependency (its default when allowed, an error otherwise),
adding to a key after it was read raises when the key locks on get, and cached results never go
stale."

All theorems are for every key configuration `c` (every kind × every combination of the class
attributes `lock_on_get`, `cache`, `empty_valid`, any default), every history `h` of `add`, `get`
and `get_optional` operations over any number of keys, starting from the empty manager.
`answer c h o` is what operation `o` answers when issued after history `h`.

Vocabulary (TxV/Proofs/DepMgr.lean): `addsOf k h` = values of the `add k _` operations of `h` in
order; `readIn k h` = `h` contains a read of `k`; `openPart c k h` = `h` for a non-locking key, the
part of `h` before the first read of `k` for a key that locks on get; `accepted c k h = addsOf k
(openPart c k h)`.
-/
namespace TxV.DepMgr

-- OBLIGATION c42_refines : every sequence of add/get/get_optional operations: the answers of the model are exactly those of the history-level specification `specOut` (which has no cache and no dictionaries)
theorem c42_refines (c : Cfg) (h : List Op) : (run c init h).2 = specRun c [] h :=
  run_spec_from c [] h

-- OBLIGATION c42_list_order : a list key returns all (accepted) dependencies in insertion order; KeyError only if the key class overrides empty_valid=False and nothing was added
theorem c42_list_order (c : Cfg) (h : List Op) (k : Nat) (hk : (c k).kind = .list) :
    answer c h (.get k) =
      if !(c k).emptyValid && (addsOf k (openPart c k h)).isEmpty then .raised .keyError
      else .ret (some (.list (addsOf k (openPart c k h)))) := by
  unfold answer
  rw [step_spec]
  simp only [specOut, specGetOpt, combine, hk, accepted]
  by_cases hc : (!(c k).emptyValid && (addsOf k (openPart c k h)).isEmpty) = true
  · simp only [hc, if_true]; rfl
  · simp only [hc, if_false]; rfl

-- OBLIGATION c42_list_all : for a list key that does not lock on get, the returned list is the list of ALL values ever added, in insertion order
theorem c42_list_all (c : Cfg) (h : List Op) (k : Nat) (hk : (c k).kind = .list)
    (hl : (c k).lock = false) (he : (c k).emptyValid = true) :
    answer c h (.get k) = .ret (some (.list (addsOf k h))) := by
  rw [c42_list_order c h k hk]
  simp [he, openPart, hl]

-- OBLIGATION c42_simple : a simple key returns its single dependency; with none added its default when empty_valid (KeyError if that default is None), KeyError otherwise; RuntimeError when more than one was added
theorem c42_simple (c : Cfg) (h : List Op) (k : Nat) (hk : (c k).kind = .simple) :
    answer c h (.get k) =
      match accepted c k h with
      | [] => if (c k).emptyValid then
                (match (c k).dflt with | some d => .ret (some (.nat d)) | none => .raised .keyError)
              else .raised .keyError
      | [v] => .ret (some (.nat v))
      | _ :: _ :: _ => .raised .runtimeError := by
  unfold answer
  rw [step_spec]
  simp only [specOut, specGetOpt, combine, hk]
  rcases hacc : accepted c k h with _ | ⟨v, _ | ⟨w, l⟩⟩
  · cases he : (c k).emptyValid <;> cases hd : (c k).dflt <;> simp <;> rfl
  · simp; rfl
  · simp; rfl

-- OBLIGATION c42_unifier : a unifier key (uncached) returns the single method itself, or a fresh unifier over all accepted methods in insertion order; KeyError when none was added
theorem c42_unifier (c : Cfg) (h : List Op) (k : Nat) (hk : (c k).kind = .unifier) (he : (c k).emptyValid = false) :
    answer c h (.get k) =
      match accepted c k h with
      | [] => .raised .keyError
      | [m] => .ret (some (.meth m))
      | l => .ret (some (.unif l)) := by
  unfold answer
  rw [step_spec]
  simp only [specOut, specGetOpt, combine, hk, he]
  rcases hacc : accepted c k h with _ | ⟨v, _ | ⟨w, l⟩⟩ <;> simp <;> rfl

-- OBLIGATION c42_lock_on_get : for a key that locks on get, adding after any earlier read (get or get_optional, successful or not) raises KeyError and changes nothing
theorem c42_lock_on_get (c : Cfg) (h : List Op) (k v : Nat) (hl : (c k).lock = true) (hr : readIn k h = true) :
    step c (after c h) (.add k v) = (after c h, .raised .keyError) := by
  have hi := inv_after c h
  simp [step, addDep, hi.locked k, hl, hr]

-- OBLIGATION c42_add_ok : conversely an add is accepted (and appended last) whenever the key does not lock on get or was not read yet
theorem c42_add_ok (c : Cfg) (h : List Op) (k v : Nat) (hn : ((c k).lock && readIn k h) = false) :
    answer c h (.add k v) = .added ∧ accepted c k (h ++ [.add k v]) = accepted c k h ++ [v] := by
  constructor
  · unfold answer; rw [step_spec]; simp [specOut, hn]
  · rw [accepted_snoc, hn]; simp [addVal]

-- OBLIGATION c42_no_stale : cached results never go stale: every read answers `combine` of the dependencies accepted so far (computed from the history, not from the cache), for every key kind and every cache flag
theorem c42_no_stale (c : Cfg) (h : List Op) (k : Nat) :
    answer c h (.opt k) =
      (match specGetOpt (c k) (accepted c k h) with | .ok v => .ret v | .error e => .raised e) ∧
    answer c h (.get k) =
      (match specGetOpt (c k) (accepted c k h) with
        | .ok (some v) => .ret (some v) | .ok none => .raised .keyError | .error e => .raised e) := by
  unfold answer
  rw [step_spec, step_spec]
  exact ⟨rfl, rfl⟩

-- OBLIGATION c42_cache_irrelevant : switching the cache flag of any keys on or off changes no answer of any history (the cache is unobservable, hence never stale)
theorem c42_cache_irrelevant (c c' : Cfg) (hc : ∀ k, { c k with cache := (c' k).cache } = c' k) (h : List Op) :
    (run c init h).2 = (run c' init h).2 := by
  rw [c42_refines, c42_refines]
  generalize ([] : List Op) = past
  induction h generalizing past with
  | nil => rfl
  | cons o os ih => simp [specRun, specOut_congr c c' hc, ih]

/-- non-vacuity: key 0 = cached locking simple key, key 1 = cached non-locking list key (the cache is
filled, invalidated and refilled), key 2 = unifier key -/
example :
    let c : Cfg := fun k =>
      if k = 0 then ⟨.simple, true, true, false, none⟩
      else if k = 1 then ⟨.list, false, true, true, none⟩
      else ⟨.unifier, true, false, false, none⟩
    (run c init [.get 0, .add 1 5, .get 1, .add 1 7, .get 1, .get 1, .add 0 3, .add 2 4, .add 2 6, .get 2, .add 2 1]).2 =
      [.raised .keyError, .added, .ret (some (.list [5])), .added, .ret (some (.list [5, 7])),
       .ret (some (.list [5, 7])), .raised .keyError, .added, .added, .ret (some (.unif [4, 6])), .raised .keyError] := by
  decide

end TxV.DepMgr

#print axioms TxV.DepMgr.c42_refines
#print axioms TxV.DepMgr.c42_list_order
#print axioms TxV.DepMgr.c42_list_all
#print axioms TxV.DepMgr.c42_simple
#print axioms TxV.DepMgr.c42_unifier
#print axioms TxV.DepMgr.c42_lock_on_get
#print axioms TxV.DepMgr.c42_add_ok
#print axioms TxV.DepMgr.c42_no_stale
#print axioms TxV.DepMgr.c42_cache_irrelevant
