import TxV.Proofs.Testbench
/-!
# C43 — Testbench helpers call methods exactly once

"TestbenchIO.call returns the method result of the cycle in which the call succeeded and
performs exactly one call; call_try returns None exactly when the method did not run; a
MethodMock applies its effects exactly once per executed call and its return value reaches the
caller in the same cycle."

`Caller.run c env` is a testbench process with program `c.prog` against a method which in cycle
`k` would run iff `env[k].grant` and then returns `env[k].out` (every readiness history = every
`env`).  `MState.run f s cs` is a `MethodMock` of the function `f` over a history of cycles, each an
arbitrary time-ordered list of changes of the caller-side wires around the re-enable event with
an arbitrary `enable()` value (every enable pattern, every delay = position of the re-enable).
`Sys` is the composition with the design used by the harness.

PARTIAL by nature: the order in which pysim wakes processes inside one instant is an input of the
model, not part of it (see `TxV/Model/Testbench.lean`).
-/
namespace TxV.Testbench

-- OBLIGATION c43_call_once : call performs exactly one call — over the cycles a call occupies (not-ready cycles, then the first ready one) the method runs for this adapter exactly once, in the last cycle; then the process continues with the rest of the program (every program, every readiness history)
theorem c43_call_once (d : Nat) (rest : List Cmd) (pre : List Env) (o : Nat) (post : List Env)
    (hpre : ∀ e ∈ pre, e.grant = false) :
    Caller.run ⟨.call d :: rest⟩ (pre ++ ⟨true, o⟩ :: post) =
        pre.map (fun _ => ⟨true, false, none⟩) ++ ⟨true, true, some (.called o)⟩ :: Caller.run ⟨rest⟩ post ∧
    ((Caller.run ⟨.call d :: rest⟩ (pre ++ ⟨true, o⟩ :: post)).take (pre.length + 1)).countP (·.done) = 1 := by
  have h := run_call d rest pre o post hpre
  refine ⟨h, ?_⟩
  rw [h]
  clear h hpre
  induction pre with
  | nil => simp
  | cons e pre ih => simpa using ih

-- OBLIGATION c43_call_result : call returns the result of the cycle in which it succeeded — the value handed back is `out` of the first granted cycle, it is handed back in that cycle, and nothing is returned before
theorem c43_call_result (d : Nat) (rest : List Cmd) (pre : List Env) (o : Nat) (post : List Env)
    (hpre : ∀ e ∈ pre, e.grant = false) :
    (Caller.run ⟨.call d :: rest⟩ (pre ++ ⟨true, o⟩ :: post))[pre.length]? = some ⟨true, true, some (.called o)⟩ ∧
    ∀ j, j < pre.length →
      (Caller.run ⟨.call d :: rest⟩ (pre ++ ⟨true, o⟩ :: post))[j]? = some ⟨true, false, none⟩ := by
  rw [run_call d rest pre o post hpre]
  constructor
  · rw [List.getElem?_append_right (by simp)]
    simp
  · intro j hj
    rw [List.getElem?_append_left (by simpa using hj)]
    simp [hj]

-- OBLIGATION c43_call_blocked : a call whose method is never ready keeps the adapter enabled, never returns and performs no call
theorem c43_call_blocked (d : Nat) (rest : List Cmd) (env : List Env) (h : ∀ e ∈ env, e.grant = false) :
    Caller.run ⟨.call d :: rest⟩ env = env.map (fun _ => ⟨true, false, none⟩) :=
  run_call_never d rest env h

-- OBLIGATION c43_call_try_none_iff : call_try takes one cycle and returns None exactly when the method did not run in it, otherwise that cycle's result
theorem c43_call_try_none_iff (d : Nat) (rest : List Cmd) (e : Env) (post : List Env) :
    ∃ r, Caller.run ⟨.try_ d :: rest⟩ (e :: post) = ⟨true, e.grant, some (.tried r)⟩ :: Caller.run ⟨rest⟩ post ∧
      (r = none ↔ e.grant = false) ∧ (e.grant = true → r = some e.out) := by
  refine ⟨if e.grant then some e.out else none, run_try d rest e post, ?_, ?_⟩
  · cases e.grant <;> simp
  · intro h; simp [h]

-- OBLIGATION c43_calls_counted : in every cycle of every program the method runs for the adapter iff the process receives a value (call returns / call_try returns non-None) in that cycle; while the process only ticks or has finished the adapter is disabled and nothing runs
theorem c43_calls_counted (c : Caller) (e : Env) :
    (c.step e).2.done = (c.step e).2.success ∧ ((c.step e).2.en = false → (c.step e).2.done = false) ∧
    (∀ rest, c.prog = .tick :: rest → (c.step e).2 = ⟨false, false, none⟩) ∧
    (c.prog = [] → (c.step e).2 = ⟨false, false, none⟩) := by
  refine ⟨step_done_iff_success c e, ?_, ?_, ?_⟩
  · intro h; simp only [Caller.step] at h ⊢; simp [h]
  · intro rest h; obtain ⟨p⟩ := c; simp only at h; subst h
    simp [Caller.step, Caller.drive, Caller.edge]
  · intro h; obtain ⟨p⟩ := c; simp only at h; subst h
    simp [Caller.step, Caller.drive, Caller.edge]

-- OBLIGATION c43_mock_effects_once : over every history of cycles (any intra-cycle order of wire changes, re-enable position, enable() value, post-edge changes) the mock's outputs and effect log equal the specification: a call executes iff requested and enabled at the edge, its effects (those registered for the sampled argument, on the log before) are appended exactly once, nothing is appended otherwise
theorem c43_mock_effects_once (F : Nat → MockFn) (cs : List MCycle) (s : MState) (hs : s.mock.en = false) :
    (MState.run F s cs).1.mock.log = (specRun F s.mock.log (s.req, s.arg) cs).1 ∧
    (MState.run F s cs).2.map MOut.view = (specRun F s.mock.log (s.req, s.arg) cs).2 :=
  run_spec F cs s hs

-- OBLIGATION c43_mock_result_same_cycle : in the cycle in which the mocked method runs, the value on adapter.data_in at the edge is the function applied to that cycle's argument and the effects applied before it; the effects applied after the edge are those of that evaluation whatever changes after the edge (freeze)
theorem c43_mock_result_same_cycle (f : MockFn) (s : MState) (pre post after : List (Bool × Nat)) (men : Bool) (x : Nat)
    (hs : s.mock.en = false) :
    (s.cycle f ⟨pre, men, post, after, x⟩).2.done = ((lastWire (s.req, s.arg) (pre ++ post)).1 && men) ∧
    (s.cycle f ⟨pre, men, post, after, x⟩).2.applied =
      (if ((lastWire (s.req, s.arg) (pre ++ post)).1 && men) then
        f.effs s.mock.log (lastWire (s.req, s.arg) (pre ++ post)).2 else []) ∧
    (((lastWire (s.req, s.arg) (pre ++ post)).1 && men) = true →
      (s.cycle f ⟨pre, men, post, after, x⟩).2.ret = f.ret s.mock.log (lastWire (s.req, s.arg) (pre ++ post)).2) ∧
    (s.cycle f ⟨pre, men, post, after, x⟩).1.mock.log = s.mock.log ++ (s.cycle f ⟨pre, men, post, after, x⟩).2.applied ∧
    (s.cycle f ⟨pre, men, post, after, x⟩).1.mock.en = false :=
  cycle_facts f s pre post after men x hs

-- OBLIGATION c43_mock_none_is_zero : a mocked function answering None for the call that executes gives the caller the all-zero result in that same cycle, never the value of an earlier evaluation (every history of evaluations before it)
theorem c43_mock_none_is_zero (r : List Nat → Nat → Option Nat) (ef : List Nat → Nat → List Nat) (s : MState)
    (pre post after : List (Bool × Nat)) (men : Bool) (x : Nat) (hs : s.mock.en = false)
    (hrun : ((lastWire (s.req, s.arg) (pre ++ post)).1 && men) = true)
    (hnone : r s.mock.log (lastWire (s.req, s.arg) (pre ++ post)).2 = none) :
    (s.cycle (MockFn.ofPy r ef) ⟨pre, men, post, after, x⟩).2.done = true ∧
    (s.cycle (MockFn.ofPy r ef) ⟨pre, men, post, after, x⟩).2.ret = 0 := by
  obtain ⟨h1, _, h3, _⟩ := cycle_facts (MockFn.ofPy r ef) s pre post after men x hs
  refine ⟨by rw [h1, hrun], ?_⟩
  rw [h3 hrun]
  simp [MockFn.ofPy, hnone, noneAsZero]

-- OBLIGATION c43_sys_call_value : composition (process inside call/call_try d, design, mock): the call executes iff rdy at the edge and enable(); then the value the process samples is f.ret(effects so far, d + cyc) + val of this very cycle and exactly the effects of that argument are applied
theorem c43_sys_call_value (f : MockFn) (s : Sys) (i : CycIn) (d : Nat)
    (hinv : s.ms.mock.en = false) (hd : s.caller.drive = some d)
    (p0 : Phase) (ps : List Phase) (hph : i.phases = p0 :: ps) (hraw : ∀ p ∈ i.phases, p.raw = none) :
    (s.step f i).2.en = true ∧
    (s.step f i).2.done = (lastRdy p0.rdy ps && i.men) ∧
    (s.step f i).2.applied =
      (if (lastRdy p0.rdy ps && i.men) then f.effs s.ms.mock.log ((d % 2 ^ s.w + s.k) % 2 ^ s.w) else []) ∧
    ((lastRdy p0.rdy ps && i.men) = true →
      (s.step f i).2.out = (f.ret s.ms.mock.log ((d % 2 ^ s.w + s.k) % 2 ^ s.w) + i.val) % 2 ^ s.w) ∧
    (s.step f i).1.ms.mock.log = s.ms.mock.log ++ (s.step f i).2.applied ∧
    (s.step f i).1.ms.mock.en = false :=
  sys_step_cmd f s i d hinv hd p0 ps hph hraw

-- OBLIGATION c43_sys_caller : in the composed system the values the process receives are those of `Caller.run` against the environment (method ran, adapter.data_out) the system produced, so the caller theorems apply to it (every input history)
theorem c43_sys_caller (F : Nat → MockFn) (is : List CycIn) (s : Sys) :
    (Caller.run s.caller ((Sys.run F s is).map SysOut.env)).map (·.evt) = (Sys.run F s is).map (·.evt) :=
  sys_caller F is s

-- OBLIGATION c43_trig_attempts : multi-call CallTrigger — in every cycle in which the trigger is awaited every method it calls is attempted exactly once (its adapter is enabled, and it executes iff granted in that cycle); a method it does not call is enabled only by other agents
theorem c43_trig_attempts (es : List Entry) (mode : Mode) (rest : List TCmd) (e : TEnv) (m : Nat) :
    (∀ d, callData es m = some d →
      (TCaller.step ⟨.trig es mode :: rest⟩ e).2.en m = true ∧
      (TCaller.step ⟨.trig es mode :: rest⟩ e).2.done m = e.grant m) ∧
    (callData es m = none →
      (TCaller.step ⟨.trig es mode :: rest⟩ e).2.en m = (e.ext m).isSome ∧
      (TCaller.step ⟨.trig es mode :: rest⟩ e).2.done m = ((e.ext m).isSome && e.grant m)) := by
  rw [step_trig]
  constructor
  · intro d h; split <;> exact tout_called es e _ m d h
  · intro h; split <;> exact tout_not_called es e _ m h

-- OBLIGATION c43_trig_until : until_done / until_all_done / a single await return at the FIRST cycle in which any / all / whatever results are not None, hand back exactly that cycle's results, return nothing before, and the process then continues (every entry list, every history)
theorem c43_trig_until (es : List Entry) (mode : Mode) (rest : List TCmd) (pre : List TEnv) (e0 : TEnv)
    (post : List TEnv) (hpre : ∀ e ∈ pre, fires mode (results es e) = false)
    (h0 : fires mode (results es e0) = true) :
    TCaller.run ⟨.trig es mode :: rest⟩ (pre ++ e0 :: post) =
      pre.map (fun e => tout es e none) ++ tout es e0 (some (results es e0)) :: TCaller.run ⟨rest⟩ post :=
  run_trig es mode rest pre e0 post hpre h0

-- OBLIGATION c43_trig_result_none_iff : the per-call (and per sampled method) result is None iff that method did not run for its adapter in that cycle, otherwise the method's result of that cycle for the data of this call
theorem c43_trig_result_none_iff (es : List Entry) (e : TEnv) (m d : Nat) :
    (resOf es e (.call m d) = none ↔ doneOf es e m = false) ∧
    (doneOf es e m = true → resOf es e (.call m d) = some (e.out m d)) ∧
    (resOf es e (.samp m) = none ↔ doneOf es e m = false) :=
  ⟨(resOf_call es e m d).1, (resOf_call es e m d).2, resOf_samp es e m⟩

-- OBLIGATION c43_trig_counts : over the cycles a trigger is awaited, the number of executed calls of each called method equals the number of those cycles in which it was granted (calls that already executed are re-issued by until_all_done — that is what the code does)
theorem c43_trig_counts (es : List Entry) (mode : Mode) (rest : List TCmd) (pre : List TEnv) (e0 : TEnv)
    (post : List TEnv) (hpre : ∀ e ∈ pre, fires mode (results es e) = false)
    (h0 : fires mode (results es e0) = true) (m d : Nat) (hm : callData es m = some d) :
    ((TCaller.run ⟨.trig es mode :: rest⟩ (pre ++ e0 :: post)).take (pre.length + 1)).countP (·.done m) =
      (pre ++ [e0]).countP (·.grant m) := by
  rw [run_trig es mode rest pre e0 post hpre h0]
  clear hpre h0
  induction pre with
  | nil => simp [(tout_called es e0 _ m d hm).2]
  | cons e pre ih =>
    simp only [List.map_cons, List.cons_append, List.length_cons, List.take_succ_cons, List.countP_cons,
      (tout_called es e none m d hm).2]
    rw [ih]

-- OBLIGATION c43_trig_blocked : a trigger whose return condition never holds keeps being awaited and returns nothing
theorem c43_trig_blocked (es : List Entry) (mode : Mode) (rest : List TCmd) (env : List TEnv)
    (h : ∀ e ∈ env, fires mode (results es e) = false) :
    TCaller.run ⟨.trig es mode :: rest⟩ env = env.map (fun e => tout es e none) :=
  run_trig_never es mode rest env h

/-- non-vacuity (the coordinator's scenario): `bump` (method 0) always ready, `read` (method 1) ready from the
    third cycle. `until_done` returns in the first cycle with `(some, None)`; `until_all_done` returns in the
    third cycle and `bump` has executed three times by then -/
example :
    let env (r1 : Bool) : TEnv := { ext := fun _ => none, grant := fun m => m == 0 || (m == 1 && r1),
                                    out := fun m a => a + 10 * m, value := 0 }
    let es := [Entry.call 0 1, Entry.call 1 2]
    ((TCaller.run ⟨[.trig es .anyDone]⟩ [env false, env false, env true]).map (·.evt) =
        [some [some 1, none], none, none]) ∧
    ((TCaller.run ⟨[.trig es .allDone]⟩ [env false, env false, env true]).map (fun o => (o.done 0, o.evt)) =
        [(true, none), (true, none), (true, some [some 1, some 12])]) := by
  decide

/-- non-vacuity: tick; call 5 waits one not-ready cycle and succeeds when ready (argument 5+2, one effect 7
    applied once); call_try 3 fails because the mock is disabled, call_try 4 succeeds and sees the effect -/
example :
    let f : MockFn := { ret := fun log a => (a + log.length) % 64, effs := fun _ a => [a] }
    let ph (r : Bool) : List Phase := [⟨r, none⟩, ⟨r, none⟩, ⟨r, none⟩]
    (Sys.run (fun _ => f) (Sys.init 6 [.tick, .call 5, .try_ 3, .try_ 4])
        [⟨ph false, 0, true, 0, 0⟩, ⟨ph false, 0, true, 1, 0⟩, ⟨ph true, 1, true, 2, 0⟩, ⟨ph true, 2, false, 3, 0⟩,
         ⟨ph true, 0, true, 4, 0⟩]).map (fun o => (o.done, o.applied, o.evt)) =
      [(false, [], none), (false, [], none), (true, [7], some (.called 9)), (false, [], some (.tried none)),
       (true, [8], some (.tried (some 13)))] := by
  decide

end TxV.Testbench

#print axioms TxV.Testbench.c43_call_once
#print axioms TxV.Testbench.c43_call_result
#print axioms TxV.Testbench.c43_call_blocked
#print axioms TxV.Testbench.c43_call_try_none_iff
#print axioms TxV.Testbench.c43_calls_counted
#print axioms TxV.Testbench.c43_mock_effects_once
#print axioms TxV.Testbench.c43_mock_result_same_cycle
#print axioms TxV.Testbench.c43_mock_none_is_zero
#print axioms TxV.Testbench.c43_sys_call_value
#print axioms TxV.Testbench.c43_sys_caller
#print axioms TxV.Testbench.c43_trig_attempts
#print axioms TxV.Testbench.c43_trig_until
#print axioms TxV.Testbench.c43_trig_result_none_iff
#print axioms TxV.Testbench.c43_trig_counts
#print axioms TxV.Testbench.c43_trig_blocked
