import TxV.Proofs.EvLog
/-!
# C33 — event log captures and decodes events faithfully

"A captured event log contains one record for exactly each cycle and emission site whose trigger
and surrounding context were active, with the sampled field values; saving and loading the log,
streaming it with EventLogReader, or sampling a generated design through GeneratedEvLogSampler
(packed or per-site triggers) yields the same decoded events, and EventConsumer dispatches them
in cycle order."

All theorems are for every schema (any number of sites, field widths, signedness, kinds,
statics) and every trace (any number of cycles, any condition/trigger/field values).
The JSON text is abstract: `Codec.Faithful` is the assumption on Python's `json` /
`dataclasses_json` (decoding an encoded value returns it; an encoded record is not a blank line).
-/
namespace TxV.EvLog

-- OBLIGATION c33_active_iff : "trigger and surrounding context were active" = every enclosing condition holds and `when` is non-zero (every site input)
theorem c33_active_iff (si : SiteIn) :
    si.active = true ↔ (∀ b ∈ si.conds, b = true) ∧ si.whenv ≠ 0 := by
  simp [SiteIn.active]

-- OBLIGATION c33_capture_iff : a record (c, s, vals) is in the captured log iff cycle c exists, site s exists, its trigger-in-context was active in cycle c, and vals are the sampled field values (every schema, every trace)
theorem c33_capture_iff (sch : Schema) (trace : List (List SiteIn)) (e : RawEvent) :
    e ∈ capture sch 0 trace ↔
      ∃ ins st si, trace[e.cycle]? = some ins ∧ sch[e.site]? = some st ∧ ins[e.site]? = some si ∧
        si.active = true ∧ e.vals = sampled st si := by
  rw [mem_capture]
  constructor
  · rintro ⟨k, ins, hk, hc, hm⟩
    obtain ⟨_, st, si, h1, h2, ha, hv⟩ := (mem_captureCycle _ _ _ _).1 hm
    have : e.cycle = k := by omega
    subst this
    exact ⟨ins, st, si, hk, h1, h2, ha, hv⟩
  · rintro ⟨ins, st, si, hk, h1, h2, ha, hv⟩
    refine ⟨e.cycle, ins, hk, by omega, ?_⟩
    rw [mem_captureCycle]
    exact ⟨by omega, st, si, h1, h2, ha, hv⟩

-- OBLIGATION c33_capture_order : the captured log is strictly increasing in (cycle, site) — hence exactly one record per active (cycle, site), in capture order
theorem c33_capture_order (sch : Schema) (trace : List (List SiteIn)) :
    (capture sch 0 trace).Pairwise fun a b => a.cycle < b.cycle ∨ (a.cycle = b.cycle ∧ a.site < b.site) :=
  capture_sorted sch trace 0

-- OBLIGATION c33_capture_one : the log has no duplicates, and two records of the same cycle and site are the same record
theorem c33_capture_one (sch : Schema) (trace : List (List SiteIn)) :
    (capture sch 0 trace).Nodup ∧
    ∀ a ∈ capture sch 0 trace, ∀ b ∈ capture sch 0 trace, a.cycle = b.cycle → a.site = b.site → a = b := by
  constructor
  · refine (capture_sorted sch trace 0).imp ?_
    intro a b h hab
    subst hab
    unfold evLt at h
    omega
  · intro a ha b hb hc hs
    obtain ⟨ins, st, si, h1, h2, h3, _, hv⟩ := (c33_capture_iff _ _ _).1 ha
    obtain ⟨ins', st', si', h1', h2', h3', _, hv'⟩ := (c33_capture_iff _ _ _).1 hb
    rw [hc] at h1; rw [hs] at h2 h3
    rw [h1] at h1'; cases h1'
    rw [h2] at h2'; cases h2'
    rw [h3] at h3'; cases h3'
    cases a; cases b
    simp_all

-- OBLIGATION c33_packed_eq_persite : one `sample` call with the packed trigger vector reports the same records as with per-site triggers whenever bit i of the vector is (trigger i ≠ 0) (any number of sites, any higher bits)
theorem c33_packed_eq_persite (c p : Nat) (sigs : List SiteSig)
    (h : ∀ j (hj : j < sigs.length), p.testBit j = (sigs[j].trig != 0)) :
    sample c (some p) sigs = sample c none sigs := by
  unfold sample samplePacked samplePerSite
  by_cases hp : p = 0
  · subst hp
    simp only [beq_self_eq_true, if_true]
    symm
    apply samplePerSiteFrom_none
    intro j hj
    rw [← h j hj]; simp
  · have : (p == 0) = false := by simpa using hp
    simp only [this]
    exact samplePackedFrom_eq c p sigs 0 (by simpa using h)

-- OBLIGATION c33_packed_vector : the vector `Cat(triggers)` of a generated design satisfies that hypothesis
theorem c33_packed_vector (sigs : List SiteSig) (j : Nat) (hj : j < sigs.length) :
    (packedOf sigs).testBit j = (sigs[j].trig != 0) := by
  unfold packedOf
  rw [packBits_testBit _ _ (by simpa using hj)]
  simp

-- OBLIGATION c33_sampler_eq_capture : sampling the signals of the generated design once per cycle (packed or per-site) yields exactly the captured log (every schema, every trace)
theorem c33_sampler_eq_capture (usePacked : Bool) (sch : Schema) (trace : List (List SiteIn)) (c0 : Nat) :
    sampleRun usePacked sch c0 trace = capture sch c0 trace := by
  induction trace generalizing c0 with
  | nil => rfl
  | cons ins rest ih =>
    unfold sampleRun capture
    rw [ih (c0 + 1)]
    congr 1
    have hps : sample c0 none (sigsOf sch ins) = captureCycle sch c0 ins := by
      simp only [sample, samplePerSite, captureCycle]
      exact samplePerSiteFrom_sigs c0 sch ins 0
    cases usePacked with
    | false => simpa using hps
    | true =>
      simp only [if_true]
      rw [c33_packed_eq_persite _ _ _ (c33_packed_vector _), hps]

-- OBLIGATION c33_save_load : load (save log) = log, for every log, under the faithful-codec assumption on the JSON text
theorem c33_save_load {Text : Type} (c : Codec Text) (hc : c.Faithful) (log : Log) :
    load c (save c log) = some log := by
  simp [load, save, hc.decSchema_enc, parseLines_save c hc]

-- OBLIGATION c33_reader_eq : streaming a file with EventLogReader = loading the whole file and decoding it (every file, every codec; no assumption)
theorem c33_reader_eq {Text : Type} (c : Codec Text) (file : List Text) :
    readerAll c file = (load c file).bind Log.decoded := by
  cases file with
  | nil => rfl
  | cons h rest =>
    cases hs : c.decSchema h with
    | none => simp [readerAll, load, hs]
    | some sch =>
      simp only [readerAll, load, hs]
      rw [readLines_eq]
      cases parseLines c rest <;> simp [Log.decoded]

-- OBLIGATION c33_same_decoded : the decoded events of the captured log, of the saved-and-loaded log, of the streamed file and of both sampler modes are the same list
theorem c33_same_decoded {Text : Type} (c : Codec Text) (hc : c.Faithful) (sch : Schema)
    (trace : List (List SiteIn)) (usePacked : Bool) :
    let log : Log := ⟨sch, capture sch 0 trace⟩
    (load c (save c log)).bind Log.decoded = log.decoded ∧
    readerAll c (save c log) = log.decoded ∧
    Log.decoded ⟨sch, sampleRun usePacked sch 0 trace⟩ = log.decoded := by
  intro log
  refine ⟨?_, ?_, ?_⟩
  · rw [c33_save_load c hc]; rfl
  · rw [c33_reader_eq, c33_save_load c hc]; rfl
  · rw [c33_sampler_eq_capture]

-- OBLIGATION c33_dispatch_sorted_stable : EventConsumer.run calls handlers in non-decreasing cycle order, on a permutation of the records, keeping the given order among records of one cycle; each record goes to the handler registered (last) for its event name
theorem c33_dispatch_sorted_stable (hs : List (String × String)) (sch : Schema) (recs : List Decoded) :
    let calls := consumerRun hs sch recs
    (calls.map (·.2)).Pairwise (fun a b => a.cycle ≤ b.cycle) ∧
    (calls.map (·.2)).Perm recs ∧
    (∀ c, (calls.map (·.2)).filter (fun d => d.cycle == c) = recs.filter (fun d => d.cycle == c)) ∧
    (∀ p ∈ calls, p.1 = dispatchName hs sch p.2) := by
  intro calls
  have hm : calls.map (·.2) = sortByCycle recs := by
    simp [calls, consumerRun, List.map_map, Function.comp_def]
  rw [hm]
  refine ⟨sortByCycle_sorted recs, sortByCycle_perm recs, sortByCycle_filter recs, ?_⟩
  intro p hp
  simp only [calls, consumerRun, List.mem_map] at hp
  obtain ⟨d, _, rfl⟩ := hp
  rfl

/-! ### non-vacuity -/

/-- a codec satisfying the assumption exists (text = the value itself) -/
def idCodec : Codec (J ⊕ Schema) where
  enc := Sum.inl
  dec := fun t => match t with | .inl j => some j | .inr _ => none
  encSchema := Sum.inr
  decSchema := fun t => match t with | .inr s => some s | .inl _ => none
  blank := fun _ => false

example : idCodec.Faithful := ⟨fun _ => rfl, fun _ => rfl, fun _ => rfl⟩

/-- two sites (one signed 4-bit field inside an `If` inside a body; one field-less `top_emit`), three cycles -/
example :
    let sch : Schema := [⟨"a", [⟨4, true, .int⟩], []⟩, ⟨"b", [], [⟨.int, .int 7⟩]⟩]
    let trace : List (List SiteIn) :=
      [[⟨[true, true], 1, [15]⟩, ⟨[], 0, []⟩], [⟨[true, false], 1, [3]⟩, ⟨[], 2, []⟩], [⟨[true, true], 4, [8]⟩, ⟨[], 1, []⟩]]
    capture sch 0 trace = [⟨0, 0, [-1]⟩, ⟨1, 1, []⟩, ⟨2, 0, [-8]⟩, ⟨2, 1, []⟩] ∧
    sampleRun true sch 0 trace = capture sch 0 trace := by
  decide

/-- a packed vector with garbage above the site bits; a shuffled record list with ties -/
example : sample 5 (some 0b1101) [⟨1, [1]⟩, ⟨0, [2]⟩, ⟨7, [3]⟩] = [⟨5, 0, [1]⟩, ⟨5, 2, [3]⟩] := by decide

example :
    (sortByCycle [⟨2, 0, [], []⟩, ⟨1, 1, [], []⟩, ⟨2, 1, [], []⟩, ⟨1, 0, [], []⟩]).map (fun d => (d.cycle, d.site))
      = [(1, 1), (1, 0), (2, 0), (2, 1)] := by decide

end TxV.EvLog

#print axioms TxV.EvLog.c33_active_iff
#print axioms TxV.EvLog.c33_capture_iff
#print axioms TxV.EvLog.c33_capture_order
#print axioms TxV.EvLog.c33_capture_one
#print axioms TxV.EvLog.c33_packed_eq_persite
#print axioms TxV.EvLog.c33_packed_vector
#print axioms TxV.EvLog.c33_sampler_eq_capture
#print axioms TxV.EvLog.c33_save_load
#print axioms TxV.EvLog.c33_reader_eq
#print axioms TxV.EvLog.c33_same_decoded
#print axioms TxV.EvLog.c33_dispatch_sorted_stable
