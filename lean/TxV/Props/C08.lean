import TxV.Core.Example2
import TxV.Core.Topo
/-!
# C08 — conflict priorities are respected

"For add_conflict(a, b, Priority.LEFT) (resp. RIGHT), whenever both sides are fully enabled in a
cycle, the lower-priority side runs only if the higher-priority side is itself blocked by another
conflicting transaction that runs; schedule_before ordering never blocks either side."

Stated per pair of calling transactions `ta ∈ transactions_for(a)`, `tb ∈ transactions_for(b)`
(`TransFor`), `ta ≠ tb` (for `ta = tb` the two sides never run together at all: C02).
`ValidOrder D S` : `porder` respects every edge of the priority graph (manager.py:263–267,
:309–314); the driver checks it on the implementation's `porder` (`validOrderB`).
`FullyEnabled` = `ready ∧ runnable`.
-/
namespace TxV.Core

variable {D : Design} {v : Val} {S : Sched} {run : Nat → Bool}

-- OBLIGATION c08_left : add_conflict(a, b, LEFT), under hypothesis Accepted (proved from the executable elaborate: Bridge.elaborate_static) and driver-checked per-cycle hypotheses Eager, ExclReady, ValidOrder (proved by Bridge.elaborate_static from the executable order check on the implementation's porder): for every accepted design with a valid order, every solution of the eager equations: if ta (of a) and tb (of b) are both fully enabled and tb runs, then ta does not run and a transaction other than tb that conflicts with ta runs
theorem c08_left (hA : Accepted D S) (he : Eager D v S run) (hr : ExclReady D v) (ho : ValidOrder D S)
    {a b ta tb : Nat} (hrel : ConflictRelPrio D a b .left) (hta : TransFor D ta a) (htb : TransFor D tb b)
    (hne : ta ≠ tb) (ea : FullyEnabled D v run ta) (eb : FullyEnabled D v run tb) (hrun : run tb = true) :
    run ta = false ∧ ∃ t'', t'' ≠ tb ∧ D.isTrans t'' = true ∧ S.cgr ta t'' = true ∧ run t'' = true :=
  priority_left hA he hr ho hrel hta htb hne ea eb hrun

-- OBLIGATION c08_right : add_conflict(a, b, RIGHT), same driver-checked hypotheses: symmetric — if ta runs, tb does not and another transaction conflicting with tb runs
theorem c08_right (hA : Accepted D S) (he : Eager D v S run) (hr : ExclReady D v) (ho : ValidOrder D S)
    {a b ta tb : Nat} (hrel : ConflictRelPrio D a b .right) (hta : TransFor D ta a) (htb : TransFor D tb b)
    (hne : ta ≠ tb) (ea : FullyEnabled D v run ta) (eb : FullyEnabled D v run tb) (hrun : run ta = true) :
    run tb = false ∧ ∃ t'', t'' ≠ ta ∧ D.isTrans t'' = true ∧ S.cgr tb t'' = true ∧ run t'' = true :=
  priority_right hA he hr ho hrel hta htb hne ea eb hrun

-- OBLIGATION c08_schedule_before_never_blocks : last clause: a fully enabled transaction fails to run only because of a running conflict-graph neighbour; relations without conflict (schedule_before) add order constraints only, no edge (C07 c07_schedule_before_no_edge), hence never block
theorem c08_schedule_before_never_blocks (he : Eager D v S run) {t : Nat} (ht : D.isTrans t = true)
    (en : FullyEnabled D v run t) (hfree : ∀ t', S.cgr t t' = true → run t' = false) : run t = true :=
  runs_if_unblocked he ht en.1 en.2 hfree

-- OBLIGATION c08_topo_exists : the priority constraints (lifted LEFT/RIGHT relations, conflicting or schedule_before) of a design are acyclic — no path of pgr edges from a transaction to itself, in particular no self-loop — if and only if a valid priority order exists, and it can be chosen injective on the transactions (every design; ties rejection of cyclic priorities, C11, to the existence of porder)
theorem c08_topo_exists (D : Design) (cgr : Nat → Nat → Bool) :
    (∀ x, ¬ PgrPath D x x) ↔ ∃ ord : Nat → Nat, ValidOrder D ⟨ord, cgr⟩ ∧ OrdInj D ⟨ord, cgr⟩ :=
  topo_exists D cgr

-- OBLIGATION c08_validOrder_of_check : the executable order check implies ValidOrder
theorem c08_validOrder_of_check (hb : Bounded D) (h : validOrderB D S = true) : ValidOrder D S :=
  validOrderB_sound hb h

/-- non-vacuity: the example has `T1.add_conflict(T2, LEFT)`; in the example cycle both are fully
enabled, the lower-priority `T2` runs, `T1` does not, and `T0 ≠ T2`, a neighbour of `T1`, runs -/
example : acceptedB Ex.D Ex.S = true ∧ eagerB Ex.D Ex.v Ex.S Ex.run = true ∧ validOrderB Ex.D Ex.S = true ∧
    decide (ExclReady Ex.D Ex.v) = true ∧
    Ex.v.ready 1 = true ∧ runnableB Ex.D Ex.v Ex.run 1 = true ∧
    Ex.v.ready 2 = true ∧ runnableB Ex.D Ex.v Ex.run 2 = true ∧
    Ex.run 2 = true ∧ Ex.run 1 = false ∧ Ex.run 0 = true ∧ Ex.S.cgr 1 0 = true :=
  ⟨Ex.accepted, Ex.eager, Ex.validOrder, Ex.exclReady, rfl, Ex.runnable1, rfl, Ex.runnable2, rfl, rfl, rfl, by decide⟩
example : ConflictRelPrio Ex.D 1 2 .left :=
  ⟨by decide, by decide, ⟨2, .left, true, false⟩, by decide, rfl, rfl, rfl⟩

end TxV.Core

#print axioms TxV.Core.c08_left
#print axioms TxV.Core.c08_right
#print axioms TxV.Core.c08_schedule_before_never_blocks
#print axioms TxV.Core.c08_topo_exists
#print axioms TxV.Core.c08_validOrder_of_check
