import TxV.Proofs.PipelineLinks
/-!
# C28 — PipelineBuilder pipelines are ordered, lossless and compute the composed stages

"For every pipeline built from external, called-method and function stages with any mix of
pipes, FIFOs and no_dependency nodes, every item entering the pipeline passes each stage
exactly once, items leave in entry order carrying the fields computed by the stage functions,
and clear discards all in-flight items."

The theorems are about the specification automaton `step`/`run` of Model/Pipeline.lean:
`nodes : List Node` is an arbitrary pipeline shape (any length; per node: no_dependency or not,
Pipe or FIFO of any depth in front, arbitrary stage functions `ret`/`gen`/`merge`, arbitrary
argument-validation predicate `guard` restricting when the stage may run), `ls : List
Label` an arbitrary schedule (which combiners run, which decoupling pipes are entered, which
data the environment supplies, when `clear` runs).  `run … = .ok …` says the schedule is
enabled at every step; nothing else is assumed.  Histories (`Hist`, per node, since the last
`clear`): `cons` records consumed, `xs` values given by the environment (caller arguments, or
decoupling-pipe contents), `outs` records produced, `ents` decoupling-pipe entries.

The links of the automaton are not left abstract: `c28_links_refined` shows that the lock-step
product of the proved component models of the real forwarders (`Pipe`, C17; `BasicFifo`, C14)
is exactly the automaton.  What remains tied only by the correspondence (trace inclusion) is
that the builder wires the stages to these components as the automaton says; readiness/progress
of the real pipeline is not modelled.
-/
namespace TxV.Pipeline

-- OBLIGATION c28_chain : for EVERY pipeline shape and EVERY enabled schedule (incl. clears) from reset, the chain invariant holds: per node, produced = zipWith stage-function consumed given; previous node's produced = consumed ++ link content; decoupling entries = used ++ pipe content; links within capacity
theorem c28_chain (nodes : List Node) (ls : List Label) (s' : State) (os : List (List NodeOut))
    (h : run nodes (init nodes) ls = .ok (s', os)) :
    Chain true [] nodes s' (histRun nodes (nodes.map fun _ => Hist.empty) ls os) :=
  run_chain nodes ls _ _ s' os (chain_init nodes true) h

-- OBLIGATION c28_each_stage_once_in_order : every item passes each stage exactly once and in order: the j-th record produced by node i is node i's stage function applied to the j-th record produced by node i-1 and the j-th value given to node i (node 0: one record per value given); no node runs more often than its predecessor has produced
theorem c28_each_stage_once_in_order (nodes : List Node) (ls : List Label) (s' : State)
    (os : List (List NodeOut)) (h : run nodes (init nodes) ls = .ok (s', os)) :
    Composed true [] nodes (histRun nodes (nodes.map fun _ => Hist.empty) ls os) :=
  chain_composed nodes true [] s' _ (c28_chain nodes ls s' os h)

-- OBLIGATION c28_lossless : nothing is lost or duplicated between stages: records produced by node i-1 = records consumed by node i (same order) ++ records waiting in the link; link length ≤ capacity; decoupling-pipe entries = values used ++ at most one waiting
theorem c28_lossless (nodes : List Node) (ls : List Label) (s' : State)
    (os : List (List NodeOut)) (h : run nodes (init nodes) ls = .ok (s', os)) :
    Lossless true [] nodes s' (histRun nodes (nodes.map fun _ => Hist.empty) ls os) :=
  chain_lossless nodes true [] s' _ (c28_chain nodes ls s' os h)

-- OBLIGATION c28_exit_is_composition : items leave in entry order carrying the composed stage functions: in a pipeline whose nodes after the first take nothing from the environment, the records produced by the last node are `through rest` (the stage functions composed left to right) applied to the first k records produced by node 0, in order (since the last clear)
theorem c28_exit_is_composition (nd0 : Node) (rest : List Node) (ls : List Label) (s' : State)
    (os : List (List NodeOut))
    (hign : ∀ nd ∈ rest, ∀ r x, nd.apply r x = nd.apply r [])
    (h : run (nd0 :: rest) (init (nd0 :: rest)) ls = .ok (s', os)) :
    ∃ h0 hs, histRun (nd0 :: rest) ((nd0 :: rest).map fun _ => Hist.empty) ls os = h0 :: hs ∧
      h0.outs = h0.xs.map (nd0.apply []) ∧
      lastOuts h0.outs hs = (h0.outs.take (lastOuts h0.outs hs).length).map (through rest) := by
  have hc := c28_each_stage_once_in_order (nd0 :: rest) ls s' os h
  generalize histRun (nd0 :: rest) ((nd0 :: rest).map fun _ => Hist.empty) ls os = H at hc
  cases H with
  | nil => simp [Composed] at hc
  | cons h0 hs =>
    simp only [Composed, if_true] at hc
    exact ⟨h0, hs, rfl, hc.1, composed_linear rest h0.outs hs hign hc.2⟩

-- OBLIGATION c28_fields : the data of every combiner run in every enabled step is computed by the node's functions: required fields handed out = ret(input record), generated fields = gen(input, given), record written to the next link = merge(input, generated); and the combiner ran only for an item accepted by the argument validation (guard) of the node's method
theorem c28_fields (nodes : List Node) (s s' : State) (l : Label) (o : List NodeOut)
    (h : step nodes s l = .ok (s', o)) : WfOuts nodes o := by
  unfold step at h
  split at h
  · cases h
  · rename_i s2 o2 hst
    simp only [Except.ok.injEq, Prod.mk.injEq] at h
    rw [← h.2]
    exact stepNodes_wf nodes true none s l.evs s2 o2 hst

-- OBLIGATION c28_clear : clear discards all in-flight items: whatever else happens in the cycle, the state after a step with clear is the reset state, so the rest of any run is a run from reset (its outputs depend on nothing that happened before), and histories restart
theorem c28_clear (nodes : List Node) (pre post : List Label) (l : Label) (hcl : l.clear = true)
    (s' : State) (os : List (List NodeOut))
    (h : run nodes (init nodes) (pre ++ l :: post) = .ok (s', os)) :
    ∃ os1 os2, run nodes (init nodes) post = .ok (s', os2) ∧ os = os1 ++ os2 ∧
      os1.length = pre.length + 1 := by
  obtain ⟨s1, os1, os2, r1, r2, r3⟩ := run_append nodes pre (l :: post) _ s' os h
  simp only [run] at r2
  split at r2
  · cases r2
  · rename_i sa oa hst
    split at r2
    · cases r2
    · rename_i sb ob hrun
      simp only [Except.ok.injEq, Prod.mk.injEq] at r2
      obtain ⟨e1, e2⟩ := r2
      subst e1; subst e2
      have := step_clear nodes s1 sa l oa hcl hst
      subst this
      refine ⟨os1 ++ [oa], ob, hrun, by simp [r3], ?_⟩
      have hl : ∀ (ls : List Label) (s t : State) (o : List (List NodeOut)),
          run nodes s ls = .ok (t, o) → o.length = ls.length := by
        intro ls
        induction ls with
        | nil => intro s t o h; simp [run] at h; simp [← h.2]
        | cons a ls ih =>
          intro s t o h
          simp only [run] at h
          split at h
          · cases h
          · split at h
            · cases h
            · rename_i _ _ _ _ _ hr
              simp only [Except.ok.injEq, Prod.mk.injEq] at h
              rw [← h.2]; simp [ih _ _ _ hr]
      simp [hl pre _ _ _ r1]

-- OBLIGATION c28_live : liveness analysis (get_live_signals backward pass): a field is live before a node iff the node requires it, or it is live after the node and not generated by it
theorem c28_live (d : Desc) (after : List Nat) (k : Nat) :
    k ∈ liveBefore d after ↔ (k ∈ d.req ∨ (k ∈ after ∧ k ∉ d.genFields)) := by
  unfold liveBefore
  simp only [List.mem_append, List.mem_filter, Bool.not_eq_true', List.contains_eq_mem,
    decide_eq_false_iff_not]
  constructor
  · rintro (⟨h1, h2⟩ | ⟨h1, _⟩)
    · right; exact ⟨h1, h2⟩
    · left; exact h1
  · rintro (h | ⟨h1, h2⟩)
    · by_cases hk : k ∈ after ∧ k ∉ d.genFields
      · left; exact hk
      · right; exact ⟨h, by simpa using hk⟩
    · left; exact ⟨h1, h2⟩

-- OBLIGATION c28_pipe_link : the Pipe component model (C17; read before write, write ready iff empty or read runs this cycle, clear wins) implements the automaton's capacity-1 link and the decoupling pipe: write executes iff attempted and (empty or reader runs), read returns the head, content afterwards = (tail if read) ++ written, [] on clear
theorem c28_pipe_link (C : Codec) (s : Pipe.State) (w : Option Rec) (r c : Bool) :
    let q := pipeAbs C s
    let res := pipeStep s (w.map C.enc) r c
    (res.2.1.isNone = (w.isNone || !(decide (q.length < 1) || r))) ∧
    (res.2.2.map C.dec = if r then q.head? else none) ∧
    (pipeAbs C res.1 = if c then [] else
      (if r then q.tail else q) ++ (if decide (q.length < 1) || r then w.toList else [])) :=
  pipe_refines C s w r c

-- OBLIGATION c28_fifo_link : the BasicFifo(depth) component model (C14, under its invariant) implements the automaton's capacity-depth link: write executes iff attempted and not full in the pre-state, read returns the head, content afterwards = (tail if read) ++ written, [] on clear; the invariant is preserved
theorem c28_fifo_link (C : Codec) (d : Nat) (s : BasicFifo.State) (h : BasicFifo.Inv d s)
    (w : Option Rec) (r c : Bool) :
    let q := (BasicFifo.abs d s).map C.dec
    let res := BasicFifo.step d s { w := w.map C.enc, r := r, p := false, c := c }
    (res.2.wr.isNone = (w.isNone || !decide (q.length < d))) ∧
    (res.2.rd.map C.dec = if r then q.head? else none) ∧
    ((BasicFifo.abs d res.1).map C.dec = if c then [] else
      (if r then q.tail else q) ++ (if decide (q.length < d) then w.toList else [])) ∧
    BasicFifo.Inv d res.1 :=
  fifo_refines C d s h w r c

-- OBLIGATION c28_links_refined : the lock-step product of component models (one Pipe or BasicFifo(cap) per link, one Pipe per decoupling pipe; stage i attempts `write` on link i+1 with the record it produces, `read` on link i and on its decoupling pipe; `clear` goes to all) driven by ANY label yields exactly the automaton's `step` on the abstracted state (abs = decoded queue contents): same acceptance/rejection, same outputs, same next state; hence from reset every run of the product is the automaton's run, for every pipeline shape with Pipes of capacity 1 and FIFOs of positive depth and every record codec
theorem c28_links_refined (C : Codec) (nodes : List Node) :
    (∀ (cs : List CNodeSt) (l : Label), AllOk nodes cs →
      (cstep C nodes cs l).map (fun p => (absSt C nodes p.1, p.2)) = step nodes (absSt C nodes cs) l ∧
      (∀ cs' outs, cstep C nodes cs l = .ok (cs', outs) → AllOk nodes cs')) ∧
    (WfNodes nodes → ∀ ls : List Label,
      (crun C nodes (cinit nodes) ls).map (fun p => (absSt C nodes p.1, p.2)) = run nodes (init nodes) ls) := by
  refine ⟨fun cs l hok => cstep_refines C nodes cs l hok, ?_⟩
  intro hwf ls
  rw [← abs_cinit C nodes]
  exact crun_refines C nodes ls (cinit nodes) (allOk_cinit nodes hwf)

/-- non-vacuity of the codec parameter: a concrete injective flattening of records exists -/
example : ∀ r : Rec, Codec.std.dec (Codec.std.enc r) = r := Codec.std.dec_enc

/-- non-vacuity: source → (+1, Pipe) → sink behind a FIFO of depth 2; a schedule in which the
    middle stage and the sink stall, both links fill up, and a clear drops two items in flight -/
example :
    let src : Node := { nodep := false, cap := 1, isPipe := true, ret := fun _ => [], entryVal := id,
                        gen := fun _ x => x, merge := fun _ g => g, guard := fun _ => true }
    let inc : Node := { nodep := false, cap := 1, isPipe := true, ret := id, entryVal := id,
                        gen := fun r _ => r.map fun p => (p.1, p.2 + 1), merge := fun _ g => g,
                        guard := fun r => r != [(0, 0)] }
    let snk : Node := { nodep := false, cap := 2, isPipe := false, ret := id, entryVal := id,
                        gen := fun _ _ => [], merge := fun _ _ => [], guard := fun _ => true }
    let ev (f : Bool) (v : Nat) : Ev := { fire := f, x := [(0, v)], entry := none }
    let ls : List Label :=
      [⟨[ev true 10, ev false 0, ev false 0], false⟩,
       ⟨[ev true 20, ev true 0, ev false 0], false⟩,
       ⟨[ev true 30, ev true 0, ev false 0], false⟩,
       ⟨[ev false 0, ev false 0, ev true 0], false⟩,
       ⟨[ev true 40, ev true 0, ev true 0], true⟩,
       ⟨[ev true 50, ev false 0, ev false 0], false⟩]
    (match run [src, inc, snk] (init [src, inc, snk]) ls with
     | .ok (s, os) =>
        decide (s = [⟨[], []⟩, ⟨[[(0, 50)]], []⟩, ⟨[], []⟩]) &&
        decide ((os.map fun o => (o.getLast?.bind (·.fired)).map (·.ret)) =
          [none, none, none, some [(0, 11)], some [(0, 21)], none])
     | .error _ => false) = true := by
  decide

end TxV.Pipeline

#print axioms TxV.Pipeline.c28_chain
#print axioms TxV.Pipeline.c28_each_stage_once_in_order
#print axioms TxV.Pipeline.c28_lossless
#print axioms TxV.Pipeline.c28_exit_is_composition
#print axioms TxV.Pipeline.c28_fields
#print axioms TxV.Pipeline.c28_clear
#print axioms TxV.Pipeline.c28_live
#print axioms TxV.Pipeline.c28_pipe_link
#print axioms TxV.Pipeline.c28_fifo_link
#print axioms TxV.Pipeline.c28_links_refined
