import TxV.Proofs.PEAllocator
/-!
# C25 — PriorityEncoderAllocator never double-allocates

"For every call history that only frees allocated identifiers, the allocator never returns an
identifier that is currently allocated, identifiers returned in one cycle are distinct, the i-th
alloc way is ready iff at least i+1 identifiers are free, peek reports the free mask, and
replace/clear set it."

The model's encoder is the transcription of `MultiPriorityEncoder._build_tree`; `build_eq_spec`
(Proofs) shows it equals "first `alloc_ways` set bits".  All theorems hold for every `entries`,
`alloc_ways`, `free_ways`, `init` (arbitrary lists/numbers; nothing is assumed about their relation).
Single-cycle theorems hold in *every* state; `c25_history*` quantify over all histories through
`Reach c s A` (reachable from reset with the environment only freeing identifiers that the
bookkeeping list `A` holds as allocated).
-/
namespace TxV.PEAllocator

-- OBLIGATION c25_encoder : the MultiPriorityEncoder tree inside the allocator outputs the first alloc_ways free identifiers in ascending order (zero padded) and valid flags for exactly the first min(alloc_ways, #free) ways (every mask length, every number of ways)
theorem c25_encoder (K : Nat) (mask : List Bool) :
    encode K mask = (padN K (freeIds mask), padB K (mask.count true)) ∧
    (∀ k, k ∈ freeIds mask ↔ mask[k]? = some true) ∧ (freeIds mask).Pairwise (· < ·) := by
  refine ⟨?_, fun k => mem_freeIds, freeIds_sorted mask⟩
  rw [encode_eq, freeIds_length]

-- OBLIGATION c25_no_double : (single cycle, any state) an identifier returned by any alloc way has its bit set in the free mask, i.e. it is free, not allocated, and below entries
theorem c25_no_double (c : Cfg) (s : State) (i : In) (w id : Nat)
    (h : (step c s i).2.alloc[w]? = some (some id)) :
    s.mask[id]? = some true ∧ id < s.mask.length := by
  have := returned_free h
  exact ⟨this, (List.getElem?_eq_some_iff.mp this).1⟩

-- OBLIGATION c25_distinct : identifiers returned in one cycle by different alloc ways are distinct (lower way gets the lower identifier)
theorem c25_distinct (c : Cfg) (s : State) (i : In) (w1 w2 a b : Nat) (hw : w1 < w2)
    (h1 : (step c s i).2.alloc[w1]? = some (some a)) (h2 : (step c s i).2.alloc[w2]? = some (some b)) :
    a < b := by
  rw [step_alloc] at h1 h2
  have e1 := (allocOuts_some h1).1
  have e2 := (allocOuts_some h2).1
  have hs := freeIds_sorted s.mask
  rw [List.pairwise_iff_getElem] at hs
  obtain ⟨l1, r1⟩ := List.getElem?_eq_some_iff.mp e1
  obtain ⟨l2, r2⟩ := List.getElem?_eq_some_iff.mp e2
  have := hs w1 w2 l1 l2 hw
  rw [r1, r2] at this
  exact this

-- OBLIGATION c25_ready : the i-th alloc way is ready iff at least i+1 identifiers are free (ready vector = first min(ways, #free) flags set), and a way executes iff it is attempted and ready
theorem c25_ready (c : Cfg) (s : State) (i : In) (w : Nat) (hw : w < c.aw) :
    (step c s i).2.rdy[w]? = some (decide (w + 1 ≤ s.mask.count true)) ∧
    (∀ a, i.alloc[w]? = some a →
      ∃ x, (step c s i).2.alloc[w]? = some x ∧ (x.isSome = true ↔ (a = true ∧ w + 1 ≤ s.mask.count true))) := by
  constructor
  · show (encode c.aw s.mask).2[w]? = _
    rw [(c25_encoder c.aw s.mask).1]
    simp only
    rw [getElem?_padB _ _ _ hw]
    congr 1
  · intro a ha
    rw [step_alloc, allocOuts_getElem? _ _ _ _ hw, ha, freeIds_length]
    refine ⟨_, rfl, ?_⟩
    by_cases h : w < s.mask.count true <;> cases a <;> simp [h] <;> omega

-- OBLIGATION c25_peek : peek executes iff attempted and reports the free mask register unchanged
theorem c25_peek (c : Cfg) (s : State) (i : In) :
    (step c s i).2.peek = if i.peek then some s.mask else none := rfl

-- OBLIGATION c25_replace_clear : replace(mask) makes the free mask equal to mask and clear makes it equal to init, whatever alloc/free ways execute in the same cycle (later sync assignment wins); both always execute when attempted alone
theorem c25_replace_clear (c : Cfg) (s : State) (i : In) :
    (∀ m, i.replace = some m → (step c s i).1.mask = m ∧ (step c s i).2.replace = true) ∧
    (i.replace = none → i.clear = true → (step c s i).1.mask = c.init ∧ (step c s i).2.clear = true) ∧
    (i.replace = none → (step c s i).2.replace = false) ∧ (i.clear = false → (step c s i).2.clear = false) := by
  refine ⟨?_, ?_, ?_, ?_⟩
  · intro m h; simp [step, h]
  · intro h1 h2; simp [step, h1, h2]
  · intro h; simp [step, h]
  · intro h; simp [step, h]

-- OBLIGATION c25_update : without replace/clear, after the cycle identifier k is free iff it was freed in this cycle, or it was free before and not returned by an alloc way; free ways always execute
theorem c25_update (c : Cfg) (s : State) (i : In) (hr : i.replace = none) (hc : i.clear = false) (k : Nat)
    (hk : k < s.mask.length) :
    ((step c s i).1.mask[k]? = some true ↔
      (k ∈ freed i ∨ (s.mask[k]? = some true ∧ k ∉ returned (step c s i).2))) ∧
    (step c s i).1.mask.length = s.mask.length ∧
    (step c s i).2.free = i.free.map Option.isSome := by
  refine ⟨?_, ?_, rfl⟩
  · rw [step_mask_bits c s i hr hc]
    by_cases hf : k ∈ freed i
    · simp [hf, hk]
    · by_cases hm : k ∈ returned (step c s i).2
      · simp [hf, hm, hk]
      · simp [hf, hm]
  · rw [step_mask, hr]
    simp only [hc, Bool.false_and, Bool.false_eq_true, if_false]
    rw [length_setBits, length_setBits]

-- OBLIGATION c25_history : for every history from reset in which the environment only frees allocated identifiers, the register agrees with the bookkeeping of allocated identifiers (returned and not freed since; replace/clear/reset define it anew), and no alloc way ever returns an identifier that is currently allocated
theorem c25_history (c : Cfg) (s : State) (A : List Nat) (h : Reach c s A) :
    (∀ k, k ∈ A ↔ s.mask[k]? = some false) ∧
    (∀ (i : In) (w id : Nat), (step c s i).2.alloc[w]? = some (some id) → id ∉ A) := by
  have hA := reach_agree h
  refine ⟨hA, ?_⟩
  intro i w id hw hin
  have h1 := (hA id).mp hin
  have h2 := returned_free hw
  rw [h1] at h2; cases h2

-- OBLIGATION c25_exclusive : replace and clear share the exclusive method replace: at most one of them executes per cycle; attempted together exactly one executes (the one with scheduling priority) and the mask becomes its value (the replace argument, resp. init); the arbitrated input never carries both
theorem c25_exclusive (c : Cfg) (cf : Bool) (s : State) (i : In) :
    ¬ ((stepP c cf s i).2.replace = true ∧ (stepP c cf s i).2.clear = true) ∧
    (∀ m, i.replace = some m → i.clear = true →
      (stepP c cf s i).2.clear = cf ∧ (stepP c cf s i).2.replace = !cf ∧
      (stepP c cf s i).1.mask = if cf then c.init else m) ∧
    (¬ (i.replace.isSome = true ∧ i.clear = true) → stepP c cf s i = step c s i) := by
  refine ⟨?_, ?_, ?_⟩
  · cases hr : i.replace <;> cases hc : i.clear <;> cases cf <;> simp [stepP, arbitrate, step, hr, hc]
  · intro m hr hc
    cases cf <;> simp [stepP, arbitrate, step, hr, hc]
  · intro h
    cases hr : i.replace <;> cases hc : i.clear <;> simp_all [stepP, arbitrate]

/-- non-vacuity: entries = 3, two alloc ways, one free way, init = all free.  Cycle 1 hands out 0 and 1;
    cycle 2 frees 0 while allocating 2; the resulting state is reachable, identifier 1 and 2 are booked
    as allocated, and the next alloc returns 0 only (second way not ready). -/
example :
    let c : Cfg := { n := 3, aw := 2, fw := 1, init := [true, true, true] }
    let i1 : In := ⟨[true, true], [none], true, none, false⟩
    let i2 : In := ⟨[true, false], [some 0], true, none, false⟩
    let s1 := (step c (init c) i1).1
    let s2 := (step c s1 i2).1
    (step c (init c) i1).2.alloc = [some 0, some 1] ∧ (step c s1 i2).2.alloc = [some 2, none] ∧
    s2.mask = [true, false, false] ∧ (step c s2 i1).2.alloc = [some 0, none] ∧
    (step c s2 i1).2.rdy = [true, false] := by
  decide

/-- non-vacuity of `Reach`: the state above is reachable with bookkeeping `[1, 2]` -/
example :
    let c : Cfg := { n := 3, aw := 2, fw := 1, init := [true, true, true] }
    Reach c ⟨[true, false, false]⟩ [1, 2] := by
  intro c
  let i1 : In := ⟨[true, true], [none], true, none, false⟩
  let i2 : In := ⟨[true, false], [some 0], true, none, false⟩
  have r0 : Reach c (init c) (allocatedOf c.init) := Reach.init
  have r1 := Reach.step i1 r0 (by decide)
  have r2 := Reach.step i2 r1 (by decide)
  have e1 : (step c (step c (init c) i1).1 i2).1 = ⟨[true, false, false]⟩ := by decide
  have e2 : ghostStep c (ghostStep c (allocatedOf c.init) i1 (step c (init c) i1).2) i2
      (step c (step c (init c) i1).1 i2).2 = [1, 2] := by decide
  rw [e1, e2] at r2
  exact r2

end TxV.PEAllocator

#print axioms TxV.PEAllocator.c25_encoder
#print axioms TxV.PEAllocator.c25_no_double
#print axioms TxV.PEAllocator.c25_distinct
#print axioms TxV.PEAllocator.c25_ready
#print axioms TxV.PEAllocator.c25_peek
#print axioms TxV.PEAllocator.c25_replace_clear
#print axioms TxV.PEAllocator.c25_update
#print axioms TxV.PEAllocator.c25_history
#print axioms TxV.PEAllocator.c25_exclusive
