import TxV.Proofs.TModule
/-!
# C06 — body effects follow the run signal; `av_comb` / `top_comb` semantics

"Assignments to ordinary domains inside a transaction or method body take effect only in
cycles where the body runs and the enclosing conditions hold; av_comb assignments take effect
whenever the enclosing ordinary conditions hold, regardless of run; top_comb assignments
always take effect."

Reading.  `t : TBlk` is any program written against the TModule API (arbitrary nesting of
`If/Elif/Else`, `Switch/Case/Default`, `FSM/State`, `AvoidedIf`; a transaction or method
body is `AvoidedIf(body.run)`, `TBlk.body`).  `lower t` is what tmodule.py puts into
`main_module`, `avoiding_module`, `top_module`; `effs v true blk` is Amaranth's semantics of
such a module under the valuation `v` (condition inputs, selectors, run signals, FSM state
registers – all arbitrary): every leaf statement in program order with the bit "takes effect
in this cycle".  `places t` lists every leaf of `t` in program order with its enclosing
constructs (`Encl.alt`: an alternative of an If/Switch/FSM chain, which *holds* iff its guard
holds and no earlier alternative of the chain does; `Encl.body r`: a body/AvoidedIf, which
holds iff `v.run r`).

All theorems are for every program, every valuation and every register state.  `t.wf` (the
states of one FSM have distinct names) is needed only for the main module, where the FSM is a
first-match `Switch`; Amaranth refuses programs violating it (NameError, exercised by the
harness).
-/
namespace TxV.TModule

-- OBLIGATION c06_main : for every program and valuation, the ordinary-domain statements (comb, sync, m.next) are exactly the contents of the main module, in order, and each takes effect iff ALL its enclosing conditions hold, including every enclosing AvoidedIf/body run
theorem c06_main (t : TBlk) (hwf : t.wf = true) (v : Val) :
    effs v true (lower t).main =
      (places t).filterMap fun p =>
        if p.leaf.dom.ordinary then some (p.leaf, p.encl.all (fun e => e.holds v)) else none := by
  exact main_blk v t true hwf

-- OBLIGATION c06_av : for every program and valuation, the av_comb statements are exactly the contents of the avoiding module, in order, and each takes effect iff all its enclosing ORDINARY (non-avoided) conditions hold
theorem c06_av (t : TBlk) (v : Val) :
    effs v true (lower t).avoiding =
      (places t).filterMap fun p =>
        if p.leaf.dom = .av then
          some (p.leaf, (p.encl.filter Encl.ordinary).all (fun e => e.holds v))
        else none := by
  exact av_blk v t true

-- OBLIGATION c06_top : for every program and valuation, the top_comb statements are exactly the contents of the top module and every one of them takes effect
theorem c06_top (t : TBlk) (v : Val) :
    effs v true (lower t).top =
      (places t).filterMap fun p => if p.leaf.dom = .top then some (p.leaf, true) else none := by
  exact top_blk v t true

-- OBLIGATION c06_av_regardless : the effect of every av_comb statement is independent of all run signals (any two valuations that differ only in run give the same avoiding-module behaviour)
theorem c06_av_regardless (t : TBlk) (v : Val) (run' : Nat → Bool) :
    effs { v with run := run' } true (lower t).avoiding = effs v true (lower t).avoiding :=
  av_norun_blk v run' t true

-- OBLIGATION c06_body : an ordinary-domain statement all of whose occurrences lie inside the body with run signal r (at any depth, under any further conditions) has no effect in a cycle where r is low
theorem c06_body (t : TBlk) (hwf : t.wf = true) (v : Val) (l : Leaf) (r : Nat)
    (hin : ∀ p ∈ places t, p.leaf = l → Encl.body r ∈ p.encl) (hr : v.run r = false) :
    active (effs v true (lower t).main) l = false := by
  rw [Bool.eq_false_iff]
  intro ha
  rw [active_iff] at ha
  obtain ⟨p, hp, hl, _, hall⟩ := (main_mem v t hwf l true).1 ha
  have := List.all_eq_true.1 hall.symm _ (hin p hp hl)
  simp [Encl.holds, hr] at this

-- OBLIGATION c06_witness : for a statement with a single placement p (a witness): in an ordinary domain it is in effect iff every enclosing condition incl. body runs holds; in av_comb iff every enclosing ordinary condition holds; in top_comb always
theorem c06_witness (t : TBlk) (hwf : t.wf = true) (v : Val) (p : Placement) (hp : p ∈ places t)
    (huniq : ∀ p' ∈ places t, p'.leaf = p.leaf → p' = p) :
    (p.leaf.dom.ordinary = true →
      active (effs v true (lower t).main) p.leaf = p.encl.all (fun e => e.holds v)) ∧
    (p.leaf.dom = .av →
      active (effs v true (lower t).avoiding) p.leaf
        = (p.encl.filter Encl.ordinary).all (fun e => e.holds v)) ∧
    (p.leaf.dom = .top → active (effs v true (lower t).top) p.leaf = true) := by
  refine ⟨fun ho => ?_, fun ha => ?_, fun ht => ?_⟩
  · rw [Bool.eq_iff_iff, active_iff]
    constructor
    · intro h
      obtain ⟨p', hp', hl, _, hall⟩ := (main_mem v t hwf _ true).1 h
      rw [huniq p' hp' hl] at hall
      exact hall.symm
    · intro h
      exact (main_mem v t hwf _ true).2 ⟨p, hp, rfl, ho, h.symm⟩
  · rw [Bool.eq_iff_iff, active_iff]
    constructor
    · intro h
      obtain ⟨p', hp', hl, _, hall⟩ := (av_mem v t _ true).1 h
      rw [huniq p' hp' hl] at hall
      exact hall.symm
    · intro h
      exact (av_mem v t _ true).2 ⟨p, hp, rfl, ha, h.symm⟩
  · rw [active_iff]
    exact (top_mem v t _ true).2 ⟨p, hp, rfl, ht, rfl⟩

-- OBLIGATION c06_frozen_reg : register state — a sync register written only inside the body with run signal r keeps its value over a clock edge in which r is low (every register state, every input)
theorem c06_frozen_reg (t : TBlk) (hwf : t.wf = true) (s : State) (i : Inp) (w r : Nat)
    (hin : ∀ p ∈ places t, p.leaf = .assign .sync w → Encl.body r ∈ p.encl)
    (hr : i.run r = false) :
    (step t s i).1.regOf w = s.regOf w := by
  have hact := c06_body t hwf (mkVal s i) (.assign .sync w) r hin hr
  simp only [lower] at hact
  simp only [step, State.regOf]
  rw [lookup_map_snd (fun a b => b != active (effs (mkVal s i) true (lowerMain t)) (.assign .sync a))]
  simp only [hact]
  cases h : s.reg.lookup w <;> simp

-- OBLIGATION c06_frozen_fsm : m.next lives in the main module — an FSM all of whose transitions are written inside the body with run signal r keeps its state over a clock edge in which r is low
theorem c06_frozen_fsm (t : TBlk) (hwf : t.wf = true) (s : State) (i : Inp) (f r : Nat)
    (hin : ∀ p ∈ places t, ∀ st, p.leaf = .next f st → Encl.body r ∈ p.encl)
    (hr : i.run r = false) :
    (step t s i).1.stateOf f = s.stateOf f := by
  have hnone : lastNext f (effs (mkVal s i) true (lowerMain t)) none = none := by
    apply lastNext_none
    intro st hm
    have := c06_body t hwf (mkVal s i) (.next f st) r (fun p hp hl => hin p hp st hl) hr
    rw [Bool.eq_false_iff] at this
    exact this ((active_iff _ _).2 hm)
  simp only [step, State.stateOf]
  rw [lookup_map_snd (fun a b => (lastNext a (effs (mkVal s i) true (lowerMain t)) none).getD b)]
  simp only [hnone]
  cases h : s.fsm.lookup f <;> simp

/-- the program used for the non-vacuity examples: a transaction body (run 0) under `If(c0)`
    containing all four domains, an `Elif`, and an FSM whose transition is inside the body -/
def demo : TBlk :=
  .ifc (.cons (.cond 0)
          (.body 0
            (.leaf (.assign .comb 1) <| .leaf (.assign .av 2) <| .leaf (.assign .top 3) <|
             .leaf (.assign .sync 4) <|
             .fsm 0 0 (.cons 0 (.leaf (.next 0 1) <| .leaf (.assign .av 5) .nil)
                      (.cons 1 (.leaf (.assign .comb 6) .nil) .nil)) .nil)
            .nil)
        (.cons (.cond 1) (.leaf (.assign .av 7) .nil) .nil))
    .nil

def demoVal (c0 run0 : Bool) (st : Nat) : Val := ⟨fun i => i == 0 && c0, fun _ => 0, fun _ => run0, fun _ => st⟩

/-- non-vacuity: with c0 high and the body not running, the av_comb/top_comb witnesses are in
    effect while the comb witness and the FSM transition are not; all three views are non-empty -/
example :
    demo.wf = true ∧
    effs (demoVal true false 0) true (lower demo).main
      = [(.assign .comb 1, false), (.assign .sync 4, false), (.next 0 1, false), (.assign .comb 6, false)] ∧
    effs (demoVal true false 0) true (lower demo).avoiding
      = [(.assign .av 2, true), (.assign .av 5, true), (.assign .av 7, false)] ∧
    effs (demoVal false false 0) true (lower demo).top = [(.assign .top 3, true)] ∧
    effs (demoVal true true 0) true (lower demo).main
      = [(.assign .comb 1, true), (.assign .sync 4, true), (.next 0 1, true), (.assign .comb 6, false)] := by
  decide

/-- non-vacuity of the frozen-register hypotheses: register 4 and the transitions of FSM 0 of
    `demo` are written only inside body 0, and there are such placements -/
example :
    (places demo).all (fun p => match p.leaf with
      | .next 0 _ => decide (Encl.body 0 ∈ p.encl)
      | .assign .sync 4 => decide (Encl.body 0 ∈ p.encl)
      | _ => true) = true ∧
    ((places demo).filter (fun p => p.leaf == .next 0 1 || p.leaf == .assign .sync 4)).length = 2 := by
  decide

/-- the hypothesis `t.wf` of `c06_main` cannot be dropped: with two `State`s of the same name the
    main module's first-match `Switch` never reaches the second one, although "FSM 0 is in state
    0" holds.  (Amaranth refuses such a program: NameError, replayed by the harness.) -/
example :
    let t : TBlk := .fsm 0 0 (.cons 0 .nil (.cons 0 (.leaf (.assign .comb 1) .nil) .nil)) .nil
    t.wf = false ∧
    effs (demoVal false false 0) true (lower t).main = [(.assign .comb 1, false)] ∧
    (places t).map (fun p => (p.leaf, p.encl.all (fun e => e.holds (demoVal false false 0))))
      = [(.assign .comb 1, true)] := by
  decide

end TxV.TModule

#print axioms TxV.TModule.c06_main
#print axioms TxV.TModule.c06_av
#print axioms TxV.TModule.c06_top
#print axioms TxV.TModule.c06_av_regardless
#print axioms TxV.TModule.c06_body
#print axioms TxV.TModule.c06_witness
#print axioms TxV.TModule.c06_frozen_reg
#print axioms TxV.TModule.c06_frozen_fsm
