import TxV.Proofs.Bits
/-!
# C36 — bit-manipulation helpers compute their documented functions

"For every input value and width, popcount, count_leading_zeros, count_trailing_zeros,
cyclic_mask, extract/clear_lowest_set_bit, the mask_* helpers, mod_incr, mod_add,
sum/or/and/min/max_value and mux/switch_value return the value their documentation defines."

The models (`TxV/Model/Bits.lean`) mirror the construction in
`transactron/utils/amaranth_ext/functions.py`; every theorem is for every width (length of
the bit list / `w` of `BitVec w` / unbounded `Nat`) and every input.  Bit lists are LSB
first, so `s.idxOf true` is the index of the lowest set bit, `s.length` if there is none.
-/
namespace TxV.Bits

/-! ## popcount, count_trailing_zeros, count_leading_zeros -/

-- OBLIGATION c36_popcount : popcount (binary tree sum sliced to bits_for(width) bits) = number of set bits, every width and value
theorem c36_popcount (s : List Bool) : popcount s = s.count true := by
  unfold popcount
  rw [treeReduce_eq _ Nat.add_assoc, fold1_add, sum_map_toNat]
  apply Nat.mod_eq_of_lt
  have := @List.count_le_length _ _ true s
  have := lt_two_pow_bitsFor s.length
  omega

-- OBLIGATION c36_ctz : count_trailing_zeros (recursive halving) = index of the lowest set bit, = width if no bit is set; every width and value
theorem c36_ctz (s : List Bool) : ctz s = s.idxOf true := by
  unfold ctz
  have h1 := le_two_pow_ceilLog2 (s.length + 1)
  have h2 := @List.idxOf_le_length _ _ _ s true
  exact ctzIter_eq _ s (by omega) (by omega)

-- OBLIGATION c36_clz : count_leading_zeros = number of zero bits above the highest set bit (index of the first set bit scanning from the MSB), = width if none
theorem c36_clz (s : List Bool) : clz s = s.reverse.idxOf true := by
  unfold clz
  exact c36_ctz s.reverse

/-! ## cyclic_mask -/

-- OBLIGATION c36_cyclic_mask : for positions start,end < bits: bit i of the FULL returned value (every i, also i ≥ bits: no stray high bits) is set iff i < bits and (start ≤ i ≤ end when start ≤ end; i ≤ end or start ≤ i when end < start, i.e. wrapped)
theorem c36_cyclic_mask (bits s e i : Nat) (hs : s < bits) (he : e < bits) :
    (cyclicMask bits s e).testBit i =
      (decide (i < bits) && if s ≤ e then decide (s ≤ i ∧ i ≤ e) else decide (i ≤ e ∨ s ≤ i)) :=
  testBit_cyclicMask bits s e i hs he

/-! ## extract/clear lowest set bit, the four masks

`∃ j < i, x.getLsbD j = true` reads "a bit of `x` strictly below position `i` is set";
the lowest set bit is the position whose bit is set while no lower one is. -/

-- OBLIGATION c36_extract_lowest : bit i of extract_lowest_set_bit(x) is set iff bit i of x is set and no lower bit of x is set (0 when x = 0); every width
theorem c36_extract_lowest {w} (x : BitVec w) (i : Nat) :
    (extractLowest x).getLsbD i = (x.getLsbD i && !decide (∃ j < i, x.getLsbD j = true)) :=
  getLsbD_extractLowest x i

-- OBLIGATION c36_clear_lowest : bit i of clear_lowest_set_bit(x) is set iff bit i of x is set and some lower bit of x is set; every width
theorem c36_clear_lowest {w} (x : BitVec w) (i : Nat) :
    (clearLowest x).getLsbD i = (x.getLsbD i && decide (∃ j < i, x.getLsbD j = true)) :=
  getLsbD_clearLowest x i

-- OBLIGATION c36_clear_lowest_doc : documented identity clear_lowest_set_bit(x) = x & ~extract_lowest_set_bit(x)
theorem c36_clear_lowest_doc {w} (x : BitVec w) : clearLowest x = x &&& ~~~ extractLowest x := by
  apply BitVec.eq_of_getLsbD_eq
  intro i hi
  rw [getLsbD_clearLowest, BitVec.getLsbD_and, BitVec.getLsbD_not, getLsbD_extractLowest]
  cases x.getLsbD i <;> simp [hi]

-- OBLIGATION c36_mask_from : bit i (< width) of mask_from_first_set_bit(x) is set iff some bit of x at a position ≤ i is set (mask from the lowest set bit inclusive up to the width)
theorem c36_mask_from {w} (x : BitVec w) (i : Nat) :
    (maskFrom x).getLsbD i =
      (decide (i < w) && (x.getLsbD i || decide (∃ j < i, x.getLsbD j = true))) :=
  getLsbD_maskFrom x i

-- OBLIGATION c36_mask_after : bit i (< width) of mask_after_first_set_bit(x) is set iff some bit of x strictly below i is set (lowest set bit exclusive)
theorem c36_mask_after {w} (x : BitVec w) (i : Nat) :
    (maskAfter x).getLsbD i = (decide (i < w) && decide (∃ j < i, x.getLsbD j = true)) :=
  getLsbD_maskAfter x i

-- OBLIGATION c36_mask_until : bit i (< width) of mask_until_first_set_bit(x) is set iff no bit of x strictly below i is set (bit 0 up to the lowest set bit inclusive)
theorem c36_mask_until {w} (x : BitVec w) (i : Nat) :
    (maskUntil x).getLsbD i = (decide (i < w) && !decide (∃ j < i, x.getLsbD j = true)) :=
  getLsbD_maskUntil x i

-- OBLIGATION c36_mask_before : bit i (< width) of mask_before_first_set_bit(x) is set iff no bit of x at a position ≤ i is set (bit 0 up to the lowest set bit exclusive)
theorem c36_mask_before {w} (x : BitVec w) (i : Nat) :
    (maskBefore x).getLsbD i =
      (decide (i < w) && !(x.getLsbD i || decide (∃ j < i, x.getLsbD j = true))) :=
  getLsbD_maskBefore x i

/-! ## mod_incr, mod_add -/

-- OBLIGATION c36_mod_incr : mod_incr(sig, mod) = (sig+1) % mod for every mod > 0 and every residue sig < mod
theorem c36_mod_incr (sig mod : Nat) (hm : 0 < mod) (hs : sig < mod) :
    modIncr sig mod = (sig + 1) % mod := by
  unfold modIncr
  split
  · rename_i h; exact and_pred_pow2 _ _ hm h
  · split
    · rename_i h; rw [h, Nat.sub_add_cancel hm, Nat.mod_self]
    · rw [Nat.mod_eq_of_lt (by omega)]

-- OBLIGATION c36_mod_incr_pow2 : on the power-of-two path mod_incr = (sig+1) % mod for every sig (no range hypothesis)
theorem c36_mod_incr_pow2 (sig mod : Nat) (hm : 0 < mod) (hp : mod &&& (mod - 1) = 0) :
    modIncr sig mod = (sig + 1) % mod := by
  unfold modIncr
  rw [if_pos hp]; exact and_pred_pow2 _ _ hm hp

/-
History: up to commit 656ad56 the case list of `mod_add` was `mod+i ↦ i`, which subtracts
`mod` only once; the documented contract was false for a non-power-of-two `mod < max_incr`
(`mod_add(2, 3, 4, 4)` gave 3; finding F11, then `c36_mod_add_partial` with the extra
hypothesis `max_incr ≤ mod`).  The repaired code (`mod+i ↦ i % mod`) satisfies the contract
without that hypothesis; the old witness is kept as a regression fact below.
-/
-- OBLIGATION c36_mod_add : mod_add(sig, mod, incr, max_incr) = (sig+incr) % mod for every mod > 0, every residue sig < mod and every incr ≤ max_incr (no relation between max_incr and mod required)
theorem c36_mod_add (sig mod incr maxIncr : Nat) (hm : 0 < mod) (hs : sig < mod)
    (hi : incr ≤ maxIncr) :
    modAdd sig mod incr maxIncr = (sig + incr) % mod := by
  by_cases hp : mod &&& (mod - 1) = 0
  · unfold modAdd; rw [if_pos hp]; exact and_pred_pow2 _ _ hm hp
  · rw [modAdd_nonpow2 _ _ _ _ hp]
    by_cases h : mod ≤ sig + incr
    · rw [if_pos ⟨h, by omega⟩, ← Nat.mod_eq_sub_mod h]
    · rw [if_neg (by omega), Nat.mod_eq_of_lt (by omega)]

-- OBLIGATION c36_mod_add_pow2 : for a power-of-two mod, mod_add = (sig+incr) % mod with no hypothesis on sig, incr, max_incr
theorem c36_mod_add_pow2 (sig mod incr maxIncr : Nat) (hm : 0 < mod) (hp : mod &&& (mod - 1) = 0) :
    modAdd sig mod incr maxIncr = (sig + incr) % mod := by
  unfold modAdd
  rw [if_pos hp]; exact and_pred_pow2 _ _ hm hp

/-- regression fact for the repaired defect F11 (was 3 before commit 656ad56), and larger overshoots -/
example : modAdd 2 3 4 4 = 0 ∧ modAdd 2 3 7 7 = 0 ∧ modAdd 4 5 11 11 = 0 ∧ modAdd 6 7 9 9 = 1 := by decide

/-! ## binary_tree_reduce and sum/or/and/min/max_value -/

-- OBLIGATION c36_tree_reduce : binary_tree_reduce with an associative operator = left fold of the values (neutral when there are none), every number of values
theorem c36_tree_reduce {α} (op : α → α → α) (hassoc : ∀ a b c, op (op a b) c = op a (op b c))
    (e : α) (l : List α) :
    treeReduce op e l = match l with | [] => e | a :: r => r.foldl op a :=
  treeReduce_eq op hassoc e l

-- OBLIGATION c36_sum_value : sum_value = arithmetic sum of the values (no wrap-around), every number of values
theorem c36_sum_value (l : List Nat) : sumValue l = l.sum := by
  unfold sumValue
  rw [treeReduce_eq _ Nat.add_assoc, fold1_add]

-- OBLIGATION c36_or_value : bit i of or_value is set iff bit i of some value is set
theorem c36_or_value (l : List Nat) (i : Nat) : (orValue l).testBit i = l.any (·.testBit i) := by
  unfold orValue
  rw [treeReduce_eq _ Nat.or_assoc]
  cases l with
  | nil => simp [fold1]
  | cons a l => simp [fold1, testBit_foldl_or]

-- OBLIGATION c36_and_value : bit i of and_value is set iff bit i of every value is set (all ones of the output width when there are no values)
theorem c36_and_value (w : Nat) (l : List Nat) (i : Nat) :
    (andValue w l).testBit i = if l = [] then decide (i < w) else l.all (·.testBit i) := by
  unfold andValue
  rw [treeReduce_eq _ Nat.and_assoc]
  cases l with
  | nil => simp [fold1]
  | cons a l => simp [fold1, testBit_foldl_and]

-- OBLIGATION c36_min_value : min_value of a non-empty list is an element of the list and ≤ every element
theorem c36_min_value (l : List Nat) (h : l ≠ []) : minValue l ∈ l ∧ ∀ x ∈ l, minValue l ≤ x := by
  unfold minValue
  rw [treeReduce_eq _ binMin_assoc]
  cases l with
  | nil => exact absurd rfl h
  | cons a l => exact foldl_binMin l a

-- OBLIGATION c36_max_value : max_value of a non-empty list is an element of the list and ≥ every element
theorem c36_max_value (l : List Nat) (h : l ≠ []) : maxValue l ∈ l ∧ ∀ x ∈ l, x ≤ maxValue l := by
  unfold maxValue
  rw [treeReduce_eq _ binMax_assoc]
  cases l with
  | nil => exact absurd rfl h
  | cons a l => exact foldl_binMax l a

/-! ## switch_value, mux -/

-- OBLIGATION c36_switch_value : switch_value returns the value of the FIRST case whose key matches the test (None matches always), 0 if none does
theorem c36_switch_value (t : Nat) (cases : List (Key × Nat)) :
    switchValue t cases =
      match cases.find? (fun c => keyMatches t c.1) with
      | some c => c.2
      | none => 0 := by
  induction cases with
  | nil => rfl
  | cons c cs ih =>
    obtain ⟨k, v⟩ := c
    simp only [switchValue, List.find?_cons]
    by_cases h : keyMatches t k = true
    · simp [h]
    · have h' : keyMatches t k = false := by simpa using h
      simp only [h', Bool.false_eq_true, if_false]
      exact ih

-- OBLIGATION c36_mux : mux(sel, val1, val0) = val1 when sel ≠ 0, val0 when sel = 0 (sel of any width)
theorem c36_mux (sel v1 v0 : Nat) : mux sel v1 v0 = if sel = 0 then v0 else v1 := by
  unfold mux
  by_cases h : sel = 0
  · simp [switchValue, keyMatches, h]
  · simp [switchValue, keyMatches, h]

/-! ## non-vacuity -/

/-- non-vacuity: concrete non-trivial instances of the hypotheses / of the functions -/
example : popcount (toBits 6 0b101101) = 4 ∧ ctz (toBits 6 0b101000) = 3 ∧ clz (toBits 6 0b001010) = 2
    ∧ ctz (toBits 5 0) = 5 := by decide
example : (0 < 5 ∧ 4 < 5 ∧ 4 ≤ 4) ∧ modAdd 4 5 4 4 = 3 ∧ modIncr 4 5 = 0 ∧ modIncr 2 5 = 3 := by decide
example : (4 < 6 ∧ 1 < 6) ∧ cyclicMask 6 4 1 = 0b110011 ∧ cyclicMask 6 1 4 = 0b011110 := by decide
example : extractLowest 0b010100#6 = 0b000100#6 ∧ clearLowest 0b110100#6 = 0b110000#6
    ∧ maskFrom 0b010100#6 = 0b111100#6 ∧ maskAfter 0b010100#6 = 0b111000#6
    ∧ maskUntil 0b010100#6 = 0b000111#6 ∧ maskBefore 0b010100#6 = 0b000011#6 := by decide
example : [5, 3, 9] ≠ [] ∧ minValue [5, 3, 9] = 3 ∧ maxValue [5, 3, 9] = 9 ∧ sumValue [5, 3, 9] = 17
    ∧ orValue [5, 3, 9] = 15 ∧ andValue 4 [5, 7, 13] = 5 := by decide
example : switchValue 2 [(some [1], 10), (some [2, 3], 20), (none, 30), (some [2], 40)] = 20
    ∧ switchValue 7 [(some [1], 10), (none, 30), (some [7], 40)] = 30 ∧ switchValue 7 [(some [1], 10)] = 0
    ∧ mux 2 8 9 = 8 ∧ mux 0 8 9 = 9 := by decide

end TxV.Bits

#print axioms TxV.Bits.c36_popcount
#print axioms TxV.Bits.c36_ctz
#print axioms TxV.Bits.c36_clz
#print axioms TxV.Bits.c36_cyclic_mask
#print axioms TxV.Bits.c36_extract_lowest
#print axioms TxV.Bits.c36_clear_lowest
#print axioms TxV.Bits.c36_clear_lowest_doc
#print axioms TxV.Bits.c36_mask_from
#print axioms TxV.Bits.c36_mask_after
#print axioms TxV.Bits.c36_mask_until
#print axioms TxV.Bits.c36_mask_before
#print axioms TxV.Bits.c36_mod_incr
#print axioms TxV.Bits.c36_mod_incr_pow2
#print axioms TxV.Bits.c36_mod_add
#print axioms TxV.Bits.c36_mod_add_pow2
#print axioms TxV.Bits.c36_tree_reduce
#print axioms TxV.Bits.c36_sum_value
#print axioms TxV.Bits.c36_or_value
#print axioms TxV.Bits.c36_and_value
#print axioms TxV.Bits.c36_min_value
#print axioms TxV.Bits.c36_max_value
#print axioms TxV.Bits.c36_switch_value
#print axioms TxV.Bits.c36_mux
