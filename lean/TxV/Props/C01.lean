import TxV.Core.Example2
import TxV.Core.Builder
/-!
# C01 — an exclusive method serves at most one active call per cycle

"In every clock cycle, a method that is not declared nonexclusive is executed on behalf of at most
one active call site, where a call site is active when its caller runs, every condition around the
call holds and its enable_call is true. Two transactions that could both reach the same exclusive
method are never run together unless the two calls sit in different alternatives of one
If/Elif/Else, Switch/Case or FSM in the same module."

Objects (all in `TxV/Core`): `Design` is the flat design `MethodMap` sees (bodies with flags, call
occurrences with callee / ctrl path / site id, relations); `Accepted D S` are the declarative facts
`MethodMap.__init__` + `_conflict_graph` establish when they do not raise (`acceptedB D S = true` is
the executable form the driver evaluates, `acceptedB_sound`); `Cycle D v S run` are the facts of
one cycle (`ExclSem`, `ExclReady` from `exclusive_sound`; the method-run equations; `Grants` and
`Mutex`, which both schedulers guarantee: `Cycle.ofEager`, `Cycle.ofRoundRobin`).
All theorems hold for every design, every valuation, every assignment of run signals.
-/
namespace TxV.Core

variable {D : Design} {v : Val} {S : Sched} {run : Nat → Bool}

-- OBLIGATION c01_at_most_one_active : sentence 1, any scheduler, under hypothesis Accepted D S (PROVED from the executable model: Bridge.elaborate_static derives it from elaborate = ok and the executable order check; also evaluated per extracted design by Bridge.staticOk) and under driver-checked hypothesis Cycle D v S run (evaluated per valuation by cycleEagerB / cycleRRB: ExclSem, ExclReady, method-run equations, scheduler facts): for every accepted design with unique call-site ids, every valuation and every run assignment satisfying the cycle facts (granted ⇒ ready∧runnable; cgr-neighbours never both granted), the list of active call sites (caller runs ∧ enable) of an exclusive method has length ≤ 1
theorem c01_at_most_one_active (hA : Accepted D S) (hC : Cycle D v S run) (hn : D.SitesNodup)
    {m : Nat} (hm : D.nonexcl m = false) : (activeSites D v run m).length ≤ 1 :=
  at_most_one_active hA hC hn hm

-- OBLIGATION c01_at_most_one_active_eager : sentence 1 under eager_deterministic_cc_scheduler (under hypothesis Accepted (proved from the executable elaborate: Bridge.elaborate_static) and driver-checked per-cycle hypotheses ExclSem, ExclReady, MethodRunEq, Eager — the last two are the equations the manager/scheduler emit, checked on the model's and the implementation's run signals): every run assignment solving the scheduler equations (schedulers.py:38-43) and the method-run equations (manager.py:550-555)
theorem c01_at_most_one_active_eager (hA : Accepted D S) (hs : ExclSem D v) (hr : ExclReady D v)
    (hm : MethodRunEq D v run) (he : Eager D v S run) (hn : D.SitesNodup)
    {m : Nat} (hx : D.nonexcl m = false) : (activeSites D v run m).length ≤ 1 :=
  at_most_one_active hA (Cycle.ofEager hA hs hr hm he) hn hx

-- OBLIGATION c01_at_most_one_active_rr : sentence 1 under trivial_roundrobin_cc_scheduler (under hypothesis Accepted (proved from the executable elaborate: Bridge.elaborate_static) and driver-checked per-cycle hypotheses CompOk, ExclSem, ExclReady, MethodRunEq, RoundRobin = C39's one-grant-per-component): every run assignment that grants only ready∧runnable requesters and at most one transaction per component `comp`, every cgr edge lying inside one component
theorem c01_at_most_one_active_rr {comp : Nat → Nat} (hA : Accepted D S) (hc : CompOk D S comp)
    (hs : ExclSem D v) (hr : ExclReady D v) (hm : MethodRunEq D v run)
    (he : RoundRobin D v comp run) (hn : D.SitesNodup)
    {m : Nat} (hx : D.nonexcl m = false) : (activeSites D v run m).length ≤ 1 :=
  at_most_one_active hA (Cycle.ofRoundRobin hc hs hr hm he) hn hx

-- OBLIGATION c01_active_unique : sentence 1 without the site-id hypothesis (under hypothesis Accepted (proved from the executable elaborate: Bridge.elaborate_static) and driver-checked per-cycle hypotheses Cycle): any two active call occurrences of an exclusive method are the same `Call` (same callee, ctrl path and site)
theorem c01_active_unique (hA : Accepted D S) (hC : Cycle D v S run) {m b1 b2 : Nat} {c1 c2 : Call}
    (hm : D.nonexcl m = false) (h1 : ActiveSite D v run b1 c1) (hc1 : c1.callee = m)
    (h2 : ActiveSite D v run b2 c2) (hc2 : c2.callee = m) : c1 = c2 :=
  active_unique hA hC hm h1 hc1 h2 hc2

-- OBLIGATION c01_no_joint_run : sentence 2 (under hypothesis Accepted (proved from the executable elaborate: Bridge.elaborate_static) and driver-checked per-cycle hypotheses Cycle): two different transactions that run in the same cycle satisfy, for every method both reach and every pair of call chains to it, "outermost common ancestor nonexclusive ∨ call paths exclusive" (calls_nonexclusive)
theorem c01_no_joint_run (hA : Accepted D S) (hC : Cycle D v S run) {t1 t2 : Nat}
    (h1 : D.isTrans t1 = true) (h2 : D.isTrans t2 = true) (hne : t1 ≠ t2)
    (r1 : run t1 = true) (r2 : run t2 = true) :
    ∀ ch1 ch2 m, IsChain D t1 ch1 → IsChain D t2 ch2 → target ch1 = some m → target ch2 = some m →
      lcaNonexcl D ch1 ch2 = true ∨ cpe ch1 ch2 = true :=
  no_joint_run hA hC h1 h2 hne r1 r2

-- OBLIGATION callPathsExclusive_sound : call chains whose call paths are exclusive (call_paths_exclusive, manager.py:31) are never both enabled
theorem callPathsExclusive_sound (hs : ExclSem D v) {r1 r2 : Nat} {ch1 ch2 : List Call}
    (i1 : IsChain D r1 ch1) (i2 : IsChain D r2 ch2) (h : cpe ch1 ch2 = true) :
    ¬ (chainEn v ch1 = true ∧ chainEn v ch2 = true) :=
  cpe_sound D v hs ch1 ch2 i1.calls_mem i2.calls_mem h

-- OBLIGATION c01_exclusive_sound : "different alternatives … in the same module": for every program (modules with distinct ids), every condition valuation, both views: sites with exclusive_with control paths are never simultaneously active
theorem c01_exclusive_sound (cv : CVal) (av : Bool) (mods : List (Int × Blk))
    (hnd : (mods.map (·.1)).Nodup) :
    ∀ e1 ∈ sitesProg cv av mods, ∀ e2 ∈ sitesProg cv av mods,
      e1.path.exclusiveWith e2.path = true → ¬ (e1.act = true ∧ e2.act = true) :=
  exclusive_sound cv av mods hnd

-- OBLIGATION c01_exclusive_complete : sites in different alternatives of one If/Elif/Else, Switch/Case, FSM occurrence anywhere in a module tree get exclusive control paths
theorem c01_exclusive_complete (cv : CVal) (av : Bool) (b : Blk) (o : Occ)
    (ho : o ∈ occsBlk cv av [] true 0 b) {i j : Nat} {b1 b2 : Blk} (hij : i ≠ j)
    (hi : o.alts.get? i = some b1) (hj : o.alts.get? j = some b2)
    {e1 e2 : SiteInfo} (h1 : e1 ∈ o.sitesAlt cv av i b1) (h2 : e2 ∈ o.sitesAlt cv av j b2) :
    e1 ∈ sitesBlk cv av [] true 0 b ∧ e2 ∈ sitesBlk cv av [] true 0 b ∧
      exclEdges e1.path e2.path = true :=
  exclusive_complete cv av b o ho hij hi hj h1 h2

-- OBLIGATION c01_different_modules_not_exclusive : control paths of different modules are never exclusive
theorem c01_different_modules_not_exclusive (p q : CtrlPath) (h : p.module ≠ q.module) :
    p.exclusiveWith q = false :=
  exclusiveWith_module p q h

-- OBLIGATION c01_exclSem_of_tree : the hypothesis ExclSem follows from exclusive_sound when every call is placed at a site of the program with its recorded path and enable ⇒ site active (av_comb view)
theorem c01_exclSem_of_tree (cv : CVal) (mods : List (Int × Blk)) (hnd : (mods.map (·.1)).Nodup)
    (hp : CallsPlaced D v cv mods) : ExclSem D v :=
  exclSem_of_tree cv mods hnd hp

-- OBLIGATION c01_builder_positional : the recorded control paths are the positional ones: for every well-formed module tree (every If-chain has its first alternative), running the transcription of the stateful CtrlPathBuilder (tmodule.py:145-185: enter/exit with PUSH/ADD/ENTRY, `previous`) over the enter/exit/site event trace of the tree raises no builder error, returns to the empty path and records for every site exactly the path sitesBlk assigns (k-th structure of a block par = k, alternative a alt = a + offset) — so exclusive_sound / exclusive_complete speak about the paths the real builder produces (transcription cross-checked against the real CtrlPathBuilder on 100 random trees)
theorem c01_builder_positional (cv : CVal) (av : Bool) (b : Blk) (hw : wfBlk b = true) :
    ∃ q, runB (evBlk b) ⟨[], none⟩ =
      some (⟨[], q⟩, (sitesBlk cv av [] true 0 b).map fun e => (e.id, e.path)) :=
  builder_positional cv av b hw

/-- non-vacuity: the example tree is well formed and the builder run over its trace yields the paths
of the example design's call sites -/
example : wfBlk Ex.tree = true ∧
    (runB (evBlk Ex.tree) ⟨[], none⟩).map (·.2) =
      some [(100, []), (0, [⟨0,0⟩]), (1, [⟨0,1⟩]), (2, [⟨0,1⟩]), (3, [⟨0,2⟩, ⟨0,0⟩]), (4, [⟨0,2⟩, ⟨1,0⟩])] := by
  decide

-- OBLIGATION c01_accepted_of_check : the executable check evaluated by the driver implies the declarative hypotheses
theorem c01_accepted_of_check (h : acceptedB D S = true) : Accepted D S := acceptedB_sound h

/-- non-vacuity: the example design is accepted, the example cycle satisfies the eager equations
(and a different run assignment the round-robin abstraction), call sites are unique and placed in
the example tree, and exclusive method `M4` (three call sites, two of them in the alternatives of
one `If/Else`) has exactly one active site -/
example : acceptedB Ex.D Ex.S = true ∧ cycleEagerB Ex.D Ex.v Ex.S Ex.run = true ∧
    cycleRRB Ex.D Ex.v Ex.S Ex.comp Ex.runRR = true ∧ Ex.D.SitesNodup ∧
    CallsPlaced Ex.D Ex.v Ex.cv [(0, Ex.tree)] ∧
    (Ex.D.sitesOf 4).length = 3 ∧ (activeSites Ex.D Ex.v Ex.run 4).length = 1 :=
  ⟨Ex.accepted, Ex.cycleEager, Ex.cycleRR, by decide, Ex.callsPlaced, by decide, by decide⟩

/-- non-vacuity (nonexclusive common ancestor, chains of depth 2): in the second example `T0` and `T1`
both reach exclusive `M` (body 3) through nonexclusive `N`; the design is accepted without a
conflict edge, both transactions run together, and `M` has exactly one active call site -/
example : accept Ex2.D Ex2.ord = true ∧ cgrOf Ex2.D 0 1 = false ∧ reachesB Ex2.D 0 3 = true ∧
    reachesB Ex2.D 1 3 = true ∧ cycleEagerB Ex2.D Ex2.v Ex2.S Ex2.run = true ∧
    cycleRRB Ex2.D Ex2.v Ex2.S (fun t => t) Ex2.run = true ∧
    Ex2.run 0 = true ∧ Ex2.run 1 = true ∧ (activeSites Ex2.D Ex2.v Ex2.run 3).length = 1 :=
  ⟨Ex2.accepted, by decide, by decide, by decide, Ex2.cycleEager, Ex2.cycleRR, rfl, rfl, by decide⟩

end TxV.Core

#print axioms TxV.Core.c01_at_most_one_active
#print axioms TxV.Core.c01_at_most_one_active_eager
#print axioms TxV.Core.c01_at_most_one_active_rr
#print axioms TxV.Core.c01_active_unique
#print axioms TxV.Core.c01_no_joint_run
#print axioms TxV.Core.callPathsExclusive_sound
#print axioms TxV.Core.c01_exclusive_sound
#print axioms TxV.Core.c01_exclusive_complete
#print axioms TxV.Core.c01_different_modules_not_exclusive
#print axioms TxV.Core.c01_exclSem_of_tree
#print axioms TxV.Core.c01_builder_positional
#print axioms TxV.Core.c01_accepted_of_check
