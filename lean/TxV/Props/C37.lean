import TxV.Proofs.Shifter
/-!
# C37 — shifters and rotators are correct

"For every value, offset and width, shift_left/shift_right fill with the placeholder,
rotate_left/rotate_right rotate modulo the width, and the vector variants do the same on
sequences of structured values."

A value is the list of its bits (LSB first, `α = Bool`, `zero = false`); a vector is the
list of its entries (`α = Nat`, `zero = 0`).  The scalar theorems are stated for an
arbitrary entry type, so they cover both; `c37_vec_right/left` show that the bit-plane
construction of the `*_vec_*` functions is the same generic shift on whole entries.
Every theorem is for every length (= width / number of entries), every content and every
position `i` of the result.

Full-strength statements that are FALSE of the code (finding F10): for `offset > width`
positions at or beyond `2*width` of `Cat(value, fill)` read 0, so a rotation does not wrap
a second time and a non-zero placeholder is not replicated far enough.  The `_partial`
theorems carry the hypothesis `off ≤ width`; the `_counterexample` theorems are the
negation witnesses of the unrestricted statements.
-/
namespace TxV.Shifter
open TxV.Bits

variable {α : Type}

-- OBLIGATION c37_length : every shifter/rotator returns a value of the same width (vector of the same length) as its input
theorem c37_length (z : α) (v : List α) (off : Nat) (ph : α) :
    (shiftRight z v off ph).length = v.length ∧ (shiftLeft z v off ph).length = v.length ∧
    (rotateRight z v off).length = v.length ∧ (rotateLeft z v off).length = v.length := by
  simp [shiftRight, shiftLeft, rotateRight, rotateLeft]

-- OBLIGATION c37_generic_shift_right : generic_shift_right(value1, value2, off)[i] = Cat(value1, value2)[i+off]: value1's bit while i+off < width, then value2's bit (the freed space is filled from value2), 0 past both; every offset
theorem c37_generic_shift_right (z : α) (a b : List α) (off i : Nat) (hi : i < a.length)
    (hb : b.length = a.length) :
    (genericShiftRight z a b off)[i]? =
      if i + off < a.length then a[i + off]?
      else if i + off < 2 * a.length then b[i + off - a.length]? else some z :=
  getElem?_gsr_cases z a b off i hi hb

-- OBLIGATION c37_generic_shift_left : generic_shift_left(value1, value2, off)[i] = value1[i-off] while off ≤ i, then value2[i+width-off] (filled from the top of value2), 0 past both; every offset
theorem c37_generic_shift_left (z : α) (a b : List α) (off i : Nat) (hi : i < a.length)
    (hb : b.length = a.length) :
    (genericShiftLeft z a b off)[i]? =
      if off ≤ i then a[i - off]?
      else if off ≤ i + a.length then b[i + a.length - off]? else some z :=
  getElem?_gsl_cases z a b off i hi hb

-- OBLIGATION c37_shift_right_zero : shift_right with the default placeholder 0: result[i] = value[i+off] if i+off < width else 0, for EVERY offset (no bound)
theorem c37_shift_right_zero (z : α) (v : List α) (off i : Nat) (hi : i < v.length) :
    (shiftRight z v off z)[i]? = some ((v[i + off]?).getD z) :=
  getElem?_shiftRight z v off z i hi (Or.inr rfl)

-- OBLIGATION c37_shift_left_zero : shift_left with the default placeholder 0: result[i] = value[i-off] if off ≤ i else 0, for EVERY offset
theorem c37_shift_left_zero (z : α) (v : List α) (off i : Nat) (hi : i < v.length) :
    (shiftLeft z v off z)[i]? = if off ≤ i then v[i - off]? else some z :=
  getElem?_shiftLeft z v off z i hi (Or.inr rfl)

/- full statement: the same for every placeholder and every offset; false for ph ≠ 0, off > width -/
-- OBLIGATION c37_shift_right_partial : shift_right fills with the placeholder: result[i] = value[i+off] if i+off < width else placeholder; ADDED HYPOTHESIS off ≤ width (F10 outside)
theorem c37_shift_right_partial (z : α) (v : List α) (off : Nat) (ph : α) (i : Nat)
    (hi : i < v.length) (hoff : off ≤ v.length) :
    (shiftRight z v off ph)[i]? = some ((v[i + off]?).getD ph) :=
  getElem?_shiftRight z v off ph i hi (Or.inl hoff)

-- OBLIGATION c37_shift_left_partial : shift_left fills with the placeholder: result[i] = value[i-off] if off ≤ i else placeholder; ADDED HYPOTHESIS off ≤ width (F10 outside)
theorem c37_shift_left_partial (z : α) (v : List α) (off : Nat) (ph : α) (i : Nat)
    (hi : i < v.length) (hoff : off ≤ v.length) :
    (shiftLeft z v off ph)[i]? = if off ≤ i then v[i - off]? else some ph :=
  getElem?_shiftLeft z v off ph i hi (Or.inl hoff)

/- full statement: result[i] = value[(i+off) % width] for every offset; false for off > width -/
-- OBLIGATION c37_rotate_right_partial : rotate_right rotates modulo the width: result[i] = value[(i+off) % width]; ADDED HYPOTHESIS off ≤ width (F10 outside)
theorem c37_rotate_right_partial (z : α) (v : List α) (off i : Nat) (hi : i < v.length)
    (hoff : off ≤ v.length) :
    (rotateRight z v off)[i]? = v[(i + off) % v.length]? :=
  getElem?_rotateRight z v off i hi hoff

-- OBLIGATION c37_rotate_left_partial : rotate_left rotates modulo the width: result[i] = value[(i+width-off) % width], i.e. result[(i+off) % width] = value[i]; ADDED HYPOTHESIS off ≤ width (F10 outside)
theorem c37_rotate_left_partial (z : α) (v : List α) (off i : Nat) (hi : i < v.length)
    (hoff : off ≤ v.length) :
    (rotateLeft z v off)[i]? = v[(i + v.length - off) % v.length]? :=
  getElem?_rotateLeft z v off i hi hoff

-- OBLIGATION c37_rotate_right_counterexample : negation witness: rotate_right of the 5-bit value 0b10011 by 7 is 0b00100, not the rotation by 7 mod 5
theorem c37_rotate_right_counterexample :
    ¬ (∀ (v : List Bool) (off i : Nat), i < v.length →
        (rotateRight false v off)[i]? = v[(i + off) % v.length]?) := by
  intro h
  have := h [true, true, false, false, true] 7 3 (by decide)
  revert this
  decide

-- OBLIGATION c37_rotate_left_counterexample : negation witness: rotate_left of the 5-bit value 0b10011 by 7
theorem c37_rotate_left_counterexample :
    ¬ (∀ (v : List Bool) (off i : Nat), i < v.length →
        (rotateLeft false v off)[i]? = v[(i + v.length - off % v.length) % v.length]?) := by
  intro h
  have := h [true, true, false, false, true] 7 1 (by decide)
  revert this
  decide

-- OBLIGATION c37_shift_right_counterexample : negation witness: shift_right(placeholder=1) of a 5-bit value by 6 leaves bit 4 clear instead of the placeholder
theorem c37_shift_right_counterexample :
    ¬ (∀ (v : List Bool) (off : Nat) (ph : Bool) (i : Nat), i < v.length →
        (shiftRight false v off ph)[i]? = some ((v[i + off]?).getD ph)) := by
  intro h
  have := h [true, true, false, false, true] 6 true 4 (by decide)
  revert this
  decide

-- OBLIGATION c37_shift_left_counterexample : negation witness: shift_left(placeholder=1) of a 5-bit value by 6 leaves bit 0 clear instead of the placeholder
theorem c37_shift_left_counterexample :
    ¬ (∀ (v : List Bool) (off : Nat) (ph : Bool) (i : Nat), i < v.length →
        (shiftLeft false v off ph)[i]? = if off ≤ i then v[i - off]? else some ph) := by
  intro h
  have := h [true, true, false, false, true] 6 true 0 (by decide)
  revert this
  decide

/-! ## vector variants -/

-- OBLIGATION c37_vec_right : generic_shift_vec_right (slice entries into bit planes, shift every plane, reassemble) = the generic right shift on whole entries, for every entry width, length, offset
theorem c37_vec_right (ew : Nat) (d1 d2 : List Nat) (off : Nat)
    (h1 : ∀ x ∈ d1, x < 2 ^ ew) (h2 : ∀ x ∈ d2, x < 2 ^ ew) :
    genericShiftVecRight ew d1 d2 off = genericShiftRight 0 d1 d2 off :=
  genericShiftVecRight_eq ew d1 d2 off h1 h2

-- OBLIGATION c37_vec_left : generic_shift_vec_left = the generic left shift on whole entries
theorem c37_vec_left (ew : Nat) (d1 d2 : List Nat) (off : Nat)
    (h1 : ∀ x ∈ d1, x < 2 ^ ew) (h2 : ∀ x ∈ d2, x < 2 ^ ew) :
    genericShiftVecLeft ew d1 d2 off = genericShiftLeft 0 d1 d2 off :=
  genericShiftVecLeft_eq ew d1 d2 off h1 h2

-- OBLIGATION c37_shift_vec_right_partial : shift_vec_right: result[i] = data[i+off] if i+off < len else placeholder; for off ≤ len, or any offset when the placeholder is the zero entry (default)
theorem c37_shift_vec_right_partial (ew : Nat) (d : List Nat) (off ph i : Nat)
    (hd : ∀ x ∈ d, x < 2 ^ ew) (hp : ph < 2 ^ ew) (hi : i < d.length)
    (hoff : off ≤ d.length ∨ ph = 0) :
    (shiftVecRight ew d off ph)[i]? = some ((d[i + off]?).getD ph) := by
  unfold shiftVecRight
  rw [genericShiftVecRight_eq ew _ _ off hd (by intro x hx; rw [(List.mem_replicate.1 hx).2]; exact hp)]
  exact getElem?_shiftRight 0 d off ph i hi hoff

-- OBLIGATION c37_shift_vec_left_partial : shift_vec_left: result[i] = data[i-off] if off ≤ i else placeholder; for off ≤ len, or any offset when the placeholder is the zero entry
theorem c37_shift_vec_left_partial (ew : Nat) (d : List Nat) (off ph i : Nat)
    (hd : ∀ x ∈ d, x < 2 ^ ew) (hp : ph < 2 ^ ew) (hi : i < d.length)
    (hoff : off ≤ d.length ∨ ph = 0) :
    (shiftVecLeft ew d off ph)[i]? = if off ≤ i then d[i - off]? else some ph := by
  unfold shiftVecLeft
  rw [genericShiftVecLeft_eq ew _ _ off hd (by intro x hx; rw [(List.mem_replicate.1 hx).2]; exact hp)]
  exact getElem?_shiftLeft 0 d off ph i hi hoff

-- OBLIGATION c37_rotate_vec_right_partial : rotate_vec_right: result[i] = data[(i+off) % len]; ADDED HYPOTHESIS off ≤ len
theorem c37_rotate_vec_right_partial (ew : Nat) (d : List Nat) (off i : Nat)
    (hd : ∀ x ∈ d, x < 2 ^ ew) (hi : i < d.length) (hoff : off ≤ d.length) :
    (rotateVecRight ew d off)[i]? = d[(i + off) % d.length]? := by
  unfold rotateVecRight
  rw [genericShiftVecRight_eq ew _ _ off hd hd]
  exact getElem?_rotateRight 0 d off i hi hoff

-- OBLIGATION c37_rotate_vec_left_partial : rotate_vec_left: result[i] = data[(i+len-off) % len]; ADDED HYPOTHESIS off ≤ len
theorem c37_rotate_vec_left_partial (ew : Nat) (d : List Nat) (off i : Nat)
    (hd : ∀ x ∈ d, x < 2 ^ ew) (hi : i < d.length) (hoff : off ≤ d.length) :
    (rotateVecLeft ew d off)[i]? = d[(i + d.length - off) % d.length]? := by
  unfold rotateVecLeft
  rw [genericShiftVecLeft_eq ew _ _ off hd hd]
  exact getElem?_rotateLeft 0 d off i hi hoff

-- OBLIGATION c37_bits_roundtrip : the number ↔ bit-list conversion used to state the scalar theorems loses nothing: ofBits (toBits w x) = x mod 2^w
theorem c37_bits_roundtrip (w x : Nat) : ofBits (toBits w x) = x % 2 ^ w := ofBits_toBits w x

/-! ## non-vacuity -/

/-- concrete instances inside the hypotheses (offsets 2 ≤ 5, 5 ≤ 5; entries < 2^3) -/
example :
    onBits 5 (fun v => rotateRight false v 2) 0b10011 = 0b11100 ∧
    onBits 5 (fun v => rotateLeft false v 2) 0b10011 = 0b01110 ∧
    onBits 5 (fun v => rotateRight false v 5) 0b10011 = 0b10011 ∧
    onBits 5 (fun v => shiftRight false v 2 true) 0b10011 = 0b11100 ∧
    onBits 5 (fun v => shiftLeft false v 2 true) 0b10011 = 0b01111 ∧
    onBits 5 (fun v => shiftRight false v 9 false) 0b10011 = 0 := by decide
example :
    (∀ x ∈ [1, 2, 3, 7], x < 2 ^ 3) ∧
    rotateVecRight 3 [1, 2, 3, 7] 1 = [2, 3, 7, 1] ∧ rotateVecLeft 3 [1, 2, 3, 7] 3 = [2, 3, 7, 1] ∧
    shiftVecRight 3 [1, 2, 3, 7] 3 5 = [7, 5, 5, 5] ∧ shiftVecLeft 3 [1, 2, 3, 7] 1 5 = [5, 1, 2, 3] := by decide

end TxV.Shifter

#print axioms TxV.Shifter.c37_length
#print axioms TxV.Shifter.c37_generic_shift_right
#print axioms TxV.Shifter.c37_generic_shift_left
#print axioms TxV.Shifter.c37_shift_right_zero
#print axioms TxV.Shifter.c37_shift_left_zero
#print axioms TxV.Shifter.c37_shift_right_partial
#print axioms TxV.Shifter.c37_shift_left_partial
#print axioms TxV.Shifter.c37_rotate_right_partial
#print axioms TxV.Shifter.c37_rotate_left_partial
#print axioms TxV.Shifter.c37_rotate_right_counterexample
#print axioms TxV.Shifter.c37_rotate_left_counterexample
#print axioms TxV.Shifter.c37_shift_right_counterexample
#print axioms TxV.Shifter.c37_shift_left_counterexample
#print axioms TxV.Shifter.c37_vec_right
#print axioms TxV.Shifter.c37_vec_left
#print axioms TxV.Shifter.c37_shift_vec_right_partial
#print axioms TxV.Shifter.c37_shift_vec_left_partial
#print axioms TxV.Shifter.c37_rotate_vec_right_partial
#print axioms TxV.Shifter.c37_rotate_vec_left_partial
#print axioms TxV.Shifter.c37_bits_roundtrip
