import TxV.Proofs.Latency
/-!
# C32 — Latency measurers record true latencies

"FIFOLatencyMeasurer, WideFIFOLatencyMeasurer and TaggedLatencyMeasurer add to their histogram
exactly one sample per finished event, equal to the number of cycles between the event's start
and stop (events matched in FIFO order, or by slot tag), for latencies within max_latency."

Two machines are compared (`TxV/Model/Latency.lean`): the *implementation model* — an
`epoch_width`-bit epoch register, queues of start epochs (one per way; the abstract queue of the
`WideFifo`) or a slot memory, `(epoch - start)` with the top bit dropped, feeding the C31
histogram model — and the *specification* — the same control with true cycle numbers, whose
samples are `now - start`.  All theorems hold for every number of ways, slot count, start/stop
width, `max_latency` and every history of attempted calls from reset.  `FIFOLatencyMeasurer` is
the instance `msta = msto = 1` with all counts 1.  What the histogram registers then contain for
a given list of samples is C31 (`c31_hist_*`).
-/
namespace TxV.Latency
open TxV.Metrics

/-- the per-cycle histogram inputs of the specification (true latencies) for a history -/
def specAdds (c : Cfg) (ways : Nat) (h : List (List WayIn)) : List (List (Option Nat)) :=
  coreRunAdds c.slots c.msto id durTrue (coreInit ways) h

def tSpecAdds (c : TCfg) (h : List (List TWayIn)) : List (List (Option Nat)) :=
  tRunAdds id durTrue (tCoreInit c.slots) h

-- OBLIGATION c32_fifo_refines : (Wide)FIFOLatencyMeasurer, every configuration and history: the histogram of the implementation model is the C31 histogram of the specification's samples (true latency of each finished event, FIFO matching), each taken modulo 2^epoch_width
theorem c32_fifo_refines (c : Cfg) (ways : Nat) (h : List (List WayIn)) :
    (run c (init c ways) h).hist
      = c.hcfg.run c.hcfg.init ((specAdds c ways h).map (List.map (Option.map (· % 2 ^ c.ew)))) := by
  rw [(run_hist c (init c ways) h).1]
  obtain ⟨hR, hP⟩ := rel_init c.ew ways
  simp only [init, specAdds]
  rw [coreRunAdds_rel c.ew c.slots c.msto _ _ h hR hP]

-- OBLIGATION c32_fifo_done : in every reachable state the implementation model executes exactly the starts and stops the specification executes, and each stop finishes the same number of events
theorem c32_fifo_done (c : Cfg) (ways : Nat) (h : List (List WayIn)) (ins : List WayIn) :
    (coreOuts c.slots c.msto (run c (init c ways) h).core ins).map (fun o => (o.startDone, o.stopDone, o.popped.length))
      = (coreOuts c.slots c.msto (coreRun c.slots c.msto id (coreInit ways) h) ins).map
          (fun o => (o.startDone, o.stopDone, o.popped.length)) := by
  rw [(run_hist c (init c ways) h).2]
  obtain ⟨hR, hP⟩ := rel_init c.ew ways
  have hR' := (coreRun_rel c.ew c.slots c.msto _ _ h hR hP).1
  simp only [init]
  rw [coreOuts_rel c.ew c.slots c.msto _ _ ins hR', List.map_map]
  apply List.map_congr_left
  intro o _
  simp [WayOut.mapStamp]

-- OBLIGATION c32_fifo_true_latency : if every finished event's true latency is <= max_latency, the histogram is exactly the C31 histogram of the true latencies (no wrap-around: max_latency < 2^bits_for(max_latency))
theorem c32_fifo_true_latency (c : Cfg) (ways : Nat) (h : List (List WayIn))
    (hlat : ∀ l ∈ specAdds c ways h, ∀ o ∈ l, ∀ x, o = some x → x ≤ c.maxLat) :
    (run c (init c ways) h).hist = c.hcfg.run c.hcfg.init (specAdds c ways h) := by
  rw [c32_fifo_refines, map_mod_id]
  intro l hl o ho x hx
  exact Nat.lt_of_le_of_lt (hlat l hl o ho x hx) (lt_two_pow_bitsFor c.maxLat)

-- OBLIGATION c32_fifo_one_sample : in one cycle a way hands the histogram exactly one sample per event finished by its stop, namely (current time - start time of that event), oldest event first, on max_stop_count histogram ways
theorem c32_fifo_one_sample (slots msto now : Nat) (q : List Nat) (start stop : Option Nat) :
    let o := wayStep slots msto now q start stop
    (wayAdds msto (durTrue now) o).filterMap id = o.popped.map (fun t => now - t) ∧
    (wayAdds msto (durTrue now) o).length = msto ∧
    o.popped = q.take o.popped.length := by
  intro o
  have hlen : o.popped.length ≤ msto := wayStep_popped_len slots msto now q start stop
  refine ⟨?_, ?_, ?_⟩
  · simp only [wayAdds, List.filterMap_append, filterMap_replicate_none, List.append_nil]
    exact filterMap_some_map (durTrue now) o.popped
  · simp only [wayAdds, List.length_append, List.length_map, List.length_replicate]
    omega
  · have : o.popped = q.take (((stop.filter fun _ => q.length != 0).elim 0 fun n => Nat.min n (Nat.min q.length msto))) := rfl
    rw [this, take_take_length]

-- OBLIGATION c32_fifo_order : per way (ways are independent: coreOuts maps wayStep over the ways), whole history from reset: the start times of all registered events, in start order, are the start times attached to the finished events, in finishing order, followed by the events still queued — events are matched in FIFO order
theorem c32_fifo_order (slots msto : Nat) (h : List WayIn) :
    (wayRun slots msto 0 [] h).2.1 = (wayRun slots msto 0 [] h).1 ++ (wayRun slots msto 0 [] h).2.2 ∧
    (coreRun slots msto id (coreInit 1) (h.map fun i => [i])).qs = [(wayRun slots msto 0 [] h).2.2] := by
  refine ⟨?_, ?_⟩
  · have := wayRun_fifo slots msto 0 [] h
    simpa using this
  · exact coreRun_single slots msto 0 [] h

-- OBLIGATION c32_tagged_refines : TaggedLatencyMeasurer, every configuration and history: the histogram of the implementation model is the C31 histogram of the specification's samples (time since the slot memory entry was written), each modulo 2^epoch_width
theorem c32_tagged_refines (c : TCfg) (h : List (List TWayIn)) :
    (tRunState c (tInit c) h).hist
      = c.hcfg.run c.hcfg.init ((tSpecAdds c h).map (List.map (Option.map (· % 2 ^ c.ew)))) := by
  rw [tRunState_hist]
  obtain ⟨hR, hP⟩ := trel_init c.ew c.slots
  simp only [tInit, tSpecAdds]
  rw [tRunAdds_rel c.ew _ _ h hR hP]

-- OBLIGATION c32_tagged_true_latency : if every sample of the specification is <= max_latency the histogram is exactly the C31 histogram of those samples
theorem c32_tagged_true_latency (c : TCfg) (h : List (List TWayIn))
    (hlat : ∀ l ∈ tSpecAdds c h, ∀ o ∈ l, ∀ x, o = some x → x ≤ c.maxLat) :
    (tRunState c (tInit c) h).hist = c.hcfg.run c.hcfg.init (tSpecAdds c h) := by
  rw [c32_tagged_refines, map_mod_id]
  intro l hl o ho x hx
  exact Nat.lt_of_le_of_lt (hlat l hl o ho x hx) (lt_two_pow_bitsFor c.maxLat)

-- OBLIGATION c32_tagged_last_start : events are matched by slot tag: after any history, a stop of a slot whose most recent start was d cycles ago hands the histogram (on its own way) exactly one sample, equal to d; a way that does not stop hands none
theorem c32_tagged_last_start (slots : Nat) (h : List (List TWayIn)) (ins : List TWayIn) (k : Nat)
    (i : TWayIn) (hk : ins[k]? = some i) :
    let adds := tAdds durTrue (tRun id (tCoreInit slots) h) ins
    (i.2 = none → adds[k]? = some none) ∧
    (∀ slot d, i.2 = some slot → slot < slots → sinceStart h slot = some d → adds[k]? = some (some d)) := by
  intro adds
  have hget : adds[k]? = some (i.2.bind fun slot => (tRun id (tCoreInit slots) h).mem[slot]?.map (durTrue (tRun id (tCoreInit slots) h).now)) := by
    simp only [adds, tAdds, List.getElem?_map, hk, Option.map_some]
  refine ⟨?_, ?_⟩
  · intro hn
    rw [hget, hn]; rfl
  · intro slot d hs hlt hd
    have hlen : slot < (tCoreInit slots).mem.length := by simp [tCoreInit, hlt]
    obtain ⟨hnow, hmem⟩ := tRun_mem (tCoreInit slots) h slot hlen
    rw [hget, hs, Option.bind_some, hmem, hd, hnow]
    obtain ⟨h1, h2⟩ := sinceStart_le h slot d hd
    simp only [Option.map_some, durTrue, tCoreInit]
    congr 2
    omega

/-- non-vacuity (FIFO, 1 way, 2 slots, max_latency 2 → 2-bit epoch): latencies 3,1 within a history where a start
    is blocked (queue full) and the epoch counter wraps; the latency 5 of the second event shows up as 5 % 4 = 1 -/
example :
    let c : Cfg := { slotsReq := 2, msta := 1, msto := 1, maxLat := 2 }
    let h : List (List WayIn) := [[(some 1, none)], [(some 1, none)], [(some 1, none)], [(none, some 1)], [(none, none)],
      [(none, none)], [(none, some 1)], [(none, some 1)]]
    specAdds c 1 h = [[none], [none], [none], [some 3], [none], [none], [some 5], [none]] ∧
    (run c (init c 1) h).hist = { count := 2, sum := 4, min := 1, max := 3, buckets := [0, 1, 1] } := by
  decide +kernel

/-- non-vacuity (wide, 2 events started at once, finished together, all latencies within max_latency) -/
example :
    let c : Cfg := { slotsReq := 3, msta := 2, msto := 2, maxLat := 10 }
    let h : List (List WayIn) := [[(some 2, none)], [(some 1, none)], [(some 2, some 2)], [(none, some 2)], [(none, none)]]
    c.slots = 4 ∧
    specAdds c 1 h = [[none, none], [none, none], [some 2, some 2], [some 2, none], [none, none]] ∧
    (∀ l ∈ specAdds c 1 h, ∀ o ∈ l, ∀ x, o = some x → x ≤ c.maxLat) := by
  decide +kernel

/-- non-vacuity (tagged, 2 ways, 3 slots): slot 2 started at cycle 0 and restarted in the cycle it is stopped -/
example :
    let h : List (List TWayIn) := [[(some 2, none), (none, none)], [(some 1, none), (none, none)], [(some 2, some 2), (none, none)]]
    sinceStart h 2 = some 1 ∧ sinceStart h 1 = some 2 ∧ sinceStart h 0 = none ∧
    tAdds durTrue (tRun id (tCoreInit 3) h) [(none, some 1), (none, some 2)] = [some 2, some 1] := by
  decide +kernel

end TxV.Latency

#print axioms TxV.Latency.c32_fifo_refines
#print axioms TxV.Latency.c32_fifo_done
#print axioms TxV.Latency.c32_fifo_true_latency
#print axioms TxV.Latency.c32_fifo_one_sample
#print axioms TxV.Latency.c32_fifo_order
#print axioms TxV.Latency.c32_tagged_refines
#print axioms TxV.Latency.c32_tagged_true_latency
#print axioms TxV.Latency.c32_tagged_last_start
