import TxV.Core.Example2
/-!
# C05 — call arguments and results are routed to the right party

"Whenever an exclusive method runs, the input it sees equals the argument of its single active
call; a nonexclusive method with a combiner sees the combiner applied to the arguments of exactly
its active calls. Every caller observes the method's output of that cycle as the call result, also
through provide()/Methods.provide aliases."

`argsOf`/`runsOf` are the two vectors `_method_calls` builds (manager.py:332–344), `dataIn comb` is
`combiner(m, args, runs)` (manager.py:564), `defaultCombiner` is body.py:120 (`OneHotMux.create`
over `(runs[i], args[i])`), `oneHotMux` transcribes `one_hot_mux` without default/priority
(functions.py:331–384, including the single-input pass-through).  Results: a call returns
`self.data_out` of the method object (method.py:327), which the manager wires to the `data_out` of
the resolved body (manager.py:522–527); `resolve` models `Method._body` (method.py:134).
That the remaining data path is wiring is covered by the correspondence, not by a theorem.
-/
namespace TxV.Core

variable {D : Design} {v : Val} {S : Sched} {run : Nat → Bool}

-- OBLIGATION c05_exclusive : sentence 1 (under hypothesis Accepted (proved from the executable elaborate: Bridge.elaborate_static) and driver-checked per-cycle hypotheses Cycle, SitesNodup): whenever an exclusive method of an accepted design runs (any scheduler satisfying the cycle facts) it has exactly one active call site and the default combiner delivers exactly that site's argument — for any number of call sites
theorem c05_exclusive (hA : Accepted D S) (hC : Cycle D v S run) (hn : D.SitesNodup) {m : Nat}
    (hlt : m < D.n) (hmt : D.isTrans m = false) (hne : D.nonexcl m = false) (hr : run m = true) :
    ∃ s, activeSites D v run m = [s] ∧ dataIn defaultCombiner D v run m = v.arg s.2.site :=
  exclusive_input hA hC hn hlt hmt hne hr

-- OBLIGATION c05_single_active : one-hot routing by itself: if exactly one call site of a method (exclusive or not) is active, the default combiner delivers its argument (any list length, single-input pass-through included)
theorem c05_single_active {m : Nat} {s : Nat × Call} (h : activeSites D v run m = [s]) :
    dataIn defaultCombiner D v run m = v.arg s.2.site :=
  dataIn_single h

-- OBLIGATION c05_nonexclusive : sentence 2: a (custom) combiner is applied to one argument and one activity bit per call site, in the same order; bit i is 1 exactly when call site i is active, argument i is that site's argument
theorem c05_nonexclusive (comb : List Nat → List Bool → Nat) (m : Nat) :
    dataIn comb D v run m = comb (argsOf D v m) (runsOf D v run m) ∧
    (argsOf D v m).length = (D.sitesOf m).length ∧ (runsOf D v run m).length = (D.sitesOf m).length ∧
    ∀ i (h : i < (D.sitesOf m).length),
      (argsOf D v m)[i]? = some (v.arg ((D.sitesOf m)[i]).2.site) ∧
      ((runsOf D v run m)[i]? = some true ↔
        ActiveSite D v run ((D.sitesOf m)[i]).1 ((D.sitesOf m)[i]).2) :=
  ⟨rfl, combiner_inputs m⟩

-- OBLIGATION c05_oneHotMux_select : the multiplexer lemma used above and by validate_arguments: if some selected input carries a and every selected input carries a, the output is a (every list length)
theorem c05_oneHotMux_select (l : List (Bool × Nat)) (a : Nat)
    (hsome : ∃ p ∈ l, p.1 = true ∧ p.2 = a) (hall : ∀ p ∈ l, p.1 = true → p.2 = a) :
    oneHotMux l = a :=
  oneHotMux_select l a hsome hall

-- OBLIGATION c05_resolve_alias : sentence 3 (aliases): a method object and the object it was provided to resolve to the same body, for provide chains of any length — so every alias reads the same data_out and attributes its calls to the same body
theorem c05_resolve_alias (tbl : Nat → Impl) (f m m' b : Nat) (hm : tbl m = .fwd m')
    (h : resolve tbl f m' = some b) : resolve tbl (f+1) m = some b :=
  resolve_fwd tbl f m m' b hm h

-- OBLIGATION c05_resolve_idempotent : caching the resolved body in the object (method.py:138) changes the resolution of no method
theorem c05_resolve_idempotent (tbl : Nat → Impl) (m b : Nat) (hm : ∃ f, resolve tbl f m = some b) :
    ∀ (f x c : Nat), resolve tbl f x = some c →
      resolve (fun y => if y = m then .body b else tbl y) f x = some c :=
  resolve_cache tbl m b hm

/-- non-vacuity: in the example cycle exclusive `M4` runs with three call sites of which exactly
site 3 is active, and receives `arg 3 = 13`; a provide chain of length 2 resolves -/
example : Ex.run 4 = true ∧ (Ex.D.sitesOf 4).length = 3 ∧
    (activeSites Ex.D Ex.v Ex.run 4).map (·.2.site) = [3] ∧
    dataIn defaultCombiner Ex.D Ex.v Ex.run 4 = 13 ∧
    resolve (fun m => if m = 0 then .fwd 1 else if m = 1 then .fwd 2 else .body 7) 3 0 = some 7 := by
  decide

end TxV.Core

#print axioms TxV.Core.c05_exclusive
#print axioms TxV.Core.c05_single_active
#print axioms TxV.Core.c05_nonexclusive
#print axioms TxV.Core.c05_oneHotMux_select
#print axioms TxV.Core.c05_resolve_alias
#print axioms TxV.Core.c05_resolve_idempotent
