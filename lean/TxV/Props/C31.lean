import TxV.Proofs.Metrics
/-!
# C31 — Hardware counters and histograms count exactly

"With metrics enabled, HwCounter counts executed incr calls, TaggedCounter counts executed
calls per tag for every documented tag set (range, Enum or list of integers), and
HwExpHistogram keeps count, sum, min, max and exponential buckets consistent with the
samples added, all modulo register width; with metrics disabled the calls are accepted and
produce no hardware."

All theorems are for every register width, every number of ways (the length of the
per-cycle input vectors, which may even vary) and every call history from the reset state.
A history is a list of cycles; a cycle lists, per way, the executed call (`none` = way not
called).  None of the metric methods can block, so executed = attempted (checked against the
real circuit in the correspondence: the `done` bits).  The last clause of the property
(metrics disabled) is about the Python objects, not about a circuit, and is checked on the
real code only (harness `c31.py`, `disabled_check`).
-/
namespace TxV.Metrics

-- OBLIGATION c31_counter : HwCounter: after every history, for any number of ways, count = (number of executed incr calls) mod 2^width_bits
theorem c31_counter (w : Nat) (h : List (List Bool)) :
    (Counter.run (Counter.init w) h).count = (h.flatten.count true) % 2 ^ w := by
  have := Counter.run_count (Counter.init w) h (by simp [Counter.init, Nat.two_pow_pos])
  simpa [Counter.init] using this

-- OBLIGATION c31_tagged : TaggedCounter: for every tag list (values of a range / Enum / list of ints, negative allowed), every history: the counter of tag t = (number of executed calls with tag t) mod 2^registers_width; on the one-hot path under the hypothesis that every tag value fits the tag signal (true for the three documented kinds of tag_shape; checked on the real objects by the harness)
theorem c31_tagged (c : TCfg) (hfit : c.oneHot = true → ∀ t ∈ c.tags, t < (2 : Int) ^ c.tagW)
    (h : List (List (Option Int))) :
    c.run c.init h = c.tags.map fun t => (samples h).count t % 2 ^ c.w := by
  have := TCfg.run_eq c hfit (fun _ => 0) (fun _ => Nat.two_pow_pos _) h
  simpa [TCfg.init] using this

-- OBLIGATION c31_tagged_other : TaggedCounter: a call whose tag is not the value t never changes the counter of t, i.e. calls with tags outside the tag set change no counter (instance of c31_tagged, stated per call)
theorem c31_tagged_other (c : TCfg) (hfit : c.oneHot = true → ∀ t ∈ c.tags, t < (2 : Int) ^ c.tagW)
    (t x : Int) (ht : t ∈ c.tags) : c.hit t x = true ↔ x = t := by
  rw [hit_eq c t x ht (fun hoh => hfit hoh t ht)]; simp

-- OBLIGATION c31_hist_count_sum : HwExpHistogram: count = (number of samples added) mod 2^registers_width and sum = (sum of the samples) mod 2^registers_width, for every history and number of ways
theorem c31_hist_count_sum (c : HCfg) (h : List (List (Option Nat))) :
    (c.run c.init h).count = (samples h).length % 2 ^ c.rw ∧
    (c.run c.init h).sum = (samples h).sum % 2 ^ c.rw := by
  rw [HCfg.init_eq_spec, HCfg.run_spec]
  simp [HCfg.spec]

-- OBLIGATION c31_hist_min_max : HwExpHistogram: with no sample min/max hold their reset values (all ones / 0); otherwise min is the least and max the greatest sample added so far (samples are sample_width-bit values)
theorem c31_hist_min_max (c : HCfg) (h : List (List (Option Nat)))
    (hfit : ∀ x ∈ samples h, x < 2 ^ c.sw) :
    let s := c.run c.init h
    (samples h = [] → s.min = 2 ^ c.sw - 1 ∧ s.max = 0) ∧
    (samples h ≠ [] →
      (s.min ∈ samples h ∧ ∀ x ∈ samples h, s.min ≤ x) ∧
      (s.max ∈ samples h ∧ ∀ x ∈ samples h, x ≤ s.max)) := by
  intro s
  have hs : s = c.spec (samples h) := by
    show c.run c.init h = _
    rw [HCfg.init_eq_spec, HCfg.run_spec]; simp
  rw [hs]
  simp only [HCfg.spec]
  constructor
  · intro he; rw [he]; simp
  · intro hne
    obtain ⟨y, hy⟩ := List.exists_mem_of_ne_nil _ hne
    refine ⟨⟨?_, (foldl_min_le _ _).2⟩, ⟨?_, (foldl_max_ge _ _).2⟩⟩
    · rcases foldl_min_mem (2 ^ c.sw - 1) (samples h) with e | e
      · have h1 := (foldl_min_le (2 ^ c.sw - 1) (samples h)).2 y hy
        have h2 := hfit y hy
        have : y = 2 ^ c.sw - 1 := by omega
        rw [e, ← this]; exact hy
      · exact e
    · rcases foldl_max_mem 0 (samples h) with e | e
      · have h1 := (foldl_max_ge 0 (samples h)).2 y hy
        have : y = 0 := by omega
        rw [e, ← this]; exact hy
      · exact e

-- OBLIGATION c31_hist_buckets : HwExpHistogram, every bucket_count >= 1: bucket i = (number of samples x with lo_i <= x < hi_i) mod 2^registers_width, where the ranges are the documented [0,1); [1,2); [2,4); ... ; [2^(n-2), inf); a single bucket has the range [0, inf) and counts every sample (former finding F4, repaired in 0ffe71b)
theorem c31_hist_buckets (c : HCfg) (h : List (List (Option Nat)))
    (hfit : ∀ x ∈ samples h, x < 2 ^ c.sw) :
    (c.run c.init h).buckets
      = (List.range c.n).map fun i => (samples h).countP (inBucket c.n i) % 2 ^ c.rw := by
  rw [HCfg.init_eq_spec, HCfg.run_spec]
  simp only [HCfg.spec, List.nil_append]
  apply List.map_congr_left
  intro i hi
  congr 1
  apply List.countP_congr
  intro x hx
  rw [shouldIncr_eq c i x (List.mem_range.mp hi) (hfit x hx)]

-- OBLIGATION c31_hist_bucket_log2 : the bucket ranges are the exponential ones: a sample x is in bucket 0 iff x = 0 and a non-zero x is in bucket min(floor(log2 x) + 1, n - 1); in particular every sample is counted in exactly one bucket
theorem c31_hist_bucket_log2 (n i x : Nat) (hn : 2 ≤ n) (hi : i < n) :
    inBucket n i x = true ↔ i = (if x = 0 then 0 else Nat.min (Nat.log2 x + 1) (n - 1)) := by
  unfold inBucket
  simp only [Bool.and_eq_true, Bool.or_eq_true, decide_eq_true_eq]
  by_cases hx : x = 0
  · subst hx
    simp only [if_true]
    constructor
    · intro ⟨h1, _⟩
      by_cases hi0 : i = 0
      · exact hi0
      · simp only [hi0, if_false] at h1
        have := Nat.two_pow_pos (i - 1); omega
    · intro h; subst h; simp
  · simp only [hx, if_false]
    have hlo : 2 ^ Nat.log2 x ≤ x := Nat.log2_self_le hx
    have hhi : x < 2 ^ (Nat.log2 x + 1) := Nat.lt_log2_self
    have hmin : Nat.min (Nat.log2 x + 1) (n - 1) = if Nat.log2 x + 1 ≤ n - 1 then Nat.log2 x + 1 else n - 1 := by
      show min _ _ = _
      split <;> omega
    rw [hmin]
    constructor
    · intro ⟨h1, h2⟩
      by_cases hi0 : i = 0
      · subst hi0
        rcases h2 with h2 | h2
        · omega
        · simp at h2; omega
      · simp only [hi0, if_false] at h1
        have a1 : 2 ^ (i - 1) < 2 ^ (Nat.log2 x + 1) := Nat.lt_of_le_of_lt h1 hhi
        have a1' := (Nat.pow_lt_pow_iff_right (by omega : 1 < 2)).mp a1
        rcases h2 with h2 | h2
        · split <;> omega
        · have a2 : 2 ^ Nat.log2 x < 2 ^ i := Nat.lt_of_le_of_lt hlo h2
          have a2' := (Nat.pow_lt_pow_iff_right (by omega : 1 < 2)).mp a2
          split <;> omega
    · intro h
      split at h
      · rename_i hle
        subst h
        simp only [Nat.add_one_ne_zero, if_false, Nat.add_sub_cancel]
        exact ⟨hlo, Or.inr hhi⟩
      · rename_i hgt
        subst h
        have hn1 : n - 1 ≠ 0 := by omega
        simp only [hn1, if_false]
        refine ⟨?_, Or.inl (by omega)⟩
        exact Nat.le_trans (Nat.pow_le_pow_right (by omega) (by omega)) hlo

-- OBLIGATION c31_hist_one_bucket : HwExpHistogram with bucket_count = 1: the only bucket, documented as [0, +inf), counts every sample (mod 2^registers_width) — the regression statement of the repaired finding F4
theorem c31_hist_one_bucket (c : HCfg) (hn : c.n = 1) (h : List (List (Option Nat))) :
    (c.run c.init h).buckets = [(samples h).length % 2 ^ c.rw] := by
  rw [HCfg.init_eq_spec, HCfg.run_spec]
  simp only [HCfg.spec, List.nil_append, hn, List.range_one, List.map_cons, List.map_nil]
  congr 2
  simp [HCfg.shouldIncr, hn]

/-- non-vacuity: a 3-bit counter with 3 ways wraps around (9 calls → 1) -/
example : (Counter.run (Counter.init 3) [[true, true, true], [true, false, true], [true, true, true], [false, true, false]]).count = 1 := by
  decide

/-- non-vacuity: one-hot tag set {2, 4} (a former F3 witness), tag signal 3 bits, two ways,
    including calls with tags outside the set (0, 1, 3) -/
example :
    let c : TCfg := { tags := [2, 4], tagW := 3, w := 2 }
    c.oneHot = true ∧ (∀ t ∈ c.tags, t < (2 : Int) ^ c.tagW) ∧
    c.run c.init [[some 2, some 4], [some 2, none], [some 0, some 3], [some 2, some 1], [some 2, some 2]] = [1, 1] := by
  decide +kernel

/-- non-vacuity: a tag set with negative values (compare path) -/
example :
    let c : TCfg := { tags := [-2, 0, 3], tagW := 3, w := 4 }
    c.oneHot = false ∧ c.run c.init [[some (-2), some 3], [some (-2), some 1], [none, some 0]] = [2, 1, 1] := by
  decide +kernel

/-- non-vacuity: a single bucket counts the samples 0, 1, 5 (the former F4 witness) -/
example :
    let c : HCfg := { n := 1, sw := 3, rw := 4 }
    (c.run c.init [[some 0], [some 1], [some 5], [none]]).buckets = [3] := by
  decide +kernel

/-- non-vacuity: 4 buckets, 3-bit samples, 2-bit registers (count wraps), two ways -/
example :
    let c : HCfg := { n := 4, sw := 3, rw := 2 }
    let h := [[some 5, some 0], [none, some 1], [some 7, some 2], [some 3, none]]
    (∀ x ∈ samples h, x < 2 ^ c.sw) ∧
    c.run c.init h = { count := 2, sum := 2, min := 0, max := 7, buckets := [1, 1, 2, 2] } := by
  decide +kernel

end TxV.Metrics

#print axioms TxV.Metrics.c31_counter
#print axioms TxV.Metrics.c31_tagged
#print axioms TxV.Metrics.c31_tagged_other
#print axioms TxV.Metrics.c31_hist_count_sum
#print axioms TxV.Metrics.c31_hist_min_max
#print axioms TxV.Metrics.c31_hist_buckets
#print axioms TxV.Metrics.c31_hist_bucket_log2
#print axioms TxV.Metrics.c31_hist_one_bucket
