import TxV.Proofs.Stream
/-!
# C29 — stream adapters obey the ready/valid protocol

"StreamSource keeps valid asserted and the payload stable until the consumer accepts it and
emits every written item exactly once in order; StreamSink.read is ready iff valid and
consumes exactly the transferred payload, while peek never consumes; StreamModuleWrapper
therefore preserves the wrapped module's stream semantics."

All theorems are for every history of write/read/peek attempts and of the plain
`ready`/`valid`/`payload` wires (consumer and producer are unconstrained), from reset.
A *transfer* is a cycle with `valid ∧ ready` (`Source.xfer`, `Sink.xfer`, `inXfer`, `outXfer`).
-/
namespace TxV.Stream

-- OBLIGATION c29_stable : StreamSource: valid ∧ ¬ready in a cycle → valid and the same payload in the next cycle (one step, every state and input; and along every run, `stableTrace`), and no write executes in such a cycle
theorem c29_stable :
    (∀ (s : Source.State) (i : Source.In), s.valid = true → i.ready = false →
        (Source.step s i).1.valid = true ∧ (Source.step s i).1.payload = s.payload ∧
        (Source.step s i).2.written = none) ∧
    (∀ is : List Source.In, Source.stableTrace (Source.run Source.init is).2) :=
  ⟨Source.step_stable, Source.run_stable Source.init⟩

-- OBLIGATION c29_once_in_order : StreamSource: along every history the list of executed writes equals the list of transferred payloads followed by the (at most one) item still held in the register - every written item is emitted exactly once, in order
theorem c29_once_in_order (is : List Source.In) :
    (Source.run Source.init is).2.filterMap (·.written)
      = (Source.run Source.init is).2.filterMap Source.xfer
          ++ Source.pending (Source.run Source.init is).1 := by
  simpa [Source.pending, Source.init] using Source.run_account Source.init is

-- OBLIGATION c29_write_ready : StreamSource.write is ready iff the register is empty or being emptied (¬valid ∨ ready), executes iff attempted and ready; the outputs valid/payload are the registers
theorem c29_write_ready (s : Source.State) (i : Source.In) :
    (Source.step s i).2.wready = (!s.valid || i.ready) ∧
    ((Source.step s i).2.written = if (!s.valid || i.ready) then i.write else none) ∧
    (Source.step s i).2.valid = s.valid ∧ (Source.step s i).2.payload = s.payload := by
  simp [Source.step]

-- OBLIGATION c29_sink_read : StreamSink.read executes iff attempted and valid (ready iff valid), returns the payload, drives i.ready exactly when it executes; hence a transfer (valid ∧ ready) happens iff read executes and the value read is the transferred payload
theorem c29_sink_read (i : Sink.In) :
    ((Sink.step i).read.isSome = (i.read && i.valid)) ∧
    ((Sink.step i).ready = (Sink.step i).read.isSome) ∧
    (∀ d, (Sink.step i).read = some d → d = i.payload) ∧
    Sink.xfer i (Sink.step i) = (Sink.step i).read := by
  refine ⟨?_, ?_, ?_, Sink.xfer_eq_read i⟩
  · simp only [Sink.step]; cases i.read <;> cases i.valid <;> simp
  · simp only [Sink.step]; cases i.read <;> cases i.valid <;> simp
  · intro d h
    simp only [Sink.step] at h
    split at h
    · exact (Option.some.inj h).symm
    · cases h

-- OBLIGATION c29_sink_peek : StreamSink.peek executes iff attempted and valid and returns the payload, but never consumes: i.ready and the result of read do not depend on peek, and without a read attempt i.ready is 0
theorem c29_sink_peek (i : Sink.In) :
    ((Sink.step i).peek = if i.peek && i.valid then some i.payload else none) ∧
    (∀ b, (Sink.step { i with peek := b }).ready = (Sink.step i).ready ∧
          (Sink.step { i with peek := b }).read = (Sink.step i).read) ∧
    (i.read = false → (Sink.step i).ready = false) := by
  refine ⟨rfl, fun b => ⟨rfl, rfl⟩, ?_⟩
  intro h
  simp [Sink.step, h]

-- OBLIGATION c29_sink_history : StreamSink: along every history the list of values returned by executed reads is the list of transferred payloads (exactly the transferred items are consumed, in order)
theorem c29_sink_history (is : List Sink.In) :
    (is.map Sink.step).filterMap (·.read) = is.filterMap (fun i => Sink.xfer i (Sink.step i)) := by
  induction is with
  | nil => rfl
  | cons i is ih => simp only [List.map_cons, List.filterMap_cons, Sink.xfer_eq_read, ih]

-- OBLIGATION c29_sink_two_callers : StreamSink.read is exclusive: with two transactions attempting read (and two attempting peek) in one cycle, every transferred payload is delivered to exactly one read caller (the deliveries of both callers together = the handshake of the cycle), whichever caller has priority; both peek callers may see the head
theorem c29_sink_two_callers (prio1 : Bool) (i : Sink.In2) :
    let o := Sink.step2 prio1 i
    optList o.r0 ++ optList o.r1
      = optList (if i.valid && o.ready then some i.payload else none) ∧
    (o.ready = ((i.r0 || i.r1) && i.valid)) ∧
    (o.k0 = if i.k0 && i.valid then some i.payload else none) ∧
    (o.k1 = if i.k1 && i.valid then some i.payload else none) := by
  obtain ⟨v, p, r0, r1, k0, k1⟩ := i
  cases prio1 <;> cases v <;> cases r0 <;> cases r1 <;> cases k0 <;> cases k1 <;>
    simp [Sink.step2, Sink.step, grant, deliver, optList]

-- OBLIGATION c29_one_writer : StreamSource.write / wrapper.write are exclusive: of two callers attempting in one cycle exactly the one with priority is granted, so at most one item is accepted per cycle
theorem c29_one_writer (prio1 : Bool) (a0 a1 : Option Nat) :
    (pickArg prio1 a0 a1 = a0 ∨ pickArg prio1 a0 a1 = a1) ∧
    ((pickArg prio1 a0 a1).isSome = (a0.isSome || a1.isSome)) := by
  cases prio1 <;> cases a0 <;> cases a1 <;> simp [pickArg, grant]

-- OBLIGATION c29_wrapper_ports : StreamModuleWrapper around an ARBITRARY module M: executed writes = transfers into M.i followed by the item pending in the source; values read = transfers out of M.o; M.i sees a protocol-respecting producer; and the port trace is a trace of M alone against that environment
theorem c29_wrapper_ports {σ : Type} (M : Mod σ) (is : List Wrapper.In) :
    let r := Wrapper.run M (Wrapper.init M) is
    let ports := r.2.map (·.port)
    r.2.filterMap (·.written) = ports.filterMap inXfer ++ Source.pending r.1.src ∧
    r.2.filterMap (·.read) = ports.filterMap outXfer ∧
    legalProducer ports ∧
    ports = M.trace M.init (ports.map envOf) := by
  intro r ports
  refine ⟨?_, ?_, Wrapper.run_legal M _ is, Wrapper.run_is_mod_trace M _ is⟩
  · have := Wrapper.run_account M (Wrapper.init M) is
    simpa [Source.pending, Wrapper.init, Source.init, List.filterMap_map, Function.comp_def, r, ports] using this
  · have := Wrapper.run_reads M (Wrapper.init M) is
    simpa [List.filterMap_map, Function.comp_def, r, ports] using this

-- OBLIGATION c29_wrapper_preserves : composition lemma: if the module M is stream-correct w.r.t. ANY relation Spec between its input-transfer and output-transfer sequences (for every environment with a protocol-respecting producer and arbitrary consumer), then the wrapper's methods satisfy Spec between the accepted writes (all executed writes except the at most one still pending in the source) and the values returned by read
theorem c29_wrapper_preserves {σ : Type} (M : Mod σ) (Spec : List Nat → List Nat → Prop)
    (hM : ∀ env, legalProducer (M.trace M.init env) →
            Spec ((M.trace M.init env).filterMap inXfer) ((M.trace M.init env).filterMap outXfer))
    (is : List Wrapper.In) :
    let r := Wrapper.run M (Wrapper.init M) is
    ∃ accepted, r.2.filterMap (·.written) = accepted ++ Source.pending r.1.src ∧
      (Source.pending r.1.src).length ≤ 1 ∧
      Spec accepted (r.2.filterMap (·.read)) := by
  intro r
  have h := c29_wrapper_ports M is
  obtain ⟨hw, hr, hl, ht⟩ := h
  refine ⟨_, hw, ?_, ?_⟩
  · unfold Source.pending; split <;> simp
  · rw [hr]
    have := hM _ (ht ▸ hl)
    rwa [← ht] at this

/-- non-vacuity (source): consumer ready toggling; writes 1,2,3 attempted every cycle -/
example :
    let is : List Source.In := [⟨some 1, false⟩, ⟨some 2, false⟩, ⟨some 2, true⟩, ⟨some 3, false⟩, ⟨some 4, true⟩]
    (Source.run Source.init is).2.filterMap (·.written) = [1, 2, 4] ∧
    (Source.run Source.init is).2.filterMap Source.xfer = [1, 2] ∧
    Source.pending (Source.run Source.init is).1 = [4] := by
  decide

/-- non-vacuity (wrapper): the register-stage module `regMod 8 1` satisfies the hypothesis
    shape on a concrete run: reads are the writes plus one, in order -/
example :
    let is : List Wrapper.In := [⟨some 5, true⟩, ⟨some 6, false⟩, ⟨some 7, true⟩, ⟨some 8, true⟩, ⟨none, true⟩, ⟨none, true⟩]
    let r := Wrapper.run (regMod 8 1) (Wrapper.init (regMod 8 1)) is
    r.2.filterMap (·.written) = [5, 6, 7, 8] ∧ r.2.filterMap (·.read) = [6, 7, 8, 9] := by
  decide

/-- non-vacuity (composition lemma): the pass-through module meets the hypothesis of
    `c29_wrapper_preserves` with `Spec ins outs := outs = ins.map (· + k mod 2^w)` -/
example (w k : Nat) (is : List Wrapper.In) :
    let r := Wrapper.run (passMod w k) (Wrapper.init (passMod w k)) is
    ∃ accepted, r.2.filterMap (·.written) = accepted ++ Source.pending r.1.src ∧
      (Source.pending r.1.src).length ≤ 1 ∧
      r.2.filterMap (·.read) = accepted.map (fun x => (x + k) % 2 ^ w) :=
  c29_wrapper_preserves (passMod w k) (fun ins outs => outs = ins.map (fun x => (x + k) % 2 ^ w))
    (fun env _ => passMod_spec w k () env) is

end TxV.Stream

#print axioms TxV.Stream.c29_stable
#print axioms TxV.Stream.c29_once_in_order
#print axioms TxV.Stream.c29_write_ready
#print axioms TxV.Stream.c29_sink_read
#print axioms TxV.Stream.c29_sink_peek
#print axioms TxV.Stream.c29_sink_history
#print axioms TxV.Stream.c29_sink_two_callers
#print axioms TxV.Stream.c29_one_writer
#print axioms TxV.Stream.c29_wrapper_ports
#print axioms TxV.Stream.c29_wrapper_preserves
