import TxV.Proofs.WideFifo
/-!
# C15 — WideFifo behaves as a bounded queue with batched operations

"For every sequence of calls, WideFifo.read(count) removes and returns the min(count, level,
read_width) oldest elements, peek returns the same elements without removing them,
write(count) appends the first count data elements, write is ready only when space remains
and accepts a call only if it fits (count, or max_count when configured), and clear empties
the queue."  — for every call history and every (depth, read_width, write_width,
write_max_count) configuration.

Setting.  `c.WF`: the configurations the constructor accepts (`max(rw, ww)` divides `depth`)
with `depth > 0` and at least one column.  `i.WF c`: the arguments of an attempted `write`
are in the range of the method's layout (`data` has `write_width` words, `count ≤
write_width`) and respect the component's documented contract `count ≤ max_count`
(`write_max_count` only; asserted at fifo.py:331).  `Reachable c s`: `s` is reached from reset
by any history of such inputs.  `abs c s` is the queue content of a state: `level` cells
starting at the linear position `read_idx.row * col_count + read_idx.col`, modulo the
capacity, cell `p` being row `p / col_count` of column memory `p % col_count`.

The model (`TxV/Model/WideFifo.lean`) contains the whole data path: per-column memories,
write-enable and data rotation by `write_idx.col`, port addressing by row / next row,
transparent synchronous read ports and the rotation of their registers by `read_idx.col`;
the theorems below are about that model, not about a storage abstraction.
-/
namespace TxV.WideFifo

-- OBLIGATION c15_refines : every sentence at once — for every accepted configuration and every history of well-formed calls from reset, the executed calls, the returned elements and the queue content are those of the List queue `Spec` (read removes, then write appends, then clear empties; all decisions on the queue at the beginning of the cycle)
theorem c15_refines {c : Cfg} (h : c.WF) (is : List In) (hwf : ∀ i ∈ is, i.WF c) :
    (run c (init c) is).2.map Out.abs = (Spec.run c [] is).2 ∧
    abs c (run c (init c) is).1 = (Spec.run c [] is).1 := by
  have := run_refines h is (inv_init h) hwf
  rw [abs_init] at this
  exact ⟨this.2.2, this.2.1⟩

-- OBLIGATION c15_read : read(n) executes iff the queue is non-empty; it returns count = min(n, level, read_width) and, in the first count data words, the count oldest elements; afterwards (no clear) exactly these are removed from the front (every reachable state, whatever else is called in the cycle)
theorem c15_read {c : Cfg} (h : c.WF) {s : State} (hs : Reachable c s) {i : In} (hi : i.WF c) {n : Nat}
    (hn : i.read = some n) :
    (abs c s = [] → (step c s i).2.read = none) ∧
    (abs c s ≠ [] → ∃ r, (step c s i).2.read = some r ∧
        r.count = min n (min (abs c s).length c.rw) ∧
        r.data.length = c.rw ∧
        r.data.take r.count = (abs c s).take r.count ∧
        (i.clear = false →
          abs c (step c s i).1 = (abs c s).drop r.count ++ Spec.written c (abs c s) i)) := by
  have hI := hs.inv h
  have hrc : readCount c s i = min n (min s.level c.rw) := by rw [readCount_eq, hn]
  constructor
  · intro he
    have h0 : s.level = 0 := by have := abs_length c s; rw [he] at this; simpa using this.symm
    simp [step, readRuns, readReady, h0]
  · intro hne
    have h0 : s.level ≠ 0 := by
      intro h0; apply hne; apply List.eq_nil_of_length_eq_zero; rw [abs_length]; exact h0
    obtain ⟨r1, r2⟩ := readCount_le c s i
    refine ⟨⟨readCount c s i, head c s⟩, ?_, ?_, head_length hI, head_take h hI r1 r2, ?_⟩
    · simp [step, readRuns, readReady, hn, h0]
    · simp only [abs_length]; exact hrc
    · intro hc
      rw [step_abs h hI hi, spec_written h hI]
      simp [hc]

-- OBLIGATION c15_peek : peek executes iff the queue is non-empty, returns count = min(level, read_width) and the same oldest elements a read would, and removes nothing: the next state does not depend on whether peek is called
theorem c15_peek {c : Cfg} (h : c.WF) {s : State} (hs : Reachable c s) (i : In) :
    ((step c s i).2.peek.isSome = (i.peek && !(abs c s).isEmpty)) ∧
    (∀ r, (step c s i).2.peek = some r →
        r.count = min (abs c s).length c.rw ∧ r.data.length = c.rw ∧
        r.data.take r.count = (abs c s).take r.count) ∧
    (step c s { i with peek := true }).1 = (step c s { i with peek := false }).1 := by
  have hI := hs.inv h
  have hpk : (step c s i).2.peek = if peekRuns c s i then some ⟨readAvail c s, head c s⟩ else none := rfl
  refine ⟨?_, ?_, ?_⟩
  · rw [isEmpty_abs, hpk]
    unfold peekRuns peekReady
    by_cases hp : i.peek = true <;> by_cases h0 : s.level = 0 <;> simp [hp, h0]
  · intro r hr
    rw [hpk] at hr
    by_cases hrun : peekRuns c s i = true
    · rw [if_pos hrun] at hr
      cases hr
      simp only [abs_length]
      have hra : readAvail c s = min s.level c.rw := by unfold readAvail; split <;> omega
      refine ⟨hra, head_length hI, ?_⟩
      rw [hra]
      exact head_take h hI (Nat.min_le_left _ _) (Nat.min_le_right _ _)
    · rw [if_neg hrun] at hr; cases hr
  · rfl

-- OBLIGATION c15_write : an executed write(count, data) appends exactly the first count data words behind the elements that stay queued (no clear in the cycle), and the queue never holds more than depth elements
theorem c15_write {c : Cfg} (h : c.WF) {s : State} (hs : Reachable c s) {i : In} (hi : i.WF c) {a : WArg}
    (ha : i.write = some a) (hrun : (step c s i).2.write = true) (hc : i.clear = false) :
    abs c (step c s i).1 = (abs c s).drop (Spec.readN c (abs c s) i) ++ a.data.take a.count ∧
    (abs c (step c s i).1).length ≤ c.depth := by
  have hI := hs.inv h
  have hrun' : writeRuns c s i = true := by simpa [step] using hrun
  constructor
  · rw [step_abs h hI hi, spec_readN]
    simp [hc, In.wdata, writeCount, ha, hrun']
  · have := (step_inv h hI hi).lvl
    rw [h.cap_eq] at this
    rw [abs_length]; exact this

-- OBLIGATION c15_write_accept : write is ready iff space remains (level < depth); an attempted write executes iff space remains and it fits — max_count ≤ remaining when write_max_count is configured, count ≤ remaining otherwise
theorem c15_write_accept {c : Cfg} (h : c.WF) {s : State} (hs : Reachable c s) (i : In) :
    (writeReady c s = true ↔ (abs c s).length < c.depth) ∧
    ((step c s i).2.write = true ↔
      ∃ a, i.write = some a ∧ c.depth - (abs c s).length ≠ 0 ∧
        (if c.useMax then a.maxCount else a.count) ≤ c.depth - (abs c s).length) := by
  have hI := hs.inv h
  have hl := hI.lvl
  rw [h.cap_eq] at hl
  have hrem : remaining c s = c.depth - s.level := by rw [remaining_eq hI.lvl, h.cap_eq]
  constructor
  · simp only [writeReady, hrem, abs_length, bne_iff_ne, ne_eq]; omega
  · simp only [step, writeRuns, writeReady, writeValid, hrem, abs_length]
    cases hw : i.write with
    | none => simp
    | some a => simp

-- OBLIGATION c15_clear : clear executes whenever it is called and empties the queue, whatever else is called in the same cycle
theorem c15_clear {c : Cfg} (s : State) {i : In} (hc : i.clear = true) :
    (step c s i).2.clear = true ∧ abs c (step c s i).1 = [] ∧ (step c s i).1.level = 0 := by
  rw [step_clear hc]
  simp [step, hc, abs]

-- OBLIGATION c15_order : first in, first out over whole histories — from reset and without clear, the elements returned by all reads so far followed by the queue content are exactly the elements of all executed writes, in order
theorem c15_order {c : Cfg} (h : c.WF) (is : List In) (hwf : ∀ i ∈ is, i.WF c) (hnc : ∀ i ∈ is, i.clear = false) :
    Spec.reads ((run c (init c) is).2.map Out.abs) ++ abs c (run c (init c) is).1 = Spec.writes c [] is := by
  obtain ⟨h1, h2⟩ := c15_refines h is hwf
  rw [h1, h2, Spec.fifo_order c is [] hnc]
  rfl

/-- non-vacuity: depth 6, read_width 2, write_width 3 (3 columns × 2 rows), `write_max_count` configured; the
    history reads and writes in the same cycle, has a write refused because of `max_count`, wraps both pointers,
    clamps a read to `read_width` and clears -/
def exCfg : Cfg := ⟨6, 2, 3, true⟩
def exHist : List In :=
  [ ⟨none, false, some ⟨3, 3, [1, 2, 3]⟩, false⟩,
    ⟨some 2, true, some ⟨2, 3, [4, 5, 6]⟩, false⟩,
    ⟨some 1, true, some ⟨2, 2, [7, 8, 9]⟩, false⟩,
    ⟨some 2, true, some ⟨1, 3, [10, 11, 12]⟩, false⟩,
    ⟨some 2, true, some ⟨3, 3, [13, 14, 15]⟩, false⟩,
    ⟨some 3, true, some ⟨1, 1, [16, 17, 18]⟩, false⟩,
    ⟨some 2, true, none, true⟩,
    ⟨some 2, true, some ⟨1, 1, [19, 20, 21]⟩, false⟩ ]

example : exCfg.WF := ⟨by decide, by decide, by decide⟩
example : ∀ i ∈ exHist, i.WF exCfg := fun i hi => In.WF_of_wfb ((by decide : ∀ i ∈ exHist, i.wfb exCfg = true) i hi)
example :
    (run exCfg (init exCfg) exHist).2.map Out.abs =
      [ ⟨none, none, true, false⟩,
        ⟨some [1, 2], some [1, 2], true, false⟩,
        ⟨some [3], some [3, 4], true, false⟩,
        ⟨some [4, 5], some [4, 5], false, false⟩,       -- count = 1 would fit into 2 free slots, max_count = 3 does not
        ⟨some [7, 8], some [7, 8], true, false⟩,
        ⟨some [13, 14], some [13, 14], true, false⟩,    -- read(3) clamped to read_width = 2; both pointers have wrapped
        ⟨some [15, 16], some [15, 16], false, true⟩,
        ⟨none, none, true, false⟩ ] ∧
    abs exCfg (run exCfg (init exCfg) exHist).1 = [19] := by
  decide

end TxV.WideFifo

#print axioms TxV.WideFifo.c15_refines
#print axioms TxV.WideFifo.c15_read
#print axioms TxV.WideFifo.c15_peek
#print axioms TxV.WideFifo.c15_write
#print axioms TxV.WideFifo.c15_write_accept
#print axioms TxV.WideFifo.c15_clear
#print axioms TxV.WideFifo.c15_order
