import TxV.Core.Example2
/-!
# C03 — a transaction runs only when it is fully enabled

"A transaction runs only in cycles where it is ready, every method in its static call tree is ready
(even calls under false conditions or with enable_call false), every validate_arguments predicate
holds for the arguments of its active calls, and every body it is ready-dependent on (the enclosing
body of a nested transaction or method, or the source of schedule_before(ready_dependent=True))
runs in the same cycle."

`Grants D v run` : a granted transaction satisfies `ready ∧ Runnable` — true of both schedulers
(`Eager.grants`; first component of `RoundRobin`).  `Reaches D t m` is the static call tree (no
valuation involved).  `ReadyDep D p b` : `p` carries a `ready_dependent` relation ending in `b`;
nesting creates exactly such a relation (body.py:94 `parent.schedule_before(self,
ready_dependent=True)`), so both cases of the sentence are this one predicate.
-/
namespace TxV.Core

variable {D : Design} {v : Val} {S : Sched} {run : Nat → Bool}

-- OBLIGATION c03_run_requires : whole statement, both schedulers (hypothesis Grants is proved from either scheduler's equations: c03_grants_eager, c03_grants_rr; those equations are driver-checked per valuation): a running transaction is ready ∧ every method of its static call tree is ready ∧ every validation term (manager.py:531-537) of a reached method with validate_arguments holds ∧ every ready-dependency source of the transaction or of a reached method runs
theorem c03_run_requires (hg : Grants D v run) {t : Nat} (ht : D.isTrans t = true) (hr : run t = true) :
    v.ready t = true ∧
    (∀ m, Reaches D t m → v.ready m = true) ∧
    (∀ m, Reaches D t m → (D.body m).hasValidate = true → validTerm D v t m = true) ∧
    (∀ b, (b = t ∨ Reaches D t b) → ∀ d, ReadyDep D d b → run d = true) :=
  run_requires hg ht hr

-- OBLIGATION c03_grants_eager : the hypothesis Grants holds for every solution of the eager scheduler equations
theorem c03_grants_eager (he : Eager D v S run) : Grants D v run := he.grants

-- OBLIGATION c03_grants_rr : the hypothesis Grants holds for the round-robin abstraction (run = grant & valid, grant only to requesters)
theorem c03_grants_rr {comp : Nat → Nat} (he : RoundRobin D v comp run) : Grants D v run := he.1

-- OBLIGATION c03_disabled_call_locks : "even calls under false conditions or with enable_call false": a call of the transaction whose enable is 0 still requires its callee to be ready
theorem c03_disabled_call_locks (hg : Grants D v run) {t : Nat} (ht : D.isTrans t = true)
    (hr : run t = true) {c : Call} (hc : c ∈ (D.body t).calls) (hdis : v.en c.site = false) :
    v.ready c.callee = true :=
  disabled_call_locks hg ht hr hc hdis

-- OBLIGATION c03_validate_nonexclusive : validation, nonexclusive callee (under hypothesis Bounded, proved from the executable validateAll: Bridge.validateAll_sound): the predicate holds for the argument of every enabled call chain of the running transaction
theorem c03_validate_nonexclusive (hb : Bounded D) (hg : Grants D v run) {t m : Nat}
    (ht : D.isTrans t = true) (hr : run t = true) (hne : D.nonexcl m = true)
    (hv : (D.body m).hasValidate = true) {ch : List Call} (hc : IsChain D t ch)
    (htg : target ch = some m) (he : chainEn v ch = true) : v.pred m (argOf v ch) = true :=
  validTerm_nonexclusive hb hne ((run_requires hg ht hr).2.2.1 m ⟨ch, hc, htg⟩ hv) hc htg he

-- OBLIGATION c03_validate_exclusive : validation, exclusive callee (under hypothesis Accepted (proved from the executable elaborate: Bridge.elaborate_static) and driver-checked per-cycle hypotheses ExclSem): the predicate holds for the argument of the (unique) enabled call chain — the one-hot multiplexer of manager.py:536 delivers exactly that argument (any number of call chains)
theorem c03_validate_exclusive (hA : Accepted D S) (hs : ExclSem D v) (hg : Grants D v run) {t m : Nat}
    (ht : D.isTrans t = true) (hr : run t = true) (hne : D.nonexcl m = false)
    (hv : (D.body m).hasValidate = true) {ch : List Call} (hc : IsChain D t ch)
    (htg : target ch = some m) (he : chainEn v ch = true) : v.pred m (argOf v ch) = true :=
  validTerm_exclusive hA.bounded (hA.validRoot t) hs hne
    ((run_requires hg ht hr).2.2.1 m ⟨ch, hc, htg⟩ hv) hc htg he

/-- non-vacuity: in the example cycle `T2` runs; its static call tree contains `M4` through two
calls one of which is disabled (site 4, `Else` branch); `M3` (reached by the running `T0`) has a
validator -/
example : grantsB Ex.D Ex.v Ex.run = true ∧ boundedB Ex.D = true ∧ Ex.run 2 = true ∧ Ex.v.en 4 = false ∧
    reachesB Ex.D 2 4 = true ∧ (Ex.D.body 3).hasValidate = true ∧ reachesB Ex.D 0 3 = true :=
  ⟨Ex.grants, Ex.bounded, rfl, rfl, by decide, rfl, by decide⟩

end TxV.Core

#print axioms TxV.Core.c03_run_requires
#print axioms TxV.Core.c03_grants_eager
#print axioms TxV.Core.c03_grants_rr
#print axioms TxV.Core.c03_disabled_call_locks
#print axioms TxV.Core.c03_validate_nonexclusive
#print axioms TxV.Core.c03_validate_exclusive
