import TxV.Proofs.BasicIO
/-!
# C30 — InputSampler and OutputBuffer follow their trigger

"For every trigger/data history and every edge/polarity/synchronize setting,
InputSampler.get and OutputBuffer.put are ready exactly in the cycles where the (optionally
synchronised) trigger is active at the configured level or has the configured edge relative
to the previous cycle; get returns the correspondingly synchronised data and put drives its
argument on data from the next cycle."

Histories are functions `Nat → _` of the cycle number (all cycles `t`, all histories, all
eight configurations `c : Cfg`).  `active c trig t` (Proofs/BasicIO.lean) is the property's
predicate: with `e = trig` or `e = trig` one cycle late (`synchronize`, value 0 before reset),
level: `e t = polarity`; edge: `e t = polarity ∧ e (t-1) ≠ polarity` (`e (-1) = 0`).
`Sampler.outAt c e t` / `OutBuf.outAt c e t` are the model's outputs in cycle `t` when run
from reset against the environment `e`.
-/
namespace TxV.BasicIO

-- OBLIGATION c30_get_ready : InputSampler.get is ready in cycle t iff the (optionally synchronised) trigger is active at the configured level / has the configured edge (all 8 settings, all histories, all t); get executes iff attempted and ready
theorem c30_get_ready (c : Cfg) (e : Sampler.Env) (t : Nat) :
    (Sampler.outAt c e t).ready = active c e.trig t ∧
    ((Sampler.outAt c e t).get.isSome = (e.get t && active c e.trig t)) := by
  have h := (Sampler.state_eq c e t).1
  have hr := tready_eq c e.trig t
  simp only [Sampler.outAt, Sampler.step, Sampler.Env.at, h, hr]
  cases e.get t <;> cases active c e.trig t <;> simp

-- OBLIGATION c30_put_ready : OutputBuffer.put is ready in cycle t iff the (optionally synchronised) trigger is active / has the configured edge (all 8 settings, all histories, all t); put executes iff attempted and ready
theorem c30_put_ready (c : Cfg) (e : OutBuf.Env) (t : Nat) :
    (OutBuf.outAt c e t).ready = active c e.trig t ∧
    ((OutBuf.outAt c e t).put = ((e.put t).isSome && active c e.trig t)) := by
  have h := OutBuf.state_eq c e t
  have hr := tready_eq c e.trig t
  simp only [OutBuf.outAt, OutBuf.step, OutBuf.Env.at, h, hr]
  simp

-- OBLIGATION c30_table : the finite table: `active` written out for each of the eight (edge, polarity, synchronize) settings (p = trigger one cycle late, pp = two cycles late, 0 before reset)
theorem c30_table (trig : Nat → Bool) (t : Nat) :
    let p := delayed trig false
    let pp := delayed p false
    active ⟨false, true, false⟩ trig t = trig t ∧
    active ⟨false, false, false⟩ trig t = !trig t ∧
    active ⟨false, true, true⟩ trig t = p t ∧
    active ⟨false, false, true⟩ trig t = !p t ∧
    active ⟨true, true, false⟩ trig t = (trig t && !p t) ∧
    active ⟨true, false, false⟩ trig t = (!trig t && p t) ∧
    active ⟨true, true, true⟩ trig t = (p t && !pp t) ∧
    active ⟨true, false, true⟩ trig t = (!p t && pp t) := by
  simp only [active, eff]
  refine ⟨?_, ?_, ?_, ?_, ?_, ?_, ?_, ?_⟩ <;> simp [bne] <;>
    (first | (cases trig t <;> cases delayed trig false t <;> rfl)
           | (cases delayed trig false t <;> cases delayed (delayed trig false) false t <;> rfl))

-- OBLIGATION c30_get_data : when get executes in cycle t it returns the data input of cycle t (no synchroniser) or of cycle t-1 (synchronize; 0 in the first cycle after reset)
theorem c30_get_data (c : Cfg) (e : Sampler.Env) (t d : Nat)
    (h : (Sampler.outAt c e t).get = some d) :
    d = if c.sync then delayed e.data 0 t else e.data t := by
  have hs := (Sampler.state_eq c e t).2
  simp only [Sampler.outAt, Sampler.step, Sampler.dataNow, Sampler.Env.at, hs] at h
  split at h
  · exact (Option.some.inj h).symm
  · cases h

-- OBLIGATION c30_put_next_cycle : a put executed in cycle t with argument v makes data = v in cycle t+1, and data keeps that value up to and including cycle u+1 for every u ≥ t such that no put executes in cycles t+1..u; data is 0 until the first executed put
theorem c30_put_next_cycle (c : Cfg) (e : OutBuf.Env) (t v : Nat)
    (hv : e.put t = some v) (hp : (OutBuf.outAt c e t).put = true) :
    (OutBuf.outAt c e (t + 1)).data = v ∧
    ∀ n, (∀ k, k < n → (OutBuf.outAt c e (t + 1 + k)).put = false) →
      (OutBuf.outAt c e (t + 1 + n)).data = v := by
  have h1 := OutBuf.data_succ_put c e t v hv hp
  refine ⟨h1, ?_⟩
  intro n
  induction n with
  | zero => intro _; simpa using h1
  | succ n ih =>
    intro hk
    have := OutBuf.data_succ_hold c e (t + 1 + n) (hk n (Nat.lt_succ_self n))
    rw [← Nat.add_assoc, this]
    exact ih (fun k hkn => hk k (Nat.lt_succ_of_lt hkn))

-- OBLIGATION c30_put_initial : before the first executed put the data output holds its reset value 0
theorem c30_put_initial (c : Cfg) (e : OutBuf.Env) (n : Nat)
    (hk : ∀ k, k < n → (OutBuf.outAt c e k).put = false) : (OutBuf.outAt c e n).data = 0 := by
  induction n with
  | zero => rfl
  | succ n ih =>
    rw [OutBuf.data_succ_hold c e n (hk n (Nat.lt_succ_self n))]
    exact ih (fun k hkn => hk k (Nat.lt_succ_of_lt hkn))

-- OBLIGATION c30_run : the list-based `run` (what the driver executes from reset) produces exactly the per-cycle outputs `outAt` the theorems above speak about
theorem c30_run (c : Cfg) (n : Nat) :
    (∀ e : Sampler.Env, (Sampler.run c (Sampler.init c) ((List.range n).map e.at)).2
        = (List.range n).map (Sampler.outAt c e)) ∧
    (∀ e : OutBuf.Env, (OutBuf.run c (OutBuf.init c) ((List.range n).map e.at)).2
        = (List.range n).map (OutBuf.outAt c e)) := by
  constructor
  · intro e
    have := Sampler.run_eq c e 0 n
    rw [List.range_eq_range']
    simpa [Sampler.stateAt] using congrArg Prod.snd this
  · intro e
    have := OutBuf.run_eq c e 0 n
    rw [List.range_eq_range']
    simpa [OutBuf.stateAt] using congrArg Prod.snd this

/-- non-vacuity: a falling-edge synchronised sampler on the trigger 1,1,0,0,1,0 is ready exactly
    in cycle 3 and 6 (edge seen one cycle late), and returns the data of the previous cycle -/
example :
    let e : Sampler.Env := { trig := fun t => [true, true, false, false, true, false].getD t false,
                             data := fun t => 10 + t, get := fun _ => true }
    (List.range 8).map (fun t => (Sampler.outAt ⟨true, false, true⟩ e t).get)
      = [none, none, none, some 12, none, none, some 15, none] := by
  decide

/-- non-vacuity: a level-high output buffer; puts attempted every cycle execute only when the
    trigger is high and show on `data` from the next cycle on -/
example :
    let e : OutBuf.Env := { trig := fun t => [false, true, false, false, true].getD t false,
                            put := fun t => some (7 + t) }
    (List.range 7).map (fun t => (OutBuf.outAt ⟨false, true, false⟩ e t).data)
      = [0, 0, 8, 8, 8, 11, 11] := by
  decide

end TxV.BasicIO

#print axioms TxV.BasicIO.c30_get_ready
#print axioms TxV.BasicIO.c30_put_ready
#print axioms TxV.BasicIO.c30_table
#print axioms TxV.BasicIO.c30_get_data
#print axioms TxV.BasicIO.c30_put_next_cycle
#print axioms TxV.BasicIO.c30_put_initial
#print axioms TxV.BasicIO.c30_run
