import TxV.Proofs.AsyncMemoryBank
/-!
# C22 — AsyncMemoryBank reads current contents

"For every call history without same-row simultaneous writes, AsyncMemoryBank.read returns
the contents written by the latest completed write to that address (writes become visible
in the next cycle), for every port count and granularity."

All theorems are for every depth, every word geometry (`n` chunks of `g ≥ 1` bits; a bank
without granularity is `n = 1` with the enable always 1), any number of read and write
ports (the lengths of the lists in `In`), and every history from the reset state.
"The contents written by the latest completed write" is stated bit by bit, because with
granularity a write only replaces the chunks it enables: `latestBit c hist.reverse a b` is
bit `b` of the data of the newest earlier cycle's write to row `a` whose mask covers the
chunk of `b`, and `false` if there is none (rows are initialised to 0).
-/
namespace TxV.AsyncMemoryBank
open TxV.BankMem

-- OBLIGATION c22_read_latest : every executed read (any port k, any in-range address, after any history hist with distinct write rows per cycle) returns the word whose every bit is the bit written by the latest completed write covering it (0 if never written); all depths, port counts, granularities
theorem c22_read_latest (c : Cfg) (hg : 0 < c.g) (hist : List In) (i : In) (k a : Nat)
    (hd : DistinctWriteRows hist) (ha : a < c.depth) (hr : i.reads[k]? = some (some a)) :
    ∃ v, (step c (run c (init c) hist).1 i).2.reads[k]? = some (some v) ∧
      ∀ b, v.testBit b = latestBit c hist.reverse a b := by
  refine ⟨rd (run c (init c) hist).1.mem a, ?_, ?_⟩
  · simp [step, hr]
  · intro b
    have := run_bit c hg (init c) hist a b (by simp [init]; exact ha) hd
    rw [this, rd_init]
    simp [latestBit]

-- OBLIGATION c22_next_cycle : writes become visible in the next cycle - what the reads of a cycle return does not depend on the writes attempted in that cycle
theorem c22_next_cycle (c : Cfg) (s : State) (rs : List (Option Nat)) (ws ws' : List (Option Wr)) :
    (step c s ⟨rs, ws⟩).2.reads = (step c s ⟨rs, ws'⟩).2.reads := by
  simp [step]

-- OBLIGATION c22_always_ready : every attempted read and write executes (no readiness conditions, no conflicts), for every port count
theorem c22_always_ready (c : Cfg) (s : State) (i : In) :
    (step c s i).2.reads.map Option.isSome = i.reads.map Option.isSome ∧
    (step c s i).2.writes = i.writes.map Option.isSome := by
  simp [step, List.map_map, Function.comp_def]

-- OBLIGATION c22_ports_agree : two read ports reading the same address in the same cycle return the same word (for every port count; the result does not depend on the port)
theorem c22_ports_agree (c : Cfg) (s : State) (i : In) (k k' a : Nat)
    (hk : i.reads[k]? = some (some a)) (hk' : i.reads[k']? = some (some a)) :
    (step c s i).2.reads[k]? = (step c s i).2.reads[k']? := by
  simp [step, hk, hk']

-- OBLIGATION c22_reads_pure : reads have no effect on the contents - the state after a cycle does not depend on the reads attempted in it
theorem c22_reads_pure (c : Cfg) (s : State) (rs rs' : List (Option Nat)) (ws : List (Option Wr)) :
    (step c s ⟨rs, ws⟩).1 = (step c s ⟨rs', ws⟩).1 := by
  simp [step]

-- OBLIGATION c22_idle_stable : a cycle without writes leaves every row unchanged, so a later read still returns the latest completed write
theorem c22_idle_stable (c : Cfg) (s : State) (rs : List (Option Nat)) (n : Nat) :
    (step c s ⟨rs, List.replicate n none⟩).1 = s := by
  induction n with
  | zero => simp [step, wrAll]
  | succ n ih =>
    simp only [step, List.replicate_succ] at ih ⊢
    simpa [wrAll, wrOpt] using ih

/-- non-vacuity: 2 read / 2 write ports, 2 chunks of 4 bits; a full write, then a partial write
    to the same row while another port writes a different row; the read sees 0xA5 ↦ 0xA7 -/
example :
    let c : Cfg := ⟨3, 4, 2⟩
    let hist : List In :=
      [⟨[some 1, none], [some ⟨1, 0xA5, 3⟩, none]⟩,
       ⟨[none, some 1], [some ⟨1, 0x37, 1⟩, some ⟨2, 0xFF, 3⟩]⟩]
    DistinctWriteRows hist ∧
    (step c (run c (init c) hist).1 ⟨[some 1, some 2], [some ⟨1, 0, 3⟩, none]⟩).2.reads = [some 0xA7, some 0xFF] ∧
    (run c (init c) hist).2.map (·.reads) = [[some 0, none], [none, some 0xA5]] := by
  decide

end TxV.AsyncMemoryBank

#print axioms TxV.AsyncMemoryBank.c22_read_latest
#print axioms TxV.AsyncMemoryBank.c22_next_cycle
#print axioms TxV.AsyncMemoryBank.c22_always_ready
#print axioms TxV.AsyncMemoryBank.c22_ports_agree
#print axioms TxV.AsyncMemoryBank.c22_reads_pure
#print axioms TxV.AsyncMemoryBank.c22_idle_stable
