import TxV.Proofs.CircAllocator
/-!
# C27 — CircularAllocator hands out identifiers in ring order

"For every call history, alloc(count) returns count consecutive identifiers (modulo entries)
starting right after the newest allocated one, free(count) returns the count oldest allocated
identifiers, the allocated count is tracked exactly, and with argument validation calls that would
overflow or underflow are never accepted."

All theorems hold for every `entries ≥ 1` (implied by `Inv`), every `max_alloc`, `max_free`
(no relation to `entries` required) and both values of `with_validate_arguments`.
`Inv c s` : `start, end < entries`, `allocated ≤ entries`, `end = (start + allocated) % entries`;
`abs c s` : the allocated identifiers, oldest first (`(start + k) % entries` for `k < allocated`).
`EnvOk` (environment hypothesis, on the calls that execute): `count ≤ max_alloc` / `max_free`
(the declared argument range), and — only when the component is built without validation —
`allocated + count ≤ entries` / `count ≤ allocated`.
-/
namespace TxV.CircAllocator

-- OBLIGATION c27_inv : every history from reset that meets the environment hypotheses keeps the registers well-formed (all entries, max_alloc, max_free, validation on/off)
theorem c27_inv (c : Cfg) (hn : 0 < c.n) (is : List In) (h : EnvOkRun c init is) :
    Inv c (run c init is).1 :=
  run_inv is init (inv_init c hn) h

-- OBLIGATION c27_alloc : an executed alloc(count) returns count consecutive identifiers modulo entries starting right after the newest allocated one (position start+allocated), and new_end_idx is the one after them
theorem c27_alloc (c : Cfg) (s : State) (i : In) (hI : Inv c s) (hE : EnvOk c s i)
    (cnt : Nat) (r : Res) (hi : i.alloc = some cnt) (ho : (step c s i).2.alloc = some r) :
    r.idents.take cnt = (List.range cnt).map (fun j => (s.start + s.allocated + j) % c.n) ∧
    r.next = (s.start + s.allocated + cnt) % c.n ∧ r.idents.length = c.ma := by
  have hR := envOk_runsOk hI.2.2.1 hE
  rw [step_out_alloc] at ho
  cases hr : allocRuns c s i.alloc with
  | none => rw [hr] at ho; cases ho
  | some cnt' =>
    have hc : cnt' = cnt := by
      have := (allocRuns_some hr).1; rw [hi] at this; cases this; rfl
    subst hc
    rw [hr] at ho
    simp only [Option.map_some, Option.some.injEq] at ho
    subst ho
    have ⟨h1, h2⟩ := hR.1 _ hr
    obtain ⟨hs, he, hc, hend⟩ := hI
    refine ⟨?_, ?_, result_length _ _ _ _⟩
    · rw [result_take c _ _ _ he h1 (by omega)]
      apply List.map_congr_left
      intro j _
      rw [hend, Nat.mod_add_mod]
    · rw [result_next c _ _ _ he h1 (by omega), hend, Nat.mod_add_mod]

-- OBLIGATION c27_alloc_fresh : the identifiers returned by an executed alloc are pairwise distinct and none of them is currently allocated
theorem c27_alloc_fresh (c : Cfg) (s : State) (i : In) (hI : Inv c s) (hE : EnvOk c s i)
    (cnt : Nat) (r : Res) (hi : i.alloc = some cnt) (ho : (step c s i).2.alloc = some r) :
    (abs c s ++ r.idents.take cnt).Nodup := by
  have hR := envOk_runsOk hI.2.2.1 hE
  have h := (c27_alloc c s i hI hE cnt r hi ho).1
  have hr : allocRuns c s i.alloc = some cnt := by
    rw [step_out_alloc] at ho
    cases hr : allocRuns c s i.alloc with
    | none => rw [hr] at ho; cases ho
    | some cnt' =>
      have := (allocRuns_some hr).1; rw [hi] at this; cases this; rfl
  have ⟨_, h2⟩ := hR.1 _ hr
  -- abs ++ new = abs of the state with `allocated + cnt`
  have := abs_update c s cnt 0 (Nat.zero_le _)
  simp only [Nat.add_zero, List.drop_zero, Nat.sub_zero] at this
  rw [h, ← this]
  exact abs_nodup c _ h2

-- OBLIGATION c27_free : an executed free(count) returns the count oldest allocated identifiers, and new_start_idx is the oldest remaining position
theorem c27_free (c : Cfg) (s : State) (i : In) (hI : Inv c s) (hE : EnvOk c s i)
    (cnt : Nat) (r : Res) (hi : i.free = some cnt) (ho : (step c s i).2.free = some r) :
    r.idents.take cnt = (abs c s).take cnt ∧ cnt ≤ (abs c s).length ∧
    r.next = (s.start + cnt) % c.n ∧ r.idents.length = c.mf := by
  have hR := envOk_runsOk hI.2.2.1 hE
  rw [step_out_free] at ho
  cases hr : freeRuns c s i.free with
  | none => rw [hr] at ho; cases ho
  | some cnt' =>
    have hc : cnt' = cnt := by
      have := (freeRuns_some hr).1; rw [hi] at this; cases this; rfl
    subst hc
    rw [hr] at ho
    simp only [Option.map_some, Option.some.injEq] at ho
    subst ho
    have ⟨h1, h2⟩ := hR.2 _ hr
    obtain ⟨hs, he, hc, hend⟩ := hI
    refine ⟨?_, by rw [abs_length]; exact h2, result_next c _ _ _ hs h1 (by omega), result_length _ _ _ _⟩
    rw [result_take c _ _ _ hs h1 (by omega), abs_take c s _ h2]

-- OBLIGATION c27_refines : one cycle acts on the queue of allocated identifiers as: clear empties it; otherwise the executed free drops its count oldest and the executed alloc appends the identifiers it returned (simultaneous alloc+free included)
theorem c27_refines (c : Cfg) (s : State) (i : In) (hI : Inv c s) (hE : EnvOk c s i) :
    abs c (step c s i).1 =
      if i.clear then []
      else (abs c s).drop (execCount i.free (step c s i).2.free) ++ allocated? i (step c s i).2 := by
  have hR := envOk_runsOk hI.2.2.1 hE
  cases hcl : i.clear with
  | true => simp [step_clear c s i hcl, abs, init]
  | false =>
    simp only [Bool.false_eq_true, if_false]
    rw [step_noclear hI hR hcl]
    have hf : (freeRuns c s i.free).getD 0 ≤ s.allocated := by
      cases hr : freeRuns c s i.free with
      | none => simp
      | some cnt => simpa using (hR.2 cnt hr).2
    rw [abs_update c s _ _ hf]
    congr 1
    · congr 1
      rw [step_out_free]
      cases hr : freeRuns c s i.free with
      | none => cases i.free <;> simp [execCount]
      | some cnt => rw [(freeRuns_some hr).1]; simp [execCount]
    · unfold allocated?
      cases hr : allocRuns c s i.alloc with
      | none => simp [step_out_alloc, hr]
      | some cnt =>
        have hi := (allocRuns_some hr).1
        have ho : (step c s i).2.alloc = some (result c s.end_ cnt c.ma) := by rw [step_out_alloc, hr]; rfl
        have := (c27_alloc c s i hI hE cnt _ hi ho).1
        rw [ho, hi]
        simp only [execCount, Option.getD_some]
        exact this.symm

-- OBLIGATION c27_count : the allocated register always equals the number of allocated identifiers: after a cycle it is 0 on clear, otherwise old count + executed alloc count − executed free count (no wrap-around of the counter)
theorem c27_count (c : Cfg) (s : State) (i : In) (hI : Inv c s) (hE : EnvOk c s i) :
    (step c s i).1.allocated =
      (if i.clear then 0
       else s.allocated + execCount i.alloc (step c s i).2.alloc - execCount i.free (step c s i).2.free) ∧
    execCount i.free (step c s i).2.free ≤ s.allocated ∧
    s.allocated + execCount i.alloc (step c s i).2.alloc ≤ c.n ∧
    (step c s i).1.allocated = (abs c (step c s i).1).length := by
  have hR := envOk_runsOk hI.2.2.1 hE
  have ea : execCount i.alloc (step c s i).2.alloc = (allocRuns c s i.alloc).getD 0 := by
    rw [step_out_alloc]
    cases hr : allocRuns c s i.alloc with
    | none => cases i.alloc <;> simp [execCount]
    | some cnt => rw [(allocRuns_some hr).1]; simp [execCount]
  have ef : execCount i.free (step c s i).2.free = (freeRuns c s i.free).getD 0 := by
    rw [step_out_free]
    cases hr : freeRuns c s i.free with
    | none => cases i.free <;> simp [execCount]
    | some cnt => rw [(freeRuns_some hr).1]; simp [execCount]
  have ha : s.allocated + (allocRuns c s i.alloc).getD 0 ≤ c.n := by
    cases hr : allocRuns c s i.alloc with
    | none => simp; exact hI.2.2.1
    | some cnt => simpa using (hR.1 cnt hr).2
  have hf : (freeRuns c s i.free).getD 0 ≤ s.allocated := by
    cases hr : freeRuns c s i.free with
    | none => simp
    | some cnt => simpa using (hR.2 cnt hr).2
  refine ⟨?_, by rw [ef]; exact hf, by rw [ea]; exact ha, (abs_length _ _).symm⟩
  cases hcl : i.clear with
  | true => simp [step_clear c s i hcl, init]
  | false => rw [step_noclear hI hR hcl, ea, ef]; simp

-- OBLIGATION c27_history : for every history from reset meeting the environment hypotheses, the queue rebuilt from the observations alone (returned identifiers, executed counts, clears) is exactly the allocated set in ring order held by the registers, and its length is the allocated register
theorem c27_history (c : Cfg) (hn : 0 < c.n) (is : List In) (h : EnvOkRun c init is) :
    abs c (run c init is).1 = replay [] (is.zip (run c init is).2) ∧
    (run c init is).1.allocated = (replay [] (is.zip (run c init is).2)).length := by
  have key : ∀ (is : List In) (s : State), Inv c s → EnvOkRun c s is →
      abs c (run c s is).1 = replay (abs c s) (is.zip (run c s is).2) := by
    intro is
    induction is with
    | nil => intro s _ _; rfl
    | cons i is ih =>
      intro s hI hE
      rw [run_cons]
      simp only [List.zip_cons_cons, replay]
      rw [ih _ (inv_step hI (envOk_runsOk hI.2.2.1 hE.1)) hE.2, c27_refines c s i hI hE.1, step_out_clear]
  have hk := key is init (inv_init c hn) h
  have h0 : abs c init = [] := by simp [abs, init]
  rw [h0] at hk
  exact ⟨hk, by rw [← hk, abs_length]⟩

-- OBLIGATION c27_validated_safe : with argument validation, whatever counts the caller passes (anything that fits the argument signal, even outside range(max+1)), a call that would overflow (allocated+count > entries) or underflow (count > allocated) is never accepted, and allocated ≤ entries is preserved
theorem c27_validated_safe (c : Cfg) (s : State) (i : In) (hv : c.validate = true) (hc : s.allocated ≤ c.n)
    (hfa : ∀ cnt, i.alloc = some cnt → cnt < 2 ^ bitsFor c.ma)
    (hff : ∀ cnt, i.free = some cnt → cnt < 2 ^ bitsFor c.mf) :
    (∀ cnt, i.alloc = some cnt → (step c s i).2.alloc ≠ none → s.allocated + cnt ≤ c.n) ∧
    (∀ cnt, i.free = some cnt → (step c s i).2.free ≠ none → cnt ≤ s.allocated) ∧
    (step c s i).1.allocated ≤ c.n := by
  have small : ∀ m cnt, ¬ 1 < m → cnt < 2 ^ bitsFor m → cnt ≤ m := by
    intro m cnt hm h
    have : m = 0 ∨ m = 1 := by omega
    rcases this with rfl | rfl
    · rw [bitsFor_zero] at h; omega
    · rw [bitsFor_one] at h; omega
  have hA : ∀ cnt, allocRuns c s i.alloc = some cnt → s.allocated + cnt ≤ c.n := by
    intro cnt hr
    have ⟨hi, hne, hval⟩ := allocRuns_some hr
    by_cases hma : 1 < c.ma
    · simpa [allocValid, hv, hma] using hval
    · have := small _ _ hma (hfa cnt hi); omega
  have hF : ∀ cnt, freeRuns c s i.free = some cnt → cnt ≤ s.allocated := by
    intro cnt hr
    have ⟨hi, hne, hval⟩ := freeRuns_some hr
    by_cases hmf : 1 < c.mf
    · simpa [freeValid, hv, hmf] using hval
    · have := small _ _ hmf (hff cnt hi); omega
  refine ⟨?_, ?_, ?_⟩
  · intro cnt hi ho
    rw [step_out_alloc] at ho
    cases hr : allocRuns c s i.alloc with
    | none => rw [hr] at ho; exact absurd rfl ho
    | some cnt' =>
      have := (allocRuns_some hr).1; rw [hi] at this; cases this
      exact hA _ hr
  · intro cnt hi ho
    rw [step_out_free] at ho
    cases hr : freeRuns c s i.free with
    | none => rw [hr] at ho; exact absurd rfl ho
    | some cnt' =>
      have := (freeRuns_some hr).1; rw [hi] at this; cases this
      exact hF _ hr
  · cases hcl : i.clear with
    | true => simp [step_clear c s i hcl, init]
    | false =>
      have ha : s.allocated + (allocRuns c s i.alloc).getD 0 ≤ c.n := by
        cases hr : allocRuns c s i.alloc with
        | none => simpa using hc
        | some cnt => simpa using hA cnt hr
      have hf : (freeRuns c s i.free).getD 0 ≤ s.allocated := by
        cases hr : freeRuns c s i.free with
        | none => simp
        | some cnt => simpa using hF cnt hr
      simp only [step, hcl, Bool.false_eq_true, if_false]
      rw [count_update c _ _ _ ha hf]
      omega

-- OBLIGATION c27_accept : readiness and acceptance: alloc executes iff attempted, allocated ≠ entries and (validation installed → allocated+count ≤ entries); free executes iff attempted, allocated ≠ 0 and (validation installed → count ≤ allocated); clear always executes
theorem c27_accept (c : Cfg) (s : State) (i : In) :
    (∀ cnt, i.alloc = some cnt → (((step c s i).2.alloc ≠ none) ↔
        (s.allocated ≠ c.n ∧ ((c.validate = true ∧ 1 < c.ma) → s.allocated + cnt ≤ c.n)))) ∧
    (∀ cnt, i.free = some cnt → (((step c s i).2.free ≠ none) ↔
        (s.allocated ≠ 0 ∧ ((c.validate = true ∧ 1 < c.mf) → cnt ≤ s.allocated)))) ∧
    (i.alloc = none → (step c s i).2.alloc = none) ∧ (i.free = none → (step c s i).2.free = none) ∧
    (step c s i).2.clear = i.clear := by
  refine ⟨?_, ?_, ?_, ?_, rfl⟩
  · intro cnt hi
    rw [step_out_alloc, hi]
    by_cases h1 : s.allocated = c.n <;> by_cases h2 : c.validate = true <;> by_cases h3 : 1 < c.ma <;>
      by_cases h4 : s.allocated + cnt ≤ c.n <;> simp [allocRuns, allocReady, allocValid, h1, h2, h3, h4]
  · intro cnt hi
    rw [step_out_free, hi]
    by_cases h1 : s.allocated = 0 <;> by_cases h2 : c.validate = true <;> by_cases h3 : 1 < c.mf <;>
      by_cases h4 : cnt ≤ s.allocated <;> simp [freeRuns, freeReady, freeValid, h1, h2, h3, h4]
  · intro h; rw [step_out_alloc, h]; rfl
  · intro h; rw [step_out_free, h]; rfl

/-- non-vacuity: entries = 3 (not a power of two), max_alloc = max_free = 2, validation on; a history
    that wraps both pointers, with a simultaneous alloc+free and a rejected overflowing alloc, meets
    the environment hypotheses; the final registers and the rebuilt queue are as expected -/
example :
    let c : Cfg := { n := 3, ma := 2, mf := 2, validate := true }
    let is : List In := [⟨some 2, none, false⟩, ⟨some 2, some 1, false⟩, ⟨some 1, some 1, false⟩, ⟨some 2, some 1, false⟩]
    EnvOkRun c init is ∧ (run c init is).1 = ⟨0, 2, 2⟩ ∧ replay [] (is.zip (run c init is).2) = [0, 1] ∧
    ((run c init is).2.map (·.alloc.isSome)) = [true, false, true, true] := by
  refine ⟨envOkRunB_sound _ _ (by decide), by decide, by decide, by decide⟩

end TxV.CircAllocator

#print axioms TxV.CircAllocator.c27_inv
#print axioms TxV.CircAllocator.c27_alloc
#print axioms TxV.CircAllocator.c27_alloc_fresh
#print axioms TxV.CircAllocator.c27_free
#print axioms TxV.CircAllocator.c27_refines
#print axioms TxV.CircAllocator.c27_count
#print axioms TxV.CircAllocator.c27_history
#print axioms TxV.CircAllocator.c27_validated_safe
#print axioms TxV.CircAllocator.c27_accept
