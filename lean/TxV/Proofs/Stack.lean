import TxV.Model.Stack
import TxV.Proofs.QueueUtil
/-! Refinement of the Stack model to the bounded list-stack (C16). -/
namespace TxV.Stack
open TxV.QueueUtil

/-- abstraction: the `level` bottom rows of the memory, top of the stack first -/
def abs (s : State) : List Nat := (s.mem.take s.level).reverse

structure Inv (d : Nat) (s : State) : Prop where
  hl : s.level ≤ d
  hm : s.mem.length = d
  hr : 0 < s.level → s.rd = s.mem.getD (s.level - 1) 0

theorem inv_init (d : Nat) : Inv d (init d) :=
  ⟨Nat.zero_le _, by simp [init], by intro h'; simp [init] at h'⟩

theorem abs_init (d : Nat) : abs (init d) = [] := by simp [abs, init]

theorem abs_length {d : Nat} {s : State} (h : Inv d s) : (abs s).length = s.level := by
  have := h.hl; have := h.hm
  simp [abs]; omega

/-- for `1 ≤ n ≤ depth` the truncated address `n - 1` is exact -/
theorem addrOf_eq {d n : Nat} (h1 : 0 < n) (hn : n ≤ d) : addrOf d n = n - 1 := by
  unfold addrOf addrBits
  have : d - 1 < 2 ^ bitsFor (d - 1) := lt_pow_bitsFor (d - 1) (d - 1) (Nat.le_refl _)
  have e : n + 2 ^ bitsFor (d - 1) - 1 = (n - 1) + 2 ^ bitsFor (d - 1) := by omega
  rw [e, Nat.add_mod_right, Nat.mod_eq_of_lt (by omega)]

theorem take_succ_reverse (mem : List Nat) (n : Nat) (h : n < mem.length) :
    (mem.take (n + 1)).reverse = mem.getD n 0 :: (mem.take n).reverse := by
  rw [List.take_add_one]
  simp [List.getD_eq_getElem?_getD, h]

theorem take_set_succ (mem : List Nat) (n v : Nat) (h : n < mem.length) :
    ((mem.set n v).take (n + 1)).reverse = v :: (mem.take n).reverse := by
  rw [List.take_add_one]
  have : List.take n (mem.set n v) = List.take n mem := by
    rw [List.take_set_of_le (Nat.le_refl n)]
  simp [h, this]

theorem abs_head {d : Nat} {s : State} (h : Inv d s) (hpos : 0 < s.level) :
    (abs s).head? = some s.rd := by
  obtain ⟨n, hn⟩ : ∃ n, s.level = n + 1 := ⟨s.level - 1, by omega⟩
  have hlt : n < s.mem.length := by have := h.hl; have := h.hm; omega
  have := h.hr hpos
  unfold abs
  rw [hn, take_succ_reverse _ _ hlt]
  simp [this, hn]

theorem refines {d : Nat} {s : State} (h : Inv d s) (i : In) :
    Inv d (step d s i).1 ∧ (step d s i).2 = (specStep d (abs s) i).2 ∧
      abs (step d s i).1 = (specStep d (abs s) i).1 := by
  obtain ⟨w, r, p, c⟩ := i
  have hlen := abs_length h
  have hl := h.hl
  have hm := h.hm
  generalize hw : (if (s.level != d) = true then w else none) = wr
  generalize hr : (r && s.level != 0) = rrun
  have hwa : wr.isSome = true → s.level < d := by
    intro e; subst hw
    by_cases h1 : s.level = d
    · simp [h1] at e
    · omega
  have hra : rrun = true → 0 < s.level := by
    intro e; subst hr; simp at e; omega
  have hout : (step d s ⟨w, r, p, c⟩).2 = (specStep d (abs s) ⟨w, r, p, c⟩).2 := by
    simp only [step, specStep, hlen, hw, hr]
    by_cases h0 : s.level = 0
    · subst hr; simp [h0]
    · have hp : 0 < s.level := by omega
      simp [abs_head h hp]
  refine ⟨?_, hout, ?_⟩
  · -- invariant
    simp only [step, hw, hr]
    cases c
    case true =>
      refine ⟨by simp, ?_, by simp⟩
      cases wr <;> simp [hm]
    case false =>
      cases hwv : wr <;> cases hrv : rrun
      · -- nothing
        refine ⟨by simpa using hl, by simpa using hm, ?_⟩
        intro hp
        have hp' : 0 < s.level := by simpa using hp
        simp [addrOf_eq hp' hl]
      · -- read only
        have hp := hra hrv
        have hle : s.level - 1 ≤ d := by omega
        refine ⟨by simp; omega, by simpa using hm, ?_⟩
        intro hp2
        have hp2' : 0 < s.level - 1 := by simpa using hp2
        simp [addrOf_eq hp2' hle]
      · -- write only
        have hlt := hwa (by simp [hwv])
        have e : (s.level + 1) % 2 ^ bitsFor d = s.level + 1 := trunc_bitsFor d _ (by omega)
        refine ⟨by simp [e]; omega, by simp [hm], ?_⟩
        intro _
        simp [e, addrOf_eq (Nat.succ_pos _) (by omega : s.level + 1 ≤ d), List.getD_eq_getElem?_getD, hm, hlt]
      · -- both
        have hlt := hwa (by simp [hwv])
        have hp := hra hrv
        refine ⟨by simp; omega, by simp [hm], ?_⟩
        intro _
        have : s.level - 1 < d := by omega
        simp [addrOf_eq hp hl, List.getD_eq_getElem?_getD, hm, this]
  · -- abstraction commutes
    simp only [step, specStep, hlen, hw, hr]
    cases c
    case true => simp [abs]
    case false =>
      cases hwv : wr <;> cases hrv : rrun
      · simp [abs]
      · have hp := hra hrv
        obtain ⟨n, hn⟩ : ∃ n, s.level = n + 1 := ⟨s.level - 1, by omega⟩
        have hlt : n < s.mem.length := by omega
        simp [abs, hn, take_succ_reverse _ _ hlt]
      · have hlt := hwa (by simp [hwv])
        have e : (s.level + 1) % 2 ^ bitsFor d = s.level + 1 := trunc_bitsFor d _ (by omega)
        have hlt' : s.level < s.mem.length := by omega
        simp [abs, e, addrOf_eq (Nat.succ_pos _) (by omega : s.level + 1 ≤ d), take_set_succ _ _ _ hlt']
      · have hlt := hwa (by simp [hwv])
        have hp := hra hrv
        obtain ⟨n, hn⟩ : ∃ n, s.level = n + 1 := ⟨s.level - 1, by omega⟩
        have hlt' : n < s.mem.length := by omega
        have ha : addrOf d (n + 1) = n := by rw [← hn, addrOf_eq hp hl]; omega
        simp [abs, hn, ha, take_set_succ _ _ _ hlt', take_succ_reverse _ _ hlt']

theorem run_refines {d : Nat} : ∀ (is : List In) {s : State}, Inv d s →
    Inv d (run d s is).1 ∧ (run d s is).2 = (specRun d (abs s) is).2 ∧
      abs (run d s is).1 = (specRun d (abs s) is).1
  | [], _, h => ⟨h, rfl, rfl⟩
  | i :: is, s, h => by
    obtain ⟨h1, h2, h3⟩ := refines h i
    obtain ⟨g1, g2, g3⟩ := run_refines is h1
    simp only [run, specRun, runWith] at *
    rw [h3] at g2 g3
    exact ⟨g1, by rw [h2, g2], g3⟩

theorem run_snoc (d : Nat) (is : List In) (i : In) (s : State) :
    (run d s (is ++ [i])).1 = (step d (run d s is).1 i).1 := by
  simp [run, runWith_append, runWith]

theorem run_snoc2 (d : Nat) (is : List In) (i j : In) (s : State) :
    (run d s (is ++ [i, j])).1 = (step d (step d (run d s is).1 i).1 j).1 := by
  simp [run, runWith_append, runWith]

end TxV.Stack
