import TxV.Proofs.MultiportMemXor
/-!
Helper lemmas for C23, part 4: the mutual-exclusion code of `OneHotCodedILVT`.
-/
namespace TxV.MultiportMem.OneHot

theorem bit_tab {n : Nat} (f : Nat → Bool) {i : Nat} (h : i < n) : bit (tab n f) i = f i := by
  unfold bit; exact nthD_tab_lt false f h

theorem bit_exclBits {nw : Nat} (row : Nat → List Bool) (idx : Nat) {i : Nat} (h : i < nw - 1) :
    bit (exclBits nw row idx) i = if i < idx then !(bit (row i) (idx - 1)) else bit (row (i + 1)) idx := by
  unfold exclBits; exact bit_tab _ h

/-- the code of `idx` only looks at the rows of the *other* banks -/
theorem exclBits_congr {nw idx : Nat} {row row' : Nat → List Bool}
    (h : ∀ m, m < nw → m ≠ idx → row m = row' m) : exclBits nw row idx = exclBits nw row' idx := by
  unfold exclBits
  apply tab_congr
  intro i hi
  by_cases h1 : i < idx
  · simp only [h1, if_true]
    rw [h i (by omega) (by omega)]
  · simp only [h1, if_false]
    rw [h (i + 1) (by omega) (by omega)]

/-- the rows of all banks at one address after write port `j` wrote it -/
def wrote (nw : Nat) (row : Nat → List Bool) (j : Nat) : Nat → List Bool :=
  fun k => if k = j then exclBits nw row j else row k

/-- bank `idx` passes the mutual-exclusion check -/
def consistent (nw : Nat) (row : Nat → List Bool) (idx : Nat) : Prop := exclBits nw row idx = row idx

instance (nw : Nat) (row : Nat → List Bool) (idx : Nat) : Decidable (consistent nw row idx) := by
  unfold consistent; infer_instance

/-- after port `j` wrote, exactly bank `j` is consistent — whatever the other banks hold -/
theorem consistent_wrote (nw : Nat) (row : Nat → List Bool) {j idx : Nat} (hj : j < nw) (hidx : idx < nw) :
    consistent nw (wrote nw row j) idx ↔ idx = j := by
  unfold consistent
  constructor
  · intro heq
    apply Classical.byContradiction
    intro hne
    have hw : wrote nw row j idx = row idx := by simp [wrote, hne]
    rw [hw] at heq
    by_cases hlt : j < idx
    · -- the bits about the pair (j, idx): position j of row idx, position idx-1 of row j
      have this : bit (exclBits nw (wrote nw row j) idx) j = bit (row idx) j := by rw [heq]
      rw [bit_exclBits _ _ (by omega)] at this
      simp only [hlt, if_true, wrote] at this
      rw [bit_exclBits _ _ (by omega)] at this
      have h1 : ¬ idx - 1 < j := by omega
      have h2 : idx - 1 + 1 = idx := by omega
      simp only [h1, if_false, h2] at this
      simp at this
    · have hgt : idx < j := by omega
      have this : bit (exclBits nw (wrote nw row j) idx) (j - 1) = bit (row idx) (j - 1) := by rw [heq]
      rw [bit_exclBits _ _ (by omega)] at this
      have h1 : ¬ j - 1 < idx := by omega
      have h2 : j - 1 + 1 = j := by omega
      simp only [h1, if_false, h2, wrote, if_true] at this
      rw [bit_exclBits _ _ (by omega)] at this
      simp only [hgt, if_true] at this
      simp at this
  · intro h
    subst h
    have : wrote nw row idx idx = exclBits nw row idx := by simp [wrote]
    rw [this]
    apply exclBits_congr
    intro m _ hm
    simp [wrote, hm]

/-- with all-zero rows (reset state) exactly bank 0 is consistent: bank 0 is the one that carries `init` -/
theorem consistent_zero (nw : Nat) {idx : Nat} (hidx : idx < nw) :
    consistent nw (fun _ => zeroRow nw) idx ↔ idx = 0 := by
  unfold consistent
  constructor
  · intro heq
    apply Classical.byContradiction
    intro hne
    have := congrArg (fun l => bit l 0) heq
    simp only [exclBits, zeroRow] at this
    rw [bit_tab _ (by omega), bit_tab _ (by omega)] at this
    have h0 : 0 < idx := by omega
    simp only [h0, if_true] at this
    rw [bit_tab _ (by omega)] at this
    simp at this
  · intro h
    subst h
    unfold exclBits zeroRow
    apply tab_congr
    intro i hi
    simp only [Nat.not_lt_zero, if_false]
    by_cases h0 : 0 < nw - 1
    · exact bit_tab _ h0
    · omega

end TxV.MultiportMem.OneHot
