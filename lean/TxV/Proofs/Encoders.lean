import TxV.Model.Encoders
/-! Helper lemmas for C38: MultiPriorityEncoder tree, ring encoder, selecting network, one-hot mux. -/
namespace TxV.Encoders

/-! ### `idxs` -/

theorem idxs_append (a b : List Bool) (s : Nat) : idxs (a ++ b) s = idxs a s ++ idxs b (s + a.length) := by
  induction a generalizing s with
  | nil => simp [idxs]
  | cons x xs ih =>
    simp only [List.cons_append, idxs, List.length_cons]
    split <;> simp [ih, Nat.add_assoc, Nat.add_comm 1]

theorem idxs_falses (n s : Nat) : idxs (List.replicate n false) s = [] := by
  induction n generalizing s with
  | zero => rfl
  | succ n ih => simp [List.replicate_succ, idxs, ih]

/-- `idxs` is the ascending list of positions holding `true` -/
theorem idxs_eq_filter (bits : List Bool) (s : Nat) :
    idxs bits s = (List.range' s bits.length).filter (fun j => bits[j - s]? == some true) := by
  induction bits generalizing s with
  | nil => simp [idxs]
  | cons b bs ih =>
    simp only [idxs, List.length_cons, List.range'_succ, List.filter_cons, Nat.sub_self,
      List.getElem?_cons_zero]
    have hrest : List.filter (fun j => (b :: bs)[j - s]? == some true) (List.range' (s + 1) bs.length) =
        List.filter (fun j => bs[j - (s + 1)]? == some true) (List.range' (s + 1) bs.length) := by
      apply List.filter_congr
      intro j hj
      have hj' := (List.mem_range'_1.1 hj).1
      have : j - s = (j - (s + 1)) + 1 := by omega
      rw [this, List.getElem?_cons_succ]
    rw [hrest, ← ih (s + 1)]
    cases b <;> simp

theorem idxs_map_add (bits : List Bool) (s c : Nat) : (idxs bits s).map (· + c) = idxs bits (s + c) := by
  induction bits generalizing s with
  | nil => rfl
  | cons b bs ih =>
    simp only [idxs]
    have := ih (s + 1)
    rw [Nat.add_right_comm] at this
    split <;> simp [this]

theorem mem_idxs {bits : List Bool} {s j : Nat} (h : j ∈ idxs bits s) : s ≤ j ∧ j < s + bits.length := by
  rw [idxs_eq_filter] at h
  have := (List.mem_filter.1 h).1
  have := List.mem_range'_1.1 this
  omega

theorem idxs_length_le (bits : List Bool) (s : Nat) : (idxs bits s).length ≤ bits.length := by
  induction bits generalizing s with
  | nil => simp [idxs]
  | cons b bs ih =>
    simp only [idxs, List.length_cons]
    have := ih (s + 1)
    split <;> simp <;> omega

/-! ### padding -/

theorem padN_merge (K : Nat) (x y : List Nat) :
    (padN K x).take (min x.length K) ++ (padN K y).take (K - min x.length K) = padN K (x ++ y) := by
  unfold padN
  by_cases h : x.length ≤ K
  · have hm : min x.length K = x.length := Nat.min_eq_left h
    rw [hm]
    apply List.ext_getElem?
    intro n
    simp only [List.getElem?_append, List.getElem?_take, List.length_take, List.length_append,
      List.length_replicate, List.getElem?_replicate]
    grind
  · have hm : min x.length K = K := Nat.min_eq_right (by omega)
    rw [hm]
    apply List.ext_getElem?
    intro n
    simp only [List.getElem?_append, List.getElem?_take, List.length_take, List.length_append,
      List.length_replicate, List.getElem?_replicate]
    grind

theorem padB_merge (K n m : Nat) :
    (padB K n).take (min n K) ++ (padB K m).take (K - min n K) = padB K (n + m) := by
  unfold padB
  apply List.ext_getElem?
  intro j
  simp only [List.getElem?_append, List.getElem?_take, List.length_take, List.length_append,
    List.length_replicate, List.getElem?_replicate]
  grind

theorem prefixCount_falses (k : Nat) : prefixCount (List.replicate k false) = some 0 := by
  cases k with
  | zero => rfl
  | succ k => simp [List.replicate_succ, prefixCount]

theorem prefixCount_padB (K n : Nat) : prefixCount (padB K n) = some (min n K) := by
  induction n generalizing K with
  | zero => simp [padB, prefixCount_falses]
  | succ n ih =>
    cases K with
    | zero => simp [padB, prefixCount]
    | succ K =>
      have : padB (K+1) (n+1) = true :: padB K n := by
        apply List.ext_getElem?
        intro j
        cases j with
        | zero => simp [padB, List.replicate_succ]
        | succ j =>
          simp only [padB, List.getElem?_cons_succ, List.getElem?_take, List.getElem?_append,
            List.length_replicate, List.getElem?_replicate]
          grind
      rw [this, prefixCount, ih]; simp

theorem padN_length (K : Nat) (l : List Nat) : (padN K l).length = K := by
  simp [padN]

theorem padB_length (K n : Nat) : (padB K n).length = K := by
  simp [padB]

/-- element `j` of the padded output list: the `j`-th index if there is one, else 0 -/
theorem padN_getElem? (K : Nat) (l : List Nat) (j : Nat) (hj : j < K) :
    (padN K l)[j]? = some (if h : j < l.length then l[j] else 0) := by
  simp only [padN, List.getElem?_take, hj, if_true, List.getElem?_append, List.getElem?_replicate]
  split
  · rename_i h; simp [h]
  · simp; omega

/-- element `j` of the valid flags: set iff `j < n` -/
theorem padB_getElem? (K n : Nat) (j : Nat) (hj : j < K) : (padB K n)[j]? = some (decide (j < n)) := by
  simp only [padB, List.getElem?_take, hj, if_true, List.getElem?_append, List.getElem?_replicate,
    List.length_replicate]
  split
  · rename_i h; simp [h]
  · rename_i h; simp [h]; omega

/-! ### the tree -/

theorem zeros_eq_spec_nil (K start : Nat) : zeros K = spec K [] start := by
  simp [zeros, spec, idxs, padN, padB]

theorem build_eq_spec (K : Nat) : ∀ (fuel : Nat) (bits : List Bool) (start : Nat),
    bits.length ≤ fuel → build K fuel bits start = spec K bits start
  | 0, bits, start, h => by
    have : bits = [] := by cases bits with | nil => rfl | cons _ _ => simp at h
    subst this; simp [build, zeros_eq_spec_nil K start]
  | fuel+1, [], start, _ => by simp [build, zeros_eq_spec_nil K start]
  | fuel+1, [b], start, _ => by
    cases b
    · simp [build, spec, idxs, zeros, padN, padB]
    · simp [build, spec, idxs]
  | fuel+1, b :: b' :: rest, start, h => by
    have hlen : (b :: b' :: rest).length = rest.length + 2 := by simp
    have hmid1 : (b :: b' :: rest).length / 2 ≤ (b :: b' :: rest).length := Nat.div_le_self _ _
    have hr := build_eq_spec K fuel ((b :: b' :: rest).take ((b :: b' :: rest).length / 2)) start
      (by rw [List.length_take]; simp at h ⊢; omega)
    have hl := build_eq_spec K fuel ((b :: b' :: rest).drop ((b :: b' :: rest).length / 2))
      (start + (b :: b' :: rest).length / 2) (by rw [List.length_drop]; simp at h ⊢; omega)
    simp only [build]
    rw [hr, hl]
    simp only [spec, prefixCount_padB, merge]
    have hsplit : idxs (b :: b' :: rest) start =
        idxs ((b :: b' :: rest).take ((b :: b' :: rest).length / 2)) start ++
        idxs ((b :: b' :: rest).drop ((b :: b' :: rest).length / 2)) (start + (b :: b' :: rest).length / 2) := by
      conv => lhs; rw [← List.take_append_drop ((b :: b' :: rest).length / 2) (b :: b' :: rest)]
      rw [idxs_append]; congr 2
      rw [List.length_take]; omega
    rw [hsplit, padN_merge, List.length_append, padB_merge]

theorem mpe_eq_spec (K : Nat) (bits : List Bool) : mpe K bits = spec K bits 0 :=
  build_eq_spec K bits.length bits 0 (Nat.le_refl _)

theorem idxs_zero_eq_setBits (bits : List Bool) : idxs bits 0 = setBits bits := by
  rw [idxs_eq_filter, setBits, List.range_eq_range']
  rfl

/-! ### RingMultiPriorityEncoder -/

/-- set positions of a slice `[s, s+n)` of `inp`, as a filter over the positions -/
theorem filter_range_eq_idxs (inp : List Bool) (s n : Nat) (h : s + n ≤ inp.length) :
    (List.range' s n).filter (fun j => inp[j]? == some true) = idxs ((inp.drop s).take n) s := by
  rw [idxs_eq_filter]
  have hl : ((inp.drop s).take n).length = n := by simp; omega
  rw [hl]
  apply List.filter_congr
  intro j hj
  have := List.mem_range'_1.1 hj
  have h1 : j - s < n := by omega
  simp only [List.getElem?_take, h1, if_true, List.getElem?_drop]
  have : s + (j - s) = j := by omega
  rw [this]

theorem encIn_le (inp : List Bool) (first last : Nat) (hfl : first ≤ last) (hl : last < inp.length) :
    shiftRightTrunc inp.length first (maskLow last (inp ++ inp)) =
      (inp.drop first).take (last - first) ++ List.replicate (inp.length - (last - first)) false := by
  unfold shiftRightTrunc maskLow
  apply List.ext_getElem?
  intro n
  simp only [List.getElem?_append, List.getElem?_take, List.getElem?_drop, List.length_take, List.length_append,
    List.length_replicate, List.length_drop, List.getElem?_replicate]
  grind

theorem encIn_gt (inp : List Bool) (first last : Nat) (hfl : last < first) (hf : first < inp.length) :
    shiftRightTrunc inp.length first (maskLow (inp.length + last) (inp ++ inp)) =
      inp.drop first ++ (inp.take last ++ List.replicate (first - last) false) := by
  unfold shiftRightTrunc maskLow
  apply List.ext_getElem?
  intro n
  simp only [List.getElem?_append, List.getElem?_take, List.getElem?_drop, List.length_take, List.length_append,
    List.length_replicate, List.length_drop, List.getElem?_replicate]
  grind

/-- the output correction `Mux(moved_out >= input_width, moved_out - input_width, moved_out)` -/
def unshift (w first o : Nat) : Nat := if o + first ≥ w then o + first - w else o + first

theorem ring_unfold (K : Nat) (inp : List Bool) (first last : Nat) :
    ring K inp first last =
      let encIn := shiftRightTrunc inp.length first
        (maskLow (if first > last then inp.length + last else last) (inp ++ inp))
      ((padN K (idxs encIn 0)).map (unshift inp.length first), padB K (idxs encIn 0).length) := by
  simp only [ring, mpe_eq_spec, spec]
  rfl

theorem map_padN (K : Nat) (l : List Nat) (f : Nat → Nat) :
    (padN K l).map f = (l.map f ++ List.replicate K (f 0)).take K := by
  simp [padN, List.map_take]

/-- the encoder input holds exactly the selected window, and un-shifting its set positions gives `ringSel` -/
theorem ring_idxs (inp : List Bool) (first last : Nat) (hf : first < inp.length) (hl : last < inp.length) :
    (idxs (shiftRightTrunc inp.length first
        (maskLow (if first > last then inp.length + last else last) (inp ++ inp))) 0).map (unshift inp.length first)
      = ringSel inp first last := by
  unfold ringSel ringOrder
  by_cases hfl : first ≤ last
  · have hn : ¬ first > last := by omega
    simp only [hn, hfl, if_true, if_false]
    rw [encIn_le inp first last hfl hl, idxs_append, idxs_falses, List.append_nil,
      filter_range_eq_idxs inp first (last - first) (by omega)]
    have := idxs_map_add ((inp.drop first).take (last - first)) 0 first
    rw [Nat.zero_add] at this
    rw [← this]
    apply List.map_congr_left
    intro j hj
    have hm := mem_idxs hj
    simp at hm
    unfold unshift
    have : ¬ j + first ≥ inp.length := by omega
    simp [this]
  · have hn : first > last := by omega
    simp only [hn, hfl, if_true, if_false]
    rw [encIn_gt inp first last hn hf, idxs_append, idxs_append, idxs_falses, List.append_nil,
      List.filter_append, List.map_append]
    congr 1
    · have h1 := filter_range_eq_idxs inp first (inp.length - first) (by omega)
      have h2 : (inp.drop first).take (inp.length - first) = inp.drop first := by
        apply List.take_of_length_le; simp
      rw [h1, h2]
      have := idxs_map_add (inp.drop first) 0 first
      rw [Nat.zero_add] at this
      rw [← this]
      apply List.map_congr_left
      intro j hj
      have hm := mem_idxs hj
      simp at hm
      unfold unshift
      have : ¬ j + first ≥ inp.length := by omega
      simp [this]
    · have h1 := filter_range_eq_idxs inp 0 last (by omega)
      simp only [List.drop_zero] at h1
      rw [h1]
      have := idxs_map_add (inp.take last) 0 (inp.length - first)
      simp only [List.length_drop, Nat.zero_add]
      rw [Nat.zero_add] at this
      rw [← this, List.map_map]
      conv => rhs; rw [← List.map_id (idxs (List.take last inp) 0)]
      apply List.map_congr_left
      intro j hj
      have hm := mem_idxs hj
      simp at hm
      simp only [Function.comp, unshift, id]
      have : j + (inp.length - first) + first ≥ inp.length := by omega
      simp only [this, if_true]
      omega

theorem unshift_zero {w first : Nat} (hf : first < w) : unshift w first 0 = first := by
  simp only [unshift, Nat.zero_add]
  split <;> omega

theorem ring_eq (K : Nat) (inp : List Bool) (first last : Nat) (hf : first < inp.length) (hl : last < inp.length) :
    ring K inp first last =
      ((ringSel inp first last ++ List.replicate K first).take K, padB K (ringSel inp first last).length) := by
  rw [ring_unfold]
  simp only
  rw [map_padN, ring_idxs inp first last hf hl, unshift_zero hf, ← ring_idxs inp first last hf hl, List.length_map]

/-! ### StableSelectingNetwork -/

/-- the meaningful part of a node: its first `cnt` elements -/
def sem (a : Node) : List Nat := a.1.take a.2
/-- well-formed node: the count does not exceed the array length -/
def WF (a : Node) : Prop := a.2 ≤ a.1.length

theorem mergeNode_length (a b : Node) : (mergeNode a b).1.length = a.1.length + b.1.length := by
  simp [mergeNode]

theorem mergeNode_wf {a b : Node} (ha : WF a) (hb : WF b) : WF (mergeNode a b) := by
  unfold WF at *
  rw [mergeNode_length]
  simp only [mergeNode]
  omega

theorem mergeNode_sem {a b : Node} (ha : WF a) (hb : WF b) : sem (mergeNode a b) = sem a ++ sem b := by
  unfold WF at ha hb
  unfold sem mergeNode
  apply List.ext_getElem?
  intro i
  simp only [List.getElem?_take, List.getElem?_append, List.getElem?_mapIdx, List.getElem?_map,
    List.length_take, List.length_mapIdx, List.getD_eq_getElem?_getD]
  grind


/-- total array length of a level -/
def totalLen (l : List Node) : Nat := (l.map (fun a => a.1.length)).sum

theorem pairUp_spec : ∀ (l : List Node), (∀ a ∈ l, WF a) →
    (∀ a ∈ pairUp l, WF a) ∧ ((pairUp l).map sem).flatten = (l.map sem).flatten ∧
      totalLen (pairUp l) = totalLen l ∧ (pairUp l).length = (l.length + 1) / 2
  | [], _ => by simp [pairUp]
  | [a], h => by simpa [pairUp] using h
  | a :: b :: rest, h => by
    have ha : WF a := h a (by simp)
    have hb : WF b := h b (by simp)
    obtain ⟨h1, h2, h3, h4⟩ := pairUp_spec rest (fun x hx => h x (by simp [hx]))
    refine ⟨?_, ?_, ?_, ?_⟩
    · intro x hx
      simp only [pairUp, List.mem_cons] at hx
      rcases hx with hx | hx
      · rw [hx]; exact mergeNode_wf ha hb
      · exact h1 x hx
    · simp only [pairUp, List.map_cons, List.flatten_cons, h2, mergeNode_sem ha hb, List.append_assoc]
    · simp only [totalLen, pairUp, List.map_cons, List.sum_cons, mergeNode_length] at h3 ⊢
      omega
    · simp only [pairUp, List.length_cons, h4]; omega

theorem reduce_spec : ∀ (f : Nat) (l : List Node), (∀ a ∈ l, WF a) → l.length ≤ f + 1 →
    (∀ a ∈ reduce f l, WF a) ∧ ((reduce f l).map sem).flatten = (l.map sem).flatten ∧
      totalLen (reduce f l) = totalLen l ∧ (reduce f l).length ≤ 1 ∧ (l ≠ [] → reduce f l ≠ [])
  | 0, l, h, hl => by
    have e : reduce 0 l = l := rfl
    rw [e]
    exact ⟨h, rfl, rfl, by omega, fun h => h⟩
  | f+1, l, h, hl => by
    unfold reduce
    by_cases h2 : l.length ≥ 2
    · simp only [h2, if_true]
      obtain ⟨p1, p2, p3, p4⟩ := pairUp_spec l h
      obtain ⟨r1, r2, r3, r4, r5⟩ := reduce_spec f (pairUp l) p1 (by omega)
      refine ⟨r1, by rw [r2, p2], by rw [r3, p3], r4, fun _ => r5 ?_⟩
      intro he
      rw [he] at p4
      simp at p4
      omega
    · rw [if_neg h2]
      exact ⟨h, rfl, rfl, by omega, fun h => h⟩


theorem leaves_spec : ∀ (inputs : List Nat) (valids : List Bool), inputs.length = valids.length →
    (∀ a ∈ leaves inputs valids, WF a) ∧ ((leaves inputs valids).map sem).flatten = selectValid inputs valids ∧
      totalLen (leaves inputs valids) = inputs.length ∧ (leaves inputs valids).length = inputs.length
  | [], [], _ => by simp [leaves, selectValid, totalLen]
  | [], _ :: _, h => by simp at h
  | _ :: _, [], h => by simp at h
  | x :: xs, v :: vs, h => by
    obtain ⟨h1, h2, h3, h4⟩ := leaves_spec xs vs (by simpa using h)
    unfold leaves at h1 h2 h3 h4 ⊢
    refine ⟨?_, ?_, ?_, ?_⟩
    · intro a ha
      simp only [List.zipWith_cons_cons, List.mem_cons] at ha
      rcases ha with ha | ha
      · rw [ha]; cases v <;> simp [WF]
      · exact h1 a ha
    · simp only [List.zipWith_cons_cons, List.map_cons, List.flatten_cons, h2, selectValid]
      cases v <;> simp [sem]
    · simp only [totalLen, List.zipWith_cons_cons, List.map_cons, List.sum_cons, List.length_cons,
        List.length_nil] at h3 ⊢
      omega
    · simp [h4]

/-- `StableSelectingNetwork`: the first `output_cnt` outputs are the valid inputs in order,
    `output_cnt` is their number, and there are `n` outputs -/
theorem ssn_spec (inputs : List Nat) (valids : List Bool) (h : inputs.length = valids.length)
    (hn : 0 < inputs.length) :
    ∃ o c, ssn inputs valids = some (o, c) ∧ o.take c = selectValid inputs valids ∧
      c = (selectValid inputs valids).length ∧ o.length = inputs.length := by
  obtain ⟨l1, l2, l3, l4⟩ := leaves_spec inputs valids h
  obtain ⟨r1, r2, r3, r4, r5⟩ := reduce_spec inputs.length (leaves inputs valids) l1 (by omega)
  have hne : leaves inputs valids ≠ [] := by
    intro he; rw [he] at l4; simp at l4; omega
  have := r5 hne
  unfold ssn
  match hr : reduce inputs.length (leaves inputs valids), this, r4 with
  | [a], _, _ =>
    rw [hr] at r1 r2 r3
    have hw : WF a := r1 a (by simp)
    simp only [List.map_cons, List.map_nil, List.flatten_cons, List.flatten_nil, List.append_nil] at r2
    simp only [totalLen, List.map_cons, List.map_nil, List.sum_cons, List.sum_nil, Nat.add_zero] at r3
    refine ⟨a.1, a.2, rfl, ?_, ?_, ?_⟩
    · rw [← l2, ← r2]; rfl
    · rw [← l2, ← r2]; unfold sem WF at *; simp; omega
    · rw [r3]; exact l3

/-! ### one_hot_mux -/

/-! ### lowest set bit -/

theorem lowestSet_false (l : List Bool) : lowestSet (false :: l) = false :: lowestSet l := by
  simp [lowestSet, negL, incL]

theorem and_not_self (l : List Bool) : List.zipWith (· && ·) l (l.map (!·)) = List.replicate l.length false := by
  induction l with
  | nil => rfl
  | cons b bs ih => simp [List.replicate_succ, ih]

theorem lowestSet_true (l : List Bool) : lowestSet (true :: l) = true :: List.replicate l.length false := by
  simp [lowestSet, negL, incL, and_not_self]

/-- `extract_lowest_set_bit`: everything above the lowest set bit is cleared -/
theorem lowestSet_spec (i : Nat) (rest : List Bool) :
    lowestSet (List.replicate i false ++ true :: rest) =
      List.replicate i false ++ true :: List.replicate rest.length false := by
  induction i with
  | zero => simp [lowestSet_true]
  | succ i ih => simp only [List.replicate_succ, List.cons_append, lowestSet_false, ih]

theorem lowestSet_zero (n : Nat) : lowestSet (List.replicate n false) = List.replicate n false := by
  induction n with
  | zero => rfl
  | succ n ih => simp only [List.replicate_succ, lowestSet_false, ih]

/-! ### the OR tree -/

def orAll (l : List Nat) : Nat := l.foldr (· ||| ·) 0

theorem pairOr_orAll : ∀ l : List Nat, orAll (pairOr l) = orAll l
  | [] => rfl
  | [_] => rfl
  | a :: b :: rest => by
    simp only [pairOr, orAll, List.foldr_cons]
    have := pairOr_orAll rest
    simp only [orAll] at this
    rw [this, Nat.or_assoc]

theorem pairOr_length : ∀ l : List Nat, (pairOr l).length = (l.length + 1) / 2
  | [] => rfl
  | [_] => by simp [pairOr]
  | a :: b :: rest => by
    simp only [pairOr, List.length_cons, pairOr_length rest]; omega

/-- `binary_tree_reduce` with `|` computes the OR of all elements -/
theorem treeOr_eq : ∀ (f : Nat) (l : List Nat), l.length ≤ f + 1 → treeOr f l = orAll l
  | _, [], _ => by simp [treeOr, orAll]
  | _, [x], _ => by simp [treeOr, orAll]
  | 0, a :: b :: rest, h => by simp at h
  | f+1, a :: b :: rest, h => by
    rw [treeOr, treeOr_eq f (pairOr (a :: b :: rest)), pairOr_orAll]
    rw [pairOr_length]; simp at h ⊢; omega

/-! ### selecting with a one-hot vector -/

def muxTerms (sel : List Bool) (data : List Nat) : List Nat :=
  List.zipWith (fun (s : Bool) d => if s then d else 0) sel data

theorem orAll_muxTerms_falses (n : Nat) (data : List Nat) : orAll (muxTerms (List.replicate n false) data) = 0 := by
  induction n generalizing data with
  | zero => simp [muxTerms, orAll]
  | succ n ih =>
    cases data with
    | nil => simp [muxTerms, orAll]
    | cons d ds =>
      have := ih ds
      simp only [muxTerms, orAll] at this ⊢
      simp [List.replicate_succ, this]

theorem orAll_muxTerms_onehot (i m : Nat) (data : List Nat) (d : Nat) (hd : data[i]? = some d) :
    orAll (muxTerms (List.replicate i false ++ true :: List.replicate m false) data) = d := by
  induction i generalizing data with
  | zero =>
    cases data with
    | nil => simp at hd
    | cons x xs =>
      simp at hd
      have := orAll_muxTerms_falses m xs
      simp only [muxTerms, orAll] at this ⊢
      simp [this, hd]
  | succ i ih =>
    cases data with
    | nil => simp at hd
    | cons x xs =>
      have := ih xs (by simpa using hd)
      simp only [muxTerms, orAll] at this ⊢
      simp [List.replicate_succ, this]

/-- the last stage of `one_hot_mux`: the single-input shortcut, else the OR tree over the gated inputs -/
def muxOut (allSel : List Bool) (allData : List Nat) : Nat :=
  match allData with
  | [x] => x
  | _ => treeOr allData.length (muxTerms allSel allData)

theorem oneHotMux_eq (priority : Bool) (sel : List Bool) (data : List Nat) (dflt : Option Nat) :
    oneHotMux priority sel data dflt =
      muxOut (match dflt with
          | none => (if priority then lowestSet sel else sel)
          | some _ => (if priority then lowestSet sel else sel) ++ [!(sel.any id)])
        (match dflt with
          | none => data
          | some d => data ++ [d]) := by
  cases dflt <;> rfl

theorem muxOut_general (allSel : List Bool) (allData : List Nat) :
    muxOut allSel allData = if allData.length = 1 then allData.headD 0 else orAll (muxTerms allSel allData) := by
  unfold muxOut
  match allData with
  | [] => simp [treeOr, orAll, muxTerms]
  | [x] => simp
  | x :: y :: r =>
    simp only [List.length_cons, Nat.add_eq_right, Nat.add_eq_zero_iff, Nat.succ_ne_self, and_false, if_false]
    apply treeOr_eq
    simp only [muxTerms, List.length_zipWith, List.length_cons]
    omega

/-- with a one-hot select vector the output is the selected input -/
theorem muxOut_onehot (i m : Nat) (allData : List Nat) (d : Nat)
    (hlen : allData.length = i + 1 + m) (hd : allData[i]? = some d) :
    muxOut (List.replicate i false ++ true :: List.replicate m false) allData = d := by
  rw [muxOut_general]
  split
  · rename_i h1
    have hi : i = 0 := by omega
    subst hi
    match allData, hd with
    | x :: _, hd => simpa using hd
  · exact orAll_muxTerms_onehot i m allData d hd

theorem muxOut_falses (n : Nat) (allData : List Nat) (h : allData.length ≠ 1) :
    muxOut (List.replicate n false) allData = 0 := by
  rw [muxOut_general]
  simp [h, orAll_muxTerms_falses]

theorem any_id_onehot (i : Nat) (rest : List Bool) : (List.replicate i false ++ true :: rest).any id = true := by
  simp

theorem any_id_falses (n : Nat) : (List.replicate n false).any id = false := by
  simp

/-- output of the mux when the effective one-hot vector has exactly bit `i` set -/
theorem oneHotMux_core (priority : Bool) (sel : List Bool) (data : List Nat) (dflt : Option Nat) (i m d : Nat)
    (hoh : (if priority then lowestSet sel else sel) = List.replicate i false ++ true :: List.replicate m false)
    (hany : sel.any id = true) (hlen : data.length = i + 1 + m) (hd : data[i]? = some d) :
    oneHotMux priority sel data dflt = d := by
  rw [oneHotMux_eq, hoh, hany]
  cases dflt with
  | none => exact muxOut_onehot i m data d hlen hd
  | some df =>
    simp only [Bool.not_true]
    have : List.replicate i false ++ true :: List.replicate m false ++ [false] =
        List.replicate i false ++ true :: List.replicate (m + 1) false := by
      simp [List.replicate_succ']
    rw [this]
    apply muxOut_onehot i (m + 1) (data ++ [df]) d (by simp; omega)
    rw [List.getElem?_append_left (by omega)]; exact hd


theorem mux_priority (sel : List Bool) (data : List Nat) (dflt : Option Nat) (i : Nat) (rest : List Bool) (d : Nat)
    (hlen : sel.length = data.length) (hs : sel = List.replicate i false ++ true :: rest) (hd : data[i]? = some d) :
    oneHotMux true sel data dflt = d := by
  apply oneHotMux_core true sel data dflt i rest.length d
  · simp only [if_true]; rw [hs, lowestSet_spec]
  · rw [hs]; exact any_id_onehot i rest
  · rw [← hlen, hs]; simp; omega
  · exact hd

theorem mux_onehot (sel : List Bool) (data : List Nat) (dflt : Option Nat) (i m : Nat) (d : Nat)
    (hlen : sel.length = data.length) (hs : sel = List.replicate i false ++ true :: List.replicate m false)
    (hd : data[i]? = some d) (priority : Bool) :
    oneHotMux priority sel data dflt = d := by
  cases priority with
  | true => exact mux_priority sel data dflt i _ d hlen hs hd
  | false =>
    apply oneHotMux_core false sel data dflt i m d
    · simpa using hs
    · rw [hs]; exact any_id_onehot i _
    · rw [← hlen, hs]; simp; omega
    · exact hd

theorem mux_default (priority : Bool) (n : Nat) (data : List Nat) (d : Nat) (hlen : data.length = n) :
    oneHotMux priority (List.replicate n false) data (some d) = d := by
  rw [oneHotMux_eq]
  have h1 : (if priority then lowestSet (List.replicate n false) else List.replicate n false) =
      List.replicate n false := by cases priority <;> simp [lowestSet_zero]
  simp only [h1, any_id_falses, Bool.not_false]
  exact muxOut_onehot n 0 (data ++ [d]) d (by simp [hlen]) (by simp [hlen])

theorem mux_none (priority : Bool) (n : Nat) (data : List Nat) (hlen : data.length ≠ 1) :
    oneHotMux priority (List.replicate n false) data none = 0 := by
  rw [oneHotMux_eq]
  have h1 : (if priority then lowestSet (List.replicate n false) else List.replicate n false) =
      List.replicate n false := by cases priority <;> simp [lowestSet_zero]
  simp only [h1]
  exact muxOut_falses n data hlen

theorem mux_single (priority : Bool) (sel : List Bool) (x : Nat) : oneHotMux priority sel [x] none = x := by
  rw [oneHotMux_eq]; rfl

/-! ### one_hot_mux on signed / mixed-width operands -/

/-- `z` is representable in shape `s` -/
def fits (s : Shp) (z : Int) : Prop :=
  if s.signed then 0 < s.width ∧ -((2 : Int) ^ (s.width - 1)) ≤ z ∧ z < (2 : Int) ^ (s.width - 1)
  else 0 ≤ z ∧ z < (2 : Int) ^ s.width

theorem pow2_mono {a b : Nat} (h : a ≤ b) : (2 : Int) ^ a ≤ (2 : Int) ^ b := by
  have := Nat.pow_le_pow_right (n := 2) (by omega) h
  exact_mod_cast this

theorem pow2_pos (a : Nat) : (0 : Int) < (2 : Int) ^ a := by
  have := Nat.two_pow_pos a
  exact_mod_cast this

theorem pow2_succ_pred {w : Nat} (h : 0 < w) : (2 : Int) ^ w = 2 * (2 : Int) ^ (w - 1) := by
  have : w = (w - 1) + 1 := by omega
  conv => lhs; rw [this, Int.pow_succ]
  omega

theorem le_maxL {x : Nat} {l : List Nat} (h : x ∈ l) : x ≤ maxL l := by
  induction l with
  | nil => simp at h
  | cons y ys ih =>
    simp only [maxL, List.foldr_cons] at ih ⊢
    rcases List.mem_cons.1 h with h | h
    · subst h; omega
    · have := ih h; omega

/-- reading back the two's-complement image gives the value itself -/
theorem ofBits_toBits (s : Shp) (z : Int) (h : fits s z) : ofBits s (toBits s.width z) = z := by
  unfold fits at h
  unfold ofBits toBits
  have hp := pow2_pos s.width
  by_cases hs : s.signed = true
  · simp only [hs, if_true] at h
    obtain ⟨hw, h1, h2⟩ := h
    have e := pow2_succ_pred hw
    have hh := pow2_pos (s.width - 1)
    by_cases hz : 0 ≤ z
    · have hm : z % (2 : Int) ^ s.width = z := Int.emod_eq_of_lt hz (by omega)
      rw [hm]
      have hn : ((z.toNat : Nat) : Int) = z := Int.toNat_of_nonneg hz
      have hlt : ¬ (2 ^ (s.width - 1) ≤ z.toNat) := by
        intro hc
        have : ((2 ^ (s.width - 1) : Nat) : Int) ≤ (z.toNat : Int) := by exact_mod_cast hc
        rw [hn] at this
        have e2 : ((2 ^ (s.width - 1) : Nat) : Int) = (2 : Int) ^ (s.width - 1) := by norm_cast
        omega
      simp [hs, hlt, hn]
    · have hm : z % (2 : Int) ^ s.width = z + (2 : Int) ^ s.width := by
        rw [← Int.add_mul_emod_self_left z ((2 : Int) ^ s.width) 1, Int.mul_one]
        exact Int.emod_eq_of_lt (by omega) (by omega)
      rw [hm]
      have hnn : 0 ≤ z + (2 : Int) ^ s.width := by omega
      have hn : (((z + (2 : Int) ^ s.width).toNat : Nat) : Int) = z + (2 : Int) ^ s.width := Int.toNat_of_nonneg hnn
      have hge : 2 ^ (s.width - 1) ≤ (z + (2 : Int) ^ s.width).toNat := by
        have : ((2 ^ (s.width - 1) : Nat) : Int) ≤ ((z + (2 : Int) ^ s.width).toNat : Int) := by
          rw [hn]
          have e2 : ((2 ^ (s.width - 1) : Nat) : Int) = (2 : Int) ^ (s.width - 1) := by norm_cast
          omega
        exact_mod_cast this
      simp only [hs, hge, decide_true, Bool.and_self, if_true, hn]
      omega
  · have hs' : s.signed = false := by simpa using hs
    simp only [hs', Bool.false_eq_true, if_false] at h
    have hm : z % (2 : Int) ^ s.width = z := Int.emod_eq_of_lt h.1 h.2
    rw [hm]
    simp [hs', Int.toNat_of_nonneg h.1]

/-- a value representable in one operand's shape is representable in the unified shape -/
theorem fits_unify {l : List Shp} {s : Shp} {z : Int} (hs : s ∈ l) (h : fits s z) : fits (unifyShp l) z := by
  unfold unifyShp
  by_cases ha : l.any (·.signed) = true
  · simp only [ha, if_true]
    have hm : (if s.signed then s.width else s.width + 1) ≤
        maxL (l.map (fun s => if s.signed then s.width else s.width + 1)) :=
      le_maxL (List.mem_map.2 ⟨s, hs, rfl⟩)
    unfold fits at h ⊢
    simp only [if_true]
    by_cases hsg : s.signed = true
    · simp only [hsg, if_true] at h hm
      obtain ⟨hw, h1, h2⟩ := h
      have := pow2_mono (a := s.width - 1)
        (b := maxL (l.map (fun s => if s.signed then s.width else s.width + 1)) - 1) (by omega)
      exact ⟨by omega, by omega, by omega⟩
    · have hsg' : s.signed = false := by simpa using hsg
      simp only [hsg', Bool.false_eq_true, if_false] at h hm
      have := pow2_mono (a := s.width)
        (b := maxL (l.map (fun s => if s.signed then s.width else s.width + 1)) - 1) (by omega)
      have := pow2_pos (maxL (l.map (fun s => if s.signed then s.width else s.width + 1)) - 1)
      exact ⟨by omega, by omega, by omega⟩
  · have ha' : l.any (·.signed) = false := by simpa using ha
    simp only [ha', Bool.false_eq_true, if_false]
    have hsg : s.signed = false := by
      have := List.any_eq_false.1 ha' s hs
      simpa using this
    have hm : s.width ≤ maxL (l.map (·.width)) := le_maxL (List.mem_map.2 ⟨s, hs, rfl⟩)
    unfold fits at h ⊢
    simp only [hsg, Bool.false_eq_true, if_false] at h ⊢
    have := pow2_mono hm
    exact ⟨h.1, by omega⟩

/-- typed mux: whenever the untyped mux returns the image of operand `(s, z)`, the typed result is `z` -/
theorem oneHotMuxZ_value (priority : Bool) (sel : List Bool) (data : List (Shp × Int)) (dflt : Option (Shp × Int))
    (s : Shp) (z : Int) (hmem : s ∈ data.map (·.1) ++ dflt.toList.map (·.1)) (hfit : fits s z)
    (hsel : ∀ W, oneHotMux priority sel (data.map (fun d => toBits W d.2)) (dflt.map (fun d => toBits W d.2))
      = toBits W z) :
    (oneHotMuxZ priority sel data dflt).2 = z := by
  simp only [oneHotMuxZ, hsel]
  exact ofBits_toBits _ z (fits_unify hmem hfit)


theorem mem_shapes_of_data {data : List (Shp × Int)} {dflt : Option (Shp × Int)} {i : Nat} {s : Shp} {z : Int}
    (hd : data[i]? = some (s, z)) : s ∈ data.map (·.1) ++ dflt.toList.map (·.1) := by
  apply List.mem_append_left
  exact List.mem_map.2 ⟨(s, z), List.mem_of_getElem? hd, rfl⟩

/-- typed mux, a set select bit (lowest with priority / the only one): the selected operand's value -/
theorem muxZ_select (priority : Bool) (sel : List Bool) (data : List (Shp × Int)) (dflt : Option (Shp × Int))
    (i : Nat) (rest : List Bool) (s : Shp) (z : Int) (hlen : sel.length = data.length)
    (hs : sel = List.replicate i false ++ true :: rest)
    (hp : priority = true ∨ rest = List.replicate rest.length false)
    (hd : data[i]? = some (s, z)) (hfit : fits s z) :
    oneHotMuxZ priority sel data dflt = (unifyShp (data.map (·.1) ++ dflt.toList.map (·.1)), z) := by
  have hv := oneHotMuxZ_value priority sel data dflt s z (mem_shapes_of_data hd) hfit (fun W => by
    have hd' : (data.map (fun d => toBits W d.2))[i]? = some (toBits W z) := by
      rw [List.getElem?_map, hd]; rfl
    rcases hp with hp | hp
    · subst hp
      exact mux_priority sel _ _ i rest _ (by simpa using hlen) hs hd'
    · rw [hp] at hs
      exact mux_onehot sel _ _ i rest.length _ (by simpa using hlen) hs hd' priority)
  exact Prod.ext rfl hv

/-- typed mux, no select bit set: the default operand's value -/
theorem muxZ_default (priority : Bool) (n : Nat) (data : List (Shp × Int)) (s : Shp) (z : Int)
    (hlen : data.length = n) (hfit : fits s z) :
    oneHotMuxZ priority (List.replicate n false) data (some (s, z)) =
      (unifyShp (data.map (·.1) ++ [s]), z) := by
  have hv := oneHotMuxZ_value priority (List.replicate n false) data (some (s, z)) s z
    (by simp) hfit (fun W => by
      exact mux_default priority n _ _ (by simpa using hlen))
  exact Prod.ext rfl hv

end TxV.Encoders
