import TxV.Model.Encoders
/-! Helper lemmas for C38: MultiPriorityEncoder tree, ring encoder, selecting network, one-hot mux. -/
namespace TxV.Encoders

/-! ### `idxs` -/

theorem idxs_append (a b : List Bool) (s : Nat) : idxs (a ++ b) s = idxs a s ++ idxs b (s + a.length) := by
  induction a generalizing s with
  | nil => simp [idxs]
  | cons x xs ih =>
    simp only [List.cons_append, idxs, List.length_cons]
    split <;> simp [ih, Nat.add_assoc, Nat.add_comm 1]

theorem idxs_falses (n s : Nat) : idxs (List.replicate n false) s = [] := by
  induction n generalizing s with
  | zero => rfl
  | succ n ih => simp [List.replicate_succ, idxs, ih]

/-- `idxs` is the ascending list of positions holding `true` -/
theorem idxs_eq_filter (bits : List Bool) (s : Nat) :
    idxs bits s = (List.range' s bits.length).filter (fun j => bits[j - s]? == some true) := by
  induction bits generalizing s with
  | nil => simp [idxs]
  | cons b bs ih =>
    simp only [idxs, List.length_cons, List.range'_succ, List.filter_cons, Nat.sub_self,
      List.getElem?_cons_zero]
    have hrest : List.filter (fun j => (b :: bs)[j - s]? == some true) (List.range' (s + 1) bs.length) =
        List.filter (fun j => bs[j - (s + 1)]? == some true) (List.range' (s + 1) bs.length) := by
      apply List.filter_congr
      intro j hj
      have hj' := (List.mem_range'_1.1 hj).1
      have : j - s = (j - (s + 1)) + 1 := by omega
      rw [this, List.getElem?_cons_succ]
    rw [hrest, ← ih (s + 1)]
    cases b <;> simp

theorem idxs_map_add (bits : List Bool) (s c : Nat) : (idxs bits s).map (· + c) = idxs bits (s + c) := by
  induction bits generalizing s with
  | nil => rfl
  | cons b bs ih =>
    simp only [idxs]
    have := ih (s + 1)
    rw [Nat.add_right_comm] at this
    split <;> simp [this]

theorem mem_idxs {bits : List Bool} {s j : Nat} (h : j ∈ idxs bits s) : s ≤ j ∧ j < s + bits.length := by
  rw [idxs_eq_filter] at h
  have := (List.mem_filter.1 h).1
  have := List.mem_range'_1.1 this
  omega

theorem idxs_length_le (bits : List Bool) (s : Nat) : (idxs bits s).length ≤ bits.length := by
  induction bits generalizing s with
  | nil => simp [idxs]
  | cons b bs ih =>
    simp only [idxs, List.length_cons]
    have := ih (s + 1)
    split <;> simp <;> omega

/-! ### padding -/

theorem padN_merge (K : Nat) (x y : List Nat) :
    (padN K x).take (min x.length K) ++ (padN K y).take (K - min x.length K) = padN K (x ++ y) := by
  unfold padN
  by_cases h : x.length ≤ K
  · have hm : min x.length K = x.length := Nat.min_eq_left h
    rw [hm]
    apply List.ext_getElem?
    intro n
    simp only [List.getElem?_append, List.getElem?_take, List.length_take, List.length_append,
      List.length_replicate, List.getElem?_replicate]
    grind
  · have hm : min x.length K = K := Nat.min_eq_right (by omega)
    rw [hm]
    apply List.ext_getElem?
    intro n
    simp only [List.getElem?_append, List.getElem?_take, List.length_take, List.length_append,
      List.length_replicate, List.getElem?_replicate]
    grind

theorem padB_merge (K n m : Nat) :
    (padB K n).take (min n K) ++ (padB K m).take (K - min n K) = padB K (n + m) := by
  unfold padB
  apply List.ext_getElem?
  intro j
  simp only [List.getElem?_append, List.getElem?_take, List.length_take, List.length_append,
    List.length_replicate, List.getElem?_replicate]
  grind

theorem prefixCount_falses (k : Nat) : prefixCount (List.replicate k false) = some 0 := by
  cases k with
  | zero => rfl
  | succ k => simp [List.replicate_succ, prefixCount]

theorem prefixCount_padB (K n : Nat) : prefixCount (padB K n) = some (min n K) := by
  induction n generalizing K with
  | zero => simp [padB, prefixCount_falses]
  | succ n ih =>
    cases K with
    | zero => simp [padB, prefixCount]
    | succ K =>
      have : padB (K+1) (n+1) = true :: padB K n := by
        apply List.ext_getElem?
        intro j
        cases j with
        | zero => simp [padB, List.replicate_succ]
        | succ j =>
          simp only [padB, List.getElem?_cons_succ, List.getElem?_take, List.getElem?_append,
            List.length_replicate, List.getElem?_replicate]
          grind
      rw [this, prefixCount, ih]; simp

theorem padN_length (K : Nat) (l : List Nat) : (padN K l).length = K := by
  simp [padN]; omega

theorem padB_length (K n : Nat) : (padB K n).length = K := by
  simp [padB]; omega

/-- element `j` of the padded output list: the `j`-th index if there is one, else 0 -/
theorem padN_getElem? (K : Nat) (l : List Nat) (j : Nat) (hj : j < K) :
    (padN K l)[j]? = some (if h : j < l.length then l[j] else 0) := by
  simp only [padN, List.getElem?_take, hj, if_true, List.getElem?_append, List.getElem?_replicate]
  split
  · rename_i h; simp [h]
  · rename_i h; simp [h]; omega

/-- element `j` of the valid flags: set iff `j < n` -/
theorem padB_getElem? (K n : Nat) (j : Nat) (hj : j < K) : (padB K n)[j]? = some (decide (j < n)) := by
  simp only [padB, List.getElem?_take, hj, if_true, List.getElem?_append, List.getElem?_replicate,
    List.length_replicate]
  split
  · rename_i h; simp [h]
  · rename_i h; simp [h]; omega

/-! ### the tree -/

theorem zeros_eq_spec_nil (K start : Nat) : zeros K = spec K [] start := by
  simp [zeros, spec, idxs, padN, padB]

theorem build_eq_spec (K : Nat) : ∀ (fuel : Nat) (bits : List Bool) (start : Nat),
    bits.length ≤ fuel → build K fuel bits start = spec K bits start
  | 0, bits, start, h => by
    have : bits = [] := by cases bits with | nil => rfl | cons _ _ => simp at h
    subst this; simp [build, zeros_eq_spec_nil K start]
  | fuel+1, [], start, _ => by simp [build, zeros_eq_spec_nil K start]
  | fuel+1, [b], start, _ => by
    cases b
    · simp [build, spec, idxs, zeros, padN, padB]
    · simp [build, spec, idxs]
  | fuel+1, b :: b' :: rest, start, h => by
    have hlen : (b :: b' :: rest).length = rest.length + 2 := by simp
    have hmid1 : (b :: b' :: rest).length / 2 ≤ (b :: b' :: rest).length := Nat.div_le_self _ _
    have hr := build_eq_spec K fuel ((b :: b' :: rest).take ((b :: b' :: rest).length / 2)) start
      (by rw [List.length_take]; simp at h ⊢; omega)
    have hl := build_eq_spec K fuel ((b :: b' :: rest).drop ((b :: b' :: rest).length / 2))
      (start + (b :: b' :: rest).length / 2) (by rw [List.length_drop]; simp at h ⊢; omega)
    simp only [build]
    rw [hr, hl]
    simp only [spec, prefixCount_padB, merge]
    have hsplit : idxs (b :: b' :: rest) start =
        idxs ((b :: b' :: rest).take ((b :: b' :: rest).length / 2)) start ++
        idxs ((b :: b' :: rest).drop ((b :: b' :: rest).length / 2)) (start + (b :: b' :: rest).length / 2) := by
      conv => lhs; rw [← List.take_append_drop ((b :: b' :: rest).length / 2) (b :: b' :: rest)]
      rw [idxs_append]; congr 2
      rw [List.length_take]; omega
    rw [hsplit, padN_merge, List.length_append, padB_merge]

theorem mpe_eq_spec (K : Nat) (bits : List Bool) : mpe K bits = spec K bits 0 :=
  build_eq_spec K bits.length bits 0 (Nat.le_refl _)

end TxV.Encoders
