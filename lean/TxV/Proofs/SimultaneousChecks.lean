import TxV.Model.SimultaneousProto
import TxV.Proofs.Simultaneous
/-!
The decidable hypotheses of the C12/C13 theorems, packaged for the line-protocol drivers
(`Driver/C12.lean`, `Driver/C13.lean`): `TxV.Core.shapeC12B`, `nbrOkB`, `shapeC13B`, `linkEnB`, `derEnB`,
`defaultReadyB` and the core's `Bridge.staticOk` / `Bridge.cycleOk`, evaluated on the abstraction
(`Bridge.toAbs`) of the model's post-merge design.  Kept in the library so that starting a driver
does not re-elaborate them.
-/
namespace TxV.SimulProto
open TxV.Core TxV.Core.Bridge

def useOf (u : TxV.Simul.Use) : TxV.Core.CondUse := ⟨u.parent, u.branches, u.hasDefault, u.priority⟩

def checks : Checks (TxV.Core.Design × TxV.Core.Sched) where
  prep := fun D E order => (toAbs D, toSched E order)
  staticOk := staticOk
  cycleOk := cycleOk
  shape12 := fun a u L Dr => shapeC12B a.1 (useOf u) L Dr
  nbr := fun a u => nbrOkB a.1 a.2 (useOf u)
  -- two simultaneous bodies: the symmetric shape (Connect, plain simultaneous()), or one of them is a
  -- transaction nested in the other (the shape of a one-branch condition(): `c13_same_cycles_nested`)
  shape13 := fun a x y L Dr => shapeC13B a.1 x y L || shapeC12B a.1 ⟨x, [y], false, false⟩ L Dr ||
    shapeC12B a.1 ⟨y, [x], false, false⟩ L Dr
  linkEn := fun a v rb L => linkEnB a.1 ⟨v.ready, v.en, v.arg, fun _ _ => true⟩ rb L
  derEn := fun v rb Dr => derEnB ⟨v.ready, v.en, v.arg, fun _ _ => true⟩ rb Dr
  dflt := fun v u => defaultReadyB ⟨v.ready, v.en, v.arg, fun _ _ => true⟩ (useOf u)

def driverMain : IO Unit :=
  TxV.Proto.run (none : Option (St (TxV.Core.Design × TxV.Core.Sched))) (stepLine checks)

end TxV.SimulProto
