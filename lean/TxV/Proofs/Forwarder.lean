import TxV.Model.Forwarder
import TxV.Proofs.QueueUtil
/-! Helper lemmas for C17 (Forwarder). -/
namespace TxV.Forwarder
open TxV.QueueUtil

/-- one cycle keeps `delivered ++ buffer = written` -/
theorem hist_step (s : State) (i : In) (del wr : List Nat) (h : del ++ abs s = wr) :
    (upd (del, wr) (ev (step s i).2)).1 ++ abs (step s i).1 = (upd (del, wr) (ev (step s i).2)).2 := by
  subst h
  obtain ⟨reg, valid⟩ := s
  obtain ⟨w, r, p, c⟩ := i
  cases valid <;> cases w <;> cases r <;> cases c <;> simp [step, upd, ev, abs]

theorem hist_run (is : List In) (s : State) (g : List Nat × List Nat) (h : g.1 ++ abs s = g.2) :
    (histFrom g ((run s is).2.map ev)).1 ++ abs (run s is).1 = (histFrom g ((run s is).2.map ev)).2 :=
  hist_runWith step (fun _ => True) abs ev (fun _ _ _ => trivial)
    (fun s i del wr _ h => hist_step s i del wr h) is s g trivial h

theorem run_snoc (is : List In) (i : In) (s : State) :
    (run s (is ++ [i])).1 = (step (run s is).1 i).1 := by
  simp [run, runWith_append, runWith]

end TxV.Forwarder
