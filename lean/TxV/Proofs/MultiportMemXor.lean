import TxV.Proofs.MultiportMemIdeal
/-!
Helper lemmas for C23, part 3: `MultiportXORMemory` refines the ideal memory.

The invariant relates, at the beginning of a cycle, the ideal contents to the XOR of the banks
*after the pending second-stage write has committed* (`after`), states that all physical copies of
bank `k` hold the same contents `B k`, and that the read ports show the ideal read registers.
-/
namespace TxV.MultiportMem.Xor

/-- row `a` of bank `k` once the pending physical write of port `k` has committed -/
def after (c : Cfg) (s : State) (B : Nat → List Nat) (k a : Nat) : Nat :=
  if nthD false s.pwEn k = true ∧ nthD 0 s.pwAddr k = a then writeXor c s k else rd (B k) a

/-- contents of the banks after the edge -/
def nextB (c : Cfg) (s : State) (B : Nat → List Nat) (k : Nat) : List Nat :=
  if nthD false s.pwEn k = true then (B k).set (nthD 0 s.pwAddr k) (writeXor c s k) else B k

structure Inv (c : Cfg) (s : State) (t : Ideal.State) (B : Nat → List Nat) : Prop where
  fbMem : ∀ k j, k < c.nw → j < c.nw - 1 → (fbBank s k j).mem = B k
  rbMem : ∀ k r, k < c.nw → r < c.nr → (rbBank s k r).mem = B k
  blen : ∀ k, k < c.nw → (B k).length = c.depth
  tlen : t.mem.length = c.depth
  regpw : ∀ k, k < c.nw → nthD 0 s.regAddr k = nthD 0 s.pwAddr k
  pwr : ∀ k, k < c.nw → nthD false s.pwEn k = true → nthD 0 s.pwAddr k < c.depth
  mem : ∀ a, a < c.depth → rd t.mem a = xorAll (fun k => after c s B k a) c.nw
  out : ∀ r, r < c.nr → outR c s r = nthD 0 t.rdata r

/-! ### the state after one edge, field by field -/

section step
variable (c : Cfg) (s : State) (i : In)

theorem step_regData {k : Nat} (hk : k < c.nw) : nthD 0 (step c s i).regData k = i.wData k := by
  simp [step, nthD_tab_lt _ _ hk]
theorem step_regAddr {k : Nat} (hk : k < c.nw) : nthD 0 (step c s i).regAddr k = i.wAddr k := by
  simp [step, nthD_tab_lt _ _ hk]
theorem step_pwAddr {k : Nat} (hk : k < c.nw) : nthD 0 (step c s i).pwAddr k = i.wAddr k := by
  simp [step, nthD_tab_lt _ _ hk]
theorem step_pwEn {k : Nat} (hk : k < c.nw) : nthD false (step c s i).pwEn k = i.wEn k := by
  simp [step, nthD_tab_lt _ _ hk]
theorem step_byAddr {k : Nat} (hk : k < c.nw) : nthD 0 (step c s i).byAddr k = nthD 0 s.regAddr k := by
  simp [step, nthD_tab_lt _ _ hk]
theorem step_byData {k : Nat} (hk : k < c.nw) : nthD 0 (step c s i).byData k = writeXor c s k := by
  simp [step, nthD_tab_lt _ _ hk]
theorem step_byEn {k : Nat} (hk : k < c.nw) : nthD false (step c s i).byEn k = nthD false s.pwEn k := by
  simp [step, nthD_tab_lt _ _ hk]
theorem step_rdAddrBy {r : Nat} (hr : r < c.nr) : nthD 0 (step c s i).rdAddrBy r = i.rAddr r := by
  simp [step, nthD_tab_lt _ _ hr]
theorem step_rdEnBy {r : Nat} (hr : r < c.nr) : nthD false (step c s i).rdEnBy r = i.rEn r := by
  simp [step, nthD_tab_lt _ _ hr]
theorem step_syncData {r : Nat} (hr : r < c.nr) : nthD 0 (step c s i).syncData r = outR c s r := by
  simp [step, nthD_tab_lt _ _ hr]

theorem step_fbBank {k j : Nat} (hk : k < c.nw) (hj : j < c.nw - 1) :
    fbBank (step c s i) k j =
      (fbBank s k j).step true (nthD false s.pwEn k) (nthD 0 s.pwAddr k) (writeXor c s k) true
        (i.wAddr (fbPort k j)) := by
  simp [fbBank, step, nthD_tab_lt _ _ hk, nthD_tab_lt _ _ hj]

theorem step_rbBank {k r : Nat} (hk : k < c.nw) (hr : r < c.nr) :
    rbBank (step c s i) k r =
      (rbBank s k r).step false (nthD false s.pwEn k) (nthD 0 s.pwAddr k) (writeXor c s k) (i.rEn r)
        (i.rAddr r) := by
  simp [rbBank, step, nthD_tab_lt _ _ hk, nthD_tab_lt _ _ hr]

end step

theorem fbSlot_lt {nw m k : Nat} (hm : m < nw) (hk : k < nw) (hne : m ≠ k) : fbSlot m k < nw - 1 := by
  unfold fbSlot; split <;> omega

theorem fbPort_fbSlot {m k : Nat} (hne : m ≠ k) : fbPort m (fbSlot m k) = k := by
  unfold fbPort fbSlot; split <;> split <;> omega

/-- what a feedback read of bank `m` at address `a` latches: the row after the pending write -/
theorem bank_step_tr (b : Bank) (wen : Bool) (wa wd a : Nat) :
    (b.step true wen wa wd true a).rdata = if wen = true ∧ wa = a then wd else rd b.mem a := by
  simp only [Bank.step]
  by_cases h1 : wen = true <;> by_cases h2 : wa = a <;> simp [h1, h2]

theorem bank_step_mem (tr : Bool) (b : Bank) (wen : Bool) (wa wd : Nat) (ren : Bool) (a : Nat) :
    (b.step tr wen wa wd ren a).mem = if wen = true then b.mem.set wa wd else b.mem := by
  simp [Bank.step]

variable {c : Cfg} {s : State} {t : Ideal.State} {B : Nat → List Nat}

/-- second-stage value of port `k` in the next cycle -/
theorem writeXor_step (h : Inv c s t B) (i : In) {k : Nat} (hk : k < c.nw) :
    writeXor c (step c s i) k = i.wData k ^^^ xorExcept (fun m => after c s B m (i.wAddr k)) k c.nw := by
  unfold writeXor
  rw [step_regData c s i hk]
  congr 1
  apply xorExcept_congr
  intro m hm hne
  rw [step_fbBank c s i hm (fbSlot_lt hm hk hne), bank_step_tr, fbPort_fbSlot hne,
    h.fbMem m _ hm (fbSlot_lt hm hk hne)]
  rfl

theorem rd_nextB (h : Inv c s t B) {k : Nat} (hk : k < c.nw) (a : Nat) :
    rd (nextB c s B k) a = after c s B k a := by
  unfold nextB after
  by_cases h1 : nthD false s.pwEn k = true
  · have := h.pwr k hk h1
    rw [← h.blen k hk] at this
    simp only [h1, if_true, true_and, rd_set]
    by_cases h2 : nthD 0 s.pwAddr k = a
    · subst h2
      simp [this]
    · simp [h2]
  · simp [h1]

theorem after_step (h : Inv c s t B) (i : In) {k : Nat} (hk : k < c.nw) (a : Nat) :
    after c (step c s i) (nextB c s B) k a =
      if i.wEn k = true ∧ i.wAddr k = a then
        i.wData k ^^^ xorExcept (fun m => after c s B m (i.wAddr k)) k c.nw
      else after c s B k a := by
  unfold after
  rw [step_pwEn c s i hk, step_pwAddr c s i hk, writeXor_step h i hk, rd_nextB h hk]
  rfl

theorem inv_step_mem (hg : ∀ g ∈ c.grans, g = 0) (h : Inv c s t B) (i : In) (hi : OkIn c i) (a : Nat)
    (ha : a < c.depth) :
    rd (Ideal.step c t i).mem a = xorAll (fun k => after c (step c s i) (nextB c s B) k a) c.nw := by
  simp only [Ideal.step]
  by_cases hex : ∃ j, j < c.nw ∧ i.wEn j = true ∧ i.wAddr j = a
  · obtain ⟨j, hj, hen, haj⟩ := hex
    subst haj
    rw [ideal_write_hit c hg i hi t.mem j hj hen (by rw [h.tlen]; exact ha)]
    symm
    apply xorAll_restore (f := fun m => after c s B m (i.wAddr j)) (i.wData j) hj
    · rw [after_step h i hj]; simp [hen]
    · intro k hk hne
      rw [after_step h i hk]
      have : ¬ (i.wEn k = true ∧ i.wAddr k = i.wAddr j) := fun ⟨h1, h2⟩ =>
        hi.distinct k j hk hj hne h1 hen h2
      simp [this]
  · rw [ideal_write_miss c hg i hi t.mem a (fun j hj hh => hex ⟨j, hj, hh⟩), h.mem a ha]
    apply xorAll_congr
    intro k hk
    rw [after_step h i hk]
    have : ¬ (i.wEn k = true ∧ i.wAddr k = a) := fun hh => hex ⟨k, hk, hh⟩
    simp [this]

/-- the double-stage bypass of the next cycle shows the row after the pending write -/
theorem dsb_step (h : Inv c s t B) (i : In) {r k : Nat} (hr : r < c.nr) (hk : k < c.nw) (hen : i.rEn r = true) :
    dsb (step c s i) r k = after c s B k (i.rAddr r) := by
  unfold dsb after
  rw [step_rdAddrBy c s i hr, step_byAddr c s i hk, step_rdEnBy c s i hr, step_byEn c s i hk,
    step_byData c s i hk, step_rbBank c s i hk hr, h.regpw k hk]
  simp only [Bank.step, hen, h.rbMem k r hk hr]
  by_cases h1 : nthD false s.pwEn k = true
  · by_cases h2 : nthD 0 s.pwAddr k = i.rAddr r
    · simp [h1, h2]
    · have h2' : ¬ i.rAddr r = nthD 0 s.pwAddr k := fun e => h2 e.symm
      simp [h1, h2, h2']
  · simp [h1]

theorem term_step (h : Inv c s t B) (i : In) {r k : Nat} (hr : r < c.nr) (hk : k < c.nw) (hen : i.rEn r = true) :
    term c (step c s i) r k =
      if c.tr r k = true ∧ i.wEn k = true ∧ i.wAddr k = i.rAddr r then
        i.wData k ^^^ xorExcept (fun m => after c s B m (i.wAddr k)) k c.nw
      else after c s B k (i.rAddr r) := by
  unfold term
  rw [step_rdAddrBy c s i hr, step_regAddr c s i hk, step_pwEn c s i hk, writeXor_step h i hk,
    dsb_step h i hr hk hen]
  by_cases h1 : c.tr r k = true
  · by_cases h2 : i.wEn k = true
    · by_cases h3 : i.wAddr k = i.rAddr r
      · simp [h1, h2, h3]
      · have h3' : ¬ i.rAddr r = i.wAddr k := fun e => h3 e.symm
        simp [h1, h2, h3, h3']
    · simp [h2]
  · simp [h1]

theorem inv_step_out (hg : ∀ g ∈ c.grans, g = 0) (h : Inv c s t B) (i : In) (hi : OkIn c i) (r : Nat)
    (hr : r < c.nr) : outR c (step c s i) r = nthD 0 (Ideal.step c t i).rdata r := by
  unfold outR
  simp only [Ideal.step, nthD_tab_lt _ _ hr]
  rw [step_rdEnBy c s i hr, step_syncData c s i hr]
  by_cases hen : i.rEn r = true
  · simp only [hen, if_true]
    have hra : i.rAddr r < c.depth := hi.range.2 r hr
    by_cases hex : ∃ j, j < c.nw ∧ c.tr r j = true ∧ i.wEn j = true ∧ i.wAddr j = i.rAddr r
    · obtain ⟨j, hj, htr, hwe, haj⟩ := hex
      rw [← haj, ideal_read_hit c hg i hi t.mem _ j hj hwe htr]
      apply xorAll_restore (f := fun m => after c s B m (i.wAddr j)) (i.wData j) hj
      · rw [term_step h i hr hj hen]; simp [htr, hwe, haj]
      · intro k hk hne
        rw [term_step h i hr hk hen]
        have : ¬ (c.tr r k = true ∧ i.wEn k = true ∧ i.wAddr k = i.rAddr r) := fun ⟨_, h1, h2⟩ =>
          hi.distinct k j hk hj hne h1 hwe (by rw [h2, haj])
        simp [this, haj]
    · rw [ideal_read_miss c hg i hi t.mem _ _ (fun j hj hh => hex ⟨j, hj, hh⟩), h.mem _ hra]
      apply xorAll_congr
      intro k hk
      rw [term_step h i hr hk hen]
      have : ¬ (c.tr r k = true ∧ i.wEn k = true ∧ i.wAddr k = i.rAddr r) := fun hh => hex ⟨k, hk, hh⟩
      simp [this]
  · simp only [hen]
    exact h.out r hr

theorem inv_step (hg : ∀ g ∈ c.grans, g = 0) (h : Inv c s t B) (i : In) (hi : OkIn c i) :
    Inv c (step c s i) (Ideal.step c t i) (nextB c s B) where
  fbMem k j hk hj := by
    rw [step_fbBank c s i hk hj, bank_step_mem, h.fbMem k j hk hj]; rfl
  rbMem k r hk hr := by
    rw [step_rbBank c s i hk hr, bank_step_mem, h.rbMem k r hk hr]; rfl
  blen k hk := by
    unfold nextB; split <;> simp [h.blen k hk]
  tlen := by simp [Ideal.step, h.tlen]
  regpw k hk := by rw [step_regAddr c s i hk, step_pwAddr c s i hk]
  pwr k hk _ := by rw [step_pwAddr c s i hk]; exact hi.range.1 k hk
  mem a ha := inv_step_mem hg h i hi a ha
  out r hr := inv_step_out hg h i hi r hr

/-! ### reset state -/

theorem xorExcept_zero {f : Nat → Nat} {j n : Nat} (h : ∀ k, k < n → k ≠ j → f k = 0) : xorExcept f j n = 0 := by
  induction n with
  | zero => rfl
  | succ n ih =>
    simp only [xorExcept]
    rw [ih (fun k hk => h k (Nat.lt_succ_of_lt hk))]
    by_cases hn : n = j
    · simp [hn]
    · simp [hn, h n (Nat.lt_succ_self n) hn]

theorem rd_initMem_nil (depth a : Nat) : rd (initMem depth []) a = 0 := by
  unfold rd initMem
  rw [nthD_tab]
  split <;> simp [nthD]

theorem inv_init (c : Cfg) (hnw : 0 < c.nw) : Inv c (init c) (Ideal.init c) (bankInit c) where
  fbMem k j hk hj := by simp [fbBank, init, nthD_tab_lt _ _ hk, nthD_tab_lt _ _ hj]
  rbMem k r hk hr := by simp [rbBank, init, nthD_tab_lt _ _ hk, nthD_tab_lt _ _ hr]
  blen k _ := by simp [bankInit, initMem]
  tlen := by simp [Ideal.init, initMem]
  regpw k hk := by simp [init, nthD_tab_lt _ _ hk]
  pwr k hk h := by simp [init, nthD_tab_lt _ _ hk] at h
  mem a _ := by
    have hafter : ∀ k, k < c.nw → after c (init c) (bankInit c) k a = rd (bankInit c k) a := by
      intro k hk
      simp [after, init, nthD_tab_lt _ _ hk]
    rw [xorAll_congr hafter, xorAll_split hnw, xorExcept_zero]
    · simp [Ideal.init, bankInit]
    · intro k _ hne
      simp [bankInit, hne, rd_initMem_nil]
  out r hr := by
    simp [outR, init, Ideal.init, nthD_tab_lt _ _ hr]

theorem out_eq (h : Inv c s t B) : out c s = Ideal.out c t := by
  unfold out Ideal.out
  exact tab_congr (fun r hr => h.out r hr)

theorem run_eq (hg : ∀ g ∈ c.grans, g = 0) (is : List In) (his : ∀ i ∈ is, OkIn c i) (h : Inv c s t B) :
    run c s is = Ideal.run c t is := by
  induction is generalizing s t B with
  | nil => rfl
  | cons i is ih =>
    simp only [run, Ideal.run]
    rw [out_eq h, ih (fun j hj => his j (by simp [hj])) (inv_step hg h i (his i (by simp)))]

end TxV.MultiportMem.Xor
