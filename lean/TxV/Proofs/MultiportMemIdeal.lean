import TxV.Proofs.MultiportMem
/-!
Helper lemmas for C23, part 2: the ideal memory without granularity under the property's
hypothesis (enabled write ports of one cycle address pairwise distinct rows): what a row holds
after the edge and what a read port latches, in terms of "the unique enabled write port at
that address, if any".
-/
namespace TxV.MultiportMem

/-- write port `x` (without granularity) writes row `a` -/
def HitW (a : Nat) (x : WrIn) : Prop := x.en % 2 = 1 ∧ x.addr = a

instance (a : Nat) (x : WrIn) : Decidable (HitW a x) := by unfold HitW; infer_instance

/-- accessor with the disabled port as default -/
def W (xs : List WrIn) (p : Nat) : WrIn := nthD ⟨0, 0, 0⟩ xs p

@[simp] theorem W_cons_zero (x : WrIn) (xs : List WrIn) : W (x :: xs) 0 = x := by simp [W, nthD]
@[simp] theorem W_cons_succ (x : WrIn) (xs : List WrIn) (p : Nat) : W (x :: xs) (p + 1) = W xs p := by
  simp [W, nthD]
theorem W_nil (p : Nat) : W [] p = ⟨0, 0, 0⟩ := by simp [W, nthD]

theorem not_hit_default (a : Nat) : ¬ HitW a (⟨0, 0, 0⟩ : WrIn) := by simp [HitW]

theorem wmerge_zero (w e old data : Nat) : wmerge w 0 e old data = if e % 2 = 1 then data else old := by
  simp [wmerge]

@[simp] theorem write1_length (w g : Nat) (m : List Nat) (x : WrIn) : (write1 w g m x).length = m.length := by
  simp [write1]

@[simp] theorem applyWrites_length (w : Nat) (gs : List Nat) (xs : List WrIn) (m : List Nat) :
    (applyWrites w gs xs m).length = m.length := by
  induction xs generalizing gs m with
  | nil => cases gs <;> simp [applyWrites]
  | cons x xs ih =>
    cases gs with
    | nil => simp [applyWrites]
    | cons g gs => simp [applyWrites, ih]

theorem rd_write1_zero (w : Nat) (m : List Nat) (x : WrIn) (a : Nat) :
    rd (write1 w 0 m x) a = if HitW a x ∧ a < m.length then x.data else rd m a := by
  unfold write1 HitW
  rw [rd_set, wmerge_zero]
  by_cases h1 : x.addr = a
  · subst h1
    by_cases h2 : x.en % 2 = 1
    · by_cases h3 : x.addr < m.length <;> simp [h2, h3]
    · simp [h2]
  · simp [h1]

/-- no enabled write port addresses row `a`: the row keeps its contents -/
theorem rd_applyWrites_miss (w : Nat) (gs : List Nat) (hg : ∀ g ∈ gs, g = 0) (xs : List WrIn) (m : List Nat)
    (a : Nat) (h : ∀ p, ¬ HitW a (W xs p)) : rd (applyWrites w gs xs m) a = rd m a := by
  induction xs generalizing gs m with
  | nil => cases gs <;> simp [applyWrites]
  | cons x xs ih =>
    cases gs with
    | nil => simp [applyWrites]
    | cons g gs =>
      have hg0 : g = 0 := hg g (by simp)
      subst hg0
      simp only [applyWrites]
      rw [ih gs (fun g hg' => hg g (by simp [hg'])) _ (fun p => by simpa using h (p + 1))]
      rw [rd_write1_zero]
      have := h 0
      simp at this
      simp [this]

/-- port `p` is the only enabled write port addressing row `a`: the row holds its data -/
theorem rd_applyWrites_hit (w : Nat) (gs : List Nat) (hg : ∀ g ∈ gs, g = 0) (xs : List WrIn) (m : List Nat)
    (a p : Nat) (hlen : xs.length ≤ gs.length) (ha : a < m.length)
    (hp : HitW a (W xs p)) (hq : ∀ q, q ≠ p → ¬ HitW a (W xs q)) :
    rd (applyWrites w gs xs m) a = (W xs p).data := by
  induction xs generalizing gs m p with
  | nil => rw [W_nil] at hp; exact absurd hp (not_hit_default a)
  | cons x xs ih =>
    cases gs with
    | nil => simp at hlen
    | cons g gs =>
      have hg0 : g = 0 := hg g (by simp)
      subst hg0
      have hgs : ∀ g ∈ gs, g = 0 := fun g hg' => hg g (by simp [hg'])
      simp only [applyWrites]
      cases p with
      | zero =>
        rw [rd_applyWrites_miss w gs hgs xs _ a (fun q => by simpa using hq (q + 1) (by omega))]
        rw [rd_write1_zero]
        simp at hp
        simp [hp, ha]
      | succ p =>
        simp only [W_cons_succ] at hp ⊢
        apply ih gs hgs _ p (by simpa using hlen) (by simpa using ha) hp
        intro q hqp
        simpa using hq (q + 1) (by omega)

theorem overlay_miss (w t a : Nat) (j0 : Nat) (gs : List Nat) (hg : ∀ g ∈ gs, g = 0) (xs : List WrIn) (v : Nat)
    (h : ∀ p, ¬ (t.testBit (j0 + p) = true ∧ HitW a (W xs p))) : overlay w t a j0 gs xs v = v := by
  induction xs generalizing gs j0 v with
  | nil => cases gs <;> simp [overlay]
  | cons x xs ih =>
    cases gs with
    | nil => simp [overlay]
    | cons g gs =>
      have hg0 : g = 0 := hg g (by simp)
      subst hg0
      simp only [overlay]
      have h0 := h 0
      simp only [Nat.add_zero, W_cons_zero] at h0
      have : (if (t.testBit j0 && x.addr == a) = true then wmerge w 0 x.en v x.data else v) = v := by
        rw [wmerge_zero]
        by_cases h1 : t.testBit j0 = true
        · by_cases h2 : x.addr = a
          · have : ¬ x.en % 2 = 1 := fun h3 => h0 ⟨h1, h3, h2⟩
            simp [this]
          · simp [h2]
        · simp [h1]
      rw [this]
      apply ih (j0 + 1) gs (fun g hg' => hg g (by simp [hg']))
      intro p
      have := h (p + 1)
      simpa [Nat.add_assoc, Nat.add_comm 1 p] using this

theorem overlay_hit (w t a : Nat) (j0 : Nat) (gs : List Nat) (hg : ∀ g ∈ gs, g = 0) (xs : List WrIn) (v : Nat)
    (p : Nat) (hlen : xs.length ≤ gs.length) (ht : t.testBit (j0 + p) = true) (hp : HitW a (W xs p))
    (hq : ∀ q, q ≠ p → ¬ (t.testBit (j0 + q) = true ∧ HitW a (W xs q))) :
    overlay w t a j0 gs xs v = (W xs p).data := by
  induction xs generalizing gs j0 v p with
  | nil => rw [W_nil] at hp; exact absurd hp (not_hit_default a)
  | cons x xs ih =>
    cases gs with
    | nil => simp at hlen
    | cons g gs =>
      have hg0 : g = 0 := hg g (by simp)
      subst hg0
      have hgs : ∀ g ∈ gs, g = 0 := fun g hg' => hg g (by simp [hg'])
      simp only [overlay]
      cases p with
      | zero =>
        simp only [Nat.add_zero, W_cons_zero] at ht hp ⊢
        rw [overlay_miss w t a (j0 + 1) gs hgs xs]
        · rw [wmerge_zero]
          simp [ht, hp.1, hp.2]
        · intro q
          have := hq (q + 1) (by omega)
          simpa [Nat.add_assoc, Nat.add_comm 1 q] using this
      | succ p =>
        simp only [W_cons_succ] at hp ⊢
        have h0 := hq 0 (by omega)
        simp only [Nat.add_zero, W_cons_zero] at h0
        have : (if (t.testBit j0 && x.addr == a) = true then wmerge w 0 x.en v x.data else v) = v := by
          rw [wmerge_zero]
          by_cases h1 : t.testBit j0 = true
          · by_cases h2 : x.addr = a
            · have : ¬ x.en % 2 = 1 := fun h3 => h0 ⟨h1, h3, h2⟩
              simp [this]
            · simp [h2]
          · simp [h1]
        rw [this]
        apply ih (j0 + 1) gs hgs v p (by simpa using hlen)
        · simpa [Nat.add_assoc, Nat.add_comm 1 p] using ht
        · exact hp
        · intro q hqp
          have := hq (q + 1) (by omega)
          simpa [Nat.add_assoc, Nat.add_comm 1 q] using this

/-! ### in terms of the port accessors of `In` -/

/-- well-formed port values of one cycle for a memory without granularity: one entry per write
    port, one-bit enables, all addresses are rows, and the property's hypothesis -/
structure OkIn (c : Cfg) (i : In) : Prop where
  wlen : i.ws.length = c.nw
  en1 : ∀ j, j < c.nw → (i.w j).en ≤ 1
  range : InRange c.depth c.nw c.nr i
  distinct : DistinctRows c.nw i

theorem In.w_eq_W (i : In) (j : Nat) : i.w j = W i.ws j := rfl

theorem wEn_iff_hit (c : Cfg) (i : In) (h : OkIn c i) (j a : Nat) :
    HitW a (W i.ws j) ↔ (j < c.nw ∧ i.wEn j = true ∧ i.wAddr j = a) := by
  unfold HitW In.wEn In.wAddr
  rw [In.w_eq_W]
  by_cases hj : j < c.nw
  · have := h.en1 j hj
    rw [In.w_eq_W] at this
    simp only [hj, true_and, bne_iff_ne, ne_eq]
    constructor
    · rintro ⟨h1, h2⟩; exact ⟨by omega, h2⟩
    · rintro ⟨h1, h2⟩; exact ⟨by omega, h2⟩
  · have : W i.ws j = ⟨0, 0, 0⟩ := by
      unfold W
      apply nthD_of_ge
      rw [h.wlen]; omega
    simp [this, hj]

/-- the row an enabled write port addresses holds that port's data after the edge -/
theorem ideal_write_hit (c : Cfg) (hg : ∀ g ∈ c.grans, g = 0) (i : In) (h : OkIn c i) (m : List Nat)
    (j : Nat) (hj : j < c.nw) (hen : i.wEn j = true) (ha : i.wAddr j < m.length) :
    rd (applyWrites c.w c.grans i.ws m) (i.wAddr j) = i.wData j := by
  have := rd_applyWrites_hit c.w c.grans hg i.ws m (i.wAddr j) j (by rw [h.wlen]; exact Nat.le_refl _) ha
    ((wEn_iff_hit c i h j _).mpr ⟨hj, hen, rfl⟩)
    (fun q hq hh => by
      have ⟨hq1, hq2, hq3⟩ := (wEn_iff_hit c i h q _).mp hh
      exact h.distinct q j hq1 hj hq hq2 hen hq3)
  rw [this]; rfl

/-- a row that no enabled write port addresses keeps its contents -/
theorem ideal_write_miss (c : Cfg) (hg : ∀ g ∈ c.grans, g = 0) (i : In) (h : OkIn c i) (m : List Nat) (a : Nat)
    (hno : ∀ j, j < c.nw → ¬ (i.wEn j = true ∧ i.wAddr j = a)) :
    rd (applyWrites c.w c.grans i.ws m) a = rd m a := by
  apply rd_applyWrites_miss c.w c.grans hg
  intro p hh
  have ⟨h1, h2, h3⟩ := (wEn_iff_hit c i h p _).mp hh
  exact hno p h1 ⟨h2, h3⟩

/-- a read port transparent for the enabled write port `j` that addresses the row it reads
    latches that port's data -/
theorem ideal_read_hit (c : Cfg) (hg : ∀ g ∈ c.grans, g = 0) (i : In) (h : OkIn c i) (m : List Nat) (t : Nat)
    (j : Nat) (hj : j < c.nw) (hen : i.wEn j = true) (ht : t.testBit j = true) :
    readVal c.w c.grans m i.ws t (i.wAddr j) = i.wData j := by
  unfold readVal
  have := overlay_hit c.w t (i.wAddr j) 0 c.grans hg i.ws (rd m (i.wAddr j)) j
    (by rw [h.wlen]; exact Nat.le_refl _) (by simpa using ht)
    ((wEn_iff_hit c i h j _).mpr ⟨hj, hen, rfl⟩)
    (fun q hq hh => by
      have ⟨hq1, hq2, hq3⟩ := (wEn_iff_hit c i h q _).mp hh.2
      exact h.distinct q j hq1 hj hq hq2 hen hq3)
  rw [this]; rfl

/-- otherwise it latches the row as it is before the edge -/
theorem ideal_read_miss (c : Cfg) (hg : ∀ g ∈ c.grans, g = 0) (i : In) (h : OkIn c i) (m : List Nat) (t a : Nat)
    (hno : ∀ j, j < c.nw → ¬ (t.testBit j = true ∧ i.wEn j = true ∧ i.wAddr j = a)) :
    readVal c.w c.grans m i.ws t a = rd m a := by
  unfold readVal
  apply overlay_miss c.w t a 0 c.grans hg
  intro p hh
  have ⟨h1, h2, h3⟩ := (wEn_iff_hit c i h p _).mp hh.2
  exact hno p h1 ⟨by simpa using hh.1, h2, h3⟩

end TxV.MultiportMem
