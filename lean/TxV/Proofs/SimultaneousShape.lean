import TxV.Model.Simultaneous
import TxV.Proofs.Simultaneous
/-!
# The shape of the merged design, PROVED from the executable model of `_simultaneous`

* generic facts about the worklist closure (`closure_sound`, `closure_complete`), the maximal-group
  filter and the canonical sort;
* `simultaneous_shape_basic`: for one parent transaction with `n` branches (`condition()` in a
  transaction, any `n ≥ 1`, with or without `priority`), every successful run of the model of
  `_simultaneous` yields a design with `ShapeC12`;
* `simultaneous_shape_connect`: for `w` writers × `r` readers of one `Connect` (any `w, r ≥ 1`) it yields a
  design with `ShapeC13` for (`write`, `read`).
-/
namespace TxV.Simul
open TxV.CoreModel

/-! ## sets -/

theorem mem_norm {n : Nat} {l : List Nat} {x : Nat} : x ∈ norm n l ↔ x < n ∧ x ∈ l := by
  simp [norm, List.mem_filter]

theorem norm_congr {n : Nat} {a b : List Nat} (h : ∀ x, x ∈ a ↔ x ∈ b) : norm n a = norm n b := by
  unfold norm
  apply List.filter_congr
  intro x _
  have := h x
  by_cases hx : x ∈ a
  · simp [hx, this.1 hx]
  · have : x ∉ b := fun hb => hx (this.2 hb)
    simp [hx, this]

theorem mem_union {n : Nat} {a b : List Nat} {x : Nat} : x ∈ union n a b ↔ x < n ∧ (x ∈ a ∨ x ∈ b) := by
  simp [union, mem_norm]

theorem mem_dedupGroups : ∀ {l : List (List Nat)} {g : List Nat}, g ∈ dedupGroups l ↔ g ∈ l
  | [], g => by simp [dedupGroups]
  | h :: t, g => by
    simp only [dedupGroups, List.mem_cons, List.mem_filter, mem_dedupGroups (l := t)]
    by_cases hg : g = h
    · simp [hg]
    · simp [hg]

theorem mem_insertSorted {g x : List Nat} : ∀ {l : List (List Nat)}, x ∈ insertSorted g l ↔ x = g ∨ x ∈ l
  | [] => by simp [insertSorted]
  | h :: t => by
    simp only [insertSorted]
    split
    · simp
    · simp only [List.mem_cons, mem_insertSorted (l := t)]
      constructor
      · rintro (h1 | h1 | h1)
        · exact Or.inr (Or.inl h1)
        · exact Or.inl h1
        · exact Or.inr (Or.inr h1)
      · rintro (h1 | h1 | h1)
        · exact Or.inr (Or.inl h1)
        · exact Or.inl h1
        · exact Or.inr (Or.inr h1)

theorem mem_sortGroups {x : List Nat} : ∀ {l : List (List Nat)}, x ∈ sortGroups l ↔ x ∈ l
  | [] => by simp [sortGroups]
  | h :: t => by simp [sortGroups, mem_insertSorted, mem_sortGroups (l := t)]

/-! ## the worklist closure -/

/-- soundness: if the queue only holds groups that are good or conflicting, and joining a good group with
a pair it meets gives a good or conflicting group, then the result only holds good groups -/
theorem closure_sound (n : Nat) (pairs sets : List (List Nat)) (Good : List Nat → Prop)
    (hstep : ∀ g, Good g → ∀ p ∈ pairs, meets g p = true → Good (union n g p) ∨ conflicting sets (union n g p) = true) :
    ∀ (fuel : Nat) (q tr T : List (List Nat)), closure n pairs sets fuel q tr = some T →
      (∀ g ∈ q, Good g ∨ conflicting sets g = true) → (∀ g ∈ tr, Good g) → ∀ g ∈ T, Good g := by
  intro fuel
  induction fuel with
  | zero =>
    intro q tr T h hq htr
    cases q with
    | nil => simp [closure] at h; subst h; exact htr
    | cons _ _ => simp [closure] at h
  | succ f ih =>
    intro q tr T h hq htr
    cases q with
    | nil => simp [closure] at h; subst h; exact htr
    | cons g q =>
      simp only [closure] at h
      split at h
      · exact ih q tr T h (fun x hx => hq x (List.mem_cons_of_mem _ hx)) htr
      · rename_i hc
        simp only [Bool.or_eq_true, not_or, Bool.not_eq_true] at hc
        have hg : Good g := by
          rcases hq g (List.mem_cons_self ..) with h1 | h1
          · exact h1
          · rw [hc.2] at h1; cases h1
        apply ih _ _ T h
        · intro x hx
          simp only [List.mem_append, List.mem_map, List.mem_filter] at hx
          rcases hx with hx | ⟨p, ⟨hp, hm⟩, rfl⟩
          · exact hq x (List.mem_cons_of_mem _ hx)
          · exact hstep g hg p hp hm
        · intro x hx
          simp only [List.mem_append, List.mem_singleton] at hx
          rcases hx with hx | rfl
          · exact htr x hx
          · exact hg

/-- completeness: a non-conflicting group that is in the queue (or already accepted) is in the result -/
theorem closure_complete (n : Nat) (pairs sets : List (List Nat)) :
    ∀ (fuel : Nat) (q tr T : List (List Nat)), closure n pairs sets fuel q tr = some T →
      ∀ g, (g ∈ q ∨ g ∈ tr) → conflicting sets g = false → g ∈ T := by
  intro fuel
  induction fuel with
  | zero =>
    intro q tr T h g hg _
    cases q with
    | nil => simp [closure] at h; subst h; simpa using hg
    | cons _ _ => simp [closure] at h
  | succ f ih =>
    intro q tr T h g hg hnc
    cases q with
    | nil => simp [closure] at h; subst h; simpa using hg
    | cons g0 q =>
      simp only [closure] at h
      split at h
      · rename_i hc
        apply ih q tr T h g _ hnc
        rcases hg with hg | hg
        · simp only [List.mem_cons] at hg
          rcases hg with rfl | hg
          · simp only [Bool.or_eq_true] at hc
            rcases hc with hc | hc
            · exact Or.inr (by simpa using hc)
            · rw [hnc] at hc; cases hc
          · exact Or.inl hg
        · exact Or.inr hg
      · apply ih _ _ T h g _ hnc
        rcases hg with hg | hg
        · simp only [List.mem_cons] at hg
          rcases hg with rfl | hg
          · exact Or.inr (by simp)
          · exact Or.inl (by simp [hg])
        · exact Or.inr (by simp [hg])

theorem mem_maximalGroups {tr : List (List Nat)} {g : List Nat} :
    g ∈ maximalGroups tr ↔ g ∈ tr ∧ ∀ g2 ∈ tr, subset g g2 = true → g = g2 := by
  simp only [maximalGroups, List.mem_filter, Bool.not_eq_true', List.any_eq_false, Bool.and_eq_true, bne_iff_ne,
    not_and, Decidable.not_not]


/-! ## ascending lists -/

theorem norm_pairwise (n : Nat) (l : List Nat) : (norm n l).Pairwise (· < ·) :=
  List.Pairwise.filter _ List.pairwise_lt_range

/-- an ascending list with exactly the members `a < b` is `[a, b]` -/
theorem eq_pair_of_mem {l : List Nat} {a b : Nat} (hs : l.Pairwise (· < ·)) (hab : a < b)
    (hm : ∀ x, x ∈ l ↔ x = a ∨ x = b) : l = [a, b] := by
  match l, hs, hm with
  | [], _, hm => exact absurd ((hm a).2 (Or.inl rfl)) (by simp)
  | [x], _, hm =>
    have h1 := (hm a).2 (Or.inl rfl)
    have h2 := (hm b).2 (Or.inr rfl)
    simp at h1 h2; omega
  | x :: y :: rest, hs, hm =>
    have hxy : x < y := (List.pairwise_cons.1 hs).1 y (by simp)
    have hx := (hm x).1 (by simp)
    have hy := (hm y).1 (by simp)
    have hxa : x = a := by rcases hx with h | h <;> rcases hy with h' | h' <;> omega
    have hyb : y = b := by rcases hx with h | h <;> rcases hy with h' | h' <;> omega
    have hrest : rest = [] := by
      cases rest with
      | nil => rfl
      | cons z zs =>
        have hyz : y < z := (List.pairwise_cons.1 (List.pairwise_cons.1 hs).2).1 z (by simp)
        have hz := (hm z).1 (by simp)
        omega
    subst hxa hyb hrest; rfl

theorem norm_pair {n a b : Nat} (hab : a < b) (hb : b < n) : norm n [a, b] = [a, b] ∧ norm n [b, a] = [a, b] := by
  constructor
  · apply eq_pair_of_mem (norm_pairwise _ _) hab
    intro x; simp only [mem_norm, List.mem_cons, List.not_mem_nil, or_false]; omega
  · apply eq_pair_of_mem (norm_pairwise _ _) hab
    intro x; simp only [mem_norm, List.mem_cons, List.not_mem_nil, or_false]; omega

theorem mem_consecutive : ∀ {l : List Nat} {a b : Nat}, (a, b) ∈ Core.consecutive l →
    ∃ i, ∃ (h : i + 1 < l.length), a = l[i]'(by omega) ∧ b = l[i + 1]'h
  | [], _, _, h => by simp [Core.consecutive] at h
  | [_], _, _, h => by simp [Core.consecutive] at h
  | x :: y :: t, a, b, h => by
    simp only [Core.consecutive, List.mem_cons, Prod.mk.injEq] at h
    rcases h with ⟨rfl, rfl⟩ | h
    · exact ⟨0, by simp, rfl, rfl⟩
    · obtain ⟨i, hi, ha, hb⟩ := mem_consecutive (l := y :: t) h
      exact ⟨i + 1, by simpa using hi, by simpa using ha, by simpa using hb⟩

theorem offsets_length : ∀ (gs : List (List Nat)) (o : Nat), (offsets gs o).length = gs.length
  | [], _ => rfl
  | _ :: t, o => by simp [offsets, offsets_length t]


/-! ## the structure of `mergeOut` -/

section mergeOut
variable (D : Design) (nus : Nat) (cc allSim : List BodyId) (groups : List (List BodyId))

theorem post_bodies :
    (mergeOut D nus cc allSim groups).D.bodies =
      D.bodies.mapIdx (oldBody allSim (mergeOut D nus cc allSim groups).dropped) ++
      (groups.zip (offsets groups nus)).mapIdx fun k go => mergedBody (maxModule D + 1) D.bodies.length k go.2 go.1 := rfl

theorem post_length : (mergeOut D nus cc allSim groups).D.bodies.length = D.bodies.length + groups.length := by
  rw [post_bodies]; simp [offsets_length]

theorem post_body_old {b : Nat} (hb : b < D.bodies.length) :
    (mergeOut D nus cc allSim groups).D.body? b =
      some (oldBody allSim (mergeOut D nus cc allSim groups).dropped b (D.bodies[b])) := by
  unfold Design.body?
  rw [post_bodies, List.getElem?_append_left (by simpa using hb)]
  simp [List.getElem?_mapIdx, List.getElem?_eq_getElem hb]

theorem post_body_merged {k : Nat} (hk : k < groups.length) :
    (mergeOut D nus cc allSim groups).D.body? (D.bodies.length + k) =
      some (mergedBody (maxModule D + 1) D.bodies.length k
        ((offsets groups nus)[k]'(by rw [offsets_length]; exact hk)) (groups[k])) := by
  unfold Design.body?
  rw [post_bodies, List.getElem?_append_right (by simp)]
  have hz : k < (groups.zip (offsets groups nus)).length := by simp [offsets_length, hk]
  simp [List.getElem?_mapIdx, List.getElem?_eq_getElem hz]

theorem post_body_none {b : Nat} (hb : D.bodies.length + groups.length ≤ b) :
    (mergeOut D nus cc allSim groups).D.body? b = none := by
  unfold Design.body?
  apply List.getElem?_eq_none
  rw [post_length]; exact hb

theorem post_enDeps :
    (mergeOut D nus cc allSim groups).enDeps =
      (groups.zip (offsets groups nus)).flatMap fun go => go.1.mapIdx fun j t => (go.2 + j, enDepsOf D cc t) := rfl

end mergeOut


/-! ## the basic family: one parent transaction, `n` branches -/

/-- body.py:94 `parent.schedule_before(self, ready_dependent=True)` -/
def nestRelM (i : Nat) : Rel := ⟨i, .left, false, true, false⟩
/-- simultaneous.py:83 `transactions[-1].schedule_before(transaction._body)` -/
def beforeRelM (i : Nat) : Rel := ⟨i, .left, false, false, false⟩

/-- the transaction in which `condition()` is used (simultaneous.py:97:
`this.simultaneous_alternatives(*transactions)`) -/
def basicParent (n : Nat) : Body :=
  { isTrans := true, defPath := ⟨0, []⟩, defOrder := 0,
    rels := (List.range n).map fun i => nestRelM (i + 1),
    simul := (List.range n).map (· + 1) }

/-- the `i`-th branch (body `i + 1`): a transaction nested in the parent, simultaneous with it; the first
one carries the independence list; with `priority` each is scheduled before the next -/
def basicBranch (n : Nat) (prio : Bool) (i : Nat) : Body :=
  { isTrans := true, defPath := ⟨0, [⟨0, 0⟩]⟩, defOrder := i + 1,
    rels := if prio && decide (i + 1 < n) then [beforeRelM (i + 2)] else [],
    simul := [0],
    indep := if i == 0 then (List.range (n - 1)).map (· + 2) else [] }

/-- the PRE-merge design of `with condition(m, priority=prio) as branch:` with `n` branches inside one
transaction (no calls: what the branches call does not influence `_simultaneous` as long as the
callees are called unconditionally and have no simultaneity constraints of their own) -/
def basicPre (n : Nat) (prio : Bool) : Design :=
  { bodies := basicParent n :: (List.range n).map (basicBranch n prio),
    transactions := List.range (n + 1), methods := [] }

section basic
variable (n : Nat) (prio : Bool)

theorem basic_length : (basicPre n prio).bodies.length = n + 1 := by simp [basicPre]

theorem basic_body_zero : (basicPre n prio).body? 0 = some (basicParent n) := by
  simp [Design.body?, basicPre]

theorem basic_body_succ {i : Nat} (hi : i < n) : (basicPre n prio).body? (i + 1) = some (basicBranch n prio i) := by
  simp [Design.body?, basicPre, hi]

theorem basic_body_none {b : Nat} (hb : n + 1 ≤ b) : (basicPre n prio).body? b = none := by
  unfold Design.body?
  apply List.getElem?_eq_none
  rw [basic_length]; exact hb

theorem basic_calls (b : Nat) : (basicPre n prio).calls b = [] := by
  unfold Design.calls
  rcases Nat.lt_or_ge b (n + 1) with hb | hb
  · cases b with
    | zero => rw [basic_body_zero]; rfl
    | succ i => rw [basic_body_succ n prio (by omega)]; rfl
  · rw [basic_body_none n prio hb]

theorem basic_mat : (basicPre n prio).methodsAndTransactions = List.range (n + 1) := by
  simp [Design.methodsAndTransactions, basicPre]

theorem basic_simul_zero : simulOf (basicPre n prio) 0 = (List.range n).map (· + 1) := by
  simp [simulOf, basic_body_zero, basicParent]

theorem basic_simul_succ {i : Nat} (hi : i < n) : simulOf (basicPre n prio) (i + 1) = [0] := by
  simp [simulOf, basic_body_succ n prio hi, basicBranch]

theorem basic_indep_zero : indepOf (basicPre n prio) 0 = [] := by
  simp [indepOf, basic_body_zero, basicParent]

theorem basic_indep_one (hn : 0 < n) : indepOf (basicPre n prio) 1 = (List.range (n - 1)).map (· + 2) := by
  have := basic_body_succ n prio (i := 0) hn
  simp only [Nat.zero_add] at this
  simp [indepOf, this, basicBranch]

theorem basic_indep_succ {i : Nat} (hi : i + 1 < n) : indepOf (basicPre n prio) (i + 2) = [] := by
  have := basic_body_succ n prio (i := i + 1) hi
  simp [indepOf, this, basicBranch]

theorem basic_validateAll : validateAll (basicPre n prio) = .ok () := by
  unfold validateAll
  generalize (basicPre n prio).methodsAndTransactions = l
  induction l with
  | nil => rfl
  | cons r t ih =>
    simp only [List.foldlM_cons]
    have : validateRoot (basicPre n prio) r = .ok () := by
      simp [validateRoot, recRoot, fuelOf, basic_calls, Except.map]
      rfl
    rw [this]; exact ih

theorem basic_transFor (b : Nat) : (methodMap (basicPre n prio)).transFor b = [b] := by
  simp [MethodMap.transFor, methodMap, basicPre]

theorem basic_condCalled : conditionallyCalled (basicPre n prio) (methodMap (basicPre n prio)) = .ok [] := by
  simp [conditionallyCalled, condCalledDirect, basicPre, infect, infectRound]


theorem flatMap_single {α} (l : List α) : (l.flatMap fun b => [b]) = l := by
  induction l with
  | nil => rfl
  | cons a t ih => simp [List.flatMap_cons, ih]

theorem basic_mem_indepOf {x e : Nat} : x ∈ indepOf (basicPre n prio) e ↔ e = 1 ∧ 2 ≤ x ∧ x ≤ n := by
  match e with
  | 0 => simp [basic_indep_zero]
  | 1 =>
    rcases Nat.eq_zero_or_pos n with h0 | hn
    · subst h0
      have : (basicPre 0 prio).body? 1 = none := basic_body_none 0 prio (by omega)
      simp only [indepOf, this, List.not_mem_nil, false_iff]
      omega
    · rw [basic_indep_one n prio hn]
      simp only [List.mem_map, List.mem_range]
      constructor
      · rintro ⟨a, ha, rfl⟩; exact ⟨trivial, by omega, by omega⟩
      · rintro ⟨_, h1, h2⟩; exact ⟨x - 2, by omega, by omega⟩
  | i + 2 =>
    rcases Nat.lt_or_ge (i + 1) n with h | h
    · rw [basic_indep_succ n prio h]; simp
    · have : (basicPre n prio).body? (i + 2) = none := basic_body_none n prio (by omega)
      simp [indepOf, this]

theorem basic_mem_simulOf {s e : Nat} :
    s ∈ simulOf (basicPre n prio) e ↔ (e = 0 ∧ 1 ≤ s ∧ s ≤ n) ∨ (1 ≤ e ∧ e ≤ n ∧ s = 0) := by
  match e with
  | 0 =>
    rw [basic_simul_zero]
    simp only [List.mem_map, List.mem_range]
    constructor
    · rintro ⟨a, ha, rfl⟩; exact Or.inl ⟨trivial, by omega, by omega⟩
    · rintro (⟨_, h1, h2⟩ | ⟨h, _⟩)
      · exact ⟨s - 1, by omega, by omega⟩
      · omega
  | i + 1 =>
    rcases Nat.lt_or_ge i n with h | h
    · rw [basic_simul_succ n prio h]; simp; omega
    · have : (basicPre n prio).body? (i + 1) = none := basic_body_none n prio (by omega)
      simp [simulOf, this]; omega

theorem basic_mem_flatMap_transFor {a : Nat} {l : List Nat} :
    a ∈ List.flatMap (methodMap (basicPre n prio)).transFor l ↔ a ∈ l := by
  simp only [List.mem_flatMap, basic_transFor, List.mem_singleton]
  constructor
  · rintro ⟨y, hy, rfl⟩; exact hy
  · intro h; exact ⟨a, h, rfl⟩

theorem basic_independent (a b : Nat) :
    independent (indepSets (basicPre n prio) (methodMap (basicPre n prio))) a b = true ↔
      ∃ e, e < n + 1 ∧ (a = e ∨ a ∈ indepOf (basicPre n prio) e) ∧ (b = e ∨ b ∈ indepOf (basicPre n prio) e) := by
  simp only [independent, indepSets, basic_mat, List.any_map, List.any_eq_true,
    List.mem_range, Function.comp, Bool.and_eq_true, List.contains_eq_mem, decide_eq_true_eq,
    basic_mem_flatMap_transFor, List.mem_cons]

theorem basic_indep_parent {i : Nat} (hi : 1 ≤ i) :
    independent (indepSets (basicPre n prio) (methodMap (basicPre n prio))) 0 i = false ∧
    independent (indepSets (basicPre n prio) (methodMap (basicPre n prio))) i 0 = false := by
  constructor
  · apply Bool.eq_false_iff.2
    intro h
    obtain ⟨e, _, h1, h2⟩ := (basic_independent n prio 0 i).1 h
    rcases h1 with h1 | h1
    · subst h1
      rcases h2 with h2 | h2
      · omega
      · rw [basic_indep_zero] at h2; cases h2
    · have := (basic_mem_indepOf n prio).1 h1; omega
  · apply Bool.eq_false_iff.2
    intro h
    obtain ⟨e, _, h1, h2⟩ := (basic_independent n prio i 0).1 h
    rcases h2 with h2 | h2
    · subst h2
      rcases h1 with h1 | h1
      · omega
      · rw [basic_indep_zero] at h1; cases h1
    · have := (basic_mem_indepOf n prio).1 h2; omega

theorem basic_indep_branches {i j : Nat} (hi : 1 ≤ i) (hin : i ≤ n) (hj : 1 ≤ j) (hjn : j ≤ n) :
    independent (indepSets (basicPre n prio) (methodMap (basicPre n prio))) i j = true := by
  apply (basic_independent n prio i j).2
  refine ⟨1, by omega, ?_, ?_⟩
  · by_cases h : i = 1
    · exact Or.inl h
    · exact Or.inr ((basic_mem_indepOf n prio).2 ⟨rfl, by omega, hin⟩)
  · by_cases h : j = 1
    · exact Or.inl h
    · exact Or.inr ((basic_mem_indepOf n prio).2 ⟨rfl, by omega, hjn⟩)

theorem basic_mem_rawPairs {a b : Nat} :
    (a, b) ∈ rawPairs (basicPre n prio) (methodMap (basicPre n prio)) ↔
      a < n + 1 ∧ b ∈ simulOf (basicPre n prio) a := by
  simp only [rawPairs, basic_mat, basic_transFor, List.mem_flatMap, List.mem_range, List.mem_map, List.mem_singleton,
    Prod.mk.injEq]
  constructor
  · rintro ⟨e, he, s, hs, t1, rfl, t2, rfl, rfl, rfl⟩; exact ⟨he, hs⟩
  · rintro ⟨ha, hb⟩; exact ⟨a, ha, b, hb, a, rfl, b, rfl, rfl, rfl⟩

/-- the groups the model computes for the basic family are exactly the pairs (parent, branch) -/
def IsBasicPair (n : Nat) (g : List Nat) : Prop := ∃ i, 1 ≤ i ∧ i ≤ n ∧ g = [0, i]

theorem basic_mem_pairs {g : List Nat} :
    g ∈ dedupGroups ((rawPairs (basicPre n prio) (methodMap (basicPre n prio))).map fun ab => norm (n + 1) [ab.1, ab.2]) ↔
      IsBasicPair n g := by
  rw [mem_dedupGroups]
  simp only [List.mem_map, Prod.exists]
  constructor
  · rintro ⟨a, b, hab, rfl⟩
    obtain ⟨_, hs⟩ := (basic_mem_rawPairs n prio).1 hab
    rcases (basic_mem_simulOf n prio).1 hs with ⟨rfl, h1, h2⟩ | ⟨h1, h2, rfl⟩
    · exact ⟨b, h1, h2, (norm_pair (by omega) (by omega)).1⟩
    · exact ⟨a, h1, h2, (norm_pair (by omega) (by omega)).2⟩
  · rintro ⟨i, h1, h2, rfl⟩
    refine ⟨0, i, (basic_mem_rawPairs n prio).2 ⟨by omega, (basic_mem_simulOf n prio).2 (Or.inl ⟨rfl, h1, h2⟩)⟩, ?_⟩
    exact (norm_pair (by omega) (by omega)).1

theorem basic_pair_not_conflicting {g : List Nat} (hg : IsBasicPair n g) :
    conflicting (indepSets (basicPre n prio) (methodMap (basicPre n prio))) g = false := by
  obtain ⟨i, h1, _, rfl⟩ := hg
  obtain ⟨e1, e2⟩ := basic_indep_parent n prio h1
  simp [conflicting, e1, e2]

theorem basic_groups {groups : List (List Nat)}
    (h : groupsOf (basicPre n prio) (methodMap (basicPre n prio)) = .ok groups) :
    ∀ g, g ∈ groups ↔ IsBasicPair n g := by
  unfold groupsOf at h
  simp only [basic_length] at h
  split at h
  · cases h
  · split at h
    · rename_i T hT
      simp only [Except.ok.injEq] at h
      subst h
      have hsound : ∀ g ∈ T, IsBasicPair n g := by
        apply closure_sound (n + 1) _ _ (IsBasicPair n) _ _ _ _ T hT
        · intro g hg; exact Or.inl ((basic_mem_pairs n prio).1 hg)
        · intro g hg; cases hg
        · rintro g ⟨i, hi1, hi2, rfl⟩ p hp _
          obtain ⟨j, hj1, hj2, rfl⟩ := (basic_mem_pairs n prio).1 hp
          by_cases hij : i = j
          · subst hij
            left
            refine ⟨i, hi1, hi2, ?_⟩
            have : union (n + 1) [0, i] [0, i] = norm (n + 1) [0, i] := by
              unfold union; apply norm_congr; intro x
              simp only [List.mem_append, List.mem_cons, List.not_mem_nil, or_false]
              constructor <;> intro h <;> omega
            rw [this]; exact (norm_pair (by omega) (by omega)).1
          · right
            simp only [conflicting, List.any_eq_true, Bool.and_eq_true, bne_iff_ne, ne_eq]
            refine ⟨i, mem_union.2 ⟨by omega, Or.inl (by simp)⟩, j, mem_union.2 ⟨by omega, Or.inr (by simp)⟩, hij, ?_⟩
            exact basic_indep_branches n prio hi1 hi2 hj1 hj2
      have hcomplete : ∀ g, IsBasicPair n g → g ∈ T := by
        intro g hg
        exact closure_complete (n + 1) _ _ _ _ _ T hT g (Or.inl ((basic_mem_pairs n prio).2 hg))
          (basic_pair_not_conflicting n prio hg)
      intro g
      rw [mem_sortGroups, mem_maximalGroups]
      constructor
      · rintro ⟨hg, _⟩; exact hsound g hg
      · intro hg
        refine ⟨hcomplete g hg, ?_⟩
        intro g2 hg2 hsub
        obtain ⟨i, hi1, _, rfl⟩ := hg
        obtain ⟨j, _, _, rfl⟩ := hsound g2 hg2
        simp only [subset, List.all_cons, List.all_nil, Bool.and_true, Bool.and_eq_true, List.contains_eq_mem,
          List.mem_cons, List.not_mem_nil, or_false, decide_eq_true_eq] at hsub
        have : i = j := by omega
        rw [this]
    · cases h


theorem basic_mem_allSim (hn : 0 < n) {b : Nat} (hb : b < n + 1) :
    b ∈ allSimultaneous (basicPre n prio) (methodMap (basicPre n prio)) := by
  unfold allSimultaneous
  rw [basic_mat]
  apply List.mem_flatMap.2
  cases b with
  | zero =>
    exact ⟨1, List.mem_range.2 (by omega),
      (basic_mem_flatMap_transFor n prio).2 ((basic_mem_simulOf n prio).2 (Or.inr ⟨by omega, by omega, rfl⟩))⟩
  | succ i =>
    exact ⟨0, List.mem_range.2 (by omega),
      (basic_mem_flatMap_transFor n prio).2 ((basic_mem_simulOf n prio).2 (Or.inl ⟨rfl, by omega, by omega⟩))⟩

theorem basic_simultaneous {R : MergeOut} (h : simultaneous (basicPre n prio) 0 = .ok R) :
    ∃ groups, (∀ g, g ∈ groups ↔ IsBasicPair n g) ∧
      R = mergeOut (basicPre n prio) 0 [] (allSimultaneous (basicPre n prio) (methodMap (basicPre n prio))) groups := by
  unfold simultaneous at h
  simp only [basic_validateAll, basic_condCalled] at h
  split at h
  · cases h
  · rename_i groups hg
    simp only [Except.ok.injEq] at h
    exact ⟨groups, basic_groups n prio hg, h.symm⟩

end basic

/-! ### the merged design of the basic family -/

section basicPost
variable (n : Nat) (prio : Bool) (groups : List (List Nat))

/-- the post-merge design of the basic family for a given list of groups -/
def basicOut : MergeOut :=
  mergeOut (basicPre n prio) 0 [] (allSimultaneous (basicPre n prio) (methodMap (basicPre n prio))) groups

def bMod : Int := maxModule (basicPre n prio) + 1
def bOff (k : Nat) : Nat := (offsets groups 0).getD k 0
def bC0 (k : Nat) : Call := { callee := 0, path := ⟨bMod n prio, [⟨0, k⟩, ⟨0, 0⟩]⟩, site := bOff groups k + 0 }
def bC1 (k i : Nat) : Call := { callee := i, path := ⟨bMod n prio, [⟨0, k⟩, ⟨0, 1⟩]⟩, site := bOff groups k + 1 }

theorem basicOut_calls_old {b : Nat} (hb : b < n + 1) : (basicOut n prio groups).D.calls b = [] := by
  have hb' : b < (basicPre n prio).bodies.length := by rw [basic_length]; exact hb
  unfold Design.calls basicOut
  rw [post_body_old _ _ _ _ _ hb']
  have hc : ((basicPre n prio).bodies[b]).calls = [] := by
    have := basic_calls n prio b
    unfold Design.calls Design.body? at this
    rw [List.getElem?_eq_getElem hb'] at this
    exact this
  simp [oldBody, hc]

theorem basicOut_isTrans_old (hn : 0 < n) {b : Nat} (hb : b < n + 1) : (basicOut n prio groups).D.isTrans b = false := by
  have hb' : b < (basicPre n prio).bodies.length := by rw [basic_length]; exact hb
  unfold Design.isTrans basicOut
  rw [post_body_old _ _ _ _ _ hb']
  have := basic_mem_allSim n prio hn hb
  simp [oldBody, this]

theorem basicOut_nonexcl_zero : (basicOut n prio groups).D.nonexclusive 0 = false := by
  have hb' : 0 < (basicPre n prio).bodies.length := by rw [basic_length]; omega
  unfold Design.nonexclusive basicOut
  rw [post_body_old _ _ _ _ _ hb']
  simp [oldBody, basicPre, basicParent]

theorem basicOut_rels_branch {i : Nat} (hi : i < n) :
    (basicOut n prio groups).D.rels (i + 1) = (basicBranch n prio i).rels.filter (keepRel [0]) := by
  have hb' : i + 1 < (basicPre n prio).bodies.length := by rw [basic_length]; omega
  unfold Design.rels basicOut
  rw [post_body_old _ _ _ _ _ hb']
  simp [oldBody, basicPre, hi, basicBranch]

theorem basicOut_merged {k i : Nat} (hk : k < groups.length) (hg : groups[k] = [0, i]) :
    (basicOut n prio groups).D.calls (n + 1 + k) = [bC0 n prio groups k, bC1 n prio groups k i] ∧
    (basicOut n prio groups).D.isTrans (n + 1 + k) = true := by
  have hl := basic_length n prio
  have hbody := post_body_merged (basicPre n prio) 0 []
    (allSimultaneous (basicPre n prio) (methodMap (basicPre n prio))) groups hk
  rw [hl] at hbody
  have hoff : (offsets groups 0)[k]'(by rw [offsets_length]; exact hk) = bOff groups k := by
    simp [bOff, List.getD, List.getElem?_eq_getElem (show k < (offsets groups 0).length by rw [offsets_length]; exact hk)]
  constructor
  · unfold Design.calls basicOut
    rw [hbody, hg, hoff]
    simp [mergedBody, bC0, bC1, bMod, hl]
  · unfold Design.isTrans basicOut
    rw [hbody]
    simp [mergedBody]

theorem basicOut_none {b : Nat} (hb : n + 1 + groups.length ≤ b) : (basicOut n prio groups).D.body? b = none := by
  unfold basicOut
  apply post_body_none
  rw [basic_length]; exact hb

theorem basicOut_enDeps {k i : Nat} (hk : k < groups.length) (hg : groups[k] = [0, i]) :
    (bOff groups k + 0, []) ∈ (basicOut n prio groups).enDeps ∧ (bOff groups k + 1, []) ∈ (basicOut n prio groups).enDeps := by
  unfold basicOut
  rw [post_enDeps]
  have hk' : k < (offsets groups 0).length := by rw [offsets_length]; exact hk
  have hz : (groups[k], (offsets groups 0)[k]) ∈ groups.zip (offsets groups 0) := by
    have hkz : k < (groups.zip (offsets groups 0)).length := by simp [offsets_length, hk]
    have := List.getElem_mem hkz
    simpa [List.getElem_zip] using this
  have hoff : (offsets groups 0)[k] = bOff groups k := by
    simp [bOff, List.getD, List.getElem?_eq_getElem hk']
  simp only [List.mem_flatMap]
  constructor
  · refine ⟨_, hz, ?_⟩
    rw [hg, hoff]; simp [enDepsOf]
  · refine ⟨_, hz, ?_⟩
    rw [hg, hoff]; simp [enDepsOf]

theorem basicOut_link {s : Nat} (h : (s, []) ∈ (basicOut n prio groups).enDeps) :
    s ∈ linkSites (basicOut n prio groups).D (basicOut n prio groups).enDeps 0 := by
  unfold linkSites
  apply List.mem_append_right
  simp only [List.mem_filterMap]
  exact ⟨(s, []), h, by simp⟩


open TxV.Core.Bridge in
/-- every call site of the merged design belongs to a merged transaction `n+1+k` whose group is
`[0, i]`; it is the call of the parent (`bC0`) or of the branch (`bC1`) -/
theorem basicOut_site_cases (hn : 0 < n) (hgr : ∀ g, g ∈ groups ↔ IsBasicPair n g) {b : Nat} {c : Core.Call}
    (h : (b, c) ∈ (toAbs (basicOut n prio groups).D).allSites) :
    ∃ k i, ∃ (hk : k < groups.length), 1 ≤ i ∧ i ≤ n ∧ groups[k] = [0, i] ∧ b = n + 1 + k ∧
      (c = cvtCall (bC0 n prio groups k) ∨ c = cvtCall (bC1 n prio groups k i)) := by
  have hc := Core.Design.mem_allSites.1 h
  rw [toAbs_calls] at hc
  rcases Nat.lt_or_ge b (n + 1) with hb | hb
  · rw [basicOut_calls_old n prio groups hb] at hc; cases hc
  · rcases Nat.lt_or_ge b (n + 1 + groups.length) with hb2 | hb2
    · obtain ⟨k, rfl⟩ : ∃ k, b = n + 1 + k := ⟨b - (n + 1), by omega⟩
      have hk : k < groups.length := by omega
      obtain ⟨i, h1, h2, hg⟩ := (hgr _).1 (List.getElem_mem hk)
      rw [(basicOut_merged n prio groups hk hg).1] at hc
      simp only [List.map_cons, List.map_nil, List.mem_cons, List.not_mem_nil, or_false] at hc
      exact ⟨k, i, hk, h1, h2, hg, rfl, hc⟩
    · have : (basicOut n prio groups).D.calls b = [] := by
        unfold Design.calls; rw [basicOut_none n prio groups hb2]
      rw [this] at hc; cases hc

open TxV.Core.Bridge in
theorem basicOut_shape (hn : 0 < n) (hd : Bool) (hgr : ∀ g, g ∈ groups ↔ IsBasicPair n g) :
    Core.ShapeC12 (toAbs (basicOut n prio groups).D) ⟨0, (List.range n).map (· + 1), hd, prio⟩
      (linkSites (basicOut n prio groups).D (basicOut n prio groups).enDeps 0) (basicOut n prio groups).enDeps := by
  have hN : (toAbs (basicOut n prio groups).D).n = n + 1 + groups.length := by
    rw [toAbs_n]; unfold basicOut; rw [post_length, basic_length]
  have hbr : ∀ b, b ∈ (List.range n).map (· + 1) ↔ 1 ≤ b ∧ b ≤ n := by
    intro b; simp only [List.mem_map, List.mem_range]
    constructor
    · rintro ⟨a, ha, rfl⟩; omega
    · rintro ⟨h1, h2⟩; exact ⟨b - 1, by omega, by omega⟩
  -- facts about the merged transaction of the k-th group
  have merged : ∀ k i (hk : k < groups.length), groups[k] = [0, i] →
      ((toAbs (basicOut n prio groups).D).body (n + 1 + k)).calls =
        [cvtCall (bC0 n prio groups k), cvtCall (bC1 n prio groups k i)] ∧
      (toAbs (basicOut n prio groups).D).isTrans (n + 1 + k) = true ∧
      (bC0 n prio groups k).site ∈ linkSites (basicOut n prio groups).D (basicOut n prio groups).enDeps 0 ∧
      (bC1 n prio groups k i).site ∈ linkSites (basicOut n prio groups).D (basicOut n prio groups).enDeps 0 := by
    intro k i hk hg
    obtain ⟨m1, m2⟩ := basicOut_merged n prio groups hk hg
    obtain ⟨e1, e2⟩ := basicOut_enDeps n prio groups hk hg
    refine ⟨by rw [toAbs_calls, m1]; rfl, by rw [toAbs_isTrans]; exact m2,
      basicOut_link n prio groups e1, basicOut_link n prio groups e2⟩
  refine ⟨?_, ?_, ?_, ?_, ?_, ?_, ?_⟩
  · -- nodup
    have : ((List.range n).map (· + 1)).Pairwise (· < ·) := by
      rw [List.pairwise_map]; exact List.pairwise_lt_range.imp (by intro a b h; omega)
    exact this.imp (fun h => Nat.ne_of_lt h)
  · -- branches are methods of the merged design
    intro b hb
    obtain ⟨h1, h2⟩ := (hbr b).1 hb
    exact ⟨by rw [hN]; omega, by rw [toAbs_isTrans]; exact basicOut_isTrans_old n prio groups hn (by omega)⟩
  · show 0 < _ ∧ (toAbs (basicOut n prio groups).D).isTrans 0 = false
    exact ⟨by rw [hN]; omega, by rw [toAbs_isTrans]; exact basicOut_isTrans_old n prio groups hn (by omega)⟩
  · -- callers of a branch
    intro b hb p hp hcal
    obtain ⟨h1, _⟩ := (hbr b).1 hb
    obtain ⟨k, i, hk, _, _, hg, hpb, hcc⟩ := basicOut_site_cases n prio groups hn hgr (b := p.1) (c := p.2) hp
    obtain ⟨mc, mt, l0, _⟩ := merged k i hk hg
    refine ⟨by rw [hpb]; exact mt, Or.inr ⟨[cvtCall (bC0 n prio groups k)], ?_, ?_, ?_⟩⟩
    · rw [hpb]; exact .single (by rw [mc]; simp)
    · simp [Core.target, cvtCall, bC0]
    · intro c hc; simp only [List.mem_singleton] at hc; subst hc; simpa [cvtCall] using l0
  · -- callers of different branches conflict
    intro b hb b' hb' hne p hp p' hp' hcal hcal'
    obtain ⟨h1, _⟩ := (hbr b).1 hb
    obtain ⟨h1', _⟩ := (hbr b').1 hb'
    obtain ⟨k, i, hk, _, _, hg, hpb, hcc⟩ := basicOut_site_cases n prio groups hn hgr (b := p.1) (c := p.2) hp
    obtain ⟨k', i', hk', _, _, hg', hpb', hcc'⟩ := basicOut_site_cases n prio groups hn hgr (b := p'.1) (c := p'.2) hp'
    have hi : i = b := by
      rcases hcc with h | h
      · rw [h] at hcal; simp [cvtCall, bC0] at hcal; omega
      · rw [h] at hcal; simpa [cvtCall, bC1] using hcal
    have hi' : i' = b' := by
      rcases hcc' with h | h
      · rw [h] at hcal'; simp [cvtCall, bC0] at hcal'; omega
      · rw [h] at hcal'; simpa [cvtCall, bC1] using hcal'
    have hkk : k ≠ k' := by
      intro h; subst h
      rw [hg] at hg'; simp at hg'; omega
    obtain ⟨mc, _, _, _⟩ := merged k i hk hg
    obtain ⟨mc', _, _, _⟩ := merged k' i' hk' hg'
    refine ⟨by rw [hpb, hpb']; omega, ?_⟩
    refine ⟨[cvtCall (bC0 n prio groups k)], [cvtCall (bC0 n prio groups k')], 0, ?_, ?_, ?_, ?_, ?_, ?_⟩
    · rw [hpb]; exact .single (by rw [mc]; simp)
    · rw [hpb']; exact .single (by rw [mc']; simp)
    · simp [Core.target, cvtCall, bC0]
    · simp [Core.target, cvtCall, bC0]
    · have : (toAbs (basicOut n prio groups).D).nonexcl 0 = false := by
        rw [toAbs_nonexcl]; exact basicOut_nonexcl_zero n prio groups
      simp [Core.lcaNonexcl, Core.anc, Core.callees, Core.lcp, cvtCall, bC0, this]
    · simp [Core.cpe, cvtCall, bC0, cvtPath, cvtEdge, Core.CtrlPath.exclusiveWith, Core.exclEdges, hkk]
  · -- every transaction that reaches the parent calls a branch
    intro g hg _
    have hlt := (toAbs (basicOut n prio groups).D).isTrans_lt hg
    rw [hN] at hlt
    rcases Nat.lt_or_ge g (n + 1) with hb | hb
    · rw [toAbs_isTrans, basicOut_isTrans_old n prio groups hn hb] at hg; cases hg
    · obtain ⟨k, rfl⟩ : ∃ k, g = n + 1 + k := ⟨g - (n + 1), by omega⟩
      have hk : k < groups.length := by omega
      obtain ⟨i, h1, h2, hgk⟩ := (hgr _).1 (List.getElem_mem hk)
      obtain ⟨mc, _, _, l1⟩ := merged k i hk hgk
      refine ⟨cvtCall (bC1 n prio groups k i), by rw [mc]; simp, ?_, Or.inl (by simpa [cvtCall] using l1)⟩
      exact (hbr _).2 ⟨by simpa [cvtCall, bC1] using h1, by simpa [cvtCall, bC1] using h2⟩
  · -- priority chain
    intro hp
    simp only at hp
    constructor
    · intro ab hab
      obtain ⟨i, hi, ha, hb⟩ := mem_consecutive (a := ab.1) (b := ab.2) hab
      simp only [List.length_map, List.length_range] at hi
      simp only [List.getElem_map, List.getElem_range] at ha hb
      rw [ha, hb, toAbs_rels, basicOut_rels_branch n prio groups (by omega : i < n)]
      refine ⟨cvtRel (beforeRelM (i + 2)), List.mem_map.2 ⟨beforeRelM (i + 2), ?_, rfl⟩, rfl, rfl, rfl⟩
      simp [basicBranch, hp, hi, keepRel, beforeRelM]
    · intro b hb
      obtain ⟨h1, h2⟩ := (hbr b).1 hb
      obtain ⟨k, hk, hgk⟩ := List.getElem_of_mem ((hgr [0, b]).2 ⟨b, h1, h2, rfl⟩)
      obtain ⟨mc, _, _, _⟩ := merged k b hk hgk
      refine ⟨(n + 1 + k, cvtCall (bC1 n prio groups k b)), Core.Design.mem_allSites.2 (by rw [mc]; simp), ?_⟩
      simp [cvtCall, bC1]

end basicPost

/-- **`simultaneous_shape_basic`**: for `condition()` with `n ≥ 1` branches inside one transaction (with or
without `priority`, with or without a catch-all), every result of the executable model of
`_simultaneous` has the shape the C12 theorems need; all merged calls are unconditional -/
theorem simultaneous_shape_basic (n : Nat) (prio hd : Bool) (hn : 0 < n) {R : MergeOut}
    (h : simultaneous (basicPre n prio) 0 = .ok R) :
    Core.ShapeC12 (Core.Bridge.toAbs R.D) ⟨0, (List.range n).map (· + 1), hd, prio⟩
      (linkSites R.D R.enDeps 0) R.enDeps := by
  obtain ⟨groups, hgr, rfl⟩ := basic_simultaneous n prio h
  exact basicOut_shape n prio groups hn hd hgr


/-! ## the Connect family: `w` writers × `r` readers of one `Connect` -/

/-- a transaction calling `Connect.write` (body `w + r`) unconditionally -/
def connWriter (w r a : Nat) : Body :=
  { isTrans := true, defPath := ⟨0, []⟩, defOrder := a, calls := [⟨w + r, ⟨0, [⟨0, a⟩]⟩, a⟩] }
/-- a transaction calling `Connect.read` (body `w + r + 1`) unconditionally -/
def connReader (w r b : Nat) : Body :=
  { isTrans := true, defPath := ⟨0, []⟩, defOrder := w + b, calls := [⟨w + r + 1, ⟨0, [⟨0, w + b⟩]⟩, w + b⟩] }
/-- connectors.py:271 `self.write.simultaneous(self.read)` -/
def connWrite (w r : Nat) : Body :=
  { isTrans := false, defPath := ⟨1, []⟩, defOrder := w + r, simul := [w + r + 1] }
def connRead (w r : Nat) : Body :=
  { isTrans := false, defPath := ⟨1, []⟩, defOrder := w + r + 1, simul := [w + r] }

/-- the PRE-merge design: bodies `0 … w-1` writers, `w … w+r-1` readers, `w+r` = write, `w+r+1` = read -/
def connPre (w r : Nat) : Design :=
  { bodies := (List.range w).map (connWriter w r) ++ (List.range r).map (connReader w r) ++ [connWrite w r, connRead w r],
    transactions := List.range (w + r), methods := [w + r, w + r + 1] }

section conn
variable (w r : Nat)

theorem conn_length : (connPre w r).bodies.length = w + r + 2 := by simp [connPre]; omega

theorem conn_body_writer {a : Nat} (ha : a < w) : (connPre w r).body? a = some (connWriter w r a) := by
  simp [Design.body?, connPre, List.getElem?_append, ha]

theorem conn_body_reader {b : Nat} (hb : b < r) : (connPre w r).body? (w + b) = some (connReader w r b) := by
  simp [Design.body?, connPre, List.getElem?_append, hb]

theorem conn_body_write : (connPre w r).body? (w + r) = some (connWrite w r) := by
  unfold Design.body? connPre
  rw [List.getElem?_append_right (by simp)]
  simp

theorem conn_body_read : (connPre w r).body? (w + r + 1) = some (connRead w r) := by
  unfold Design.body? connPre
  rw [List.getElem?_append_right (by simp)]
  have : w + r + 1 - ((List.range w).map (connWriter w r) ++ (List.range r).map (connReader w r)).length = 1 := by
    simp
  rw [this]; rfl

theorem conn_body_none {b : Nat} (hb : w + r + 2 ≤ b) : (connPre w r).body? b = none := by
  unfold Design.body?
  apply List.getElem?_eq_none
  rw [conn_length]; exact hb

/-- the five kinds of body ids -/
theorem conn_cases (b : Nat) :
    (b < w) ∨ (∃ c, c < r ∧ b = w + c) ∨ b = w + r ∨ b = w + r + 1 ∨ w + r + 2 ≤ b := by
  rcases Nat.lt_or_ge b w with h | h
  · exact Or.inl h
  · rcases Nat.lt_or_ge b (w + r) with h2 | h2
    · exact Or.inr (Or.inl ⟨b - w, by omega, by omega⟩)
    · omega

theorem conn_calls_writer {a : Nat} (ha : a < w) : (connPre w r).calls a = [⟨w + r, ⟨0, [⟨0, a⟩]⟩, a⟩] := by
  simp [Design.calls, conn_body_writer w r ha, connWriter]

theorem conn_calls_reader {b : Nat} (hb : b < r) :
    (connPre w r).calls (w + b) = [⟨w + r + 1, ⟨0, [⟨0, w + b⟩]⟩, w + b⟩] := by
  simp [Design.calls, conn_body_reader w r hb, connReader]

theorem conn_calls_write : (connPre w r).calls (w + r) = [] := by
  simp [Design.calls, conn_body_write, connWrite]

theorem conn_calls_read : (connPre w r).calls (w + r + 1) = [] := by
  simp [Design.calls, conn_body_read, connRead]

theorem conn_calls_none {b : Nat} (hb : w + r + 2 ≤ b) : (connPre w r).calls b = [] := by
  simp [Design.calls, conn_body_none w r hb]

theorem conn_mat : (connPre w r).methodsAndTransactions = [w + r, w + r + 1] ++ List.range (w + r) := by
  simp [Design.methodsAndTransactions, connPre]

theorem conn_nonexcl (b : Nat) : (connPre w r).nonexclusive b = false := by
  unfold Design.nonexclusive
  rcases conn_cases w r b with h | ⟨c, hc, rfl⟩ | rfl | rfl | h
  · rw [conn_body_writer w r h]; rfl
  · rw [conn_body_reader w r hc]; rfl
  · rw [conn_body_write]; rfl
  · rw [conn_body_read]; rfl
  · rw [conn_body_none w r h]

theorem conn_validateRoot (root : Nat) : validateRoot (connPre w r) root = .ok () := by
  have hf : fuelOf (connPre w r) = (w + r + 1) + 1 + 1 := by simp [fuelOf, conn_length]
  unfold validateRoot
  rw [hf]
  rcases conn_cases w r root with h | ⟨c, hc, rfl⟩ | rfl | rfl | h
  · simp [recRoot, conn_calls_writer w r h, conn_calls_write, conn_nonexcl, Except.map]; rfl
  · simp [recRoot, conn_calls_reader w r hc, conn_calls_read, conn_nonexcl, Except.map]; rfl
  · simp [recRoot, conn_calls_write, Except.map]; rfl
  · simp [recRoot, conn_calls_read, Except.map]; rfl
  · simp [recRoot, conn_calls_none w r h, Except.map]; rfl

theorem conn_validateAll : validateAll (connPre w r) = .ok () := by
  unfold validateAll
  generalize (connPre w r).methodsAndTransactions = l
  induction l with
  | nil => rfl
  | cons x t ih =>
    simp only [List.foldlM_cons]
    rw [conn_validateRoot]; exact ih


/-- the method a caller calls: `write` for the writers, `read` for the readers -/
def connCallee (t : Nat) : Nat := if t < w then w + r else w + r + 1

theorem conn_methodsOf_aux {t : Nat} (ht : t < w + r) :
    dedup ((chains (connPre w r) (fuelOf (connPre w r)) t [] [] []).map (·.1)) = [connCallee w r t] := by
  have hf : fuelOf (connPre w r) = (w + r + 1) + 1 + 1 := by simp [fuelOf, conn_length]
  rw [hf]
  rcases Nat.lt_or_ge t w with h | h
  · simp [chains, conn_calls_writer w r h, conn_calls_write, dedup, connCallee, h]
  · obtain ⟨c, rfl⟩ : ∃ c, t = w + c := ⟨t - w, by omega⟩
    have hc : c < r := by omega
    have hnot : ¬ (w + c < w) := by omega
    simp [chains, conn_calls_reader w r hc, conn_calls_read, dedup, connCallee, hnot]

theorem conn_mbt : (methodMap (connPre w r)).mbt = (List.range (w + r)).map fun t => (t, [connCallee w r t]) := by
  simp only [methodMap, connPre, List.map_map]
  apply List.map_congr_left
  intro t ht
  have ht' : t < w + r := List.mem_range.1 ht
  have := conn_methodsOf_aux w r ht'
  simp only [connPre] at this
  simp only [Function.comp, this]

theorem map_filter_callee (c : Nat → Nat) (m : Nat) (l : List Nat) :
    List.map ((fun x : Nat × List Nat => x.fst) ∘ fun t => (t, [c t]))
        (List.filter ((fun x : Nat × List Nat => decide (m ∈ x.snd)) ∘ fun t => (t, [c t])) l) =
      List.filter (fun t => c t == m) l := by
  induction l with
  | nil => rfl
  | cons a t ih =>
    by_cases h : c a = m
    · simp only [List.filter_cons, Function.comp, List.mem_singleton, h, decide_true, if_true, List.map_cons,
        beq_self_eq_true]
      rw [← ih]
    · have h' : ¬ m = c a := fun e => h e.symm
      have hb : (c a == m) = false := by simpa using h
      simp only [List.filter_cons, Function.comp, List.mem_singleton, h', decide_false, hb, Bool.false_eq_true,
        if_false]
      rw [← ih]

theorem conn_tbm : (methodMap (connPre w r)).tbm =
    [(w + r, ((List.range (w + r)).filter fun t => connCallee w r t == w + r)),
     (w + r + 1, ((List.range (w + r)).filter fun t => connCallee w r t == w + r + 1))] := by
  have hm := conn_mbt w r
  simp only [methodMap] at hm ⊢
  simp only [connPre, List.map_cons, List.map_nil] at hm ⊢
  rw [hm]
  simp only [List.filter_map, List.map_map, List.contains_eq_mem]
  rw [map_filter_callee, map_filter_callee]

theorem conn_mem_transFor_write {t : Nat} : t ∈ (methodMap (connPre w r)).transFor (w + r) ↔ t < w := by
  simp only [MethodMap.transFor, conn_tbm, List.find?_cons, beq_self_eq_true, List.mem_filter, List.mem_range,
    connCallee, beq_iff_eq]
  constructor
  · rintro ⟨h1, h2⟩; split at h2 <;> omega
  · intro h; exact ⟨by omega, by simp [h]⟩

theorem conn_mem_transFor_read {t : Nat} : t ∈ (methodMap (connPre w r)).transFor (w + r + 1) ↔ w ≤ t ∧ t < w + r := by
  have hne : (w + r == w + r + 1) = false := by simp
  simp only [MethodMap.transFor, conn_tbm, List.find?_cons, hne, beq_self_eq_true, List.mem_filter, List.mem_range,
    connCallee, beq_iff_eq]
  constructor
  · rintro ⟨h1, h2⟩; split at h2 <;> omega
  · rintro ⟨h1, h2⟩
    have : ¬ t < w := by omega
    exact ⟨h2, by simp [this]⟩

theorem conn_transFor_trans {t : Nat} (ht : t < w + r) : (methodMap (connPre w r)).transFor t = [t] := by
  have h1 : (w + r == t) = false := by simp; omega
  have h2 : (w + r + 1 == t) = false := by simp; omega
  simp [MethodMap.transFor, conn_tbm, List.find?_cons, h1, h2]

theorem conn_condCalls (b : Nat) : condCalls (connPre w r) b = [] := by
  unfold condCalls
  rcases conn_cases w r b with h | ⟨c, hc, rfl⟩ | rfl | rfl | h
  · simp [conn_calls_writer w r h, Design.defPath, conn_body_writer w r h, connWriter]
  · simp [conn_calls_reader w r hc, Design.defPath, conn_body_reader w r hc, connReader]
  · simp [conn_calls_write]
  · simp [conn_calls_read]
  · simp [conn_calls_none w r h]

theorem conn_condCalled : conditionallyCalled (connPre w r) (methodMap (connPre w r)) = .ok [] := by
  have : condCalledDirect (connPre w r) (methodMap (connPre w r)) = [] := by
    simp [condCalledDirect, conn_condCalls]
  simp [conditionallyCalled, this, infect, infectRound]


theorem conn_indepOf (b : Nat) : indepOf (connPre w r) b = [] := by
  unfold indepOf
  rcases conn_cases w r b with h | ⟨c, hc, rfl⟩ | rfl | rfl | h
  · rw [conn_body_writer w r h]; rfl
  · rw [conn_body_reader w r hc]; rfl
  · rw [conn_body_write]; rfl
  · rw [conn_body_read]; rfl
  · rw [conn_body_none w r h]

theorem conn_simulOf_write : simulOf (connPre w r) (w + r) = [w + r + 1] := by
  simp [simulOf, conn_body_write, connWrite]

theorem conn_simulOf_read : simulOf (connPre w r) (w + r + 1) = [w + r] := by
  simp [simulOf, conn_body_read, connRead]

theorem conn_simulOf_trans {t : Nat} (ht : t < w + r) : simulOf (connPre w r) t = [] := by
  unfold simulOf
  rcases Nat.lt_or_ge t w with h | h
  · rw [conn_body_writer w r h]; rfl
  · obtain ⟨c, rfl⟩ : ∃ c, t = w + c := ⟨t - w, by omega⟩
    rw [conn_body_reader w r (by omega)]; rfl

/-- `t ∈ transactions_for(e)` for the Connect family -/
def ConnTF (e t : Nat) : Prop :=
  (e = w + r ∧ t < w) ∨ (e = w + r + 1 ∧ w ≤ t ∧ t < w + r) ∨ (e < w + r ∧ t = e)

theorem conn_mem_transFor {e t : Nat} (he : e < w + r + 2) :
    t ∈ (methodMap (connPre w r)).transFor e ↔ ConnTF w r e t := by
  unfold ConnTF
  rcases Nat.lt_or_ge e (w + r) with h | h
  · rw [conn_transFor_trans w r h]; simp; omega
  · rcases Nat.eq_or_lt_of_le h with h' | h'
    · subst h'; rw [conn_mem_transFor_write]; omega
    · have : e = w + r + 1 := Nat.le_antisymm (Nat.lt_succ_iff.1 he) h'
      subst this; rw [conn_mem_transFor_read]; omega

theorem conn_mem_mat {e : Nat} : e ∈ (connPre w r).methodsAndTransactions ↔ e < w + r + 2 := by
  rw [conn_mat]; simp; omega

theorem conn_independent (a b : Nat) :
    independent (indepSets (connPre w r) (methodMap (connPre w r))) a b = true ↔
      ∃ e, e < w + r + 2 ∧ ConnTF w r e a ∧ ConnTF w r e b := by
  simp only [independent, indepSets, conn_indepOf, List.any_map, List.any_eq_true, Function.comp, Bool.and_eq_true,
    List.contains_eq_mem, decide_eq_true_eq, List.flatMap_cons, List.flatMap_nil, List.append_nil]
  constructor
  · rintro ⟨e, he, ha, hb⟩
    have he' := (conn_mem_mat w r).1 he
    exact ⟨e, he', (conn_mem_transFor w r he').1 ha, (conn_mem_transFor w r he').1 hb⟩
  · rintro ⟨e, he, ha, hb⟩
    exact ⟨e, (conn_mem_mat w r).2 he, (conn_mem_transFor w r he).2 ha, (conn_mem_transFor w r he).2 hb⟩

theorem conn_indep_wr {a c : Nat} (ha : a < w) (hc : c < r) :
    independent (indepSets (connPre w r) (methodMap (connPre w r))) a (w + c) = false ∧
    independent (indepSets (connPre w r) (methodMap (connPre w r))) (w + c) a = false := by
  constructor
  · apply Bool.eq_false_iff.2
    intro h
    obtain ⟨e, _, h1, h2⟩ := (conn_independent w r _ _).1 h
    unfold ConnTF at h1 h2; omega
  · apply Bool.eq_false_iff.2
    intro h
    obtain ⟨e, _, h1, h2⟩ := (conn_independent w r _ _).1 h
    unfold ConnTF at h1 h2; omega

theorem conn_indep_writers {a a' : Nat} (ha : a < w) (ha' : a' < w) :
    independent (indepSets (connPre w r) (methodMap (connPre w r))) a a' = true :=
  (conn_independent w r _ _).2 ⟨w + r, by omega, Or.inl ⟨rfl, ha⟩, Or.inl ⟨rfl, ha'⟩⟩

theorem conn_indep_readers {c c' : Nat} (hc : c < r) (hc' : c' < r) :
    independent (indepSets (connPre w r) (methodMap (connPre w r))) (w + c) (w + c') = true :=
  (conn_independent w r _ _).2 ⟨w + r + 1, by omega, Or.inr (Or.inl ⟨rfl, by omega, by omega⟩),
    Or.inr (Or.inl ⟨rfl, by omega, by omega⟩)⟩

theorem conn_mem_allSim {b : Nat} :
    b ∈ allSimultaneous (connPre w r) (methodMap (connPre w r)) ↔ b < w + r := by
  unfold allSimultaneous
  simp only [List.mem_flatMap]
  constructor
  · rintro ⟨e, he, s, hs, hb⟩
    have he' := (conn_mem_mat w r).1 he
    rcases Nat.lt_or_ge e (w + r) with h | h
    · rw [conn_simulOf_trans w r h] at hs; cases hs
    · rcases Nat.eq_or_lt_of_le h with h' | h'
      · subst h'; rw [conn_simulOf_write] at hs; simp at hs; subst hs
        have := (conn_mem_transFor_read w r).1 hb; omega
      · have : e = w + r + 1 := Nat.le_antisymm (Nat.lt_succ_iff.1 he') h'
        subst this; rw [conn_simulOf_read] at hs; simp at hs; subst hs
        have := (conn_mem_transFor_write w r).1 hb; omega
  · intro hb
    rcases Nat.lt_or_ge b w with h | h
    · exact ⟨w + r + 1, (conn_mem_mat w r).2 (by omega), w + r, by rw [conn_simulOf_read]; simp,
        (conn_mem_transFor_write w r).2 h⟩
    · exact ⟨w + r, (conn_mem_mat w r).2 (by omega), w + r + 1, by rw [conn_simulOf_write]; simp,
        (conn_mem_transFor_read w r).2 ⟨h, hb⟩⟩

theorem conn_mem_rawPairs {a b : Nat} :
    (a, b) ∈ rawPairs (connPre w r) (methodMap (connPre w r)) ↔
      (a < w ∧ w ≤ b ∧ b < w + r) ∨ (w ≤ a ∧ a < w + r ∧ b < w) := by
  unfold rawPairs
  simp only [List.mem_flatMap, List.mem_map, Prod.mk.injEq]
  constructor
  · rintro ⟨e, he, s, hs, t1, h1, t2, h2, rfl, rfl⟩
    have he' := (conn_mem_mat w r).1 he
    rcases Nat.lt_or_ge e (w + r) with h | h
    · rw [conn_simulOf_trans w r h] at hs; cases hs
    · rcases Nat.eq_or_lt_of_le h with h' | h'
      · subst h'; rw [conn_simulOf_write] at hs; simp at hs; subst hs
        have := (conn_mem_transFor_write w r).1 h1
        have := (conn_mem_transFor_read w r).1 h2
        left; omega
      · have : e = w + r + 1 := Nat.le_antisymm (Nat.lt_succ_iff.1 he') h'
        subst this; rw [conn_simulOf_read] at hs; simp at hs; subst hs
        have := (conn_mem_transFor_read w r).1 h1
        have := (conn_mem_transFor_write w r).1 h2
        right; omega
  · rintro (⟨h1, h2, h3⟩ | ⟨h1, h2, h3⟩)
    · exact ⟨w + r, (conn_mem_mat w r).2 (by omega), w + r + 1, by rw [conn_simulOf_write]; simp,
        a, (conn_mem_transFor_write w r).2 h1, b, (conn_mem_transFor_read w r).2 ⟨h2, h3⟩, rfl, rfl⟩
    · exact ⟨w + r + 1, (conn_mem_mat w r).2 (by omega), w + r, by rw [conn_simulOf_read]; simp,
        a, (conn_mem_transFor_read w r).2 ⟨h1, h2⟩, b, (conn_mem_transFor_write w r).2 h3, rfl, rfl⟩

/-- the groups the model computes for the Connect family are exactly the pairs (writer, reader) -/
def IsConnPair (w r : Nat) (g : List Nat) : Prop := ∃ a c, a < w ∧ c < r ∧ g = [a, w + c]

theorem conn_mem_pairs {g : List Nat} :
    g ∈ dedupGroups ((rawPairs (connPre w r) (methodMap (connPre w r))).map fun ab => norm (w + r + 2) [ab.1, ab.2]) ↔
      IsConnPair w r g := by
  rw [mem_dedupGroups]
  simp only [List.mem_map, Prod.exists]
  constructor
  · rintro ⟨a, b, hab, rfl⟩
    rcases (conn_mem_rawPairs w r).1 hab with ⟨h1, h2, h3⟩ | ⟨h1, h2, h3⟩
    · exact ⟨a, b - w, h1, by omega, by rw [(norm_pair (by omega) (by omega)).1]; congr 2; omega⟩
    · exact ⟨b, a - w, h3, by omega, by rw [(norm_pair (by omega) (by omega)).2]; congr 2; omega⟩
  · rintro ⟨a, c, ha, hc, rfl⟩
    exact ⟨a, w + c, (conn_mem_rawPairs w r).2 (Or.inl ⟨ha, by omega, by omega⟩), (norm_pair (by omega) (by omega)).1⟩

theorem conn_pair_not_conflicting {g : List Nat} (hg : IsConnPair w r g) :
    conflicting (indepSets (connPre w r) (methodMap (connPre w r))) g = false := by
  obtain ⟨a, c, ha, hc, rfl⟩ := hg
  obtain ⟨e1, e2⟩ := conn_indep_wr w r ha hc
  simp [conflicting, e1, e2]

theorem conn_groups {groups : List (List Nat)}
    (h : groupsOf (connPre w r) (methodMap (connPre w r)) = .ok groups) :
    ∀ g, g ∈ groups ↔ IsConnPair w r g := by
  unfold groupsOf at h
  simp only [conn_length] at h
  split at h
  · cases h
  · split at h
    · rename_i T hT
      simp only [Except.ok.injEq] at h
      subst h
      have hsound : ∀ g ∈ T, IsConnPair w r g := by
        apply closure_sound (w + r + 2) _ _ (IsConnPair w r) _ _ _ _ T hT
        · intro g hg; exact Or.inl ((conn_mem_pairs w r).1 hg)
        · intro g hg; cases hg
        · rintro g ⟨a, c, ha, hc, rfl⟩ p hp _
          obtain ⟨a', c', ha', hc', rfl⟩ := (conn_mem_pairs w r).1 hp
          by_cases haa : a = a'
          · by_cases hcc : c = c'
            · subst haa hcc
              left
              refine ⟨a, c, ha, hc, ?_⟩
              have : union (w + r + 2) [a, w + c] [a, w + c] = norm (w + r + 2) [a, w + c] := by
                unfold union; apply norm_congr; intro x
                simp only [List.mem_append, List.mem_cons, List.not_mem_nil, or_false]
                constructor <;> intro h <;> omega
              rw [this]; exact (norm_pair (by omega) (by omega)).1
            · right
              simp only [conflicting, List.any_eq_true, Bool.and_eq_true, bne_iff_ne, ne_eq]
              refine ⟨w + c, mem_union.2 ⟨by omega, Or.inl (by simp)⟩, w + c', mem_union.2 ⟨by omega, Or.inr (by simp)⟩,
                fun h => hcc (Nat.add_left_cancel h), conn_indep_readers w r hc hc'⟩
          · right
            simp only [conflicting, List.any_eq_true, Bool.and_eq_true, bne_iff_ne, ne_eq]
            exact ⟨a, mem_union.2 ⟨by omega, Or.inl (by simp)⟩, a', mem_union.2 ⟨by omega, Or.inr (by simp)⟩,
              haa, conn_indep_writers w r ha ha'⟩
      have hcomplete : ∀ g, IsConnPair w r g → g ∈ T := by
        intro g hg
        exact closure_complete (w + r + 2) _ _ _ _ _ T hT g (Or.inl ((conn_mem_pairs w r).2 hg))
          (conn_pair_not_conflicting w r hg)
      intro g
      rw [mem_sortGroups, mem_maximalGroups]
      constructor
      · rintro ⟨hg, _⟩; exact hsound g hg
      · intro hg
        refine ⟨hcomplete g hg, ?_⟩
        intro g2 hg2 hsub
        obtain ⟨a, c, ha, hc, rfl⟩ := hg
        obtain ⟨a', c', ha', hc', rfl⟩ := hsound g2 hg2
        simp only [subset, List.all_cons, List.all_nil, Bool.and_true, Bool.and_eq_true, List.contains_eq_mem,
          List.mem_cons, List.not_mem_nil, or_false, decide_eq_true_eq] at hsub
        have h1 : a = a' := by omega
        have h2 : c = c' := by omega
        rw [h1, h2]
    · cases h

theorem conn_simultaneous {R : MergeOut} (h : simultaneous (connPre w r) (w + r) = .ok R) :
    ∃ groups, (∀ g, g ∈ groups ↔ IsConnPair w r g) ∧
      R = mergeOut (connPre w r) (w + r) [] (allSimultaneous (connPre w r) (methodMap (connPre w r))) groups := by
  unfold simultaneous at h
  simp only [conn_validateAll, conn_condCalled] at h
  split at h
  · cases h
  · rename_i groups hg
    simp only [Except.ok.injEq] at h
    exact ⟨groups, conn_groups w r hg, h.symm⟩

end conn


/-! ### the merged design of the Connect family -/

section mergeOut2
variable (D : Design) (nus : Nat) (cc allSim : List BodyId) (groups : List (List BodyId))

theorem post_dropped :
    (mergeOut D nus cc allSim groups).dropped =
      (List.range D.bodies.length).filter fun b =>
        D.transactions.contains b && allSim.contains b && !(norm D.bodies.length groups.flatten).contains b := rfl

/-- a body of the merged design that is not a transaction is in its `methods` list -/
theorem post_mem_methods {b : Nat} (hb : b < (mergeOut D nus cc allSim groups).D.bodies.length)
    (ht : (mergeOut D nus cc allSim groups).D.isTrans b = false) :
    b ∈ (mergeOut D nus cc allSim groups).D.methods := by
  have hm : (mergeOut D nus cc allSim groups).D.methods =
      (List.range (mergeOut D nus cc allSim groups).D.bodies.length).filter fun b =>
        !((mergeOut D nus cc allSim groups).D.bodies.getD b default).isTrans := rfl
  rw [hm, List.mem_filter]
  refine ⟨List.mem_range.2 hb, ?_⟩
  unfold Design.isTrans Design.body? at ht
  rw [List.getElem?_eq_getElem hb] at ht
  simp only at ht
  simp [List.getD, List.getElem?_eq_getElem hb, ht]

theorem mem_linkSites_user {P : Design} {enDeps : List (SiteId × List BodyId)} {src : Nat} {c : Call}
    (hsrc : src ∈ P.methodsAndTransactions) (hc : c ∈ P.calls src) (hs : c.site < nus)
    (hp : c.path.path.length = (P.defPath src).path.length + 1) : c.site ∈ linkSites P enDeps nus := by
  unfold linkSites
  apply List.mem_append_left
  simp only [List.mem_filterMap]
  refine ⟨(src, c), ?_, by simp [hs, hp]⟩
  simp only [Design.allSites, List.mem_flatMap, List.mem_map]
  exact ⟨src, hsrc, c, hc, rfl⟩

theorem mem_linkSites_merged {P : Design} {enDeps : List (SiteId × List BodyId)} {s : Nat}
    (h : (s, []) ∈ enDeps) : s ∈ linkSites P enDeps nus := by
  unfold linkSites
  apply List.mem_append_right
  simp only [List.mem_filterMap]
  exact ⟨(s, []), h, by simp⟩

end mergeOut2

section connPost
variable (w r : Nat) (groups : List (List Nat))

def connOut : MergeOut :=
  mergeOut (connPre w r) (w + r) [] (allSimultaneous (connPre w r) (methodMap (connPre w r))) groups

def cMod : Int := maxModule (connPre w r) + 1
def cOff (k : Nat) : Nat := (offsets groups (w + r)).getD k 0
def cC0 (k a : Nat) : Call := { callee := a, path := ⟨cMod w r, [⟨0, k⟩, ⟨0, 0⟩]⟩, site := cOff w r groups k + 0 }
def cC1 (k b : Nat) : Call := { callee := b, path := ⟨cMod w r, [⟨0, k⟩, ⟨0, 1⟩]⟩, site := cOff w r groups k + 1 }
def wCall (a : Nat) : Call := ⟨w + r, ⟨0, [⟨0, a⟩]⟩, a⟩
def rCall (c : Nat) : Call := ⟨w + r + 1, ⟨0, [⟨0, w + c⟩]⟩, w + c⟩

theorem connOut_length : (connOut w r groups).D.bodies.length = w + r + 2 + groups.length := by
  unfold connOut; rw [post_length, conn_length]

theorem connOut_dropped (hw : 0 < w) (hr : 0 < r) (hgr : ∀ g, g ∈ groups ↔ IsConnPair w r g) :
    (connOut w r groups).dropped = [] := by
  unfold connOut
  rw [post_dropped, conn_length]
  apply List.filter_eq_nil_iff.2
  intro (b : Nat) hb
  have hb' : b < w + r + 2 := List.mem_range.1 hb
  simp only [Bool.and_eq_true, List.contains_eq_mem, decide_eq_true_eq, Bool.not_eq_true', decide_eq_false_iff_not,
    not_and, Decidable.not_not]
  intro ht
  have hbt : b < w + r := by simpa [connPre] using ht.1
  apply mem_norm.2
  refine ⟨hb', ?_⟩
  simp only [List.mem_flatten]
  rcases Nat.lt_or_ge b w with h | h
  · exact ⟨[b, w + 0], (hgr _).2 ⟨b, 0, h, hr, rfl⟩, by simp⟩
  · exact ⟨[0, w + (b - w)], (hgr _).2 ⟨0, b - w, hw, by omega, rfl⟩, by simp; omega⟩

theorem connOut_body_old (hw : 0 < w) (hr : 0 < r) (hgr : ∀ g, g ∈ groups ↔ IsConnPair w r g) {b : Nat}
    (hb : b < w + r + 2) :
    (connOut w r groups).D.body? b =
      some (oldBody (allSimultaneous (connPre w r) (methodMap (connPre w r))) [] b
        ((connPre w r).bodies[b]'(by rw [conn_length]; exact hb))) := by
  have hb' : b < (connPre w r).bodies.length := by rw [conn_length]; exact hb
  have := post_body_old (connPre w r) (w + r) [] (allSimultaneous (connPre w r) (methodMap (connPre w r))) groups hb'
  have hd := connOut_dropped w r groups hw hr hgr
  unfold connOut at hd ⊢
  rw [this, hd]

theorem conn_bodies_get {b : Nat} (hb : b < w + r + 2) :
    (connPre w r).body? b = some ((connPre w r).bodies[b]'(by rw [conn_length]; exact hb)) := by
  unfold Design.body?
  exact List.getElem?_eq_getElem _

theorem connOut_calls_old (hw : 0 < w) (hr : 0 < r) (hgr : ∀ g, g ∈ groups ↔ IsConnPair w r g) {b : Nat}
    (hb : b < w + r + 2) : (connOut w r groups).D.calls b = (connPre w r).calls b := by
  unfold Design.calls
  rw [connOut_body_old w r groups hw hr hgr hb, conn_bodies_get w r hb]
  simp [oldBody]

theorem connOut_defPath_old (hw : 0 < w) (hr : 0 < r) (hgr : ∀ g, g ∈ groups ↔ IsConnPair w r g) {b : Nat}
    (hb : b < w + r + 2) : (connOut w r groups).D.defPath b = (connPre w r).defPath b := by
  unfold Design.defPath
  rw [connOut_body_old w r groups hw hr hgr hb, conn_bodies_get w r hb]
  simp [oldBody]

theorem connOut_isTrans_old (hw : 0 < w) (hr : 0 < r) (hgr : ∀ g, g ∈ groups ↔ IsConnPair w r g) {b : Nat}
    (hb : b < w + r + 2) : (connOut w r groups).D.isTrans b = false := by
  unfold Design.isTrans
  rw [connOut_body_old w r groups hw hr hgr hb]
  simp only [oldBody, Bool.and_eq_false_imp]
  intro ht
  rcases Nat.lt_or_ge b (w + r) with h | h
  · have := (conn_mem_allSim w r).2 h
    simp [this]
  · exfalso
    have hbody := conn_bodies_get w r hb
    rcases Nat.eq_or_lt_of_le h with h' | h'
    · subst h'
      rw [conn_body_write] at hbody
      have := Option.some.inj hbody
      rw [← this] at ht; simp [connWrite] at ht
    · have : b = w + r + 1 := by omega
      subst this
      rw [conn_body_read] at hbody
      have := Option.some.inj hbody
      rw [← this] at ht; simp [connRead] at ht

theorem connOut_merged {k a c : Nat} (hk : k < groups.length) (hg : groups[k] = [a, w + c]) :
    (connOut w r groups).D.calls (w + r + 2 + k) = [cC0 w r groups k a, cC1 w r groups k (w + c)] ∧
    (connOut w r groups).D.isTrans (w + r + 2 + k) = true := by
  have hl := conn_length w r
  have hbody := post_body_merged (connPre w r) (w + r) []
    (allSimultaneous (connPre w r) (methodMap (connPre w r))) groups hk
  rw [hl] at hbody
  have hoff : (offsets groups (w + r))[k]'(by rw [offsets_length]; exact hk) = cOff w r groups k := by
    simp [cOff, List.getD, List.getElem?_eq_getElem (show k < (offsets groups (w + r)).length by rw [offsets_length]; exact hk)]
  constructor
  · unfold Design.calls connOut
    rw [hbody, hg, hoff]
    simp [mergedBody, cC0, cC1, cMod, hl]
  · unfold Design.isTrans connOut
    rw [hbody]
    simp [mergedBody]

theorem connOut_none {b : Nat} (hb : w + r + 2 + groups.length ≤ b) : (connOut w r groups).D.body? b = none := by
  unfold connOut
  apply post_body_none
  rw [conn_length]; exact hb

theorem connOut_enDeps {k a c : Nat} (hk : k < groups.length) (hg : groups[k] = [a, w + c]) :
    (cOff w r groups k + 0, []) ∈ (connOut w r groups).enDeps ∧ (cOff w r groups k + 1, []) ∈ (connOut w r groups).enDeps := by
  unfold connOut
  rw [post_enDeps]
  have hk' : k < (offsets groups (w + r)).length := by rw [offsets_length]; exact hk
  have hz : (groups[k], (offsets groups (w + r))[k]) ∈ groups.zip (offsets groups (w + r)) := by
    have hkz : k < (groups.zip (offsets groups (w + r))).length := by simp [offsets_length, hk]
    have := List.getElem_mem hkz
    simpa [List.getElem_zip] using this
  have hoff : (offsets groups (w + r))[k] = cOff w r groups k := by
    simp [cOff, List.getD, List.getElem?_eq_getElem hk']
  simp only [List.mem_flatMap]
  constructor
  · refine ⟨_, hz, ?_⟩
    rw [hg, hoff]; simp [enDepsOf]
  · refine ⟨_, hz, ?_⟩
    rw [hg, hoff]; simp [enDepsOf]


open TxV.Core.Bridge in
theorem connOut_shape (hw : 0 < w) (hr : 0 < r) (hgr : ∀ g, g ∈ groups ↔ IsConnPair w r g) :
    Core.ShapeC13 (toAbs (connOut w r groups).D) (w + r) (w + r + 1)
      (linkSites (connOut w r groups).D (connOut w r groups).enDeps (w + r)) := by
  have hN : (toAbs (connOut w r groups).D).n = w + r + 2 + groups.length := by
    rw [toAbs_n, connOut_length]
  have hold : ∀ b, b < w + r + 2 → (toAbs (connOut w r groups).D).isTrans b = false := by
    intro b hb; rw [toAbs_isTrans]; exact connOut_isTrans_old w r groups hw hr hgr hb
  -- the calls of writers and readers are link sites
  have hmeth : ∀ b, b < w + r + 2 → b ∈ (connOut w r groups).D.methodsAndTransactions := by
    intro b hb
    apply List.mem_append_left
    exact post_mem_methods _ _ _ _ _ (by rw [← connOut, connOut_length]; omega)
      (connOut_isTrans_old w r groups hw hr hgr hb)
  have hwcall : ∀ a, a < w → wCall w r a ∈ (connOut w r groups).D.calls a ∧
      (wCall w r a).site ∈ linkSites (connOut w r groups).D (connOut w r groups).enDeps (w + r) := by
    intro a ha
    have hc : wCall w r a ∈ (connOut w r groups).D.calls a := by
      rw [connOut_calls_old w r groups hw hr hgr (by omega), conn_calls_writer w r ha]; simp [wCall]
    have hs : (wCall w r a).site < w + r := by show a < w + r; omega
    refine ⟨hc, mem_linkSites_user (w + r) (hmeth a (by omega)) hc hs ?_⟩
    rw [connOut_defPath_old w r groups hw hr hgr (by omega)]
    simp [wCall, Design.defPath, conn_body_writer w r ha, connWriter]
  have hrcall : ∀ c, c < r → rCall w r c ∈ (connOut w r groups).D.calls (w + c) ∧
      (rCall w r c).site ∈ linkSites (connOut w r groups).D (connOut w r groups).enDeps (w + r) := by
    intro c hc'
    have hc : rCall w r c ∈ (connOut w r groups).D.calls (w + c) := by
      rw [connOut_calls_old w r groups hw hr hgr (by omega), conn_calls_reader w r hc']; simp [rCall]
    have hs : (rCall w r c).site < w + r := by show w + c < w + r; omega
    refine ⟨hc, mem_linkSites_user (w + r) (hmeth (w + c) (by omega)) hc hs ?_⟩
    rw [connOut_defPath_old w r groups hw hr hgr (by omega)]
    simp [rCall, Design.defPath, conn_body_reader w r hc', connReader]
  -- every transaction of the merged design is a merged transaction of a (writer, reader) group
  have htrans : ∀ g, (toAbs (connOut w r groups).D).isTrans g = true →
      ∃ k a c, ∃ (hk : k < groups.length), a < w ∧ c < r ∧ groups[k] = [a, w + c] ∧ g = w + r + 2 + k := by
    intro g hg
    have hlt := (toAbs (connOut w r groups).D).isTrans_lt hg
    rw [hN] at hlt
    rcases Nat.lt_or_ge g (w + r + 2) with hb | hb
    · rw [hold g hb] at hg; cases hg
    · obtain ⟨k, rfl⟩ : ∃ k, g = w + r + 2 + k := ⟨g - (w + r + 2), by omega⟩
      have hk : k < groups.length := by omega
      obtain ⟨a, c, ha, hc, hgk⟩ := (hgr _).1 (List.getElem_mem hk)
      exact ⟨k, a, c, hk, ha, hc, hgk, rfl⟩
  refine ⟨⟨by rw [hN]; omega, hold _ (by omega)⟩, ⟨by rw [hN]; omega, hold _ (by omega)⟩, ?_, ?_⟩
  · -- a transaction (reaching `write`) calls `read` through unconditional calls: merged call of the reader, reader's call
    intro g hg _
    obtain ⟨k, a, c, hk, ha, hc, hgk, rfl⟩ := htrans g hg
    obtain ⟨mc, _⟩ := connOut_merged w r groups hk hgk
    obtain ⟨_, e1⟩ := connOut_enDeps w r groups hk hgk
    obtain ⟨rc, rl⟩ := hrcall c hc
    refine ⟨[cvtCall (cC1 w r groups k (w + c)), cvtCall (rCall w r c)], ?_, ?_, ?_⟩
    · refine .cons (by rw [toAbs_calls, mc]; simp) (.single ?_)
      show cvtCall (rCall w r c) ∈ ((toAbs (connOut w r groups).D).body (w + c)).calls
      rw [toAbs_calls]; exact List.mem_map.2 ⟨_, rc, rfl⟩
    · simp [Core.target, cvtCall, rCall]
    · intro x hx
      simp only [List.mem_cons, List.not_mem_nil, or_false] at hx
      rcases hx with rfl | rfl
      · exact mem_linkSites_merged (w + r) e1
      · exact rl
  · intro g hg _
    obtain ⟨k, a, c, hk, ha, hc, hgk, rfl⟩ := htrans g hg
    obtain ⟨mc, _⟩ := connOut_merged w r groups hk hgk
    obtain ⟨e0, _⟩ := connOut_enDeps w r groups hk hgk
    obtain ⟨wc, wl⟩ := hwcall a ha
    refine ⟨[cvtCall (cC0 w r groups k a), cvtCall (wCall w r a)], ?_, ?_, ?_⟩
    · refine .cons (by rw [toAbs_calls, mc]; simp) (.single ?_)
      show cvtCall (wCall w r a) ∈ ((toAbs (connOut w r groups).D).body a).calls
      rw [toAbs_calls]; exact List.mem_map.2 ⟨_, wc, rfl⟩
    · simp [Core.target, cvtCall, wCall]
    · intro x hx
      simp only [List.mem_cons, List.not_mem_nil, or_false] at hx
      rcases hx with rfl | rfl
      · exact mem_linkSites_merged (w + r) e0
      · exact wl

end connPost

/-- **`simultaneous_shape_connect`**: for `w ≥ 1` writers and `r ≥ 1` readers of one `Connect`, every result
of the executable model of `_simultaneous` has the shape the C13 theorems need for (`write`, `read`) -/
theorem simultaneous_shape_connect (w r : Nat) (hw : 0 < w) (hr : 0 < r) {R : MergeOut}
    (h : simultaneous (connPre w r) (w + r) = .ok R) :
    Core.ShapeC13 (Core.Bridge.toAbs R.D) (w + r) (w + r + 1) (linkSites R.D R.enDeps (w + r)) := by
  obtain ⟨groups, hgr, rfl⟩ := conn_simultaneous w r h
  exact connOut_shape w r groups hw hr hgr

end TxV.Simul
