import TxV.Model.Pipeline
/-! Ghost histories, the chain invariant and helper lemmas for C28 (PipelineBuilder). -/
namespace TxV.Pipeline

/-- per-node history since the last clear: records consumed, values given (caller arguments /
    decoupling-pipe contents used), records produced, values entered into the decoupling pipe -/
structure Hist where
  cons : List Rec
  xs : List Rec
  outs : List Rec
  ents : List Rec

def Hist.empty : Hist := { cons := [], xs := [], outs := [], ents := [] }

def addOut (h : Hist) (o : NodeOut) : Hist :=
  { cons := h.cons ++ (o.fired.map (·.inp)).toList
    xs := h.xs ++ (o.fired.map (·.given)).toList
    outs := h.outs ++ (o.fired.map (·.out)).toList
    ents := h.ents ++ o.ent.toList }

/-- invariant of one node: `prev` is the history of records produced by the previous node -/
def LocalInv (first : Bool) (prev : List Rec) (nd : Node) (st : NodeSt) (h : Hist) : Prop :=
  (if first then (∀ r ∈ h.cons, r = []) ∧ st.q = [] else prev = h.cons ++ st.q) ∧
  h.cons.length = h.xs.length ∧
  h.outs = List.zipWith nd.apply h.cons h.xs ∧
  (if nd.nodep then h.ents = h.xs ++ st.nq else h.ents = [] ∧ st.nq = []) ∧
  st.q.length ≤ nd.cap ∧ st.nq.length ≤ 1

/-- the chain invariant: every node's local invariant, each fed by the previous node's outputs -/
def Chain (first : Bool) (prev : List Rec) : List Node → List NodeSt → List Hist → Prop
  | [], [], [] => True
  | nd :: nds, st :: sts, h :: hs => LocalInv first prev nd st h ∧ Chain false h.outs nds sts hs
  | _, _, _ => False

theorem fireOf_ok {first : Bool} {nd : Node} {st : NodeSt} {ev : Ev} {f : Option Fired}
    (h : fireOf first nd st ev = .ok f) :
    (f = none ∧ ev.fire = false) ∨
    (∃ r x, f = some { inp := r, given := x, ret := nd.ret r, gen := nd.gen r x, out := nd.apply r x } ∧
      ev.fire = true ∧ (if first then r = [] else st.q.head? = some r) ∧
      (if nd.nodep then st.nq.head? = some x else x = ev.x) ∧ nd.guard r = true) := by
  unfold fireOf at h
  by_cases hf : ev.fire = true
  · simp only [hf, if_true] at h
    right
    split at h
    · rename_i r x h1 h2
      by_cases hg : nd.guard r = true
      case neg => simp [hg] at h
      simp only [hg, if_true] at h
      refine ⟨r, x, ?_, hf, ?_, ?_, hg⟩
      · cases h; rfl
      · by_cases hfi : first = true
        · simp only [hfi, if_true] at h1 ⊢; cases h1; rfl
        · simp only [hfi] at h1 ⊢; simpa using h1
      · by_cases hn : nd.nodep = true
        · simp only [hn, if_true] at h2 ⊢; exact h2
        · simp only [hn] at h2 ⊢; simp at h2; simp [h2]
    · cases h
    · cases h
  · have hf' : ev.fire = false := by simpa using hf
    simp only [hf'] at h
    left
    simp at h
    cases h
    exact ⟨rfl, hf'⟩

theorem head?_eq_cons {α : Type} {l : List α} {a : α} (h : l.head? = some a) : l = a :: l.tail := by
  cases l with
  | nil => cases h
  | cons b t => simp at h; subst h; rfl

/-- one node, one cycle -/
theorem local_step {first : Bool} {prev : List Rec} {nd : Node} {st : NodeSt} {h : Hist}
    {pushed : Option Rec} {ev : Ev} {f : Option Fired}
    (hi : LocalInv first prev nd st h)
    (hpf : first = true → pushed = none)
    (hroom : ¬ (pushed.isSome && !(decide (st.q.length < nd.cap) || (nd.isPipe && ev.fire))) = true)
    (hent : ¬ (ev.entry.isSome && !(nd.nodep && (st.nq.isEmpty || ev.fire))) = true)
    (hf : fireOf first nd st ev = .ok f) :
    LocalInv first (prev ++ pushed.toList) nd
      { q := (if f.isSome && !first then st.q.tail else st.q) ++ pushed.toList
        nq := (if f.isSome && nd.nodep then st.nq.tail else st.nq) ++ (ev.entry.map nd.entryVal).toList }
      (addOut h { fired := f, ent := ev.entry.map nd.entryVal }) := by
  obtain ⟨hq, hlen, houts, hnq, hcap, hnql⟩ := hi
  -- facts about the entry
  have hent' : ev.entry = none ∨ (nd.nodep = true ∧ (st.nq = [] ∨ ev.fire = true)) := by
    cases he : ev.entry with
    | none => left; rfl
    | some e =>
      right
      simp [he] at hent
      refine ⟨hent.1, ?_⟩
      by_cases hne : st.nq = []
      · left; exact hne
      · right; exact hent.2 hne
  have hroom' : pushed = none ∨ (first = false ∧ (st.q.length < nd.cap ∨ ev.fire = true)) := by
    cases hp : pushed with
    | none => left; rfl
    | some p =>
      right
      have hfirst : first = false := by
        cases hfi : first with
        | false => rfl
        | true => have := hpf hfi; rw [hp] at this; cases this
      refine ⟨hfirst, ?_⟩
      simp [hp] at hroom
      by_cases hlt : st.q.length < nd.cap
      · left; exact hlt
      · right; exact (hroom (by omega)).2
  rcases fireOf_ok hf with ⟨hfn, hfire⟩ | ⟨r, x, hfs, hfire, hr, hx, _⟩
  · -- the combiner does not run
    subst hfn
    simp only [Option.isSome_none, Bool.false_and, Bool.false_eq_true, if_false, addOut, Option.map_none,
      Option.toList_none, List.append_nil]
    refine ⟨?_, hlen, houts, ?_, ?_, ?_⟩
    · by_cases hfi : first = true
      · simp only [hfi, if_true] at hq ⊢
        rw [hpf hfi]; simpa using hq
      · simp only [hfi] at hq ⊢
        simp only [Bool.false_eq_true, if_false] at hq ⊢
        rw [hq, List.append_assoc]
    · by_cases hn : nd.nodep = true
      · simp only [hn, if_true] at hnq ⊢
        rw [hnq, List.append_assoc]
      · simp only [hn] at hnq ⊢
        simp only [Bool.false_eq_true, if_false] at hnq ⊢
        rcases hent' with he | ⟨hn', _⟩
        · simp [he, hnq.1, hnq.2]
        · exact absurd hn' hn
    · rcases hroom' with hp | ⟨_, hlt | hfr⟩
      · simp [hp, hcap]
      · cases pushed <;> simp <;> omega
      · rw [hfire] at hfr; cases hfr
    · rcases hent' with he | ⟨_, hemp | hfr⟩
      · simp [he, hnql]
      · cases ev.entry <;> simp [hemp]
      · rw [hfire] at hfr; cases hfr
  · -- the combiner runs
    subst hfs
    simp only [Option.isSome_some, Bool.true_and, addOut, Option.map_some, Option.toList_some]
    have hlen' : (h.cons ++ [r]).length = (h.xs ++ [x]).length := by simp [hlen]
    refine ⟨?_, hlen', ?_, ?_, ?_, ?_⟩
    · by_cases hfi : first = true
      · simp only [hfi, if_true] at hq hr ⊢
        rw [hpf hfi]
        refine ⟨?_, by simpa using hq.2⟩
        intro r' hr'
        rw [List.mem_append] at hr'
        rcases hr' with h1 | h1
        · exact hq.1 r' h1
        · simp at h1; rw [h1, hr]
      · have hfi' : first = false := by simpa using hfi
        subst hfi'
        simp only [Bool.false_eq_true, if_false, Bool.not_false, if_true] at hq hr ⊢
        rw [hq, head?_eq_cons hr]
        simp
    · rw [List.zipWith_append hlen, houts]
      simp
    · by_cases hn : nd.nodep = true
      · simp only [hn, if_true] at hnq hx ⊢
        rw [hnq, head?_eq_cons hx]
        simp
      · simp only [hn] at hnq ⊢
        simp only [Bool.false_eq_true, if_false] at hnq ⊢
        rcases hent' with he | ⟨hn', _⟩
        · simp [he, hnq.1, hnq.2]
        · exact absurd hn' hn
    · rcases hroom' with hp | ⟨hfi, _⟩
      · rw [hp]
        by_cases hfi : first = true
        · simp [hfi, hcap]
        · simp only [hfi]
          simp only [Bool.not_false, if_true, Option.toList_none, List.append_nil, List.length_tail]
          omega
      · subst hfi
        simp only [Bool.false_eq_true, if_false, Bool.not_false, if_true] at hr ⊢
        rw [head?_eq_cons hr] at hcap
        cases pushed <;> simp at hcap ⊢ <;> omega
    · by_cases hn : nd.nodep = true
      · simp only [hn, if_true] at hx ⊢
        rw [head?_eq_cons hx] at hnql
        cases ev.entry <;> simp at hnql ⊢ <;> omega
      · simp only [hn] at hnq ⊢
        simp only [Bool.false_eq_true, if_false] at hnq ⊢
        rcases hent' with he | ⟨hn', _⟩
        · simp [he, hnq.2]
        · exact absurd hn' hn

theorem addOut_outs (h : Hist) (f : Option Fired) (e : Option Rec) :
    (addOut h { fired := f, ent := e }).outs = h.outs ++ (f.map (·.out)).toList := rfl

/-- the chain invariant is preserved by every enabled step of the chain -/
theorem stepNodes_chain (nodes : List Node) :
    ∀ (first : Bool) (pushed : Option Rec) (prev : List Rec) (sts : List NodeSt) (hs : List Hist)
      (evs : List Ev) (sts' : List NodeSt) (outs : List NodeOut),
      Chain first prev nodes sts hs → (first = true → pushed = none) →
      stepNodes first pushed nodes sts evs = .ok (sts', outs) →
      Chain first (prev ++ pushed.toList) nodes sts' (List.zipWith addOut hs outs) := by
  induction nodes with
  | nil =>
    intro first pushed prev sts hs evs sts' outs hc _ h
    cases sts <;> cases hs <;> cases evs <;> simp [stepNodes, Chain] at h hc ⊢
    obtain ⟨h1, h2⟩ := h
    subst h1; subst h2
    simp [Chain]
  | cons nd nds ih =>
    intro first pushed prev sts hs evs sts' outs hc hpf h
    cases sts with
    | nil => simp [Chain] at hc
    | cons st sts =>
      cases hs with
      | nil => simp [Chain] at hc
      | cons hh hs =>
        cases evs with
        | nil => simp [stepNodes] at h
        | cons ev evs =>
          obtain ⟨hloc, hrest⟩ := hc
          simp only [stepNodes] at h
          split at h
          · cases h
          · rename_i hroom
            split at h
            · cases h
            · rename_i hent
              split at h
              · cases h
              · rename_i f hf
                split at h
                · cases h
                · rename_i sts2 outs2 hrec
                  simp only [Except.ok.injEq, Prod.mk.injEq] at h
                  obtain ⟨h1, h2⟩ := h
                  subst h1; subst h2
                  simp only [List.zipWith_cons_cons, Chain]
                  refine ⟨local_step hloc hpf hroom hent hf, ?_⟩
                  rw [addOut_outs]
                  exact ih false (f.map (·.out)) hh.outs sts hs evs sts2 outs2 hrest (by intro hc; cases hc) hrec

/-- `Chain` for the reset state with empty histories -/
theorem chain_init (nodes : List Node) (first : Bool) :
    Chain first [] nodes (init nodes) (nodes.map fun _ => Hist.empty) := by
  induction nodes generalizing first with
  | nil => simp [init, Chain]
  | cons nd nds ih =>
    simp only [init, List.map_cons, Chain]
    refine ⟨?_, ih false⟩
    unfold LocalInv
    cases first <;> cases nd.nodep <;> simp [Hist.empty]

/-- ghost histories along a run: accumulated per node, reset by `clear` -/
def histStep (nodes : List Node) (hs : List Hist) (l : Label) (outs : List NodeOut) : List Hist :=
  if l.clear then nodes.map fun _ => Hist.empty else List.zipWith addOut hs outs

def histRun (nodes : List Node) (hs : List Hist) : List Label → List (List NodeOut) → List Hist
  | l :: ls, o :: os => histRun nodes (histStep nodes hs l o) ls os
  | _, _ => hs

theorem step_chain (nodes : List Node) (s : State) (hs : List Hist) (l : Label) (s' : State)
    (outs : List NodeOut) (hc : Chain true [] nodes s hs) (h : step nodes s l = .ok (s', outs)) :
    Chain true [] nodes s' (histStep nodes hs l outs) := by
  unfold step at h
  split at h
  · cases h
  · rename_i s2 outs2 hst
    simp only [Except.ok.injEq, Prod.mk.injEq] at h
    obtain ⟨h1, h2⟩ := h
    subst h1; subst h2
    unfold histStep
    by_cases hcl : l.clear = true
    · simp only [hcl, if_true]; exact chain_init nodes true
    · simp only [hcl]
      have := stepNodes_chain nodes true none [] s hs l.evs s2 outs2 hc (fun _ => rfl) hst
      simpa using this

theorem run_chain (nodes : List Node) (ls : List Label) :
    ∀ (s : State) (hs : List Hist) (s' : State) (os : List (List NodeOut)),
      Chain true [] nodes s hs → run nodes s ls = .ok (s', os) →
      Chain true [] nodes s' (histRun nodes hs ls os) := by
  induction ls with
  | nil =>
    intro s hs s' os hc h
    simp only [run, Except.ok.injEq, Prod.mk.injEq] at h
    obtain ⟨h1, h2⟩ := h
    subst h1; subst h2
    simpa [histRun] using hc
  | cons l ls ih =>
    intro s hs s' os hc h
    simp only [run] at h
    split at h
    · cases h
    · rename_i s1 o1 hst
      split at h
      · cases h
      · rename_i s2 os2 hrun
        simp only [Except.ok.injEq, Prod.mk.injEq] at h
        obtain ⟨h1, h2⟩ := h
        subst h1; subst h2
        simp only [histRun]
        exact ih s1 _ s2 os2 (step_chain nodes s hs l s1 o1 hc hst) hrun

end TxV.Pipeline

namespace TxV.Pipeline

/-! ### readable corollaries of the chain invariant -/

theorem zipWith_append_left {α β γ : Type} (f : α → β → γ) (a b : List α) (c : List β)
    (h : c.length ≤ a.length) : List.zipWith f (a ++ b) c = List.zipWith f a c := by
  induction a generalizing c with
  | nil => cases c <;> simp at h ⊢
  | cons x a ih =>
    cases c with
    | nil => simp
    | cons y c => simp at h ⊢; exact ih c h

theorem zipWith_all_nil {β γ : Type} (f : Rec → β → γ) (a : List Rec) (c : List β)
    (ha : ∀ r ∈ a, r = []) (h : a.length = c.length) : List.zipWith f a c = c.map (f []) := by
  induction a generalizing c with
  | nil => cases c <;> simp at h ⊢
  | cons x a ih =>
    cases c with
    | nil => simp at h
    | cons y c =>
      simp at h ⊢
      exact ⟨by rw [ha x (by simp)], ih c (fun r hr => ha r (by simp [hr])) h⟩

/-- "each stage exactly once, in order, composition": the j-th record produced by a node is its
    stage function applied to the j-th record produced by the previous node and the j-th value
    given to it; node 0 produces one record per value given to it -/
def Composed (first : Bool) (prev : List Rec) : List Node → List Hist → Prop
  | [], [] => True
  | nd :: nds, h :: hs =>
    (if first then h.outs = h.xs.map (nd.apply []) else
      (h.outs = List.zipWith nd.apply prev h.xs ∧ h.xs.length ≤ prev.length)) ∧
    Composed false h.outs nds hs
  | _, _ => False

theorem chain_composed (nodes : List Node) :
    ∀ (first : Bool) (prev : List Rec) (sts : List NodeSt) (hs : List Hist),
      Chain first prev nodes sts hs → Composed first prev nodes hs := by
  induction nodes with
  | nil => intro first prev sts hs hc; cases sts <;> cases hs <;> simp [Chain, Composed] at hc ⊢
  | cons nd nds ih =>
    intro first prev sts hs hc
    cases sts with
    | nil => simp [Chain] at hc
    | cons st sts =>
      cases hs with
      | nil => simp [Chain] at hc
      | cons h hs =>
        obtain ⟨⟨hq, hlen, houts, _, _, _⟩, hrest⟩ := hc
        refine ⟨?_, ih false h.outs sts hs hrest⟩
        by_cases hfi : first = true
        · simp only [hfi, if_true] at hq ⊢
          rw [houts]; exact zipWith_all_nil _ _ _ hq.1 hlen
        · simp only [hfi] at hq ⊢
          simp only [Bool.false_eq_true, if_false] at hq ⊢
          rw [hq, zipWith_append_left _ _ _ _ (by omega)]
          exact ⟨houts, by simp; omega⟩

/-- "nothing is lost or duplicated between stages": what a node has produced is exactly what the
    next node has consumed (in the same order) followed by the content of the link between them;
    links never exceed their capacity; a decoupling pipe holds the entries not yet used -/
def Lossless (first : Bool) (prev : List Rec) : List Node → List NodeSt → List Hist → Prop
  | [], [], [] => True
  | nd :: nds, st :: sts, h :: hs =>
    (first = false → prev = h.cons ++ st.q) ∧ st.q.length ≤ nd.cap ∧
    (nd.nodep = true → h.ents = h.xs ++ st.nq ∧ st.nq.length ≤ 1) ∧
    Lossless false h.outs nds sts hs
  | _, _, _ => False

theorem chain_lossless (nodes : List Node) :
    ∀ (first : Bool) (prev : List Rec) (sts : List NodeSt) (hs : List Hist),
      Chain first prev nodes sts hs → Lossless first prev nodes sts hs := by
  induction nodes with
  | nil => intro first prev sts hs hc; cases sts <;> cases hs <;> simp [Chain, Lossless] at hc ⊢
  | cons nd nds ih =>
    intro first prev sts hs hc
    cases sts with
    | nil => simp [Chain] at hc
    | cons st sts =>
      cases hs with
      | nil => simp [Chain] at hc
      | cons h hs =>
        obtain ⟨⟨hq, _, _, hnq, hcap, hnql⟩, hrest⟩ := hc
        refine ⟨?_, hcap, ?_, ih false h.outs sts hs hrest⟩
        · intro hf; simpa [hf] using hq
        · intro hn; simp only [hn, if_true] at hnq; exact ⟨hnq, hnql⟩

/-- the data of every combiner run in a step's output is computed by the node's functions -/
def WfOuts : List Node → List NodeOut → Prop
  | [], [] => True
  | nd :: nds, o :: os =>
    (∀ f, o.fired = some f →
      f.ret = nd.ret f.inp ∧ f.gen = nd.gen f.inp f.given ∧ f.out = nd.apply f.inp f.given ∧
      nd.guard f.inp = true) ∧
    WfOuts nds os
  | _, _ => False

theorem stepNodes_wf (nodes : List Node) :
    ∀ (first : Bool) (pushed : Option Rec) (sts : List NodeSt) (evs : List Ev) (sts' : List NodeSt)
      (outs : List NodeOut), stepNodes first pushed nodes sts evs = .ok (sts', outs) → WfOuts nodes outs := by
  induction nodes with
  | nil =>
    intro first pushed sts evs sts' outs h
    cases sts <;> cases evs <;> simp [stepNodes] at h
    simp [h.2, WfOuts]
  | cons nd nds ih =>
    intro first pushed sts evs sts' outs h
    cases sts with
    | nil => simp [stepNodes] at h
    | cons st sts =>
      cases evs with
      | nil => simp [stepNodes] at h
      | cons ev evs =>
        simp only [stepNodes] at h
        split at h
        · cases h
        · split at h
          · cases h
          · split at h
            · cases h
            · rename_i f hf
              split at h
              · cases h
              · rename_i sts2 outs2 hrec
                simp only [Except.ok.injEq, Prod.mk.injEq] at h
                obtain ⟨_, h2⟩ := h
                subst h2
                refine ⟨?_, ih false _ sts evs sts2 outs2 hrec⟩
                intro f' hf'
                simp only at hf'
                rcases fireOf_ok hf with ⟨hn, _⟩ | ⟨r, x, hs, _, _, _, hg⟩
                · rw [hn] at hf'; cases hf'
                · rw [hs] at hf'; cases hf'; exact ⟨rfl, rfl, rfl, hg⟩

theorem run_append (nodes : List Node) (l1 l2 : List Label) :
    ∀ (s s' : State) (os : List (List NodeOut)), run nodes s (l1 ++ l2) = .ok (s', os) →
      ∃ s1 os1 os2, run nodes s l1 = .ok (s1, os1) ∧ run nodes s1 l2 = .ok (s', os2) ∧ os = os1 ++ os2 := by
  induction l1 with
  | nil => intro s s' os h; exact ⟨s, [], os, rfl, by simpa using h, rfl⟩
  | cons l l1 ih =>
    intro s s' os h
    simp only [List.cons_append, run] at h ⊢
    split at h
    · cases h
    · rename_i sa oa hst
      split at h
      · cases h
      · rename_i sb ob hrun
        simp only [Except.ok.injEq, Prod.mk.injEq] at h
        obtain ⟨h1, h2⟩ := h
        subst h1; subst h2
        obtain ⟨s1, os1, os2, r1, r2, r3⟩ := ih sa sb ob hrun
        refine ⟨s1, oa :: os1, os2, ?_, r2, by simp [r3]⟩
        simp [r1]

theorem step_clear (nodes : List Node) (s s' : State) (l : Label) (o : List NodeOut)
    (hc : l.clear = true) (h : step nodes s l = .ok (s', o)) : s' = init nodes := by
  unfold step at h
  split at h
  · cases h
  · simp only [hc, if_true, Except.ok.injEq, Prod.mk.injEq] at h
    exact h.1.symm

end TxV.Pipeline

namespace TxV.Pipeline

/-! ### linear pipelines: nodes after the first take nothing from the environment -/

/-- records produced by the last node of a chain (`prev` for the empty chain) -/
def lastOuts (prev : List Rec) : List Hist → List Rec
  | [] => prev
  | h :: hs => lastOuts h.outs hs

/-- the stage functions composed left to right -/
def through (nds : List Node) (r : Rec) : Rec := nds.foldl (fun r nd => nd.apply r []) r

theorem zipWith_eq_map_take {α β γ : Type} (f : α → β → γ) (d : β) (hf : ∀ a b, f a b = f a d)
    (a : List α) (c : List β) (h : c.length ≤ a.length) :
    List.zipWith f a c = (a.map (fun x => f x d)).take c.length := by
  induction a generalizing c with
  | nil => cases c <;> simp at h ⊢
  | cons x a ih =>
    cases c with
    | nil => simp
    | cons y c => simp at h ⊢; exact ⟨hf x y, ih c h⟩

theorem composed_linear (nds : List Node) :
    ∀ (prev : List Rec) (hs : List Hist),
      (∀ nd ∈ nds, ∀ r x, nd.apply r x = nd.apply r []) → Composed false prev nds hs →
      lastOuts prev hs = (prev.take (lastOuts prev hs).length).map (through nds) := by
  induction nds with
  | nil =>
    intro prev hs _ hc
    cases hs with
    | nil =>
      have : through [] = id := by funext r; rfl
      simp [lastOuts, this]
    | cons h hs => simp [Composed] at hc
  | cons nd nds ih =>
    intro prev hs hign hc
    cases hs with
    | nil => simp [Composed] at hc
    | cons h hs =>
      simp only [Composed, Bool.false_eq_true, if_false] at hc
      obtain ⟨⟨houts, hle⟩, hrest⟩ := hc
      have hih := ih h.outs hs (fun nd' hm => hign nd' (by simp [hm])) hrest
      simp only [lastOuts]
      have hO : h.outs = (prev.map (fun x => nd.apply x [])).take h.xs.length := by
        rw [houts]; exact zipWith_eq_map_take nd.apply [] (hign nd (by simp)) prev h.xs hle
      generalize h.outs = O at hih hO
      generalize lastOuts O hs = L at hih
      have hOl : O.length = h.xs.length := by rw [hO]; simp; omega
      have hk : L.length ≤ O.length := by
        have := congrArg List.length hih
        simp at this
        omega
      have hthr : ∀ r, through (nd :: nds) r = through nds (nd.apply r []) := by
        intro r; simp [through]
      conv => lhs; rw [hih]
      rw [hO, List.take_take, Nat.min_eq_left (by omega), ← List.map_take, List.map_map]
      apply List.map_congr_left
      intro r _
      simp [hthr]

end TxV.Pipeline
