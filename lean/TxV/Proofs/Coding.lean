import TxV.Model.Coding
/-! Helper lemmas for C38, coding module: encoders/decoders, count_trailing_zeros, Gray code. -/
namespace TxV.Coding
open TxV.Encoders

/-! ### Encoder / Decoder -/

theorem find_range_unique (w j : Nat) (p : Nat → Bool) (hj : j < w) (hp : p j = true)
    (hu : ∀ k, k < w → p k = true → k = j) : (List.range w).find? p = some j := by
  rw [List.find?_eq_some_iff_append]
  refine ⟨hp, List.range j, List.range' (j + 1) (w - (j + 1)), ?_, ?_⟩
  · apply List.ext_getElem?
    intro n
    simp only [List.getElem?_append, List.length_range, List.getElem?_cons]
    grind
  · intro k hk
    have hk' := List.mem_range.1 hk
    cases h : p k with
    | false => rfl
    | true => have := hu k (by omega) h; omega

theorem find_range_none (w : Nat) (p : Nat → Bool) (h : ∀ k, k < w → p k = false) :
    (List.range w).find? p = none := by
  rw [List.find?_eq_none]
  intro k hk
  simp [h k (List.mem_range.1 hk)]

theorem encoder_onehot (w j : Nat) (hj : j < w) : encoder w (2 ^ j) = (j, false) := by
  unfold encoder
  rw [find_range_unique w j _ hj (by simp)]
  intro k _ hk
  have : 2 ^ j = 2 ^ k := by simpa using hk
  exact ((Nat.pow_right_inj (by omega)).1 this).symm

theorem encoder_other (w x : Nat) (h : ∀ j, j < w → x ≠ 2 ^ j) : encoder w x = (0, true) := by
  unfold encoder
  rw [find_range_none w _ (fun k hk => by simpa using h k hk)]

theorem decoder_valid (w i : Nat) (hi : i < w) : decoder w i false = 2 ^ i := by
  unfold decoder
  rw [find_range_unique w i _ hi (by simp) (fun k _ hk => by simpa using hk)]
  simp

theorem decoder_out_of_range (w i : Nat) (hi : w ≤ i) : decoder w i false = 0 := by
  unfold decoder
  rw [find_range_none w _ (fun k hk => by simp; omega)]
  simp

theorem decoder_invalid (w i : Nat) : decoder w i true = 0 := by
  simp [decoder]

/-! ### count_trailing_zeros -/

/-- index of the lowest set bit; the length if no bit is set -/
def firstSet : List Bool → Nat
  | [] => 0
  | true :: _ => 0
  | false :: r => firstSet r + 1

theorem firstSet_le (s : List Bool) : firstSet s ≤ s.length := by
  induction s with
  | nil => simp [firstSet]
  | cons b r ih => cases b <;> simp [firstSet]; omega

theorem firstSet_lt_of_any {s : List Bool} (h : s.any id = true) : firstSet s < s.length := by
  induction s with
  | nil => simp at h
  | cons b r ih =>
    cases b
    · simp only [firstSet, List.length_cons]
      have := ih (by simpa using h)
      omega
    · simp [firstSet]

theorem firstSet_append_left {a : List Bool} (b : List Bool) (h : a.any id = true) :
    firstSet (a ++ b) = firstSet a := by
  induction a with
  | nil => simp at h
  | cons x r ih =>
    cases x
    · simp only [List.cons_append, firstSet]
      rw [ih (by simpa using h)]
    · simp [firstSet]

theorem firstSet_append_right {a : List Bool} (b : List Bool) (h : a.any id = false) :
    firstSet (a ++ b) = a.length + firstSet b := by
  induction a with
  | nil => simp
  | cons x r ih =>
    cases x
    · simp only [List.cons_append, firstSet, List.length_cons]
      rw [ih (by simpa using h)]; omega
    · simp at h

theorem firstSet_onehot (i : Nat) (rest : List Bool) : firstSet (List.replicate i false ++ true :: rest) = i := by
  induction i with
  | zero => simp [firstSet]
  | succ i ih => simp only [List.replicate_succ, List.cons_append, firstSet, ih]

theorem firstSet_falses (n : Nat) : firstSet (List.replicate n false) = n := by
  induction n with
  | zero => rfl
  | succ n ih => simp only [List.replicate_succ, firstSet, ih]

/-- the recursion of `count_trailing_zeros` computes the index of the lowest set bit whenever that index
    fits in `step` bits and the vector is at most `2^step` long -/
theorem ctzIter_eq : ∀ (step : Nat) (s : List Bool), s.length ≤ 2 ^ step → firstSet s < 2 ^ step →
    ctzIter step s = firstSet s
  | 0, s, _, h2 => by simp at h2; simp [ctzIter, h2]
  | step+1, s, h1, h2 => by
    unfold ctzIter
    simp only
    by_cases hl : s.length < 2 ^ step
    · simp only [hl, if_true]
      exact ctzIter_eq step s (by omega) (by have := firstSet_le s; omega)
    · simp only [hl, if_false]
      have hsplit : s = s.take (2 ^ step) ++ s.drop (2 ^ step) := (List.take_append_drop _ _).symm
      have htl : (s.take (2 ^ step)).length = 2 ^ step := by rw [List.length_take]; omega
      by_cases ha : (s.take (2 ^ step)).any id = true
      · simp only [ha, if_true]
        have hf : firstSet s = firstSet (s.take (2 ^ step)) := by
          conv => lhs; rw [hsplit]
          exact firstSet_append_left _ ha
        rw [hf]
        exact ctzIter_eq step _ (by omega) (by have := firstSet_lt_of_any ha; omega)
      · have ha' : (s.take (2 ^ step)).any id = false := by simpa using ha
        simp only [ha', Bool.false_eq_true, if_false]
        have hf : firstSet s = 2 ^ step + firstSet (s.drop (2 ^ step)) := by
          conv => lhs; rw [hsplit]
          rw [firstSet_append_right _ ha', htl]
        rw [hf]
        congr 1
        have hp : 2 ^ (step + 1) = 2 * 2 ^ step := by rw [Nat.pow_succ]; omega
        exact ctzIter_eq step _ (by rw [List.length_drop]; omega) (by omega)

theorem le_pow_clog2 (n : Nat) : n ≤ 2 ^ clog2 n := by
  unfold clog2
  split
  · simp; omega
  · rename_i h
    have : n - 1 < 2 ^ (Nat.log2 (n - 1) + 1) := (Nat.log2_lt (by omega)).1 (by omega)
    omega

theorem lt_pow_bitsFor (n : Nat) : n < 2 ^ bitsFor n := by
  unfold bitsFor
  split
  · subst_vars; simp
  · rename_i h
    exact (Nat.log2_lt h).1 (by omega)

theorem ctz_eq (s : List Bool) : ctz s = firstSet s := by
  unfold ctz
  have := le_pow_clog2 (s.length + 1)
  have := firstSet_le s
  exact ctzIter_eq _ s (by omega) (by omega)

theorem prioEncoder_set (i : Nat) (rest : List Bool) :
    prioEncoder (List.replicate i false ++ true :: rest) = (i, false) := by
  unfold prioEncoder
  have hz : (List.replicate i false ++ true :: rest).all (!·) = false := by simp
  simp only [hz, Bool.false_eq_true, if_false]
  rw [ctz_eq, firstSet_onehot]
  have hw : i < 2 ^ rangeWidth (List.replicate i false ++ true :: rest).length := by
    unfold rangeWidth
    simp only [List.length_append, List.length_replicate, List.length_cons]
    have : ¬ (i + (rest.length + 1) = 0) := by omega
    simp only [this, if_false]
    have := lt_pow_bitsFor (i + (rest.length + 1) - 1)
    omega
  rw [Nat.mod_eq_of_lt hw]

theorem prioEncoder_zero (n : Nat) : prioEncoder (List.replicate n false) = (0, true) := by
  unfold prioEncoder
  have hz : (List.replicate n false).all (!·) = true := by simp
  simp [hz]

/-! ### Gray code -/

theorem grayEnc_cons (b : Bool) (rest : List Bool) :
    grayEnc (b :: rest) = (xor b (rest.headD false)) :: grayEnc rest := by
  cases rest with
  | nil => simp [grayEnc]
  | cons c r => simp [grayEnc]

theorem grayEnc_length (bits : List Bool) : (grayEnc bits).length = bits.length := by
  induction bits with
  | nil => simp [grayEnc]
  | cons b r ih => rw [grayEnc_cons]; simp [ih]

theorem grayDec_length (bits : List Bool) : (grayDec bits).length = bits.length := by
  induction bits with
  | nil => rfl
  | cons b r ih => simp [grayDec, ih]

theorem grayDec_grayEnc (bits : List Bool) : grayDec (grayEnc bits) = bits := by
  induction bits with
  | nil => simp [grayEnc, grayDec]
  | cons b r ih =>
    rw [grayEnc_cons]
    simp only [grayDec, ih]
    cases b <;> cases r.headD false <;> rfl

theorem grayEnc_grayDec (bits : List Bool) : grayEnc (grayDec bits) = bits := by
  induction bits with
  | nil => simp [grayEnc, grayDec]
  | cons b r ih =>
    simp only [grayDec]
    rw [grayEnc_cons, ih]
    cases b <;> cases (grayDec r).headD false <;> rfl

/-- number of positions in which two bit vectors differ -/
def hamming (a b : List Bool) : Nat := (List.zipWith xor a b).count true

theorem hamming_cons (x y : Bool) (a b : List Bool) :
    hamming (x :: a) (y :: b) = (if xor x y then 1 else 0) + hamming a b := by
  simp only [hamming, List.zipWith_cons_cons, List.count_cons]
  cases xor x y <;> simp <;> omega

theorem hamming_self (a : List Bool) : hamming a a = 0 := by
  induction a with
  | nil => rfl
  | cons x r ih => rw [hamming_cons, ih]; simp

theorem headD_incL (r : List Bool) (h : r ≠ []) : (incL r).headD false = !(r.headD false) := by
  match r, h with
  | false :: _, _ => simp [incL]
  | true :: _, _ => simp [incL]

/-- consecutive numbers have Gray codes that differ in exactly one bit -/
theorem gray_adjacent (bits : List Bool) (h : bits.all id = false) :
    hamming (grayEnc bits) (grayEnc (incL bits)) = 1 := by
  induction bits with
  | nil => simp at h
  | cons b r ih =>
    cases b
    · simp only [incL, grayEnc_cons, hamming_cons, hamming_self]
      cases r.headD false <;> simp
    · have hr : r.all id = false := by simpa using h
      have hne : r ≠ [] := by intro he; rw [he] at hr; simp at hr
      simp only [incL, grayEnc_cons, hamming_cons, headD_incL r hne, ih hr]
      cases r.headD false <;> simp

theorem natOf_incL (bits : List Bool) (h : bits.all id = false) : natOf (incL bits) = natOf bits + 1 := by
  induction bits with
  | nil => simp at h
  | cons b r ih =>
    cases b
    · simp [incL, natOf]; omega
    · have hr : r.all id = false := by simpa using h
      simp [incL, natOf, ih hr]; omega

end TxV.Coding
