import TxV.Model.Transformers
/-! Helper lemmas for C18 (transformers and connectors). -/
namespace TxV.Transformers

/-! ### crossbar: the eager scheduler computes a maximal matching -/

/-- no two pairs of the list share a method -/
def NoClash (l : List (Nat × Nat)) : Prop := l.Pairwise (fun p q => p.1 ≠ q.1 ∧ p.2 ≠ q.2)

theorem clash_false_iff (acc : List (Nat × Nat)) (p : Nat × Nat) :
    clash acc p = false ↔ ∀ q ∈ acc, q.1 ≠ p.1 ∧ q.2 ≠ p.2 := by
  simp [clash]

theorem clash_true_iff (acc : List (Nat × Nat)) (p : Nat × Nat) :
    clash acc p = true ↔ ∃ q ∈ acc, q.1 = p.1 ∨ q.2 = p.2 := by
  simp [clash]

theorem grant_prefix (rn : Nat × Nat → Bool) (rest acc : List (Nat × Nat)) :
    ∃ l, grant rn rest acc = acc ++ l := by
  induction rest generalizing acc with
  | nil => exact ⟨[], by simp [grant]⟩
  | cons p rest ih =>
    simp only [grant]
    split
    · obtain ⟨l, hl⟩ := ih (acc ++ [p])
      exact ⟨p :: l, by simp [hl]⟩
    · exact ih acc

theorem grant_noClash (rn : Nat × Nat → Bool) (rest acc : List (Nat × Nat)) (h : NoClash acc) :
    NoClash (grant rn rest acc) := by
  induction rest generalizing acc with
  | nil => simpa [grant]
  | cons p rest ih =>
    simp only [grant]
    split
    · rename_i hc
      apply ih
      simp only [Bool.and_eq_true, Bool.not_eq_true', clash_false_iff] at hc
      unfold NoClash at *
      rw [List.pairwise_append]
      refine ⟨h, by simp, ?_⟩
      intro a ha b hb
      simp only [List.mem_singleton] at hb
      subst hb
      exact hc.2 a ha
    · exact ih acc h

theorem grant_mem (rn : Nat × Nat → Bool) (rest acc : List (Nat × Nat)) (p : Nat × Nat)
    (hp : p ∈ grant rn rest acc) :
    p ∈ acc ∨ (p ∈ rest ∧ rn p = true) := by
  induction rest generalizing acc with
  | nil => left; simpa [grant] using hp
  | cons q rest ih =>
    simp only [grant] at hp
    split at hp
    · rename_i hc
      simp only [Bool.and_eq_true] at hc
      rcases ih _ hp with h | h
      · simp only [List.mem_append, List.mem_singleton] at h
        rcases h with h | h
        · exact Or.inl h
        · subst h; exact Or.inr ⟨by simp, hc.1⟩
      · exact Or.inr ⟨by simp [h.1], h.2⟩
    · rcases ih _ hp with h | h
      · exact Or.inl h
      · exact Or.inr ⟨by simp [h.1], h.2⟩

theorem clash_mono (a b : List (Nat × Nat)) (p : Nat × Nat) (h : clash a p = true) :
    clash (a ++ b) p = true := by
  rw [clash_true_iff] at *
  obtain ⟨q, hq, hh⟩ := h
  exact ⟨q, by simp [hq], hh⟩

/-- every ready pair of the order is served or blocked by a granted pair sharing a method -/
theorem grant_maximal (rn : Nat × Nat → Bool) (rest acc : List (Nat × Nat)) (p : Nat × Nat)
    (hp : p ∈ rest) (h1 : rn p = true) :
    clash (grant rn rest acc) p = true := by
  induction rest generalizing acc with
  | nil => simp at hp
  | cons q rest ih =>
    simp only [grant]
    simp only [List.mem_cons] at hp
    rcases hp with hp | hp
    · subst hp
      by_cases hc : clash acc p = true
      · simp only [h1, hc, Bool.not_true, Bool.and_false]
        obtain ⟨l, hl⟩ := grant_prefix rn rest acc
        simp only [Bool.false_eq_true, if_false]
        rw [hl]; exact clash_mono _ _ _ hc
      · have hc' : clash acc p = false := by simpa using hc
        simp only [h1, hc', Bool.not_false, Bool.and_self, if_true]
        obtain ⟨l, hl⟩ := grant_prefix rn rest (acc ++ [p])
        rw [hl]
        apply clash_mono
        rw [clash_true_iff]
        exact ⟨p, by simp, Or.inl rfl⟩
    · split
      · exact ih _ hp
      · exact ih _ hp

theorem find_fst_of_noClash (l : List (Nat × Nat)) (h : NoClash l) (p : Nat × Nat) (hp : p ∈ l) :
    l.find? (fun q => q.1 == p.1) = some p := by
  induction l with
  | nil => simp at hp
  | cons q l ih =>
    unfold NoClash at h
    rw [List.pairwise_cons] at h
    simp only [List.mem_cons] at hp
    rcases hp with hp | hp
    · subst hp; simp
    · have := (h.1 p hp).1
      have hne : (q.1 == p.1) = false := by simpa using this
      rw [List.find?_cons, hne]
      exact ih h.2 hp

theorem find_snd_of_noClash (l : List (Nat × Nat)) (h : NoClash l) (p : Nat × Nat) (hp : p ∈ l) :
    l.find? (fun q => q.2 == p.2) = some p := by
  induction l with
  | nil => simp at hp
  | cons q l ih =>
    unfold NoClash at h
    rw [List.pairwise_cons] at h
    simp only [List.mem_cons] at hp
    rcases hp with hp | hp
    · subst hp; simp
    · have := (h.1 p hp).2
      have hne : (q.2 == p.2) = false := by simpa using this
      rw [List.find?_cons, hne]
      exact ih h.2 hp

theorem running_noClash (v1 v2 : Nat → Bool) (order : List (Nat × Nat)) (i : XIn) :
    NoClash (running v1 v2 order i) :=
  grant_noClash _ order [] (by simp [NoClash])

theorem running_mem (v1 v2 : Nat → Bool) (order : List (Nat × Nat)) (i : XIn) (p : Nat × Nat)
    (hp : p ∈ running v1 v2 order i) :
    p ∈ order ∧ pairRunnable v1 v2 i p = true := by
  rcases grant_mem _ order [] p hp with h | h
  · simp at h
  · exact h

theorem pairRunnable_iff (v1 v2 : Nat → Bool) (i : XIn) (p : Nat × Nat) :
    pairRunnable v1 v2 i p = true ↔
      readyAt i.t1 p.1 = true ∧ readyAt i.t2 p.2 = true ∧
      (∃ x, resultAt i.t2 p.2 = some x ∧ v1 x = true) ∧ (∃ y, resultAt i.t1 p.1 = some y ∧ v2 y = true) := by
  unfold pairRunnable
  cases h1 : resultAt i.t2 p.2 <;> cases h2 : resultAt i.t1 p.1 <;> simp [optAll, and_assoc]

theorem readyAt_result (t : List (Bool × Nat)) (k : Nat) (h : readyAt t k = true) :
    ∃ v, resultAt t k = some v ∧ t[k]? = some (true, v) := by
  unfold readyAt at h
  unfold resultAt
  split at h
  · rename_i r v hk
    subst h
    exact ⟨v, by simp [hk], hk⟩
  · simp at h

/-! ### nonexclusive wrapper -/

theorem orAll_const (l : List Nat) (a : Nat) (h : ∀ x ∈ l, x = a) (hne : l ≠ []) : orAll l = a := by
  unfold orAll
  have : ∀ (l : List Nat) (acc : Nat), (∀ x ∈ l, x = a) → (acc = a ∨ acc = 0) → l ≠ [] ∨ acc = a →
      l.foldl (· ||| ·) acc = a := by
    intro l
    induction l with
    | nil => intro acc _ _ h3; simpa using h3
    | cons x l ih =>
      intro acc h1 h2 _
      simp only [List.foldl_cons]
      have hx : x = a := h1 x (by simp)
      apply ih
      · intro y hy; exact h1 y (by simp [hy])
      · left; rcases h2 with h2 | h2 <;> simp [h2, hx]
      · right; rcases h2 with h2 | h2 <;> simp [h2, hx]
  exact this l 0 h (Or.inr rfl) (Or.inl hne)

/-! ### collector -/

theorem pick_some (tgts : List (Bool × Nat)) (order : List Nat) (k v : Nat)
    (h : pick tgts order = some (k, v)) : k ∈ order ∧ tgts[k]? = some (true, v) := by
  induction order with
  | nil => simp [pick] at h
  | cons j rest ih =>
    simp only [pick] at h
    split at h
    · rename_i v' hj
      simp only [Option.some.injEq, Prod.mk.injEq] at h
      obtain ⟨rfl, rfl⟩ := h
      exact ⟨by simp, hj⟩
    · have := ih h
      exact ⟨by simp [this.1], this.2⟩

theorem pick_none (tgts : List (Bool × Nat)) (order : List Nat)
    (h : pick tgts order = none) : ∀ k ∈ order, readyAt tgts k = false := by
  induction order with
  | nil => simp
  | cons j rest ih =>
    simp only [pick] at h
    split at h
    · simp at h
    · rename_i hj
      intro k hk
      simp only [List.mem_cons] at hk
      rcases hk with hk | hk
      · subst hk
        unfold readyAt
        split
        · rename_i r v hk'
          cases r
          · rfl
          · exact absurd hk' (hj v)
        · rfl
      · exact ih h k hk

/-- results returned by the executed target calls, in order -/
def produced (os : List COut) : List Nat := os.filterMap (fun o => o.called.map (·.2))
/-- results returned by the executed calls of `method`, in order -/
def delivered (os : List COut) : List Nat := os.filterMap (·.rd)

/-- one cycle: what was delivered followed by what is buffered afterwards equals what was
    buffered before followed by what was produced -/
theorem collector_step_hist (order : List Nat) (s : CState) (i : CIn) :
    (collectorStep order s i).2.rd.toList ++ (collectorStep order s i).1.buf.toList
      = s.buf.toList ++ ((collectorStep order s i).2.called.map (·.2)).toList := by
  simp only [collectorStep]
  cases hb : s.buf with
  | some v => cases hr : i.rd <;> simp
  | none =>
    cases hp : pick i.tgts order with
    | none => cases hr : i.rd <;> simp
    | some kv => cases hr : i.rd <;> simp

theorem filterMap_cons_toList {α β} (f : α → Option β) (a : α) (l : List α) :
    (a :: l).filterMap f = (f a).toList ++ l.filterMap f := by
  cases h : f a <;> simp [h]

theorem collector_run_hist (order : List Nat) (s : CState) (is : List CIn) :
    delivered (collectorRun order s is).2 ++ (collectorRun order s is).1.buf.toList
      = s.buf.toList ++ produced (collectorRun order s is).2 := by
  induction is generalizing s with
  | nil => simp [collectorRun, delivered, produced]
  | cons i is ih =>
    simp only [collectorRun, delivered, produced, filterMap_cons_toList]
    have h1 := collector_step_hist order s i
    have h2 := ih (collectorStep order s i).1
    simp only [delivered, produced] at h2
    rw [List.append_assoc, h2, ← List.append_assoc, h1, List.append_assoc]

end TxV.Transformers
