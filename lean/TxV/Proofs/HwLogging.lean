import TxV.Model.HwLogging
/-!
Helper lemmas for C34 (hardware logs and assertions).
-/
namespace TxV.HwLogging

/-! ### selection -/

theorem mem_indexFrom (i : Nat) (recs : List Rec) (ins : List RecIn) (t : Nat × Rec × RecIn) :
    t ∈ indexFrom i recs ins ↔ ∃ j, t.1 = i + j ∧ recs[j]? = some t.2.1 ∧ ins[j]? = some t.2.2 := by
  induction recs generalizing i ins with
  | nil => simp [indexFrom]
  | cons r rs ih =>
    cases ins with
    | nil => simp [indexFrom]
    | cons x xs =>
      simp only [indexFrom, List.mem_cons, ih]
      constructor
      · rintro (rfl | ⟨j, h1, h2, h3⟩)
        · exact ⟨0, by simp, by simp, by simp⟩
        · exact ⟨j + 1, by omega, by simpa using h2, by simpa using h3⟩
      · rintro ⟨j, h1, h2, h3⟩
        cases j with
        | zero =>
          left
          obtain ⟨a, b, c⟩ := t
          simp at h1 h2 h3
          simp [h1, h2, h3]
        | succ j =>
          right
          exact ⟨j, by omega, by simpa using h2, by simpa using h3⟩

theorem indexFrom_sorted (i : Nat) (recs : List Rec) (ins : List RecIn) :
    (indexFrom i recs ins).Pairwise fun a b => a.1 < b.1 := by
  induction recs generalizing i ins with
  | nil => simp [indexFrom]
  | cons r rs ih =>
    cases ins with
    | nil => simp [indexFrom]
    | cons x xs =>
      simp only [indexFrom, List.pairwise_cons]
      refine ⟨?_, ih (i + 1) xs⟩
      intro b hb
      obtain ⟨j, h, _, _⟩ := (mem_indexFrom _ _ _ _).1 hb
      show i < b.1
      omega

/-! ### handle_logs -/

/-- `u` fires at error level -/
def errFires (u : Nat × Rec × RecIn) : Prop := fires u.2.1 u.2.2 = true ∧ errorLevel ≤ u.2.1.level

theorem mem_handleLogs (render : Render) (sel : List (Nat × Rec × RecIn)) (m : Msg) :
    m ∈ (handleLogs render sel).1 ↔
      ∃ pre t post, sel = pre ++ t :: post ∧ fires t.2.1 t.2.2 = true ∧ (∀ u ∈ pre, ¬ errFires u) ∧
        m = mkMsg render t := by
  induction sel with
  | nil => simp [handleLogs]
  | cons t0 rest ih =>
    unfold handleLogs
    by_cases hf : fires t0.2.1 t0.2.2 = true
    · rw [if_pos hf]
      by_cases he : errorLevel ≤ t0.2.1.level
      · rw [if_pos he]
        simp only [List.mem_singleton]
        constructor
        · rintro rfl
          exact ⟨[], t0, rest, rfl, hf, by simp, rfl⟩
        · rintro ⟨pre, t, post, hs, _, hp, rfl⟩
          cases pre with
          | nil => simp at hs; rw [hs.1]
          | cons p pre' =>
            simp at hs
            exact absurd ⟨hf, he⟩ (hs.1 ▸ hp p (by simp))
      · rw [if_neg he]
        simp only [List.mem_cons, ih]
        constructor
        · rintro (rfl | ⟨pre, t, post, hs, h1, hp, rfl⟩)
          · exact ⟨[], t0, rest, rfl, hf, by simp, rfl⟩
          · refine ⟨t0 :: pre, t, post, by simp [hs], h1, ?_, rfl⟩
            intro u hu
            rcases List.mem_cons.1 hu with rfl | hu
            · exact fun h => he h.2
            · exact hp u hu
        · rintro ⟨pre, t, post, hs, h1, hp, rfl⟩
          cases pre with
          | nil => simp at hs; left; rw [hs.1]
          | cons p pre' =>
            simp at hs
            right
            exact ⟨pre', t, post, hs.2, h1, fun u hu => hp u (by simp [hu]), rfl⟩
    · rw [if_neg hf]
      simp only [ih]
      constructor
      · rintro ⟨pre, t, post, hs, h1, hp, rfl⟩
        refine ⟨t0 :: pre, t, post, by simp [hs], h1, ?_, rfl⟩
        intro u hu
        rcases List.mem_cons.1 hu with rfl | hu
        · exact fun h => hf h.1
        · exact hp u hu
      · rintro ⟨pre, t, post, hs, h1, hp, rfl⟩
        cases pre with
        | nil => simp at hs; exact absurd (hs.1 ▸ h1) hf
        | cons p pre' =>
          simp at hs
          exact ⟨pre', t, post, hs.2, h1, fun u hu => hp u (by simp [hu]), rfl⟩

theorem handleLogs_err (render : Render) (sel : List (Nat × Rec × RecIn)) :
    (handleLogs render sel).2 = true ↔ ∃ t ∈ sel, errFires t := by
  induction sel with
  | nil => simp [handleLogs]
  | cons t0 rest ih =>
    unfold handleLogs
    by_cases hf : fires t0.2.1 t0.2.2 = true
    · rw [if_pos hf]
      by_cases he : errorLevel ≤ t0.2.1.level
      · rw [if_pos he]
        simp only [true_iff]
        exact ⟨t0, by simp, hf, he⟩
      · rw [if_neg he]
        simp only [ih, List.mem_cons]
        constructor
        · rintro ⟨t, ht, h⟩; exact ⟨t, Or.inr ht, h⟩
        · rintro ⟨t, rfl | ht, h⟩
          · exact absurd h.2 he
          · exact ⟨t, ht, h⟩
    · rw [if_neg hf]
      simp only [ih, List.mem_cons]
      constructor
      · rintro ⟨t, ht, h⟩; exact ⟨t, Or.inr ht, h⟩
      · rintro ⟨t, rfl | ht, h⟩
        · exact absurd h.1 hf
        · exact ⟨t, ht, h⟩

theorem handleLogs_order (render : Render) (sel : List (Nat × Rec × RecIn)) :
    ((handleLogs render sel).1.map (·.idx)).Sublist (sel.map (·.1)) := by
  induction sel with
  | nil => simp [handleLogs]
  | cons t0 rest ih =>
    unfold handleLogs
    by_cases hf : fires t0.2.1 t0.2.2 = true
    · rw [if_pos hf]
      by_cases he : errorLevel ≤ t0.2.1.level
      · rw [if_pos he]
        simp only [List.map_cons, List.map_nil]
        exact List.Sublist.cons₂ _ (List.nil_sublist _)
      · rw [if_neg he]
        simp only [List.map_cons]
        exact List.Sublist.cons₂ _ ih
    · rw [if_neg hf]
      simp only [List.map_cons]
      exact List.Sublist.cons _ ih

theorem handleLogs_none (render : Render) (sel : List (Nat × Rec × RecIn))
    (h : sel.any (fun t => fires t.2.1 t.2.2) = false) : handleLogs render sel = ([], false) := by
  induction sel with
  | nil => rfl
  | cons t0 rest ih =>
    simp only [List.any_cons, Bool.or_eq_false_iff] at h
    unfold handleLogs
    simp [h.1, ih h.2]

/-- the `combined_trigger` short-cut of the process does not change what is reported -/
theorem logCycle_eq (render : Render) (minLevel : Nat) (recs : List Rec) (ins : List RecIn) :
    logCycle render minLevel recs ins = handleLogs render (cycleRecs minLevel recs ins) := by
  unfold logCycle
  by_cases h : (cycleRecs minLevel recs ins).any (fun t => fires t.2.1 t.2.2) = true
  · simp [h]
  · have h' : (cycleRecs minLevel recs ins).any (fun t => fires t.2.1 t.2.2) = false := by simpa using h
    simp only [h', Bool.false_eq_true, if_false]
    exact (handleLogs_none render _ h').symm

/-! ### the process over a whole simulation -/

theorem run_none (render : Render) (minLevel : Nat) (recs : List Rec) (c : Nat) (trace : List (List RecIn)) :
    (run render minLevel recs c trace).2 = none ↔
      ∀ ins ∈ trace, (logCycle render minLevel recs ins).2 = false := by
  induction trace generalizing c with
  | nil => simp [run]
  | cons ins rest ih =>
    unfold run
    cases he : (logCycle render minLevel recs ins).2 with
    | true =>
      have : logCycle render minLevel recs ins = ((logCycle render minLevel recs ins).1, true) := by
        rw [← he]
      rw [this]; simp [he]
    | false =>
      have : logCycle render minLevel recs ins = ((logCycle render minLevel recs ins).1, false) := by
        rw [← he]
      rw [this]
      simp only [Bool.false_eq_true, if_false, List.mem_cons, forall_eq_or_imp, he, true_and]
      exact ih (c + 1)

theorem run_some (render : Render) (minLevel : Nat) (recs : List Rec) (c : Nat) (trace : List (List RecIn)) (k : Nat)
    (h : (run render minLevel recs c trace).2 = some k) :
    ∃ j ins, k = c + j ∧ (run render minLevel recs c trace).1.length = j + 1 ∧ trace[j]? = some ins ∧
      (logCycle render minLevel recs ins).2 = true ∧
      ∀ j' ins', j' < j → trace[j']? = some ins' → (logCycle render minLevel recs ins').2 = false := by
  induction trace generalizing c with
  | nil => simp [run] at h
  | cons ins rest ih =>
    unfold run at h ⊢
    cases he : (logCycle render minLevel recs ins).2 with
    | true =>
      have e : logCycle render minLevel recs ins = ((logCycle render minLevel recs ins).1, true) := by
        rw [← he]
      rw [e] at h ⊢
      simp only [if_true, Option.some.injEq] at h
      refine ⟨0, ins, by omega, by simp, by simp, he, ?_⟩
      intro j' _ hj; omega
    | false =>
      have e : logCycle render minLevel recs ins = ((logCycle render minLevel recs ins).1, false) := by
        rw [← he]
      rw [e] at h ⊢
      simp only [Bool.false_eq_true, if_false] at h ⊢
      obtain ⟨j, ins2, hk, hl, ht, hb, hall⟩ := ih (c + 1) h
      refine ⟨j + 1, ins2, by omega, by simp [hl], by simpa using ht, hb, ?_⟩
      intro j' ins' hj ht'
      cases j' with
      | zero => simp at ht'; rw [← ht']; exact he
      | succ j' => exact hall j' ins' (by omega) (by simpa using ht')

theorem run_msgs (render : Render) (minLevel : Nat) (recs : List Rec) (c : Nat) (trace : List (List RecIn))
    (j : Nat) (ms : List Msg) (h : (run render minLevel recs c trace).1[j]? = some ms) :
    ∃ ins, trace[j]? = some ins ∧ ms = (logCycle render minLevel recs ins).1 := by
  induction trace generalizing c j with
  | nil => simp [run] at h
  | cons ins rest ih =>
    unfold run at h
    cases he : (logCycle render minLevel recs ins).2 with
    | true =>
      have e : logCycle render minLevel recs ins = ((logCycle render minLevel recs ins).1, true) := by
        rw [← he]
      rw [e] at h
      simp only [if_true] at h
      cases j with
      | zero => simp at h; exact ⟨ins, by simp, h.symm⟩
      | succ j => simp at h
    | false =>
      have e : logCycle render minLevel recs ins = ((logCycle render minLevel recs ins).1, false) := by
        rw [← he]
      rw [e] at h
      simp only [Bool.false_eq_true, if_false] at h
      cases j with
      | zero => simp at h; exact ⟨ins, by simp, h.symm⟩
      | succ j =>
        simp only [List.getElem?_cons_succ] at h ⊢
        exact ih (c + 1) j h

theorem run_length_none (render : Render) (minLevel : Nat) (recs : List Rec) (c : Nat) (trace : List (List RecIn))
    (h : (run render minLevel recs c trace).2 = none) :
    (run render minLevel recs c trace).1.length = trace.length := by
  induction trace generalizing c with
  | nil => simp [run]
  | cons ins rest ih =>
    unfold run at h ⊢
    cases he : (logCycle render minLevel recs ins).2 with
    | true =>
      have e : logCycle render minLevel recs ins = ((logCycle render minLevel recs ins).1, true) := by
        rw [← he]
      rw [e] at h; simp at h
    | false =>
      have e : logCycle render minLevel recs ins = ((logCycle render minLevel recs ins).1, false) := by
        rw [← he]
      rw [e] at h ⊢
      simp only [Bool.false_eq_true, if_false] at h ⊢
      simp [ih (c + 1) h]

/-! ### format -/

def isFmt : Chunk → Bool
  | .fmt _ => true
  | .lit _ => false

/-- number of format chunks before position `k`: the index of the field chunk `k` consumes -/
def fmtBefore (spec : List Chunk) (k : Nat) : Nat := ((spec.take k).filter isFmt).length

theorem formatChunks_spec (render : Render) (spec : List Chunk) (vals : List Int) (out : List String)
    (h : formatChunks render spec vals = some out) :
    out.length = spec.length ∧
    ∀ k (hk : k < spec.length),
      match spec[k] with
      | .lit s => out[k]? = some s
      | .fmt sp => ∃ v, vals[fmtBefore spec k]? = some v ∧ fieldText render sp v = out[k]? := by
  induction spec generalizing vals out with
  | nil =>
    simp [formatChunks] at h
    subst h
    exact ⟨rfl, fun k hk => absurd hk (by simp)⟩
  | cons ch cs ih =>
    cases ch with
    | lit s =>
      simp only [formatChunks, Option.map_eq_some_iff] at h
      obtain ⟨l, hl, rfl⟩ := h
      obtain ⟨hlen, hall⟩ := ih vals l hl
      refine ⟨by simp [hlen], ?_⟩
      intro k hk
      cases k with
      | zero => simp
      | succ k =>
        have := hall k (by simpa using hk)
        simp only [List.getElem_cons_succ, List.getElem?_cons_succ]
        have e : fmtBefore (Chunk.lit s :: cs) (k + 1) = fmtBefore cs k := by
          simp [fmtBefore, List.take_succ_cons, List.filter_cons, isFmt]
        rw [e]; exact this
    | fmt sp =>
      cases vals with
      | nil => simp [formatChunks] at h
      | cons v vs =>
        simp only [formatChunks] at h
        cases hft : fieldText render sp v with
        | none => simp [hft] at h
        | some a =>
          cases hfc : formatChunks render cs vs with
          | none => simp [hft, hfc] at h
          | some l =>
            simp [hft, hfc] at h
            subst h
            obtain ⟨hlen, hall⟩ := ih vs l hfc
            refine ⟨by simp [hlen], ?_⟩
            intro k hk
            cases k with
            | zero =>
              simp only [List.getElem_cons_zero]
              exact ⟨v, by simp [fmtBefore], by simp [hft]⟩
            | succ k =>
              have := hall k (by simpa using hk)
              simp only [List.getElem_cons_succ, List.getElem?_cons_succ]
              have e : fmtBefore (Chunk.fmt sp :: cs) (k + 1) = fmtBefore cs k + 1 := by
                simp [fmtBefore, List.take_succ_cons, List.filter_cons, isFmt]
              rw [e]
              simpa using this

theorem formatChunks_total (render : Render) (spec : List Chunk) (vals : List Int)
    (hn : (spec.filter isFmt).length ≤ vals.length) (hp : ∀ v ∈ vals, 0 ≤ v) :
    (formatChunks render spec vals).isSome = true := by
  induction spec generalizing vals with
  | nil => simp [formatChunks]
  | cons ch cs ih =>
    cases ch with
    | lit s =>
      simp only [formatChunks, Option.isSome_map]
      exact ih vals (by simpa [List.filter_cons, isFmt] using hn) hp
    | fmt sp =>
      cases vals with
      | nil => simp [List.filter_cons, isFmt] at hn
      | cons v vs =>
        have h1 := ih vs (by simp [List.filter_cons, isFmt] at hn; omega) (fun x hx => hp x (by simp [hx]))
        have hv : 0 ≤ v := hp v (by simp)
        obtain ⟨l, hl⟩ := Option.isSome_iff_exists.1 h1
        simp only [formatChunks, fieldText, hv, if_true, hl]
        by_cases hs : endsWithS sp = true <;> simp [hs]

/-! ### packed strings -/

theorem decodeS_packLE (bs : List Nat) (hb : ∀ b ∈ bs, b < 256) (f : Nat) (hf : packLE bs ≤ f) :
    decodeS f (packLE bs) = bs.filter (· ≠ 0) := by
  induction bs generalizing f with
  | nil => cases f <;> simp [decodeS, packLE]
  | cons b bs ih =>
    have hb0 : b < 256 := hb b (by simp)
    have hbs : ∀ x ∈ bs, x < 256 := fun x hx => hb x (by simp [hx])
    have zero_case : b + 256 * packLE bs = 0 → ([] : List Nat) = (b :: bs).filter (· ≠ 0) := by
      intro hz
      have h1 : b = 0 := by omega
      have h2 : packLE bs = 0 := by omega
      have := ih hbs 0 (by omega)
      simp only [decodeS] at this
      have e : (b :: bs).filter (· ≠ 0) = bs.filter (· ≠ 0) := by simp [List.filter_cons, h1]
      rw [e, ← this]
    cases f with
    | zero =>
      simp only [packLE] at hf ⊢
      simp only [decodeS]
      exact zero_case (by omega)
    | succ f =>
      simp only [packLE] at hf ⊢
      simp only [decodeS]
      by_cases hz : b + 256 * packLE bs = 0
      · simp only [hz, if_true]
        exact zero_case hz
      · have hm : (b + 256 * packLE bs) % 256 = b := by omega
        have hd : (b + 256 * packLE bs) / 256 = packLE bs := by omega
        have hle : packLE bs ≤ f := by omega
        simp only [hz, if_false, hm, hd, ih hbs f hle]
        by_cases hb1 : b = 0
        · simp [hb1, List.filter_cons]
        · simp [hb1, List.filter_cons]

end TxV.HwLogging
