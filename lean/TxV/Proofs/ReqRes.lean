import TxV.Model.ReqRes
/-! Helper lemmas for C19 (Serializer, ArgumentsToResultsZipper). -/
namespace TxV.ReqRes

theorem filterMap_cons_toList {α β} (f : α → Option β) (a : α) (l : List α) :
    (a :: l).filterMap f = (f a).toList ++ l.filterMap f := by
  cases h : f a <;> simp [h]

theorem zip_fst_snd_append {α β} (l : List (α × β)) (q : List α) :
    List.zip (l.map Prod.fst ++ q) (l.map Prod.snd) = l := by
  induction l with
  | nil => simp
  | cons x l ih => simp [ih]

theorem getElem?_of_prefix {α} (l q m : List α) (h : l ++ q = m) (k : Nat) (x : α)
    (hk : l[k]? = some x) : m[k]? = some x := by
  subst h
  have hlt : k < l.length := by
    rcases Nat.lt_or_ge k l.length with h | h
    · exact h
    · rw [List.getElem?_eq_none h] at hk; simp at hk
  rw [List.getElem?_append_left hlt]
  exact hk

theorem cap_aux {α} (l : List α) (c : Prop) [Decidable c] (w : Option α) (d : Nat) (h : l.length ≤ d)
    (hw : w.isSome = true → l.length < d) : ((if c then l.tail else l) ++ w.toList).length ≤ d := by
  have h1 : (if c then l.tail else l).length ≤ l.length := by split <;> simp
  cases w with
  | none => simp; omega
  | some x => have := hw rfl; simp; omega

/-! ### zipper -/

/-- values of the executed `write_args` calls, in order -/
def zArgsW (os : List ZOut) : List Nat := os.filterMap (·.wa)
/-- values of the executed `write_results` calls, in order -/
def zResW (os : List ZOut) : List Nat := os.filterMap (·.wr)
/-- results of the executed `read` calls, in order -/
def zReads (os : List ZOut) : List (Nat × Nat) := os.filterMap (·.rd)

theorem zStep_args (s : ZState) (i : ZIn) :
    ((zStep s i).2.rd.map (·.1)).toList ++ (zStep s i).1.args = s.args ++ (zStep s i).2.wa.toList := by
  simp only [zStep]
  generalize (if s.args.length < zDepth then i.wa else none) = waV
  generalize (if s.res.isNone = true then i.wr else none) = wrV
  cases hr : i.rd with
  | false => simp
  | true =>
    cases ha : s.args with
    | nil => simp
    | cons a rest =>
      cases hres : s.res with
      | some v => simp
      | none => cases wrV <;> simp

theorem zStep_res (s : ZState) (i : ZIn) :
    ((zStep s i).2.rd.map (·.2)).toList ++ (zStep s i).1.res.toList = s.res.toList ++ (zStep s i).2.wr.toList := by
  simp only [zStep]
  generalize (if s.args.length < zDepth then i.wa else none) = waV
  cases hres : s.res with
  | some v =>
    cases hr : i.rd with
    | false => simp
    | true => cases ha : s.args <;> simp
  | none =>
    simp only [Option.isNone_none, if_true]
    cases hw : i.wr with
    | none => cases hr : i.rd <;> cases ha : s.args <;> simp
    | some r => cases hr : i.rd <;> cases ha : s.args <;> simp

theorem zRun_hist (s : ZState) (is : List ZIn) :
    (zReads (zRun s is).2).map (·.1) ++ (zRun s is).1.args = s.args ++ zArgsW (zRun s is).2 ∧
    (zReads (zRun s is).2).map (·.2) ++ (zRun s is).1.res.toList = s.res.toList ++ zResW (zRun s is).2 := by
  induction is generalizing s with
  | nil => simp [zRun, zReads, zArgsW, zResW]
  | cons i is ih =>
    simp only [zRun, zReads, zArgsW, zResW, filterMap_cons_toList]
    have ha := zStep_args s i
    have hr := zStep_res s i
    have h2 := ih (zStep s i).1
    simp only [zReads, zArgsW, zResW] at h2
    constructor
    · rw [List.map_append, List.append_assoc, h2.1, ← List.append_assoc]
      have : List.map (·.1) (zStep s i).2.rd.toList = ((zStep s i).2.rd.map (·.1)).toList := by
        cases (zStep s i).2.rd <;> simp
      rw [this, ha, List.append_assoc]
    · rw [List.map_append, List.append_assoc, h2.2, ← List.append_assoc]
      have : List.map (·.2) (zStep s i).2.rd.toList = ((zStep s i).2.rd.map (·.2)).toList := by
        cases (zStep s i).2.rd <;> simp
      rw [this, hr, List.append_assoc]

/-- capacity invariant of the zipper: at most two pending arguments -/
theorem zStep_cap (s : ZState) (i : ZIn) (h : s.args.length ≤ zDepth) :
    (zStep s i).1.args.length ≤ zDepth := by
  simp only [zStep]
  apply cap_aux _ _ _ _ h
  intro hw
  split at hw
  · assumption
  · simp at hw

/-! ### serializer -/

def sIns (os : List SOut) : List (Nat × Nat) := os.filterMap (·.inDone)
def sOuts (os : List SOut) : List (Nat × Nat) := os.filterMap (·.outDone)
def sReqCalls (os : List SOut) : List Nat := os.filterMap (·.reqCall)
def sRespCalls (os : List SOut) : List Nat := os.filterMap (·.respCall)

def NoClear (is : List SIn) : Prop := ∀ i ∈ is, i.clr = false

theorem sStep_hist (depth : Nat) (order : List Nat) (s : SState) (i : SIn) (hc : i.clr = false) :
    ((sStep depth order s i).2.outDone.map (·.1)).toList ++ (sStep depth order s i).1.q
      = s.q ++ ((sStep depth order s i).2.inDone.map (·.1)).toList := by
  simp only [sStep, hc]
  generalize (if (decide (s.q.length < depth) && i.reqRdy) = true then pickIn i.ins order else none) = inD
  cases hq : s.q with
  | nil => simp
  | cons p rest =>
    simp only [List.head?_cons]
    split <;> simp

theorem sRun_hist (depth : Nat) (order : List Nat) (s : SState) (is : List SIn) (hc : NoClear is) :
    (sOuts (sRun depth order s is).2).map (·.1) ++ (sRun depth order s is).1.q
      = s.q ++ (sIns (sRun depth order s is).2).map (·.1) := by
  induction is generalizing s with
  | nil => simp [sRun, sOuts, sIns]
  | cons i is ih =>
    simp only [sRun, sOuts, sIns, filterMap_cons_toList]
    have h1 := sStep_hist depth order s i (hc i (by simp))
    have h2 := ih (sStep depth order s i).1 (fun j hj => hc j (by simp [hj]))
    simp only [sOuts, sIns] at h2
    have e1 : List.map (·.1) (sStep depth order s i).2.outDone.toList
        = ((sStep depth order s i).2.outDone.map (·.1)).toList := by
      cases (sStep depth order s i).2.outDone <;> simp
    have e2 : List.map (·.1) (sStep depth order s i).2.inDone.toList
        = ((sStep depth order s i).2.inDone.map (·.1)).toList := by
      cases (sStep depth order s i).2.inDone <;> simp
    rw [List.map_append, List.append_assoc, h2, ← List.append_assoc, e1, h1, List.map_append, e2,
      List.append_assoc]

theorem sRun_calls (depth : Nat) (order : List Nat) (s : SState) (is : List SIn) :
    sRespCalls (sRun depth order s is).2 = (sOuts (sRun depth order s is).2).map (·.2) ∧
    sReqCalls (sRun depth order s is).2 = (sIns (sRun depth order s is).2).map (·.2) := by
  induction is generalizing s with
  | nil => simp [sRun, sRespCalls, sOuts, sReqCalls, sIns]
  | cons i is ih =>
    simp only [sRun, sRespCalls, sOuts, sReqCalls, sIns, filterMap_cons_toList]
    have h2 := ih (sStep depth order s i).1
    simp only [sRespCalls, sOuts, sReqCalls, sIns] at h2
    constructor
    · rw [h2.1, List.map_append]
      congr 1
      simp only [sStep]
      split <;> (try split) <;> simp
    · rw [h2.2, List.map_append]
      congr 1
      simp only [sStep]
      generalize (if (decide (s.q.length < depth) && i.reqRdy) = true then pickIn i.ins order else none) = inD
      cases inD <;> simp

theorem sStep_cap (depth : Nat) (order : List Nat) (s : SState) (i : SIn) (h : s.q.length ≤ depth) :
    (sStep depth order s i).1.q.length ≤ depth := by
  simp only [sStep]
  cases hclr : i.clr with
  | true => simp
  | false =>
    simp only [Bool.false_eq_true, if_false]
    apply cap_aux _ _ _ _ h
    intro hw
    split at hw
    · rename_i hc
      simp only [Bool.and_eq_true, decide_eq_true_eq] at hc
      exact hc.1
    · simp at hw

theorem sRun_cap (depth : Nat) (order : List Nat) (s : SState) (is : List SIn) (h : s.q.length ≤ depth) :
    (sRun depth order s is).1.q.length ≤ depth := by
  induction is generalizing s with
  | nil => simpa [sRun]
  | cons i is ih => simp only [sRun]; exact ih _ (sStep_cap depth order s i h)

theorem pickIn_some (ins : List (Option Nat)) (order : List Nat) (p a : Nat)
    (h : pickIn ins order = some (p, a)) : p ∈ order ∧ ins[p]? = some (some a) := by
  induction order with
  | nil => simp [pickIn] at h
  | cons j rest ih =>
    simp only [pickIn] at h
    split at h
    · rename_i a' hj
      simp only [Option.some.injEq, Prod.mk.injEq] at h
      obtain ⟨rfl, rfl⟩ := h
      exact ⟨by simp, hj⟩
    · have := ih h
      exact ⟨by simp [this.1], this.2⟩

theorem pickIn_none (ins : List (Option Nat)) (order : List Nat)
    (h : pickIn ins order = none) : ∀ p ∈ order, ∀ a, ins[p]? ≠ some (some a) := by
  induction order with
  | nil => simp
  | cons j rest ih =>
    simp only [pickIn] at h
    split at h
    · simp at h
    · rename_i hj
      intro p hp a
      simp only [List.mem_cons] at hp
      rcases hp with hp | hp
      · subst hp; exact hj a
      · exact ih h p hp a

/-! ### two callers per method -/

theorem firstSlot_some (outs : List Bool) (port n : Nat) (oorder : List Nat) (sl : Nat)
    (h : firstSlot outs port n oorder = some sl) :
    sl ∈ oorder ∧ sl % n = port ∧ outs[sl]? = some true := by
  induction oorder with
  | nil => simp [firstSlot] at h
  | cons k rest ih =>
    simp only [firstSlot] at h
    split at h
    · rename_i hc
      simp only [Bool.and_eq_true, beq_iff_eq] at hc
      simp only [Option.some.injEq] at h
      subst h
      exact ⟨by simp, hc.1, hc.2⟩
    · have := ih h
      exact ⟨by simp [this.1], this.2⟩

theorem zStep_exec (s : ZState) (i : ZIn) :
    ((zStep s i).2.wa.isSome = true → (zStep s i).2.wa = i.wa) ∧
    ((zStep s i).2.wr.isSome = true → (zStep s i).2.wr = i.wr) ∧
    ((zStep s i).2.rd.isSome = true → i.rd = true) := by
  simp only [zStep]
  refine ⟨?_, ?_, ?_⟩
  · intro h; split at h
    · rename_i hc; simp [hc]
    · simp at h
  · intro h; split at h
    · rename_i hc; simp [hc]
    · simp at h
  · intro h; split at h
    · assumption
    · simp at h

theorem ite_who {c : Prop} [Decidable c] {k m : Nat} (h : (if c then k else 0) = m) (hm : 0 < m) :
    c ∧ k = m := by
  split at h
  · exact ⟨by assumption, h⟩
  · omega

theorem arb2_spec {α} (bFirst : Bool) (a b : Option α) :
    ((arb2 bFirst a b).2 = 1 ∨ (arb2 bFirst a b).2 = 2) ∧
    ((arb2 bFirst a b).2 = 1 → (arb2 bFirst a b).1 = a) ∧
    ((arb2 bFirst a b).2 = 2 → (arb2 bFirst a b).1 = b) ∧
    ((arb2 bFirst a b).1 = none ↔ (a = none ∧ b = none)) := by
  unfold arb2
  cases bFirst <;> cases a <;> cases b <;> simp

end TxV.ReqRes
