import TxV.Model.Semaphore
/-! Helper lemmas for C20 (Semaphore). -/
namespace TxV.Semaphore

theorem lt_pow_width (max n : Nat) (h : n ≤ max) : n < 2 ^ width max := by
  unfold width
  split
  · subst_vars; simp at h; subst h; simp
  · rename_i hm
    have : max < 2 ^ (Nat.log2 max + 1) := by
      have := (Nat.log2_lt (n := max) (k := Nat.log2 max + 1) hm).1 (by omega)
      exact this
    omega

/-- the invariant: the register never exceeds the maximum -/
def Inv (s : State) : Prop := s.count ≤ s.max

theorem inv_init (max : Nat) : Inv (init max) := by simp [Inv, init]

theorem step_max (s : State) (i : In) : (step s i).1.max = s.max := by simp [step]

/-- exact next value of the counter, without the truncation, under the invariant -/
theorem step_count (s : State) (i : In) (h : Inv s) :
    (step s i).1.count =
      if (step s i).2.clr then 0
      else s.count + (step s i).2.acq.toNat - (step s i).2.rel.toNat := by
  simp only [step]
  by_cases hc : i.clr = true
  · simp [hc]
  · simp only [hc]
    apply Nat.mod_eq_of_lt
    apply lt_pow_width
    unfold Inv at h
    cases hi : i.acq <;> cases hr : i.rel <;>
      by_cases h1 : s.count < s.max <;> by_cases h2 : 0 < s.count <;>
      simp [acquireReady, releaseReady, h1, h2] <;> omega

theorem step_inv (s : State) (i : In) (h : Inv s) : Inv (step s i).1 := by
  have hc := step_count s i h
  unfold Inv at *
  rw [step_max, hc]
  clear hc
  simp only [step]
  by_cases hcl : i.clr = true
  · simp [hcl]
  · simp only [hcl]
    cases hi : i.acq <;> cases hr : i.rel <;>
    by_cases h1 : s.count < s.max <;> by_cases h2 : 0 < s.count <;>
    simp [acquireReady, releaseReady, h1, h2] <;> omega

theorem run_inv (s : State) (is : List In) (h : Inv s) : Inv (run s is).1 := by
  induction is generalizing s with
  | nil => simpa [run]
  | cons i is ih => simp only [run]; exact ih _ (step_inv s i h)

theorem run_max (s : State) (is : List In) : (run s is).1.max = s.max := by
  induction is generalizing s with
  | nil => simp [run]
  | cons i is ih => simp only [run]; rw [ih, step_max]

/-- the spec: fold the executed calls, a clear resets to zero (and wins over an
    acquire/release of the same cycle) -/
def specCount : Nat → List Out → Nat
  | c, [] => c
  | c, o :: os => specCount (if o.clr then 0 else c + o.acq.toNat - o.rel.toNat) os

theorem run_count (s : State) (is : List In) (h : Inv s) :
    (run s is).1.count = specCount s.count (run s is).2 := by
  induction is generalizing s with
  | nil => simp [run, specCount]
  | cons i is ih =>
    simp only [run, specCount]
    rw [ih _ (step_inv s i h), step_count s i h]

/-- executed calls after the last clear -/
def sinceClear : List Out → List Out
  | [] => []
  | o :: os => if os.any (·.clr) then sinceClear os else if o.clr then os else o :: os

def acqs (os : List Out) : Nat := (os.filter (·.acq)).length
def rels (os : List Out) : Nat := (os.filter (·.rel)).length

theorem sinceClear_noclear (os : List Out) (h : os.any (·.clr) = false) : sinceClear os = os := by
  induction os with
  | nil => rfl
  | cons o os ih =>
    simp only [List.any_cons, Bool.or_eq_false_iff] at h
    simp [sinceClear, h.1, h.2]

/-- a release only executes when the counter is positive: needed so that truncated
    subtraction is exact -/
def RelOk : Nat → List Out → Prop
  | _, [] => True
  | c, o :: os => (o.rel = true → 0 < c) ∧ RelOk (if o.clr then 0 else c + o.acq.toNat - o.rel.toNat) os

theorem run_relOk (s : State) (is : List In) (h : Inv s) : RelOk s.count (run s is).2 := by
  induction is generalizing s with
  | nil => simp [run, RelOk]
  | cons i is ih =>
    simp only [run, RelOk]
    refine ⟨?_, ?_⟩
    · simp [step, releaseReady]
    · have := ih _ (step_inv s i h)
      rw [step_count s i h] at this
      exact this

theorem spec_noclear (c : Nat) (os : List Out) (h : os.any (·.clr) = false) (hr : RelOk c os) :
    specCount c os + rels os = c + acqs os := by
  induction os generalizing c with
  | nil => simp [specCount, rels, acqs]
  | cons o os ih =>
    simp only [List.any_cons, Bool.or_eq_false_iff] at h
    simp only [RelOk, h.1] at hr
    simp only [specCount, h.1]
    have := ih _ h.2 hr.2
    have hp := hr.1
    simp only [rels, acqs, List.filter_cons] at *
    cases ha : o.acq <;> cases hrr : o.rel <;> simp [ha, hrr] at this hp ⊢ <;> omega

theorem spec_sinceClear (c : Nat) (os : List Out) (h : os.any (·.clr) = true) (hr : RelOk c os) :
    specCount c os + rels (sinceClear os) = acqs (sinceClear os) := by
  induction os generalizing c with
  | nil => simp at h
  | cons o os ih =>
    simp only [RelOk] at hr
    simp only [specCount, sinceClear]
    by_cases hos : os.any (·.clr) = true
    · simp only [hos, if_true]
      exact ih _ hos hr.2
    · have hos' : os.any (·.clr) = false := by simpa using hos
      simp only [List.any_cons, hos', Bool.or_false] at h
      simp only [hos', h, if_true]
      have := spec_noclear 0 os hos' (by simpa [h] using hr.2)
      simpa using this

end TxV.Semaphore
