import TxV.Proofs.MultiportMemIlvt
/-!
Helper lemmas for C23, part 5: the pipeline of `OneHotCodedILVT` refines an ideal
non-transparent memory of bank numbers: in the cycle after an enabled read the encoded answer is
the number of the write port that wrote the row last (0 for a row never written).

The table is used by `MultiportILVTMemory` with the port values `Ilvt.tableIn c i` (write data =
port number); the ideal table is `Ideal` over `Ilvt.tableCfg c`.
-/
namespace TxV.MultiportMem

open Ilvt in
theorem tableIn_wEn (c : Cfg) (i : In) {k : Nat} (hk : k < c.nw) : (tableIn c i).wEn k = i.wEn k := by
  simp only [In.wEn, In.w, tableIn, nthD_tab_lt _ _ hk]
  by_cases h : (nthD ⟨0, 0, 0⟩ i.ws k).en = 0 <;> simp [h]

open Ilvt in
theorem tableIn_wAddr (c : Cfg) (i : In) {k : Nat} (hk : k < c.nw) : (tableIn c i).wAddr k = i.wAddr k := by
  simp [In.wAddr, In.w, tableIn, nthD_tab_lt _ _ hk]

open Ilvt in
theorem tableIn_wData (c : Cfg) (i : In) {k : Nat} (hk : k < c.nw) : (tableIn c i).wData k = k := by
  simp [In.wData, In.w, tableIn, nthD_tab_lt _ _ hk]

open Ilvt in
theorem tableIn_r (c : Cfg) (i : In) {r : Nat} (hr : r < c.nr) : (tableIn c i).r r = i.r r := by
  simp [In.r, tableIn, nthD_tab_lt _ _ hr]

open Ilvt in
theorem tableIn_rEn (c : Cfg) (i : In) {r : Nat} (hr : r < c.nr) : (tableIn c i).rEn r = i.rEn r := by
  simp [In.rEn, tableIn_r c i hr]

open Ilvt in
theorem tableIn_rAddr (c : Cfg) (i : In) {r : Nat} (hr : r < c.nr) : (tableIn c i).rAddr r = i.rAddr r := by
  simp [In.rAddr, tableIn_r c i hr]

open Ilvt in
@[simp] theorem tableCfg_nw (c : Cfg) : (tableCfg c).nw = c.nw := by simp [tableCfg, Cfg.nw]
open Ilvt in
@[simp] theorem tableCfg_nr (c : Cfg) : (tableCfg c).nr = c.nr := by simp [tableCfg, Cfg.nr]
open Ilvt in
@[simp] theorem tableCfg_depth (c : Cfg) : (tableCfg c).depth = c.depth := rfl

open Ilvt in
theorem tableCfg_grans (c : Cfg) : ∀ g ∈ (tableCfg c).grans, g = 0 := by
  intro g hg
  simp [tableCfg, tab] at hg
  exact hg.2.symm

open Ilvt in
theorem tableCfg_trs (c : Cfg) (r : Nat) : nthD 0 (tableCfg c).trs r = 0 := by
  simp only [tableCfg, nthD_tab]
  split <;> rfl

open Ilvt in
/-- the table sees well-formed port values whenever the memory does -/
theorem okIn_table (c : Cfg) (i : In) (h : OkIn c i) : OkIn (tableCfg c) (tableIn c i) where
  wlen := by simp [tableIn]
  en1 j hj := by
    rw [tableCfg_nw] at hj
    simp only [In.w, tableIn, nthD_tab_lt _ _ hj]
    split <;> omega
  range := by
    constructor
    · intro j hj
      rw [tableCfg_nw] at hj
      rw [tableIn_wAddr c i hj]; exact h.range.1 j hj
    · intro r hr
      rw [tableCfg_nr] at hr
      rw [tableIn_rAddr c i hr]; exact h.range.2 r hr
  distinct j k hj hk hne h1 h2 := by
    rw [tableCfg_nw] at hj hk
    rw [tableIn_wEn c i hj] at h1
    rw [tableIn_wEn c i hk] at h2
    rw [tableIn_wAddr c i hj, tableIn_wAddr c i hk]
    exact h.distinct j k hj hk hne h1 h2

open Ilvt in
/-- the ideal table is read non-transparently -/
theorem table_read (c : Cfg) (i : In) (h : OkIn c i) (m : List Nat) (r : Nat) (a : Nat) :
    readVal (tableCfg c).w (tableCfg c).grans m (tableIn c i).ws (nthD 0 (tableCfg c).trs r) a = rd m a := by
  apply ideal_read_miss (tableCfg c) (tableCfg_grans c) (tableIn c i) (okIn_table c i h)
  intro j _ hh
  rw [tableCfg_trs] at hh
  simp at hh

namespace OneHot

theorem consistent_congr {nw idx : Nat} {row row' : Nat → List Bool} (hidx : idx < nw)
    (h : ∀ m, m < nw → row m = row' m) : consistent nw row idx ↔ consistent nw row' idx := by
  unfold consistent
  rw [exclBits_congr (fun m hm _ => h m hm), h idx hidx]

/-! ### the encoder applied to a one-hot answer -/

theorem filter_range_eq (n v : Nat) :
    (List.range n).filter (fun j => decide (j = v)) = if v < n then [v] else [] := by
  induction n with
  | zero => simp
  | succ n ih =>
    rw [List.range_succ, List.filter_append, ih]
    by_cases h1 : v < n
    · have : n ≠ v := by omega
      have h2 : v < n + 1 := by omega
      simp [h1, h2, this]
    · by_cases h2 : v = n
      · subst h2; simp
      · have h3 : ¬ v < n + 1 := by omega
        have h4 : n ≠ v := fun e => h2 e.symm
        simp [h1, h3, h4]

theorem encode_onehot {n v : Nat} (hv : v < n) : encode (tab n (fun idx => decide (idx = v))) = v := by
  unfold encode
  have : (List.range (tab n (fun idx => decide (idx = v))).length).filter
      (fun j => bit (tab n (fun idx => decide (idx = v))) j) = [v] := by
    rw [tab_length]
    have h1 : (List.range n).filter (fun j => bit (tab n (fun idx => decide (idx = v))) j)
        = (List.range n).filter (fun j => decide (j = v)) := by
      apply List.filter_congr
      intro j hj
      exact bit_tab _ (List.mem_range.mp hj)
    rw [h1, filter_range_eq]
    simp [hv]
  rw [this]

/-! ### pipeline invariant -/

/-- row `a` of bank `k` once the pending physical write has committed -/
def afterRow (nw nr : Nat) (s : State) (R : Nat → List (List Bool)) (k a : Nat) : List Bool :=
  if nthD false s.wEnSync k = true ∧ nthD 0 s.wAddrSync k = a then writeData nw nr s k
  else rdRow (nw - 1) (R k) a

def nextR (nw nr : Nat) (s : State) (R : Nat → List (List Bool)) (k : Nat) : List (List Bool) :=
  if nthD false s.wEnSync k = true then (R k).set (nthD 0 s.wAddrSync k) (writeData nw nr s k) else R k

structure Inv (c : Cfg) (s : State) (tt : Ideal.State) (R : Nat → List (List Bool)) : Prop where
  bankMem : ∀ k p, k < c.nw → p < c.nr + c.nw - 1 → (bankP s k p).mem = R k
  rlen : ∀ k, k < c.nw → (R k).length = c.depth
  tlen : tt.mem.length = c.depth
  pwr : ∀ k, k < c.nw → nthD false s.wEnSync k = true → nthD 0 s.wAddrSync k < c.depth
  mem : ∀ a, a < c.depth → rd tt.mem a < c.nw ∧
    ∀ idx, idx < c.nw → (consistent c.nw (fun k => afterRow c.nw c.nr s R k a) idx ↔ idx = rd tt.mem a)
  out : ∀ r, r < c.nr → nthD false s.rdEnBy r = true → encode (outR c.nw s r) = nthD 0 tt.rdata r

section step
variable (nw nr : Nat) (s : State) (i : In)

theorem step_wAddrSync {k : Nat} (hk : k < nw) : nthD 0 (step nw nr s i).wAddrSync k = i.wAddr k := by
  simp [step, nthD_tab_lt _ _ hk]
theorem step_wEnSync {k : Nat} (hk : k < nw) : nthD false (step nw nr s i).wEnSync k = i.wEn k := by
  simp [step, nthD_tab_lt _ _ hk]
theorem step_wAddrBy {k : Nat} (hk : k < nw) : nthD 0 (step nw nr s i).wAddrBy k = nthD 0 s.wAddrSync k := by
  simp [step, nthD_tab_lt _ _ hk]
theorem step_wEnBy {k : Nat} (hk : k < nw) : nthD false (step nw nr s i).wEnBy k = nthD false s.wEnSync k := by
  simp [step, nthD_tab_lt _ _ hk]
theorem step_wDataBy {k : Nat} (hk : k < nw) : nthD [] (step nw nr s i).wDataBy k = writeData nw nr s k := by
  simp [step, nthD_tab_lt _ _ hk]
theorem step_rdAddrBy {r : Nat} (hr : r < nr) : nthD 0 (step nw nr s i).rdAddrBy r = i.rAddr r := by
  simp [step, nthD_tab_lt _ _ hr]
theorem step_rdEnBy {r : Nat} (hr : r < nr) : nthD false (step nw nr s i).rdEnBy r = i.rEn r := by
  simp [step, nthD_tab_lt _ _ hr]

theorem step_bankP {k p : Nat} (hk : k < nw) (hp : p < nr + nw - 1) :
    bankP (step nw nr s i) k p =
      (bankP s k p).step (nw - 1) (nthD false s.wEnSync k) (nthD 0 s.wAddrSync k) (writeData nw nr s k)
        (if p < nr then i.rEn p else true)
        (if p < nr then i.rAddr p else i.wAddr (fbPort k (p - nr))) := by
  simp [bankP, step, nthD_tab_lt _ _ hk, nthD_tab_lt _ _ hp]

end step

theorem obank_step_rdata (n : Nat) (b : OBank) (wen : Bool) (wa : Nat) (wd : List Bool) (a : Nat) :
    (b.step n wen wa wd true a).rdata = if wen = true ∧ wa = a then wd else rdRow n b.mem a := by
  simp only [OBank.step]
  by_cases h1 : wen = true <;> by_cases h2 : wa = a <;> simp [h1, h2]

theorem obank_step_mem (n : Nat) (b : OBank) (wen : Bool) (wa : Nat) (wd : List Bool) (ren : Bool) (a : Nat) :
    (b.step n wen wa wd ren a).mem = if wen = true then b.mem.set wa wd else b.mem := by
  simp [OBank.step]

variable {c : Cfg} {s : State} {tt : Ideal.State} {R : Nat → List (List Bool)}

/-- the code a port will write in the second stage is computed from the other banks' rows at its
    address, as they are after their own pending writes -/
theorem writeData_step (h : Inv c s tt R) (i : In) {k : Nat} (hk : k < c.nw) :
    writeData c.nw c.nr (step c.nw c.nr s i) k
      = exclBits c.nw (fun m => afterRow c.nw c.nr s R m (i.wAddr k)) k := by
  unfold writeData
  apply exclBits_congr
  intro m hm hne
  by_cases hlt : m < k
  · have hp : c.nr + k - 1 < c.nr + c.nw - 1 := by omega
    have h1 : ¬ c.nr + k - 1 < c.nr := by omega
    have h2 : fbPort m (c.nr + k - 1 - c.nr) = k := by unfold fbPort; split <;> omega
    simp only [hlt, if_true]
    rw [step_bankP _ _ s i hm hp]
    simp only [h1, if_false, h2]
    rw [obank_step_rdata, h.bankMem m _ hm hp]
    rfl
  · have hp : c.nr + k < c.nr + c.nw - 1 := by omega
    have h1 : ¬ c.nr + k < c.nr := by omega
    have h2 : fbPort m (c.nr + k - c.nr) = k := by unfold fbPort; split <;> omega
    simp only [hlt, if_false]
    rw [step_bankP _ _ s i hm hp]
    simp only [h1, if_false, h2]
    rw [obank_step_rdata, h.bankMem m _ hm hp]
    rfl

theorem rdRow_nextR (h : Inv c s tt R) {k : Nat} (hk : k < c.nw) (a : Nat) :
    rdRow (c.nw - 1) (nextR c.nw c.nr s R k) a = afterRow c.nw c.nr s R k a := by
  unfold nextR afterRow rdRow
  by_cases h1 : nthD false s.wEnSync k = true
  · have := h.pwr k hk h1
    rw [← h.rlen k hk] at this
    simp only [h1, if_true, true_and, nthD_set]
    by_cases h2 : nthD 0 s.wAddrSync k = a
    · subst h2
      simp [this]
    · simp [h2]
  · simp [h1]

theorem afterRow_step (h : Inv c s tt R) (i : In) {k : Nat} (hk : k < c.nw) (a : Nat) :
    afterRow c.nw c.nr (step c.nw c.nr s i) (nextR c.nw c.nr s R) k a =
      if i.wEn k = true ∧ i.wAddr k = a then
        exclBits c.nw (fun m => afterRow c.nw c.nr s R m (i.wAddr k)) k
      else afterRow c.nw c.nr s R k a := by
  conv => lhs; unfold afterRow
  rw [step_wEnSync _ _ s i hk, step_wAddrSync _ _ s i hk, writeData_step h i hk, rdRow_nextR h hk]

/-- a read port's bypassed view of bank `k` in the next cycle is the row after the pending write -/
theorem byp_step (h : Inv c s tt R) (i : In) {r k : Nat} (hr : r < c.nr) (hk : k < c.nw) (hen : i.rEn r = true) :
    byp (step c.nw c.nr s i) r k = afterRow c.nw c.nr s R k (i.rAddr r) := by
  have hp : r < c.nr + c.nw - 1 := by omega
  unfold byp afterRow
  rw [step_rdAddrBy _ _ s i hr, step_wAddrBy _ _ s i hk, step_rdEnBy _ _ s i hr, step_wEnBy _ _ s i hk,
    step_wDataBy _ _ s i hk, step_bankP _ _ s i hk hp]
  simp only [hr, if_true, hen, obank_step_rdata, h.bankMem k r hk hp]
  by_cases h1 : nthD false s.wEnSync k = true
  · by_cases h2 : nthD 0 s.wAddrSync k = i.rAddr r
    · simp [h1, h2]
    · have h2' : ¬ i.rAddr r = nthD 0 s.wAddrSync k := fun e => h2 e.symm
      simp [h1, h2, h2']
  · simp [h1]

open Ilvt in
theorem inv_step_mem (h : Inv c s tt R) (i : In) (hi : OkIn c i) (a : Nat) (ha : a < c.depth) :
    rd (Ideal.step (tableCfg c) tt (tableIn c i)).mem a < c.nw ∧
    ∀ idx, idx < c.nw →
      (consistent c.nw (fun k => afterRow c.nw c.nr (step c.nw c.nr s (tableIn c i)) (nextR c.nw c.nr s R) k a) idx
        ↔ idx = rd (Ideal.step (tableCfg c) tt (tableIn c i)).mem a) := by
  have hti := okIn_table c i hi
  simp only [Ideal.step]
  by_cases hex : ∃ j, j < c.nw ∧ i.wEn j = true ∧ i.wAddr j = a
  · obtain ⟨j, hj, hen, haj⟩ := hex
    have hen' : (tableIn c i).wEn j = true := by rw [tableIn_wEn c i hj]; exact hen
    have haj' : (tableIn c i).wAddr j = a := by rw [tableIn_wAddr c i hj]; exact haj
    have hw := ideal_write_hit (tableCfg c) (tableCfg_grans c) (tableIn c i) hti tt.mem j
      (by rw [tableCfg_nw]; exact hj) hen' (by rw [haj', h.tlen]; exact ha)
    rw [haj', tableIn_wData c i hj] at hw
    rw [hw]
    refine ⟨hj, fun idx hidx => ?_⟩
    rw [consistent_congr hidx (row' := wrote c.nw (fun m => afterRow c.nw c.nr s R m a) j)]
    · exact consistent_wrote c.nw _ hj hidx
    · intro k hk
      rw [afterRow_step h _ hk, tableIn_wEn c i hk, tableIn_wAddr c i hk]
      by_cases hkj : k = j
      · subst hkj; simp [hen, haj, wrote]
      · have : ¬ (i.wEn k = true ∧ i.wAddr k = a) := fun ⟨h1, h2⟩ =>
          hi.distinct k j hk hj hkj h1 hen (by rw [h2, haj])
        simp [this, wrote, hkj]
  · have hw := ideal_write_miss (tableCfg c) (tableCfg_grans c) (tableIn c i) hti tt.mem a
      (fun j hj hh => by
        rw [tableCfg_nw] at hj
        rw [tableIn_wEn c i hj, tableIn_wAddr c i hj] at hh
        exact hex ⟨j, hj, hh⟩)
    rw [hw]
    refine ⟨(h.mem a ha).1, fun idx hidx => ?_⟩
    rw [consistent_congr hidx (row' := fun m => afterRow c.nw c.nr s R m a)]
    · exact (h.mem a ha).2 idx hidx
    · intro k hk
      rw [afterRow_step h _ hk, tableIn_wEn c i hk, tableIn_wAddr c i hk]
      have : ¬ (i.wEn k = true ∧ i.wAddr k = a) := fun hh => hex ⟨k, hk, hh⟩
      simp [this]

open Ilvt in
theorem inv_step_out (h : Inv c s tt R) (i : In) (hi : OkIn c i) (r : Nat) (hr : r < c.nr)
    (hen : nthD false (step c.nw c.nr s (tableIn c i)).rdEnBy r = true) :
    encode (outR c.nw (step c.nw c.nr s (tableIn c i)) r)
      = nthD 0 (Ideal.step (tableCfg c) tt (tableIn c i)).rdata r := by
  rw [step_rdEnBy _ _ s _ hr, tableIn_rEn c i hr] at hen
  have hen' : (tableIn c i).rEn r = true := by rw [tableIn_rEn c i hr]; exact hen
  have hra : i.rAddr r < c.depth := hi.range.2 r hr
  simp only [Ideal.step]
  rw [nthD_tab_lt _ _ (by rw [tableCfg_nr]; exact hr)]
  simp only [hen', if_true]
  rw [table_read c i hi, tableIn_rAddr c i hr]
  have hout : outR c.nw (step c.nw c.nr s (tableIn c i)) r
      = tab c.nw (fun idx => decide (idx = rd tt.mem (i.rAddr r))) := by
    unfold outR
    apply tab_congr
    intro idx hidx
    have := (h.mem _ hra).2 idx hidx
    unfold consistent at this
    rw [exclBits_congr (row' := fun k => afterRow c.nw c.nr s R k (i.rAddr r))
        (fun m hm _ => by rw [byp_step h _ hr hm hen', tableIn_rAddr c i hr]),
      byp_step h _ hr hidx hen', tableIn_rAddr c i hr]
    exact decide_eq_decide.mpr this
  rw [hout, encode_onehot (h.mem _ hra).1]

open Ilvt in
theorem inv_step (h : Inv c s tt R) (i : In) (hi : OkIn c i) :
    Inv c (step c.nw c.nr s (tableIn c i)) (Ideal.step (tableCfg c) tt (tableIn c i)) (nextR c.nw c.nr s R) where
  bankMem k p hk hp := by
    rw [step_bankP _ _ s _ hk hp, obank_step_mem, h.bankMem k p hk hp]; rfl
  rlen k hk := by unfold nextR; split <;> simp [h.rlen k hk]
  tlen := by simp [Ideal.step, h.tlen]
  pwr k hk _ := by
    rw [step_wAddrSync _ _ s _ hk, tableIn_wAddr c i hk]; exact hi.range.1 k hk
  mem a ha := inv_step_mem h i hi a ha
  out r hr hen := inv_step_out h i hi r hr hen

open Ilvt in
theorem inv_init (c : Cfg) (hnw : 0 < c.nw) :
    Inv c (init c.depth c.nw c.nr) (Ideal.init (tableCfg c)) (fun _ => tab c.depth (fun _ => zeroRow c.nw)) where
  bankMem k p hk hp := by simp [bankP, init, nthD_tab_lt _ _ hk, nthD_tab_lt _ _ hp]
  rlen k _ := by simp
  tlen := by simp [Ideal.init, initMem]
  pwr k hk h := by simp [init, nthD_tab_lt _ _ hk] at h
  mem a ha := by
    have h0 : rd (Ideal.init (tableCfg c)).mem a = 0 := by
      simp only [Ideal.init, tableCfg]; exact Xor.rd_initMem_nil _ _
    rw [h0]
    refine ⟨hnw, fun idx hidx => ?_⟩
    rw [consistent_congr hidx (row' := fun _ => zeroRow c.nw)]
    · exact consistent_zero c.nw hidx
    · intro k hk
      simp [afterRow, init, nthD_tab_lt _ _ hk, rdRow, nthD_tab_lt _ _ ha]
  out r hr h := by simp [init, nthD_tab_lt _ _ hr] at h

end OneHot
end TxV.MultiportMem
