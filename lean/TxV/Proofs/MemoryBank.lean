import TxV.Model.MemoryBank
import TxV.Proofs.BankMem
/-! Helper lemmas for C21 (MemoryBank): the specification (ideal memory + per-port queues of
pending responses) and the refinement of the register-level model to it. -/
namespace TxV.MemoryBank
open TxV.BankMem

/-! ### specification -/

/-- what the ideal memory holds for address `a` as seen by a call of this cycle: the writes of
    the same cycle count exactly when the bank is transparent (`mem'` = memory after them) -/
def seen (c : Cfg) (mem mem' : Mem) (a : Nat) : Nat :=
  if c.transparent then rd mem' a else rd mem a

/-- the entry queued for an executed request of address `a`: the value the ideal memory holds
    now (request-time semantics), or the address itself when the value is to be taken at response
    time (`read_on_resp`) -/
def reqEntry (c : Cfg) (mem mem' : Mem) (a : Nat) : Nat :=
  if c.readOnResp then a else seen c mem mem' a

/-- the data answered for a pending entry by a response executed in this cycle -/
def respValue (c : Cfg) (mem mem' : Mem) (e : Nat) : Nat :=
  if c.readOnResp then seen c mem mem' e else e

/-- one read port of the specification: `q` = pending responses, oldest first -/
def specPort (c : Cfg) (mem mem' : Mem) (q : List Nat) (a : Option Nat) (b : Bool) : List Nat × PortOut :=
  let reqRdy := decide (q.length < 2)
  let respRdy := !q.isEmpty
  let reqRun := a.isSome && reqRdy
  let respRun := b && respRdy
  let q1 := if respRun then q.tail else q
  let q2 := match a with
    | some x => if reqRun then q1 ++ [reqEntry c mem mem' x] else q1
    | none => q1
  (q2, { req := reqRun,
         resp := if respRun then q.head?.map (respValue c mem mem') else none,
         reqRdy := reqRdy, respRdy := respRdy })

structure SpecState where
  mem : Mem
  qs : List (List Nat)
deriving Repr, DecidableEq

def specInit (c : Cfg) (readPorts : Nat) : SpecState :=
  { mem := List.replicate c.depth 0, qs := List.replicate readPorts [] }

def specStep (c : Cfg) (s : SpecState) (i : In) : SpecState × Out :=
  let mem' := memNext c s.mem i.writes
  ({ mem := mem',
     qs := s.qs.mapIdx fun k q => (specPort c s.mem mem' q (reqAt i k) (respAt i k)).1 },
   { ports := s.qs.mapIdx fun k q => (specPort c s.mem mem' q (reqAt i k) (respAt i k)).2,
     writes := i.writes.map Option.isSome })

def specRun (c : Cfg) (s : SpecState) : List In → SpecState × List Out
  | [] => (s, [])
  | i :: is =>
    let (s', o) := specStep c s i
    let (s'', os) := specRun c s' is
    (s'', o :: os)

/-! ### abstraction and invariant -/

/-- pending responses of a port, oldest first: the overflow buffer holds the older one -/
def absPort (c : Cfg) (p : Port) : List Nat :=
  (if p.ov then [if c.readOnResp then p.oa else p.od] else []) ++
  (if p.rov then [if c.readOnResp then p.roa else p.rd] else [])

def InvP (c : Cfg) (mem : Mem) (p : Port) : Prop :=
  (p.ov = true → p.rov = true) ∧
  (p.rov = true → p.roa < mem.length) ∧
  (p.ov = true → p.oa < mem.length) ∧
  (c.readOnResp = true → p.rov = true → p.rd = rd mem p.roa) ∧
  (c.readOnResp = true → p.ov = true → p.od = rd mem p.oa)

/-! ### write tracking (`OneHotMux`) without granularity -/

theorem selData_nil_of_not_mem (c : Cfg) (ws : List (Option Wr)) (a : Nat) (h : a ∉ wrAddrs ws) :
    selData c ws a = [] := by
  induction ws with
  | nil => rfl
  | cons w ws ih =>
    cases w with
    | none => rw [wrAddrs_cons_none] at h; simpa [selData] using ih h
    | some w =>
      rw [wrAddrs_cons_some] at h
      simp only [List.mem_cons, not_or] at h
      have hne : ¬ w.addr = a := fun e => h.1 e.symm
      simp [selData, selBit, hne, ih h.2]

theorem selData_eq (c : Cfg) (ws : List (Option Wr)) (a : Nat) (hd : distinctRows ws = true) :
    selData c ws a = match wrTo ws a with
      | some w => if selBit c a w then [busData c w] else []
      | none => [] := by
  induction ws with
  | nil => rfl
  | cons w ws ih =>
    simp only [distinctRows, decide_eq_true_eq] at hd ih
    cases w with
    | none =>
      rw [wrAddrs_cons_none] at hd
      simpa [selData, wrTo] using ih hd
    | some w =>
      rw [wrAddrs_cons_some, List.nodup_cons] at hd
      by_cases ha : w.addr = a
      · subst ha
        by_cases hs : selBit c w.addr w = true <;>
          simp [selData, hs, wrTo, selData_nil_of_not_mem c ws w.addr hd.1]
      · have hs : selBit c a w = false := by simp [selBit, ha]
        simp [selData, hs, ha, wrTo, ih hd.2]

/-- the complement of the open finding F5 as far as the write tracking is concerned: no
    granularity, or a single chunk per word (the enable is one bit wide) -/
def TrackOk (c : Cfg) : Prop := c.gran = false ∨ c.n = 1

instance (c : Cfg) : Decidable (TrackOk c) := by unfold TrackOk; exact inferInstance

/-- every row is within the word width (only meaningful with granularity, where the model knows it) -/
def MemRange (c : Cfg) (mem : Mem) : Prop := c.gran = true → ∀ a, rd mem a < 2 ^ (c.g * c.n)

/-- without granularity, or with a single chunk per word, and with distinct write rows, the
    tracking multiplexer applied to the current row yields the row after this cycle's writes -/
theorem track_eq (c : Cfg) (hg : TrackOk c) (mem : Mem) (ws : List (Option Wr)) (a : Nat)
    (hd : distinctRows ws = true) (ha : a < mem.length) (hr : MemRange c mem) :
    track c ws a (rd mem a) = rd (memNext c mem ws) a := by
  unfold track memNext
  rw [rd_wrAll _ _ _ _ hd, selData_eq c ws a hd]
  simp only [ha, if_true]
  cases hw : wrTo ws a with
  | none => rfl
  | some w =>
    have haddr : w.addr = a := by
      clear hr hg ha
      induction ws with
      | nil => simp [wrTo] at hw
      | cons o ws ih =>
        simp only [distinctRows, decide_eq_true_eq] at hd ih
        cases o with
        | none => rw [wrAddrs_cons_none] at hd; exact ih hd (by simpa [wrTo] using hw)
        | some w' =>
          rw [wrAddrs_cons_some, List.nodup_cons] at hd
          by_cases h : w'.addr = a
          · simp [wrTo, h] at hw; rw [← hw]; exact h
          · simp [wrTo, h] at hw; exact ih hd.2 hw
    cases hgr : c.gran with
    | false => simp [applyTo, rowAfter, selBit, busData, hgr, haddr]
    | true =>
      have hn : c.n = 1 := by rcases hg with h | h; rw [hgr] at h; cases h; exact h
      have hlt := hr hgr a
      rw [hn, Nat.mul_one] at hlt
      simp only [applyTo, rowAfter, hgr, if_true, mergeW, hn, merge_one _ _ _ _ hlt, selBit, busData, haddr,
        beq_self_eq_true, Bool.and_true, Nat.mul_one]
      by_cases hm : w.mask.testBit 0 = true <;> simp [hm]

/-- the memory stays within the word width -/
theorem memRange_next (c : Cfg) (mem : Mem) (ws : List (Option Wr)) (hd : distinctRows ws = true)
    (hr : MemRange c mem) : MemRange c (memNext c mem ws) := by
  intro hgr a
  unfold memNext
  rw [rd_wrAll _ _ _ _ hd]
  split
  · cases wrTo ws a with
    | none => exact hr hgr a
    | some w =>
      simp only [applyTo, rowAfter, hgr, if_true, mergeW]
      exact merge_lt _ _ _ _ _ (hr hgr a)
  · exact Nat.two_pow_pos _

/-! ### one port, one cycle -/

theorem port_refines (c : Cfg) (mem : Mem) (ws : List (Option Wr)) (p : Port) (a : Option Nat) (b : Bool)
    (hF5 : TrackOk c ∨ c.readOnResp = false) (hr : MemRange c mem)
    (hd : distinctRows ws = true) (ha : ∀ x, a = some x → x < mem.length) (hi : InvP c mem p) :
    specPort c mem (memNext c mem ws) (absPort c p) a b =
      (absPort c (portStep c mem ws p a b).1, (portStep c mem ws p a b).2) ∧
    InvP c (memNext c mem ws) (portStep c mem ws p a b).1 := by
  obtain ⟨i1, i2, i3, i4, i5⟩ := hi
  have hlen : (memNext c mem ws).length = mem.length := length_wrAll _ _ _
  have hT : ∀ x, x < mem.length → rdT (rowAfter c) mem ws x = rd (memNext c mem ws) x :=
    fun x hx => rdT_eq _ _ _ _ hx
  have hron : c.readOnResp = true → p.rov = true → track c ws p.roa p.rd = rd (memNext c mem ws) p.roa := by
    intro hR hv
    have hg : TrackOk c := by rcases hF5 with h | h; exact h; rw [hR] at h; cases h
    rw [i4 hR hv]; exact track_eq c hg mem ws p.roa hd (i2 hv) hr
  have hon : c.readOnResp = true → p.ov = true → track c ws p.oa p.od = rd (memNext c mem ws) p.oa := by
    intro hR hv
    have hg : TrackOk c := by rcases hF5 with h | h; exact h; rw [hR] at h; cases h
    rw [i5 hR hv]; exact track_eq c hg mem ws p.oa hd (i3 hv) hr
  generalize memNext c mem ws = mem' at *
  rcases p with ⟨rov, roa, rdv, ov, oa, od⟩
  simp only at i1 i2 i3 i4 i5 hron hon
  unfold InvP portStep specPort absPort reqEntry respValue seen
  simp only [hlen]
  cases hR : c.readOnResp <;> cases hTr : c.transparent <;> cases rov <;> cases ov <;>
    simp only [hR, Bool.false_eq_true, false_implies, forall_const] at i1 i2 i3 i4 i5 hron hon <;>
    (try (exact absurd i1 (by decide))) <;>
    cases b <;> rcases a with _ | x <;> simp_all


/-! ### whole bank -/

/-- abstraction: the memory itself and the pending queue of every read port -/
def abs (c : Cfg) (s : State) : SpecState := { mem := s.mem, qs := s.ports.map (absPort c) }

def Inv (c : Cfg) (s : State) : Prop :=
  s.mem.length = c.depth ∧ MemRange c s.mem ∧ ∀ p ∈ s.ports, InvP c s.mem p

/-- every requested address is a row of the memory -/
def reqsInRange (c : Cfg) (i : In) : Bool :=
  i.reqs.all fun o =>
    match o with
    | some a => decide (a < c.depth)
    | none => true

/-- hypotheses on the calls of one cycle: no two write ports address the same row (the
    property's hypothesis); requested addresses are rows of the memory -/
def WfIn (c : Cfg) (i : In) : Prop :=
  distinctRows i.writes = true ∧ reqsInRange c i = true

instance (c : Cfg) (i : In) : Decidable (WfIn c i) := by
  unfold WfIn; exact inferInstance

theorem reqAt_lt (c : Cfg) (i : In) (hw : WfIn c i) (k x : Nat) (h : reqAt i k = some x) : x < c.depth := by
  unfold reqAt at h
  split at h
  · rename_i a heq
    cases h
    have := hw.2
    unfold reqsInRange at this
    rw [List.all_eq_true] at this
    have := this (some x) (List.mem_of_getElem? heq)
    simpa using this
  · cases h

theorem step_refines (c : Cfg) (s : State) (i : In)
    (hF5 : TrackOk c ∨ c.readOnResp = false) (hw : WfIn c i) (hi : Inv c s) :
    specStep c (abs c s) i = (abs c (step c s i).1, (step c s i).2) ∧ Inv c (step c s i).1 := by
  have hp : ∀ k p, s.ports[k]? = some p →
      specPort c s.mem (memNext c s.mem i.writes) (absPort c p) (reqAt i k) (respAt i k) =
        (absPort c (portStep c s.mem i.writes p (reqAt i k) (respAt i k)).1,
          (portStep c s.mem i.writes p (reqAt i k) (respAt i k)).2) ∧
      InvP c (memNext c s.mem i.writes) (portStep c s.mem i.writes p (reqAt i k) (respAt i k)).1 := by
    intro k p hk
    exact port_refines c s.mem i.writes p (reqAt i k) (respAt i k) hF5 hi.2.1 hw.1
      (fun x hx => by rw [hi.1]; exact reqAt_lt c i hw k x hx) (hi.2.2 p (List.mem_of_getElem? hk))
  refine ⟨?_, ?_, ?_, ?_⟩
  · simp only [specStep, step, abs]
    congr 1
    · congr 1
      apply List.ext_getElem?
      intro k
      simp only [List.getElem?_mapIdx, List.getElem?_map]
      cases hk : s.ports[k]? with
      | none => rfl
      | some p => simp only [Option.map_some]; rw [(hp k p hk).1]
    · congr 1
      apply List.ext_getElem?
      intro k
      simp only [List.getElem?_mapIdx, List.getElem?_map]
      cases hk : s.ports[k]? with
      | none => rfl
      | some p => simp only [Option.map_some]; rw [(hp k p hk).1]
  · simp only [step, memNext, length_wrAll]; exact hi.1
  · exact memRange_next c s.mem i.writes hw.1 hi.2.1
  · intro p' hp'
    simp only [step] at hp'
    obtain ⟨k, hk⟩ := List.getElem?_of_mem hp'
    rw [List.getElem?_mapIdx] at hk
    cases hs : s.ports[k]? with
    | none => simp [hs] at hk
    | some p =>
      simp only [hs, Option.map_some, Option.some.injEq] at hk
      rw [← hk]
      exact (hp k p hs).2

theorem init_inv (c : Cfg) (rp : Nat) : Inv c (init c rp) ∧ abs c (init c rp) = specInit c rp := by
  refine ⟨⟨by simp [init], ?_, ?_⟩, ?_⟩
  · intro _ a
    have : rd (init c rp).mem a = 0 := by
      simp only [init, rd, List.getElem?_replicate]
      split <;> rename_i h <;> split at h <;> simp_all
    rw [this]; exact Nat.two_pow_pos _
  · intro p hp
    simp only [init, List.mem_replicate] at hp
    rw [hp.2]
    simp [InvP, initPort]
  · simp [abs, init, specInit, absPort, initPort]

/-- the hypotheses on a history -/
def WfHist (c : Cfg) (hist : List In) : Prop := ∀ i ∈ hist, WfIn c i

instance (c : Cfg) (hist : List In) : Decidable (WfHist c hist) := by
  unfold WfHist; exact inferInstance

theorem run_refines (c : Cfg) (s : State) (hist : List In)
    (hF5 : TrackOk c ∨ c.readOnResp = false) (hw : WfHist c hist) (hi : Inv c s) :
    (specRun c (abs c s) hist).2 = (run c s hist).2 ∧
    (specRun c (abs c s) hist).1 = abs c (run c s hist).1 ∧ Inv c (run c s hist).1 := by
  induction hist generalizing s with
  | nil => exact ⟨rfl, rfl, hi⟩
  | cons i is ih =>
    obtain ⟨h1, h2⟩ := step_refines c s i hF5 (hw i List.mem_cons_self) hi
    have := ih (step c s i).1 (fun j hj => hw j (List.mem_cons_of_mem _ hj)) h2
    simp only [run, specRun, h1]
    exact ⟨by rw [this.1], this.2⟩

/-! ### order of responses (history level, on the specification) -/

/-- entries leaving the queue of a port in one cycle: the oldest one if a response executes -/
def portDeq (q : List Nat) (b : Bool) : List Nat := if b then q.take 1 else []

/-- entries joining the queue of a port in one cycle: the entry of an executed request -/
def portEnq (c : Cfg) (mem mem' : Mem) (q : List Nat) (a : Option Nat) : List Nat :=
  match a with
  | some x => if q.length < 2 then [reqEntry c mem mem' x] else []
  | none => []

theorem specPort_queue (c : Cfg) (mem mem' : Mem) (q : List Nat) (a : Option Nat) (b : Bool) :
    portDeq q b ++ (specPort c mem mem' q a b).1 = q ++ portEnq c mem mem' q a := by
  unfold portDeq portEnq specPort
  cases q with
  | nil => cases b <;> cases a <;> simp
  | cons e rest =>
    cases b <;> rcases a with _ | x <;> simp
    all_goals (by_cases h : rest.length + 1 < 2 <;> simp [h])

/-- over a history: (entries dequeued at port `k`, entries enqueued at port `k`), in order -/
def portTrace (c : Cfg) (k : Nat) : SpecState → List In → List Nat × List Nat
  | _, [] => ([], [])
  | s, i :: is =>
    match s.qs[k]? with
    | none => ([], [])
    | some q =>
      let t := portTrace c k (specStep c s i).1 is
      (portDeq q (respAt i k) ++ t.1, portEnq c s.mem (memNext c s.mem i.writes) q (reqAt i k) ++ t.2)

theorem spec_order (c : Cfg) (k : Nat) (s : SpecState) (hist : List In) (q : List Nat)
    (hq : s.qs[k]? = some q) :
    ∃ q', (specRun c s hist).1.qs[k]? = some q' ∧
      (portTrace c k s hist).1 ++ q' = q ++ (portTrace c k s hist).2 := by
  induction hist generalizing s q with
  | nil => exact ⟨q, hq, by simp [portTrace]⟩
  | cons i is ih =>
    have hq1 : (specStep c s i).1.qs[k]? =
        some (specPort c s.mem (memNext c s.mem i.writes) q (reqAt i k) (respAt i k)).1 := by
      simp [specStep, List.getElem?_mapIdx, hq]
    obtain ⟨q', h1, h2⟩ := ih (specStep c s i).1 _ hq1
    refine ⟨q', by simpa [specRun] using h1, ?_⟩
    simp only [portTrace, hq]
    rw [List.append_assoc, h2, ← List.append_assoc, specPort_queue, List.append_assoc]

end TxV.MemoryBank
