import TxV.Model.PEAllocator
/-!
Helper lemmas for C25 (PriorityEncoderAllocator).

Part 1: the encoder tree equals its specification "first `K` set-bit indices, ascending, zero padded,
with a prefix of valid flags" (`build_eq_spec`, prototype validated in DESIGN Appendix F).
Part 2: facts about the list of free identifiers, `setBits`, `allocOuts`.
Part 3: one cycle of the allocator in terms of "is identifier `k` free".
-/
namespace TxV.PEAllocator

/-! ### Part 1 — encoder tree = specification -/

theorem idxs_append (a b : List Bool) (s : Nat) : idxs (a ++ b) s = idxs a s ++ idxs b (s + a.length) := by
  induction a generalizing s with
  | nil => simp [idxs]
  | cons x xs ih =>
    simp only [List.cons_append, idxs, List.length_cons]
    split <;> simp [ih, Nat.add_assoc, Nat.add_comm 1]

theorem padN_merge (K : Nat) (x y : List Nat) :
    (padN K x).take (min x.length K) ++ (padN K y).take (K - min x.length K) = padN K (x ++ y) := by
  unfold padN
  by_cases h : x.length ≤ K
  · have hm : min x.length K = x.length := Nat.min_eq_left h
    rw [hm]
    apply List.ext_getElem?
    intro n
    simp only [List.getElem?_append, List.getElem?_take, List.length_take, List.length_append,
      List.length_replicate, List.getElem?_replicate]
    grind
  · have hm : min x.length K = K := Nat.min_eq_right (by omega)
    rw [hm]
    apply List.ext_getElem?
    intro n
    simp only [List.getElem?_append, List.getElem?_take, List.length_take, List.length_append,
      List.length_replicate, List.getElem?_replicate]
    grind

theorem padB_merge (K n m : Nat) :
    (padB K n).take (min n K) ++ (padB K m).take (K - min n K) = padB K (n + m) := by
  unfold padB
  apply List.ext_getElem?
  intro j
  simp only [List.getElem?_append, List.getElem?_take, List.length_take, List.length_append,
    List.length_replicate, List.getElem?_replicate]
  grind

theorem prefixCount_falses (k : Nat) : prefixCount (List.replicate k false) = some 0 := by
  cases k with
  | zero => rfl
  | succ k => simp [List.replicate_succ, prefixCount]

theorem prefixCount_padB (K n : Nat) : prefixCount (padB K n) = some (min n K) := by
  induction n generalizing K with
  | zero => simp [padB, prefixCount_falses]
  | succ n ih =>
    cases K with
    | zero => simp [padB, prefixCount]
    | succ K =>
      have : padB (K+1) (n+1) = true :: padB K n := by
        apply List.ext_getElem?
        intro j
        cases j with
        | zero => simp [padB, List.replicate_succ]
        | succ j =>
          simp only [padB, List.getElem?_cons_succ, List.getElem?_take, List.getElem?_append,
            List.length_replicate, List.getElem?_replicate]
          grind
      rw [this, prefixCount, ih]; simp

/-- specification of the encoder: the first `K` set-bit indices (offset `start`), zero padded, and
    `K` valid flags of which the first `min K popcount` are set -/
def spec (K : Nat) (bits : List Bool) (start : Nat) : List Nat × List Bool :=
  (padN K (idxs bits start), padB K (idxs bits start).length)

theorem zeros_eq_spec_nil (K start : Nat) : zeros K = spec K [] start := by
  simp [zeros, spec, idxs, padN, padB]

theorem build_eq_spec (K : Nat) : ∀ (fuel : Nat) (bits : List Bool) (start : Nat),
    bits.length ≤ fuel → build K fuel bits start = spec K bits start
  | 0, bits, start, h => by
    have : bits = [] := by cases bits with | nil => rfl | cons _ _ => simp at h
    subst this; simp [build, zeros_eq_spec_nil K start]
  | fuel+1, [], start, _ => by simp [build, zeros_eq_spec_nil K start]
  | fuel+1, [b], start, _ => by
    cases b
    · simp [build, spec, idxs, zeros, padN, padB]
    · simp [build, spec, idxs]
  | fuel+1, b :: b' :: rest, start, h => by
    have hlen : (b :: b' :: rest).length = rest.length + 2 := by simp
    have hmid1 : (b :: b' :: rest).length / 2 ≤ (b :: b' :: rest).length := Nat.div_le_self _ _
    have hr := build_eq_spec K fuel ((b :: b' :: rest).take ((b :: b' :: rest).length / 2)) start
      (by rw [List.length_take]; simp at h ⊢; omega)
    have hl := build_eq_spec K fuel ((b :: b' :: rest).drop ((b :: b' :: rest).length / 2))
      (start + (b :: b' :: rest).length / 2) (by rw [List.length_drop]; simp at h ⊢; omega)
    simp only [build]
    rw [hr, hl]
    simp only [spec, prefixCount_padB, merge]
    have hsplit : idxs (b :: b' :: rest) start =
        idxs ((b :: b' :: rest).take ((b :: b' :: rest).length / 2)) start ++
        idxs ((b :: b' :: rest).drop ((b :: b' :: rest).length / 2)) (start + (b :: b' :: rest).length / 2) := by
      conv => lhs; rw [← List.take_append_drop ((b :: b' :: rest).length / 2) (b :: b' :: rest)]
      rw [idxs_append]; congr 2
      rw [List.length_take]; omega
    rw [hsplit, padN_merge, List.length_append, padB_merge]

/-- the free identifiers of a mask, ascending -/
def freeIds (mask : List Bool) : List Nat := idxs mask 0

theorem encode_eq (K : Nat) (mask : List Bool) :
    encode K mask = (padN K (freeIds mask), padB K (freeIds mask).length) :=
  build_eq_spec K mask.length mask 0 (Nat.le_refl _)

/-! ### Part 2 — free identifiers, `setBits`, `allocOuts` -/

theorem mem_idxs {m : List Bool} {s x : Nat} : x ∈ idxs m s ↔ s ≤ x ∧ m[x - s]? = some true := by
  induction m generalizing s with
  | nil => simp [idxs]
  | cons b bs ih =>
    by_cases hx : x = s
    · subst hx
      cases b
      · simp only [idxs, Bool.false_eq_true, if_false, ih]
        constructor
        · intro h; omega
        · intro h; simp at h
      · simp [idxs]
    · by_cases hlt : s < x
      · have e : x - s = (x - (s + 1)) + 1 := by omega
        rw [e, List.getElem?_cons_succ]
        cases b
        · simp only [idxs, Bool.false_eq_true, if_false, ih]
          constructor
          · intro h; exact ⟨by omega, h.2⟩
          · intro h; exact ⟨by omega, h.2⟩
        · simp only [idxs, if_true, List.mem_cons, ih]
          constructor
          · intro h
            rcases h with h | h
            · exact absurd h hx
            · exact ⟨by omega, h.2⟩
          · intro h; exact Or.inr ⟨by omega, h.2⟩
      · have : ¬ s ≤ x := by omega
        cases b
        · simp only [idxs, Bool.false_eq_true, if_false, ih]
          constructor
          · intro h; omega
          · intro h; omega
        · simp only [idxs, if_true, List.mem_cons, ih]
          constructor
          · intro h
            rcases h with h | h
            · exact absurd h hx
            · omega
          · intro h; omega

theorem idxs_sorted (m : List Bool) (s : Nat) : (idxs m s).Pairwise (· < ·) := by
  induction m generalizing s with
  | nil => simp [idxs]
  | cons b bs ih =>
    cases b
    · simpa [idxs] using ih (s + 1)
    · simp only [idxs, if_true, List.pairwise_cons]
      refine ⟨fun y hy => ?_, ih (s + 1)⟩
      have := (mem_idxs.mp hy).1
      omega

theorem idxs_length (m : List Bool) (s : Nat) : (idxs m s).length = m.count true := by
  induction m generalizing s with
  | nil => simp [idxs]
  | cons b bs ih => cases b <;> simp [idxs, ih]

/-- `k` is a free identifier iff bit `k` of the mask is set -/
theorem mem_freeIds {mask : List Bool} {k : Nat} : k ∈ freeIds mask ↔ mask[k]? = some true := by
  simp [freeIds, mem_idxs]

theorem freeIds_length (mask : List Bool) : (freeIds mask).length = mask.count true := idxs_length _ _

theorem freeIds_sorted (mask : List Bool) : (freeIds mask).Pairwise (· < ·) := idxs_sorted _ _

theorem length_padN (K : Nat) (l : List Nat) : (padN K l).length = K := by
  simp [padN]
theorem length_padB (K n : Nat) : (padB K n).length = K := by
  simp [padB]

theorem getElem?_padN (K : Nat) (l : List Nat) (w : Nat) (h : w < K) : (padN K l)[w]? = some (l[w]?.getD 0) := by
  simp only [padN, List.getElem?_take, h, if_true, List.getElem?_append, List.getElem?_replicate]
  by_cases hw : w < l.length
  · simp [hw]
  · have : l[w]? = none := by simp; omega
    simp [hw]; omega

theorem getElem?_padB (K n w : Nat) (h : w < K) : (padB K n)[w]? = some (decide (w < n)) := by
  simp only [padB, List.getElem?_take, h, if_true, List.getElem?_append, List.getElem?_replicate,
    List.length_replicate]
  by_cases hw : w < n
  · simp [hw]
  · simp [hw]; omega

/-- what way `w` of the `alloc` methods does, in terms of the free identifiers -/
theorem allocOuts_getElem? (K : Nat) (mask : List Bool) (att : List Bool) (w : Nat) (hw : w < K) :
    (allocOuts (encode K mask) att)[w]? =
      att[w]?.map fun a => if a && decide (w < (freeIds mask).length) then some ((freeIds mask)[w]?.getD 0) else none := by
  rw [encode_eq]
  have hz : ((padN K (freeIds mask)).zip (padB K (freeIds mask).length))[w]? =
      some ((freeIds mask)[w]?.getD 0, decide (w < (freeIds mask).length)) := by
    rw [List.getElem?_zip_eq_some]
    exact ⟨getElem?_padN _ _ _ hw, getElem?_padB _ _ _ hw⟩
  simp only [allocOuts, List.getElem?_zipWith, hz]
  cases att[w]? <;> simp

theorem allocOuts_length (K : Nat) (mask : List Bool) (att : List Bool) (h : att.length = K) :
    (allocOuts (encode K mask) att).length = K := by
  rw [encode_eq]
  simp [allocOuts, length_padN, length_padB, h]

/-- an identifier returned on way `w` is the `w`-th free identifier -/
theorem allocOuts_some {K : Nat} {mask att : List Bool} {w id : Nat}
    (h : (allocOuts (encode K mask) att)[w]? = some (some id)) :
    (freeIds mask)[w]? = some id ∧ att[w]? = some true := by
  have hlen : w < (allocOuts (encode K mask) att).length := by
    have := List.getElem?_eq_some_iff.mp h; exact this.1
  have hw : w < K := by
    rw [encode_eq] at hlen
    simp only [allocOuts, List.length_zipWith, List.length_zip, length_padN, length_padB] at hlen
    omega
  rw [allocOuts_getElem? K mask att w hw] at h
  cases ha : att[w]? with
  | none => rw [ha] at h; cases h
  | some a =>
    rw [ha] at h
    simp only [Option.map_some, Option.some.injEq] at h
    by_cases hc : (a && decide (w < (freeIds mask).length)) = true
    · rw [if_pos hc] at h
      simp only [Bool.and_eq_true, decide_eq_true_eq] at hc
      have : (freeIds mask)[w]? = some (freeIds mask)[w] := List.getElem?_eq_getElem hc.2
      rw [this] at h ⊢
      simp only [Option.getD_some, Option.some.injEq] at h
      exact ⟨by rw [h], by rw [hc.1]⟩
    · rw [if_neg hc] at h; cases h

theorem getElem?_setBits (m : List Bool) (ids : List Nat) (v : Bool) (k : Nat) :
    (setBits m ids v)[k]? = if k ∈ ids then (if k < m.length then some v else none) else m[k]? := by
  induction ids generalizing m with
  | nil => simp [setBits]
  | cons id ids ih =>
    have : setBits m (id :: ids) v = setBits (m.set id v) ids v := rfl
    rw [this, ih]
    by_cases h1 : k ∈ ids
    · simp [h1]
    · by_cases h2 : k = id
      · subst h2; simp [h1, List.getElem?_set]
      · have : ¬ id = k := fun h => h2 h.symm
        simp [h1, h2, this]

theorem length_setBits (m : List Bool) (ids : List Nat) (v : Bool) : (setBits m ids v).length = m.length := by
  induction ids generalizing m with
  | nil => rfl
  | cons id ids ih =>
    have : setBits m (id :: ids) v = setBits (m.set id v) ids v := rfl
    rw [this, ih, List.length_set]

/-! ### Part 3 — one cycle of the allocator -/

/-- identifiers handed out in a cycle -/
def returned (o : Out) : List Nat := o.alloc.filterMap id
/-- identifiers the environment frees in a cycle -/
def freed (i : In) : List Nat := i.free.filterMap id

theorem step_alloc (c : Cfg) (s : State) (i : In) :
    (step c s i).2.alloc = allocOuts (encode c.aw s.mask) i.alloc := rfl

theorem step_mask (c : Cfg) (s : State) (i : In) :
    (step c s i).1.mask =
      match i.replace with
      | some m => m
      | none => if (i.clear && !i.replace.isSome) then c.init
                else setBits (setBits s.mask (returned (step c s i).2) false) (freed i) true := rfl

theorem mem_returned {o : Out} {k : Nat} : k ∈ returned o ↔ ∃ w : Nat, o.alloc[w]? = some (some k) := by
  simp only [returned, List.mem_filterMap, id]
  constructor
  · rintro ⟨a, ha, rfl⟩
    exact List.mem_iff_getElem?.mp ha
  · rintro ⟨w, hw⟩
    exact ⟨some k, List.mem_iff_getElem?.mpr ⟨w, hw⟩, rfl⟩

/-- a returned identifier is free in the pre-state -/
theorem returned_free {c : Cfg} {s : State} {i : In} {w id : Nat}
    (h : (step c s i).2.alloc[w]? = some (some id)) : s.mask[id]? = some true := by
  rw [step_alloc] at h
  have := (allocOuts_some h).1
  exact mem_freeIds.mp (List.mem_of_getElem? this)

/-- the mask after a cycle without replace/clear, bit by bit: `free` wins over `alloc` -/
theorem step_mask_bits (c : Cfg) (s : State) (i : In) (hr : i.replace = none) (hc : i.clear = false) (k : Nat) :
    (step c s i).1.mask[k]? =
      if k ∈ freed i then (if k < s.mask.length then some true else none)
      else if k ∈ returned (step c s i).2 then (if k < s.mask.length then some false else none)
      else s.mask[k]? := by
  rw [step_mask, hr]
  simp only [hc, Bool.false_and, Bool.false_eq_true, if_false]
  rw [getElem?_setBits, length_setBits, getElem?_setBits]

/-- identifiers whose mask bit is clear (allocated), ascending -/
def allocatedOf (mask : List Bool) : List Nat := idxs (mask.map (!·)) 0

theorem mem_allocatedOf {mask : List Bool} {k : Nat} : k ∈ allocatedOf mask ↔ mask[k]? = some false := by
  simp only [allocatedOf, mem_idxs, Nat.zero_le, true_and, Nat.sub_zero, List.getElem?_map]
  cases mask[k]? with
  | none => simp
  | some b => cases b <;> simp

/-- bookkeeping of the allocated identifiers from the observations of one cycle: `replace`/`clear`
    define the set anew; otherwise freed identifiers leave, returned ones enter -/
def ghostStep (c : Cfg) (A : List Nat) (i : In) (o : Out) : List Nat :=
  match i.replace with
  | some m => allocatedOf m
  | none => if o.clear then allocatedOf c.init
            else A.filter (fun k => !(freed i).contains k) ++ returned o

/-- the bookkeeping list `A` and the register agree: `k` is booked as allocated iff its bit is clear -/
def Agree (A : List Nat) (mask : List Bool) : Prop := ∀ k, k ∈ A ↔ mask[k]? = some false

theorem agree_step {c : Cfg} {s : State} {A : List Nat} {i : In}
    (hA : Agree A s.mask) (hE : ∀ k ∈ freed i, k ∈ A) :
    Agree (ghostStep c A i (step c s i).2) (step c s i).1.mask := by
  intro k
  cases hr : i.replace with
  | some m =>
    simp only [ghostStep, hr, step_mask]
    exact mem_allocatedOf
  | none =>
    cases hc : i.clear with
    | true =>
      have : (step c s i).2.clear = true := by simp [step, hr, hc]
      simp only [ghostStep, hr, this, if_true, step_mask, hc, Option.isSome_none, Bool.not_false, Bool.and_self]
      exact mem_allocatedOf
    | false =>
      have : (step c s i).2.clear = false := by simp [step, hc]
      rw [step_mask_bits c s i hr hc]
      simp only [ghostStep, hr, this, Bool.false_eq_true, if_false, List.mem_append, List.mem_filter,
        Bool.not_eq_true', List.contains_eq_mem, decide_eq_false_iff_not]
      by_cases hf : k ∈ freed i
      · have hkA := (hA k).mp (hE k hf)
        have hnr : k ∉ returned (step c s i).2 := by
          intro hm
          obtain ⟨w, hw⟩ := mem_returned.mp hm
          have := returned_free hw
          rw [hkA] at this; cases this
        simp only [hf, not_true_eq_false, and_false, hnr, or_self, if_true, false_iff]
        split <;> simp
      · by_cases hm : k ∈ returned (step c s i).2
        · obtain ⟨w, hw⟩ := mem_returned.mp hm
          have hk := returned_free hw
          have hlt : k < s.mask.length := (List.getElem?_eq_some_iff.mp hk).1
          simp [hf, hm, hlt]
        · simp only [hf, not_false_eq_true, and_true, hm, or_false, if_false]
          exact hA k

/-- states reachable from reset by histories in which the environment only frees identifiers that are
    allocated according to the bookkeeping (returned by `alloc`, or absent from the mask set by
    `replace`/`clear`/reset, and not freed since) -/
inductive Reach (c : Cfg) : State → List Nat → Prop
  | init : Reach c (init c) (allocatedOf c.init)
  | step {s : State} {A : List Nat} (i : In) :
      Reach c s A → (∀ k ∈ freed i, k ∈ A) → Reach c (step c s i).1 (ghostStep c A i (step c s i).2)

theorem reach_agree {c : Cfg} {s : State} {A : List Nat} (h : Reach c s A) : Agree A s.mask := by
  induction h with
  | init => intro k; exact mem_allocatedOf
  | step i _ hE ih => exact agree_step ih hE

end TxV.PEAllocator
