import TxV.Model.WideFifo
/-!
Helper lemmas for C15 (WideFifo): bit-trick arithmetic of `mod_incr`, index form of the
rotations, the row/column ↔ linear position correspondence, the state invariant, the
abstraction function to the list queue and the one-step simulation lemmas.
-/
namespace TxV.WideFifo

/-! ### arithmetic -/

theorem lt_two_pow_bitsFor (n : Nat) : n < 2 ^ bitsFor n := by
  unfold bitsFor
  split
  · subst_vars; simp
  · exact Nat.lt_log2_self

theorem testBit_of_range {x k : Nat} (h1 : 2 ^ k ≤ x) (h2 : x < 2 ^ (k + 1)) : x.testBit k = true := by
  rw [Nat.testBit_eq_decide_div_mod_eq]
  have : x / 2 ^ k = 1 := by
    apply Nat.div_eq_of_lt_le
    · simpa using h1
    · rw [Nat.pow_succ] at h2; omega
  simp [this]

/-- the test `mod & (mod - 1) == 0` of `mod_incr` recognises powers of two -/
theorem pow2_of_and_pred {m : Nat} (hm : 0 < m) (h : m &&& (m - 1) = 0) : m = 2 ^ Nat.log2 m := by
  have h1 : 2 ^ Nat.log2 m ≤ m := Nat.log2_self_le (by omega)
  have h2 : m < 2 ^ (Nat.log2 m + 1) := Nat.lt_log2_self
  by_cases hne : m = 2 ^ Nat.log2 m
  · exact hne
  · exfalso
    have a := testBit_of_range h1 h2
    have b := testBit_of_range (x := m - 1) (k := Nat.log2 m) (by omega) (by omega)
    have c := Nat.testBit_and m (m - 1) (Nat.log2 m)
    rw [h, a, b] at c
    simp at c

/-- next row: what `mod_incr(row, R)` computes for `row < R` -/
def incRow (row R : Nat) : Nat := if row + 1 = R then 0 else row + 1

/-- both branches of `mod_incr` (mask / Mux) compute the wrapping successor -/
theorem modIncr_eq {x m : Nat} (hm : 0 < m) (hx : x < m) : modIncr x m = incRow x m := by
  unfold modIncr incRow
  split
  · rename_i h
    have hp := pow2_of_and_pred hm h
    generalize Nat.log2 m = k at hp
    subst hp
    rw [Nat.and_two_pow_sub_one_eq_mod]
    split
    · rename_i h'; rw [h']; exact Nat.mod_self _
    · exact Nat.mod_eq_of_lt (by omega)
  · split <;> split <;> omega

theorem incRow_lt {x m : Nat} (hx : x < m) : incRow x m < m := by
  unfold incRow; split <;> omega

/-- positions `a + x` for `x < d` are pairwise distinct modulo `d` -/
theorem add_mod_inj {a x y d : Nat} (hx : x < d) (hy : y < d) (h : (a + x) % d = (a + y) % d) : x = y := by
  by_cases hxy : x ≤ y
  · have := Nat.sub_mod_eq_zero_of_mod_eq h.symm
    have e : a + y - (a + x) = y - x := by omega
    rw [e, Nat.mod_eq_of_lt (by omega)] at this
    omega
  · have := Nat.sub_mod_eq_zero_of_mod_eq h
    have e : a + x - (a + y) = x - y := by omega
    rw [e, Nat.mod_eq_of_lt (by omega)] at this
    omega

/-- row and column of the position `o` places after `(row, col)`, modulo the capacity -/
theorem pos_decomp {C R row col o : Nat} (hC : 0 < C) (hrow : row < R) (hcol : col < C) (ho : o ≤ C) :
    ((row * C + col + o) % (C * R)) % C = (if col + o < C then col + o else col + o - C) ∧
    ((row * C + col + o) % (C * R)) / C = (if col + o < C then row else incRow row R) := by
  have hmul : (row + 1) * C ≤ R * C := Nat.mul_le_mul_right C (by omega)
  have hs : (row + 1) * C = row * C + C := Nat.succ_mul row C
  have hcomm : C * R = R * C := Nat.mul_comm C R
  by_cases h : col + o < C
  · have hlt : row * C + col + o < C * R := by omega
    rw [Nat.mod_eq_of_lt hlt, if_pos h, if_pos h]
    have e : row * C + col + o = (col + o) + row * C := by omega
    rw [e]
    constructor
    · rw [Nat.add_mul_mod_self_right, Nat.mod_eq_of_lt h]
    · rw [Nat.add_mul_div_right _ _ hC, Nat.div_eq_of_lt h]; omega
  · rw [if_neg h, if_neg h]
    unfold incRow
    by_cases hr : row + 1 = R
    · have e : row * C + col + o = (col + o - C) + C * R := by rw [hcomm, ← hr]; omega
      rw [e, Nat.add_mod_right, if_pos hr]
      have hlt : col + o - C < C * R := by
        have : C ≤ R * C := by rw [← hr, hs]; omega
        omega
      rw [Nat.mod_eq_of_lt hlt]
      exact ⟨Nat.mod_eq_of_lt (by omega), Nat.div_eq_of_lt (by omega)⟩
    · have hmul2 : (row + 2) * C ≤ R * C := Nat.mul_le_mul_right C (by omega)
      have hs2 : (row + 2) * C = row * C + 2 * C := by rw [Nat.add_mul]
      have hlt : row * C + col + o < C * R := by omega
      rw [Nat.mod_eq_of_lt hlt, if_neg hr]
      have e : row * C + col + o = (col + o - C) + (row + 1) * C := by omega
      rw [e]
      constructor
      · rw [Nat.add_mul_mod_self_right]; exact Nat.mod_eq_of_lt (by omega)
      · rw [Nat.add_mul_div_right _ _ hC, Nat.div_eq_of_lt (by omega)]; omega

/-! ### rotations in index form -/

@[simp] theorem rotRight_length {α} (z : α) (l : List α) (off : Nat) : (rotRight z l off).length = l.length := by
  simp [rotRight]

@[simp] theorem rotLeft_length {α} (z : α) (l : List α) (off : Nat) : (rotLeft z l off).length = l.length := by
  simp [rotLeft]

/-- `rotate_vec_right(d, off)[i] = d[(i + off) mod n]` -/
theorem getD_rotRight {α} (z : α) (l : List α) {off i : Nat} (hi : i < l.length) :
    (rotRight z l off).getD i z = l.getD (if off + i < l.length then off + i else off + i - l.length) z := by
  simp only [rotRight, List.getD_eq_getElem?_getD, List.getElem?_map, List.getElem?_range hi, Option.map_some,
    Option.getD_some, List.getElem?_append]
  split <;> rfl

/-- `rotate_vec_left(d, off)[i] = d[(i - off) mod n]` -/
theorem getD_rotLeft {α} (z : α) (l : List α) {off i : Nat} (hoff : off < l.length) (hi : i < l.length) :
    (rotLeft z l off).getD i z = l.getD (if off ≤ i then i - off else i + l.length - off) z := by
  unfold rotLeft
  rw [List.getD_eq_getElem?_getD, List.getElem?_reverse (by simpa using hi), ← List.getD_eq_getElem?_getD]
  simp only [rotRight_length, List.length_reverse]
  rw [getD_rotRight z l.reverse (by simp; omega)]
  simp only [List.length_reverse]
  split <;> split <;> try omega
  · rw [List.getD_eq_getElem?_getD, List.getElem?_reverse (by omega), ← List.getD_eq_getElem?_getD]
    congr 1; omega
  · rw [List.getD_eq_getElem?_getD, List.getElem?_reverse (by omega), ← List.getD_eq_getElem?_getD]
    congr 1; omega

/-! ### configurations -/

/-- configurations the theorems are about: the constructor accepts them and there is at least one cell -/
structure Cfg.WF (c : Cfg) : Prop where
  cols_pos : 0 < c.cols
  depth_pos : 0 < c.depth
  dvd : c.depth % c.cols = 0

namespace Cfg.WF
variable {c : Cfg} (h : c.WF)
include h

theorem cap_eq : c.cap = c.depth := by
  unfold Cfg.cap Cfg.rows
  exact Nat.mul_div_cancel' (Nat.dvd_of_mod_eq_zero h.dvd)

theorem rows_pos : 0 < c.rows := by
  have := h.cap_eq
  unfold Cfg.cap at this
  have hd := h.depth_pos
  rcases Nat.eq_zero_or_pos c.rows with h0 | h0
  · rw [h0] at this; omega
  · exact h0

theorem cap_pos : 0 < c.cap := by rw [h.cap_eq]; exact h.depth_pos

end Cfg.WF

theorem Cfg.rw_le_cols (c : Cfg) : c.rw ≤ c.cols := by unfold Cfg.cols; omega
theorem Cfg.ww_le_cols (c : Cfg) : c.ww ≤ c.cols := by unfold Cfg.cols; omega

/-! ### pointers as linear positions -/

/-- linear position of a row/column pointer: `row * col_count + col` -/
def lin (c : Cfg) (idx : Idx) : Nat := idx.row * c.cols + idx.col

def Idx.InRange (c : Cfg) (idx : Idx) : Prop := idx.row < c.rows ∧ idx.col < c.cols

theorem lin_lt {c : Cfg} {idx : Idx} (hi : idx.InRange c) : lin c idx < c.cap := by
  unfold lin Cfg.cap
  have : (idx.row + 1) * c.cols ≤ c.rows * c.cols := Nat.mul_le_mul_right _ hi.1
  rw [Nat.succ_mul] at this
  rw [Nat.mul_comm c.cols]
  have := hi.2
  omega

/-- the cell `o < col_count` places after the pointer `idx` lives in column `(idx.col + o) mod col_count`,
    in the row that the port of that column is addressed with -/
theorem pos_col_row {c : Cfg} (h : c.WF) {idx : Idx} (hi : idx.InRange c) {o : Nat} (ho : o < c.cols) :
    ((lin c idx + o) % c.cap) % c.cols = (if idx.col + o < c.cols then idx.col + o else idx.col + o - c.cols) ∧
    ((lin c idx + o) % c.cap) / c.cols = portAddr c idx (((lin c idx + o) % c.cap) % c.cols) := by
  obtain ⟨h1, h2⟩ := pos_decomp (R := c.rows) h.cols_pos hi.1 hi.2 (Nat.le_of_lt ho)
  unfold lin Cfg.cap
  refine ⟨h1, ?_⟩
  rw [h2, h1]
  unfold portAddr
  rw [modIncr_eq h.rows_pos hi.1]
  have := hi.2
  split <;> split <;> first | rfl | omega

/-- `incr_row_col` advances the linear position by `n` modulo the capacity (for `n ≤ col_count`) -/
theorem lin_incrRowCol {c : Cfg} (h : c.WF) {idx : Idx} (hi : idx.InRange c) {n : Nat} (hn : n ≤ c.cols) :
    (incrRowCol c idx n).InRange c ∧ lin c (incrRowCol c idx n) = (lin c idx + n) % c.cap := by
  obtain ⟨h1, h2⟩ := pos_decomp (R := c.rows) h.cols_pos hi.1 hi.2 hn
  have hdm := Nat.div_add_mod ((idx.row * c.cols + idx.col + n) % (c.cols * c.rows)) c.cols
  rw [h1, h2] at hdm
  have hc := hi.2
  have hr := hi.1
  have hb := lt_two_pow_bitsFor (c.cols - 1)
  unfold incrRowCol
  by_cases hlt : idx.col + n < c.cols
  · rw [if_neg (by omega)]
    rw [if_pos hlt, if_pos hlt] at hdm
    refine ⟨⟨hr, hlt⟩, ?_⟩
    unfold lin Cfg.cap
    simp only
    rw [← hdm, Nat.mul_comm]
  · rw [if_pos (by omega)]
    rw [if_neg hlt, if_neg hlt] at hdm
    rw [modIncr_eq h.rows_pos hr, Nat.mod_eq_of_lt (by omega)]
    refine ⟨⟨incRow_lt hr, by simp only; omega⟩, ?_⟩
    unfold lin Cfg.cap
    simp only
    rw [← hdm, Nat.mul_comm]

end TxV.WideFifo
