import TxV.Model.WideFifo
/-!
Helper lemmas for C15 (WideFifo): bit-trick arithmetic of `mod_incr`, index form of the
rotations, the row/column ↔ linear position correspondence, the state invariant, the
abstraction function to the list queue and the one-step simulation lemmas.
-/
namespace TxV.WideFifo

/-! ### arithmetic -/

theorem lt_two_pow_bitsFor (n : Nat) : n < 2 ^ bitsFor n := by
  unfold bitsFor
  split
  · subst_vars; simp
  · exact Nat.lt_log2_self

theorem testBit_of_range {x k : Nat} (h1 : 2 ^ k ≤ x) (h2 : x < 2 ^ (k + 1)) : x.testBit k = true := by
  rw [Nat.testBit_eq_decide_div_mod_eq]
  have : x / 2 ^ k = 1 := by
    apply Nat.div_eq_of_lt_le
    · simpa using h1
    · rw [Nat.pow_succ] at h2; omega
  simp [this]

/-- the test `mod & (mod - 1) == 0` of `mod_incr` recognises powers of two -/
theorem pow2_of_and_pred {m : Nat} (hm : 0 < m) (h : m &&& (m - 1) = 0) : m = 2 ^ Nat.log2 m := by
  have h1 : 2 ^ Nat.log2 m ≤ m := Nat.log2_self_le (by omega)
  have h2 : m < 2 ^ (Nat.log2 m + 1) := Nat.lt_log2_self
  by_cases hne : m = 2 ^ Nat.log2 m
  · exact hne
  · exfalso
    have a := testBit_of_range h1 h2
    have b := testBit_of_range (x := m - 1) (k := Nat.log2 m) (by omega) (by omega)
    have c := Nat.testBit_and m (m - 1) (Nat.log2 m)
    rw [h, a, b] at c
    simp at c

/-- next row: what `mod_incr(row, R)` computes for `row < R` -/
def incRow (row R : Nat) : Nat := if row + 1 = R then 0 else row + 1

/-- both branches of `mod_incr` (mask / Mux) compute the wrapping successor -/
theorem modIncr_eq {x m : Nat} (hm : 0 < m) (hx : x < m) : modIncr x m = incRow x m := by
  unfold modIncr incRow
  split
  · rename_i h
    have hp := pow2_of_and_pred hm h
    generalize Nat.log2 m = k at hp
    subst hp
    rw [Nat.and_two_pow_sub_one_eq_mod]
    split
    · rename_i h'; rw [h']; exact Nat.mod_self _
    · exact Nat.mod_eq_of_lt (by omega)
  · split <;> split <;> omega

theorem incRow_lt {x m : Nat} (hx : x < m) : incRow x m < m := by
  unfold incRow; split <;> omega

/-- positions `a + x` for `x < d` are pairwise distinct modulo `d` -/
theorem add_mod_inj {a x y d : Nat} (hx : x < d) (hy : y < d) (h : (a + x) % d = (a + y) % d) : x = y := by
  by_cases hxy : x ≤ y
  · have := Nat.sub_mod_eq_zero_of_mod_eq h.symm
    have e : a + y - (a + x) = y - x := by omega
    rw [e, Nat.mod_eq_of_lt (by omega)] at this
    omega
  · have := Nat.sub_mod_eq_zero_of_mod_eq h
    have e : a + x - (a + y) = x - y := by omega
    rw [e, Nat.mod_eq_of_lt (by omega)] at this
    omega

/-- row and column of the position `o` places after `(row, col)`, modulo the capacity -/
theorem pos_decomp {C R row col o : Nat} (hC : 0 < C) (hrow : row < R) (hcol : col < C) (ho : o ≤ C) :
    ((row * C + col + o) % (C * R)) % C = (if col + o < C then col + o else col + o - C) ∧
    ((row * C + col + o) % (C * R)) / C = (if col + o < C then row else incRow row R) := by
  have hmul : (row + 1) * C ≤ R * C := Nat.mul_le_mul_right C (by omega)
  have hs : (row + 1) * C = row * C + C := Nat.succ_mul row C
  have hcomm : C * R = R * C := Nat.mul_comm C R
  by_cases h : col + o < C
  · have hlt : row * C + col + o < C * R := by omega
    rw [Nat.mod_eq_of_lt hlt, if_pos h, if_pos h]
    have e : row * C + col + o = (col + o) + row * C := by omega
    rw [e]
    constructor
    · rw [Nat.add_mul_mod_self_right, Nat.mod_eq_of_lt h]
    · rw [Nat.add_mul_div_right _ _ hC, Nat.div_eq_of_lt h]; omega
  · rw [if_neg h, if_neg h]
    unfold incRow
    by_cases hr : row + 1 = R
    · have e : row * C + col + o = (col + o - C) + C * R := by rw [hcomm, ← hr]; omega
      rw [e, Nat.add_mod_right, if_pos hr]
      have hlt : col + o - C < C * R := by
        have : C ≤ R * C := by rw [← hr, hs]; omega
        omega
      rw [Nat.mod_eq_of_lt hlt]
      exact ⟨Nat.mod_eq_of_lt (by omega), Nat.div_eq_of_lt (by omega)⟩
    · have hmul2 : (row + 2) * C ≤ R * C := Nat.mul_le_mul_right C (by omega)
      have hs2 : (row + 2) * C = row * C + 2 * C := by rw [Nat.add_mul]
      have hlt : row * C + col + o < C * R := by omega
      rw [Nat.mod_eq_of_lt hlt, if_neg hr]
      have e : row * C + col + o = (col + o - C) + (row + 1) * C := by omega
      rw [e]
      constructor
      · rw [Nat.add_mul_mod_self_right]; exact Nat.mod_eq_of_lt (by omega)
      · rw [Nat.add_mul_div_right _ _ hC, Nat.div_eq_of_lt (by omega)]; omega

/-! ### rotations in index form -/

@[simp] theorem rotRight_length {α} (z : α) (l : List α) (off : Nat) : (rotRight z l off).length = l.length := by
  simp [rotRight]

@[simp] theorem rotLeft_length {α} (z : α) (l : List α) (off : Nat) : (rotLeft z l off).length = l.length := by
  simp [rotLeft]

/-- `rotate_vec_right(d, off)[i] = d[(i + off) mod n]` -/
theorem getD_rotRight {α} (z : α) (l : List α) {off i : Nat} (hi : i < l.length) :
    (rotRight z l off).getD i z = l.getD (if off + i < l.length then off + i else off + i - l.length) z := by
  simp only [rotRight, List.getD_eq_getElem?_getD, List.getElem?_map, List.getElem?_range hi, Option.map_some,
    Option.getD_some, List.getElem?_append]
  split <;> rfl

/-- `rotate_vec_left(d, off)[i] = d[(i - off) mod n]` -/
theorem getD_rotLeft {α} (z : α) (l : List α) {off i : Nat} (hoff : off < l.length) (hi : i < l.length) :
    (rotLeft z l off).getD i z = l.getD (if off ≤ i then i - off else i + l.length - off) z := by
  unfold rotLeft
  rw [List.getD_eq_getElem?_getD, List.getElem?_reverse (by simpa using hi), ← List.getD_eq_getElem?_getD]
  simp only [rotRight_length, List.length_reverse]
  rw [getD_rotRight z l.reverse (by simp; omega)]
  simp only [List.length_reverse]
  split <;> split <;> try omega
  · rw [List.getD_eq_getElem?_getD, List.getElem?_reverse (by omega), ← List.getD_eq_getElem?_getD]
    congr 1; omega
  · rw [List.getD_eq_getElem?_getD, List.getElem?_reverse (by omega), ← List.getD_eq_getElem?_getD]
    congr 1; omega

/-! ### configurations -/

/-- configurations the theorems are about: the constructor accepts them and there is at least one cell -/
structure Cfg.WF (c : Cfg) : Prop where
  cols_pos : 0 < c.cols
  depth_pos : 0 < c.depth
  dvd : c.depth % c.cols = 0

namespace Cfg.WF
variable {c : Cfg} (h : c.WF)
include h

theorem cap_eq : c.cap = c.depth := by
  unfold Cfg.cap Cfg.rows
  exact Nat.mul_div_cancel' (Nat.dvd_of_mod_eq_zero h.dvd)

theorem rows_pos : 0 < c.rows := by
  have := h.cap_eq
  unfold Cfg.cap at this
  have hd := h.depth_pos
  rcases Nat.eq_zero_or_pos c.rows with h0 | h0
  · rw [h0] at this; omega
  · exact h0

theorem cap_pos : 0 < c.cap := by rw [h.cap_eq]; exact h.depth_pos

end Cfg.WF

theorem Cfg.rw_le_cols (c : Cfg) : c.rw ≤ c.cols := by unfold Cfg.cols; omega
theorem Cfg.ww_le_cols (c : Cfg) : c.ww ≤ c.cols := by unfold Cfg.cols; omega

/-! ### pointers as linear positions -/

/-- linear position of a row/column pointer: `row * col_count + col` -/
def lin (c : Cfg) (idx : Idx) : Nat := idx.row * c.cols + idx.col

def Idx.InRange (c : Cfg) (idx : Idx) : Prop := idx.row < c.rows ∧ idx.col < c.cols

theorem lin_lt {c : Cfg} {idx : Idx} (hi : idx.InRange c) : lin c idx < c.cap := by
  unfold lin Cfg.cap
  have : (idx.row + 1) * c.cols ≤ c.rows * c.cols := Nat.mul_le_mul_right _ hi.1
  rw [Nat.succ_mul] at this
  rw [Nat.mul_comm c.cols]
  have := hi.2
  omega

/-- the cell `o < col_count` places after the pointer `idx` lives in column `(idx.col + o) mod col_count`,
    in the row that the port of that column is addressed with -/
theorem pos_col_row {c : Cfg} (h : c.WF) {idx : Idx} (hi : idx.InRange c) {o : Nat} (ho : o < c.cols) :
    ((lin c idx + o) % c.cap) % c.cols = (if idx.col + o < c.cols then idx.col + o else idx.col + o - c.cols) ∧
    ((lin c idx + o) % c.cap) / c.cols = portAddr c idx (((lin c idx + o) % c.cap) % c.cols) := by
  obtain ⟨h1, h2⟩ := pos_decomp (R := c.rows) h.cols_pos hi.1 hi.2 (Nat.le_of_lt ho)
  unfold lin Cfg.cap
  refine ⟨h1, ?_⟩
  rw [h2, h1]
  unfold portAddr
  rw [modIncr_eq h.rows_pos hi.1]
  have := hi.2
  split <;> split <;> first | rfl | omega

/-- `incr_row_col` advances the linear position by `n` modulo the capacity (for `n ≤ col_count`) -/
theorem lin_incrRowCol {c : Cfg} (h : c.WF) {idx : Idx} (hi : idx.InRange c) {n : Nat} (hn : n ≤ c.cols) :
    (incrRowCol c idx n).InRange c ∧ lin c (incrRowCol c idx n) = (lin c idx + n) % c.cap := by
  obtain ⟨h1, h2⟩ := pos_decomp (R := c.rows) h.cols_pos hi.1 hi.2 hn
  have hdm := Nat.div_add_mod ((idx.row * c.cols + idx.col + n) % (c.cols * c.rows)) c.cols
  rw [h1, h2] at hdm
  have hc := hi.2
  have hr := hi.1
  have hb := lt_two_pow_bitsFor (c.cols - 1)
  unfold incrRowCol
  by_cases hlt : idx.col + n < c.cols
  · rw [if_neg (by omega)]
    rw [if_pos hlt, if_pos hlt] at hdm
    refine ⟨⟨hr, hlt⟩, ?_⟩
    unfold lin Cfg.cap
    simp only
    rw [← hdm, Nat.mul_comm]
  · rw [if_pos (by omega)]
    rw [if_neg hlt, if_neg hlt] at hdm
    rw [modIncr_eq h.rows_pos hr, Nat.mod_eq_of_lt (by omega)]
    refine ⟨⟨incRow_lt hr, by simp only; omega⟩, ?_⟩
    unfold lin Cfg.cap
    simp only
    rw [← hdm, Nat.mul_comm]

/-! ### the storage -/

/-- contents of row `r` of column memory `k` -/
def cell (mem : List (List Nat)) (k r : Nat) : Nat := (mem.getD k []).getD r 0

/-- contents of the cell at linear position `p` (column `p mod col_count`, row `p / col_count`) -/
def cellLin (c : Cfg) (mem : List (List Nat)) (p : Nat) : Nat := cell mem (p % c.cols) (p / c.cols)

/-- the storage after the edge -/
def memAfter (c : Cfg) (s : State) (i : In) : List (List Nat) := (List.range c.cols).map (colAfter c s i)

/-- `col_count` memories of `row_count` rows -/
structure Shape (c : Cfg) (mem : List (List Nat)) : Prop where
  len : mem.length = c.cols
  col : ∀ k, k < c.cols → (mem.getD k []).length = c.rows

/-- environment hypothesis on the arguments of `write`: `data` has `write_width` entries, `count` is in the
    range of the layout, and `count ≤ max_count` when `write_max_count` is configured (asserted at fifo.py:331) -/
def In.WF (c : Cfg) (i : In) : Prop :=
  ∀ a, i.write = some a → a.data.length = c.ww ∧ a.count ≤ c.ww ∧ (c.useMax = true → a.count ≤ a.maxCount)

/-- the data words offered to `write` in this cycle -/
def In.wdata (i : In) : List Nat :=
  match i.write with
  | some a => a.data
  | none => []

theorem step_mem (c : Cfg) (s : State) (i : In) : (step c s i).1.mem = memAfter c s i := by
  unfold step memAfter; by_cases hc : i.clear = true <;> simp [hc]

theorem getD_memAfter {c : Cfg} (s : State) (i : In) {k : Nat} (hk : k < c.cols) :
    (memAfter c s i).getD k [] = colAfter c s i k := by
  simp [memAfter, List.getD_eq_getElem?_getD, List.getElem?_range hk]

theorem colAfter_length {c : Cfg} (s : State) (i : In) (k : Nat) :
    (colAfter c s i k).length = (s.mem.getD k []).length := by
  unfold colAfter
  split
  · split <;> simp
  · rfl

theorem shape_memAfter {c : Cfg} {s : State} (i : In) (hs : Shape c s.mem) : Shape c (memAfter c s i) := by
  constructor
  · simp [memAfter]
  · intro k hk
    rw [getD_memAfter s i hk, colAfter_length, hs.col k hk]

/-- rotated index: which entry of `ens`/`data` port `k` gets -/
def rotIdx (c : Cfg) (s : State) (k : Nat) : Nat :=
  if s.widx.col ≤ k then k - s.widx.col else k + c.cols - s.widx.col

theorem getD_wEn {c : Cfg} {s : State} (a : WArg) {k : Nat} (hwc : s.widx.col < c.cols) (hk : k < c.cols) :
    (wEn c s a).getD k false = decide (rotIdx c s k < a.count) := by
  unfold wEn
  rw [getD_rotLeft _ _ (by simpa using hwc) (by simpa using hk)]
  simp only [List.length_map, List.length_range]
  have hj : rotIdx c s k < c.cols := by unfold rotIdx; split <;> omega
  unfold rotIdx at *
  simp [List.getD_eq_getElem?_getD, List.getElem?_range hj]

theorem getD_wData {c : Cfg} {s : State} (a : WArg) {k : Nat} (hlen : a.data.length = c.ww)
    (hwc : s.widx.col < c.cols) (hk : k < c.cols) (hj : rotIdx c s k < a.data.length) :
    (wData c s a).getD k 0 = a.data.getD (rotIdx c s k) 0 := by
  have hww := c.ww_le_cols
  have hl : (a.data ++ List.replicate (c.cols - c.ww) 0).length = c.cols := by simp [hlen]; omega
  unfold wData
  rw [getD_rotLeft _ _ (by rw [hl]; exact hwc) (by rw [hl]; exact hk), hl]
  unfold rotIdx at hj
  simp only [List.getD_eq_getElem?_getD, List.getElem?_append]
  unfold rotIdx
  rw [if_pos hj]

theorem writeCount_of_not_runs {c : Cfg} {s : State} {i : In} (h : writeRuns c s i = false) :
    writeCount c s i = 0 := by
  unfold writeCount; split <;> simp [h]

theorem memAfter_of_not_runs {c : Cfg} {s : State} {i : In} (h : writeRuns c s i = false) (k : Nat) :
    colAfter c s i k = s.mem.getD k [] := by
  unfold colAfter; split <;> simp [h]

/-- The write data path: after the edge, the cell `o` places after the write pointer holds the `o`-th data
    word if `o < write_count`, and what it held before otherwise. -/
theorem cellLin_memAfter {c : Cfg} (h : c.WF) {s : State} {i : In} (hi : i.WF c)
    (hw : s.widx.InRange c) (hs : Shape c s.mem) {o : Nat} (ho : o < c.cap) :
    cellLin c (memAfter c s i) ((lin c s.widx + o) % c.cap) =
      if o < writeCount c s i then i.wdata.getD o 0 else cellLin c s.mem ((lin c s.widx + o) % c.cap) := by
  have hC := h.cols_pos
  have hkC : ((lin c s.widx + o) % c.cap) % c.cols < c.cols := Nat.mod_lt _ hC
  have hrR : ((lin c s.widx + o) % c.cap) / c.cols < c.rows := by
    rw [Nat.div_lt_iff_lt_mul hC, Nat.mul_comm]; exact Nat.mod_lt _ h.cap_pos
  unfold cellLin cell
  rw [getD_memAfter s i hkC]
  by_cases hrun : writeRuns c s i = true
  · -- the write executes
    cases hwa : i.write with
    | none => simp [writeRuns, hwa] at hrun
    | some a =>
      obtain ⟨hlen, hcnt, _⟩ := hi a hwa
      have hww := c.ww_le_cols
      have hwc : writeCount c s i = a.count := by simp [writeCount, hwa, hrun]
      have hwd : i.wdata = a.data := by simp [In.wdata, hwa]
      rw [hwc, hwd]
      have hcol : colAfter c s i ((lin c s.widx + o) % c.cap % c.cols) =
          if (wEn c s a).getD ((lin c s.widx + o) % c.cap % c.cols) false
          then (s.mem.getD ((lin c s.widx + o) % c.cap % c.cols) []).set
            (portAddr c s.widx ((lin c s.widx + o) % c.cap % c.cols))
            ((wData c s a).getD ((lin c s.widx + o) % c.cap % c.cols) 0)
          else s.mem.getD ((lin c s.widx + o) % c.cap % c.cols) [] := by
        simp [colAfter, hwa, hrun]
      rw [hcol, getD_wEn a hw.2 hkC]
      by_cases hoc : o < a.count
      · -- one of the cells being written
        obtain ⟨p1, p2⟩ := pos_col_row h hw (o := o) (by omega)
        have hj : rotIdx c s ((lin c s.widx + o) % c.cap % c.cols) = o := by
          rw [p1]; unfold rotIdx; have := hw.2; split <;> split <;> omega
        rw [hj, if_pos hoc, decide_eq_true hoc, if_pos rfl, ← p2]
        rw [getD_wData a hlen hw.2 hkC (by rw [hj]; omega), hj]
        rw [List.getD_eq_getElem?_getD, List.getElem?_set]
        rw [if_pos rfl, if_pos (by rw [hs.col _ hkC]; exact hrR)]
        rfl
      · rw [if_neg hoc]
        by_cases hjc : rotIdx c s ((lin c s.widx + o) % c.cap % c.cols) < a.count
        · -- the column is written, but in another row
          rw [decide_eq_true hjc, if_pos rfl]
          have hjC : rotIdx c s ((lin c s.widx + o) % c.cap % c.cols) < c.cols := by omega
          obtain ⟨p1, p2⟩ := pos_col_row h hw hjC
          have hk' : (lin c s.widx + rotIdx c s ((lin c s.widx + o) % c.cap % c.cols)) % c.cap % c.cols
              = (lin c s.widx + o) % c.cap % c.cols := by
            rw [p1]; unfold rotIdx; have := hw.2; split <;> split <;> omega
          have hne : portAddr c s.widx ((lin c s.widx + o) % c.cap % c.cols) ≠ (lin c s.widx + o) % c.cap / c.cols := by
            intro heq
            rw [hk'] at p2
            have e := Nat.div_add_mod ((lin c s.widx + o) % c.cap) c.cols
            have e' := Nat.div_add_mod ((lin c s.widx + rotIdx c s ((lin c s.widx + o) % c.cap % c.cols)) % c.cap) c.cols
            rw [hk', p2, heq] at e'
            have := add_mod_inj (by omega) ho (e'.symm.trans e)
            omega
          rw [List.getD_eq_getElem?_getD, List.getElem?_set, if_neg hne, ← List.getD_eq_getElem?_getD]
        · rw [decide_eq_false hjc]; rfl
  · have hrun' : writeRuns c s i = false := by simpa using hrun
    rw [writeCount_of_not_runs hrun', memAfter_of_not_runs hrun']
    simp

/-! ### invariant and abstraction -/

structure Inv (c : Cfg) (s : State) : Prop where
  ridx : s.ridx.InRange c
  widx : s.widx.InRange c
  lvl : s.level ≤ c.cap
  ptr : lin c s.widx = (lin c s.ridx + s.level) % c.cap
  shape : Shape c s.mem
  rdlen : s.rd.length = c.cols
  /-- the read-port registers hold the rows addressed through `read_idx` (fifo.py:299-300) -/
  rdval : 0 < s.level → ∀ k, k < c.cols → s.rd.getD k 0 = cell s.mem k (portAddr c s.ridx k)

/-- the queue a state stands for: `level` cells starting at the read pointer, in linear order modulo the capacity -/
def abs (c : Cfg) (s : State) : List Nat :=
  (List.range s.level).map fun j => cellLin c s.mem ((lin c s.ridx + j) % c.cap)

@[simp] theorem abs_length (c : Cfg) (s : State) : (abs c s).length = s.level := by simp [abs]

theorem abs_getElem? (c : Cfg) (s : State) {j : Nat} (hj : j < s.level) :
    (abs c s)[j]? = some (cellLin c s.mem ((lin c s.ridx + j) % c.cap)) := by
  simp [abs, List.getElem?_range hj]

theorem inv_init {c : Cfg} (h : c.WF) : Inv c (init c) := by
  have hC := h.cols_pos
  have hR := h.rows_pos
  refine ⟨⟨hR, hC⟩, ⟨hR, hC⟩, Nat.zero_le _, ?_, ⟨by simp [init], ?_⟩, by simp [init], ?_⟩
  · simp [init, lin]
  · intro k hk
    simp [init, List.getD_eq_getElem?_getD, hk]
  · intro h0; simp [init] at h0

theorem abs_init (c : Cfg) : abs c (init c) = [] := by simp [abs, init]

theorem remaining_eq {c : Cfg} {s : State} (hl : s.level ≤ c.cap) : remaining c s = c.cap - s.level := by
  unfold remaining lvlBits
  have hb := lt_two_pow_bitsFor c.cap
  have e : c.cap + 2 ^ bitsFor c.cap - s.level = (c.cap - s.level) + 2 ^ bitsFor c.cap := by omega
  rw [e, Nat.add_mod_right, Nat.mod_eq_of_lt (by omega)]

theorem portAddr_lt {c : Cfg} (h : c.WF) {idx : Idx} (hi : idx.InRange c) (k : Nat) : portAddr c idx k < c.rows := by
  unfold portAddr
  split
  · exact hi.1
  · rw [modIncr_eq h.rows_pos hi.1]; exact incRow_lt hi.1

/-- transparent synchronous read port: the register gets the row as it is *after* this cycle's write -/
theorem rdAfter_eq {c : Cfg} (h : c.WF) {s : State} (i : In) (hw : s.widx.InRange c) (hs : Shape c s.mem)
    {k : Nat} (hk : k < c.cols) :
    rdAfter c s i k = cell (memAfter c s i) k (portAddr c (nextRidx c s i) k) := by
  unfold cell
  rw [getD_memAfter s i hk]
  unfold rdAfter colAfter
  cases hwa : i.write with
  | none => rfl
  | some a =>
    simp only
    by_cases h1 : (writeRuns c s i && (wEn c s a).getD k false) = true
    · rw [h1]
      simp only [Bool.true_and, if_true]
      rw [List.getD_eq_getElem?_getD (l := List.set _ _ _), List.getElem?_set]
      have hlt : portAddr c s.widx k < (s.mem.getD k []).length := by rw [hs.col k hk]; exact portAddr_lt h hw k
      by_cases h2 : portAddr c s.widx k = portAddr c (nextRidx c s i) k
      · rw [if_pos h2, if_pos hlt]; simp [h2]
      · rw [if_neg h2]; simp [h2, List.getD_eq_getElem?_getD]
    · have h1' : (writeRuns c s i && (wEn c s a).getD k false) = false := by simpa using h1
      rw [h1']; simp

theorem head_getElem? {c : Cfg} (h : c.WF) {s : State} (hI : Inv c s) (hl : 0 < s.level) {j : Nat} (hj : j < c.rw) :
    (head c s)[j]? = some (cellLin c s.mem ((lin c s.ridx + j) % c.cap)) := by
  have hrw := c.rw_le_cols
  have hjC : j < c.cols := by omega
  obtain ⟨p1, p2⟩ := pos_col_row h hI.ridx hjC
  have hk : (lin c s.ridx + j) % c.cap % c.cols < c.cols := Nat.mod_lt _ h.cols_pos
  have e := getD_rotRight 0 s.rd (off := s.ridx.col) (i := j) (by rw [hI.rdlen]; exact hjC)
  rw [hI.rdlen, ← p1, hI.rdval hl _ hk, ← p2] at e
  unfold head
  rw [List.getElem?_take, if_pos hj]
  have hlen : j < (rotRight 0 s.rd s.ridx.col).length := by simp [hI.rdlen]; exact hjC
  rw [List.getD_eq_getElem?_getD, List.getElem?_eq_getElem hlen] at e
  rw [List.getElem?_eq_getElem hlen]
  simp only [Option.getD_some] at e
  rw [e]; rfl

theorem head_length {c : Cfg} {s : State} (hI : Inv c s) : (head c s).length = c.rw := by
  have := c.rw_le_cols
  simp [head, hI.rdlen]; omega

/-- the first `n ≤ min(level, read_width)` words of `head` are the `n` oldest elements -/
theorem head_take {c : Cfg} (h : c.WF) {s : State} (hI : Inv c s) {n : Nat} (hn : n ≤ s.level) (hr : n ≤ c.rw) :
    (head c s).take n = (abs c s).take n := by
  apply List.ext_getElem?
  intro j
  rw [List.getElem?_take, List.getElem?_take]
  split
  · rw [head_getElem? h hI (by omega) (by omega), abs_getElem? c s (by omega)]
  · rfl

/-! ### one cycle -/

theorem step_noclear {c : Cfg} {s : State} {i : In} (hc : i.clear = false) :
    (step c s i).1 =
      { ridx := nextRidx c s i,
        widx := if writeRuns c s i then incrRowCol c s.widx (writeCount c s i) else s.widx,
        level := (s.level - readCount c s i + writeCount c s i) % 2 ^ lvlBits c,
        mem := memAfter c s i,
        rd := (List.range c.cols).map (rdAfter c s i) } := by
  simp [step, hc, memAfter]

theorem step_clear {c : Cfg} {s : State} {i : In} (hc : i.clear = true) :
    (step c s i).1 =
      { ridx := ⟨0, 0⟩, widx := ⟨0, 0⟩, level := 0, mem := memAfter c s i,
        rd := (List.range c.cols).map (rdAfter c s i) } := by
  simp [step, hc, memAfter]

/-- `read_count = min(count, level, read_width)` (0 if `read` is not called; if the queue is empty it is 0 anyway) -/
theorem readCount_eq (c : Cfg) (s : State) (i : In) :
    readCount c s i = match i.read with
      | some n => min n (min s.level c.rw)
      | none => 0 := by
  unfold readCount readReady readAvail
  cases i.read with
  | none => rfl
  | some n =>
    simp only
    by_cases h0 : s.level = 0
    · simp [h0]
    · have : (s.level != 0) = true := by simpa using h0
      rw [this]; simp only [if_true]
      split <;> split <;> omega

theorem readCount_le (c : Cfg) (s : State) (i : In) : readCount c s i ≤ s.level ∧ readCount c s i ≤ c.rw := by
  rw [readCount_eq]; split <;> omega

theorem incrRowCol_zero {c : Cfg} {idx : Idx} (h : idx.col < c.cols) : incrRowCol c idx 0 = idx := by
  unfold incrRowCol
  rw [if_neg (by omega)]
  cases idx; rfl

theorem nextRidx_eq {c : Cfg} {s : State} (i : In) (h : s.ridx.col < c.cols) :
    nextRidx c s i = incrRowCol c s.ridx (readCount c s i) := by
  unfold nextRidx
  by_cases hr : readRuns c s i = true
  · rw [if_pos hr]
  · rw [if_neg hr]
    have : readCount c s i = 0 := by
      unfold readRuns at hr
      unfold readCount
      cases hrd : i.read with
      | none => rfl
      | some n => simp [hrd] at hr; simp [hr]
    rw [this, incrRowCol_zero h]

theorem widx_next_eq {c : Cfg} {s : State} (i : In) (h : s.widx.col < c.cols) :
    (if writeRuns c s i then incrRowCol c s.widx (writeCount c s i) else s.widx)
      = incrRowCol c s.widx (writeCount c s i) := by
  by_cases hr : writeRuns c s i = true
  · rw [if_pos hr]
  · rw [if_neg hr, writeCount_of_not_runs (by simpa using hr), incrRowCol_zero h]

/-- an executed write fits: `write_count ≤ remaining` and `write_count ≤ write_width` -/
theorem writeCount_le {c : Cfg} {s : State} {i : In} (hi : i.WF c) (hl : s.level ≤ c.cap) :
    writeCount c s i ≤ c.cap - s.level ∧ writeCount c s i ≤ c.ww ∧ writeCount c s i ≤ i.wdata.length := by
  by_cases hrun : writeRuns c s i = true
  · cases hwa : i.write with
    | none => simp [writeRuns, hwa] at hrun
    | some a =>
      obtain ⟨hlen, hcnt, hmax⟩ := hi a hwa
      have hwc : writeCount c s i = a.count := by simp [writeCount, hwa, hrun]
      have hwd : i.wdata = a.data := by simp [In.wdata, hwa]
      rw [hwc, hwd, hlen]
      refine ⟨?_, hcnt, hcnt⟩
      simp only [writeRuns, hwa, writeValid, Bool.and_eq_true, decide_eq_true_eq] at hrun
      have hv := hrun.2
      rw [remaining_eq hl] at hv
      by_cases hm : c.useMax = true
      · rw [if_pos hm] at hv; have := hmax hm; omega
      · rw [if_neg hm] at hv; exact hv
  · rw [writeCount_of_not_runs (by simpa using hrun)]; omega

theorem step_inv {c : Cfg} (h : c.WF) {s : State} {i : In} (hI : Inv c s) (hi : i.WF c) : Inv c (step c s i).1 := by
  have hshape := shape_memAfter i hI.shape
  have hrd : ∀ k, k < c.cols → ((List.range c.cols).map (rdAfter c s i)).getD k 0 = rdAfter c s i k := by
    intro k hk; simp [List.getD_eq_getElem?_getD, List.getElem?_range hk]
  by_cases hc : i.clear = true
  · rw [step_clear hc]
    refine ⟨⟨h.rows_pos, h.cols_pos⟩, ⟨h.rows_pos, h.cols_pos⟩, Nat.zero_le _, ?_, hshape, by simp, ?_⟩
    · simp [lin]
    · intro h0; simp at h0
  · have hc' : i.clear = false := by simpa using hc
    obtain ⟨r1, r2⟩ := readCount_le c s i
    obtain ⟨w1, w2, _⟩ := writeCount_le hi hI.lvl
    have hrw := c.rw_le_cols
    have hww := c.ww_le_cols
    obtain ⟨ri, rl⟩ := lin_incrRowCol h hI.ridx (n := readCount c s i) (by omega)
    obtain ⟨wi, wl⟩ := lin_incrRowCol h hI.widx (n := writeCount c s i) (by omega)
    have hb := lt_two_pow_bitsFor c.cap
    have hlv := hI.lvl
    rw [step_noclear hc', widx_next_eq i hI.widx.2]
    have hlev : (s.level - readCount c s i + writeCount c s i) % 2 ^ lvlBits c
        = s.level - readCount c s i + writeCount c s i := Nat.mod_eq_of_lt (by unfold lvlBits; omega)
    refine ⟨?_, wi, ?_, ?_, hshape, by simp, ?_⟩
    · rw [nextRidx_eq i hI.ridx.2]; exact ri
    · simp only [hlev]; omega
    · simp only [hlev]
      rw [nextRidx_eq i hI.ridx.2, wl, rl, hI.ptr, Nat.mod_add_mod, Nat.mod_add_mod]
      congr 1; omega
    · intro _ k hk
      simp only
      rw [hrd k hk, rdAfter_eq h i hI.widx hI.shape hk]

/-! ### the abstraction commutes with a cycle -/

/-- contents, after the edge, of the cell `rc + j` places after the old read pointer: an old element that is
    still queued, or one of the words written in this cycle -/
theorem cell_next {c : Cfg} (h : c.WF) {s : State} {i : In} (hI : Inv c s) (hi : i.WF c) {j : Nat}
    (hj : j < s.level - readCount c s i + writeCount c s i) :
    cellLin c (memAfter c s i) ((lin c s.ridx + (readCount c s i + j)) % c.cap) =
      if j < s.level - readCount c s i
      then cellLin c s.mem ((lin c s.ridx + (readCount c s i + j)) % c.cap)
      else i.wdata.getD (j - (s.level - readCount c s i)) 0 := by
  obtain ⟨r1, r2⟩ := readCount_le c s i
  obtain ⟨w1, w2, _⟩ := writeCount_le hi hI.lvl
  have hlv := hI.lvl
  have hcap := h.cap_pos
  by_cases hlt : j < s.level - readCount c s i
  · rw [if_pos hlt]
    have e : (lin c s.ridx + (readCount c s i + j)) % c.cap
        = (lin c s.widx + (c.cap - s.level + readCount c s i + j)) % c.cap := by
      rw [hI.ptr, Nat.mod_add_mod]
      have : lin c s.ridx + s.level + (c.cap - s.level + readCount c s i + j)
          = lin c s.ridx + (readCount c s i + j) + c.cap := by omega
      rw [this, Nat.add_mod_right]
    rw [e, cellLin_memAfter h hi hI.widx hI.shape (by omega), if_neg (by omega)]
  · rw [if_neg hlt]
    have e : (lin c s.ridx + (readCount c s i + j)) % c.cap
        = (lin c s.widx + (j - (s.level - readCount c s i))) % c.cap := by
      rw [hI.ptr, Nat.mod_add_mod]
      congr 1; omega
    rw [e, cellLin_memAfter h hi hI.widx hI.shape (by omega), if_pos (by omega)]

theorem step_abs {c : Cfg} (h : c.WF) {s : State} {i : In} (hI : Inv c s) (hi : i.WF c) :
    abs c (step c s i).1 =
      if i.clear then [] else (abs c s).drop (readCount c s i) ++ i.wdata.take (writeCount c s i) := by
  by_cases hc : i.clear = true
  · rw [step_clear hc, if_pos hc]; simp [abs]
  · have hc' : i.clear = false := by simpa using hc
    rw [if_neg hc]
    obtain ⟨r1, r2⟩ := readCount_le c s i
    obtain ⟨w1, w2, w3⟩ := writeCount_le hi hI.lvl
    have hlv := hI.lvl
    have hrw := c.rw_le_cols
    have hb := lt_two_pow_bitsFor c.cap
    obtain ⟨_, rl⟩ := lin_incrRowCol h hI.ridx (n := readCount c s i) (by omega)
    have hlev : (s.level - readCount c s i + writeCount c s i) % 2 ^ lvlBits c
        = s.level - readCount c s i + writeCount c s i := Nat.mod_eq_of_lt (by unfold lvlBits; omega)
    rw [step_noclear hc']
    unfold abs
    simp only [hlev]
    rw [nextRidx_eq i hI.ridx.2, rl]
    apply List.ext_getElem?
    intro j
    rw [List.getElem?_map, List.getElem?_append, List.getElem?_drop, List.getElem?_take]
    simp only [List.length_drop, List.length_map, List.length_range]
    by_cases hj : j < s.level - readCount c s i + writeCount c s i
    · rw [List.getElem?_range hj]
      simp only [Option.map_some]
      rw [Nat.mod_add_mod, Nat.add_assoc, cell_next h hI hi hj]
      split
      · rw [List.getElem?_map, List.getElem?_range (by omega)]; rfl
      · rw [if_pos (by omega), List.getD_eq_getElem?_getD, List.getElem?_eq_getElem (by omega)]; rfl
    · have : (List.range (s.level - readCount c s i + writeCount c s i))[j]? = none := by
        rw [List.getElem?_eq_none_iff]; simp; omega
      rw [this, if_neg (by omega), if_neg (by omega)]; rfl

/-! ### the specification side -/

/-- the elements a `read`/`peek` result stands for: the first `count` data words -/
def RRes.elems (r : RRes) : List Nat := r.data.take r.count

/-- what a cycle's outputs say in terms of the queue specification -/
def Out.abs (o : Out) : Spec.Out :=
  { read := o.read.map RRes.elems, peek := o.peek.map RRes.elems, write := o.write, clear := o.clear }

theorem spec_writeRuns {c : Cfg} (h : c.WF) {s : State} (hI : Inv c s) (i : In) :
    Spec.writeRuns c (abs c s) i = writeRuns c s i := by
  unfold Spec.writeRuns writeRuns writeReady writeValid Spec.remaining
  rw [remaining_eq hI.lvl, abs_length, h.cap_eq]

theorem spec_readN (c : Cfg) (s : State) (i : In) : Spec.readN c (abs c s) i = readCount c s i := by
  rw [readCount_eq]
  unfold Spec.readN
  cases i.read <;> simp

theorem spec_written {c : Cfg} (h : c.WF) {s : State} (hI : Inv c s) (i : In) :
    Spec.written c (abs c s) i = i.wdata.take (writeCount c s i) := by
  unfold Spec.written In.wdata writeCount
  rw [spec_writeRuns h hI]
  cases hw : i.write with
  | none => simp
  | some a =>
    simp only
    by_cases hr : writeRuns c s i = true
    · simp [hr]
    · simp [hr]

theorem spec_step_state {c : Cfg} (h : c.WF) {s : State} (hI : Inv c s) (i : In) :
    (Spec.step c (abs c s) i).1 =
      if i.clear then [] else (abs c s).drop (readCount c s i) ++ i.wdata.take (writeCount c s i) := by
  unfold Spec.step
  simp only [spec_readN, spec_written h hI]

theorem isEmpty_abs (c : Cfg) (s : State) : (abs c s).isEmpty = (s.level == 0) := by
  have := abs_length c s
  cases hq : abs c s <;> rw [hq] at this <;> simp at this <;> simp [← this]

theorem step_out {c : Cfg} (h : c.WF) {s : State} {i : In} (hI : Inv c s) :
    (step c s i).2.abs = (Spec.step c (abs c s) i).2 := by
  have hr : (step c s i).2.abs.read = (Spec.step c (abs c s) i).2.read := by
    simp only [step, Spec.step, Out.abs, spec_readN]
    unfold readRuns readReady
    by_cases h0 : s.level = 0
    · simp [h0, isEmpty_abs]
    · have hl : 0 < s.level := by omega
      obtain ⟨r1, r2⟩ := readCount_le c s i
      cases hrd : i.read with
      | none => simp
      | some n => simp [h0, isEmpty_abs, RRes.elems, head_take h hI r1 r2]
  have hp : (step c s i).2.abs.peek = (Spec.step c (abs c s) i).2.peek := by
    simp only [step, Spec.step, Out.abs]
    unfold peekRuns peekReady
    by_cases h0 : s.level = 0
    · simp [h0, isEmpty_abs]
    · have hl : 0 < s.level := by omega
      cases hpk : i.peek with
      | false => simp
      | true =>
        have e : (head c s).take (readAvail c s) = (abs c s).take c.rw := by
          unfold readAvail
          split
          · rw [head_take h hI (by omega) (Nat.le_refl _)]
          · rw [head_take h hI (Nat.le_refl _) (by omega)]
            rw [List.take_of_length_le (by simp), List.take_of_length_le (by simp; omega)]
        simp [h0, isEmpty_abs, RRes.elems, e]
  have hw : (step c s i).2.abs.write = (Spec.step c (abs c s) i).2.write := by
    simp only [step, Spec.step, Out.abs, spec_writeRuns h hI]
  have hcl : (step c s i).2.abs.clear = (Spec.step c (abs c s) i).2.clear := by
    simp only [step, Spec.step, Out.abs]
  cases h1 : (step c s i).2.abs
  cases h2 : (Spec.step c (abs c s) i).2
  rw [h1, h2] at hr hp hw hcl
  simp only at hr hp hw hcl
  rw [hr, hp, hw, hcl]

/-! ### histories -/

theorem run_refines {c : Cfg} (h : c.WF) (is : List In) :
    ∀ {s : State}, Inv c s → (∀ i ∈ is, i.WF c) →
      Inv c (run c s is).1 ∧
      abs c (run c s is).1 = (Spec.run c (abs c s) is).1 ∧
      (run c s is).2.map Out.abs = (Spec.run c (abs c s) is).2 := by
  induction is with
  | nil => intro s hI _; exact ⟨hI, rfl, rfl⟩
  | cons i is ih =>
    intro s hI hwf
    have hi : i.WF c := hwf i (by simp)
    have hI' := step_inv h hI hi
    have habs : abs c (step c s i).1 = (Spec.step c (abs c s) i).1 := by
      rw [step_abs h hI hi, spec_step_state h hI]
    obtain ⟨a, b, d⟩ := ih hI' (fun x hx => hwf x (by simp [hx]))
    simp only [run, Spec.run]
    rw [← habs, ← step_out h hI]
    exact ⟨a, b, by simp [d]⟩

/-! ### reachable states, decidable input check, queue order at the level of the specification -/

/-- states the component can be in: reached from reset by a history of well-formed inputs -/
def Reachable (c : Cfg) (s : State) : Prop :=
  ∃ is : List In, (∀ i ∈ is, i.WF c) ∧ s = (run c (init c) is).1

theorem Reachable.inv {c : Cfg} (h : c.WF) {s : State} (hs : Reachable c s) : Inv c s := by
  obtain ⟨is, hwf, rfl⟩ := hs
  exact (run_refines h is (inv_init h) hwf).1

theorem run_append (c : Cfg) (s : State) (is js : List In) :
    (run c s (is ++ js)).1 = (run c (run c s is).1 js).1 := by
  induction is generalizing s with
  | nil => rfl
  | cons i is ih => simp only [List.cons_append, run]; exact ih _

theorem Reachable.step {c : Cfg} {s : State} (hs : Reachable c s) {i : In} (hi : i.WF c) :
    Reachable c (step c s i).1 := by
  obtain ⟨is, hwf, rfl⟩ := hs
  refine ⟨is ++ [i], ?_, ?_⟩
  · intro x hx
    rcases List.mem_append.1 hx with hx | hx
    · exact hwf x hx
    · simp at hx; subst hx; exact hi
  · rw [run_append]; rfl

/-- executable form of `In.WF` -/
def In.wfb (c : Cfg) (i : In) : Bool :=
  match i.write with
  | some a => a.data.length == c.ww && decide (a.count ≤ c.ww) && (!c.useMax || decide (a.count ≤ a.maxCount))
  | none => true

theorem In.WF_of_wfb {c : Cfg} {i : In} (h : i.wfb c = true) : i.WF c := by
  intro a ha
  unfold In.wfb at h
  rw [ha] at h
  simp only [Bool.and_eq_true, beq_iff_eq, decide_eq_true_eq, Bool.or_eq_true, Bool.not_eq_true'] at h
  refine ⟨h.1.1, h.1.2, ?_⟩
  intro hm
  rcases h.2 with h2 | h2
  · rw [hm] at h2; cases h2
  · exact h2

namespace Spec

/-- all elements returned by the executed reads of a history, in order -/
def reads : List Out → List Nat
  | [] => []
  | o :: os => o.read.getD [] ++ reads os

/-- all elements appended by the executed writes of a history, in order -/
def writes (c : Cfg) (q : List Nat) : List In → List Nat
  | [] => []
  | i :: is => written c q i ++ writes c (step c q i).1 is

/-- first in, first out: without `clear`, what was queued followed by what was written comes out in the same
    order — the elements read so far followed by the elements still queued -/
theorem fifo_order (c : Cfg) (is : List In) :
    ∀ q : List Nat, (∀ i ∈ is, i.clear = false) →
      reads (run c q is).2 ++ (run c q is).1 = q ++ writes c q is := by
  induction is with
  | nil => intro q _; simp [run, reads, writes]
  | cons i is ih =>
    intro q hc
    have hci : i.clear = false := hc i (by simp)
    have ih' := ih (step c q i).1 (fun x hx => hc x (by simp [hx]))
    simp only [run, reads, writes]
    rw [List.append_assoc, ih']
    have hq : (step c q i).1 = q.drop (readN c q i) ++ written c q i := by simp [step, hci]
    rw [hq]
    have hrd : (step c q i).2.read.getD [] = q.take (readN c q i) := by
      simp only [step]
      split
      · rfl
      · rename_i hne
        simp only [Bool.and_eq_true, Bool.not_eq_true', not_and, Bool.not_eq_false] at hne
        unfold readN
        cases hr : i.read with
        | none => simp
        | some n =>
          have := hne (by simp [hr])
          simp at this
          simp [this]
    rw [hrd]
    simp only [← List.append_assoc, List.take_append_drop]

end Spec

end TxV.WideFifo
