import TxV.Model.DepGraph
/-!
# C10 — helper lemmas: ranks, well-foundedness, the position bounds of a body's callers
-/
namespace TxV.DepGraph

/-! ## generic: a strictly decreasing rank makes a relation acyclic -/

/-- lexicographic order on triples -/
def lt3 (a b : Nat × Nat × Nat) : Prop :=
  a.1 < b.1 ∨ (a.1 = b.1 ∧ (a.2.1 < b.2.1 ∨ (a.2.1 = b.2.1 ∧ a.2.2 < b.2.2)))

theorem lt3_wf : WellFounded lt3 := by
  have h : WellFounded (Prod.Lex (· < ·) (Prod.Lex (· < ·) (· < ·)) : Nat × Nat × Nat → Nat × Nat × Nat → Prop) :=
    (Prod.lex Nat.lt_wfRel (Prod.lex Nat.lt_wfRel Nat.lt_wfRel)).wf
  refine Subrelation.wf ?_ h
  intro a b hab
  obtain ⟨a1, a2, a3⟩ := a
  obtain ⟨b1, b2, b3⟩ := b
  rcases hab with h1 | ⟨h1, h2 | ⟨h2, h3⟩⟩
  · exact Prod.Lex.left _ _ h1
  · simp only at h1 h2; subst h1; exact Prod.Lex.right _ (Prod.Lex.left _ _ h2)
  · simp only at h1 h2 h3; subst h1; subst h2; exact Prod.Lex.right _ (Prod.Lex.right _ h3)

theorem lt3_tier (a1 a2 a3 b1 b2 b3 : Nat) (h : a1 < b1) : lt3 (a1, a2, a3) (b1, b2, b3) := Or.inl h
theorem lt3_major (t a2 a3 b2 b3 : Nat) (h : a2 < b2) : lt3 (t, a2, a3) (t, b2, b3) := Or.inr ⟨rfl, Or.inl h⟩
theorem lt3_minor (t m a3 b3 : Nat) (h : a3 < b3) : lt3 (t, m, a3) (t, m, b3) := Or.inr ⟨rfl, Or.inr ⟨rfl, h⟩⟩
theorem lt3_le (t a2 a3 b2 b3 : Nat) (hle : a2 ≤ b2) (h : a3 < b3) : lt3 (t, a2, a3) (t, b2, b3) := by
  by_cases hlt : a2 < b2
  · exact lt3_major _ _ _ _ _ hlt
  · have : a2 = b2 := by omega
    subst this
    exact lt3_minor _ _ _ _ h

/-- a non-empty path `x → … → y` along `r` -/
inductive Path {α : Type} (r : α → α → Prop) : α → α → Prop where
  | single {a b : α} : r a b → Path r a b
  | cons {a b c : α} : r a b → Path r b c → Path r a c

/-- no node reaches itself -/
def Acyclic {α : Type} (r : α → α → Prop) : Prop := ∀ x, ¬ Path r x x

theorem Path.transGen {α : Type} {r : α → α → Prop} {a b : α} (h : Path r a b) :
    Relation.TransGen (fun y x => r x y) b a := by
  induction h with
  | single h => exact Relation.TransGen.single h
  | cons h _ ih => exact Relation.TransGen.tail ih h

theorem acyclic_of_wf {α : Type} {r : α → α → Prop} (h : WellFounded (fun y x => r x y)) : Acyclic r := by
  intro x hp
  have hw := h.transGen
  have : ∀ y, Acc (Relation.TransGen (fun y x => r x y)) y → ¬ Relation.TransGen (fun y x => r x y) y y := by
    intro y hy
    induction hy with
    | intro y _ ih => intro hyy; exact ih y hyy hyy
  exact this x (hw.apply x) hp.transGen

theorem wf_of_rank {α β : Type} (r : α → α → Prop) (f : α → β) (lt : β → β → Prop) (hwf : WellFounded lt)
    (h : ∀ x y, r x y → lt (f y) (f x)) : WellFounded (fun y x => r x y) :=
  Subrelation.wf (fun {a b} hab => h b a hab) (InvImage.wf f hwf)

/-- soundness of the executable certificate check -/
theorem certOk_sound (es : List (Node × Node)) (lv : Node → Nat) (h : certOk es lv = true) :
    WellFounded (fun y x => (x, y) ∈ es) := by
  refine wf_of_rank (fun x y => (x, y) ∈ es) lv (· < ·) Nat.lt_wfRel.wf ?_
  intro x y hxy
  have := List.all_eq_true.mp h (x, y) hxy
  simpa using this

/-! ## folds -/

theorem foldl_max_ge (l : List Nat) (a : Nat) : a ≤ l.foldl max a := by
  induction l generalizing a with
  | nil => simp
  | cons x xs ih => simp only [List.foldl_cons]; exact Nat.le_trans (Nat.le_max_left a x) (ih _)

theorem le_foldl_max (l : List Nat) (a x : Nat) (hx : x ∈ l) : x ≤ l.foldl max a := by
  induction l generalizing a with
  | nil => cases hx
  | cons y ys ih =>
    simp only [List.foldl_cons]
    rcases List.mem_cons.mp hx with h | h
    · subst h; exact Nat.le_trans (Nat.le_max_right a x) (foldl_max_ge ys _)
    · exact ih _ h

theorem foldl_max_lt (l : List Nat) (a n : Nat) (ha : a < n) (h : ∀ x ∈ l, x < n) : l.foldl max a < n := by
  induction l generalizing a with
  | nil => simpa
  | cons y ys ih =>
    simp only [List.foldl_cons]
    apply ih
    · have := h y (List.mem_cons_self ..); omega
    · intro x hx; exact h x (List.mem_cons_of_mem _ hx)

theorem foldl_min_le (l : List Nat) (a : Nat) : l.foldl min a ≤ a := by
  induction l generalizing a with
  | nil => simp
  | cons x xs ih => simp only [List.foldl_cons]; exact Nat.le_trans (ih _) (Nat.min_le_left a x)

theorem foldl_min_le_mem (l : List Nat) (a x : Nat) (hx : x ∈ l) : l.foldl min a ≤ x := by
  induction l generalizing a with
  | nil => cases hx
  | cons y ys ih =>
    simp only [List.foldl_cons]
    rcases List.mem_cons.mp hx with h | h
    · subst h; exact Nat.le_trans (foldl_min_le ys _) (Nat.min_le_right a x)
    · exact ih _ h

theorem lt_foldl_min (l : List Nat) (a n : Nat) (ha : n < a) (h : ∀ x ∈ l, n < x) : n < l.foldl min a := by
  induction l generalizing a with
  | nil => simpa
  | cons y ys ih =>
    simp only [List.foldl_cons]
    apply ih
    · have := h y (List.mem_cons_self ..); omega
    · intro x hx; exact h x (List.mem_cons_of_mem _ hx)

/-! ## position bounds of the callers of a body -/

namespace Design
variable (D : Design)

theorem foldMax_le {l : List Nat} {n : Nat} (h : ∀ x ∈ l, x ≤ n) : foldMax l ≤ n := by
  unfold foldMax
  have : ∀ (l : List Nat) (a : Nat), a ≤ n → (∀ x ∈ l, x ≤ n) → l.foldl max a ≤ n := by
    intro l
    induction l with
    | nil => intro a ha _; simpa using ha
    | cons y ys ih =>
      intro a ha h
      simp only [List.foldl_cons]
      apply ih
      · have := h y (List.mem_cons_self ..); omega
      · intro x hx; exact h x (List.mem_cons_of_mem _ hx)
  exact this l 0 (Nat.zero_le _) h

theorem pos_le_hi {b t : BodyId} (ht : t ∈ D.transFor b) : D.pos t ≤ D.hi b :=
  le_foldl_max _ _ _ (List.mem_map_of_mem ht)

theorem lo_le_pos {b t : BodyId} (ht : t ∈ D.transFor b) : D.lo b ≤ D.pos t :=
  foldl_min_le_mem _ _ _ (List.mem_map_of_mem ht)

theorem hi_lt {b : BodyId} {n : Nat} (hne : D.transFor b ≠ []) (h : ∀ t ∈ D.transFor b, D.pos t < n) :
    D.hi b < n := by
  unfold hi foldMax
  apply foldl_max_lt
  · cases hl : D.transFor b with
    | nil => exact absurd hl hne
    | cons t ts => have := h t (by rw [hl]; exact List.mem_cons_self ..); omega
  · intro x hx
    obtain ⟨t, ht, rfl⟩ := List.mem_map.mp hx
    exact h t ht

theorem lt_lo {b : BodyId} {n : Nat} (hn : n < D.order.length) (h : ∀ t ∈ D.transFor b, n < D.pos t) :
    n < D.lo b := by
  unfold lo foldMin
  apply lt_foldl_min _ _ _ hn
  intro x hx
  obtain ⟨t, ht, rfl⟩ := List.mem_map.mp hx
  exact h t ht

theorem transFor_sub_trans {b t : BodyId} (ht : t ∈ D.transFor b) : t ∈ D.trans := by
  unfold transFor at ht
  split at ht
  · rename_i hb
    simp only [List.mem_singleton] at ht
    subst ht
    simpa [isTrans] using hb
  · exact (List.mem_filter.mp ht).1

theorem transFor_self {t : BodyId} (ht : t ∈ D.trans) : D.transFor t = [t] := by
  unfold transFor
  have : D.isTrans t = true := by simpa [isTrans] using ht
  simp [this]

theorem mem_transFor_of_reach {t b : BodyId} (ht : t ∈ D.trans) (hb : b ∈ D.R t) (hnt : D.isTrans b = false) :
    t ∈ D.transFor b := by
  unfold transFor
  simp only [hnt, Bool.false_eq_true, if_false]
  exact List.mem_filter.mpr ⟨ht, by simpa using hb⟩

/-- `validOrder`: positions of transactions are inside the order -/
theorem pos_lt_length (hvo : D.validOrder = true) {t : BodyId} (ht : t ∈ D.trans) : D.pos t < D.order.length := by
  unfold validOrder at hvo
  simp only [Bool.and_eq_true, List.all_eq_true] at hvo
  have := hvo.1.2 t ht
  exact List.idxOf_lt_length_iff.mpr (by simpa using this)

/-- `validOrder`: a `schedule_before` relation orders every caller of its source before every caller of its target -/
theorem before_of_rel (hvo : D.validOrder = true) {r : Rel} (hr : r ∈ D.rels) (hc : r.conflict = false)
    (hp : r.prio = .left) {ta tb : BodyId} (ha : ta ∈ D.transFor r.src) (hb : tb ∈ D.transFor r.dst) :
    D.pos ta < D.pos tb := by
  unfold validOrder at hvo
  simp only [Bool.and_eq_true, List.all_eq_true] at hvo
  have hmem : (ta, tb) ∈ D.before := by
    unfold before
    refine List.mem_flatMap.mpr ⟨r, hr, List.mem_flatMap.mpr ⟨ta, ha, List.mem_filterMap.mpr ⟨tb, hb, ?_⟩⟩⟩
    simp [hc, hp]
  have := hvo.2 (ta, tb) hmem
  simpa using this


/-! ## run-derived enables -/

theorem hi_le_he {sid : SiteId} {d : BodyId} (h : (sid, d) ∈ D.enReads) : D.hi d ≤ D.he sid := by
  unfold he foldMax
  apply le_foldl_max
  exact List.mem_map.mpr ⟨(sid, d), List.mem_filter.mpr ⟨h, by simp⟩, rfl⟩

theorem he_le_heDown {sid : SiteId} {b : BodyId} (h : D.inDown sid b = true) : D.he sid ≤ D.heDown b := by
  unfold he
  apply foldMax_le
  intro x hx
  obtain ⟨p, hp, rfl⟩ := List.mem_map.mp hx
  obtain ⟨hpm, hps⟩ := List.mem_filter.mp hp
  have hps' : p.1 = sid := by simpa using hps
  unfold heDown foldMax
  apply le_foldl_max
  exact List.mem_map.mpr ⟨p, List.mem_filter.mpr ⟨hpm, by rw [hps']; exact h⟩, rfl⟩

theorem isDown_of_inDown {sid : SiteId} {b : BodyId} (hd : D.derived sid = true) (h : D.inDown sid b = true) :
    D.isDown b = true := by
  unfold derived at hd
  obtain ⟨p, hp, hps⟩ := List.any_eq_true.mp hd
  have hps' : p.1 = sid := by simpa using hps
  unfold isDown
  exact List.any_eq_true.mpr ⟨p, hp, by rw [hps']; exact h⟩

/-- a site on a chain to `m` has `m` downstream -/
theorem inDown_of_onChain {t m : BodyId} {s : Site} (hs : s ∈ D.sites) (h : D.onChain t s m = true) :
    D.inDown s.id m = true := by
  unfold onChain at h
  simp only [Bool.and_eq_true] at h
  unfold inDown
  exact List.any_eq_true.mpr ⟨s, hs, by simp only [beq_self_eq_true, Bool.true_and]; exact h.2⟩

/-! ## the rank -/

def dataRank (c : DataCert) (x : Node) : Nat × Nat × Nat :=
  if c.cl x then (0, c.dr x, 0) else (2, c.dr x, 0)

/-- tier 0: closed data; tier 1: control, ordered by position in `porder`; tier 2: data that depends on who runs.
Within tier 1: `ready b` at the earliest caller of `b`, `runnable t`, `run t` at the position of `t`,
`run m` at the latest caller of `m` — or, when `run m` reads a run-derived enable, at the latest caller of `m`
and of the sources of those enables; a derived enable at the latest caller of its sources; signals that read
nothing sit at the bottom. -/
def rank (c : DataCert) : Node → Nat × Nat × Nat
  | .ready b => if D.localReady b then (1, 0, 0) else (1, D.lo b, 1)
  | .runnable t => (1, D.pos t, 2)
  | .run b =>
    if D.isTrans b then (1, D.pos b, 3)
    else if (D.transFor b).isEmpty then (1, 0, 0)
    else if D.isDown b then (1, max (D.hi b) (D.heDown b), 6) else (1, D.hi b, 4)
  | .en s => if D.derived s then (1, D.he s, 5) else (1, 0, 0)
  | .arg s => dataRank c (.arg s)
  | .dataIn m => dataRank c (.dataIn m)
  | .dataOut m => dataRank c (.dataOut m)

theorem rank_of_isData (c : DataCert) {x : Node} (h : x.isData = true) : D.rank c x = dataRank c x := by
  cases x <;> simp [Node.isData] at h <;> rfl

theorem rank_run_tier (c : DataCert) (b : BodyId) : (D.rank c (.run b)).1 = 1 := by
  simp only [rank]
  split
  · rfl
  · split
    · rfl
    · split <;> rfl

theorem rank_en_tier (c : DataCert) (s : SiteId) : (D.rank c (.en s)).1 = 1 := by
  simp only [rank]
  split <;> rfl

/-- every `run` node is below `(1, n, k)` when its callers — and, if it runs through derived enables, the callers
of their sources — are all before position `n` -/
theorem rank_run_lt (c : DataCert) (b : BodyId) (n k : Nat)
    (h : ∀ t ∈ D.transFor b, D.pos t < n) (hd : D.isDown b = true → D.heDown b < n) :
    lt3 (D.rank c (.run b)) (1, n, k + 1) := by
  simp only [rank]
  split
  · rename_i hb
    have hb' : b ∈ D.trans := by simpa [isTrans] using hb
    have := h b (by rw [D.transFor_self hb']; exact List.mem_singleton.mpr rfl)
    exact lt3_major 1 _ _ _ _ this
  · split
    · exact lt3_le 1 0 0 n (k + 1) (Nat.zero_le _) (Nat.succ_pos k)
    · rename_i hne
      have hne' : D.transFor b ≠ [] := by simpa using hne
      have hhi := D.hi_lt hne' h
      split
      · rename_i hdn
        have := hd hdn
        exact lt3_major 1 _ _ _ _ (by omega)
      · exact lt3_major 1 _ _ _ _ hhi

theorem rank_ready_le (c : DataCert) (b : BodyId) (n k : Nat) (h : D.lo b ≤ n) (hk : 2 ≤ k) :
    lt3 (D.rank c (.ready b)) (1, n, k) := by
  simp only [rank]
  split
  · exact lt3_le 1 0 0 n k (Nat.zero_le _) (by omega)
  · exact lt3_le 1 _ 1 n k h (by omega)

/-! ## every edge decreases the rank -/

/-- the hypotheses of the C10 theorem -/
structure Hyp (c : DataCert) : Prop where
  wf : D.wf = true
  vo : D.validOrder = true
  rule : D.ruleReady = true
  rdwf : D.rdWf = true
  enok : D.enOk = true
  data : D.dataOk c = true

variable {D}

theorem Hyp.meth_not_trans {c : DataCert} (h : D.Hyp c) {m : Meth} (hm : m ∈ D.meths) : D.isTrans m.id = false := by
  have := h.wf
  unfold Design.wf at this
  simp only [Bool.and_eq_true, List.all_eq_true] at this
  simpa using this.1 m hm

theorem Hyp.reach_not_trans {c : DataCert} (h : D.Hyp c) {t b : BodyId} (ht : t ∈ D.trans) (hb : b ∈ D.R t) :
    D.isTrans b = false := by
  have := h.wf
  unfold Design.wf at this
  simp only [Bool.and_eq_true, List.all_eq_true] at this
  simpa using this.2 t ht b hb

theorem Hyp.mem_transFor {c : DataCert} (h : D.Hyp c) {t b : BodyId} (ht : t ∈ D.trans) (hb : b ∈ D.readyFor t) :
    t ∈ D.transFor b := by
  rcases List.mem_cons.mp hb with rfl | hb
  · rw [D.transFor_self ht]; exact List.mem_singleton.mpr rfl
  · exact D.mem_transFor_of_reach ht hb (h.reach_not_trans ht hb)

/-- the four parts of `enOk` -/
theorem Hyp.en_parts {c : DataCert} (h : D.Hyp c) :
    (∀ p ∈ D.enReads, D.isDown p.2 = false) ∧
    (∀ p ∈ D.readyReads, D.isDown p.2 = true → D.heDown p.2 < D.lo p.1) ∧
    (∀ r ∈ D.rels, r.readyDep = true → D.isDown r.src = true → D.heDown r.src < D.lo r.dst) ∧
    (∀ t ∈ D.trans, ∀ s ∈ D.valEn t, D.derived s.id = true → D.he s.id < D.pos t) := by
  have := h.enok
  unfold Design.enOk at this
  simp only [Bool.and_eq_true, List.all_eq_true] at this
  obtain ⟨⟨⟨h1, h2⟩, h3⟩, h4⟩ := this
  refine ⟨fun p hp => by simpa using h1 p hp, ?_, ?_, ?_⟩
  · intro p hp hd
    have := h2 p hp
    simpa [hd] using this
  · intro r hr hrd hd
    have := h3 r hr
    simpa [hrd, hd] using this
  · intro t ht s hs hd
    have := h4 t ht s hs
    simpa [hd] using this

theorem rank_run_trans (c : DataCert) {t : BodyId} (ht : t ∈ D.trans) : D.rank c (.run t) = (1, D.pos t, 3) := by
  have : D.isTrans t = true := by simpa [isTrans] using ht
  simp [rank, this]

theorem dec_runT {c : DataCert} (_h : D.Hyp c) {x y : Node} (he : (x, y) ∈ D.edgesRunT) :
    lt3 (D.rank c y) (D.rank c x) := by
  unfold edgesRunT at he
  obtain ⟨t, ht, he⟩ := List.mem_flatMap.mp he
  rcases List.mem_append.mp he with he | he
  · simp only [List.mem_cons, Prod.mk.injEq, List.not_mem_nil, or_false] at he
    rcases he with ⟨rfl, rfl⟩ | ⟨rfl, rfl⟩
    · rw [rank_run_trans c ht]
      exact D.rank_ready_le c t _ 3 (D.lo_le_pos (by rw [D.transFor_self ht]; exact List.mem_singleton.mpr rfl)) (by omega)
    · rw [rank_run_trans c ht]
      exact lt3_minor 1 (D.pos t) 2 3 (by decide)
  · obtain ⟨t', ht', hxy⟩ := List.mem_map.mp he
    obtain ⟨ht'm, hc⟩ := List.mem_filter.mp ht'
    simp only [Prod.mk.injEq] at hxy
    obtain ⟨rfl, rfl⟩ := hxy
    simp only [Bool.and_eq_true, decide_eq_true_eq] at hc
    rw [rank_run_trans c ht, rank_run_trans c ht'm]
    exact Or.inr ⟨rfl, Or.inl hc.2⟩

theorem dec_runnable {c : DataCert} (h : D.Hyp c) {x y : Node} (he : (x, y) ∈ D.edgesRunnable) :
    lt3 (D.rank c y) (D.rank c x) := by
  obtain ⟨_, _, hen3, hen4⟩ := h.en_parts
  unfold edgesRunnable at he
  obtain ⟨t, ht, he⟩ := List.mem_flatMap.mp he
  rcases List.mem_append.mp he with he | he
  · rcases List.mem_append.mp he with he | he
    · -- ready terms and ready dependencies
      obtain ⟨b, hb, he⟩ := List.mem_flatMap.mp he
      have htb := h.mem_transFor ht hb
      rcases List.mem_cons.mp he with he | he
      · simp only [Prod.mk.injEq] at he
        obtain ⟨rfl, rfl⟩ := he
        exact D.rank_ready_le c b _ 2 (D.lo_le_pos htb) (by omega)
      · obtain ⟨d, hd, hxy⟩ := List.mem_map.mp he
        simp only [Prod.mk.injEq] at hxy
        obtain ⟨rfl, rfl⟩ := hxy
        unfold readyDeps at hd
        obtain ⟨r, hr, rfl⟩ := List.mem_map.mp hd
        obtain ⟨hrm, hrc⟩ := List.mem_filter.mp hr
        simp only [Bool.and_eq_true, beq_iff_eq] at hrc
        have hw := h.rdwf
        unfold rdWf at hw
        have hw' := List.all_eq_true.mp hw r hrm
        simp only [hrc.1, Bool.not_true, Bool.false_or, Bool.and_eq_true, Bool.not_eq_true', beq_iff_eq] at hw'
        have hdst : r.dst = b := hrc.2
        have hlo : D.lo r.dst ≤ D.pos t := by rw [hdst]; exact D.lo_le_pos htb
        exact D.rank_run_lt c r.src (D.pos t) 1
          (fun ta hta => D.before_of_rel h.vo hrm hw'.1 hw'.2 hta (by rw [hdst]; exact htb))
          (fun hdn => Nat.lt_of_lt_of_le (hen3 r hrm hrc.1 hdn) hlo)
    · -- enables of validated chains: a plain enable reads nothing, a derived one has all its sources before `t`
      obtain ⟨s, hs, hxy⟩ := List.mem_map.mp he
      simp only [Prod.mk.injEq] at hxy
      obtain ⟨rfl, rfl⟩ := hxy
      simp only [rank]
      split
      · rename_i hd
        exact lt3_major 1 _ _ _ _ (hen4 t ht s hs hd)
      · exact lt3_le 1 0 0 (D.pos t) 2 (Nat.zero_le _) (by decide)
  · -- validated arguments are closed data
    have hd := h.data
    unfold dataOk at hd
    simp only [Bool.and_eq_true, List.all_eq_true] at hd
    have hcl := hd.2 (x, y) (by
      unfold edgesRunnable
      exact List.mem_flatMap.mpr ⟨t, ht, List.mem_append.mpr (Or.inr he)⟩)
    obtain ⟨s, _, hxy⟩ := List.mem_map.mp he
    simp only [Prod.mk.injEq] at hxy
    obtain ⟨rfl, rfl⟩ := hxy
    simp only [Node.isData, Bool.not_true, Bool.false_or] at hcl
    simp only [rank, dataRank, hcl, if_true]
    exact lt3_tier 0 _ _ 1 _ _ (by decide)

theorem dec_runM {c : DataCert} (h : D.Hyp c) {x y : Node} (he : (x, y) ∈ D.edgesRunM) :
    lt3 (D.rank c y) (D.rank c x) := by
  unfold edgesRunM at he
  obtain ⟨m, hm, he⟩ := List.mem_flatMap.mp he
  obtain ⟨t, ht, he⟩ := List.mem_flatMap.mp he
  have hnt := h.meth_not_trans hm
  have hne : (D.transFor m.id).isEmpty = false := by
    cases hl : D.transFor m.id with
    | nil => rw [hl] at ht; cases ht
    | cons _ _ => rfl
  have hrm : D.rank c (.run m.id) =
      if D.isDown m.id then (1, max (D.hi m.id) (D.heDown m.id), 6) else (1, D.hi m.id, 4) := by
    simp [rank, hnt, hne]
  rcases List.mem_cons.mp he with he | he
  · simp only [Prod.mk.injEq] at he
    obtain ⟨rfl, rfl⟩ := he
    rw [hrm, rank_run_trans c (D.transFor_sub_trans ht)]
    have := D.pos_le_hi ht
    split
    · exact lt3_le 1 _ 3 _ 6 (by omega) (by decide)
    · exact lt3_le 1 _ 3 _ 4 this (by decide)
  · obtain ⟨s, hs, hxy⟩ := List.mem_map.mp he
    simp only [Prod.mk.injEq] at hxy
    obtain ⟨rfl, rfl⟩ := hxy
    obtain ⟨hsm, hch⟩ := List.mem_filter.mp hs
    rw [hrm]
    simp only [rank]
    split
    · rename_i hder
      have hin := D.inDown_of_onChain hsm hch
      have hdn := D.isDown_of_inDown hder hin
      have hle := D.he_le_heDown hin
      rw [hdn]
      simp only [if_true]
      exact lt3_le 1 _ 5 _ 6 (by omega) (by decide)
    · split
      · exact lt3_le 1 0 0 _ 6 (Nat.zero_le _) (by decide)
      · exact lt3_le 1 0 0 _ 4 (Nat.zero_le _) (by decide)

theorem dec_dataIn {c : DataCert} (h : D.Hyp c) {x y : Node} (he : (x, y) ∈ D.edgesDataIn) :
    lt3 (D.rank c y) (D.rank c x) := by
  have hd := h.data
  unfold dataOk at hd
  simp only [Bool.and_eq_true, List.all_eq_true] at hd
  have hdr := hd.1.2 (x, y) he
  have hx : x.isData = true := by
    unfold edgesDataIn at he
    obtain ⟨m, _, he⟩ := List.mem_flatMap.mp he
    simp only at he
    split at he
    · cases he
    · obtain ⟨s, _, he⟩ := List.mem_flatMap.mp he
      rcases List.mem_cons.mp he with he | he
      · simp only [Prod.mk.injEq] at he; rw [he.1]; rfl
      · split at he
        · simp only [List.mem_cons, Prod.mk.injEq, List.not_mem_nil, or_false] at he
          rcases he with he | he <;> (rw [he.1]; rfl)
        · cases he
  have hytier : y.isData = false → (D.rank c y).1 = 1 := by
    unfold edgesDataIn at he
    obtain ⟨m, _, he⟩ := List.mem_flatMap.mp he
    simp only at he
    intro hy
    split at he
    · cases he
    · obtain ⟨s, _, he⟩ := List.mem_flatMap.mp he
      rcases List.mem_cons.mp he with he | he
      · simp only [Prod.mk.injEq] at he; rw [he.2] at hy; simp [Node.isData] at hy
      · split at he
        · simp only [List.mem_cons, Prod.mk.injEq, List.not_mem_nil, or_false] at he
          rcases he with he | he
          · rw [he.2]; exact D.rank_run_tier c _
          · rw [he.2]; exact D.rank_en_tier c _
        · cases he
  simp only at hdr
  rw [D.rank_of_isData c hx]
  cases hy : y.isData
  · -- a control signal read by the argument multiplexer: `x` is not closed
    simp only [hy, Bool.false_eq_true, if_false, Bool.not_eq_true'] at hdr
    have h1 := hytier hy
    unfold dataRank
    simp only [hdr, Bool.false_eq_true, if_false]
    exact Or.inl (by rw [h1]; exact (by decide : 1 < 2))
  · simp only [hy, if_true, Bool.and_eq_true, decide_eq_true_eq, Bool.or_eq_true, Bool.not_eq_true'] at hdr
    rw [D.rank_of_isData c hy]
    unfold dataRank
    obtain ⟨hlt, hcl⟩ := hdr
    cases hcx : c.cl x <;> cases hcy : c.cl y <;> simp only [if_true, Bool.false_eq_true, if_false]
    · exact lt3_major 2 _ _ _ _ hlt
    · exact lt3_tier 0 _ _ 2 _ _ (by decide)
    · rcases hcl with hcl | hcl <;> simp_all
    · exact lt3_major 0 _ _ _ _ hlt

theorem dec_user {c : DataCert} (h : D.Hyp c) {x y : Node} (he : (x, y) ∈ D.edgesUser) :
    lt3 (D.rank c y) (D.rank c x) := by
  obtain ⟨hen1, hen2, _, _⟩ := h.en_parts
  unfold edgesUser at he
  have hrule := h.rule
  unfold ruleReady at hrule
  simp only [Bool.and_eq_true, List.all_eq_true] at hrule
  rcases List.mem_append.mp he with he | he
  · rcases List.mem_append.mp he with he | he
    · rcases List.mem_append.mp he with he | he
      · -- ready b reads run b', with b' scheduled before b
        obtain ⟨p, hp, hxy⟩ := List.mem_map.mp he
        simp only [Prod.mk.injEq] at hxy
        obtain ⟨rfl, rfl⟩ := hxy
        have hsb := hrule.1 p hp
        unfold schedBefore at hsb
        obtain ⟨r, hr, hrc⟩ := List.any_eq_true.mp hsb
        simp only [Bool.and_eq_true, beq_iff_eq, Bool.not_eq_true'] at hrc
        obtain ⟨⟨⟨hsrc, hdst⟩, hconf⟩, hprio⟩ := hrc
        have hnl : D.localReady p.1 = false := by
          unfold localReady
          have : (D.readyReads.any fun q => q.1 == p.1) = true :=
            List.any_eq_true.mpr ⟨p, hp, by simp⟩
          simp [this]
        have hry : D.rank c (.ready p.1) = (1, D.lo p.1, 1) := by simp [rank, hnl]
        rw [hry]
        apply D.rank_run_lt c p.2 (D.lo p.1) 0
        · intro ta hta
          have hta' : ta ∈ D.transFor r.src := by rw [hsrc]; exact hta
          apply D.lt_lo (D.pos_lt_length h.vo (D.transFor_sub_trans hta))
          intro tb htb
          exact D.before_of_rel h.vo hr hconf hprio hta' (by rw [hdst]; exact htb)
        · exact hen2 p hp
      · -- ready b reads the purely local ready b'
        obtain ⟨p, hp, hxy⟩ := List.mem_map.mp he
        simp only [Prod.mk.injEq] at hxy
        obtain ⟨rfl, rfl⟩ := hxy
        have hloc := hrule.2 p hp
        have hnl : D.localReady p.1 = false := by
          unfold localReady
          have : (D.readyLocal.any fun q => q.1 == p.1) = true :=
            List.any_eq_true.mpr ⟨p, hp, by simp⟩
          simp [this]
        simp only [rank, hloc, hnl, if_true, Bool.false_eq_true, if_false]
        exact lt3_le 1 0 0 _ 1 (Nat.zero_le _) (by decide)
    · -- a derived enable reads run d: d does not run through a derived enable itself
      obtain ⟨p, hp, hxy⟩ := List.mem_map.mp he
      simp only [Prod.mk.injEq] at hxy
      obtain ⟨rfl, rfl⟩ := hxy
      have hder : D.derived p.1 = true := by
        unfold derived
        exact List.any_eq_true.mpr ⟨p, hp, by simp⟩
      have hnd := hen1 p hp
      have hle : D.hi p.2 ≤ D.he p.1 := D.hi_le_he (by cases p; exact hp)
      simp only [rank, hder, hnd, if_true, Bool.false_eq_true, if_false]
      split
      · rename_i hb
        have hb' : p.2 ∈ D.trans := by simpa [isTrans] using hb
        have : D.pos p.2 ≤ D.hi p.2 := D.pos_le_hi (by rw [D.transFor_self hb']; exact List.mem_singleton.mpr rfl)
        exact lt3_le 1 _ 3 _ 5 (by omega) (by decide)
      · split
        · exact lt3_le 1 0 0 _ 5 (Nat.zero_le _) (by decide)
        · exact lt3_le 1 _ 4 _ 5 hle (by decide)
  · -- user data flow
    have hd := h.data
    unfold dataOk at hd
    simp only [Bool.and_eq_true, List.all_eq_true] at hd
    have hxy := hd.1.1 (x, y) he
    simp only [decide_eq_true_eq, Bool.or_eq_true, Bool.not_eq_true'] at hxy
    obtain ⟨⟨⟨⟨hdx, hdy⟩, _⟩, hdr⟩, hcl⟩ := hxy
    rw [D.rank_of_isData c hdx, D.rank_of_isData c hdy]
    unfold dataRank
    cases hcx : c.cl x <;> cases hcy : c.cl y <;> simp only [if_true, Bool.false_eq_true, if_false]
    · exact lt3_major 2 _ _ _ _ hdr
    · exact lt3_tier 0 _ _ 2 _ _ (by decide)
    · rcases hcl with hcl | hcl <;> simp_all
    · exact lt3_major 0 _ _ _ _ hdr

theorem dec_edges {c : DataCert} (h : D.Hyp c) {x y : Node} (he : (x, y) ∈ D.edges) :
    lt3 (D.rank c y) (D.rank c x) := by
  unfold edges at he
  simp only [List.mem_append] at he
  rcases he with (((he | he) | he) | he) | he
  · exact dec_runT h he
  · exact dec_runnable h he
  · exact dec_runM h he
  · exact dec_dataIn h he
  · exact dec_user h he

/-- without run-derived enables the side condition is void -/
theorem enOk_of_noen (h : D.enReads = []) : D.enOk = true := by
  unfold enOk derived isDown
  simp [h]

end Design
end TxV.DepGraph
