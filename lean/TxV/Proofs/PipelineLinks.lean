import TxV.Proofs.Pipeline
import TxV.Proofs.Pipe
import TxV.Proofs.BasicFifo
/-!
C28: the links of the specification automaton are refined by the component models of the real
forwarders — `Pipe` (C17, Model/Pipe.lean) for the capacity-1 link and for the decoupling pipe of
a `no_dependency` node, `BasicFifo` (C14, Model/BasicFifo.lean) for the capacity-`d` link.

The component models carry flattened data (`Nat`); records are tied to them by a codec
(`enc`/`dec` with `dec (enc r) = r`: flattening a layout is injective).  `cstepNodes` is the
lock-step product: every link is one component model instance, driven in each cycle by what the
automaton's label says about the two stages next to it (`write` attempted by the stage in front
with the record it produces, `read` attempted by the stage behind, `clear` by the pipeline's
`clear`); the data a stage consumes is what the component's `read` returns.
-/
namespace TxV.Pipeline

structure Codec where
  enc : Rec → Nat
  dec : Nat → Rec
  dec_enc : ∀ r, dec (enc r) = r

/-- one forwarder instance: `Pipe` or `BasicFifo(depth = cap)` -/
inductive LinkSt
  | pipe (s : Pipe.State)
  | fifo (s : BasicFifo.State)

structure CNodeSt where
  link : LinkSt         -- the forwarder in front of the node (pipeline.py:523)
  dcp : Pipe.State      -- the decoupling Pipe of a no_dependency node (pipeline.py:508)

/-- one cycle of a `Pipe` component: (state, executed write, executed read) -/
def pipeStep (s : Pipe.State) (w : Option Nat) (r c : Bool) : Pipe.State × Option Nat × Option Nat :=
  let p := Pipe.step s { w := w, r := r, p := false, c := c }
  (p.1, p.2.wr, p.2.rd)

def linkStep (d : Nat) (l : LinkSt) (w : Option Nat) (r c : Bool) : LinkSt × Option Nat × Option Nat :=
  match l with
  | .pipe s => let p := pipeStep s w r c; (.pipe p.1, p.2.1, p.2.2)
  | .fifo s =>
    let p := BasicFifo.step d s { w := w, r := r, p := false, c := c }
    (.fifo p.1, p.2.wr, p.2.rd)

def pipeAbs (C : Codec) (s : Pipe.State) : List Rec := (Pipe.abs s).map C.dec

def linkAbs (C : Codec) (d : Nat) : LinkSt → List Rec
  | .pipe s => pipeAbs C s
  | .fifo s => (BasicFifo.abs d s).map C.dec

/-- the component instance matches the node's static description -/
def LinkOk (nd : Node) : LinkSt → Prop
  | .pipe _ => nd.isPipe = true ∧ nd.cap = 1
  | .fifo s => nd.isPipe = false ∧ BasicFifo.Inv nd.cap s

/-- the automaton's room condition for a link with content `q` whose reader runs iff `r` -/
def room (nd : Node) (q : List Rec) (r : Bool) : Bool := decide (q.length < nd.cap) || (nd.isPipe && r)

/-- `Pipe` implements the capacity-1 link with "room also if its reader runs", clear wins -/
theorem pipe_refines (C : Codec) (s : Pipe.State) (w : Option Rec) (r c : Bool) :
    let q := pipeAbs C s
    let res := pipeStep s (w.map C.enc) r c
    (res.2.1.isNone = (w.isNone || !(decide (q.length < 1) || r))) ∧
    (res.2.2.map C.dec = if r then q.head? else none) ∧
    (pipeAbs C res.1 = if c then [] else
      (if r then q.tail else q) ++ (if decide (q.length < 1) || r then w.toList else [])) := by
  obtain ⟨reg, valid⟩ := s
  cases valid <;> cases w <;> cases r <;> cases c <;>
    simp [pipeStep, Pipe.step, pipeAbs, Pipe.abs, C.dec_enc]

/-- the bounded-queue specification of C14 on decoded contents -/
theorem spec_decoded (C : Codec) (d : Nat) (A : List Nat) (hle : A.length ≤ d) (w : Option Rec) (r c : Bool) :
    let sp := BasicFifo.specStep d A { w := w.map C.enc, r := r, p := false, c := c }
    (sp.2.wr.isNone = (w.isNone || !decide ((A.map C.dec).length < d))) ∧
    (sp.2.rd.map C.dec = if r then (A.map C.dec).head? else none) ∧
    (sp.1.map C.dec = if c then [] else
      (if r then (A.map C.dec).tail else A.map C.dec) ++
        (if decide ((A.map C.dec).length < d) then w.toList else [])) := by
  have hb : (A.length != d) = decide (A.length < d) := by
    by_cases hl : A.length = d
    · simp [hl]
    · have : A.length < d := by omega
      simp [hl, this]
  have ht : (if (r && A.length != 0) = true then A.tail else A) = if r = true then A.tail else A := by
    cases r <;> cases A <;> simp
  have hh : (if (r && A.length != 0) = true then A.head? else none) = if r = true then A.head? else none := by
    cases r <;> cases A <;> simp
  have hw : ∀ b : Bool, (if b = true then w.map C.enc else none).toList.map C.dec = if b = true then w.toList else [] := by
    intro b; cases b <;> cases w <;> simp [C.dec_enc]
  simp only [BasicFifo.specStep, hb, ht, hh, List.length_map]
  refine ⟨?_, ?_, ?_⟩
  · cases w <;> cases decide (A.length < d) <;> simp
  · cases r <;> cases A <;> simp
  · cases c
    · simp only [Bool.false_eq_true, if_false, List.map_append, hw]
      cases r <;> simp
    · simp

/-- `BasicFifo(depth)` implements the capacity-`depth` link (room iff not full, pre-state), clear wins -/
theorem fifo_refines (C : Codec) (d : Nat) (s : BasicFifo.State) (h : BasicFifo.Inv d s)
    (w : Option Rec) (r c : Bool) :
    let q := (BasicFifo.abs d s).map C.dec
    let res := BasicFifo.step d s { w := w.map C.enc, r := r, p := false, c := c }
    (res.2.wr.isNone = (w.isNone || !decide (q.length < d))) ∧
    (res.2.rd.map C.dec = if r then q.head? else none) ∧
    ((BasicFifo.abs d res.1).map C.dec = if c then [] else
      (if r then q.tail else q) ++ (if decide (q.length < d) then w.toList else [])) ∧
    BasicFifo.Inv d res.1 := by
  intro q res
  obtain ⟨hinv, hout, habs⟩ := BasicFifo.refines h { w := w.map C.enc, r := r, p := false, c := c }
  have hle : (BasicFifo.abs d s).length ≤ d := by rw [BasicFifo.abs_length]; exact h.ha
  have hs := spec_decoded C d (BasicFifo.abs d s) hle w r c
  refine ⟨?_, ?_, ?_, hinv⟩
  · show (BasicFifo.step d s _).2.wr.isNone = _
    rw [hout]; exact hs.1
  · show (BasicFifo.step d s _).2.rd.map C.dec = _
    rw [hout]; exact hs.2.1
  · show (BasicFifo.abs d (BasicFifo.step d s _).1).map C.dec = _
    rw [habs]; exact hs.2.2

/-- either kind of forwarder implements the automaton's link of its node -/
theorem link_refines (C : Codec) (nd : Node) (l : LinkSt) (hok : LinkOk nd l) (w : Option Rec) (r c : Bool) :
    let q := linkAbs C nd.cap l
    let res := linkStep nd.cap l (w.map C.enc) r c
    (res.2.1.isNone = (w.isNone || !room nd q r)) ∧
    (res.2.2.map C.dec = if r then q.head? else none) ∧
    (linkAbs C nd.cap res.1 = if c then [] else
      (if r then q.tail else q) ++ (if room nd q r then w.toList else [])) ∧
    LinkOk nd res.1 := by
  cases l with
  | pipe s =>
    obtain ⟨hp, hc⟩ := hok
    have := pipe_refines C s w r c
    simp only [linkStep, linkAbs, room, hp, hc, Bool.true_and] at this ⊢
    exact ⟨this.1, this.2.1, this.2.2, ⟨hp, hc⟩⟩
  | fifo s =>
    obtain ⟨hp, hinv⟩ := hok
    have := fifo_refines C nd.cap s hinv w r c
    simp only [linkStep, linkAbs, room, hp, Bool.false_and, Bool.or_false] at this ⊢
    exact ⟨this.1, this.2.1, this.2.2.1, ⟨hp, this.2.2.2⟩⟩

/-! ### the lock-step product -/

/-- one cycle of the chain of component models, front to back (same shape as `stepNodes`):
    conditions and data are taken from what the components answer -/
def cstepNodes (C : Codec) (clear : Bool) (first : Bool) (pushed : Option Rec) :
    List Node → List CNodeSt → List Ev → Except String (List CNodeSt × List NodeOut)
  | [], [], [] => .ok ([], [])
  | nd :: nds, st :: sts, ev :: evs =>
    -- the forwarder in front: written by the previous stage, read by this stage's combiner
    let lk := linkStep nd.cap st.link (pushed.map C.enc) (ev.fire && !first) clear
    -- the decoupling pipe: written by the node's method, read by the combiner
    let ent := ev.entry.map nd.entryVal
    let dp := pipeStep st.dcp (ent.map C.enc) (ev.fire && nd.nodep) clear
    if pushed.isSome && lk.2.1.isNone then
      .error "previous combiner ran but the link has no room"
    else if ev.entry.isSome && !(nd.nodep && dp.2.1.isSome) then
      .error "decoupling pipe written but it has no room (or node is not no_dependency)"
    else
      -- the stage sees what the two `read`s returned
      match fireOf first nd { q := (lk.2.2.map C.dec).toList, nq := (dp.2.2.map C.dec).toList } ev with
      | .error e => .error e
      | .ok f =>
        match cstepNodes C clear false (f.map (·.out)) nds sts evs with
        | .error e => .error e
        | .ok (sts', outs) => .ok ({ link := lk.1, dcp := dp.1 } :: sts', { fired := f, ent := ent } :: outs)
  | _, _, _ => .error "label does not match the pipeline shape"

def cstep (C : Codec) (nodes : List Node) (cs : List CNodeSt) (l : Label) :
    Except String (List CNodeSt × List NodeOut) :=
  cstepNodes C l.clear true none nodes cs l.evs

def absNode (C : Codec) (nd : Node) (st : CNodeSt) : NodeSt :=
  { q := linkAbs C nd.cap st.link, nq := pipeAbs C st.dcp }

def absSt (C : Codec) : List Node → List CNodeSt → State
  | nd :: nds, st :: sts => absNode C nd st :: absSt C nds sts
  | _, _ => []

def AllOk : List Node → List CNodeSt → Prop
  | [], [] => True
  | nd :: nds, st :: sts => LinkOk nd st.link ∧ AllOk nds sts
  | _, _ => False

/-- the reset state of the components -/
def cinit (nodes : List Node) : List CNodeSt :=
  nodes.map fun nd =>
    { link := if nd.isPipe then .pipe Pipe.init else .fifo (BasicFifo.init nd.cap), dcp := Pipe.init }

/-- the builder only creates `Pipe`s (capacity 1) and `BasicFifo`s of positive depth -/
def WfNodes (nodes : List Node) : Prop := ∀ nd ∈ nodes, (nd.isPipe = true → nd.cap = 1) ∧ (nd.isPipe = false → 0 < nd.cap)

theorem fireOf_heads (first : Bool) (nd : Node) (q nq : List Rec) (ev : Ev) :
    fireOf first nd
        { q := (if (ev.fire && !first) = true then q.head? else none).toList
          nq := (if (ev.fire && nd.nodep) = true then nq.head? else none).toList } ev
      = fireOf first nd { q := q, nq := nq } ev := by
  unfold fireOf
  cases ev.fire <;> cases first <;> cases nd.nodep <;> simp

theorem fireOf_isSome {first : Bool} {nd : Node} {st : NodeSt} {ev : Ev} {f : Option Fired}
    (h : fireOf first nd st ev = .ok f) : f.isSome = ev.fire := by
  rcases fireOf_ok h with ⟨h1, h2⟩ | ⟨r, x, h1, h2, _⟩
  · simp [h1, h2]
  · simp [h1, h2]

/-- the product of component models, abstracted, is the automaton's chain step
    (`clear` is applied by the components themselves) -/
theorem cstepNodes_refines (C : Codec) (clear : Bool) (nodes : List Node) :
    ∀ (first : Bool) (pushed : Option Rec) (cs : List CNodeSt) (evs : List Ev),
      AllOk nodes cs → (first = true → pushed = none) →
      (cstepNodes C clear first pushed nodes cs evs).map (fun p => (absSt C nodes p.1, p.2))
        = (stepNodes first pushed nodes (absSt C nodes cs) evs).map
            (fun p => (if clear then init nodes else p.1, p.2)) ∧
      (∀ cs' outs, cstepNodes C clear first pushed nodes cs evs = .ok (cs', outs) → AllOk nodes cs') := by
  induction nodes with
  | nil =>
    intro first pushed cs evs hok _
    cases cs with
    | cons _ _ => simp [AllOk] at hok
    | nil =>
      cases evs with
      | nil =>
        refine ⟨?_, ?_⟩
        · cases clear <;> simp [cstepNodes, stepNodes, absSt, Except.map, init]
        · intro cs' outs h
          simp only [cstepNodes, Except.ok.injEq, Prod.mk.injEq] at h
          rw [← h.1]; trivial
      | cons e es => exact ⟨rfl, by intro _ _ h; simp [cstepNodes] at h⟩
  | cons nd nds ih =>
    intro first pushed cs evs hok hpf
    cases cs with
    | nil => simp [AllOk] at hok
    | cons st sts =>
      obtain ⟨hlk, hrest⟩ := hok
      cases evs with
      | nil => exact ⟨rfl, by intro _ _ h; simp [cstepNodes] at h⟩
      | cons ev evs =>
        have hL := link_refines C nd st.link hlk pushed (ev.fire && !first) clear
        have hP := pipe_refines C st.dcp (ev.entry.map nd.entryVal) (ev.fire && nd.nodep) clear
        obtain ⟨hL1, hL2, hL3, hL4⟩ := hL
        obtain ⟨hP1, hP2, hP3⟩ := hP
        -- the two enabledness conditions coincide
        have c1 : (pushed.isSome && (linkStep nd.cap st.link (pushed.map C.enc) (ev.fire && !first) clear).2.1.isNone)
            = (pushed.isSome && !(decide ((absNode C nd st).q.length < nd.cap) || (nd.isPipe && ev.fire))) := by
          show _ = (pushed.isSome && !(decide ((linkAbs C nd.cap st.link).length < nd.cap) || (nd.isPipe && ev.fire)))
          rw [hL1]
          cases hp : pushed with
          | none => simp
          | some p =>
            have hf : first = false := by
              cases hfi : first with
              | false => rfl
              | true => have := hpf hfi; rw [hp] at this; cases this
            simp [room, hf]
        have c2 : (ev.entry.isSome && !(nd.nodep &&
              (pipeStep st.dcp ((ev.entry.map nd.entryVal).map C.enc) (ev.fire && nd.nodep) clear).2.1.isSome))
            = (ev.entry.isSome && !(nd.nodep && ((absNode C nd st).nq.isEmpty || ev.fire))) := by
          show _ = (ev.entry.isSome && !(nd.nodep && ((pipeAbs C st.dcp).isEmpty || ev.fire)))
          have : (pipeStep st.dcp ((ev.entry.map nd.entryVal).map C.enc) (ev.fire && nd.nodep) clear).2.1.isSome
              = !(pipeStep st.dcp ((ev.entry.map nd.entryVal).map C.enc) (ev.fire && nd.nodep) clear).2.1.isNone := by
            cases (pipeStep st.dcp ((ev.entry.map nd.entryVal).map C.enc) (ev.fire && nd.nodep) clear).2.1 <;> rfl
          rw [this, hP1]
          cases ev.entry <;> cases nd.nodep <;> cases ev.fire <;> cases hq : pipeAbs C st.dcp <;> simp
        have hfo : fireOf first nd
              { q := ((linkStep nd.cap st.link (pushed.map C.enc) (ev.fire && !first) clear).2.2.map C.dec).toList
                nq := ((pipeStep st.dcp ((ev.entry.map nd.entryVal).map C.enc) (ev.fire && nd.nodep) clear).2.2.map C.dec).toList } ev
            = fireOf first nd (absNode C nd st) ev := by
          rw [hL2, hP2]; exact fireOf_heads first nd _ _ ev
        simp only [cstepNodes, stepNodes, absSt, c1, c2, hfo]
        by_cases hc1 : (pushed.isSome && !(decide ((absNode C nd st).q.length < nd.cap) || (nd.isPipe && ev.fire))) = true
        · simp only [hc1, Bool.false_eq_true, ↓reduceIte]; exact ⟨rfl, by intro _ _ h; cases h⟩
        · simp only [hc1, Bool.false_eq_true, ↓reduceIte]
          by_cases hc2 : (ev.entry.isSome && !(nd.nodep && ((absNode C nd st).nq.isEmpty || ev.fire))) = true
          · simp only [hc2, Bool.false_eq_true, ↓reduceIte]; exact ⟨rfl, by intro _ _ h; cases h⟩
          · simp only [hc2, Bool.false_eq_true, ↓reduceIte]
            cases hfire : fireOf first nd (absNode C nd st) ev with
            | error e => exact ⟨rfl, by intro _ _ h; cases h⟩
            | ok f =>
              simp only []
              obtain ⟨ih1, ih2⟩ := ih false (f.map (·.out)) sts evs hrest (by intro h; cases h)
              cases hR : cstepNodes C clear false (f.map (·.out)) nds sts evs with
              | error e =>
                cases hS : stepNodes false (f.map (·.out)) nds (absSt C nds sts) evs with
                | error e' => rw [hR, hS] at ih1; simp [Except.map] at ih1; subst ih1
                              exact ⟨rfl, by intro _ _ h; cases h⟩
                | ok p => rw [hR, hS] at ih1; simp [Except.map] at ih1
              | ok pr =>
                obtain ⟨sts', outs⟩ := pr
                cases hS : stepNodes false (f.map (·.out)) nds (absSt C nds sts) evs with
                | error e' => rw [hR, hS] at ih1; simp [Except.map] at ih1
                | ok p =>
                  obtain ⟨ss, os⟩ := p
                  rw [hR, hS] at ih1
                  simp only [Except.map, Except.ok.injEq, Prod.mk.injEq] at ih1
                  obtain ⟨e1, e2⟩ := ih1
                  refine ⟨?_, ?_⟩
                  · simp only [Except.map, Except.ok.injEq, Prod.mk.injEq, absSt, absNode]
                    refine ⟨?_, by rw [e2]⟩
                    have hfs := fireOf_isSome hfire
                    change (pushed.isSome && !(decide ((linkAbs C nd.cap st.link).length < nd.cap) || (nd.isPipe && ev.fire))) ≠ true at hc1
                    change (ev.entry.isSome && !(nd.nodep && ((pipeAbs C st.dcp).isEmpty || ev.fire))) ≠ true at hc2
                    -- room holds for what was pushed
                    have hroom : (if room nd (linkAbs C nd.cap st.link) (ev.fire && !first) = true then pushed.toList else [])
                        = pushed.toList := by
                      cases hp : pushed with
                      | none => simp
                      | some p =>
                        have hf : first = false := by
                          cases hfi : first with
                          | false => rfl
                          | true => have := hpf hfi; rw [hp] at this; cases this
                        simp only [hp, Option.isSome_some, Bool.true_and, Bool.not_eq_true'] at hc1
                        simp [room, hf] at hc1 ⊢
                        intro hx
                        have := hc1
                        simp [hx] at this
                        simp [this]
                    have hent : (if (decide ((pipeAbs C st.dcp).length < 1) || (ev.fire && nd.nodep)) = true
                          then (ev.entry.map nd.entryVal).toList else [])
                        = (ev.entry.map nd.entryVal).toList := by
                      cases he : ev.entry with
                      | none => simp
                      | some x =>
                        simp only [he, Option.isSome_some, Bool.true_and, Bool.not_eq_true'] at hc2
                        cases hn : nd.nodep <;> cases hfi : ev.fire <;> cases hq : pipeAbs C st.dcp <;>
                          simp [hn, hfi, hq] at hc2 ⊢
                    rw [hL3, hP3, hroom, hent, hfs]
                    cases clear
                    · simp only [Bool.false_eq_true, if_false, e1]
                    · simp only [if_true, init, List.map_cons] at e1 ⊢
                      rw [e1]
                  · intro cs' outs' h
                    simp only [Except.ok.injEq, Prod.mk.injEq] at h
                    rw [← h.1]
                    exact ⟨hL4, ih2 sts' outs hR⟩

theorem step_eq_map (nodes : List Node) (s : State) (l : Label) :
    step nodes s l = (stepNodes true none nodes s l.evs).map (fun p => (if l.clear then init nodes else p.1, p.2)) := by
  unfold step
  cases stepNodes true none nodes s l.evs with
  | error e => rfl
  | ok p => rfl

/-- one cycle of the product = one step of the automaton on the abstracted state -/
theorem cstep_refines (C : Codec) (nodes : List Node) (cs : List CNodeSt) (l : Label) (hok : AllOk nodes cs) :
    (cstep C nodes cs l).map (fun p => (absSt C nodes p.1, p.2)) = step nodes (absSt C nodes cs) l ∧
    (∀ cs' outs, cstep C nodes cs l = .ok (cs', outs) → AllOk nodes cs') := by
  rw [step_eq_map]
  exact cstepNodes_refines C l.clear nodes true none cs l.evs hok (fun _ => rfl)

theorem abs_cinit (C : Codec) (nodes : List Node) : absSt C nodes (cinit nodes) = init nodes := by
  induction nodes with
  | nil => rfl
  | cons nd nds ih =>
    simp only [cinit, List.map_cons, absSt, init] at ih ⊢
    rw [ih]
    cases nd.isPipe <;>
      simp [absNode, linkAbs, pipeAbs, Pipe.abs, Pipe.init, BasicFifo.abs_init]

theorem allOk_cinit (nodes : List Node) (hwf : WfNodes nodes) : AllOk nodes (cinit nodes) := by
  induction nodes with
  | nil => trivial
  | cons nd nds ih =>
    simp only [cinit, List.map_cons, AllOk]
    refine ⟨?_, ih (fun n hn => hwf n (by simp [hn]))⟩
    have h := hwf nd (by simp)
    cases hp : nd.isPipe
    · exact ⟨hp, BasicFifo.inv_init nd.cap (h.2 hp)⟩
    · exact ⟨hp, h.1 hp⟩

/-- the product along a schedule -/
def crun (C : Codec) (nodes : List Node) (cs : List CNodeSt) :
    List Label → Except String (List CNodeSt × List (List NodeOut))
  | [] => .ok (cs, [])
  | l :: ls =>
    match cstep C nodes cs l with
    | .error e => .error e
    | .ok (cs', o) =>
      match crun C nodes cs' ls with
      | .error e => .error e
      | .ok (cs'', os) => .ok (cs'', o :: os)

theorem crun_refines (C : Codec) (nodes : List Node) (ls : List Label) :
    ∀ (cs : List CNodeSt), AllOk nodes cs →
      (crun C nodes cs ls).map (fun p => (absSt C nodes p.1, p.2)) = run nodes (absSt C nodes cs) ls := by
  induction ls with
  | nil => intro cs _; rfl
  | cons l ls ih =>
    intro cs hok
    obtain ⟨h1, h2⟩ := cstep_refines C nodes cs l hok
    simp only [crun, run]
    cases hc : cstep C nodes cs l with
    | error e =>
      rw [hc] at h1
      simp only [Except.map] at h1
      rw [← h1]; rfl
    | ok p =>
      obtain ⟨cs', o⟩ := p
      rw [hc] at h1
      simp only [Except.map] at h1
      rw [← h1]
      have ih' := ih cs' (h2 cs' o hc)
      simp only []
      cases hr : crun C nodes cs' ls with
      | error e => rw [hr] at ih'; simp only [Except.map] at ih'; rw [← ih']; rfl
      | ok q =>
        obtain ⟨cs'', os⟩ := q
        rw [hr] at ih'; simp only [Except.map] at ih'; rw [← ih']; rfl

/-! ### a codec exists (non-vacuity of the `Codec` parameter) -/
namespace CodecImpl

def bitsToNat : List Bool → Nat
  | [] => 1
  | b :: bs => 2 * bitsToNat bs + b.toNat

theorem bitsToNat_pos (bs : List Bool) : 0 < bitsToNat bs := by
  induction bs with
  | nil => simp [bitsToNat]
  | cons b bs ih => simp [bitsToNat]; omega

def natToBits (fuel n : Nat) : List Bool :=
  match fuel with
  | 0 => []
  | fuel + 1 => if n ≤ 1 then [] else (n % 2 == 1) :: natToBits fuel (n / 2)

theorem natToBits_bitsToNat (bs : List Bool) (fuel : Nat) (h : bs.length ≤ fuel) :
    natToBits (fuel + 1) (bitsToNat bs) = bs := by
  induction bs generalizing fuel with
  | nil => simp [natToBits, bitsToNat]
  | cons b bs ih =>
    cases fuel with
    | zero => simp at h
    | succ fuel =>
      have hp := bitsToNat_pos bs
      have h1 : ¬ (2 * bitsToNat bs + b.toNat ≤ 1) := by omega
      have h2 : (2 * bitsToNat bs + b.toNat) / 2 = bitsToNat bs := by cases b <;> simp <;> omega
      have h3 : ((2 * bitsToNat bs + b.toNat) % 2 == 1) = b := by cases b <;> simp <;> omega
      rw [natToBits]
      simp only [bitsToNat, h1, if_false, h2, h3]
      rw [ih fuel (by simpa using h)]

def encNat (n : Nat) : List Bool := List.replicate n true ++ [false]

def decNats (acc : Nat) : List Bool → List Nat
  | [] => []
  | true :: t => decNats (acc + 1) t
  | false :: t => acc :: decNats 0 t

theorem decNats_encNat (n acc : Nat) (rest : List Bool) :
    decNats acc (encNat n ++ rest) = (acc + n) :: decNats 0 rest := by
  induction n generalizing acc with
  | zero => simp [encNat, decNats]
  | succ n ih =>
    have : encNat (n + 1) ++ rest = true :: (encNat n ++ rest) := by simp [encNat, List.replicate_succ]
    rw [this, decNats, ih]; congr 1; omega

def flat : Rec → List Nat
  | [] => []
  | (k, v) :: t => k :: v :: flat t

def unflat : List Nat → Rec
  | k :: v :: t => (k, v) :: unflat t
  | _ => []

theorem unflat_flat (r : Rec) : unflat (flat r) = r := by
  induction r with
  | nil => rfl
  | cons p t ih => obtain ⟨k, v⟩ := p; simp [flat, unflat, ih]

def encBits (l : List Nat) : List Bool := l.flatMap encNat

theorem decNats_encBits (l : List Nat) : decNats 0 (encBits l) = l := by
  induction l with
  | nil => rfl
  | cons n l ih =>
    have : encBits (n :: l) = encNat n ++ encBits l := by simp [encBits]
    rw [this, decNats_encNat, ih]; simp

def enc (r : Rec) : Nat := bitsToNat (encBits (flat r))
def dec (n : Nat) : Rec := unflat (decNats 0 (natToBits (n + 1) n))

theorem length_lt_bitsToNat (bs : List Bool) : bs.length < bitsToNat bs := by
  induction bs with
  | nil => simp [bitsToNat]
  | cons b bs ih => simp [bitsToNat]; omega

theorem dec_enc (r : Rec) : dec (enc r) = r := by
  unfold dec enc
  rw [natToBits_bitsToNat _ _ (Nat.le_of_lt (length_lt_bitsToNat _)), decNats_encBits, unflat_flat]

end CodecImpl

/-- a concrete codec -/
def Codec.std : Codec := { enc := CodecImpl.enc, dec := CodecImpl.dec, dec_enc := CodecImpl.dec_enc }

end TxV.Pipeline
