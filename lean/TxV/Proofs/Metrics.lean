import TxV.Model.Metrics
/-!
Helper lemmas for C31 (counters, tagged counters, exponential histogram).
-/
namespace TxV.Metrics

/-! ### popcount and generic list facts -/

theorem popcount_nil : popcount [] = 0 := rfl

theorem popcount_cons (b : Bool) (s : List Bool) : popcount (b :: s) = b.toNat + popcount s := by
  simp [popcount]

theorem popcount_eq_count (s : List Bool) : popcount s = s.count true := by
  induction s with
  | nil => rfl
  | cons b s ih => cases b <;> simp [popcount_cons, ih] <;> omega

/-- the run bits of the called ways: as many as there are calls -/
theorem popcount_isSome {α} (ins : List (Option α)) :
    popcount (ins.map Option.isSome) = (ins.filterMap id).length := by
  induction ins with
  | nil => rfl
  | cons o ins ih => cases o <;> simp [popcount_cons, ih] <;> omega

/-- bits set by a predicate on the argument of the called ways -/
theorem popcount_pred {α} (p : α → Bool) (ins : List (Option α)) :
    popcount (ins.map (Option.any p)) = (ins.filterMap id).countP p := by
  induction ins with
  | nil => rfl
  | cons o ins ih =>
    cases o with
    | none => simpa [popcount_cons] using ih
    | some x =>
      have : (some x :: ins).filterMap id = x :: ins.filterMap id := rfl
      rw [this, List.countP_cons, List.map_cons, popcount_cons, ih, Option.any_some]
      cases p x <;> simp <;> omega

theorem zipWith_map_self {α β} (f : α → β → β) (g : α → β) (l : List α) :
    List.zipWith f l (l.map g) = l.map fun a => f a (g a) := by
  induction l with
  | nil => rfl
  | cons a l ih => simp [ih]

theorem samples_nil {α} : samples ([] : List (List (Option α))) = [] := rfl

theorem samples_cons {α} (ins : List (Option α)) (h : List (List (Option α))) :
    samples (ins :: h) = ins.filterMap id ++ samples h := by
  simp [samples]

/-! ### HwCounter -/

theorem Counter.step_w (s : Counter) (i : List Bool) : (Counter.step s i).w = s.w := rfl

theorem Counter.run_w (s : Counter) (h : List (List Bool)) : (Counter.run s h).w = s.w := by
  induction h generalizing s with
  | nil => rfl
  | cons i h ih => simp only [Counter.run, List.foldl_cons] at ih ⊢; rw [ih, Counter.step_w]

theorem Counter.run_count (s : Counter) (h : List (List Bool)) (hs : s.count < 2 ^ s.w) :
    (Counter.run s h).count = (s.count + h.flatten.count true) % 2 ^ s.w := by
  induction h generalizing s with
  | nil => simp [Counter.run, Nat.mod_eq_of_lt hs]
  | cons i h ih =>
    simp only [Counter.run, List.foldl_cons] at ih ⊢
    rw [ih (Counter.step s i) (by simp only [Counter.step]; exact Nat.mod_lt _ (Nat.two_pow_pos _))]
    simp only [Counter.step, popcount_eq_count, List.flatten_cons, List.count_append]
    rw [Nat.mod_add_mod, Nat.add_assoc]

/-! ### TaggedCounter -/

theorem ceilLog2_pow (v : Int) (h0 : 0 ≤ v) (h : 2 ^ ceilLog2 v.toNat = v.toNat) :
    v = (2 : Int) ^ ceilLog2 v.toNat := by
  have : ((2 ^ ceilLog2 v.toNat : Nat) : Int) = (v.toNat : Int) := by rw [h]
  rw [Int.toNat_of_nonneg h0] at this
  exact this.symm.trans (by simp)

/-- on the one-hot path a call increments the counter of tag `t` iff its tag equals `t`,
    provided `t` fits the tag signal -/
theorem hit_eq (c : TCfg) (t x : Int) (ht : t ∈ c.tags)
    (hfit : c.oneHot = true → t < (2 : Int) ^ c.tagW) : c.hit t x = (x == t) := by
  unfold TCfg.hit
  by_cases hoh : c.oneHot = true
  · simp only [hoh, if_true]
    have hall := hoh
    unfold TCfg.oneHot at hall
    rw [List.all_eq_true] at hall
    have hv := hall t ht
    simp only [Bool.and_eq_true, decide_eq_true_eq] at hv
    have hpow := ceilLog2_pow t hv.1 hv.2
    have hlt : ceilLog2 t.toNat < c.tagW := by
      have h2 := hfit hoh
      rw [hpow] at h2
      have h3 : (2 : Nat) ^ ceilLog2 t.toNat < 2 ^ c.tagW := by exact_mod_cast h2
      exact (Nat.pow_lt_pow_iff_right (by omega)).mp h3
    by_cases hx : x = t
    · subst hx
      simp only [beq_self_eq_true]
      rw [List.any_eq_true]
      refine ⟨ceilLog2 x.toNat, List.mem_range.mpr hlt, ?_⟩
      simp [← hpow]
    · have : (x == t) = false := by simpa using hx
      rw [this]
      rw [List.any_eq_false]
      intro i _
      simp only [Bool.and_eq_true, beq_iff_eq, not_and]
      intro h1 h2
      exact hx (h1.trans h2.symm)
  · have : c.oneHot = false := by simpa using hoh
    simp [this]

theorem TCfg.run_eq (c : TCfg) (hfit : c.oneHot = true → ∀ t ∈ c.tags, t < (2 : Int) ^ c.tagW)
    (g : Int → Nat) (hg : ∀ t, g t < 2 ^ c.w) (h : List (List (Option Int))) :
    c.run (c.tags.map g) h = c.tags.map fun t => (g t + (samples h).count t) % 2 ^ c.w := by
  induction h generalizing g with
  | nil =>
    simp only [TCfg.run, List.foldl_nil, samples_nil, List.count_nil, Nat.add_zero]
    exact List.map_congr_left fun t _ => (Nat.mod_eq_of_lt (hg t)).symm
  | cons ins h ih =>
    simp only [TCfg.run, List.foldl_cons] at ih ⊢
    have hstep : c.step (c.tags.map g) ins
        = c.tags.map fun t => (g t + (ins.filterMap id).count t) % 2 ^ c.w := by
      unfold TCfg.step
      rw [zipWith_map_self]
      apply List.map_congr_left
      intro t ht
      have : c.runs t ins = ins.map (Option.any (fun x => x == t)) := by
        unfold TCfg.runs
        apply List.map_congr_left
        intro o _
        cases o with
        | none => rfl
        | some x => simp only [Option.any_some]; exact hit_eq c t x ht (fun hoh => hfit hoh t ht)
      rw [this, popcount_pred (fun x => x == t), List.count_eq_countP]
    rw [hstep, ih _ (fun t => Nat.mod_lt _ (Nat.two_pow_pos _))]
    apply List.map_congr_left
    intro t _
    rw [samples_cons, List.count_append, Nat.mod_add_mod, Nat.add_assoc]

/-! ### HwExpHistogram -/

theorem hibit_succ (k x : Nat) : hibit (k + 1) x = if x.testBit k then k else hibit k x := by
  simp [hibit, List.range_succ, List.foldl_append]

/-- `bucket_idx` is ⌊log₂ x⌋ for a non-zero sample that fits the sample width -/
theorem hibit_spec (k x : Nat) (h0 : x ≠ 0) (hk : x < 2 ^ k) :
    2 ^ hibit k x ≤ x ∧ x < 2 ^ (hibit k x + 1) := by
  induction k with
  | zero => simp at hk; omega
  | succ k ih =>
    rw [hibit_succ]
    by_cases hb : x.testBit k = true
    · simp only [hb, if_true]
      exact ⟨Nat.ge_two_pow_of_testBit hb, hk⟩
    · simp only [hb]
      apply ih
      apply Nat.lt_pow_two_of_testBit
      intro i hi
      by_cases hik : i = k
      · subst hik; simpa using hb
      · apply Nat.testBit_lt_two_pow
        exact Nat.lt_of_lt_of_le hk (Nat.pow_le_pow_right (by omega) (by omega))

/-- the documented range of bucket `i` out of `n`: `[0,1)`, `[2^(i-1), 2^i)`, the last one open -/
def inBucket (n i x : Nat) : Bool :=
  decide ((if i = 0 then 0 else 2 ^ (i - 1)) ≤ x) && (decide (n ≤ i + 1) || decide (x < 2 ^ i))

theorem shouldIncr_eq (c : HCfg) (i x : Nat) (hi : i < c.n) (hx : x < 2 ^ c.sw) :
    c.shouldIncr i x = inBucket c.n i x := by
  unfold HCfg.shouldIncr inBucket
  by_cases hn1 : c.n = 1
  · have hi0 : i = 0 := by omega
    subst hi0
    simp [hn1]
  have hn : 2 ≤ c.n := by omega
  simp only [hn1, if_false]
  by_cases hi0 : i = 0
  · subst hi0
    have : ¬ c.n ≤ 0 + 1 := by omega
    simp only [if_true, this, decide_false, Bool.false_or, Nat.pow_zero]
    rw [Bool.eq_iff_iff]
    simp only [beq_iff_eq, Bool.and_eq_true, decide_eq_true_eq]
    omega
  · simp only [hi0, if_false]
    by_cases hx0 : x = 0
    · subst hx0
      have : ¬ (2 ^ (i - 1) ≤ 0) := by have := Nat.two_pow_pos (i - 1); omega
      simp [this]
    · obtain ⟨hlo, hhi⟩ := hibit_spec c.sw x hx0 hx
      have hne : (x != 0) = true := by simpa using hx0
      rw [hne]
      by_cases hlast : i = c.n - 1
      · have h1 : c.n ≤ i + 1 := by omega
        simp only [hlast, if_true, Bool.and_true, decide_eq_true (show c.n ≤ c.n - 1 + 1 by omega), Bool.true_or]
        rw [decide_eq_decide]
        constructor
        · intro h
          exact Nat.le_trans (Nat.pow_le_pow_right (by omega) h) hlo
        · intro h
          have : 2 ^ (c.n - 1 - 1) < 2 ^ (hibit c.sw x + 1) := Nat.lt_of_le_of_lt h hhi
          have := (Nat.pow_lt_pow_iff_right (by omega : 1 < 2)).mp this
          omega
      · have h1 : ¬ c.n ≤ i + 1 := by omega
        simp only [hlast, if_false, Bool.and_true, h1, decide_false, Bool.false_or]
        rw [Bool.eq_iff_iff]
        simp only [beq_iff_eq, Bool.and_eq_true, decide_eq_true_eq]
        constructor
        · intro h
          rw [h] at hlo hhi
          have : i - 1 + 1 = i := by omega
          rw [this] at hhi
          exact ⟨hlo, hhi⟩
        · intro ⟨ha, hb⟩
          have h2 : 2 ^ (i - 1) < 2 ^ (hibit c.sw x + 1) := Nat.lt_of_le_of_lt ha hhi
          have h3 : 2 ^ hibit c.sw x < 2 ^ i := Nat.lt_of_le_of_lt hlo hb
          have h2' := (Nat.pow_lt_pow_iff_right (by omega : 1 < 2)).mp h2
          have h3' := (Nat.pow_lt_pow_iff_right (by omega : 1 < 2)).mp h3
          omega

theorem foldl_add_orDefault (a : Nat) (ins : List (Option Nat)) :
    (orDefault 0 ins).foldl (· + ·) a = a + (ins.filterMap id).sum := by
  induction ins generalizing a with
  | nil => simp [orDefault]
  | cons o ins ih =>
    cases o with
    | none => simpa [orDefault] using ih a
    | some x =>
      have : (some x :: ins).filterMap id = x :: ins.filterMap id := rfl
      rw [this]
      simp only [orDefault, List.map_cons, List.foldl_cons, Option.getD_some, List.sum_cons] at ih ⊢
      rw [ih]; omega

theorem foldl_min_le (a : Nat) (l : List Nat) :
    l.foldl Nat.min a ≤ a ∧ ∀ x ∈ l, l.foldl Nat.min a ≤ x := by
  induction l generalizing a with
  | nil => simp
  | cons y l ih =>
    simp only [List.foldl_cons, List.mem_cons]
    obtain ⟨h1, h2⟩ := ih (Nat.min a y)
    have ha : Nat.min a y ≤ a := Nat.min_le_left a y
    have hy : Nat.min a y ≤ y := Nat.min_le_right a y
    refine ⟨Nat.le_trans h1 ha, ?_⟩
    intro x hx
    rcases hx with rfl | hx
    · exact Nat.le_trans h1 hy
    · exact h2 x hx

theorem foldl_min_mem (a : Nat) (l : List Nat) : l.foldl Nat.min a = a ∨ l.foldl Nat.min a ∈ l := by
  induction l generalizing a with
  | nil => simp
  | cons y l ih =>
    simp only [List.foldl_cons, List.mem_cons]
    rcases ih (Nat.min a y) with h | h
    · rw [h]
      rcases Nat.le_total a y with hay | hay
      · left; exact Nat.min_eq_left hay
      · right; left; exact Nat.min_eq_right hay
    · right; right; exact h

theorem foldl_max_ge (a : Nat) (l : List Nat) :
    a ≤ l.foldl Nat.max a ∧ ∀ x ∈ l, x ≤ l.foldl Nat.max a := by
  induction l generalizing a with
  | nil => simp
  | cons y l ih =>
    simp only [List.foldl_cons, List.mem_cons]
    obtain ⟨h1, h2⟩ := ih (Nat.max a y)
    have ha : a ≤ Nat.max a y := Nat.le_max_left a y
    have hy : y ≤ Nat.max a y := Nat.le_max_right a y
    refine ⟨Nat.le_trans ha h1, ?_⟩
    intro x hx
    rcases hx with rfl | hx
    · exact Nat.le_trans hy h1
    · exact h2 x hx

theorem foldl_max_mem (a : Nat) (l : List Nat) : l.foldl Nat.max a = a ∨ l.foldl Nat.max a ∈ l := by
  induction l generalizing a with
  | nil => simp
  | cons y l ih =>
    simp only [List.foldl_cons, List.mem_cons]
    rcases ih (Nat.max a y) with h | h
    · rw [h]
      rcases Nat.le_total a y with hay | hay
      · right; left; exact Nat.max_eq_right hay
      · left; exact Nat.max_eq_left hay
    · right; right; exact h

/-- a way that is not called contributes the neutral default to `min_value` -/
theorem foldl_min_orDefault (a d : Nat) (had : a ≤ d) (ins : List (Option Nat)) :
    (orDefault d ins).foldl Nat.min a = (ins.filterMap id).foldl Nat.min a := by
  induction ins generalizing a with
  | nil => rfl
  | cons o ins ih =>
    cases o with
    | none =>
      simp only [orDefault, List.map_cons, List.foldl_cons, Option.getD_none] at ih ⊢
      have e : a.min d = a := Nat.min_eq_left had
      rw [e]
      exact ih a had
    | some x =>
      have : (some x :: ins).filterMap id = x :: ins.filterMap id := rfl
      rw [this]
      simp only [orDefault, List.map_cons, List.foldl_cons, Option.getD_some] at ih ⊢
      exact ih _ (Nat.le_trans (Nat.min_le_left a x) had)

theorem foldl_max_orDefault (a : Nat) (ins : List (Option Nat)) :
    (orDefault 0 ins).foldl Nat.max a = (ins.filterMap id).foldl Nat.max a := by
  induction ins generalizing a with
  | nil => rfl
  | cons o ins ih =>
    cases o with
    | none =>
      simp only [orDefault, List.map_cons, List.foldl_cons, Option.getD_none] at ih ⊢
      have e : a.max 0 = a := Nat.max_eq_left (Nat.zero_le a)
      rw [e]
      exact ih a
    | some x =>
      have : (some x :: ins).filterMap id = x :: ins.filterMap id := rfl
      rw [this]
      simp only [orDefault, List.map_cons, List.foldl_cons, Option.getD_some] at ih ⊢
      exact ih _

/-- the register contents that correspond to the multiset of samples `S` (in order of arrival) -/
def HCfg.spec (c : HCfg) (S : List Nat) : Hist :=
  { count := S.length % 2 ^ c.rw
    sum := S.sum % 2 ^ c.rw
    min := S.foldl Nat.min (2 ^ c.sw - 1)
    max := S.foldl Nat.max 0
    buckets := (List.range c.n).map fun i => S.countP (c.shouldIncr i) % 2 ^ c.rw }

theorem HCfg.init_eq_spec (c : HCfg) : c.init = c.spec [] := by
  simp only [HCfg.init, HCfg.spec, List.length_nil, List.sum_nil, List.foldl_nil, List.countP_nil,
    Nat.zero_mod]
  congr 1
  apply List.ext_getElem <;> simp

theorem HCfg.step_spec (c : HCfg) (S : List Nat) (ins : List (Option Nat)) :
    c.step (c.spec S) ins = c.spec (S ++ ins.filterMap id) := by
  simp only [HCfg.step, HCfg.spec]
  congr 1
  · rw [popcount_isSome, Nat.mod_add_mod, List.length_append]
  · rw [foldl_add_orDefault, Nat.mod_add_mod, List.sum_append]
  · rw [foldl_min_orDefault _ _ (foldl_min_le _ _).1, List.foldl_append]
  · rw [foldl_max_orDefault, List.foldl_append]
  · rw [zipWith_map_self]
    apply List.map_congr_left
    intro i _
    simp only [HCfg.incrs]
    rw [popcount_pred, Nat.mod_add_mod, List.countP_append]

theorem HCfg.run_spec (c : HCfg) (S : List Nat) (h : List (List (Option Nat))) :
    c.run (c.spec S) h = c.spec (S ++ samples h) := by
  induction h generalizing S with
  | nil => simp [HCfg.run, samples_nil]
  | cons ins h ih =>
    simp only [HCfg.run, List.foldl_cons] at ih ⊢
    rw [step_spec, ih, samples_cons, List.append_assoc]

end TxV.Metrics
