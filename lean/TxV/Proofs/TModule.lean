import TxV.Model.TModule
/-!
Helper lemmas for C06: the Amaranth semantics of the three lowered modules, computed by
structural recursion over the TModule program, equals the specification (`places` with the
enclosing conditions of each placement).
-/
namespace TxV.TModule

theorem effs_append (v : Val) (act : Bool) :
    ∀ (a b : ABlk), effs v act (a.append b) = effs v act a ++ effs v act b
  | .nil, b => by simp [ABlk.append, effs]
  | .leaf l r, b => by simp [ABlk.append, effs, effs_append v act r b]
  | .chain al r, b => by simp [ABlk.append, effs, effs_append v act r b]

/-! ### views of a placement in the three modules -/

/-- main module: ordinary-domain placements, active iff all enclosing conditions hold -/
def viewMain (v : Val) (act : Bool) (p : Placement) : Option (Leaf × Bool) :=
  if p.leaf.dom.ordinary then some (p.leaf, act && p.encl.all (fun e => e.holds v)) else none

/-- avoiding module: `av_comb` placements, active iff all ordinary enclosing conditions hold -/
def viewAv (v : Val) (act : Bool) (p : Placement) : Option (Leaf × Bool) :=
  if p.leaf.dom = .av then
    some (p.leaf, act && (p.encl.filter Encl.ordinary).all (fun e => e.holds v))
  else none

/-- top module: `top_comb` placements, always active -/
def viewTop (act : Bool) (p : Placement) : Option (Leaf × Bool) :=
  if p.leaf.dom = .top then some (p.leaf, act) else none

theorem viewMain_push (v : Val) (act : Bool) (e : Encl) (p : Placement) :
    viewMain v act (p.push e) = viewMain v (act && e.holds v) p := by
  cases p with
  | mk l en =>
    show viewMain v act ⟨l, e :: en⟩ = viewMain v (act && e.holds v) ⟨l, en⟩
    simp [viewMain, Bool.and_assoc]

theorem viewAv_push_alt (v : Val) (act : Bool) (es : List Guard) (g : Guard) (p : Placement) :
    viewAv v act (p.push (.alt es g)) = viewAv v (act && (Encl.alt es g).holds v) p := by
  cases p with
  | mk l en =>
    show viewAv v act ⟨l, .alt es g :: en⟩ = viewAv v (act && (Encl.alt es g).holds v) ⟨l, en⟩
    simp [viewAv, Encl.ordinary, List.filter_cons, Bool.and_assoc]

theorem viewAv_push_body (v : Val) (act : Bool) (r : Nat) (p : Placement) :
    viewAv v act (p.push (.body r)) = viewAv v act p := by
  cases p with
  | mk l en =>
    show viewAv v act ⟨l, .body r :: en⟩ = viewAv v act ⟨l, en⟩
    simp [viewAv, Encl.ordinary]

theorem viewTop_push (act : Bool) (e : Encl) (p : Placement) :
    viewTop act (p.push e) = viewTop act p := by
  cases p with
  | mk l en => rfl

theorem filterMap_push {β} (f g : Placement → Option β) (e : Encl) (l : List Placement)
    (h : ∀ p, f (p.push e) = g p) :
    (l.map (Placement.push e)).filterMap f = l.filterMap g := by
  rw [List.filterMap_map]
  congr 1
  funext p
  exact h p

theorem all_not_snoc (v : Val) (es : List Guard) (g : Guard) :
    (es ++ [g]).all (fun e => !e.holds v) = (es.all (fun e => !e.holds v) && !g.holds v) := by
  simp [List.all_append]

/-! ### main module -/

mutual
theorem main_blk (v : Val) : ∀ (t : TBlk) (act : Bool), t.wf = true →
    effs v act (lowerMain t) = (places t).filterMap (viewMain v act)
  | .nil, act, _ => by simp [lowerMain, effs, places]
  | .leaf l rest, act, h => by
    have ih := main_blk v rest act (by simpa [TBlk.wf] using h)
    by_cases hd : l.dom.ordinary = true
    · simp [lowerMain, hd, effs, places, ih, viewMain]
    · simp [lowerMain, hd, places, ih, viewMain]
  | .ifc alts rest, act, h => by
    simp only [TBlk.wf, Bool.and_eq_true] at h
    have i1 := main_alts v none alts [] act h.1
    have i2 := main_blk v rest act h.2
    simp only [List.all_nil] at i1
    simp [lowerMain, effs, places, i1, i2]
  | .sw sel alts rest, act, h => by
    simp only [TBlk.wf, Bool.and_eq_true] at h
    have i1 := main_alts v (some sel) alts [] act h.1
    have i2 := main_blk v rest act h.2
    simp only [List.all_nil] at i1
    simp [lowerMain, effs, places, i1, i2]
  | .fsm f ini sts rest, act, h => by
    simp only [TBlk.wf, Bool.and_eq_true, decide_eq_true_eq] at h
    have i1 := main_states v f sts act true h.1.2 h.1.1 (by simp)
    have i2 := main_blk v rest act h.2
    simp [lowerMain, effs, places, i1, i2]
  | .avoided r b rest, act, h => by
    simp only [TBlk.wf, Bool.and_eq_true] at h
    have i1 := main_blk v b (act && v.run r) h.1
    have i2 := main_blk v rest act h.2
    have hp := filterMap_push (viewMain v act) (viewMain v (act && v.run r)) (.body r) (places b)
      (fun p => by rw [viewMain_push]; rfl)
    simp [lowerMain, effs, effsAlts, places, i1, i2, hp, Cond.holds, Guard.holds]
theorem main_alts (v : Val) : ∀ (sel : Option Nat) (al : TAlts) (earlier : List Guard) (act : Bool),
    al.wf = true →
    effsAlts v act (earlier.all (fun e => !e.holds v)) (lowerMainAlts sel al)
      = (placesAlts sel earlier al).filterMap (viewMain v act)
  | _, .nil, _, _, _ => by simp [lowerMainAlts, effsAlts, placesAlts]
  | sel, .cons g b rest, earlier, act, h => by
    simp only [TAlts.wf, Bool.and_eq_true] at h
    have i1 := main_blk v b (act && (Encl.alt earlier (g.toGuard sel)).holds v) h.1
    have i2 := main_alts v sel rest (earlier ++ [g.toGuard sel]) act h.2
    have hp := filterMap_push (viewMain v act)
      (viewMain v (act && (Encl.alt earlier (g.toGuard sel)).holds v))
      (.alt earlier (g.toGuard sel)) (places b) (fun p => viewMain_push v act _ p)
    rw [all_not_snoc] at i2
    simp only [lowerMainAlts, effsAlts, placesAlts, List.filterMap_append, hp, ← i1, ← i2]
    simp [Encl.holds, Bool.and_assoc]
theorem main_states (v : Val) : ∀ (f : Nat) (sts : TStates) (act free : Bool),
    sts.wf = true → sts.names.Nodup →
    (free = false → ∀ st ∈ sts.names, (v.state f == st) = false) →
    effsAlts v act free (lowerMainStates f sts) = (placesStates f sts).filterMap (viewMain v act)
  | _, .nil, _, _, _, _, _ => by simp [lowerMainStates, effsAlts, placesStates]
  | f, .cons st b rest, act, free, h, hnd, hfree => by
    simp only [TStates.wf, Bool.and_eq_true] at h
    simp only [TStates.names, List.nodup_cons] at hnd
    have hfh : (free && (v.state f == st)) = (v.state f == st) := by
      cases free with
      | true => simp
      | false => simp [hfree rfl st (by simp [TStates.names])]
    have i1 := main_blk v b (act && (v.state f == st)) h.1
    have i2 := main_states v f rest act (free && !(v.state f == st)) h.2 hnd.2 (by
      intro hf st' hst'
      cases hfr : free with
      | false => exact hfree hfr st' (by simp [TStates.names, hst'])
      | true =>
        rw [hfr] at hf
        simp only [Bool.true_and, Bool.not_eq_false'] at hf
        have heq : v.state f = st := by simpa using hf
        have hne : st ≠ st' := fun hh => hnd.1 (hh ▸ hst')
        simp [heq, hne])
    have hp := filterMap_push (viewMain v act) (viewMain v (act && (v.state f == st)))
      (.alt [] (.state f st)) (places b)
      (fun p => by rw [viewMain_push]; simp [Encl.holds, Guard.holds])
    simp only [lowerMainStates, effsAlts, placesStates, List.filterMap_append, hp, ← i1, ← i2,
      Guard.holds, Bool.and_assoc, hfh]
end

/-! ### avoiding module -/

mutual
theorem av_blk (v : Val) : ∀ (t : TBlk) (act : Bool),
    effs v act (lowerAv t) = (places t).filterMap (viewAv v act)
  | .nil, act => by simp [lowerAv, effs, places]
  | .leaf l rest, act => by
    have ih := av_blk v rest act
    by_cases hd : l.dom = .av
    · simp [lowerAv, hd, effs, places, ih, viewAv]
    · simp [lowerAv, hd, places, ih, viewAv]
  | .ifc alts rest, act => by
    have i1 := av_alts v none alts [] act
    have i2 := av_blk v rest act
    simp only [List.all_nil] at i1
    simp [lowerAv, effs, places, i1, i2]
  | .sw sel alts rest, act => by
    have i1 := av_alts v (some sel) alts [] act
    have i2 := av_blk v rest act
    simp only [List.all_nil] at i1
    simp [lowerAv, effs, places, i1, i2]
  | .fsm f ini sts rest, act => by
    have i1 := av_states v f sts act
    have i2 := av_blk v rest act
    simp [lowerAv, effs_append, places, i1, i2]
  | .avoided r b rest, act => by
    have i1 := av_blk v b act
    have i2 := av_blk v rest act
    have hp := filterMap_push (viewAv v act) (viewAv v act) (.body r) (places b)
      (fun p => viewAv_push_body v act r p)
    simp [lowerAv, effs_append, places, i1, i2, hp]
theorem av_alts (v : Val) : ∀ (sel : Option Nat) (al : TAlts) (earlier : List Guard) (act : Bool),
    effsAlts v act (earlier.all (fun e => !e.holds v)) (lowerAvAlts sel al)
      = (placesAlts sel earlier al).filterMap (viewAv v act)
  | _, .nil, _, _ => by simp [lowerAvAlts, effsAlts, placesAlts]
  | sel, .cons g b rest, earlier, act => by
    have i1 := av_blk v b (act && (Encl.alt earlier (g.toGuard sel)).holds v)
    have i2 := av_alts v sel rest (earlier ++ [g.toGuard sel]) act
    have hp := filterMap_push (viewAv v act)
      (viewAv v (act && (Encl.alt earlier (g.toGuard sel)).holds v))
      (.alt earlier (g.toGuard sel)) (places b) (fun p => viewAv_push_alt v act _ _ p)
    rw [all_not_snoc] at i2
    simp only [lowerAvAlts, effsAlts, placesAlts, List.filterMap_append, hp, ← i1, ← i2]
    simp [Encl.holds, Bool.and_assoc]
theorem av_states (v : Val) : ∀ (f : Nat) (sts : TStates) (act : Bool),
    effs v act (lowerAvStates f sts) = (placesStates f sts).filterMap (viewAv v act)
  | _, .nil, _ => by simp [lowerAvStates, effs, placesStates]
  | f, .cons st b rest, act => by
    have i1 := av_blk v b (act && (v.state f == st))
    have i2 := av_states v f rest act
    have hp := filterMap_push (viewAv v act) (viewAv v (act && (v.state f == st)))
      (.alt [] (.state f st)) (places b)
      (fun p => by rw [viewAv_push_alt]; simp [Encl.holds, Guard.holds])
    simp only [lowerAvStates, effs, effsAlts, placesStates, List.filterMap_append, hp, ← i1, ← i2]
    simp [Guard.holds, Cond.holds]
end

/-! ### top module -/

mutual
theorem top_blk (v : Val) : ∀ (t : TBlk) (act : Bool),
    effs v act (lowerTop t) = (places t).filterMap (viewTop act)
  | .nil, act => by simp [lowerTop, effs, places]
  | .leaf l rest, act => by
    have ih := top_blk v rest act
    by_cases hd : l.dom = .top
    · simp [lowerTop, hd, effs, places, ih, viewTop]
    · simp [lowerTop, hd, places, ih, viewTop]
  | .ifc alts rest, act => by
    have i1 := top_alts v none [] alts act
    have i2 := top_blk v rest act
    simp [lowerTop, effs_append, places, i1, i2]
  | .sw sel alts rest, act => by
    have i1 := top_alts v (some sel) [] alts act
    have i2 := top_blk v rest act
    simp [lowerTop, effs_append, places, i1, i2]
  | .fsm f ini sts rest, act => by
    have i1 := top_states v f sts act
    have i2 := top_blk v rest act
    simp [lowerTop, effs_append, places, i1, i2]
  | .avoided r b rest, act => by
    have i1 := top_blk v b act
    have i2 := top_blk v rest act
    have hp := filterMap_push (viewTop act) (viewTop act) (.body r) (places b)
      (fun p => viewTop_push act _ p)
    simp [lowerTop, effs_append, places, i1, i2, hp]
theorem top_alts (v : Val) : ∀ (sel : Option Nat) (earlier : List Guard) (al : TAlts) (act : Bool),
    effs v act (lowerTopAlts al) = (placesAlts sel earlier al).filterMap (viewTop act)
  | _, _, .nil, _ => by simp [lowerTopAlts, effs, placesAlts]
  | sel, earlier, .cons g b rest, act => by
    have i1 := top_blk v b act
    have i2 := top_alts v sel (earlier ++ [g.toGuard sel]) rest act
    have hp := filterMap_push (viewTop act) (viewTop act)
      (.alt earlier (g.toGuard sel)) (places b) (fun p => viewTop_push act _ p)
    simp [lowerTopAlts, effs_append, placesAlts, i1, i2, hp]
theorem top_states (v : Val) : ∀ (f : Nat) (sts : TStates) (act : Bool),
    effs v act (lowerTopStates sts) = (placesStates f sts).filterMap (viewTop act)
  | _, .nil, _ => by simp [lowerTopStates, effs, placesStates]
  | f, .cons st b rest, act => by
    have i1 := top_blk v b act
    have i2 := top_states v f rest act
    have hp := filterMap_push (viewTop act) (viewTop act)
      (.alt [] (.state f st)) (places b) (fun p => viewTop_push act _ p)
    simp [lowerTopStates, effs_append, placesStates, i1, i2, hp]
end

/-! ### pointwise forms -/

theorem active_iff (es : List (Leaf × Bool)) (l : Leaf) : active es l = true ↔ (l, true) ∈ es := by
  simp only [active, List.any_eq_true, Bool.and_eq_true, beq_iff_eq]
  constructor
  · rintro ⟨⟨l', b⟩, hm, h1, h2⟩
    simp only at h1 h2
    subst h1; subst h2; exact hm
  · intro h
    exact ⟨(l, true), h, rfl, rfl⟩

theorem main_mem (v : Val) (t : TBlk) (hwf : t.wf = true) (l : Leaf) (b : Bool) :
    (l, b) ∈ effs v true (lowerMain t) ↔
      ∃ p ∈ places t, p.leaf = l ∧ l.dom.ordinary = true ∧ b = p.encl.all (fun e => e.holds v) := by
  rw [main_blk v t true hwf]
  simp only [List.mem_filterMap, viewMain, Bool.true_and]
  constructor
  · rintro ⟨p, hp, h⟩
    by_cases ho : p.leaf.dom.ordinary = true
    · simp only [ho, if_true, Option.some.injEq, Prod.mk.injEq] at h
      exact ⟨p, hp, h.1, h.1 ▸ ho, h.2.symm⟩
    · simp [ho] at h
  · rintro ⟨p, hp, h1, h2, h3⟩
    refine ⟨p, hp, ?_⟩
    subst h1
    simp [h2, h3]

theorem av_mem (v : Val) (t : TBlk) (l : Leaf) (b : Bool) :
    (l, b) ∈ effs v true (lowerAv t) ↔
      ∃ p ∈ places t, p.leaf = l ∧ l.dom = .av ∧
        b = (p.encl.filter Encl.ordinary).all (fun e => e.holds v) := by
  rw [av_blk v t true]
  simp only [List.mem_filterMap, viewAv, Bool.true_and]
  constructor
  · rintro ⟨p, hp, h⟩
    by_cases ho : p.leaf.dom = .av
    · simp only [ho, if_true, Option.some.injEq, Prod.mk.injEq] at h
      exact ⟨p, hp, h.1, h.1 ▸ ho, h.2.symm⟩
    · simp [ho] at h
  · rintro ⟨p, hp, h1, h2, h3⟩
    refine ⟨p, hp, ?_⟩
    subst h1
    simp [h2, h3]

theorem top_mem (v : Val) (t : TBlk) (l : Leaf) (b : Bool) :
    (l, b) ∈ effs v true (lowerTop t) ↔ ∃ p ∈ places t, p.leaf = l ∧ l.dom = .top ∧ b = true := by
  rw [top_blk v t true]
  simp only [List.mem_filterMap, viewTop]
  constructor
  · rintro ⟨p, hp, h⟩
    by_cases ho : p.leaf.dom = .top
    · simp only [ho, if_true, Option.some.injEq, Prod.mk.injEq] at h
      exact ⟨p, hp, h.1, h.1 ▸ ho, h.2.symm⟩
    · simp [ho] at h
  · rintro ⟨p, hp, h1, h2, h3⟩
    refine ⟨p, hp, ?_⟩
    subst h1
    simp [h2, h3]

/-! ### registers -/

theorem lastNext_none (f : Nat) : ∀ (es : List (Leaf × Bool)) (acc : Option Nat),
    (∀ st, (Leaf.next f st, true) ∉ es) → lastNext f es acc = acc
  | [], acc, _ => by simp [lastNext]
  | (l, b) :: rest, acc, h => by
    have hrest : ∀ st, (Leaf.next f st, true) ∉ rest := fun st hm => h st (List.mem_cons_of_mem _ hm)
    have ih := fun acc => lastNext_none f rest acc hrest
    cases l with
    | assign d w => cases b <;> simp [lastNext, ih]
    | next f' st =>
      cases b with
      | false => simp [lastNext, ih]
      | true =>
        have hne : f' ≠ f := by
          intro hh
          exact h st (by simp [hh])
        simp [lastNext, ih, hne]

theorem lookup_map_snd {β} (g : Nat → β → β) :
    ∀ (l : List (Nat × β)) (k : Nat),
    (l.map fun (a, b) => (a, g a b)).lookup k = (l.lookup k).map (g k)
  | [], _ => by simp [List.lookup]
  | (a, b) :: rest, k => by
    by_cases h : k = a
    · subst h; simp [List.lookup]
    · have : (k == a) = false := by simpa using h
      simp [List.lookup, this, lookup_map_snd g rest k]

/-! ### `av_comb` does not look at run signals -/

theorem toGuard_holds_run (v : Val) (r' : Nat → Bool) (sel : Option Nat) (g : TGuard) :
    (g.toGuard sel).holds { v with run := r' } = (g.toGuard sel).holds v := by
  cases g <;> cases sel <;> simp [TGuard.toGuard, Guard.holds, Cond.holds]

mutual
theorem av_norun_blk (v : Val) (r' : Nat → Bool) : ∀ (t : TBlk) (act : Bool),
    effs { v with run := r' } act (lowerAv t) = effs v act (lowerAv t)
  | .nil, act => by simp [lowerAv, effs]
  | .leaf l rest, act => by
    have ih := av_norun_blk v r' rest act
    by_cases hd : l.dom = .av
    · simp [lowerAv, hd, effs, ih]
    · simp [lowerAv, hd, ih]
  | .ifc alts rest, act => by
    simp [lowerAv, effs, av_norun_alts v r' none alts act true, av_norun_blk v r' rest act]
  | .sw sel alts rest, act => by
    simp [lowerAv, effs, av_norun_alts v r' (some sel) alts act true, av_norun_blk v r' rest act]
  | .fsm f ini sts rest, act => by
    simp [lowerAv, effs_append, av_norun_states v r' f sts act, av_norun_blk v r' rest act]
  | .avoided r b rest, act => by
    simp [lowerAv, effs_append, av_norun_blk v r' b act, av_norun_blk v r' rest act]
theorem av_norun_alts (v : Val) (r' : Nat → Bool) : ∀ (sel : Option Nat) (al : TAlts) (act free : Bool),
    effsAlts { v with run := r' } act free (lowerAvAlts sel al) = effsAlts v act free (lowerAvAlts sel al)
  | _, .nil, _, _ => by simp [lowerAvAlts, effsAlts]
  | sel, .cons g b rest, act, free => by
    simp only [lowerAvAlts, effsAlts, toGuard_holds_run]
    rw [av_norun_blk v r' b, av_norun_alts v r' sel rest]
theorem av_norun_states (v : Val) (r' : Nat → Bool) : ∀ (f : Nat) (sts : TStates) (act : Bool),
    effs { v with run := r' } act (lowerAvStates f sts) = effs v act (lowerAvStates f sts)
  | _, .nil, _ => by simp [lowerAvStates, effs]
  | f, .cons st b rest, act => by
    simp only [lowerAvStates, effs, effsAlts]
    rw [av_norun_blk v r' b, av_norun_states v r' f rest]
    simp [Guard.holds, Cond.holds]
end

end TxV.TModule
