import TxV.Model.Assign
import TxV.Model.AssignIO
/-!
Specification vocabulary and helper lemmas for C40 (structured assignment).

A `Call` is one activation of `assign` with the left operand already stripped of `Array(...)[i]` (the
model strips the left operand by recursion and the right operand on the spot).  `Step c c'` says that
`assign` at `c`, having decided to descend (`plan`) into the member names `names`, calls itself at `c'`
for a member `k ∈ names`; `Reach` is its reflexive-transitive closure.  The *selected leaf pairs* of a
call are the reachable calls whose plan is `leaf`; `sound`/`complete` say that the model produces exactly
one statement for each of them.
-/
namespace TxV.Assign

def Members.toList : Members → List (Key × Obj)
  | .nil => []
  | .cons k o t => (k, o) :: t.toList

/-- strip every `Array(...)[i]` wrapper of a left operand (what the recursion of `assignObj` does) -/
def stripAll (c : Option PCtx) : Obj → Option PCtx × Obj
  | .proxy i s t => stripAll (some ⟨i, s⟩) t
  | o => (c, o)

structure Call where
  lhs : Obj
  lc : Option PCtx
  rc : Option PCtx
  rhs : Obj
  sel : Sel
  ls : Bool
  rs : Bool
  lp : Path
  rp : Path

/-- the call with the left operand stripped -/
def nrm (lhs : Obj) (lc rc : Option PCtx) (rhs : Obj) (sel : Sel) (ls rs : Bool) (lp rp : Path) : Call :=
  ⟨(stripAll lc lhs).2, (stripAll lc lhs).1, rc, rhs, sel, ls, rs, lp, rp⟩

def Call.R (c : Call) : Option PCtx × Obj := strip c.rc c.rhs
def Call.planOf (c : Call) : Except Err Plan := plan c.lc c.lhs c.R.1 c.R.2 c.sel
def Call.leafOf (c : Call) : Except Err (List Pair) := assignLeaf c.lc c.lhs c.R.1 c.R.2 c.sel c.ls c.rs c.lp c.rp

/-- the recursive call for member `k` -/
def Call.child (c : Call) (k : Key) (o r : Obj) (s' : Sel) : Call :=
  nrm o c.lc c.R.1 r s' (isValueLike c.lhs && !isInt o) (isValueLike c.R.2 && !isInt r) (c.lp ++ [k]) (c.rp ++ [k])

inductive Step : Call → Call → Prop
  | mk (c : Call) (names : List Key) (k : Key) (o r : Obj) (s' : Sel) :
      c.planOf = .ok (.descend names) → names.contains k = true → (k, o) ∈ c.lhs.members.toList →
      c.R.2.members.lookup k = some r → subSel c.sel k = some s' → Step c (c.child k o r s')

inductive Reach : Call → Call → Prop
  | refl (c : Call) : Reach c c
  | step {a b c : Call} : Step a b → Reach b c → Reach a c

theorem stripAll_nonproxy (c : Option PCtx) (o : Obj) (h : ∀ i s t, o ≠ .proxy i s t) : stripAll c o = (c, o) := by
  cases o <;> first | rfl | exact absurd rfl (h _ _ _)

theorem nrm_view (k : VKind) (st off sz : Nat) (ms : Members) (lc rc : Option PCtx) (rhs : Obj) (sel : Sel)
    (ls rs : Bool) (lp rp : Path) :
    nrm (.view k st off sz ms) lc rc rhs sel ls rs lp rp = ⟨.view k st off sz ms, lc, rc, rhs, sel, ls, rs, lp, rp⟩ := rfl

/-- `assignLeaf` yields exactly one statement -/
theorem assignLeaf_single (lc : Option PCtx) (lhs : Obj) (rc : Option PCtx) (rhs : Obj) (sel : Sel) (ls rs : Bool)
    (lp rp : Path) (ps : List Pair) (h : assignLeaf lc lhs rc rhs sel ls rs lp rp = .ok ps) : ∃ p, ps = [p] := by
  unfold assignLeaf at h
  split at h
  · cases h
  · split at h
    · cases h
    · split at h
      · cases h
      · cases h
      · simp only at h
        split at h
        · cases h
        · cases h; exact ⟨_, rfl⟩

/-! ### what `assignObj` does on a stripped call -/

/-- on a stripped (non-proxy) left operand `assignObj` follows the plan -/
def runMembers (c : Call) (names : List Key) : Except Err (List Pair) :=
  assignMembers c.lhs.members c.lc (isValueLike c.lhs) c.R.1 c.R.2 c.sel names c.lp c.rp

/-! ### soundness: every statement belongs to a selected leaf pair -/

/-- the conclusion shared by the two halves of the induction -/
def FromLeaf (root : Call) (p : Pair) : Prop :=
  ∃ c', Reach root c' ∧ c'.planOf = .ok .leaf ∧ c'.leafOf = .ok [p]

theorem leaf_case (root : Call) (ps : List Pair) (hplan : root.planOf = .ok .leaf) (h : root.leafOf = .ok ps) :
    ∀ p ∈ ps, FromLeaf root p := by
  intro p hp
  obtain ⟨p', rfl⟩ := assignLeaf_single _ _ _ _ _ _ _ _ _ _ h
  simp only [List.mem_singleton] at hp
  subst hp
  exact ⟨root, .refl _, hplan, h⟩

mutual
theorem soundObj : ∀ (lhs : Obj) (lc rc : Option PCtx) (rhs : Obj) (sel : Sel) (ls rs : Bool) (lp rp : Path)
    (ps : List Pair), assignObj lhs lc rc rhs sel ls rs lp rp = .ok ps →
    ∀ p ∈ ps, FromLeaf (nrm lhs lc rc rhs sel ls rs lp rp) p
  | .proxy i s t, lc, rc, rhs, sel, ls, rs, lp, rp, ps, h => by
    rw [assignObj] at h
    exact soundObj t (some ⟨i, s⟩) rc rhs sel ls rs lp rp ps h
  | .view k st off sz ms, lc, rc, rhs, sel, ls, rs, lp, rp, ps, h => by
    rw [assignObj] at h
    split at h
    · cases h
    · rename_i hplan
      exact leaf_case (nrm (.view k st off sz ms) lc rc rhs sel ls rs lp rp) ps hplan h
    · rename_i names hplan
      intro p hp
      obtain ⟨k', o, r, s', hmem, hk, hr, hs, c', hreach, hl1, hl2⟩ :=
        soundMembers ms lc true (strip rc rhs).1 (strip rc rhs).2 sel names lp rp ps h p hp
      exact ⟨c', .step (Step.mk (nrm (.view k st off sz ms) lc rc rhs sel ls rs lp rp) names k' o r s' hplan hk hmem hr hs) hreach, hl1, hl2⟩
  | .const k sz v fl ms, lc, rc, rhs, sel, ls, rs, lp, rp, ps, h => by
    rw [assignObj] at h
    split at h
    · cases h
    · rename_i hplan
      exact leaf_case (nrm (.const k sz v fl ms) lc rc rhs sel ls rs lp rp) ps hplan h
    · rename_i names hplan
      intro p hp
      obtain ⟨k', o, r, s', hmem, hk, hr, hs, c', hreach, hl1, hl2⟩ :=
        soundMembers ms lc true (strip rc rhs).1 (strip rc rhs).2 sel names lp rp ps h p hp
      exact ⟨c', .step (Step.mk (nrm (.const k sz v fl ms) lc rc rhs sel ls rs lp rp) names k' o r s' hplan hk hmem hr hs) hreach, hl1, hl2⟩
  | .dict ms, lc, rc, rhs, sel, ls, rs, lp, rp, ps, h => by
    rw [assignObj] at h
    split at h
    · cases h
    · rename_i hplan
      exact leaf_case (nrm (.dict ms) lc rc rhs sel ls rs lp rp) ps hplan h
    · rename_i names hplan
      intro p hp
      obtain ⟨k', o, r, s', hmem, hk, hr, hs, c', hreach, hl1, hl2⟩ :=
        soundMembers ms lc false (strip rc rhs).1 (strip rc rhs).2 sel names lp rp ps h p hp
      exact ⟨c', .step (Step.mk (nrm (.dict ms) lc rc rhs sel ls rs lp rp) names k' o r s' hplan hk hmem hr hs) hreach, hl1, hl2⟩
  | .list ms, lc, rc, rhs, sel, ls, rs, lp, rp, ps, h => by
    rw [assignObj] at h
    split at h
    · cases h
    · rename_i hplan
      exact leaf_case (nrm (.list ms) lc rc rhs sel ls rs lp rp) ps hplan h
    · rename_i names hplan
      intro p hp
      obtain ⟨k', o, r, s', hmem, hk, hr, hs, c', hreach, hl1, hl2⟩ :=
        soundMembers ms lc false (strip rc rhs).1 (strip rc rhs).2 sel names lp rp ps h p hp
      exact ⟨c', .step (Step.mk (nrm (.list ms) lc rc rhs sel ls rs lp rp) names k' o r s' hplan hk hmem hr hs) hreach, hl1, hl2⟩
  | .val st off w sg e, lc, rc, rhs, sel, ls, rs, lp, rp, ps, h => by
    rw [assignObj] at h
    split at h
    · cases h
    · rename_i hplan
      exact leaf_case (nrm (.val st off w sg e) lc rc rhs sel ls rs lp rp) ps hplan h
    · cases h
  | .int v w sg en py, lc, rc, rhs, sel, ls, rs, lp, rp, ps, h => by
    rw [assignObj] at h
    split at h
    · cases h
    · rename_i hplan
      exact leaf_case (nrm (.int v w sg en py) lc rc rhs sel ls rs lp rp) ps hplan h
    · cases h
  | .enumv st off w id, lc, rc, rhs, sel, ls, rs, lp, rp, ps, h => by
    rw [assignObj] at h
    split at h
    · cases h
    · rename_i hplan
      exact leaf_case (nrm (.enumv st off w id) lc rc rhs sel ls rs lp rp) ps hplan h
    · cases h
theorem soundMembers : ∀ (ms : Members) (lc : Option PCtx) (lvl : Bool) (rc : Option PCtx) (rhs : Obj) (sel : Sel)
    (names : List Key) (lp rp : Path) (ps : List Pair),
    assignMembers ms lc lvl rc rhs sel names lp rp = .ok ps →
    ∀ p ∈ ps, ∃ k o r s', (k, o) ∈ ms.toList ∧ names.contains k = true ∧ rhs.members.lookup k = some r ∧
      subSel sel k = some s' ∧
      FromLeaf (nrm o lc rc r s' (lvl && !isInt o) (isValueLike rhs && !isInt r) (lp ++ [k]) (rp ++ [k])) p
  | .nil, lc, lvl, rc, rhs, sel, names, lp, rp, ps, h => by
    rw [assignMembers] at h
    cases h
    intro p hp
    cases hp
  | .cons k o t, lc, lvl, rc, rhs, sel, names, lp, rp, ps, h => by
    rw [assignMembers] at h
    split at h
    · rename_i hk
      split at h
      · rename_i r s' hr hs
        split at h
        · cases h
        · rename_i here hhere
          split at h
          · cases h
          · rename_i rest hrest
            cases h
            intro p hp
            rcases List.mem_append.mp hp with hp | hp
            · exact ⟨k, o, r, s', by simp [Members.toList], hk, hr, hs,
                soundObj o lc rc r s' _ _ _ _ here hhere p hp⟩
            · obtain ⟨k', o', r', s'', hmem, h2, h3, h4, h5⟩ :=
                soundMembers t lc lvl rc rhs sel names lp rp rest hrest p hp
              exact ⟨k', o', r', s'', by simp [Members.toList, hmem], h2, h3, h4, h5⟩
      · cases h
    · intro p hp
      obtain ⟨k', o', r', s'', hmem, h2, h3, h4, h5⟩ :=
        soundMembers t lc lvl rc rhs sel names lp rp ps h p hp
      exact ⟨k', o', r', s'', by simp [Members.toList, hmem], h2, h3, h4, h5⟩
end

/-! ### completeness: every selected leaf pair gets its statement -/

theorem leaf_reach (root : Call) (ps : List Pair) (hplan : root.planOf = .ok .leaf) (h : root.leafOf = .ok ps) :
    ∀ c', Reach root c' → c'.planOf = .ok .leaf → ∃ p ∈ ps, c'.leafOf = .ok [p] := by
  intro c' hreach _
  cases hreach with
  | refl =>
    obtain ⟨p, rfl⟩ := assignLeaf_single _ _ _ _ _ _ _ _ _ _ h
    exact ⟨p, by simp, h⟩
  | step hstep _ =>
    cases hstep with
    | mk names k o r s' h1 _ _ _ _ => rw [hplan] at h1; cases h1

mutual
theorem completeObj : ∀ (lhs : Obj) (lc rc : Option PCtx) (rhs : Obj) (sel : Sel) (ls rs : Bool) (lp rp : Path)
    (ps : List Pair), assignObj lhs lc rc rhs sel ls rs lp rp = .ok ps →
    ∀ c', Reach (nrm lhs lc rc rhs sel ls rs lp rp) c' → c'.planOf = .ok .leaf → ∃ p ∈ ps, c'.leafOf = .ok [p]
  | .proxy i s t, lc, rc, rhs, sel, ls, rs, lp, rp, ps, h => by
    rw [assignObj] at h
    exact completeObj t (some ⟨i, s⟩) rc rhs sel ls rs lp rp ps h
  | .view k st off sz ms, lc, rc, rhs, sel, ls, rs, lp, rp, ps, h => by
    rw [assignObj] at h
    intro c' hreach hleaf
    split at h
    · cases h
    · rename_i hplan
      exact leaf_reach (nrm (.view k st off sz ms) lc rc rhs sel ls rs lp rp) ps hplan h c' hreach hleaf
    · rename_i names hplan
      cases hreach with
      | refl =>
        have hleaf' : plan lc (.view k st off sz ms) (strip rc rhs).1 (strip rc rhs).2 sel = .ok .leaf := hleaf
        rw [hplan] at hleaf'; cases hleaf'
      | step hstep hrest =>
        cases hstep with
        | mk names' k' o r s' h1 h2 h3 h4 h5 =>
          have h1' : plan lc (.view k st off sz ms) (strip rc rhs).1 (strip rc rhs).2 sel = .ok (.descend names') := h1
          rw [hplan] at h1'
          cases h1'
          exact completeMembers ms lc true (strip rc rhs).1 (strip rc rhs).2 sel names lp rp ps h k' o h3 h2 r s' h4 h5 c' hrest hleaf
  | .const k sz v fl ms, lc, rc, rhs, sel, ls, rs, lp, rp, ps, h => by
    rw [assignObj] at h
    intro c' hreach hleaf
    split at h
    · cases h
    · rename_i hplan
      exact leaf_reach (nrm (.const k sz v fl ms) lc rc rhs sel ls rs lp rp) ps hplan h c' hreach hleaf
    · rename_i names hplan
      cases hreach with
      | refl =>
        have hleaf' : plan lc (.const k sz v fl ms) (strip rc rhs).1 (strip rc rhs).2 sel = .ok .leaf := hleaf
        rw [hplan] at hleaf'; cases hleaf'
      | step hstep hrest =>
        cases hstep with
        | mk names' k' o r s' h1 h2 h3 h4 h5 =>
          have h1' : plan lc (.const k sz v fl ms) (strip rc rhs).1 (strip rc rhs).2 sel = .ok (.descend names') := h1
          rw [hplan] at h1'
          cases h1'
          exact completeMembers ms lc true (strip rc rhs).1 (strip rc rhs).2 sel names lp rp ps h k' o h3 h2 r s' h4 h5 c' hrest hleaf
  | .dict ms, lc, rc, rhs, sel, ls, rs, lp, rp, ps, h => by
    rw [assignObj] at h
    intro c' hreach hleaf
    split at h
    · cases h
    · rename_i hplan
      exact leaf_reach (nrm (.dict ms) lc rc rhs sel ls rs lp rp) ps hplan h c' hreach hleaf
    · rename_i names hplan
      cases hreach with
      | refl =>
        have hleaf' : plan lc (.dict ms) (strip rc rhs).1 (strip rc rhs).2 sel = .ok .leaf := hleaf
        rw [hplan] at hleaf'; cases hleaf'
      | step hstep hrest =>
        cases hstep with
        | mk names' k' o r s' h1 h2 h3 h4 h5 =>
          have h1' : plan lc (.dict ms) (strip rc rhs).1 (strip rc rhs).2 sel = .ok (.descend names') := h1
          rw [hplan] at h1'
          cases h1'
          exact completeMembers ms lc false (strip rc rhs).1 (strip rc rhs).2 sel names lp rp ps h k' o h3 h2 r s' h4 h5 c' hrest hleaf
  | .list ms, lc, rc, rhs, sel, ls, rs, lp, rp, ps, h => by
    rw [assignObj] at h
    intro c' hreach hleaf
    split at h
    · cases h
    · rename_i hplan
      exact leaf_reach (nrm (.list ms) lc rc rhs sel ls rs lp rp) ps hplan h c' hreach hleaf
    · rename_i names hplan
      cases hreach with
      | refl =>
        have hleaf' : plan lc (.list ms) (strip rc rhs).1 (strip rc rhs).2 sel = .ok .leaf := hleaf
        rw [hplan] at hleaf'; cases hleaf'
      | step hstep hrest =>
        cases hstep with
        | mk names' k' o r s' h1 h2 h3 h4 h5 =>
          have h1' : plan lc (.list ms) (strip rc rhs).1 (strip rc rhs).2 sel = .ok (.descend names') := h1
          rw [hplan] at h1'
          cases h1'
          exact completeMembers ms lc false (strip rc rhs).1 (strip rc rhs).2 sel names lp rp ps h k' o h3 h2 r s' h4 h5 c' hrest hleaf
  | .val st off w sg e, lc, rc, rhs, sel, ls, rs, lp, rp, ps, h => by
    rw [assignObj] at h
    intro c' hreach hleaf
    split at h
    · cases h
    · rename_i hplan
      exact leaf_reach (nrm (.val st off w sg e) lc rc rhs sel ls rs lp rp) ps hplan h c' hreach hleaf
    · cases h
  | .int v w sg en py, lc, rc, rhs, sel, ls, rs, lp, rp, ps, h => by
    rw [assignObj] at h
    intro c' hreach hleaf
    split at h
    · cases h
    · rename_i hplan
      exact leaf_reach (nrm (.int v w sg en py) lc rc rhs sel ls rs lp rp) ps hplan h c' hreach hleaf
    · cases h
  | .enumv st off w id, lc, rc, rhs, sel, ls, rs, lp, rp, ps, h => by
    rw [assignObj] at h
    intro c' hreach hleaf
    split at h
    · cases h
    · rename_i hplan
      exact leaf_reach (nrm (.enumv st off w id) lc rc rhs sel ls rs lp rp) ps hplan h c' hreach hleaf
    · cases h
theorem completeMembers : ∀ (ms : Members) (lc : Option PCtx) (lvl : Bool) (rc : Option PCtx) (rhs : Obj) (sel : Sel)
    (names : List Key) (lp rp : Path) (ps : List Pair),
    assignMembers ms lc lvl rc rhs sel names lp rp = .ok ps →
    ∀ k o, (k, o) ∈ ms.toList → names.contains k = true → ∀ r s', rhs.members.lookup k = some r →
      subSel sel k = some s' →
      ∀ c', Reach (nrm o lc rc r s' (lvl && !isInt o) (isValueLike rhs && !isInt r) (lp ++ [k]) (rp ++ [k])) c' →
        c'.planOf = .ok .leaf → ∃ p ∈ ps, c'.leafOf = .ok [p]
  | .nil, lc, lvl, rc, rhs, sel, names, lp, rp, ps, h => by
    intro k o hmem
    simp [Members.toList] at hmem
  | .cons k o t, lc, lvl, rc, rhs, sel, names, lp, rp, ps, h => by
    rw [assignMembers] at h
    intro k' o' hmem hk' r' s'' hr' hs' c' hreach hleaf
    simp only [Members.toList, List.mem_cons, Prod.mk.injEq] at hmem
    split at h
    · rename_i hk
      split at h
      · rename_i r s' hr hs
        split at h
        · cases h
        · rename_i here hhere
          split at h
          · cases h
          · rename_i rest hrest
            cases h
            rcases hmem with ⟨rfl, rfl⟩ | hmem
            · rw [hr] at hr'; cases hr'
              rw [hs] at hs'; cases hs'
              obtain ⟨p, hp, hl⟩ := completeObj o' lc rc r' s'' _ _ _ _ here hhere c' hreach hleaf
              exact ⟨p, List.mem_append_left _ hp, hl⟩
            · obtain ⟨p, hp, hl⟩ := completeMembers t lc lvl rc rhs sel names lp rp rest hrest k' o' hmem hk' r' s'' hr' hs' c' hreach hleaf
              exact ⟨p, List.mem_append_right _ hp, hl⟩
      · cases h
    · rename_i hk
      rcases hmem with ⟨rfl, rfl⟩ | hmem
      · exact absurd hk' hk
      · exact completeMembers t lc lvl rc rhs sel names lp rp ps h k' o' hmem hk' r' s'' hr' hs' c' hreach hleaf
end



/-! ### paths -/

theorem child_lp (c : Call) (k : Key) (o r : Obj) (s' : Sel) :
    (c.child k o r s').lp = c.lp ++ [k] ∧ (c.child k o r s').rp = c.rp ++ [k] := ⟨rfl, rfl⟩

/-- the same keys are walked on both sides -/
theorem reach_paths {c c' : Call} (h : Reach c c') : ∃ q, c'.lp = c.lp ++ q ∧ c'.rp = c.rp ++ q := by
  induction h with
  | refl c => exact ⟨[], by simp, by simp⟩
  | step hs _ ih =>
    cases hs with
    | mk names k o r s' _ _ _ _ _ =>
      obtain ⟨q, h1, h2⟩ := ih
      refine ⟨k :: q, ?_, ?_⟩
      · rw [h1, (child_lp _ k o r s').1]; simp
      · rw [h2, (child_lp _ k o r s').2]; simp

/-! ### the leaf branch -/

/-- `Chain c o p o'`: from `o`, going down `p` through views that have exactly one member, one arrives at `o'` -/
inductive Chain (c : Option PCtx) : Obj → Path → Obj → Prop
  | stop (o : Obj) : Chain c o [] o
  | down (k : VKind) (st off sz : Nat) (key : Key) (m o' : Obj) (p : Path) (fs : List Key) :
      argFields c (.view k st off sz (.cons key m .nil)) = .ok (some fs) → Chain c m p o' →
      Chain c (.view k st off sz (.cons key m .nil)) (key :: p) o'
  | downc (k : VKind) (sz v : Nat) (fl : List (Key × Nat × Bool × Nat)) (key : Key) (m o' : Obj) (p : Path)
      (fs : List Key) :
      argFields c (.const k sz v fl (.cons key m .nil)) = .ok (some fs) → Chain c m p o' →
      Chain c (.const k sz v fl (.cons key m .nil)) (key :: p) o'

theorem unwrap_chain (c : Option PCtx) : ∀ (o o' : Obj) (p : Path), unwrap c o = .ok (o', p) → Chain c o p o'
  | .view k st off sz .nil, o', p, h => by
    simp only [unwrap] at h
    split at h <;> cases h <;> exact .stop _
  | .view k st off sz (.cons key m (.cons k2 m2 t)), o', p, h => by
    simp only [unwrap] at h
    split at h <;> cases h <;> exact .stop _
  | .view k st off sz (.cons key m .nil), o', p, h => by
    simp only [unwrap] at h
    split at h
    · cases h
    · cases h; exact .stop _
    · rename_i fs hf
      split at h
      · cases h
      · rename_i o'' p' hu
        obtain ⟨h1, h2⟩ : o'' = o' ∧ key :: p' = p := by simpa [pure, Except.pure] using h
        subst h1 h2
        exact .down k st off sz key m o'' p' fs hf (unwrap_chain c m o'' p' hu)
  | .const k sz v fl .nil, o', p, h => by
    simp only [unwrap] at h
    split at h <;> cases h <;> exact .stop _
  | .const k sz v fl (.cons key m (.cons k2 m2 t)), o', p, h => by
    simp only [unwrap] at h
    split at h <;> cases h <;> exact .stop _
  | .const k sz v fl (.cons key m .nil), o', p, h => by
    simp only [unwrap] at h
    split at h
    · cases h
    · cases h; exact .stop _
    · rename_i fs hf
      split at h
      · cases h
      · rename_i o'' p' hu
        obtain ⟨h1, h2⟩ : o'' = o' ∧ key :: p' = p := by simpa [pure, Except.pure] using h
        subst h1 h2
        exact .downc k sz v fl key m o'' p' fs hf (unwrap_chain c m o'' p' hu)
  | .val .., o', p, h => by simp only [unwrap] at h; cases h; exact .stop _
  | .int .., o', p, h => by simp only [unwrap] at h; cases h; exact .stop _
  | .enumv .., o', p, h => by simp only [unwrap] at h; cases h; exact .stop _
  | .dict _, o', p, h => by simp only [unwrap] at h; cases h; exact .stop _
  | .list _, o', p, h => by simp only [unwrap] at h; cases h; exact .stop _
  | .proxy .., o', p, h => by simp only [unwrap] at h; cases h; exact .stop _

/-- what one generated statement is -/
theorem leaf_spec (lc : Option PCtx) (lhs : Obj) (rc : Option PCtx) (rhs : Obj) (sel : Sel) (ls rs : Bool)
    (lp rp : Path) (p : Pair) (h : assignLeaf lc lhs rc rhs sel ls rs lp rp = .ok [p]) :
    sel.isMode = true ∧ isValueLike lhs = true ∧ isValueLike rhs = true ∧
    ∃ l ul r ur, unwrap lc lhs = .ok (l, ul) ∧ unwrap rc rhs = .ok (r, ur) ∧
      p.lpath = lp ++ ul ∧ p.rpath = rp ++ ur ∧ p.flow = flowOf lc l rc r ∧
      p.checked = (isVC lc l || isVC rc r ||
        ((strictAfter ls ul l || explicit lc l) && (strictAfter rs ur r || explicit rc r))) ∧
      (p.checked = true → shapeEq (shapeOf lc l) (shapeOf rc r) = true) := by
  unfold assignLeaf at h
  split at h
  · cases h
  · rename_i h1
    split at h
    · cases h
    · rename_i h2
      split at h
      · cases h
      · cases h
      · rename_i l ul r ur hl hr
        simp only at h
        split at h
        · cases h
        · rename_i hchk
          simp only [pure, Except.pure, Except.ok.injEq, List.cons.injEq, and_true] at h
          subst h
          refine ⟨by simpa using h1, ?_, ?_, l, ul, r, ur, hl, hr, rfl, rfl, rfl, rfl, ?_⟩
          · simp only [Bool.or_eq_true, Bool.not_eq_true', not_or] at h2; simpa using h2.1
          · simp only [Bool.or_eq_true, Bool.not_eq_true', not_or] at h2; simpa using h2.2
          · intro hc
            simp only at hc
            simp only [hc, Bool.true_and, Bool.not_eq_true'] at hchk
            simpa using hchk


/-! ### which members are selected -/

theorem mem_selNames (sel : Sel) (lf rf : List Key) (n : Key) :
    n ∈ selNames sel lf rf ↔
      match sel with
      | .mode .common => n ∈ lf ∧ n ∈ rf
      | .mode .lhs => n ∈ lf
      | .mode .rhs => n ∈ rf
      | .mode .all => n ∈ lf ∨ n ∈ rf
      | .iter ks => n ∈ ks
      | .map ms => n ∈ ms.keys := by
  cases sel with
  | mode m => cases m <;> simp [selNames]
  | iter ks => simp [selNames]
  | map ms => simp [selNames]

/-- both operands have members: `assign` descends into `selNames`, unless that is empty although members exist
    (ValueError) or one of the names is missing on a side (KeyError); it never treats the pair as a leaf -/
theorem plan_containers (lc : Option PCtx) (lhs : Obj) (rc : Option PCtx) (rhs : Obj) (sel : Sel) (lf rf : List Key)
    (hl : argFields lc lhs = .ok (some lf)) (hr : argFields rc rhs = .ok (some rf)) :
    (∀ names, plan lc lhs rc rhs sel = .ok (.descend names) ↔
      (names = selNames sel lf rf ∧ (names = [] → lf = [] ∧ rf = []) ∧ ∀ n ∈ names, n ∈ lf ∧ n ∈ rf)) ∧
    plan lc lhs rc rhs sel ≠ .ok .leaf := by
  unfold plan
  rw [hl, hr]
  simp only
  by_cases h1 : ((selNames sel lf rf).isEmpty && !(lf.isEmpty && rf.isEmpty)) = true
  · simp only [h1, if_true]
    refine ⟨fun names => ⟨fun h => (by cases h), ?_⟩, fun h => by cases h⟩
    rintro ⟨rfl, h2, _⟩
    simp only [Bool.and_eq_true, List.isEmpty_iff, Bool.not_eq_true', Bool.and_eq_false_iff] at h1
    have := h2 h1.1
    rcases h1.2 with h | h <;> simp [this] at h
  · simp only [h1, Bool.false_eq_true, if_false]
    by_cases h2 : (selNames sel lf rf).any (fun n => !(lf.contains n)) = true
    · simp only [h2, if_true]
      refine ⟨fun names => ⟨fun h => (by cases h), ?_⟩, fun h => by cases h⟩
      rintro ⟨rfl, _, h3⟩
      simp only [List.any_eq_true, Bool.not_eq_true', List.contains_eq_mem, decide_eq_false_iff_not] at h2
      obtain ⟨n, hn, hnl⟩ := h2
      exact absurd (h3 n hn).1 hnl
    · simp only [h2, Bool.false_eq_true, if_false]
      by_cases h3 : (selNames sel lf rf).any (fun n => !(rf.contains n)) = true
      · simp only [h3, if_true]
        refine ⟨fun names => ⟨fun h => (by cases h), ?_⟩, fun h => by cases h⟩
        rintro ⟨rfl, _, h4⟩
        simp only [List.any_eq_true, Bool.not_eq_true', List.contains_eq_mem, decide_eq_false_iff_not] at h3
        obtain ⟨n, hn, hnr⟩ := h3
        exact absurd (h4 n hn).2 hnr
      · simp only [h3, Bool.false_eq_true, if_false]
        refine ⟨fun names => ⟨?_, ?_⟩, fun h => by cases h⟩
        · intro h
          simp only [pure, Except.pure, Except.ok.injEq, Plan.descend.injEq] at h
          subst h
          refine ⟨rfl, ?_, ?_⟩
          · intro he
            simp only [he, List.isEmpty_nil, Bool.true_and, Bool.not_eq_true', Bool.not_eq_false] at h1
            simpa [List.isEmpty_iff] using h1
          · intro n hn
            simp only [List.any_eq_true, Bool.not_eq_true', List.contains_eq_mem, decide_eq_false_iff_not,
              not_exists, not_and, Decidable.not_not] at h2 h3
            exact ⟨h2 n hn, h3 n hn⟩
        · rintro ⟨rfl, _, _⟩
          rfl


/-! ### when does `assign` raise -/

/-- something goes wrong at call `c` itself -/
def Fails (c : Call) : Prop :=
  (∃ e, c.planOf = .error e) ∨
  (c.planOf = .ok .leaf ∧ ∃ e, c.leafOf = .error e) ∨
  (∃ names k o, c.planOf = .ok (.descend names) ∧ names.contains k = true ∧ (k, o) ∈ c.lhs.members.toList ∧
      (c.R.2.members.lookup k = none ∨ subSel c.sel k = none))

/-- a plain value or an int on the left is never descended into -/
theorem plan_scalar (lc : Option PCtx) (lhs : Obj) (rc : Option PCtx) (rhs : Obj) (sel : Sel) (names : List Key)
    (hs : (∃ st off w sg e, lhs = .val st off w sg e) ∨ (∃ v w sg en py, lhs = .int v w sg en py) ∨
      ∃ st off w id, lhs = .enumv st off w id) :
    plan lc lhs rc rhs sel ≠ .ok (.descend names) := by
  intro h
  unfold plan at h
  rcases hs with ⟨st, off, w, sg, e, rfl⟩ | ⟨v, w, sg, en, py, rfl⟩ | ⟨st, off, w, id, rfl⟩
  all_goals
    simp only [argFields] at h
    split at h
    · cases h
    · cases h
    · rename_i h1 _; cases h1
    · simp [isUnion, isMapping, pure, Except.pure] at h

mutual
theorem errObj : ∀ (lhs : Obj) (lc rc : Option PCtx) (rhs : Obj) (sel : Sel) (ls rs : Bool) (lp rp : Path)
    (e : Err), assignObj lhs lc rc rhs sel ls rs lp rp = .error e →
    ∃ c', Reach (nrm lhs lc rc rhs sel ls rs lp rp) c' ∧ Fails c'
  | .proxy i s t, lc, rc, rhs, sel, ls, rs, lp, rp, e, h => by
    rw [assignObj] at h
    exact errObj t (some ⟨i, s⟩) rc rhs sel ls rs lp rp e h
  | .view k st off sz ms, lc, rc, rhs, sel, ls, rs, lp, rp, e, h => by
    rw [assignObj] at h
    split at h
    · rename_i e' hplan
      exact ⟨_, .refl _, .inl ⟨e', hplan⟩⟩
    · rename_i hplan
      exact ⟨_, .refl _, .inr (.inl ⟨hplan, e, h⟩)⟩
    · rename_i names hplan
      rcases errMembers ms lc true (strip rc rhs).1 (strip rc rhs).2 sel names lp rp e h with
        ⟨k', o, hmem, hk, hbad⟩ | ⟨k', o, r, s', hmem, hk, hr, hs, c', hreach, hf⟩
      · exact ⟨_, .refl _, .inr (.inr ⟨names, k', o, hplan, hk, hmem, hbad⟩)⟩
      · exact ⟨c', .step (Step.mk (nrm (.view k st off sz ms) lc rc rhs sel ls rs lp rp) names k' o r s' hplan hk hmem hr hs) hreach, hf⟩
  | .const k sz v fl ms, lc, rc, rhs, sel, ls, rs, lp, rp, e, h => by
    rw [assignObj] at h
    split at h
    · rename_i e' hplan
      exact ⟨_, .refl _, .inl ⟨e', hplan⟩⟩
    · rename_i hplan
      exact ⟨_, .refl _, .inr (.inl ⟨hplan, e, h⟩)⟩
    · rename_i names hplan
      rcases errMembers ms lc true (strip rc rhs).1 (strip rc rhs).2 sel names lp rp e h with
        ⟨k', o, hmem, hk, hbad⟩ | ⟨k', o, r, s', hmem, hk, hr, hs, c', hreach, hf⟩
      · exact ⟨_, .refl _, .inr (.inr ⟨names, k', o, hplan, hk, hmem, hbad⟩)⟩
      · exact ⟨c', .step (Step.mk (nrm (.const k sz v fl ms) lc rc rhs sel ls rs lp rp) names k' o r s' hplan hk hmem hr hs) hreach, hf⟩
  | .dict ms, lc, rc, rhs, sel, ls, rs, lp, rp, e, h => by
    rw [assignObj] at h
    split at h
    · rename_i e' hplan
      exact ⟨_, .refl _, .inl ⟨e', hplan⟩⟩
    · rename_i hplan
      exact ⟨_, .refl _, .inr (.inl ⟨hplan, e, h⟩)⟩
    · rename_i names hplan
      rcases errMembers ms lc false (strip rc rhs).1 (strip rc rhs).2 sel names lp rp e h with
        ⟨k', o, hmem, hk, hbad⟩ | ⟨k', o, r, s', hmem, hk, hr, hs, c', hreach, hf⟩
      · exact ⟨_, .refl _, .inr (.inr ⟨names, k', o, hplan, hk, hmem, hbad⟩)⟩
      · exact ⟨c', .step (Step.mk (nrm (.dict ms) lc rc rhs sel ls rs lp rp) names k' o r s' hplan hk hmem hr hs) hreach, hf⟩
  | .list ms, lc, rc, rhs, sel, ls, rs, lp, rp, e, h => by
    rw [assignObj] at h
    split at h
    · rename_i e' hplan
      exact ⟨_, .refl _, .inl ⟨e', hplan⟩⟩
    · rename_i hplan
      exact ⟨_, .refl _, .inr (.inl ⟨hplan, e, h⟩)⟩
    · rename_i names hplan
      rcases errMembers ms lc false (strip rc rhs).1 (strip rc rhs).2 sel names lp rp e h with
        ⟨k', o, hmem, hk, hbad⟩ | ⟨k', o, r, s', hmem, hk, hr, hs, c', hreach, hf⟩
      · exact ⟨_, .refl _, .inr (.inr ⟨names, k', o, hplan, hk, hmem, hbad⟩)⟩
      · exact ⟨c', .step (Step.mk (nrm (.list ms) lc rc rhs sel ls rs lp rp) names k' o r s' hplan hk hmem hr hs) hreach, hf⟩
  | .val st off w sg ex, lc, rc, rhs, sel, ls, rs, lp, rp, e, h => by
    rw [assignObj] at h
    split at h
    · rename_i e' hplan
      exact ⟨_, .refl _, .inl ⟨e', hplan⟩⟩
    · rename_i hplan
      exact ⟨_, .refl _, .inr (.inl ⟨hplan, e, h⟩)⟩
    · rename_i names hplan
      exact absurd hplan (plan_scalar _ _ _ _ _ names (.inl ⟨st, off, w, sg, ex, rfl⟩))
  | .int v w sg en py, lc, rc, rhs, sel, ls, rs, lp, rp, e, h => by
    rw [assignObj] at h
    split at h
    · rename_i e' hplan
      exact ⟨_, .refl _, .inl ⟨e', hplan⟩⟩
    · rename_i hplan
      exact ⟨_, .refl _, .inr (.inl ⟨hplan, e, h⟩)⟩
    · rename_i names hplan
      exact absurd hplan (plan_scalar _ _ _ _ _ names (.inr (.inl ⟨v, w, sg, en, py, rfl⟩)))
  | .enumv st off w id, lc, rc, rhs, sel, ls, rs, lp, rp, e, h => by
    rw [assignObj] at h
    split at h
    · rename_i e' hplan
      exact ⟨_, .refl _, .inl ⟨e', hplan⟩⟩
    · rename_i hplan
      exact ⟨_, .refl _, .inr (.inl ⟨hplan, e, h⟩)⟩
    · rename_i names hplan
      exact absurd hplan (plan_scalar _ _ _ _ _ names (.inr (.inr ⟨st, off, w, id, rfl⟩)))
theorem errMembers : ∀ (ms : Members) (lc : Option PCtx) (lvl : Bool) (rc : Option PCtx) (rhs : Obj) (sel : Sel)
    (names : List Key) (lp rp : Path) (e : Err),
    assignMembers ms lc lvl rc rhs sel names lp rp = .error e →
    (∃ k o, (k, o) ∈ ms.toList ∧ names.contains k = true ∧
        (rhs.members.lookup k = none ∨ subSel sel k = none)) ∨
    (∃ k o r s', (k, o) ∈ ms.toList ∧ names.contains k = true ∧ rhs.members.lookup k = some r ∧
        subSel sel k = some s' ∧
        ∃ c', Reach (nrm o lc rc r s' (lvl && !isInt o) (isValueLike rhs && !isInt r) (lp ++ [k]) (rp ++ [k])) c' ∧ Fails c')
  | .nil, lc, lvl, rc, rhs, sel, names, lp, rp, e, h => by
    rw [assignMembers] at h
    cases h
  | .cons k o t, lc, lvl, rc, rhs, sel, names, lp, rp, e, h => by
    rw [assignMembers] at h
    have lift : ((∃ k' o', (k', o') ∈ t.toList ∧ names.contains k' = true ∧
          (rhs.members.lookup k' = none ∨ subSel sel k' = none)) ∨
        (∃ k' o' r s', (k', o') ∈ t.toList ∧ names.contains k' = true ∧ rhs.members.lookup k' = some r ∧
          subSel sel k' = some s' ∧
          ∃ c', Reach (nrm o' lc rc r s' (lvl && !isInt o') (isValueLike rhs && !isInt r) (lp ++ [k']) (rp ++ [k'])) c' ∧ Fails c')) →
        ((∃ k' o', (k', o') ∈ (Members.cons k o t).toList ∧ names.contains k' = true ∧
          (rhs.members.lookup k' = none ∨ subSel sel k' = none)) ∨
        (∃ k' o' r s', (k', o') ∈ (Members.cons k o t).toList ∧ names.contains k' = true ∧ rhs.members.lookup k' = some r ∧
          subSel sel k' = some s' ∧
          ∃ c', Reach (nrm o' lc rc r s' (lvl && !isInt o') (isValueLike rhs && !isInt r) (lp ++ [k']) (rp ++ [k'])) c' ∧ Fails c')) := by
      rintro (⟨k', o', hm, h2⟩ | ⟨k', o', r, s', hm, h2⟩)
      · exact .inl ⟨k', o', by simp [Members.toList, hm], h2⟩
      · exact .inr ⟨k', o', r, s', by simp [Members.toList, hm], h2⟩
    split at h
    · rename_i hk
      split at h
      · rename_i r s' hr hs
        split at h
        · rename_i e' hhere
          obtain ⟨c', hreach, hf⟩ := errObj o lc rc r s' _ _ _ _ e' hhere
          exact .inr ⟨k, o, r, s', by simp [Members.toList], hk, hr, hs, c', hreach, hf⟩
        · rename_i here hhere
          split at h
          · rename_i e' hrest
            exact lift (errMembers t lc lvl rc rhs sel names lp rp e' hrest)
          · cases h
      · rename_i hnone
        refine .inl ⟨k, o, by simp [Members.toList], hk, ?_⟩
        cases hl : rhs.members.lookup k with
        | none => exact .inl rfl
        | some r =>
          cases hs : subSel sel k with
          | none => exact .inr rfl
          | some s' => exact absurd hs (fun hs' => hnone r s' hl hs')
    · exact lift (errMembers t lc lvl rc rhs sel names lp rp e h)
end



/-- a leaf call that succeeded: nothing reachable from it fails -/
theorem leaf_nofail (root : Call) (ps : List Pair) (hplan : root.planOf = .ok .leaf) (h : root.leafOf = .ok ps) :
    ∀ c', Reach root c' → ¬ Fails c' := by
  intro c' hreach hf
  cases hreach with
  | refl =>
    rcases hf with ⟨e, he⟩ | ⟨_, e, he⟩ | ⟨names, k, o, h1, _⟩
    · rw [hplan] at he; cases he
    · rw [h] at he; cases he
    · rw [hplan] at h1; cases h1
  | step hstep _ =>
    cases hstep with
    | mk names k o r s' h1 _ _ _ _ => rw [hplan] at h1; cases h1

mutual
theorem okObj : ∀ (lhs : Obj) (lc rc : Option PCtx) (rhs : Obj) (sel : Sel) (ls rs : Bool) (lp rp : Path)
    (ps : List Pair), assignObj lhs lc rc rhs sel ls rs lp rp = .ok ps →
    ∀ c', Reach (nrm lhs lc rc rhs sel ls rs lp rp) c' → ¬ Fails c'
  | .proxy i s t, lc, rc, rhs, sel, ls, rs, lp, rp, ps, h => by
    rw [assignObj] at h
    exact okObj t (some ⟨i, s⟩) rc rhs sel ls rs lp rp ps h
  | .view k st off sz ms, lc, rc, rhs, sel, ls, rs, lp, rp, ps, h => by
    rw [assignObj] at h
    intro c' hreach hf
    split at h
    · cases h
    · rename_i hplan
      exact leaf_nofail (nrm (.view k st off sz ms) lc rc rhs sel ls rs lp rp) ps hplan h c' hreach hf
    · rename_i names hplan
      have hplan' : (nrm (.view k st off sz ms) lc rc rhs sel ls rs lp rp).planOf = .ok (.descend names) := hplan
      cases hreach with
      | refl =>
        rcases hf with ⟨e, he⟩ | ⟨hl, _⟩ | ⟨names', k', o, h1, h2, h3, hbad⟩
        · rw [hplan'] at he; cases he
        · rw [hplan'] at hl; cases hl
        · rw [hplan'] at h1; cases h1
          obtain ⟨⟨r, s', hr, hs⟩, _⟩ := okMembers ms lc true (strip rc rhs).1 (strip rc rhs).2 sel names lp rp ps h k' o h3 h2
          rcases hbad with hb | hb
          · have hr' : (strip rc rhs).2.members.lookup k' = some r := hr
            have hb' : (strip rc rhs).2.members.lookup k' = none := hb
            rw [hr'] at hb'; cases hb'
          · have hb' : subSel sel k' = none := hb
            rw [hs] at hb'; cases hb'
      | step hstep hrest =>
        cases hstep with
        | mk names' k' o r s' h1 h2 h3 h4 h5 =>
          rw [hplan'] at h1; cases h1
          exact (okMembers ms lc true (strip rc rhs).1 (strip rc rhs).2 sel names lp rp ps h k' o h3 h2).2 r s' h4 h5 c' hrest hf
  | .const k sz v fl ms, lc, rc, rhs, sel, ls, rs, lp, rp, ps, h => by
    rw [assignObj] at h
    intro c' hreach hf
    split at h
    · cases h
    · rename_i hplan
      exact leaf_nofail (nrm (.const k sz v fl ms) lc rc rhs sel ls rs lp rp) ps hplan h c' hreach hf
    · rename_i names hplan
      have hplan' : (nrm (.const k sz v fl ms) lc rc rhs sel ls rs lp rp).planOf = .ok (.descend names) := hplan
      cases hreach with
      | refl =>
        rcases hf with ⟨e, he⟩ | ⟨hl, _⟩ | ⟨names', k', o, h1, h2, h3, hbad⟩
        · rw [hplan'] at he; cases he
        · rw [hplan'] at hl; cases hl
        · rw [hplan'] at h1; cases h1
          obtain ⟨⟨r, s', hr, hs⟩, _⟩ := okMembers ms lc true (strip rc rhs).1 (strip rc rhs).2 sel names lp rp ps h k' o h3 h2
          rcases hbad with hb | hb
          · have hr' : (strip rc rhs).2.members.lookup k' = some r := hr
            have hb' : (strip rc rhs).2.members.lookup k' = none := hb
            rw [hr'] at hb'; cases hb'
          · have hb' : subSel sel k' = none := hb
            rw [hs] at hb'; cases hb'
      | step hstep hrest =>
        cases hstep with
        | mk names' k' o r s' h1 h2 h3 h4 h5 =>
          rw [hplan'] at h1; cases h1
          exact (okMembers ms lc true (strip rc rhs).1 (strip rc rhs).2 sel names lp rp ps h k' o h3 h2).2 r s' h4 h5 c' hrest hf
  | .dict ms, lc, rc, rhs, sel, ls, rs, lp, rp, ps, h => by
    rw [assignObj] at h
    intro c' hreach hf
    split at h
    · cases h
    · rename_i hplan
      exact leaf_nofail (nrm (.dict ms) lc rc rhs sel ls rs lp rp) ps hplan h c' hreach hf
    · rename_i names hplan
      have hplan' : (nrm (.dict ms) lc rc rhs sel ls rs lp rp).planOf = .ok (.descend names) := hplan
      cases hreach with
      | refl =>
        rcases hf with ⟨e, he⟩ | ⟨hl, _⟩ | ⟨names', k', o, h1, h2, h3, hbad⟩
        · rw [hplan'] at he; cases he
        · rw [hplan'] at hl; cases hl
        · rw [hplan'] at h1; cases h1
          obtain ⟨⟨r, s', hr, hs⟩, _⟩ := okMembers ms lc false (strip rc rhs).1 (strip rc rhs).2 sel names lp rp ps h k' o h3 h2
          rcases hbad with hb | hb
          · have hr' : (strip rc rhs).2.members.lookup k' = some r := hr
            have hb' : (strip rc rhs).2.members.lookup k' = none := hb
            rw [hr'] at hb'; cases hb'
          · have hb' : subSel sel k' = none := hb
            rw [hs] at hb'; cases hb'
      | step hstep hrest =>
        cases hstep with
        | mk names' k' o r s' h1 h2 h3 h4 h5 =>
          rw [hplan'] at h1; cases h1
          exact (okMembers ms lc false (strip rc rhs).1 (strip rc rhs).2 sel names lp rp ps h k' o h3 h2).2 r s' h4 h5 c' hrest hf
  | .list ms, lc, rc, rhs, sel, ls, rs, lp, rp, ps, h => by
    rw [assignObj] at h
    intro c' hreach hf
    split at h
    · cases h
    · rename_i hplan
      exact leaf_nofail (nrm (.list ms) lc rc rhs sel ls rs lp rp) ps hplan h c' hreach hf
    · rename_i names hplan
      have hplan' : (nrm (.list ms) lc rc rhs sel ls rs lp rp).planOf = .ok (.descend names) := hplan
      cases hreach with
      | refl =>
        rcases hf with ⟨e, he⟩ | ⟨hl, _⟩ | ⟨names', k', o, h1, h2, h3, hbad⟩
        · rw [hplan'] at he; cases he
        · rw [hplan'] at hl; cases hl
        · rw [hplan'] at h1; cases h1
          obtain ⟨⟨r, s', hr, hs⟩, _⟩ := okMembers ms lc false (strip rc rhs).1 (strip rc rhs).2 sel names lp rp ps h k' o h3 h2
          rcases hbad with hb | hb
          · have hr' : (strip rc rhs).2.members.lookup k' = some r := hr
            have hb' : (strip rc rhs).2.members.lookup k' = none := hb
            rw [hr'] at hb'; cases hb'
          · have hb' : subSel sel k' = none := hb
            rw [hs] at hb'; cases hb'
      | step hstep hrest =>
        cases hstep with
        | mk names' k' o r s' h1 h2 h3 h4 h5 =>
          rw [hplan'] at h1; cases h1
          exact (okMembers ms lc false (strip rc rhs).1 (strip rc rhs).2 sel names lp rp ps h k' o h3 h2).2 r s' h4 h5 c' hrest hf
  | .val st off w sg ex, lc, rc, rhs, sel, ls, rs, lp, rp, ps, h => by
    rw [assignObj] at h
    intro c' hreach hf
    split at h
    · cases h
    · rename_i hplan
      exact leaf_nofail (nrm (.val st off w sg ex) lc rc rhs sel ls rs lp rp) ps hplan h c' hreach hf
    · cases h
  | .int v w sg en py, lc, rc, rhs, sel, ls, rs, lp, rp, ps, h => by
    rw [assignObj] at h
    intro c' hreach hf
    split at h
    · cases h
    · rename_i hplan
      exact leaf_nofail (nrm (.int v w sg en py) lc rc rhs sel ls rs lp rp) ps hplan h c' hreach hf
    · cases h
  | .enumv st off w id, lc, rc, rhs, sel, ls, rs, lp, rp, ps, h => by
    rw [assignObj] at h
    intro c' hreach hf
    split at h
    · cases h
    · rename_i hplan
      exact leaf_nofail (nrm (.enumv st off w id) lc rc rhs sel ls rs lp rp) ps hplan h c' hreach hf
    · cases h
theorem okMembers : ∀ (ms : Members) (lc : Option PCtx) (lvl : Bool) (rc : Option PCtx) (rhs : Obj) (sel : Sel)
    (names : List Key) (lp rp : Path) (ps : List Pair),
    assignMembers ms lc lvl rc rhs sel names lp rp = .ok ps →
    ∀ k o, (k, o) ∈ ms.toList → names.contains k = true →
      (∃ r s', rhs.members.lookup k = some r ∧ subSel sel k = some s') ∧
      ∀ r s', rhs.members.lookup k = some r → subSel sel k = some s' →
        ∀ c', Reach (nrm o lc rc r s' (lvl && !isInt o) (isValueLike rhs && !isInt r) (lp ++ [k]) (rp ++ [k])) c' → ¬ Fails c'
  | .nil, lc, lvl, rc, rhs, sel, names, lp, rp, ps, h => by
    intro k o hmem
    simp [Members.toList] at hmem
  | .cons k o t, lc, lvl, rc, rhs, sel, names, lp, rp, ps, h => by
    rw [assignMembers] at h
    intro k' o' hmem hk'
    simp only [Members.toList, List.mem_cons, Prod.mk.injEq] at hmem
    split at h
    · rename_i hk
      split at h
      · rename_i r s' hr hs
        split at h
        · cases h
        · rename_i here hhere
          split at h
          · cases h
          · rename_i rest hrest
            rcases hmem with ⟨rfl, rfl⟩ | hmem
            · refine ⟨⟨r, s', hr, hs⟩, ?_⟩
              intro r' s'' hr' hs' c' hreach
              rw [hr] at hr'; cases hr'
              rw [hs] at hs'; cases hs'
              exact okObj o' lc rc r s' _ _ _ _ here hhere c' hreach
            · exact okMembers t lc lvl rc rhs sel names lp rp rest hrest k' o' hmem hk'
      · cases h
    · rename_i hk
      rcases hmem with ⟨rfl, rfl⟩ | hmem
      · exact absurd hk' hk
      · exact okMembers t lc lvl rc rhs sel names lp rp ps h k' o' hmem hk'
end



/-! ### each selected leaf pair gets one statement only -/

mutual
/-- member keys are pairwise distinct at every level (struct members and dicts are Python dicts) -/
def wfObj : Obj → Prop
  | .view _ _ _ _ ms => wfMembers ms
  | .dict ms => wfMembers ms
  | .list ms => wfMembers ms
  | .proxy _ _ t => wfObj t
  | .val .. => True
  | .int .. => True
  | .enumv .. => True
  | .const _ _ _ _ ms => wfMembers ms
def wfMembers : Members → Prop
  | .nil => True
  | .cons k o t => k ∉ t.keys ∧ wfObj o ∧ wfMembers t
end

theorem fromLeaf_prefix (root : Call) (p : Pair) (h : FromLeaf root p) :
    root.lp <+: p.lpath ∧ root.rp <+: p.rpath := by
  obtain ⟨c', hreach, _, hleaf⟩ := h
  obtain ⟨q, h1, h2⟩ := reach_paths hreach
  obtain ⟨_, _, _, l, ul, r, ur, _, _, hp1, hp2, _⟩ := leaf_spec _ _ _ _ _ _ _ _ _ p hleaf
  exact ⟨⟨q ++ ul, by rw [hp1, h1]; simp⟩, ⟨q ++ ur, by rw [hp2, h2]; simp⟩⟩

theorem mem_keys_of_mem_toList : ∀ (ms : Members) (k : Key) (o : Obj), (k, o) ∈ ms.toList → k ∈ ms.keys
  | .nil, _, _, h => by simp [Members.toList] at h
  | .cons k' o' t, k, o, h => by
    simp only [Members.toList, List.mem_cons, Prod.mk.injEq] at h
    rcases h with ⟨rfl, _⟩ | h
    · simp [Members.keys]
    · simp [Members.keys, mem_keys_of_mem_toList t k o h]

theorem prefix_snoc_inj {α} (a : List α) (x y : α) (l : List α) (hx : a ++ [x] <+: l) (hy : a ++ [y] <+: l) : x = y := by
  obtain ⟨t1, h1⟩ := hx
  obtain ⟨t2, h2⟩ := hy
  rw [← h2] at h1
  simp only [List.append_assoc, List.append_cancel_left_eq, List.cons_append, List.nil_append, List.cons.injEq] at h1
  exact h1.1

mutual
theorem nodupObj : ∀ (lhs : Obj) (lc rc : Option PCtx) (rhs : Obj) (sel : Sel) (ls rs : Bool) (lp rp : Path)
    (ps : List Pair), wfObj lhs → assignObj lhs lc rc rhs sel ls rs lp rp = .ok ps → (ps.map (·.lpath)).Nodup
  | .proxy i s t, lc, rc, rhs, sel, ls, rs, lp, rp, ps, hw, h => by
    rw [assignObj] at h
    rw [wfObj] at hw
    exact nodupObj t (some ⟨i, s⟩) rc rhs sel ls rs lp rp ps hw h
  | .view k st off sz ms, lc, rc, rhs, sel, ls, rs, lp, rp, ps, hw, h => by
    rw [assignObj] at h
    rw [wfObj] at hw
    split at h
    · cases h
    · obtain ⟨p, rfl⟩ := assignLeaf_single _ _ _ _ _ _ _ _ _ _ h; simp
    · exact nodupMembers ms lc true _ _ sel _ lp rp ps hw h
  | .const k sz v fl ms, lc, rc, rhs, sel, ls, rs, lp, rp, ps, hw, h => by
    rw [assignObj] at h
    rw [wfObj] at hw
    split at h
    · cases h
    · obtain ⟨p, rfl⟩ := assignLeaf_single _ _ _ _ _ _ _ _ _ _ h; simp
    · exact nodupMembers ms lc true _ _ sel _ lp rp ps hw h
  | .dict ms, lc, rc, rhs, sel, ls, rs, lp, rp, ps, hw, h => by
    rw [assignObj] at h
    rw [wfObj] at hw
    split at h
    · cases h
    · obtain ⟨p, rfl⟩ := assignLeaf_single _ _ _ _ _ _ _ _ _ _ h; simp
    · exact nodupMembers ms lc false _ _ sel _ lp rp ps hw h
  | .list ms, lc, rc, rhs, sel, ls, rs, lp, rp, ps, hw, h => by
    rw [assignObj] at h
    rw [wfObj] at hw
    split at h
    · cases h
    · obtain ⟨p, rfl⟩ := assignLeaf_single _ _ _ _ _ _ _ _ _ _ h; simp
    · exact nodupMembers ms lc false _ _ sel _ lp rp ps hw h
  | .val st off w sg ex, lc, rc, rhs, sel, ls, rs, lp, rp, ps, hw, h => by
    rw [assignObj] at h
    split at h
    · cases h
    · obtain ⟨p, rfl⟩ := assignLeaf_single _ _ _ _ _ _ _ _ _ _ h; simp
    · cases h
  | .int v w sg en py, lc, rc, rhs, sel, ls, rs, lp, rp, ps, hw, h => by
    rw [assignObj] at h
    split at h
    · cases h
    · obtain ⟨p, rfl⟩ := assignLeaf_single _ _ _ _ _ _ _ _ _ _ h; simp
    · cases h
  | .enumv st off w id, lc, rc, rhs, sel, ls, rs, lp, rp, ps, hw, h => by
    rw [assignObj] at h
    split at h
    · cases h
    · obtain ⟨p, rfl⟩ := assignLeaf_single _ _ _ _ _ _ _ _ _ _ h; simp
    · cases h
theorem nodupMembers : ∀ (ms : Members) (lc : Option PCtx) (lvl : Bool) (rc : Option PCtx) (rhs : Obj) (sel : Sel)
    (names : List Key) (lp rp : Path) (ps : List Pair), wfMembers ms →
    assignMembers ms lc lvl rc rhs sel names lp rp = .ok ps → (ps.map (·.lpath)).Nodup
  | .nil, lc, lvl, rc, rhs, sel, names, lp, rp, ps, hw, h => by
    rw [assignMembers] at h
    cases h
    simp
  | .cons k o t, lc, lvl, rc, rhs, sel, names, lp, rp, ps, hw, h => by
    rw [wfMembers] at hw
    obtain ⟨hk, hwo, hwt⟩ := hw
    rw [assignMembers] at h
    split at h
    · split at h
      · rename_i r s' hr hs
        split at h
        · cases h
        · rename_i here hhere
          split at h
          · cases h
          · rename_i rest hrest
            cases h
            rw [List.map_append, List.nodup_append]
            refine ⟨nodupObj o lc rc r s' _ _ _ _ here hwo hhere,
              nodupMembers t lc lvl rc rhs sel names lp rp rest hwt hrest, ?_⟩
            intro a ha b hb hab
            obtain ⟨p, hp, rfl⟩ := List.mem_map.mp ha
            obtain ⟨p', hp', rfl⟩ := List.mem_map.mp hb
            have h1 := (fromLeaf_prefix _ p (soundObj o lc rc r s' _ _ _ _ here hhere p hp)).1
            obtain ⟨k', o', r', s'', hmem, _, _, _, hfl⟩ := soundMembers t lc lvl rc rhs sel names lp rp rest hrest p' hp'
            have h2 := (fromLeaf_prefix _ p' hfl).1
            have h1' : lp ++ [k] <+: p.lpath := h1
            have h2' : lp ++ [k'] <+: p'.lpath := h2
            rw [← hab] at h2'
            have := prefix_snoc_inj lp k k' _ h1' h2'
            subst this
            exact hk (mem_keys_of_mem_toList t k o' hmem)
      · cases h
    · exact nodupMembers t lc lvl rc rhs sel names lp rp ps hwt h
end


/-! ### nested proxies -/

mutual
theorem select_mem : ∀ (t : PTree) (is : List Nat) (s : Nat), t.select is = some s → s ∈ t.leaves
  | .leaf s', [], s, h => by simp [PTree.select] at h; simp [PTree.leaves, h]
  | .leaf _, _ :: _, s, h => by simp [PTree.select] at h
  | .node _, [], s, h => by simp [PTree.select] at h
  | .node cs, i :: is, s, h => by
    simp only [PTree.select] at h
    simpa [PTree.leaves] using selects_mem cs i is s h
theorem selects_mem : ∀ (cs : PTrees) (i : Nat) (is : List Nat) (s : Nat), cs.select i is = some s → s ∈ cs.leaves
  | .nil, _, _, s, h => by simp [PTrees.select] at h
  | .cons t ts, 0, is, s, h => by
    simp only [PTrees.select] at h
    simp [PTrees.leaves, select_mem t is s h]
  | .cons t ts, i + 1, is, s, h => by
    simp only [PTrees.select] at h
    simp [PTrees.leaves, selects_mem ts i is s h]
end

theorem getElem?_idxOf_mem (l : List Nat) (s : Nat) (h : s ∈ l) : l[l.idxOf s]? = some s := by
  induction l with
  | nil => simp at h
  | cons a t ih =>
    by_cases e : a = s
    · subst e; simp
    · have : s ∈ t := by simpa [Ne.symm e] using h
      have hb : (a == s) = false := by simpa using e
      simp [List.idxOf_cons, hb, ih this]

/-! ### explicit shapes: values without an explicit shape occur only as members of views -/

mutual
/-- a value without "explicit shape" (the `as_signed()` operator of a signed member) occurs only directly
    inside a view (`inView`); a `Signal` held by a dict/list or given directly is explicit -/
def okE (inView : Bool) : Obj → Prop
  | .val _ _ _ _ e => inView = true ∨ e = true
  | .int .. => True
  | .enumv .. => True
  | .const _ _ _ _ ms => okEM true ms
  | .view _ _ _ _ ms => okEM true ms
  | .dict ms => okEM false ms
  | .list ms => okEM false ms
  | .proxy _ _ t => okE true t
def okEM (inView : Bool) : Members → Prop
  | .nil => True
  | .cons _ o t => okE inView o ∧ okEM inView t
end

theorem okEM_mem (b : Bool) : ∀ (ms : Members) (k : Key) (o : Obj), okEM b ms → (k, o) ∈ ms.toList → okE b o
  | .nil, _, _, _, h => by simp [Members.toList] at h
  | .cons k' o' t, k, o, hw, h => by
    rw [okEM] at hw
    simp only [Members.toList, List.mem_cons, Prod.mk.injEq] at h
    rcases h with ⟨_, rfl⟩ | h
    · exact hw.1
    · exact okEM_mem b t k o hw.2 h

theorem okEM_lookup (b : Bool) : ∀ (ms : Members) (k : Key) (o : Obj), okEM b ms → ms.lookup k = some o → okE b o
  | .nil, _, _, _, h => by simp [Members.lookup] at h
  | .cons k' o' t, k, o, hw, h => by
    rw [okEM] at hw
    rw [Members.lookup] at h
    split at h
    · cases h; exact hw.1
    · exact okEM_lookup b t k o hw.2 h

def NotProxy (o : Obj) : Prop := ∀ i s t, o ≠ .proxy i s t

/-- one operand is fine: either it is explicit by construction, or strict, or read through an ArrayProxy, or an int -/
def SideOK (c : Option PCtx) (o : Obj) (strict : Bool) : Prop :=
  ∃ b, okE b o ∧ (b = true → strict = true ∨ c.isSome = true ∨ isInt o = true)

theorem stripAll_ok : ∀ (o : Obj) (c : Option PCtx) (strict : Bool), SideOK c o strict →
    SideOK (stripAll c o).1 (stripAll c o).2 strict ∧ NotProxy (stripAll c o).2
  | .proxy i s t, c, strict, ⟨b, hb, _⟩ => by
    rw [okE] at hb
    exact stripAll_ok t (some ⟨i, s⟩) strict ⟨true, hb, fun _ => .inr (.inl rfl)⟩
  | .val .., c, strict, h => ⟨h, by intro i s t e; cases e⟩
  | .int .., c, strict, h => ⟨h, by intro i s t e; cases e⟩
  | .enumv .., c, strict, h => ⟨h, by intro i s t e; cases e⟩
  | .const .., c, strict, h => ⟨h, by intro i s t e; cases e⟩
  | .view .., c, strict, h => ⟨h, by intro i s t e; cases e⟩
  | .dict _, c, strict, h => ⟨h, by intro i s t e; cases e⟩
  | .list _, c, strict, h => ⟨h, by intro i s t e; cases e⟩

structure Inv (c : Call) : Prop where
  l : SideOK c.lc c.lhs c.ls
  np : NotProxy c.lhs
  r : SideOK c.rc c.rhs c.rs

theorem inv_nrm (lhs : Obj) (lc rc : Option PCtx) (rhs : Obj) (sel : Sel) (ls rs : Bool) (lp rp : Path)
    (hl : SideOK lc lhs ls) (hr : SideOK rc rhs rs) : Inv (nrm lhs lc rc rhs sel ls rs lp rp) :=
  ⟨(stripAll_ok lhs lc ls hl).1, (stripAll_ok lhs lc ls hl).2, hr⟩

/-- members of a stripped operand -/
theorem member_side (c : Option PCtx) (o m : Obj) (strict : Bool) (h : SideOK c o strict) (hnp : NotProxy o)
    (hm : okEM true o.members → okE true m) (hm' : okEM false o.members → okE false m) :
    SideOK c m (isValueLike o && !isInt m) := by
  obtain ⟨b, hb, _⟩ := h
  cases o with
  | proxy i s t => exact absurd rfl (hnp i s t)
  | view k st off sz ms =>
    rw [okE] at hb
    refine ⟨true, hm hb, fun _ => ?_⟩
    cases hi : isInt m <;> simp [isValueLike]
  | dict ms => rw [okE] at hb; exact ⟨false, hm' hb, fun h => by cases h⟩
  | list ms => rw [okE] at hb; exact ⟨false, hm' hb, fun h => by cases h⟩
  | const k sz v fl ms =>
    rw [okE] at hb
    refine ⟨true, hm hb, fun _ => ?_⟩
    cases hi : isInt m <;> simp [isValueLike]
  | val st off w sg e =>
    exact ⟨false, hm' (by simp [Obj.members, okEM]), fun h => by cases h⟩
  | int v w sg en py =>
    exact ⟨false, hm' (by simp [Obj.members, okEM]), fun h => by cases h⟩
  | enumv st off w id =>
    exact ⟨false, hm' (by simp [Obj.members, okEM]), fun h => by cases h⟩

/-- the right operand after `strip` -/
theorem strip_side (c : Option PCtx) (o : Obj) (strict : Bool) (h : SideOK c o strict) :
    SideOK (strip c o).1 (strip c o).2 strict ∧ ((strip c o).1.isSome = true ∨ NotProxy (strip c o).2) := by
  cases o with
  | proxy i s t =>
    obtain ⟨b, hb, _⟩ := h
    rw [okE] at hb
    exact ⟨⟨true, hb, fun _ => .inr (.inl rfl)⟩, .inl rfl⟩
  | val st off w sg e => exact ⟨h, .inr (by intro i s t e; cases e)⟩
  | int v w sg en py => exact ⟨h, .inr (by intro i s t e; cases e)⟩
  | enumv st off w id => exact ⟨h, .inr (by intro i s t e; cases e)⟩
  | const k sz v fl ms => exact ⟨h, .inr (by intro i s t e; cases e)⟩
  | view k st off sz ms => exact ⟨h, .inr (by intro i s t e; cases e)⟩
  | dict ms => exact ⟨h, .inr (by intro i s t e; cases e)⟩
  | list ms => exact ⟨h, .inr (by intro i s t e; cases e)⟩

theorem inv_step {a b : Call} (hi : Inv a) (hs : Step a b) : Inv b := by
  cases hs with
  | mk names k o r s' _ _ hmem hlook _ =>
    have hl : SideOK a.lc o (isValueLike a.lhs && !isInt o) :=
      member_side a.lc a.lhs o a.ls hi.l hi.np (fun h => okEM_mem true _ k o h hmem) (fun h => okEM_mem false _ k o h hmem)
    obtain ⟨hR, hRp⟩ := strip_side a.rc a.rhs a.rs hi.r
    have hr : SideOK a.R.1 r (isValueLike a.R.2 && !isInt r) := by
      rcases hRp with hsome | hnp
      · -- read through an ArrayProxy: everything below is explicit
        obtain ⟨b, hb0, _⟩ := hR
        have hb : okE b a.R.2 := hb0
        have : ∃ b', okE b' r := by
          cases hR2 : a.R.2 with
          | proxy i s t => rw [hR2] at hlook; simp [Obj.members, Members.lookup] at hlook
          | view k' st off sz ms =>
            rw [hR2] at hb hlook; rw [okE] at hb; exact ⟨true, okEM_lookup true _ k r hb hlook⟩
          | dict ms => rw [hR2] at hb hlook; rw [okE] at hb; exact ⟨false, okEM_lookup false _ k r hb hlook⟩
          | list ms => rw [hR2] at hb hlook; rw [okE] at hb; exact ⟨false, okEM_lookup false _ k r hb hlook⟩
          | const k' sz v fl ms =>
            rw [hR2] at hb hlook; rw [okE] at hb; exact ⟨true, okEM_lookup true _ k r hb hlook⟩
          | val st off w sg e => rw [hR2] at hlook; simp [Obj.members, Members.lookup] at hlook
          | int v w sg en py => rw [hR2] at hlook; simp [Obj.members, Members.lookup] at hlook
          | enumv st off w id => rw [hR2] at hlook; simp [Obj.members, Members.lookup] at hlook
        obtain ⟨b', hb'⟩ := this
        exact ⟨b', hb', fun _ => .inr (.inl hsome)⟩
      · exact member_side a.R.1 a.R.2 r a.rs hR hnp (fun h => okEM_lookup true _ k r h hlook)
          (fun h => okEM_lookup false _ k r h hlook)
    exact inv_nrm o a.lc a.R.1 r s' _ _ _ _ hl hr

theorem inv_reach {a b : Call} (hi : Inv a) (hr : Reach a b) : Inv b := by
  induction hr with
  | refl _ => exact hi
  | step hs _ ih => exact ih (inv_step hi hs)

theorem chain_nil (c : Option PCtx) (o o' : Obj) (h : Chain c o [] o') : o' = o := by
  cases h; rfl

/-- a Python constant: an int or a member of an Enum class -/
def isLit : Obj → Bool
  | .int .. => true
  | _ => false

/-- an operand that is neither a Python constant nor a container is explicit, strict, or was reached by unwrapping -/
theorem side_checked (c : Option PCtx) (o l : Obj) (ul : Path) (strict : Bool) (h : SideOK c o strict)
    (hp : c.isSome = true ∨ NotProxy o) (hv : isValueLike o = true) (hu : unwrap c o = .ok (l, ul))
    (hint : isLit l = false) : (strictAfter strict ul l || explicit c l) = true := by
  cases ul with
  | cons k t =>
    have : isInt l = false := by cases l <;> simp_all [isLit, isInt]
    simp [strictAfter, this]
  | nil =>
    have := chain_nil c o l (unwrap_chain c o l [] hu)
    subst this
    obtain ⟨b, hb, hstrict⟩ := h
    cases l with
    | int v w sg en py => simp [isLit] at hint
    | enumv st off w id => simp [explicit]
    | const k sz v fl ms => simp [explicit]
    | dict ms => simp [isValueLike] at hv
    | list ms => simp [isValueLike] at hv
    | view k st off sz ms => simp [explicit]
    | proxy i s t =>
      rcases hp with hp | hp
      · simp [explicit, hp]
      · exact absurd rfl (hp i s t)
    | val st off w sg e =>
      rw [okE] at hb
      rcases hb with hb | hb
      · rcases hstrict hb with h1 | h1 | h1
        · simp [strictAfter, h1]
        · simp [explicit, h1]
        · simp [isInt] at h1
      · simp [explicit, hb]


end TxV.Assign
