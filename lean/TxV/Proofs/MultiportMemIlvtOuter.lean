import TxV.Proofs.MultiportMemOneHot
/-!
Helper lemmas for C23, part 6: `MultiportILVTMemory` (all three table kinds) refines the ideal
memory.  The table is abstracted by `Table.Spec`: it answers like an ideal non-transparent memory
`tt` of bank numbers (for the one-hot table: in the cycle after an enabled read, which is the only
time `MultiportILVTMemory` looks at it).  The invariant says that row `a` of the ideal memory is
row `a` of the bank the ideal table points to.
-/
namespace TxV.MultiportMem.Ilvt

/-- the table refines the ideal table `tt`; `en r` = the read-enable of port `r` in the previous cycle -/
def Table.Spec (c : Cfg) (tb : Table) (en : Nat → Bool) (tt : Ideal.State) : Prop :=
  match tb with
  | .xor s => ∃ B, Xor.Inv (tableCfg c) s tt B
  | .plain s => s = tt
  | .onehot s => (∃ R, OneHot.Inv c s tt R) ∧ ∀ r, r < c.nr → nthD false s.rdEnBy r = en r

theorem spec_sel {c : Cfg} {tb : Table} {en : Nat → Bool} {tt : Ideal.State} (h : Table.Spec c tb en tt)
    {r : Nat} (hr : r < c.nr) (hen : en r = true) : tb.sel c r = nthD 0 tt.rdata r := by
  cases tb with
  | xor s =>
    obtain ⟨B, hB⟩ := h
    exact hB.out r (by rw [tableCfg_nr]; exact hr)
  | plain s =>
    simp only [Table.Spec] at h
    subst h; rfl
  | onehot s =>
    obtain ⟨⟨R, hR⟩, he⟩ := h
    exact hR.out r hr (by rw [he r hr]; exact hen)

theorem spec_init (kind : Kind) (c : Cfg) (hnw : 0 < c.nw) :
    Table.Spec c (Table.init kind c) (fun _ => false) (Ideal.init (tableCfg c)) := by
  cases kind with
  | xor => exact ⟨_, Xor.inv_init (tableCfg c) (by rw [tableCfg_nw]; exact hnw)⟩
  | plain => rfl
  | onehot =>
    refine ⟨⟨_, OneHot.inv_init c hnw⟩, fun r hr => ?_⟩
    simp [OneHot.init, nthD_tab_lt _ _ hr]

theorem spec_step {c : Cfg} {tb : Table} {en : Nat → Bool} {tt : Ideal.State} (h : Table.Spec c tb en tt)
    (i : In) (hi : OkIn c i) :
    Table.Spec c (tb.step c i) (fun r => i.rEn r) (Ideal.step (tableCfg c) tt (tableIn c i)) := by
  cases tb with
  | xor s =>
    obtain ⟨B, hB⟩ := h
    exact ⟨_, Xor.inv_step (tableCfg_grans c) hB (tableIn c i) (okIn_table c i hi)⟩
  | plain s =>
    simp only [Table.Spec] at h
    subst h; rfl
  | onehot s =>
    obtain ⟨⟨R, hR⟩, _⟩ := h
    refine ⟨⟨_, OneHot.inv_step hR i hi⟩, fun r hr => ?_⟩
    simp only []
    rw [OneHot.step_rdEnBy _ _ s _ hr, tableIn_rEn c i hr]

theorem spec_congr {c : Cfg} {tb : Table} {en en' : Nat → Bool} {tt : Ideal.State} (h : Table.Spec c tb en tt)
    (he : ∀ r, r < c.nr → en r = en' r) : Table.Spec c tb en' tt := by
  cases tb with
  | xor s => exact h
  | plain s => exact h
  | onehot s => exact ⟨h.1, fun r hr => by rw [h.2 r hr, he r hr]⟩

/-! ### the bypass multiplexer -/

theorem byOr_none (c : Cfg) (s : State) (r n : Nat) (h : ∀ k, k < n → bySel c s r k = false) :
    byOr c s r n = (0, false) := by
  induction n with
  | zero => rfl
  | succ n ih =>
    simp only [byOr]
    rw [ih (fun k hk => h k (Nat.lt_succ_of_lt hk))]
    simp [h n (Nat.lt_succ_self n)]

theorem byOr_one (c : Cfg) (s : State) (r n j : Nat) (hj : j < n) (hsel : bySel c s r j = true)
    (h : ∀ k, k < n → k ≠ j → bySel c s r k = false) :
    byOr c s r n = (nthD 0 s.wDataBy j, true) := by
  induction n with
  | zero => omega
  | succ n ih =>
    simp only [byOr]
    by_cases hn : n = j
    · subst hn
      rw [byOr_none c s r n (fun k hk => h k (Nat.lt_succ_of_lt hk) (by omega))]
      simp [hsel]
    · rw [ih (by omega) (fun k hk => h k (Nat.lt_succ_of_lt hk))]
      simp [h n (Nat.lt_succ_self n) hn]

/-! ### invariant -/

def nextBk (c : Cfg) (i : In) (Bk : Nat → List Nat) (k : Nat) : List Nat := write1 c.w 0 (Bk k) (i.w k)

structure Inv (c : Cfg) (s : State) (t tt : Ideal.State) (Bk : Nat → List Nat) : Prop where
  bankMem : ∀ k r, k < c.nw → r < c.nr → (bankR s k r).mem = Bk k
  blen : ∀ k, k < c.nw → (Bk k).length = c.depth
  tlen : t.mem.length = c.depth
  ttlen : tt.mem.length = c.depth
  table : Table.Spec c s.table (fun r => nthD false s.rdEnBy r) tt
  mem : ∀ a, a < c.depth → rd tt.mem a < c.nw ∧ rd t.mem a = rd (Bk (rd tt.mem a)) a
  out : ∀ r, r < c.nr → outR c s r = nthD 0 t.rdata r

theorem nthD_grans_zero {l : List Nat} (hg : ∀ g ∈ l, g = 0) (k : Nat) : nthD 0 l k = 0 := by
  unfold nthD
  cases h : l[k]? with
  | none => rfl
  | some v => exact hg v (List.mem_of_getElem? h)

section step
variable (c : Cfg) (s : State) (i : In)

theorem step_bankR {k r : Nat} (hk : k < c.nw) (hr : r < c.nr) :
    bankR (step c s i) k r =
      { mem := write1 c.w (nthD 0 c.grans k) (bankR s k r).mem (i.w k),
        rdata := if i.rEn r then rd (bankR s k r).mem (i.rAddr r) else (bankR s k r).rdata } := by
  simp [bankR, step, nthD_tab_lt _ _ hk, nthD_tab_lt _ _ hr]

theorem step_wAddrBy {k : Nat} (hk : k < c.nw) : nthD 0 (step c s i).wAddrBy k = i.wAddr k := by
  simp [step, nthD_tab_lt _ _ hk]
theorem step_wDataBy {k : Nat} (hk : k < c.nw) : nthD 0 (step c s i).wDataBy k = i.wData k := by
  simp [step, nthD_tab_lt _ _ hk]
theorem step_wEnBy {k : Nat} (hk : k < c.nw) : nthD 0 (step c s i).wEnBy k = (i.w k).en := by
  simp [step, nthD_tab_lt _ _ hk]
theorem step_rdEnBy {r : Nat} (hr : r < c.nr) : nthD false (step c s i).rdEnBy r = i.rEn r := by
  simp [step, nthD_tab_lt _ _ hr]
theorem step_rdAddrBy {r : Nat} (hr : r < c.nr) : nthD 0 (step c s i).rdAddrBy r = i.rAddr r := by
  simp [step, nthD_tab_lt _ _ hr]
theorem step_syncData {r : Nat} (hr : r < c.nr) : nthD 0 (step c s i).syncData r = outR c s r := by
  simp [step, nthD_tab_lt _ _ hr]

end step

variable {c : Cfg} {s : State} {t tt : Ideal.State} {Bk : Nat → List Nat}

theorem en_mod_iff (i : In) (hi : OkIn c i) {k : Nat} (hk : k < c.nw) : (i.w k).en % 2 = 1 ↔ i.wEn k = true := by
  have := hi.en1 k hk
  simp only [In.wEn, bne_iff_ne, ne_eq]
  omega

theorem bySel_step (i : In) (hi : OkIn c i) {r k : Nat} (hr : r < c.nr) (hk : k < c.nw) :
    bySel c (step c s i) r k = true ↔ (c.tr r k = true ∧ i.wEn k = true ∧ i.wAddr k = i.rAddr r) := by
  unfold bySel
  rw [step_wAddrBy c s i hk, step_rdAddrBy c s i hr, step_wEnBy c s i hk]
  simp only [Bool.and_eq_true, beq_iff_eq]
  rw [en_mod_iff i hi hk]
  constructor
  · rintro ⟨h1, h2, h3⟩; exact ⟨h1, h3, h2⟩
  · rintro ⟨h1, h2, h3⟩; exact ⟨h1, h3, h2⟩

theorem rd_nextBk (h : Inv c s t tt Bk) (i : In) (hi : OkIn c i) {k : Nat} (hk : k < c.nw) (a : Nat)
    (ha : a < c.depth) :
    rd (nextBk c i Bk k) a = if i.wEn k = true ∧ i.wAddr k = a then i.wData k else rd (Bk k) a := by
  unfold nextBk
  rw [rd_write1_zero, h.blen k hk]
  have : HitW a (i.w k) ↔ (i.wEn k = true ∧ i.wAddr k = a) := by
    unfold HitW In.wAddr
    rw [en_mod_iff i hi hk]
  by_cases h1 : i.wEn k = true ∧ i.wAddr k = a
  · simp [this.mpr h1, h1, ha]; rfl
  · have : ¬ HitW a (i.w k) := fun hh => h1 (this.mp hh)
    simp [this, h1]

theorem inv_step_mem (hg : ∀ g ∈ c.grans, g = 0) (h : Inv c s t tt Bk) (i : In) (hi : OkIn c i) (a : Nat)
    (ha : a < c.depth) :
    rd (Ideal.step (tableCfg c) tt (tableIn c i)).mem a < c.nw ∧
    rd (Ideal.step c t i).mem a = rd (nextBk c i Bk (rd (Ideal.step (tableCfg c) tt (tableIn c i)).mem a)) a := by
  have hti := okIn_table c i hi
  simp only [Ideal.step]
  by_cases hex : ∃ j, j < c.nw ∧ i.wEn j = true ∧ i.wAddr j = a
  · obtain ⟨j, hj, hen, haj⟩ := hex
    have hen' : (tableIn c i).wEn j = true := by rw [tableIn_wEn c i hj]; exact hen
    have haj' : (tableIn c i).wAddr j = a := by rw [tableIn_wAddr c i hj]; exact haj
    have hw := ideal_write_hit (tableCfg c) (tableCfg_grans c) (tableIn c i) hti tt.mem j
      (by rw [tableCfg_nw]; exact hj) hen' (by rw [haj', h.ttlen]; exact ha)
    rw [haj', tableIn_wData c i hj] at hw
    have hw2 := ideal_write_hit c hg i hi t.mem j hj hen (by rw [haj, h.tlen]; exact ha)
    rw [haj] at hw2
    rw [hw, hw2, rd_nextBk h i hi hj a ha]
    simp [hj, hen, haj]
  · have hw := ideal_write_miss (tableCfg c) (tableCfg_grans c) (tableIn c i) hti tt.mem a
      (fun j hj hh => by
        rw [tableCfg_nw] at hj
        rw [tableIn_wEn c i hj, tableIn_wAddr c i hj] at hh
        exact hex ⟨j, hj, hh⟩)
    have hw2 := ideal_write_miss c hg i hi t.mem a (fun j hj hh => hex ⟨j, hj, hh⟩)
    have hv := (h.mem a ha).1
    rw [hw, hw2, rd_nextBk h i hi hv a ha]
    have : ¬ (i.wEn (rd tt.mem a) = true ∧ i.wAddr (rd tt.mem a) = a) := fun hh => hex ⟨_, hv, hh⟩
    simp only [this, if_false]
    exact h.mem a ha

theorem inv_step_out (hg : ∀ g ∈ c.grans, g = 0) (h : Inv c s t tt Bk) (i : In) (hi : OkIn c i) (r : Nat)
    (hr : r < c.nr) : outR c (step c s i) r = nthD 0 (Ideal.step c t i).rdata r := by
  unfold outR
  simp only [Ideal.step, nthD_tab_lt _ _ hr]
  rw [step_rdEnBy c s i hr, step_syncData c s i hr]
  by_cases hen : i.rEn r = true
  · simp only [hen, if_true]
    have hra : i.rAddr r < c.depth := hi.range.2 r hr
    unfold newData
    by_cases hex : ∃ j, j < c.nw ∧ c.tr r j = true ∧ i.wEn j = true ∧ i.wAddr j = i.rAddr r
    · obtain ⟨j, hj, htr, hwe, haj⟩ := hex
      rw [← haj, ideal_read_hit c hg i hi t.mem _ j hj hwe htr]
      rw [byOr_one c (step c s i) r c.nw j hj ((bySel_step i hi hr hj).mpr ⟨htr, hwe, haj⟩)]
      · simp [step_wDataBy c s i hj]
      · intro k hk hne
        cases hb : bySel c (step c s i) r k with
        | false => rfl
        | true =>
          have ⟨_, h1, h2⟩ := (bySel_step i hi hr hk).mp hb
          exact absurd (by rw [h2, haj]) (hi.distinct k j hk hj hne h1 hwe)
    · rw [ideal_read_miss c hg i hi t.mem _ _ (fun j hj hh => hex ⟨j, hj, hh⟩)]
      rw [byOr_none c (step c s i) r c.nw (fun k hk => by
        cases hb : bySel c (step c s i) r k with
        | false => rfl
        | true => exact absurd ⟨k, hk, (bySel_step i hi hr hk).mp hb⟩ hex)]
      simp only [Bool.false_eq_true, if_false]
      -- the table's answer selects the bank that holds the row
      unfold bankData
      have hspec := spec_step h.table i hi
      have hsel : (step c s i).table.sel c r = rd tt.mem (i.rAddr r) := by
        have : (step c s i).table = s.table.step c i := rfl
        rw [this, spec_sel hspec hr hen]
        simp only [Ideal.step]
        rw [nthD_tab_lt _ _ (by rw [tableCfg_nr]; exact hr)]
        have hen' : (tableIn c i).rEn r = true := by rw [tableIn_rEn c i hr]; exact hen
        simp only [hen', if_true]
        rw [table_read c i hi, tableIn_rAddr c i hr]
      have hv := (h.mem _ hra).1
      simp only [hsel, hv, if_true]
      rw [step_bankR c s i hv hr]
      simp only [hen, if_true, h.bankMem _ r hv hr]
      exact ((h.mem _ hra).2).symm
  · simp only [hen]
    exact h.out r hr

theorem inv_step (hg : ∀ g ∈ c.grans, g = 0) (h : Inv c s t tt Bk) (i : In) (hi : OkIn c i) :
    Inv c (step c s i) (Ideal.step c t i) (Ideal.step (tableCfg c) tt (tableIn c i)) (nextBk c i Bk) where
  bankMem k r hk hr := by
    rw [step_bankR c s i hk hr, nthD_grans_zero hg, h.bankMem k r hk hr]; rfl
  blen k hk := by simp [nextBk, h.blen k hk]
  tlen := by simp [Ideal.step, h.tlen]
  ttlen := by simp [Ideal.step, h.ttlen]
  table := spec_congr (spec_step h.table i hi) (fun r hr => (step_rdEnBy c s i hr).symm)
  mem a ha := inv_step_mem hg h i hi a ha
  out r hr := inv_step_out hg h i hi r hr

theorem inv_init (kind : Kind) (c : Cfg) (hnw : 0 < c.nw) :
    Inv c (init kind c) (Ideal.init c) (Ideal.init (tableCfg c)) (Xor.bankInit c) where
  bankMem k r hk hr := by simp [bankR, init, nthD_tab_lt _ _ hk, nthD_tab_lt _ _ hr]
  blen k _ := by simp [Xor.bankInit, initMem]
  tlen := by simp [Ideal.init, initMem]
  ttlen := by simp [Ideal.init, initMem]
  table := spec_congr (spec_init kind c hnw) (fun r hr => by simp [init, nthD_tab_lt _ _ hr])
  mem a _ := by
    have h0 : rd (Ideal.init (tableCfg c)).mem a = 0 := by
      simp only [Ideal.init, tableCfg]; exact Xor.rd_initMem_nil _ _
    rw [h0]
    exact ⟨hnw, by simp [Ideal.init, Xor.bankInit]⟩
  out r hr := by simp [outR, init, Ideal.init, nthD_tab_lt _ _ hr]

theorem out_eq (h : Inv c s t tt Bk) : out c s = Ideal.out c t := by
  unfold out Ideal.out
  exact tab_congr (fun r hr => h.out r hr)

theorem run_eq (hg : ∀ g ∈ c.grans, g = 0) (is : List In) (his : ∀ i ∈ is, OkIn c i) (h : Inv c s t tt Bk) :
    run c s is = Ideal.run c t is := by
  induction is generalizing s t tt Bk with
  | nil => rfl
  | cons i is ih =>
    simp only [run, Ideal.run]
    rw [out_eq h, ih (fun j hj => his j (by simp [hj])) (inv_step hg h i (his i (by simp)))]

end TxV.MultiportMem.Ilvt

namespace TxV.MultiportMem.OneHot
open Ilvt

/-- state of the bare table after a history of port values -/
def runSt (c : Cfg) (s : State) (is : List In) : State :=
  is.foldl (fun s j => step c.nw c.nr s (tableIn c j)) s

/-- state of the ideal table after the same history -/
def runIdeal (c : Cfg) (t : Ideal.State) (is : List In) : Ideal.State :=
  is.foldl (fun t j => Ideal.step (tableCfg c) t (tableIn c j)) t

theorem inv_run {c : Cfg} (is : List In) (his : ∀ i ∈ is, OkIn c i) {s : State} {tt : Ideal.State}
    {R : Nat → List (List Bool)} (h : Inv c s tt R) : ∃ R', Inv c (runSt c s is) (runIdeal c tt is) R' := by
  induction is generalizing s tt R with
  | nil => exact ⟨R, h⟩
  | cons i is ih =>
    simp only [runSt, runIdeal, List.foldl_cons]
    exact ih (fun j hj => his j (by simp [hj])) (inv_step h i (his i (by simp)))

end TxV.MultiportMem.OneHot
