import TxV.Model.RRSched
import TxV.Proofs.RoundRobin
/-! Helper lemmas for C09 (round-robin transaction scheduler), on top of the arbiter lemmas of C39. -/
namespace TxV.RRSched
open TxV.RoundRobin

/-! ### one component -/

theorem ccRuns_length (n g : Nat) (req : Nat → Bool) : (ccRuns n g req).length = n := by
  simp [ccRuns]

/-- position `k` runs iff it is the picked index and somebody requests -/
theorem ccRuns_get {n g k : Nat} {req : Nat → Bool} :
    (ccRuns n g req)[k]? = some true ↔ k < n ∧ k = pick n g req ∧ anyReq n req = true := by
  unfold ccRuns
  rw [List.getElem?_map]
  by_cases hk : k < n
  · rw [List.getElem?_range hk]
    simp only [rrStep, Option.map_some, Option.some.injEq, Bool.and_eq_true, Nat.testBit_two_pow,
      decide_eq_true_eq]
    constructor
    · rintro ⟨h1, h2⟩; exact ⟨hk, h1.symm, h2⟩
    · rintro ⟨_, h1, h2⟩; exact ⟨h1.symm, h2⟩
  · rw [List.getElem?_eq_none (by simpa using hk)]
    simp [hk]

theorem ccReq_of_get {cc : List Nat} {k t : Nat} {req : Nat → Bool} (h : cc[k]? = some t) :
    ccReq cc req k = req t := by
  simp [ccReq, h]

/-- a request of a member of the component is a request at the arbiter -/
theorem anyReq_of_member {cc : List Nat} {k t : Nat} {req : Nat → Bool} (h : cc[k]? = some t) (hr : req t = true) :
    anyReq cc.length (ccReq cc req) = true := by
  have hk : k < cc.length := (List.getElem?_eq_some_iff.1 h).1
  exact anyReq_true.2 ⟨k, hk, by rw [ccReq_of_get h]; exact hr⟩

/-! ### the system: component `i` evolves on its own -/

theorem step_state_get {ccs : List (List Nat)} {s : List Nat} {req : Nat → Bool} {i : Nat} {cc : List Nat} {g : Nat}
    (hc : ccs[i]? = some cc) (hs : s[i]? = some g) :
    (step ccs s req).1[i]? = some (pick cc.length g (ccReq cc req)) := by
  simp only [step, List.getElem?_map]
  have : (ccs.zip s)[i]? = some (cc, g) := List.getElem?_zip_eq_some.2 ⟨hc, hs⟩
  rw [this]; rfl

theorem step_out_get {ccs : List (List Nat)} {s : List Nat} {req : Nat → Bool} {i : Nat} {cc : List Nat} {g : Nat}
    (hc : ccs[i]? = some cc) (hs : s[i]? = some g) :
    (step ccs s req).2[i]? = some (ccRuns cc.length g (ccReq cc req)) := by
  simp only [step, List.getElem?_map]
  have : (ccs.zip s)[i]? = some (cc, g) := List.getElem?_zip_eq_some.2 ⟨hc, hs⟩
  rw [this]; rfl

theorem step_out_get_inv {ccs : List (List Nat)} {s : List Nat} {req : Nat → Bool} {i : Nat} {r : List Bool}
    (h : (step ccs s req).2[i]? = some r) :
    ∃ (cc : List Nat) (g : Nat), ccs[i]? = some cc ∧ s[i]? = some g ∧ r = ccRuns cc.length g (ccReq cc req) := by
  simp only [step, List.getElem?_map, Option.map_eq_some_iff] at h
  obtain ⟨⟨cc, g⟩, hz, hr⟩ := h
  have := List.getElem?_zip_eq_some.1 hz
  exact ⟨cc, g, this.1, this.2, hr.symm⟩

theorem step_state_length (ccs : List (List Nat)) (s : List Nat) (req : Nat → Bool) :
    (step ccs s req).1.length = min ccs.length s.length := by
  simp [step]

/-- states in which every arbiter register designates one of its inputs: what is reachable from
    reset (`reach_init`, `reach_step`); every such register value is reachable (`arbiter_state_reachable`) -/
def Reach (ccs : List (List Nat)) (s : List Nat) : Prop :=
  s.length = ccs.length ∧ ∀ (i : Nat) (cc : List Nat) (g : Nat), ccs[i]? = some cc → s[i]? = some g → g < cc.length

theorem reach_init {ccs : List (List Nat)} (h : ∀ cc ∈ ccs, cc ≠ []) : Reach ccs (init ccs) := by
  refine ⟨by simp [init], fun i cc g hc hs => ?_⟩
  simp only [init, List.getElem?_map, hc, Option.map_some, Option.some.injEq, RoundRobin.init] at hs
  have : cc ≠ [] := h cc (List.mem_of_getElem? hc)
  subst hs
  exact List.length_pos_iff.2 this

theorem reach_step {ccs : List (List Nat)} {s : List Nat} (h : Reach ccs s) (req : Nat → Bool) :
    Reach ccs (step ccs s req).1 := by
  refine ⟨by rw [step_state_length, h.1]; simp, fun i cc g hc hs => ?_⟩
  have hi : i < s.length := by rw [h.1]; exact (List.getElem?_eq_some_iff.1 hc).1
  have hs0 : s[i]? = some s[i] := List.getElem?_eq_getElem hi
  rw [step_state_get hc hs0] at hs
  cases hs
  exact pick_lt (h.2 i cc _ hc hs0)

theorem reach_traj {ccs : List (List Nat)} {s0 : List Nat} (h : Reach ccs s0) (reqs : Nat → Nat → Bool) :
    ∀ τ, Reach ccs (traj ccs reqs s0 τ)
  | 0 => h
  | τ+1 => reach_step (reach_traj h reqs τ) _

theorem reach_state_get {ccs : List (List Nat)} {s : List Nat} (h : Reach ccs s) {i : Nat} {cc : List Nat}
    (hc : ccs[i]? = some cc) : ∃ g, s[i]? = some g ∧ g < cc.length := by
  have hi : i < s.length := by rw [h.1]; exact (List.getElem?_eq_some_iff.1 hc).1
  exact ⟨s[i], List.getElem?_eq_getElem hi, h.2 i cc _ hc (List.getElem?_eq_getElem hi)⟩

/-- every register value `g < n` of one arbiter is reached from reset in one cycle (only input `g` requests) -/
theorem arbiter_state_reachable {n g : Nat} (hn : g < n) : pick n RoundRobin.init (fun j => j == g) = g := by
  have h0 : RoundRobin.init < n := by simp only [RoundRobin.init]; omega
  have := pick_requests (req := fun j => j == g) h0 ⟨g, hn, by simp⟩
  simpa using this

/-- component `i` of the system follows the single-arbiter trajectory of C39 -/
theorem traj_get {ccs : List (List Nat)} {s0 : List Nat} (reqs : Nat → Nat → Bool) {i : Nat} {cc : List Nat} {g : Nat}
    (hc : ccs[i]? = some cc) (hs : s0[i]? = some g) :
    ∀ τ, (traj ccs reqs s0 τ)[i]? = some (RoundRobin.traj cc.length (fun τ => ccReq cc (reqs τ)) g τ)
  | 0 => hs
  | τ+1 => by
    simp only [traj, RoundRobin.traj]
    exact step_state_get hc (traj_get reqs hc hs τ)

/-! ### run bit of a transaction -/

theorem runOf_iff {ccs : List (List Nat)} {out : List (List Bool)} {t : Nat} :
    runOf ccs out t = true ↔
      ∃ (i : Nat) (cc : List Nat) (r : List Bool) (k : Nat), ccs[i]? = some cc ∧ out[i]? = some r ∧ cc[k]? = some t ∧ r[k]? = some true := by
  simp only [runOf, List.any_eq_true, List.mem_iff_getElem?, Bool.and_eq_true, beq_iff_eq, Prod.exists]
  constructor
  · rintro ⟨cc, r, ⟨i, hi⟩, t', b, ⟨k, hk⟩, ht, hb⟩
    have h1 := List.getElem?_zip_eq_some.1 hi
    have h2 := List.getElem?_zip_eq_some.1 hk
    subst ht hb
    exact ⟨i, cc, r, k, h1.1, h1.2, h2.1, h2.2⟩
  · rintro ⟨i, cc, r, k, h1, h2, h3, h4⟩
    exact ⟨cc, r, ⟨i, List.getElem?_zip_eq_some.2 ⟨h1, h2⟩⟩, t, true,
      ⟨k, List.getElem?_zip_eq_some.2 ⟨h3, h4⟩⟩, rfl, rfl⟩

/-- the run bit of `t` after one step, in terms of the arbiter of its component -/
theorem runOf_step_iff {ccs : List (List Nat)} {s : List Nat} {req : Nat → Bool} {t : Nat} :
    runOf ccs (step ccs s req).2 t = true ↔
      ∃ (i : Nat) (cc : List Nat) (g k : Nat), ccs[i]? = some cc ∧ s[i]? = some g ∧ cc[k]? = some t ∧
        k = pick cc.length g (ccReq cc req) ∧ anyReq cc.length (ccReq cc req) = true := by
  rw [runOf_iff]
  constructor
  · rintro ⟨i, cc, r, k, hc, ho, hk, hr⟩
    obtain ⟨cc', g, hc', hs, e⟩ := step_out_get_inv ho
    rw [hc] at hc'; cases hc'
    subst e
    have := ccRuns_get.1 hr
    exact ⟨i, cc, g, k, hc, hs, hk, this.2.1, this.2.2⟩
  · rintro ⟨i, cc, g, k, hc, hs, hk, hp, ha⟩
    refine ⟨i, cc, _, k, hc, step_out_get hc hs, hk, ccRuns_get.2 ⟨(List.getElem?_eq_some_iff.1 hk).1, hp, ha⟩⟩

/-! ### partitions -/

/-- in a duplicate-free partition a transaction belongs to one component only and occupies one position -/
theorem part_unique {ccs : List (List Nat)} (hnd : ccs.flatten.Nodup) {i j : Nat} {cc cc' : List Nat} {k k' t : Nat}
    (hi : ccs[i]? = some cc) (hj : ccs[j]? = some cc') (hk : cc[k]? = some t) (hk' : cc'[k']? = some t) :
    i = j ∧ k = k' := by
  rw [List.nodup_iff_pairwise_ne, List.pairwise_flatten] at hnd
  obtain ⟨hin, hpw⟩ := hnd
  rw [List.pairwise_iff_getElem] at hpw
  obtain ⟨hil, hie⟩ := List.getElem?_eq_some_iff.1 hi
  obtain ⟨hjl, hje⟩ := List.getElem?_eq_some_iff.1 hj
  have htc : t ∈ cc := List.mem_of_getElem? hk
  have htc' : t ∈ cc' := List.mem_of_getElem? hk'
  have hij : i = j := by
    rcases Nat.lt_trichotomy i j with h | h | h
    · exact absurd rfl (hpw i j hil hjl h t (hie ▸ htc) t (hje ▸ htc'))
    · exact h
    · exact absurd rfl (hpw j i hjl hil h t (hje ▸ htc') t (hie ▸ htc))
  subst hij
  rw [hi] at hj; cases hj
  refine ⟨rfl, ?_⟩
  have hndc : cc.Nodup := hin cc (List.mem_of_getElem? hi)
  have hkl := (List.getElem?_eq_some_iff.1 hk).1
  exact (List.getElem?_inj hkl hndc).1 (hk.trans hk'.symm)

theorem edgesIntra_spec {edges : List (Nat × Nat)} {ccs : List (List Nat)} (h : edgesIntra edges ccs = true)
    {a b : Nat} (he : (a, b) ∈ edges) : ∃ cc ∈ ccs, a ∈ cc ∧ b ∈ cc := by
  simp only [edgesIntra, List.all_eq_true, List.any_eq_true, Bool.and_eq_true, List.contains_iff_mem] at h
  exact h (a, b) he

theorem validPart_nodup {n : Nat} {ccs : List (List Nat)} (h : validPart n ccs = true) : ccs.flatten.Nodup := by
  simp only [validPart, Bool.and_eq_true, decide_eq_true_eq] at h
  exact h.1.1.1

theorem validPart_nonempty {n : Nat} {ccs : List (List Nat)} (h : validPart n ccs = true) : ∀ cc ∈ ccs, cc ≠ [] := by
  simp only [validPart, Bool.and_eq_true, List.all_eq_true, Bool.not_eq_true', List.isEmpty_eq_false_iff] at h
  exact h.2

end TxV.RRSched
