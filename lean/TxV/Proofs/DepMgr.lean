import TxV.Model.DepMgr
/-!
Specification vocabulary and helper lemmas for C42 (DependencyManager).

The specification talks about the *history* of operations only (never about the three
dictionaries of the manager):

* `addsOf k h`      – the values of the `add k v` operations of `h`, in order;
* `readIn k h`      – some `get`/`get_optional` on `k` occurs in `h`;
* `accepted c k h`  – the additions that are not refused: all of them for a non-locking key, those
                      before the first read for a key that locks on get;
* `specOut c h op`  – what operation `op` must answer after history `h`.

`step_spec` proves that the model answers `specOut` after every history (`Inv` is the invariant
tying the dictionaries, the cache included, to the history).
-/
namespace TxV.DepMgr

def isReadOf (k : Nat) : Op → Bool
  | .add _ _ => false
  | .get k' => k' == k
  | .opt k' => k' == k

def addVal (k : Nat) : Op → Option Nat
  | .add k' v => if k' = k then some v else none
  | _ => none

def addsOf (k : Nat) (h : List Op) : List Nat := h.filterMap (addVal k)

def readIn (k : Nat) (h : List Op) : Bool := h.any (isReadOf k)

/-- the part of the history in which additions to `k` are still allowed -/
def openPart (c : Cfg) (k : Nat) (h : List Op) : List Op :=
  if (c k).lock then h.takeWhile (fun o => !isReadOf k o) else h

def accepted (c : Cfg) (k : Nat) (h : List Op) : List Nat := addsOf k (openPart c k h)

/-- result of a read given the accepted dependencies (no cache here) -/
def specGetOpt (c : KeyCfg) (vals : List Nat) : Except Err (Option Val) :=
  if !c.emptyValid && vals.isEmpty then pure none else combine c vals

def specOut (c : Cfg) (h : List Op) : Op → Out
  | .add k _ => if (c k).lock && readIn k h then .raised .keyError else .added
  | .opt k =>
    match specGetOpt (c k) (accepted c k h) with
    | .ok v => .ret v
    | .error e => .raised e
  | .get k =>
    match specGetOpt (c k) (accepted c k h) with
    | .ok (some v) => .ret (some v)
    | .ok none => .raised .keyError
    | .error e => .raised e

/-! ### history lemmas -/

theorem takeWhile_snoc {α} (p : α → Bool) (l : List α) (x : α) :
    (l ++ [x]).takeWhile p = if l.all p then l ++ (if p x then [x] else []) else l.takeWhile p := by
  induction l with
  | nil => cases hx : p x <;> simp [List.takeWhile, hx]
  | cons a l ih =>
    by_cases ha : p a = true
    · simp only [List.cons_append, List.takeWhile_cons, ha, if_true, List.all_cons, Bool.true_and, ih]
      split <;> simp
    · simp [ha]

theorem readIn_snoc (k : Nat) (h : List Op) (o : Op) : readIn k (h ++ [o]) = (readIn k h || isReadOf k o) := by
  simp [readIn]

theorem all_notRead (k : Nat) (h : List Op) : (h.all fun o => !isReadOf k o) = !readIn k h := by
  induction h with
  | nil => simp [readIn]
  | cons a l ih => simp only [readIn, List.all_cons, List.any_cons, Bool.not_or] at *; rw [ih]

theorem takeWhile_of_notRead (k : Nat) (h : List Op) (hr : readIn k h = false) :
    h.takeWhile (fun o => !isReadOf k o) = h := by
  induction h with
  | nil => rfl
  | cons a l ih =>
    simp only [readIn, List.any_cons, Bool.or_eq_false_iff] at hr
    simp only [List.takeWhile_cons, hr.1, Bool.not_false, if_true]
    rw [ih (by simpa [readIn] using hr.2)]

theorem addsOf_snoc (k : Nat) (h : List Op) (o : Op) :
    addsOf k (h ++ [o]) = addsOf k h ++ (match addVal k o with | some v => [v] | none => []) := by
  simp only [addsOf, List.filterMap_append]
  congr 1
  cases h' : addVal k o <;> simp [List.filterMap, h']

/-- effect of one more operation on the accepted additions of key `k` -/
theorem accepted_snoc (c : Cfg) (k : Nat) (h : List Op) (o : Op) :
    accepted c k (h ++ [o]) =
      if (c k).lock && readIn k h then accepted c k h
      else accepted c k h ++ (match addVal k o with | some v => [v] | none => []) := by
  unfold accepted openPart
  by_cases hl : (c k).lock = true
  · simp only [hl, if_true, Bool.true_and, takeWhile_snoc, all_notRead]
    by_cases hr : readIn k h = true
    · simp [hr]
    · have hr' : readIn k h = false := by simpa using hr
      simp only [hr', Bool.not_false, if_true, Bool.false_eq_true, if_false]
      rw [takeWhile_of_notRead k h hr']
      cases o with
      | add k' v => simp [isReadOf, addsOf_snoc]
      | get k' =>
        by_cases hk : k' = k
        · simp [isReadOf, hk, addVal]
        · simp [isReadOf, hk, addsOf_snoc, addVal]
      | opt k' =>
        by_cases hk : k' = k
        · simp [isReadOf, hk, addVal]
        · simp [isReadOf, hk, addsOf_snoc, addVal]
  · have hl' : (c k).lock = false := by simpa using hl
    simp [hl', addsOf_snoc]

/-! ### run lemmas -/

theorem run_append (c : Cfg) (s : State) (h1 h2 : List Op) :
    run c s (h1 ++ h2) = ((run c (run c s h1).1 h2).1, (run c s h1).2 ++ (run c (run c s h1).1 h2).2) := by
  induction h1 generalizing s with
  | nil => simp [run]
  | cons o os ih => simp [run, ih]

theorem after_snoc (c : Cfg) (h : List Op) (o : Op) : after c (h ++ [o]) = (step c (after c h) o).1 := by
  simp [after, run_append, run]

theorem run_outs_snoc (c : Cfg) (h : List Op) (o : Op) :
    (run c init (h ++ [o])).2 = (run c init h).2 ++ [(step c (after c h) o).2] := by
  simp [after, run_append, run]

@[simp] theorem upd_same {α} (f : Nat → α) (k : Nat) (v : α) : upd f k v k = v := by simp [upd]
theorem upd_other {α} (f : Nat → α) (k k' : Nat) (v : α) (h : k' ≠ k) : upd f k v k' = f k' := by simp [upd, h]

/-! ### the invariant -/

structure Inv (c : Cfg) (h : List Op) (s : State) : Prop where
  deps : ∀ k, depsOf s k = accepted c k h
  locked : ∀ k, s.locked k = ((c k).lock && readIn k h)
  cache : ∀ k v, s.cache k = some v → combine (c k) (accepted c k h) = .ok v
  present : ∀ k, s.deps k = some [] → (c k).emptyValid = true

theorem inv_init (c : Cfg) : Inv c [] init := by
  constructor <;> intros <;> simp_all [init, depsOf, accepted, openPart, addsOf, readIn]

theorem accepted_snoc_other (c : Cfg) (k : Nat) (h : List Op) (o : Op) (ho : addVal k o = none) :
    accepted c k (h ++ [o]) = accepted c k h := by
  rw [accepted_snoc, ho]; simp

theorem add_out (c : Cfg) (h : List Op) (s : State) (k v : Nat) (hi : Inv c h s) :
    (addDep s k v).2 = specOut c h (.add k v) := by
  simp only [addDep, specOut, hi.locked k]
  split <;> simp_all

theorem add_inv (c : Cfg) (h : List Op) (s : State) (k v : Nat) (hi : Inv c h s) :
    Inv c (h ++ [.add k v]) (addDep s k v).1 := by
  have hro : ∀ k', readIn k' (h ++ [.add k v]) = readIn k' h := by
    intro k'; simp [readIn_snoc, isReadOf]
  unfold addDep
  by_cases hl : s.locked k = true
  · -- refused: nothing changes, and the history gains no accepted addition
    have hl' := hl
    rw [hi.locked k] at hl'
    simp only [hl, if_true]
    have hacc : ∀ k', accepted c k' (h ++ [.add k v]) = accepted c k' h := by
      intro k'
      by_cases hk : k' = k
      · subst hk; rw [accepted_snoc, hl']; simp
      · exact accepted_snoc_other c k' h _ (by simp [addVal]; omega)
    exact ⟨fun k' => by rw [hacc, hi.deps], fun k' => by rw [hro, hi.locked],
      fun k' v' hc => by rw [hacc]; exact hi.cache k' v' hc, hi.present⟩
  · have hl0 : s.locked k = false := by simpa using hl
    have hl' := hl0
    rw [hi.locked k] at hl'
    simp only [hl0, Bool.false_eq_true, if_false]
    have hacck : accepted c k (h ++ [.add k v]) = accepted c k h ++ [v] := by
      rw [accepted_snoc, hl']; simp [addVal]
    have hacc : ∀ k', k' ≠ k → accepted c k' (h ++ [.add k v]) = accepted c k' h := by
      intro k' hk
      exact accepted_snoc_other c k' h _ (by simp [addVal]; omega)
    refine ⟨?_, fun k' => by rw [hro]; exact hi.locked k', ?_, ?_⟩
    · intro k'
      by_cases hk : k' = k
      · subst hk; rw [hacck, ← hi.deps]; simp [depsOf]
      · rw [hacc k' hk, ← hi.deps]; simp [depsOf, upd_other _ _ _ _ hk]
    · intro k' v' hc
      by_cases hk : k' = k
      · subst hk; simp at hc
      · rw [hacc k' hk]; simp only [upd_other _ _ _ _ hk] at hc; exact hi.cache k' v' hc
    · intro k' hc
      by_cases hk : k' = k
      · subst hk; simp at hc
      · simp only [upd_other _ _ _ _ hk] at hc; exact hi.present k' hc

@[simp] theorem lockSt_deps (c : Cfg) (s : State) (k : Nat) : (lockSt c s k).deps = s.deps := by
  unfold lockSt; split <;> rfl
@[simp] theorem lockSt_cache (c : Cfg) (s : State) (k : Nat) : (lockSt c s k).cache = s.cache := by
  unfold lockSt; split <;> rfl
@[simp] theorem lockSt_depsOf (c : Cfg) (s : State) (k k' : Nat) : depsOf (lockSt c s k) k' = depsOf s k' := by
  simp [depsOf]
theorem lockSt_locked (c : Cfg) (s : State) (k k' : Nat) :
    (lockSt c s k).locked k' = (s.locked k' || ((c k).lock && k' == k)) := by
  unfold lockSt
  by_cases hl : (c k).lock = true
  · by_cases hk : k' = k
    · simp [hl, hk]
    · simp [hl, hk, upd_other _ _ _ _ hk]
  · have : (c k).lock = false := by simpa using hl
    simp [this]

theorem getOpt_eq (c : Cfg) (s : State) (k : Nat) :
    getOpt c s k =
      let s1 := lockSt c s k
      if !(c k).emptyValid && (s.deps k).isNone then (s1, pure none)
      else match s.cache k with
        | some v => (s1, pure v)
        | none =>
          let s2 := { s1 with deps := upd s.deps k (some (depsOf s k)) }
          match combine (c k) (depsOf s k) with
          | .error e => (s2, .error e)
          | .ok v => if (c k).cache then ({ s2 with cache := upd s.cache k (some v) }, pure v) else (s2, pure v) := by
  simp only [getOpt, lockSt_deps, lockSt_cache, lockSt_depsOf]
  rfl

/-- for a key whose empty read is not valid, "not in the dictionary" means "nothing accepted" -/
theorem absent_iff (c : Cfg) (h : List Op) (s : State) (k : Nat) (hi : Inv c h s) (he : (c k).emptyValid = false) :
    (s.deps k).isNone = (accepted c k h).isEmpty := by
  rw [← hi.deps k]
  cases hd : s.deps k with
  | none => simp [depsOf, hd]
  | some l =>
    cases l with
    | nil => have := hi.present k hd; simp [he] at this
    | cons a l => simp [depsOf, hd]

theorem getOpt_out (c : Cfg) (h : List Op) (s : State) (k : Nat) (hi : Inv c h s) :
    (getOpt c s k).2 = specGetOpt (c k) (accepted c k h) := by
  rw [getOpt_eq]
  unfold specGetOpt
  by_cases he : (c k).emptyValid = true
  · simp only [he, Bool.not_true, Bool.false_and, Bool.false_eq_true, if_false]
    cases hc : s.cache k with
    | some v => simp [hi.cache k v hc]; rfl
    | none =>
      simp only [hi.deps k]
      cases hcomb : combine (c k) (accepted c k h) with
      | error e => rfl
      | ok v => by_cases hcc : (c k).cache = true <;> simp [hcc] <;> rfl
  · have he' : (c k).emptyValid = false := by simpa using he
    simp only [he', Bool.not_false, Bool.true_and, absent_iff c h s k hi he']
    by_cases hem : (accepted c k h).isEmpty = true
    · simp [hem]
    · simp only [hem]
      cases hc : s.cache k with
      | some v => simp [hi.cache k v hc]; rfl
      | none =>
        simp only [hi.deps k]
        cases hcomb : combine (c k) (accepted c k h) with
        | error e => rfl
        | ok v => by_cases hcc : (c k).cache = true <;> simp [hcc] <;> rfl

theorem getOpt_locked (c : Cfg) (s : State) (k : Nat) : (getOpt c s k).1.locked = (lockSt c s k).locked := by
  rw [getOpt_eq]; simp only
  split
  · rfl
  · split
    · rfl
    · split
      · rfl
      · split <;> rfl

theorem getOpt_depsOf (c : Cfg) (s : State) (k k' : Nat) : depsOf (getOpt c s k).1 k' = depsOf s k' := by
  have hu : ∀ (l : Nat → Option (List Nat)), l = upd s.deps k (some (depsOf s k)) →
      (match l k' with | some l => l | none => []) = depsOf s k' := by
    intro l hl
    subst hl
    by_cases hk : k' = k
    · subst hk; simp
    · rw [upd_other _ _ _ _ hk]; rfl
  rw [getOpt_eq]; simp only
  split
  · simp
  · split
    · simp
    · split
      · exact hu _ rfl
      · split <;> exact hu _ rfl

theorem getOpt_deps_nil (c : Cfg) (s : State) (k k' : Nat) (hd : (getOpt c s k).1.deps k' = some []) :
    s.deps k' = some [] ∨ (k' = k ∧ (c k).emptyValid = true) := by
  have hu : upd s.deps k (some (depsOf s k)) k' = some [] → (!(c k).emptyValid && (s.deps k).isNone) = false →
      s.deps k' = some [] ∨ (k' = k ∧ (c k).emptyValid = true) := by
    intro h1 h2
    by_cases hk : k' = k
    · subst hk
      simp only [upd_same, Option.some.injEq] at h1
      cases hs : s.deps k' with
      | none => simp [hs] at h2; exact Or.inr ⟨rfl, h2⟩
      | some l => simp [depsOf, hs] at h1; exact Or.inl (by rw [h1])
    · rw [upd_other _ _ _ _ hk] at h1; exact Or.inl h1
  rw [getOpt_eq] at hd; simp only at hd
  split at hd
  · exact Or.inl (by simpa using hd)
  · rename_i hcond
    have hcond' : (!(c k).emptyValid && (s.deps k).isNone) = false := Bool.eq_false_iff.mpr hcond
    split at hd
    · exact Or.inl (by simpa using hd)
    · split at hd
      · exact hu hd hcond'
      · split at hd <;> exact hu hd hcond'

theorem getOpt_cache (c : Cfg) (s : State) (k k' : Nat) (v : Option Val) (hc : (getOpt c s k).1.cache k' = some v) :
    s.cache k' = some v ∨ (k' = k ∧ combine (c k) (depsOf s k) = .ok v) := by
  rw [getOpt_eq] at hc; simp only at hc
  split at hc
  · exact Or.inl (by simpa using hc)
  · split at hc
    · exact Or.inl (by simpa using hc)
    · split at hc
      · exact Or.inl (by simpa using hc)
      · rename_i v' hcomb
        split at hc
        · by_cases hk : k' = k
          · subst hk; simp at hc; subst hc; exact Or.inr ⟨rfl, hcomb⟩
          · simp only [upd_other _ _ _ _ hk] at hc; exact Or.inl hc
        · exact Or.inl (by simpa using hc)

/-- a read of key `k` (either flavour) preserves the invariant -/
theorem getOpt_inv (c : Cfg) (h : List Op) (s : State) (k : Nat) (o : Op) (ho : o = .get k ∨ o = .opt k)
    (hi : Inv c h s) : Inv c (h ++ [o]) (getOpt c s k).1 := by
  have hav : ∀ k', addVal k' o = none := by rcases ho with rfl | rfl <;> intro k' <;> rfl
  have hrd : ∀ k', isReadOf k' o = (k == k') := by rcases ho with rfl | rfl <;> intro k' <;> rfl
  have hacc : ∀ k', accepted c k' (h ++ [o]) = accepted c k' h := fun k' => accepted_snoc_other c k' h o (hav k')
  refine ⟨?_, ?_, ?_, ?_⟩
  · intro k'; rw [hacc, getOpt_depsOf, hi.deps]
  · intro k'
    rw [getOpt_locked, lockSt_locked, hi.locked, readIn_snoc, hrd]
    by_cases hk : k' = k
    · subst hk; cases (c k').lock <;> cases readIn k' h <;> rfl
    · have : ¬ k = k' := fun e => hk e.symm
      rw [beq_false_of_ne hk, beq_false_of_ne this]; simp
  · intro k' v hc
    rw [hacc]
    rcases getOpt_cache c s k k' v hc with h1 | ⟨rfl, h2⟩
    · exact hi.cache k' v h1
    · rw [← hi.deps]; exact h2
  · intro k' hd
    rcases getOpt_deps_nil c s k k' hd with h1 | ⟨rfl, h2⟩
    · exact hi.present k' h1
    · exact h2

/-- the invariant holds after every history -/
theorem step_inv (c : Cfg) (h : List Op) (s : State) (o : Op) (hi : Inv c h s) :
    Inv c (h ++ [o]) (step c s o).1 := by
  cases o with
  | add k v => exact add_inv c h _ k v hi
  | get k =>
    have := getOpt_inv c h s k (.get k) (Or.inl rfl) hi
    simp only [step]
    generalize getOpt c s k = r at this
    rcases r with ⟨s', (e | (_ | v))⟩ <;> exact this
  | opt k =>
    have := getOpt_inv c h s k (.opt k) (Or.inr rfl) hi
    simp only [step]
    generalize getOpt c s k = r at this
    rcases r with ⟨s', (e | v)⟩ <;> exact this

theorem inv_after_rev (c : Cfg) (r : List Op) : Inv c r.reverse (after c r.reverse) := by
  induction r with
  | nil => exact inv_init c
  | cons o r ih =>
    rw [List.reverse_cons, after_snoc]
    exact step_inv c _ _ o ih

theorem inv_after (c : Cfg) (h : List Op) : Inv c h (after c h) := by
  have := inv_after_rev c h.reverse
  rwa [List.reverse_reverse] at this

/-- **refinement**: after every history the model answers what the history-level specification says -/
theorem step_spec (c : Cfg) (h : List Op) (o : Op) : (step c (after c h) o).2 = specOut c h o := by
  have hi := inv_after c h
  cases o with
  | add k v => exact add_out c h _ k v hi
  | get k =>
    have := getOpt_out c h _ k hi
    simp only [step, specOut]
    rw [← this]
    generalize getOpt c (after c h) k = r
    rcases r with ⟨s', (e | (_ | v))⟩ <;> rfl
  | opt k =>
    have := getOpt_out c h _ k hi
    simp only [step, specOut]
    rw [← this]
    generalize getOpt c (after c h) k = r
    rcases r with ⟨s', (e | v)⟩ <;> rfl

/-! ### whole runs -/

/-- the answer of operation `o` issued after history `h` (from the empty manager) -/
def answer (c : Cfg) (h : List Op) (o : Op) : Out := (step c (after c h) o).2

/-- history-level specification of a whole run -/
def specRun (c : Cfg) (past : List Op) : List Op → List Out
  | [] => []
  | o :: os => specOut c past o :: specRun c (past ++ [o]) os

theorem run_spec_from (c : Cfg) (past h : List Op) : (run c (after c past) h).2 = specRun c past h := by
  induction h generalizing past with
  | nil => rfl
  | cons o os ih =>
    simp only [run, specRun]
    rw [← step_spec, ← after_snoc, ih]

theorem specOut_congr (c c' : Cfg) (hc : ∀ k, { c k with cache := (c' k).cache } = c' k) (h : List Op) (o : Op) :
    specOut c h o = specOut c' h o := by
  have hl : ∀ k, (c k).lock = (c' k).lock := fun k => by rw [← hc k]
  have he : ∀ k, (c k).emptyValid = (c' k).emptyValid := fun k => by rw [← hc k]
  have hcomb : ∀ k l, combine (c k) l = combine (c' k) l := fun k l => by rw [← hc k]; rfl
  have hacc : ∀ k, accepted c k h = accepted c' k h := fun k => by simp [accepted, openPart, hl]
  cases o <;> simp [specOut, specGetOpt, hl, he, hcomb, hacc]

end TxV.DepMgr
