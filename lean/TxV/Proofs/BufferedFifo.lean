import TxV.Model.BufferedFifo
import TxV.Proofs.QueueUtil
/-! Data refinement of the buffered FIFO model to the abstract queue on accepted calls (C14). -/
namespace TxV.BufferedFifo
open TxV.QueueUtil

structure Inv (d : Nat) (s : State) : Prop where
  hi : s.inner.length ≤ d - 1
  h0 : d = 0 → s.rv = false

theorem inv_init (d : Nat) : Inv d init := ⟨by simp [init], fun _ => rfl⟩

theorem abs_init : abs init = [] := by simp [abs, init]

theorem abs_length_le {d : Nat} {s : State} (h : Inv d s) : (abs s).length ≤ d := by
  have := h.hi
  by_cases hd : d = 0
  · have := h.h0 hd
    simp [abs, this]; omega
  · unfold abs; split <;> simp <;> omega

/-- what one accepted call does to the stored sequence: an executed read returns and removes its
    head, an executed write appends its argument (this is one step of the abstract queue) -/
theorem step_data {d : Nat} {s : State} (h : Inv d s) (i : In) :
    Inv d (step d s i).1 ∧
    abs (step d s i).1 = (if (step d s i).2.rd.isSome then (abs s).tail else abs s) ++ (step d s i).2.wr.toList ∧
    (∀ v, (step d s i).2.rd = some v → (abs s).head? = some v) := by
  obtain ⟨inner, rv, rd⟩ := s
  obtain ⟨w, r⟩ := i
  have hi := h.hi
  simp only at hi
  by_cases hd0 : d = 0
  · have := h.h0 hd0
    simp only at this
    subst hd0
    subst this
    simp [step, abs]
    exact h
  · by_cases hd1 : d = 1
    · subst hd1
      have hin : inner = [] := by cases inner <;> simp_all
      subst hin
      refine ⟨⟨by simp [step], by simp⟩, ?_, ?_⟩
      · cases rv <;> cases w <;> cases r <;> simp [step, abs]
      · cases rv <;> cases w <;> cases r <;> simp [step, abs]
    · have hd2 : 2 ≤ d := by omega
      have hne : ¬ d - 1 = 0 := by omega
      refine ⟨⟨?_, by intro h0; omega⟩, ?_, ?_⟩
      · -- inner memory never overflows
        simp only [step, hd0, hd1, if_false]
        by_cases hf : inner.length = d - 1
        · cases inner <;> cases rv <;> cases r <;> simp_all <;> omega
        · have : inner.length < d - 1 := by omega
          cases inner <;> cases rv <;> cases r <;> cases w <;> simp_all <;> omega
      · simp only [step, hd0, hd1, if_false]
        by_cases hf : inner.length = d - 1
        · cases inner <;> cases rv <;> cases r <;> simp_all [abs]
        · cases inner <;> cases rv <;> cases r <;> cases w <;> simp_all [abs]
      · intro v
        simp only [step, hd0, hd1, if_false]
        cases rv <;> cases r <;> simp [abs]

theorem hist_of_data {q q' del wr : List Nat} {ord owr : Option Nat} (h : del ++ q = wr)
    (hq : q' = (if ord.isSome then q.tail else q) ++ owr.toList)
    (hv : ∀ v, ord = some v → q.head? = some v) :
    (del ++ ord.toList) ++ q' = wr ++ owr.toList := by
  subst h hq
  cases ord with
  | none => simp
  | some v =>
    have := hv v rfl
    cases q <;> simp_all

theorem hist_step {d : Nat} (s : State) (i : In) (del wr : List Nat) (hinv : Inv d s) (h : del ++ abs s = wr) :
    (upd (del, wr) (ev (step d s i).2)).1 ++ abs (step d s i).1 = (upd (del, wr) (ev (step d s i).2)).2 := by
  obtain ⟨_, h2, h3⟩ := step_data hinv i
  simp only [upd, ev, Bool.false_eq_true, if_false]
  exact hist_of_data h h2 h3

theorem hist_run (d : Nat) (is : List In) (s : State) (g : List Nat × List Nat) (hinv : Inv d s)
    (h : g.1 ++ abs s = g.2) :
    (histFrom g ((run d s is).2.map ev)).1 ++ abs (run d s is).1 = (histFrom g ((run d s is).2.map ev)).2 :=
  hist_runWith (step d) (Inv d) abs ev (fun _ i hi => (step_data hi i).1)
    (fun s i del wr hi h => hist_step s i del wr hi h) is s g hinv h

theorem inv_run (d : Nat) (is : List In) (s : State) (hinv : Inv d s) : Inv d (run d s is).1 :=
  inv_runWith (step d) (Inv d) (fun _ i hi => (step_data hi i).1) is s hinv

end TxV.BufferedFifo
