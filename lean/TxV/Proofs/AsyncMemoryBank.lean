import TxV.Model.AsyncMemoryBank
import TxV.Proofs.BankMem
/-! Helper lemmas for C22 (AsyncMemoryBank). -/
namespace TxV.AsyncMemoryBank
open TxV.BankMem

/-- the property's hypothesis on a history: in no cycle two write ports address the same row -/
def DistinctWriteRows (hist : List In) : Prop := ∀ i ∈ hist, distinctRows i.writes = true

instance (hist : List In) : Decidable (DistinctWriteRows hist) := by
  unfold DistinctWriteRows; exact inferInstance

/-- the write call of cycle `i` (if any) that addresses row `a` and whose mask covers bit `b` -/
def coveringWrite (c : Cfg) (i : In) (a b : Nat) : Option Wr :=
  match wrTo i.writes a with
  | some w => if covers c.g c.n w.mask b then some w else none
  | none => none

/-- bit `b` of row `a` as determined by the latest covering write of a history given NEWEST
    CYCLE FIRST; `d` if no write ever covered the bit -/
def latestBitFrom (c : Cfg) (d : Bool) : List In → Nat → Nat → Bool
  | [], _, _ => d
  | i :: older, a, b =>
    match coveringWrite c i a b with
    | some w => w.data.testBit b
    | none => latestBitFrom c d older a b

/-- the specification: memory rows start as 0 -/
def latestBit (c : Cfg) (newestFirst : List In) (a b : Nat) : Bool :=
  latestBitFrom c false newestFirst a b

theorem latestBitFrom_append_single (c : Cfg) (d : Bool) (l : List In) (i : In) (a b : Nat) :
    latestBitFrom c d (l ++ [i]) a b =
      latestBitFrom c (match coveringWrite c i a b with
        | some w => w.data.testBit b
        | none => d) l a b := by
  induction l with
  | nil => simp [latestBitFrom]
  | cons j l ih => simp only [List.cons_append, latestBitFrom, ih]

theorem step_mem_length (c : Cfg) (s : State) (i : In) :
    (step c s i).1.mem.length = s.mem.length := by
  simp [step, length_wrAll]

theorem run_mem_length (c : Cfg) (s : State) (is : List In) :
    (run c s is).1.mem.length = s.mem.length := by
  induction is generalizing s with
  | nil => rfl
  | cons i is ih => simp only [run]; rw [ih, step_mem_length]

/-- one cycle at bit level -/
theorem step_bit (c : Cfg) (hg : 0 < c.g) (s : State) (i : In) (a b : Nat)
    (ha : a < s.mem.length) (hd : distinctRows i.writes = true) :
    (rd (step c s i).1.mem a).testBit b =
      match coveringWrite c i a b with
      | some w => w.data.testBit b
      | none => (rd s.mem a).testBit b := by
  simp only [step, rd_wrAll _ _ _ _ hd, ha, if_true, coveringWrite]
  cases h : wrTo i.writes a with
  | none => simp [applyTo]
  | some w =>
    simp only [applyTo, mergeW, testBit_merge _ _ _ _ _ _ hg]
    by_cases hc : covers c.g c.n w.mask b = true <;> simp [hc]

/-- history induction: every bit of every in-range row is what the latest covering write put there -/
theorem run_bit (c : Cfg) (hg : 0 < c.g) (s : State) (is : List In) (a b : Nat)
    (ha : a < s.mem.length) (hd : DistinctWriteRows is) :
    (rd (run c s is).1.mem a).testBit b =
      latestBitFrom c ((rd s.mem a).testBit b) is.reverse a b := by
  induction is generalizing s with
  | nil => simp [run, latestBitFrom]
  | cons i is ih =>
    simp only [run, List.reverse_cons]
    rw [ih (step c s i).1 (by rw [step_mem_length]; exact ha) (fun j hj => hd j (List.mem_cons_of_mem _ hj)),
      latestBitFrom_append_single, step_bit c hg s i a b ha (hd i List.mem_cons_self)]

theorem rd_init (c : Cfg) (a : Nat) : rd (init c).mem a = 0 := by
  simp only [init, rd]
  by_cases h : a < c.depth
  · simp [h]
  · simp [List.getElem?_eq_none (show (List.replicate c.depth 0).length ≤ a by simp; omega)]

end TxV.AsyncMemoryBank
