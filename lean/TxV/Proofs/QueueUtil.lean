import TxV.Model.QueueUtil
/-! Helper lemmas shared by C14 / C16 / C17: modular increment, signal widths, buffer histories. -/
namespace TxV.QueueUtil

theorem mod_small {a b d : Nat} (ha : a < d) (hb : b ≤ d) :
    (a + b) % d = if a + b < d then a + b else a + b - d := by
  split
  · exact Nat.mod_eq_of_lt ‹_›
  · rw [Nat.mod_eq_sub_mod (by omega)]; exact Nat.mod_eq_of_lt (by omega)

/-- Python's power-of-two test `not (mod & (mod - 1))` really means "power of two" -/
theorem and_pred_pow2 : ∀ d : Nat, 0 < d → d &&& (d - 1) = 0 → ∃ k, d = 2 ^ k := by
  intro d
  induction d using Nat.strongRecOn with
  | _ d ih =>
    intro hd h
    by_cases h1 : d = 1
    · exact ⟨0, by simp [h1]⟩
    · have h2 := congrArg (· / 2) h
      simp only [Nat.and_div_two] at h2
      by_cases he : d % 2 = 0
      · obtain ⟨m, rfl⟩ : ∃ m, d = 2 * m := ⟨d / 2, by omega⟩
        have hm : 0 < m := by omega
        have : m &&& (m - 1) = 0 := by
          have e1 : 2 * m / 2 = m := by omega
          have e2 : (2 * m - 1) / 2 = m - 1 := by omega
          simpa [e1, e2] using h2
        obtain ⟨k, hk⟩ := ih m (by omega) hm this
        exact ⟨k + 1, by rw [hk, Nat.pow_succ]; omega⟩
      · exfalso
        have e2 : (d - 1) / 2 = d / 2 := by omega
        rw [e2, Nat.and_self] at h2
        simp at h2
        omega

/-- both branches of `mod_add(·, d, 1, 1)` compute `(x + 1) % d` on in-range pointers -/
theorem modAdd1_eq {x d : Nat} (hx : x < d) : modAdd1 x d = (x + 1) % d := by
  unfold modAdd1
  split
  · rename_i h
    obtain ⟨k, rfl⟩ := and_pred_pow2 d (by omega) h
    exact Nat.and_two_pow_sub_one_eq_mod (x + 1) k
  · rw [mod_small hx (by omega)]
    split <;> split <;> omega

theorem modAdd1_lt {x d : Nat} (hx : x < d) : modAdd1 x d < d := by
  rw [modAdd1_eq hx]; exact Nat.mod_lt _ (by omega)

/-- a value in `range(n+1)` fits the signal `Signal(range(n+1))` -/
theorem lt_pow_bitsFor (n m : Nat) (h : m ≤ n) : m < 2 ^ bitsFor n := by
  unfold bitsFor
  split
  · subst_vars; simp at h; subst h; simp
  · rename_i hm
    have : n < 2 ^ (Nat.log2 n + 1) := (Nat.log2_lt (n := n) (k := Nat.log2 n + 1) hm).1 (by omega)
    omega

theorem trunc_bitsFor (n m : Nat) (h : m ≤ n) : m % 2 ^ bitsFor n = m :=
  Nat.mod_eq_of_lt (lt_pow_bitsFor n m h)

/-! ### Histories

`hist es = (delivered, written)`: the values returned by executed reads and the values stored
by executed writes, in order, since the last executed clear.  A clear forgets both lists
(including a read or write executed in the same cycle). -/

def upd (h : List Nat × List Nat) (e : Ev) : List Nat × List Nat :=
  if e.clr then ([], []) else (h.1 ++ e.rd.toList, h.2 ++ e.wr.toList)

def histFrom (h : List Nat × List Nat) (es : List Ev) : List Nat × List Nat := es.foldl upd h

def hist (es : List Ev) : List Nat × List Nat := histFrom ([], []) es

theorem histFrom_cons (h : List Nat × List Nat) (e : Ev) (es : List Ev) :
    histFrom h (e :: es) = histFrom (upd h e) es := rfl

theorem hist_snoc (es : List Ev) (e : Ev) : hist (es ++ [e]) = upd (hist es) e := by
  simp [hist, histFrom, List.foldl_append]

/-- `del ++ q = wr` pins down the first element of `q` as the first undelivered written one -/
theorem first_undelivered {del q wr : List Nat} (h : del ++ q = wr) : wr[del.length]? = q.head? := by
  subst h
  cases q <;> simp

theorem runWith_append {σ ι ο} (step : σ → ι → σ × ο) : ∀ (is js : List ι) (s : σ),
    runWith step s (is ++ js) =
      ((runWith step (runWith step s is).1 js).1,
       (runWith step s is).2 ++ (runWith step (runWith step s is).1 js).2)
  | [], js, s => by simp [runWith]
  | i :: is, js, s => by
    simp only [List.cons_append, runWith]
    rw [runWith_append step is js]

/-- if every step keeps `delivered ++ stored = written` (under a step-preserved invariant),
    so does every run -/
theorem hist_runWith {σ ι ο} (step : σ → ι → σ × ο) (inv : σ → Prop) (absf : σ → List Nat) (evf : ο → Ev)
    (hinv : ∀ s i, inv s → inv (step s i).1)
    (hstep : ∀ s i del wr, inv s → del ++ absf s = wr →
      (upd (del, wr) (evf (step s i).2)).1 ++ absf (step s i).1 = (upd (del, wr) (evf (step s i).2)).2) :
    ∀ (is : List ι) (s : σ) (g : List Nat × List Nat), inv s → g.1 ++ absf s = g.2 →
      (histFrom g ((runWith step s is).2.map evf)).1 ++ absf (runWith step s is).1
        = (histFrom g ((runWith step s is).2.map evf)).2
  | [], s, g, _, h => by simpa [runWith, histFrom] using h
  | i :: is, s, g, hi, h => by
    simp only [runWith, List.map_cons, histFrom_cons]
    exact hist_runWith step inv absf evf hinv hstep is _ _ (hinv s i hi) (hstep s i g.1 g.2 hi h)

theorem inv_runWith {σ ι ο} (step : σ → ι → σ × ο) (inv : σ → Prop)
    (hinv : ∀ s i, inv s → inv (step s i).1) :
    ∀ (is : List ι) (s : σ), inv s → inv (runWith step s is).1
  | [], _, h => h
  | i :: is, s, h => by
    simp only [runWith]
    exact inv_runWith step inv hinv is _ (hinv s i h)

/-! ### several callers of an exclusive method -/

theorem winner_attempts {order : List Nat} {att : List Bool} {k : Nat} (h : winner order att = some k) :
    att.getD k false = true := by
  unfold winner at h
  exact List.find?_some (p := fun k => att.getD k false) h

theorem onlyTo_getElem? {α} {n : Nat} {g : Option Nat} {res : Option α} {k : Nat} {v : α}
    (h : (onlyTo n g res)[k]? = some (some v)) : g = some k ∧ res = some v := by
  unfold onlyTo at h
  rw [List.getElem?_map] at h
  by_cases hk : k < n
  · simp [hk] at h
    exact h
  · have : (List.range n)[k]? = none := by simp; omega
    simp [this] at h

/-- an exclusive method called by several transactions: at most one caller executes per cycle,
    it is a caller that attempted, and it sees exactly the single-port outcome `res` -/
theorem callers_exclusive {α} {order : List Nat} {att : List Bool} {n : Nat} {res : Option α}
    {k1 k2 : Nat} {v1 v2 : α}
    (h1 : (onlyTo n (winner order att) res)[k1]? = some (some v1))
    (h2 : (onlyTo n (winner order att) res)[k2]? = some (some v2)) :
    k1 = k2 ∧ res = some v1 ∧ att.getD k1 false = true := by
  obtain ⟨g1, r1⟩ := onlyTo_getElem? h1
  obtain ⟨g2, _⟩ := onlyTo_getElem? h2
  refine ⟨?_, r1, winner_attempts g1⟩
  rw [g1] at g2
  exact Option.some.inj g2

end TxV.QueueUtil
