import TxV.Model.Shifter
/-! Helper lemmas for C37 (shifters / rotators). Core Lean only. -/
namespace TxV.Shifter
open TxV.Bits

variable {α : Type}

@[simp] theorem length_genericShiftRight (z : α) (a b : List α) (off : Nat) :
    (genericShiftRight z a b off).length = a.length := by
  simp [genericShiftRight]

@[simp] theorem length_genericShiftLeft (z : α) (a b : List α) (off : Nat) :
    (genericShiftLeft z a b off).length = a.length := by
  simp [genericShiftLeft]

theorem getElem?_genericShiftRight (z : α) (a b : List α) (off i : Nat) (hi : i < a.length) :
    (genericShiftRight z a b off)[i]? = some (((a ++ b)[i + off]?).getD z) := by
  unfold genericShiftRight
  rw [List.getElem?_map, List.getElem?_range hi, Option.map_some]

theorem getElem?_genericShiftLeft (z : α) (a b : List α) (off i : Nat) (hi : i < a.length) :
    (genericShiftLeft z a b off)[i]? =
      some (((a.reverse ++ b.reverse)[a.length - 1 - i + off]?).getD z) := by
  unfold genericShiftLeft
  rw [List.getElem?_reverse (by simpa using hi)]
  rw [length_genericShiftRight, List.length_reverse]
  rw [getElem?_genericShiftRight _ _ _ _ _ (by simp; omega)]

/-- reading the concatenation `value ++ fill` at position `k` -/
theorem getElem?_append_fill (v b : List α) (k : Nat) (hb : b.length = v.length) :
    (v ++ b)[k]? = if k < v.length then v[k]? else if k < 2 * v.length then b[k - v.length]? else none := by
  rw [List.getElem?_append]
  split
  · rfl
  · split
    · rfl
    · exact List.getElem?_eq_none (by omega)

/-- right shift, general form: inside the value → the value's entry; inside the fill → the
    fill's entry; past both → `zero` -/
theorem getElem?_gsr_cases (z : α) (a b : List α) (off i : Nat) (hi : i < a.length)
    (hb : b.length = a.length) :
    (genericShiftRight z a b off)[i]? =
      if i + off < a.length then a[i + off]?
      else if i + off < 2 * a.length then b[i + off - a.length]? else some z := by
  rw [getElem?_genericShiftRight z a b off i hi, getElem?_append_fill a b _ hb]
  split
  · rename_i h; rw [List.getElem?_eq_getElem h]; rfl
  · split
    · rename_i h1 h2
      have : i + off - a.length < b.length := by omega
      rw [List.getElem?_eq_getElem this]; rfl
    · rfl

theorem getElem?_gsl_cases (z : α) (a b : List α) (off i : Nat) (hi : i < a.length)
    (hb : b.length = a.length) :
    (genericShiftLeft z a b off)[i]? =
      if off ≤ i then a[i - off]?
      else if off ≤ i + a.length then b[i + a.length - off]? else some z := by
  rw [getElem?_genericShiftLeft z a b off i hi,
    getElem?_append_fill a.reverse b.reverse _ (by simpa using hb)]
  simp only [List.length_reverse]
  by_cases h1 : off ≤ i
  · rw [if_pos (by omega), if_pos h1, List.getElem?_reverse (by omega)]
    have e : a.length - 1 - (a.length - 1 - i + off) = i - off := by omega
    have h : i - off < a.length := by omega
    rw [e, List.getElem?_eq_getElem h]; rfl
  · rw [if_neg (by omega), if_neg h1]
    by_cases h2 : off ≤ i + a.length
    · rw [if_pos (by omega), if_pos h2, List.getElem?_reverse (by omega)]
      have e : b.length - 1 - (a.length - 1 - i + off - a.length) = i + a.length - off := by omega
      have h : i + a.length - off < b.length := by omega
      rw [e, List.getElem?_eq_getElem h]; rfl
    · rw [if_neg (by omega), if_neg h2]; rfl

theorem mod_wrap (a n : Nat) (h1 : n ≤ a) (h2 : a < 2 * n) : a % n = a - n := by
  rw [Nat.mod_eq_sub_mod h1, Nat.mod_eq_of_lt (by omega)]

theorem getElem?_shiftRight (z : α) (v : List α) (off : Nat) (ph : α) (i : Nat) (hi : i < v.length)
    (h : off ≤ v.length ∨ ph = z) :
    (shiftRight z v off ph)[i]? = some ((v[i + off]?).getD ph) := by
  unfold shiftRight
  rw [getElem?_gsr_cases z v _ off i hi (by simp)]
  split
  · rename_i h1; rw [List.getElem?_eq_getElem h1]; rfl
  · rename_i h1
    have hv : v[i + off]? = none := List.getElem?_eq_none (by omega)
    rw [hv]
    split
    · rw [List.getElem?_replicate_of_lt (by omega)]; rfl
    · rcases h with h | h
      · omega
      · rw [h]; rfl

theorem getElem?_shiftLeft (z : α) (v : List α) (off : Nat) (ph : α) (i : Nat) (hi : i < v.length)
    (h : off ≤ v.length ∨ ph = z) :
    (shiftLeft z v off ph)[i]? = if off ≤ i then v[i - off]? else some ph := by
  unfold shiftLeft
  rw [getElem?_gsl_cases z v _ off i hi (by simp)]
  split
  · rfl
  · split
    · rw [List.getElem?_replicate_of_lt (by omega)]
    · rcases h with h | h
      · omega
      · rw [h]

theorem getElem?_rotateRight (z : α) (v : List α) (off i : Nat) (hi : i < v.length)
    (h : off ≤ v.length) :
    (rotateRight z v off)[i]? = v[(i + off) % v.length]? := by
  unfold rotateRight
  rw [getElem?_gsr_cases z v v off i hi rfl]
  split
  · rename_i h1; rw [Nat.mod_eq_of_lt h1]
  · rename_i h1
    rw [if_pos (by omega), mod_wrap _ _ (by omega) (by omega)]

theorem getElem?_rotateLeft (z : α) (v : List α) (off i : Nat) (hi : i < v.length)
    (h : off ≤ v.length) :
    (rotateLeft z v off)[i]? = v[(i + v.length - off) % v.length]? := by
  unfold rotateLeft
  rw [getElem?_gsl_cases z v v off i hi rfl]
  split
  · rename_i h1
    rw [mod_wrap _ _ (by omega) (by omega)]
    congr 1; omega
  · rename_i h1
    rw [if_pos (by omega), Nat.mod_eq_of_lt (by omega)]

/-! ### bit planes: the vector variants are the generic shift on whole entries -/

theorem toBits_succ (w x : Nat) : toBits (w + 1) x = x.testBit 0 :: toBits w (x / 2) := by
  unfold toBits
  rw [List.range_succ_eq_map, List.map_cons, List.map_map]
  congr 1
  apply List.map_congr_left
  intro i _
  simp [Nat.testBit_succ]

theorem ofBits_toBits (w x : Nat) : ofBits (toBits w x) = x % 2 ^ w := by
  induction w generalizing x with
  | zero => simp [toBits, ofBits, Nat.mod_one]
  | succ w ih =>
    rw [toBits_succ, ofBits, ih, Nat.pow_succ', Nat.mod_mul, Nat.testBit_zero]
    by_cases h : x % 2 = 1
    · simp [h]
    · have : x % 2 = 0 := by omega
      simp [this]

theorem getElem?_plane (d : List Nat) (i k : Nat) :
    ((plane d i)[k]?).getD false = ((d[k]?).getD 0).testBit i := by
  unfold plane
  rw [List.getElem?_map]
  cases d[k]? <;> simp

theorem plane_append (d1 d2 : List Nat) (i : Nat) : plane d1 i ++ plane d2 i = plane (d1 ++ d2) i := by
  simp [plane]

theorem getD_lt (d : List Nat) (k ew : Nat) (h : ∀ x ∈ d, x < 2 ^ ew) : (d[k]?).getD 0 < 2 ^ ew := by
  cases hk : d[k]? with
  | none => exact Nat.two_pow_pos ew
  | some y => exact h y (List.mem_of_getElem? hk)

/-- slicing into bit planes, shifting each plane and reassembling = shifting the entries -/
theorem genericShiftVecRight_eq (ew : Nat) (d1 d2 : List Nat) (off : Nat)
    (h1 : ∀ x ∈ d1, x < 2 ^ ew) (h2 : ∀ x ∈ d2, x < 2 ^ ew) :
    genericShiftVecRight ew d1 d2 off = genericShiftRight 0 d1 d2 off := by
  unfold genericShiftVecRight
  simp only []
  unfold genericShiftRight
  apply List.map_congr_left
  intro j hj
  have hj' : j < d1.length := by simpa using hj
  rw [List.map_map]
  have hy : ((d1 ++ d2)[j + off]?).getD 0 < 2 ^ ew :=
    getD_lt _ _ _ (by intro x hx; rcases List.mem_append.1 hx with h | h; exact h1 x h; exact h2 x h)
  have : (List.range ew).map ((fun bits : List Bool => (bits[j]?).getD false) ∘
        fun i => (List.range (plane d1 i).length).map
          fun i_1 => ((plane d1 i ++ plane d2 i)[i_1 + off]?).getD false)
      = toBits ew (((d1 ++ d2)[j + off]?).getD 0) := by
    unfold toBits
    apply List.map_congr_left
    intro i _
    simp only [Function.comp]
    have hl : (plane d1 i).length = d1.length := by simp [plane]
    rw [hl, List.getElem?_map, List.getElem?_range hj']
    simp only [Option.map_some, Option.getD_some]
    rw [plane_append, getElem?_plane]
  rw [this, ofBits_toBits, Nat.mod_eq_of_lt hy]

theorem genericShiftVecLeft_eq (ew : Nat) (d1 d2 : List Nat) (off : Nat)
    (h1 : ∀ x ∈ d1, x < 2 ^ ew) (h2 : ∀ x ∈ d2, x < 2 ^ ew) :
    genericShiftVecLeft ew d1 d2 off = genericShiftLeft 0 d1 d2 off := by
  unfold genericShiftVecLeft genericShiftLeft
  rw [genericShiftVecRight_eq ew _ _ off (by simpa using h1) (by simpa using h2)]

end TxV.Shifter
