import TxV.Model.BasicIO
/-! Specification vocabulary and helper lemmas for C30 (InputSampler / OutputBuffer).

Histories are functions of the cycle number (`Nat → _`), cycle 0 being the first cycle
after reset; `delayed x d` is the history one cycle late, with the value `d` "before reset". -/
namespace TxV.BasicIO

/-- one-cycle delay of a history; `d` is the value taken before reset -/
def delayed {α : Type} (x : Nat → α) (d : α) : Nat → α
  | 0 => d
  | t + 1 => x t

/-- the trigger the logic looks at: raw, or synchronised (one cycle late, 0 before reset) -/
def eff (c : Cfg) (trig : Nat → Bool) : Nat → Bool :=
  if c.sync then delayed trig false else trig

/-- the property's predicate: (optionally synchronised) trigger is at the configured level, or
    has the configured edge relative to the previous cycle (pre-reset trigger value 0) -/
def active (c : Cfg) (trig : Nat → Bool) (t : Nat) : Bool :=
  if c.edge then (eff c trig t == c.polarity) && (delayed (eff c trig) false t != c.polarity)
  else eff c trig t == c.polarity

/-- trigger registers at the beginning of cycle `t` -/
def tstateAt (c : Cfg) (trig : Nat → Bool) : Nat → TState
  | 0 => tinit c
  | t + 1 => tstep c (tstateAt c trig t) (trig t)

theorem tnew_eq (c : Cfg) (trig : Nat → Bool) (t : Nat)
    (h : (tstateAt c trig t).treg = delayed trig false t) :
    tnew c (tstateAt c trig t) (trig t) = (eff c trig t == c.polarity) := by
  unfold tnew eff
  rw [h]
  cases c.sync <;> cases c.polarity <;> simp

theorem tstate_inv (c : Cfg) (trig : Nat → Bool) (t : Nat) :
    (tstateAt c trig t).treg = delayed trig false t ∧
    (tstateAt c trig t).old = (delayed (eff c trig) false t == c.polarity) := by
  induction t with
  | zero => cases hp : c.polarity <;> simp [tstateAt, tinit, delayed, hp]
  | succ t ih =>
    refine ⟨by simp [tstateAt, tstep, delayed], ?_⟩
    show (tstep c (tstateAt c trig t) (trig t)).old = _
    simp only [tstep, delayed]
    exact tnew_eq c trig t ih.1

theorem tready_eq (c : Cfg) (trig : Nat → Bool) (t : Nat) :
    tready c (tstateAt c trig t) (trig t) = active c trig t := by
  have h := tstate_inv c trig t
  unfold tready active
  rw [tnew_eq c trig t h.1, h.2]
  cases c.edge <;> simp [bne]

/-! ### InputSampler along a history -/
namespace Sampler

structure Env where
  trig : Nat → Bool
  data : Nat → Nat
  get : Nat → Bool

def Env.at (e : Env) (t : Nat) : In := { trig := e.trig t, data := e.data t, get := e.get t }

def stateAt (c : Cfg) (e : Env) : Nat → State
  | 0 => init c
  | t + 1 => (step c (stateAt c e t) (e.at t)).1

def outAt (c : Cfg) (e : Env) (t : Nat) : Out := (step c (stateAt c e t) (e.at t)).2

theorem state_eq (c : Cfg) (e : Env) (t : Nat) :
    (stateAt c e t).t = tstateAt c e.trig t ∧ (stateAt c e t).dreg = delayed e.data 0 t := by
  induction t with
  | zero => simp [stateAt, init, tstateAt, delayed]
  | succ t ih => simp [stateAt, step, tstateAt, delayed, Env.at, ih.1]

theorem run_eq (c : Cfg) (e : Env) (k n : Nat) :
    run c (stateAt c e k) ((List.range' k n).map e.at)
      = (stateAt c e (k + n), (List.range' k n).map (outAt c e)) := by
  induction n generalizing k with
  | zero => simp [run]
  | succ n ih =>
    simp only [List.range'_succ, List.map_cons, run]
    have : (step c (stateAt c e k) (e.at k)).1 = stateAt c e (k + 1) := rfl
    rw [this, ih (k + 1)]
    simp [outAt, Nat.add_assoc, Nat.add_comm 1 n]

end Sampler

/-! ### OutputBuffer along a history -/
namespace OutBuf

structure Env where
  trig : Nat → Bool
  put : Nat → Option Nat

def Env.at (e : Env) (t : Nat) : In := { trig := e.trig t, put := e.put t }

def stateAt (c : Cfg) (e : Env) : Nat → State
  | 0 => init c
  | t + 1 => (step c (stateAt c e t) (e.at t)).1

def outAt (c : Cfg) (e : Env) (t : Nat) : Out := (step c (stateAt c e t) (e.at t)).2

theorem state_eq (c : Cfg) (e : Env) (t : Nat) :
    (stateAt c e t).t = tstateAt c e.trig t := by
  induction t with
  | zero => simp [stateAt, init, tstateAt]
  | succ t ih => simp [stateAt, step, tstateAt, Env.at, ih]

theorem data_eq (c : Cfg) (e : Env) (t : Nat) : (outAt c e t).data = (stateAt c e t).obuf := rfl

theorem data_succ_put (c : Cfg) (e : Env) (t v : Nat)
    (hv : e.put t = some v) (hp : (outAt c e t).put = true) : (outAt c e (t + 1)).data = v := by
  simp only [stateAt, outAt, step, Env.at, hv] at hp ⊢
  simp at hp
  simp [hp]

theorem data_succ_hold (c : Cfg) (e : Env) (t : Nat)
    (hp : (outAt c e t).put = false) : (outAt c e (t + 1)).data = (outAt c e t).data := by
  simp only [stateAt, outAt, step, Env.at] at hp ⊢
  cases h : e.put t with
  | none => simp
  | some v => simp [h] at hp; simp [hp]

theorem run_eq (c : Cfg) (e : Env) (k n : Nat) :
    run c (stateAt c e k) ((List.range' k n).map e.at)
      = (stateAt c e (k + n), (List.range' k n).map (outAt c e)) := by
  induction n generalizing k with
  | zero => simp [run]
  | succ n ih =>
    simp only [List.range'_succ, List.map_cons, run]
    have : (step c (stateAt c e k) (e.at k)).1 = stateAt c e (k + 1) := rfl
    rw [this, ih (k + 1)]
    simp [outAt, Nat.add_assoc, Nat.add_comm 1 n]

end OutBuf

end TxV.BasicIO
