import TxV.Model.CAM
/-! Helper lemmas for C24 (ContentAddressableMemory): slot-array lemmas, the three register
updates of one cycle in dictionary terms (`step_spec`), the bounded-dictionary specification. -/
namespace TxV.CAM

/-! ### slot lists -/

def matchIdxL (l : List Slot) (k : Nat) : Option Nat :=
  l.findIdx? (fun sl => sl.valid && sl.key == k)

/-- the dictionary view of the registers: data of the (first) valid slot holding `k` -/
def lookupL (l : List Slot) (k : Nat) : Option Nat :=
  match matchIdxL l k with
  | some j => l[j]?.map (·.data)
  | none => none

/-- invariant: valid keys are pairwise distinct -/
def InvL (l : List Slot) : Prop :=
  ∀ (i j : Nat) (a b : Slot), l[i]? = some a → l[j]? = some b → a.valid = true → b.valid = true → a.key = b.key → i = j

/-- no valid slot holds `k` -/
def NoKey (l : List Slot) (k : Nat) : Prop :=
  ∀ (j : Nat) (sl : Slot), l[j]? = some sl → sl.valid = true → sl.key ≠ k

theorem matchIdxL_some {l : List Slot} {k j : Nat} (h : matchIdxL l k = some j) :
    ∃ sl, l[j]? = some sl ∧ sl.valid = true ∧ sl.key = k := by
  unfold matchIdxL at h
  rw [List.findIdx?_eq_some_iff_getElem] at h
  obtain ⟨hl, hp, _⟩ := h
  refine ⟨l[j], List.getElem?_eq_getElem hl, ?_⟩
  simpa using hp

theorem matchIdxL_none {l : List Slot} {k : Nat} : matchIdxL l k = none ↔ NoKey l k := by
  unfold matchIdxL NoKey
  rw [List.findIdx?_eq_none_iff]
  constructor
  · intro h j sl hj hv hk
    have := h sl (List.mem_of_getElem? hj)
    simp [hv, hk] at this
  · intro h sl hm
    obtain ⟨j, hj, rfl⟩ := List.getElem_of_mem hm
    have := h j l[j] (List.getElem?_eq_getElem hj)
    cases hv : l[j].valid
    · simp
    · simpa using this hv

theorem matchIdxL_of_slot {l : List Slot} (hi : InvL l) {k j : Nat} {sl : Slot}
    (hj : l[j]? = some sl) (hv : sl.valid = true) (hk : sl.key = k) : matchIdxL l k = some j := by
  cases h : matchIdxL l k with
  | none => exact absurd hk (matchIdxL_none.1 h j sl hj hv)
  | some j' =>
    obtain ⟨sl', hj', hv', hk'⟩ := matchIdxL_some h
    rw [hi j' j sl' sl hj' hj hv' hv (by rw [hk', hk])]

theorem lookupL_none {l : List Slot} {k : Nat} : lookupL l k = none ↔ NoKey l k := by
  unfold lookupL
  cases h : matchIdxL l k with
  | none => simpa using matchIdxL_none.1 h
  | some j =>
    obtain ⟨sl, hj, hv, hk⟩ := matchIdxL_some h
    simp only [hj, Option.map_some]
    constructor
    · intro h'; cases h'
    · intro hn; exact absurd hk (hn j sl hj hv)

theorem lookupL_of_slot {l : List Slot} (hi : InvL l) {k j : Nat} {sl : Slot}
    (hj : l[j]? = some sl) (hv : sl.valid = true) (hk : sl.key = k) : lookupL l k = some sl.data := by
  unfold lookupL
  rw [matchIdxL_of_slot hi hj hv hk]
  simp [hj]

theorem lookupL_some {l : List Slot} {k d : Nat} (h : lookupL l k = some d) :
    ∃ j sl, l[j]? = some sl ∧ sl.valid = true ∧ sl.key = k ∧ sl.data = d ∧ matchIdxL l k = some j := by
  unfold lookupL at h
  cases hm : matchIdxL l k with
  | none => simp [hm] at h
  | some j =>
    obtain ⟨sl, hj, hv, hk⟩ := matchIdxL_some hm
    simp only [hm, hj, Option.map_some, Option.some.injEq] at h
    exact ⟨j, sl, hj, hv, hk, h, rfl⟩

theorem getElem?_setSlot (l : List Slot) (j i : Nat) (f : Slot → Slot) :
    (setSlot l j f)[i]? = if i = j then l[i]?.map f else l[i]? := by
  unfold setSlot
  cases h : l[j]? with
  | none =>
    by_cases hij : i = j
    · subst hij; simp [h]
    · simp [hij]
  | some sl =>
    simp only [List.getElem?_set]
    have hl : j < l.length := by
      rcases Nat.lt_or_ge j l.length with h' | h'
      · exact h'
      · rw [List.getElem?_eq_none h'] at h; cases h
    by_cases hij : i = j
    · subst hij
      have : l[i] = sl := by rw [List.getElem?_eq_getElem hl] at h; exact Option.some.inj h
      simp [hl, this]
    · have : ¬ j = i := fun e => hij e.symm
      simp [hij, this]

theorem length_setSlot (l : List Slot) (j : Nat) (f : Slot → Slot) :
    (setSlot l j f).length = l.length := by
  unfold setSlot; split <;> simp

def countL (l : List Slot) : Nat := l.countP (·.valid)

theorem countL_setSlot (l : List Slot) (j : Nat) (f : Slot → Slot) (sl : Slot) (hj : l[j]? = some sl) :
    countL (setSlot l j f) + sl.valid.toNat = countL l + (f sl).valid.toNat := by
  have hl : j < l.length := by
    rcases Nat.lt_or_ge j l.length with h' | h'
    · exact h'
    · rw [List.getElem?_eq_none h'] at hj; cases hj
  have hget : l[j] = sl := by
    rw [List.getElem?_eq_getElem hl] at hj; exact Option.some.inj hj
  unfold setSlot countL
  rw [hj]
  simp only
  rw [List.countP_set hl, hget]
  have hpos : sl.valid = true → 0 < List.countP (·.valid) l := by
    intro hv
    apply List.countP_pos_iff.2
    exact ⟨sl, List.mem_of_getElem? hj, hv⟩
  cases hv : sl.valid <;> cases hv' : (f sl).valid <;> simp
  · have := hpos hv; omega
  · have := hpos hv; omega


/-! ### one register update -/

theorem InvL_setSlot {l : List Slot} (hi : InvL l) {j : Nat} {sl : Slot} (f : Slot → Slot)
    (hj : l[j]? = some sl)
    (hf : (f sl).valid = true → ∀ (i : Nat) (a : Slot), i ≠ j → l[i]? = some a → a.valid = true → a.key ≠ (f sl).key) :
    InvL (setSlot l j f) := by
  intro i1 i2 a b h1 h2 va vb hk
  rw [getElem?_setSlot] at h1 h2
  by_cases e1 : i1 = j <;> by_cases e2 : i2 = j
  · rw [e1, e2]
  · simp only [e1, if_true, hj, Option.map_some, Option.some.injEq] at h1
    simp only [e2, if_false] at h2
    subst h1
    exact absurd hk.symm (hf va i2 b e2 h2 vb)
  · simp only [e2, if_true, hj, Option.map_some, Option.some.injEq] at h2
    simp only [e1, if_false] at h1
    subst h2
    exact absurd hk (hf vb i1 a e1 h1 va)
  · simp only [e1, e2, if_false] at h1 h2
    exact hi i1 i2 a b h1 h2 va vb hk

/-- keys not involved in the updated slot keep their entry -/
theorem lookupL_setSlot_other {l : List Slot} {j : Nat} {sl : Slot} (f : Slot → Slot)
    (hi' : InvL (setSlot l j f)) (hj : l[j]? = some sl) (k : Nat)
    (h1 : sl.valid = true → sl.key ≠ k) (h2 : (f sl).valid = true → (f sl).key ≠ k) :
    lookupL (setSlot l j f) k = lookupL l k := by
  cases h : lookupL l k with
  | none =>
    rw [lookupL_none] at h ⊢
    intro i a hia va
    rw [getElem?_setSlot] at hia
    by_cases e : i = j
    · simp only [e, if_true, hj, Option.map_some, Option.some.injEq] at hia
      subst hia; exact h2 va
    · simp only [e, if_false] at hia
      exact h i a hia va
  | some d =>
    obtain ⟨j0, sl0, hj0, v0, k0, d0, _⟩ := lookupL_some h
    have hne : j0 ≠ j := by
      intro e
      rw [e, hj] at hj0
      cases hj0
      exact h1 v0 k0
    have : (setSlot l j f)[j0]? = some sl0 := by rw [getElem?_setSlot]; simp [hne, hj0]
    rw [lookupL_of_slot hi' this v0 k0, d0]

/-- the key of the updated slot, when the update leaves a valid slot -/
theorem lookupL_setSlot_self {l : List Slot} {j : Nat} {sl : Slot} (f : Slot → Slot)
    (hi' : InvL (setSlot l j f)) (hj : l[j]? = some sl) (hv : (f sl).valid = true) :
    lookupL (setSlot l j f) (f sl).key = some (f sl).data := by
  have : (setSlot l j f)[j]? = some (f sl) := by rw [getElem?_setSlot]; simp [hj]
  exact lookupL_of_slot hi' this hv rfl

/-- push into an invalid slot, key absent -/
theorem stage_push {l : List Slot} (hi : InvL l) {pj : Nat} {sl : Slot} (k d : Nat)
    (hj : l[pj]? = some sl) (hv : sl.valid = false) (hn : NoKey l k) :
    InvL (setSlot l pj (fun _ => ⟨true, k, d⟩)) ∧
    (∀ k', lookupL (setSlot l pj (fun _ => ⟨true, k, d⟩)) k' = if k' = k then some d else lookupL l k') ∧
    countL (setSlot l pj (fun _ => ⟨true, k, d⟩)) = countL l + 1 := by
  have hi' : InvL (setSlot l pj (fun _ => (⟨true, k, d⟩ : Slot))) :=
    InvL_setSlot hi _ hj (fun _ i a _ hia va => hn i a hia va)
  refine ⟨hi', ?_, ?_⟩
  · intro k'
    by_cases e : k' = k
    · subst e
      simp only [if_true]
      exact lookupL_setSlot_self (fun _ => (⟨true, k', d⟩ : Slot)) hi' hj rfl
    · simp only [e, if_false]
      exact lookupL_setSlot_other _ hi' hj k' (by simp [hv]) (fun _ h => e h.symm)
  · have := countL_setSlot l pj (fun _ => (⟨true, k, d⟩ : Slot)) sl hj
    simp [hv] at this
    exact this

/-- write into a valid slot -/
theorem stage_write {l : List Slot} (hi : InvL l) {wj : Nat} {sl : Slot} (d : Nat)
    (hj : l[wj]? = some sl) (hv : sl.valid = true) :
    InvL (setSlot l wj (fun sl => { sl with data := d })) ∧
    (∀ k', lookupL (setSlot l wj (fun sl => { sl with data := d })) k' =
      if k' = sl.key then some d else lookupL l k') ∧
    countL (setSlot l wj (fun sl => { sl with data := d })) = countL l := by
  have hi' : InvL (setSlot l wj (fun sl => { sl with data := d })) :=
    InvL_setSlot hi _ hj (fun _ i a hne hia va hk => hne (hi i wj a sl hia hj va hv hk))
  refine ⟨hi', ?_, ?_⟩
  · intro k'
    by_cases e : k' = sl.key
    · subst e
      simp only [if_true]
      exact lookupL_setSlot_self (fun sl => { sl with data := d }) hi' hj hv
    · simp only [e, if_false]
      exact lookupL_setSlot_other _ hi' hj k' (fun _ h => e h.symm) (fun _ h => e h.symm)
  · have := countL_setSlot l wj (fun sl => { sl with data := d }) sl hj
    simp at this
    exact this

/-- clear the valid bit of a valid slot -/
theorem stage_remove {l : List Slot} (hi : InvL l) {xj : Nat} {sl : Slot}
    (hj : l[xj]? = some sl) (hv : sl.valid = true) :
    InvL (setSlot l xj (fun sl => { sl with valid := false })) ∧
    (∀ k', lookupL (setSlot l xj (fun sl => { sl with valid := false })) k' =
      if k' = sl.key then none else lookupL l k') ∧
    countL (setSlot l xj (fun sl => { sl with valid := false })) + 1 = countL l := by
  have hi' : InvL (setSlot l xj (fun sl => { sl with valid := false })) :=
    InvL_setSlot hi _ hj (fun h => by simp at h)
  refine ⟨hi', ?_, ?_⟩
  · intro k'
    by_cases e : k' = sl.key
    · subst e
      simp only [if_true]
      rw [lookupL_none]
      intro i a hia va hk
      rw [getElem?_setSlot] at hia
      by_cases e : i = xj
      · simp only [e, if_true, hj, Option.map_some, Option.some.injEq] at hia
        subst hia; simp at va
      · simp only [e, if_false] at hia
        exact e (hi i xj a sl hia hj va hv hk)
    · simp only [e, if_false]
      exact lookupL_setSlot_other _ hi' hj k' (fun _ h => e h.symm) (by simp)
  · have := countL_setSlot l xj (fun sl => { sl with valid := false }) sl hj
    simp [hv] at this
    omega


/-! ### the three updates of one cycle -/

def applyPush (l : List Slot) : Option (Nat × Nat × Nat) → List Slot
  | some (pj, k, d) => setSlot l pj (fun _ => ⟨true, k, d⟩)
  | none => l

def applyWrite (l : List Slot) : Option (Nat × Nat) → List Slot
  | some (wj, d) => setSlot l wj (fun sl => { sl with data := d })
  | none => l

def applyRemove (l : List Slot) : Option Nat → List Slot
  | some xj => setSlot l xj (fun sl => { sl with valid := false })
  | none => l

/-- effect of the three updates on the entry of key `k'` -/
def selPush (p : Option (Nat × Nat × Nat)) (k' : Nat) (L : Option Nat) : Option Nat :=
  match p with
  | some (_, k, d) => if k' = k then some d else L
  | none => L

def selWrite (w : Option (Nat × Nat)) (wk k' : Nat) (L : Option Nat) : Option Nat :=
  match w with
  | some (_, d) => if k' = wk then some d else L
  | none => L

def selRemove (x : Option Nat) (xk k' : Nat) (L : Option Nat) : Option Nat :=
  match x with
  | some _ => if k' = xk then none else L
  | none => L

theorem nextSlots_eq (l : List Slot) (p : Option (Nat × Nat × Nat)) (w : Option (Nat × Nat)) (x : Option Nat) :
    nextSlots l p w x = applyRemove (applyWrite (applyPush l p) w) x := by
  cases p with
  | none => cases w <;> cases x <;> rfl
  | some p => obtain ⟨pj, k, d⟩ := p; cases w <;> cases x <;> rfl

theorem applyPush_spec {l : List Slot} (hi : InvL l) (p : Option (Nat × Nat × Nat))
    (hp : ∀ pj k d, p = some (pj, k, d) → (∃ sl, l[pj]? = some sl ∧ sl.valid = false) ∧ NoKey l k) :
    InvL (applyPush l p) ∧
    (∀ k', lookupL (applyPush l p) k' = selPush p k' (lookupL l k')) ∧
    countL (applyPush l p) = countL l + p.isSome.toNat ∧
    (∀ (j : Nat) (sl : Slot), l[j]? = some sl → sl.valid = true → (applyPush l p)[j]? = some sl) := by
  cases p with
  | none => exact ⟨hi, fun _ => rfl, by simp [applyPush], fun j sl h _ => h⟩
  | some p =>
    obtain ⟨pj, k, d⟩ := p
    obtain ⟨⟨sl, hj, hv⟩, hn⟩ := hp pj k d rfl
    obtain ⟨h1, h2, h3⟩ := stage_push hi k d hj hv hn
    simp only [applyPush]
    refine ⟨h1, h2, by rw [h3]; rfl, ?_⟩
    intro j a hja va
    simp only [getElem?_setSlot]
    have : j ≠ pj := by
      intro e; rw [e, hj] at hja; cases hja; simp [hv] at va
    simp [this, hja]

theorem applyWrite_spec {l : List Slot} (hi : InvL l) (w : Option (Nat × Nat)) (wk : Nat)
    (hw : ∀ wj d, w = some (wj, d) → ∃ sl, l[wj]? = some sl ∧ sl.valid = true ∧ sl.key = wk) :
    InvL (applyWrite l w) ∧
    (∀ k', lookupL (applyWrite l w) k' = selWrite w wk k' (lookupL l k')) ∧
    countL (applyWrite l w) = countL l ∧
    (∀ (j : Nat) (sl : Slot), l[j]? = some sl → sl.valid = true →
      ∃ sl', (applyWrite l w)[j]? = some sl' ∧ sl'.valid = true ∧ sl'.key = sl.key) := by
  cases w with
  | none => exact ⟨hi, fun _ => rfl, rfl, fun j sl h v => ⟨sl, h, v, rfl⟩⟩
  | some w =>
    obtain ⟨wj, d⟩ := w
    obtain ⟨sl, hj, hv, hk⟩ := hw wj d rfl
    obtain ⟨h1, h2, h3⟩ := stage_write hi d hj hv
    simp only [applyWrite]
    rw [hk] at h2
    refine ⟨h1, h2, h3, ?_⟩
    intro j a hja va
    simp only [getElem?_setSlot]
    by_cases e : j = wj
    · refine ⟨{ a with data := d }, ?_, va, rfl⟩
      subst e
      simp [hja]
    · exact ⟨a, by simp [e, hja], va, rfl⟩

theorem applyRemove_spec {l : List Slot} (hi : InvL l) (x : Option Nat) (xk : Nat)
    (hx : ∀ xj, x = some xj → ∃ sl, l[xj]? = some sl ∧ sl.valid = true ∧ sl.key = xk) :
    InvL (applyRemove l x) ∧
    (∀ k', lookupL (applyRemove l x) k' = selRemove x xk k' (lookupL l k')) ∧
    countL (applyRemove l x) + x.isSome.toNat = countL l := by
  cases x with
  | none => exact ⟨hi, fun _ => rfl, rfl⟩
  | some xj =>
    obtain ⟨sl, hj, hv, hk⟩ := hx xj rfl
    obtain ⟨h1, h2, h3⟩ := stage_remove hi hj hv
    simp only [applyRemove]
    rw [hk] at h2
    exact ⟨h1, h2, h3⟩


/-! ### one cycle of the model in dictionary terms -/

def lookup (s : State) (k : Nat) : Option Nat := lookupL s.slots k
/-- the invariant of C24: valid keys are pairwise distinct -/
def Inv (s : State) : Prop := InvL s.slots
/-- number of occupied slots -/
def count (s : State) : Nat := countL s.slots

theorem matchIdx_isSome (s : State) (k : Nat) : (matchIdx s k).isSome = (lookup s k).isSome := by
  show (matchIdxL s.slots k).isSome = (lookupL s.slots k).isSome
  cases h : matchIdxL s.slots k with
  | none => rw [lookupL_none.2 (matchIdxL_none.1 h)]
  | some j =>
    obtain ⟨sl, hj, _, _⟩ := matchIdxL_some h
    simp [lookupL, h, hj]

theorem matchIdx_isNone (s : State) (k : Nat) : (matchIdx s k).isNone = (lookup s k).isNone := by
  have := matchIdx_isSome s k
  cases h1 : matchIdx s k <;> cases h2 : lookup s k <;> simp [h1, h2] at this ⊢

theorem freeIdx_some {s : State} {j : Nat} (h : freeIdx s = some j) :
    ∃ sl, s.slots[j]? = some sl ∧ sl.valid = false := by
  unfold freeIdx at h
  rw [List.findIdx?_eq_some_iff_getElem] at h
  obtain ⟨hl, hp, _⟩ := h
  exact ⟨s.slots[j], List.getElem?_eq_getElem hl, by simpa using hp⟩

theorem freeIdx_isSome (s : State) : (freeIdx s).isSome = pushReady s := by
  simp [freeIdx, pushReady, List.findIdx?_isSome]

/-- `push` is ready iff a slot is free -/
theorem pushReady_iff (s : State) : pushReady s = true ↔ count s < s.slots.length := by
  unfold pushReady count countL
  have hle := List.countP_le_length (p := fun sl : Slot => sl.valid) (l := s.slots)
  rw [List.any_eq_true]
  constructor
  · intro ⟨sl, hm, hv⟩
    apply Nat.lt_of_le_of_ne hle
    intro he
    have := List.countP_eq_length.1 he sl hm
    simp [this] at hv
  · intro hlt
    apply Classical.byContradiction
    intro hn
    have : List.countP (fun sl : Slot => sl.valid) s.slots = s.slots.length := by
      apply List.countP_eq_length.2
      intro a ha
      cases hv : a.valid
      · exact absurd ⟨a, ha, by simp [hv]⟩ hn
      · rfl
    omega

/-- the dictionary after one cycle, written with the pre-state dictionary `lookup s`:
    all four methods observe the pre-state (model order push, write, remove) -/
def nextLookup (s : State) (i : In) (k' : Nat) : Option Nat :=
  let L0 := lookup s k'
  let L1 := match i.push with
    | some (k, d) => if pushReady s = true ∧ k' = k then some d else L0
    | none => L0
  let L2 := match i.write with
    | some (k, d) => if k' = k ∧ (lookup s k).isSome = true then some d else L1
    | none => L1
  match i.remove with
  | some k => if k' = k ∧ (lookup s k).isSome = true then none else L2
  | none => L2

/-- environment hypothesis for one cycle: a push that executes carries a key that is not present -/
def PushOk (s : State) (i : In) : Prop :=
  ∀ k d, i.push = some (k, d) → pushReady s = true → lookup s k = none

def removeHit (s : State) (i : In) : Bool :=
  match i.remove with
  | some k => (lookup s k).isSome
  | none => false

theorem removeAt_isSome (s : State) (i : In) : (removeAt s i).isSome = removeHit s i := by
  unfold removeAt removeHit
  cases i.remove with
  | none => rfl
  | some k => exact matchIdx_isSome s k

theorem pushAt_isSome (s : State) (i : In) : (pushAt s i).isSome = (i.push.isSome && pushReady s) := by
  unfold pushAt
  rw [← freeIdx_isSome]
  cases i.push with
  | none => rfl
  | some kd => obtain ⟨k, d⟩ := kd; cases freeIdx s <;> rfl

theorem step_slots_length (s : State) (i : In) : (step s i).1.slots.length = s.slots.length := by
  simp only [step, nextSlots_eq]
  cases pushAt s i <;> cases writeAt s i <;> cases removeAt s i <;>
    simp [applyPush, applyWrite, applyRemove, length_setSlot]

theorem step_spec (s : State) (i : In) (hi : Inv s) (hp : PushOk s i) :
    Inv (step s i).1 ∧ (∀ k', lookup (step s i).1 k' = nextLookup s i k') ∧
    count (step s i).1 + (removeHit s i).toNat = count s + ((step s i).2.push).toNat := by
  unfold Inv lookup count at *
  have hP := applyPush_spec hi (pushAt s i) (by
    intro pj k d h
    unfold pushAt at h
    cases hpu : i.push with
    | none => simp [hpu] at h
    | some kd =>
      obtain ⟨k0, d0⟩ := kd
      cases hf : freeIdx s with
      | none => simp [hpu, hf] at h
      | some j =>
        simp only [hpu, hf, Option.some.injEq, Prod.mk.injEq] at h
        obtain ⟨rfl, rfl, rfl⟩ := h
        refine ⟨freeIdx_some hf, ?_⟩
        have hr : pushReady s = true := by rw [← freeIdx_isSome, hf]; rfl
        exact lookupL_none.1 (hp k0 d0 hpu hr))
  obtain ⟨iP, lP, cP, kP⟩ := hP
  have hW := applyWrite_spec iP (writeAt s i) (match i.write with | some (k, _) => k | none => 0) (by
    intro wj d h
    unfold writeAt at h
    cases hwr : i.write with
    | none => simp [hwr] at h
    | some kd =>
      obtain ⟨k0, d0⟩ := kd
      cases hm : matchIdx s k0 with
      | none => simp [hwr, hm] at h
      | some j =>
        simp only [hwr, hm, Option.map_some, Option.some.injEq, Prod.mk.injEq] at h
        obtain ⟨rfl, rfl⟩ := h
        obtain ⟨sl, hj, hv, hk⟩ := matchIdxL_some hm
        exact ⟨sl, kP _ _ hj hv, hv, hk⟩)
  obtain ⟨iW, lW, cW, kW⟩ := hW
  have hX := applyRemove_spec iW (removeAt s i) (match i.remove with | some k => k | none => 0) (by
    intro xj h
    unfold removeAt at h
    cases hrm : i.remove with
    | none => simp [hrm] at h
    | some k0 =>
      simp only [hrm] at h
      obtain ⟨sl, hj, hv, hk⟩ := matchIdxL_some h
      obtain ⟨sl', hj', hv', hk'⟩ := kW _ _ (kP _ _ hj hv) hv
      exact ⟨sl', hj', hv', by rw [hk', hk]⟩)
  obtain ⟨iX, lX, cX⟩ := hX
  have hslots : (step s i).1.slots = applyRemove (applyWrite (applyPush s.slots (pushAt s i)) (writeAt s i)) (removeAt s i) := by
    simp only [step, nextSlots_eq]
  have hpush : (step s i).2.push = (pushAt s i).isSome := by simp [step]
  rw [hslots, hpush]
  refine ⟨iX, ?_, ?_⟩
  · intro k'
    rw [lX]
    simp only [lW, lP]
    unfold nextLookup
    simp only [← matchIdx_isSome, ← freeIdx_isSome]
    unfold pushAt writeAt removeAt lookup selPush selWrite selRemove
    rcases hf : freeIdx s with _ | pj <;> rcases hpu : i.push with _ | ⟨pk, pd⟩ <;> simp only [] <;>
    (rcases hwr : i.write with _ | ⟨wk, wd⟩
     · rcases hrm : i.remove with _ | xk
       · simp
       · rcases hmx : matchIdx s xk with _ | xj <;> simp <;> grind
     · rcases hmw : matchIdx s wk with _ | wj <;>
       (rcases hrm : i.remove with _ | xk
        · simp <;> grind
        · rcases hmx : matchIdx s xk with _ | xj <;> simp <;> grind))
  · rw [← removeAt_isSome]
    omega


/-! ### the specification: a dictionary with capacity -/

abbrev Dict := List (Nat × Nat)

def dlookup : Dict → Nat → Option Nat
  | [], _ => none
  | (k, d) :: m, k' => if k' = k then some d else dlookup m k'

def derase (m : Dict) (k : Nat) : Dict := m.filter (fun e => decide (e.1 ≠ k))

def dupdate (m : Dict) (k d : Nat) : Dict := m.map (fun e => if e.1 = k then (k, d) else e)

def dkeys (m : Dict) : List Nat := m.map (·.1)

/-- what the dictionary answers in one cycle -/
structure SOut where
  read : Option (Option Nat)   -- `none`: not called; `some none`: not found; `some (some d)`: found `d`
  write : Option Bool          -- not_found
  remove : Bool
  push : Bool
deriving Repr, DecidableEq

/-- one cycle of the dictionary of capacity `n`: every call observes the dictionary `m` of the
    beginning of the cycle; the effects are applied as remove, then write (so a removed key is
    not written: remove wins), then push -/
def specStep (n : Nat) (m : Dict) (i : In) : Dict × SOut :=
  let m1 := match i.remove with
    | some k => derase m k
    | none => m
  let m2 := match i.write with
    | some (k, d) => dupdate m1 k d
    | none => m1
  let m3 := match i.push with
    | some (k, d) => if m.length < n then (k, d) :: m2 else m2
    | none => m2
  (m3, { read := i.read.map (dlookup m),
         write := i.write.map (fun kd => (dlookup m kd.1).isNone),
         remove := i.remove.isSome,
         push := i.push.isSome && decide (m.length < n) })

def specRun (n : Nat) (m : Dict) : List In → Dict × List SOut
  | [] => (m, [])
  | i :: is =>
    let (m', o) := specStep n m i
    let (m'', os) := specRun n m' is
    (m'', o :: os)

/-- the property's hypothesis as a decidable predicate on the history (evaluated on the
    dictionary): no executing push carries a key that is present -/
def pushFresh (n : Nat) (m : Dict) (i : In) : Bool :=
  match i.push with
  | some (k, _) => !(decide (m.length < n)) || (dlookup m k).isNone
  | none => true

def neverPushesPresent (n : Nat) : Dict → List In → Bool
  | _, [] => true
  | m, i :: is => pushFresh n m i && neverPushesPresent n (specStep n m i).1 is

/-- implementation output agrees with the dictionary's answer (`data` is unspecified when
    `not_found` is reported) -/
def outMatches (o : Out) (so : SOut) : Prop :=
  (match o.read, so.read with
    | none, none => True
    | some (d, nf), some r => nf = r.isNone ∧ ∀ v, r = some v → d = v
    | _, _ => False) ∧
  o.write = so.write ∧ o.remove = so.remove ∧ o.push = so.push

theorem dlookup_derase (m : Dict) (k k' : Nat) :
    dlookup (derase m k) k' = if k' = k then none else dlookup m k' := by
  induction m with
  | nil => simp [derase, dlookup]
  | cons e m ih =>
    obtain ⟨a, b⟩ := e
    unfold derase at ih ⊢
    by_cases h : a = k
    · simp only [List.filter_cons, h, ne_eq, not_true_eq_false, decide_false, Bool.false_eq_true, if_false, ih, dlookup]
      by_cases h' : k' = k <;> simp [h']
    · simp only [List.filter_cons, h, ne_eq, not_false_eq_true, decide_true, if_true, dlookup, ih]
      by_cases h' : k' = k
      · have : ¬ k' = a := fun e => h (e ▸ h')
        simp [h']
        intro e; exact absurd e.symm h
      · simp [h']

theorem dlookup_dupdate (m : Dict) (k d k' : Nat) :
    dlookup (dupdate m k d) k' = if k' = k ∧ (dlookup m k).isSome = true then some d else dlookup m k' := by
  induction m with
  | nil => simp [dupdate, dlookup]
  | cons e m ih =>
    obtain ⟨a, b⟩ := e
    unfold dupdate at ih ⊢
    simp only [List.map_cons]
    by_cases h : a = k
    · subst h
      simp only [if_true, dlookup, ih]
      by_cases h' : k' = a <;> simp [h']
    · simp only [h, if_false, dlookup, ih]
      have hk : ¬ k = a := fun e => h e.symm
      by_cases h' : k' = a
      · have : ¬ k' = k := fun e => h (h' ▸ e)
        simp [h', hk, h]
      · simp [h', hk]

theorem dkeys_dupdate (m : Dict) (k d : Nat) : dkeys (dupdate m k d) = dkeys m := by
  induction m with
  | nil => rfl
  | cons e m ih =>
    unfold dkeys dupdate at *
    simp only [List.map_cons, ih]
    by_cases h : e.1 = k <;> simp [h]

theorem length_dupdate (m : Dict) (k d : Nat) : (dupdate m k d).length = m.length := by
  simp [dupdate]

theorem dlookup_isSome_iff_mem (m : Dict) (k : Nat) : (dlookup m k).isSome = true ↔ k ∈ dkeys m := by
  induction m with
  | nil => simp [dlookup, dkeys]
  | cons e m ih =>
    obtain ⟨a, b⟩ := e
    unfold dkeys at *
    simp only [dlookup, List.map_cons, List.mem_cons]
    by_cases h : k = a
    · simp [h]
    · simp [h, ih]

theorem dkeys_derase_nodup (m : Dict) (k : Nat) (h : (dkeys m).Nodup) : (dkeys (derase m k)).Nodup := by
  unfold dkeys derase at *
  exact List.Nodup.sublist (List.Sublist.map _ List.filter_sublist) h

theorem length_derase (m : Dict) (k : Nat) (h : (dkeys m).Nodup) :
    (derase m k).length + (dlookup m k).isSome.toNat = m.length := by
  induction m with
  | nil => simp [derase, dlookup]
  | cons e m ih =>
    obtain ⟨a, b⟩ := e
    have hn : (dkeys m).Nodup ∧ a ∉ dkeys m := by
      unfold dkeys at h ⊢
      simp only [List.map_cons, List.nodup_cons] at h
      exact ⟨h.2, h.1⟩
    have ih := ih hn.1
    unfold derase at ih ⊢
    by_cases hk : a = k
    · subst hk
      have hnone : (dlookup m a).isSome = false := by
        cases hx : (dlookup m a).isSome
        · rfl
        · exact absurd ((dlookup_isSome_iff_mem m a).1 hx) hn.2
      rw [hnone] at ih
      simp [dlookup] at ih ⊢
      omega
    · have : ¬ k = a := fun e => hk e.symm
      simp [hk, dlookup, this] at ih ⊢
      omega


/-! ### refinement -/

/-- the registers `s` represent the dictionary `m` -/
def Rel (s : State) (m : Dict) : Prop :=
  (∀ k, lookup s k = dlookup m k) ∧ count s = m.length ∧ (dkeys m).Nodup

theorem readData_of_lookup {s : State} {k d : Nat} (h : lookup s k = some d) : readData s k = d := by
  obtain ⟨j, sl, hj, _, _, hd, hm⟩ := lookupL_some h
  unfold readData
  have : matchIdx s k = some j := hm
  simp [this, hj, hd]

theorem pushFresh_PushOk {s : State} {m : Dict} (hr : Rel s m) (i : In)
    (hf : pushFresh s.slots.length m i = true) : PushOk s i := by
  intro k d hpu hrdy
  unfold pushFresh at hf
  rw [hpu] at hf
  have hlt : m.length < s.slots.length := by rw [← hr.2.1]; exact (pushReady_iff s).1 hrdy
  simp only [hlt, decide_true, Bool.not_true, Bool.false_or] at hf
  rw [hr.1 k]
  cases h : dlookup m k with
  | none => rfl
  | some v => simp [h] at hf

theorem step_outMatches {s : State} {m : Dict} (hr : Rel s m) (i : In) :
    outMatches (step s i).2 (specStep s.slots.length m i).2 := by
  have hrdy : pushReady s = decide (m.length < s.slots.length) := by
    have := pushReady_iff s
    rw [hr.2.1] at this
    cases h : pushReady s
    · simp [h] at this; simp; omega
    · simp [h] at this; simp [this]
  refine ⟨?_, ?_, ?_, ?_⟩
  · simp only [step, specStep]
    cases hrd : i.read with
    | none => simp
    | some k =>
      simp only [Option.map_some]
      refine ⟨?_, ?_⟩
      · rw [matchIdx_isNone, hr.1 k]
      · intro v hv
        exact readData_of_lookup (by rw [hr.1 k, hv])
  · simp only [step, specStep]
    cases i.write with
    | none => rfl
    | some kd => simp [matchIdx_isNone, hr.1 kd.1]
  · simp [step, specStep]
  · simp only [step, specStep, pushAt_isSome, hrdy]

theorem nextLookup_spec {s : State} {m : Dict} (hr : Rel s m) (i : In)
    (hf : pushFresh s.slots.length m i = true) (k' : Nat) :
    nextLookup s i k' = dlookup (specStep s.slots.length m i).1 k' := by
  have hrdy : (pushReady s = true) ↔ m.length < s.slots.length := by
    rw [pushReady_iff, hr.2.1]
  unfold nextLookup specStep pushFresh at *
  simp only [hr.1] at *
  rcases hpu : i.push with _ | ⟨pk, pd⟩ <;> rcases hwr : i.write with _ | ⟨wk, wd⟩ <;>
    rcases hrm : i.remove with _ | xk <;> simp only [hpu] at hf <;> simp only [] <;>
    by_cases hlt : m.length < s.slots.length <;>
    simp [hlt, hrdy, dlookup, dlookup_dupdate, dlookup_derase, Option.isSome_iff_ne_none] at hf ⊢ <;> grind

theorem dkeys_derase_subset (m : Dict) (k a : Nat) (h : a ∈ dkeys (derase m k)) : a ∈ dkeys m := by
  unfold dkeys derase at *
  exact (List.Sublist.map _ List.filter_sublist).subset h

theorem specStep_length (n : Nat) (m : Dict) (i : In) (hn : (dkeys m).Nodup) :
    (specStep n m i).1.length + (match i.remove with | some k => (dlookup m k).isSome | none => false).toNat =
      m.length + (specStep n m i).2.push.toNat := by
  unfold specStep
  rcases hpu : i.push with _ | ⟨pk, pd⟩ <;> rcases hwr : i.write with _ | ⟨wk, wd⟩ <;>
    rcases hrm : i.remove with _ | xk <;> simp only [] <;>
    by_cases hlt : m.length < n <;> simp [hlt, length_dupdate] <;>
    (have := length_derase m xk hn; omega)

def specRemove (m : Dict) : Option Nat → Dict
  | some k => derase m k
  | none => m

def specWrite (m : Dict) : Option (Nat × Nat) → Dict
  | some (k, d) => dupdate m k d
  | none => m

def specPush (free : Bool) (m : Dict) : Option (Nat × Nat) → Dict
  | some (k, d) => if free then (k, d) :: m else m
  | none => m

theorem specStep_fst (n : Nat) (m : Dict) (i : In) :
    (specStep n m i).1 = specPush (decide (m.length < n)) (specWrite (specRemove m i.remove) i.write) i.push := by
  unfold specStep specPush specWrite specRemove
  rcases i.push with _ | ⟨pk, pd⟩ <;> rcases i.write with _ | ⟨wk, wd⟩ <;> rcases i.remove with _ | xk <;> simp

theorem specStep_nodup (n : Nat) (m : Dict) (i : In) (hn : (dkeys m).Nodup) (hf : pushFresh n m i = true) :
    (dkeys (specStep n m i).1).Nodup := by
  rw [specStep_fst]
  have h1 : (dkeys (specRemove m i.remove)).Nodup := by
    unfold specRemove
    cases i.remove with
    | none => exact hn
    | some k => exact dkeys_derase_nodup m k hn
  have s1 : ∀ a, a ∈ dkeys (specRemove m i.remove) → a ∈ dkeys m := by
    unfold specRemove
    cases i.remove with
    | none => exact fun a h => h
    | some k => exact fun a h => dkeys_derase_subset m k a h
  have h2 : dkeys (specWrite (specRemove m i.remove) i.write) = dkeys (specRemove m i.remove) := by
    unfold specWrite
    rcases i.write with _ | ⟨wk, wd⟩
    · rfl
    · exact dkeys_dupdate _ wk wd
  unfold pushFresh at hf
  unfold specPush
  rcases hpu : i.push with _ | ⟨pk, pd⟩
  · simp only [h2]; exact h1
  · simp only [hpu] at hf
    simp only []
    by_cases hlt : m.length < n
    · simp only [hlt, decide_true, if_true]
      simp only [hlt, decide_true, Bool.not_true, Bool.false_or] at hf
      have hk : dkeys ((pk, pd) :: specWrite (specRemove m i.remove) i.write) =
          pk :: dkeys (specRemove m i.remove) := by rw [← h2]; rfl
      rw [hk, List.nodup_cons]
      refine ⟨fun hmem => ?_, h1⟩
      have := (dlookup_isSome_iff_mem m pk).2 (s1 pk hmem)
      cases hx : dlookup m pk <;> simp [hx] at hf this
    · simp only [hlt, decide_false, Bool.false_eq_true, if_false, h2]; exact h1

theorem step_Rel {s : State} {m : Dict} (hi : Inv s) (hr : Rel s m) (i : In)
    (hf : pushFresh s.slots.length m i = true) :
    Inv (step s i).1 ∧ Rel (step s i).1 (specStep s.slots.length m i).1 := by
  have hp := pushFresh_PushOk hr i hf
  obtain ⟨h1, h2, h3⟩ := step_spec s i hi hp
  refine ⟨h1, fun k => by rw [h2, nextLookup_spec hr i hf], ?_, specStep_nodup _ m i hr.2.2 hf⟩
  have hl := specStep_length s.slots.length m i hr.2.2
  have ho := (step_outMatches hr i).2.2.2
  have hx : removeHit s i = (match i.remove with | some k => (dlookup m k).isSome | none => false) := by
    unfold removeHit
    cases i.remove with
    | none => rfl
    | some k => simp only [hr.1 k]
  rw [hx, ho, hr.2.1] at h3
  omega

theorem init_Rel (n : Nat) : Inv (init n) ∧ Rel (init n) [] ∧ (init n).slots.length = n := by
  refine ⟨?_, ⟨?_, ?_, ?_⟩, by simp [init]⟩
  · intro i j a b hia _ va
    simp only [init, List.getElem?_replicate] at hia
    split at hia
    · cases hia; simp at va
    · cases hia
  · intro k
    show lookupL _ k = none
    rw [lookupL_none]
    intro j sl hj hv
    simp only [init, List.getElem?_replicate] at hj
    split at hj
    · cases hj; simp at hv
    · cases hj
  · simp [count, countL, init, List.countP_replicate]
  · simp [dkeys]

/-- cycle by cycle, the implementation's outputs agree with the dictionary's answers -/
def AllMatch : List Out → List SOut → Prop
  | [], [] => True
  | o :: os, so :: sos => outMatches o so ∧ AllMatch os sos
  | _, _ => False

/-- history induction: under the hypothesis the registers follow the dictionary -/
theorem run_refines (n : Nat) (s : State) (m : Dict) (hist : List In)
    (hi : Inv s) (hr : Rel s m) (hn : s.slots.length = n) (hg : neverPushesPresent n m hist = true) :
    AllMatch (run s hist).2 (specRun n m hist).2 ∧
    Inv (run s hist).1 ∧ Rel (run s hist).1 (specRun n m hist).1 := by
  induction hist generalizing s m with
  | nil => exact ⟨trivial, hi, hr⟩
  | cons i is ih =>
    simp only [neverPushesPresent, Bool.and_eq_true] at hg
    subst hn
    obtain ⟨hi', hr'⟩ := step_Rel hi hr i hg.1
    have := ih (step s i).1 (specStep s.slots.length m i).1 hi' hr' (step_slots_length s i) hg.2
    simp only [run, specRun]
    exact ⟨⟨step_outMatches hr i, this.1⟩, this.2⟩

end TxV.CAM
