import TxV.Model.Latency
import TxV.Proofs.Metrics
/-!
Helper lemmas for C32: the implementation model (wrapping epoch register) simulates the
specification machine that keeps true cycle numbers.
-/
namespace TxV.Latency
open TxV.Metrics

/-! ### arithmetic of the truncated epoch difference -/

theorem two_pow_succ' (ew : Nat) : 2 ^ (ew + 1) = 2 * 2 ^ ew := by
  rw [Nat.pow_succ, Nat.mul_comm]

/-- `(epoch - stored)[:-1]` on wrapped stamps is the true duration modulo `2^ew` -/
theorem durHW_mod (ew t0 t1 : Nat) (h : t0 ≤ t1) :
    durHW ew (t1 % 2 ^ ew) (t0 % 2 ^ ew) = (t1 - t0) % 2 ^ ew := by
  unfold durHW
  have hM : 0 < 2 ^ ew := Nat.two_pow_pos ew
  rw [two_pow_succ', Nat.mod_mod_of_dvd _ (Nat.dvd_mul_left _ _)]
  generalize hMd : 2 ^ ew = M at *
  obtain ⟨d, rfl⟩ : ∃ d, t1 = t0 + d := ⟨t1 - t0, by omega⟩
  have e1 : t0 + d - t0 = d := by omega
  rw [e1]
  -- t0 = M * q0 + b
  have hb : t0 % M < M := Nat.mod_lt _ hM
  have ha : (t0 + d) % M = (t0 % M + d) % M := by rw [Nat.mod_add_mod]
  rw [ha]
  generalize t0 % M = b at *
  have hq := Nat.div_add_mod (b + d) M
  have ha' : (b + d) % M < M := Nat.mod_lt _ hM
  generalize (b + d) % M = a at *
  generalize hMq : M * ((b + d) / M) = Mq at *
  have key : a + 2 * M - b + Mq = d + 2 * M := by omega
  have : (a + 2 * M - b + M * ((b + d) / M)) % M = (a + 2 * M - b) % M := Nat.add_mul_mod_self_left _ _ _
  rw [← this, hMq, key]
  rw [show d + 2 * M = d + M * 2 by omega, Nat.add_mul_mod_self_left]

theorem lt_two_pow_bitsFor (n : Nat) : n < 2 ^ bitsFor n := by
  unfold bitsFor
  split
  · omega
  · exact Nat.lt_log2_self

/-! ### one way -/

/-- the same cycle of one way with all stamps renamed by `f` -/
def WayOut.mapStamp (f : Nat → Nat) (o : WayOut) : WayOut :=
  { o with popped := o.popped.map f, q := o.q.map f }

theorem wayStep_map (f : Nat → Nat) (slots msto stamp : Nat) (q : List Nat) (start stop : Option Nat) :
    wayStep slots msto (f stamp) (q.map f) start stop = (wayStep slots msto stamp q start stop).mapStamp f := by
  simp only [wayStep, WayOut.mapStamp, List.length_map, List.map_take, List.map_drop, List.map_append]
  congr 2
  cases (Option.filter (fun n => (slots - q.length != 0) && decide (n ≤ slots - q.length)) start) <;> simp

theorem wayStep_popped_sub (slots msto stamp : Nat) (q : List Nat) (start stop : Option Nat) :
    ∀ x ∈ (wayStep slots msto stamp q start stop).popped, x ∈ q := by
  intro x hx
  simp only [wayStep] at hx
  exact List.mem_of_mem_take hx

theorem wayStep_popped_len (slots msto stamp : Nat) (q : List Nat) (start stop : Option Nat) :
    (wayStep slots msto stamp q start stop).popped.length ≤ msto := by
  simp only [wayStep, List.length_take]
  cases (Option.filter (fun _ => q.length != 0) stop) with
  | none => simp
  | some n =>
    simp only [Option.elim_some]
    have h1 : Nat.min n (Nat.min q.length msto) ≤ Nat.min q.length msto := Nat.min_le_right _ _
    have h2 : Nat.min q.length msto ≤ msto := Nat.min_le_right _ _
    have h3 : min (Nat.min n (Nat.min q.length msto)) q.length ≤ Nat.min n (Nat.min q.length msto) := Nat.min_le_left _ _
    omega

theorem wayStep_q_mem (slots msto stamp : Nat) (q : List Nat) (start stop : Option Nat) :
    ∀ x ∈ (wayStep slots msto stamp q start stop).q, x ∈ q ∨ x = stamp := by
  intro x hx
  simp only [wayStep, List.mem_append] at hx
  rcases hx with hx | hx
  · exact Or.inl (List.mem_of_mem_drop hx)
  · cases h : (Option.filter (fun n => (slots - q.length != 0) && decide (n ≤ slots - q.length)) start) with
    | none => rw [h] at hx; simp at hx
    | some n => rw [h] at hx; simp only [Option.elim_some, List.mem_replicate] at hx; exact Or.inr hx.2

/-- queue discipline of one cycle: a stop removes a prefix (the oldest entries), a start appends
    `count` copies of the current stamp at the end -/
theorem wayStep_fifo (slots msto stamp : Nat) (q : List Nat) (start stop : Option Nat) :
    let o := wayStep slots msto stamp q start stop
    o.popped ++ o.q = q ++ (if o.startDone then List.replicate (start.getD 0) stamp else []) := by
  simp only [wayStep]
  rw [← List.append_assoc, List.take_append_drop]
  congr 1
  cases start with
  | none => simp
  | some n =>
    simp only [Option.filter_some, Option.getD_some]
    split <;> simp

/-- histogram inputs of one way: the model's are the specification's modulo `2^ew` -/
theorem wayAdds_map (ew msto now : Nat) (o : WayOut) (h : ∀ x ∈ o.popped, x ≤ now) :
    wayAdds msto (durHW ew (now % 2 ^ ew)) (o.mapStamp (· % 2 ^ ew))
      = (wayAdds msto (durTrue now) o).map (Option.map (· % 2 ^ ew)) := by
  simp only [wayAdds, WayOut.mapStamp, List.map_append, List.map_map, List.length_map, List.map_replicate,
    Option.map_none]
  congr 1
  apply List.map_congr_left
  intro t ht
  simp only [Function.comp, Option.map_some, durTrue]
  rw [durHW_mod ew t now (h t ht)]

theorem filterMap_some_map {α β} (f : α → β) (l : List α) :
    (l.map fun t => some (f t)).filterMap id = l.map f := by
  induction l with
  | nil => rfl
  | cons a l ih => simp [ih]

theorem filterMap_replicate_none {α} (n : Nat) : (List.replicate n (none : Option α)).filterMap id = [] := by
  induction n with
  | zero => rfl
  | succ n ih => simp [List.replicate_succ, ih]

theorem take_take_length {α} (l : List α) (n : Nat) : l.take (l.take n).length = l.take n := by
  rw [List.length_take, List.take_eq_take_iff]
  omega

/-! ### all ways -/

/-- simulation relation: wrapped epoch / queues of wrapped stamps vs. true time / queues of true start times -/
def Rel (ew : Nat) (s t : Core) : Prop :=
  s.now = t.now % 2 ^ ew ∧ s.qs = t.qs.map (List.map (· % 2 ^ ew))

/-- every stored start time lies in the past (or present) -/
def Past (t : Core) : Prop := ∀ q ∈ t.qs, ∀ x ∈ q, x ≤ t.now

theorem coreOuts_rel (ew slots msto : Nat) (s t : Core) (ins : List WayIn) (hR : Rel ew s t) :
    coreOuts slots msto s ins = (coreOuts slots msto t ins).map (WayOut.mapStamp (· % 2 ^ ew)) := by
  obtain ⟨hn, hq⟩ := hR
  unfold coreOuts
  rw [hn, hq, List.zipWith_map_left, List.map_zipWith]
  congr 1
  funext q i
  exact wayStep_map (· % 2 ^ ew) slots msto t.now q i.1 i.2

theorem coreOuts_popped_past (slots msto : Nat) (t : Core) (ins : List WayIn) (hP : Past t) :
    ∀ o ∈ coreOuts slots msto t ins, ∀ x ∈ o.popped, x ≤ t.now := by
  intro o ho x hx
  unfold coreOuts at ho
  rw [List.mem_iff_getElem] at ho
  obtain ⟨k, hk, rfl⟩ := ho
  simp only [List.getElem_zipWith] at hx
  have hk' : k < t.qs.length := by simp [List.length_zipWith] at hk; omega
  exact hP _ (List.getElem_mem hk') x (wayStep_popped_sub _ _ _ _ _ _ x hx)

theorem coreAdds_rel (ew slots msto : Nat) (s t : Core) (ins : List WayIn) (hR : Rel ew s t) (hP : Past t) :
    coreAdds msto (durHW ew) s (coreOuts slots msto s ins)
      = (coreAdds msto durTrue t (coreOuts slots msto t ins)).map (Option.map (· % 2 ^ ew)) := by
  rw [coreOuts_rel ew slots msto s t ins hR]
  unfold coreAdds
  rw [hR.1, List.map_flatten, List.map_map, List.map_map]
  congr 1
  apply List.map_congr_left
  intro o ho
  simp only [Function.comp]
  exact wayAdds_map ew msto t.now o (coreOuts_popped_past slots msto t ins hP o ho)

theorem coreNext_rel (ew slots msto : Nat) (s t : Core) (ins : List WayIn) (hR : Rel ew s t) :
    Rel ew (coreNext (wrapHW ew) s (coreOuts slots msto s ins)) (coreNext id t (coreOuts slots msto t ins)) := by
  rw [coreOuts_rel ew slots msto s t ins hR]
  obtain ⟨hn, _⟩ := hR
  refine ⟨?_, ?_⟩
  · simp only [coreNext, wrapHW, id, hn, Nat.mod_add_mod]
  · simp only [coreNext, List.map_map]
    apply List.map_congr_left
    intro o _
    rfl

theorem coreNext_past (slots msto : Nat) (t : Core) (ins : List WayIn) (hP : Past t) :
    Past (coreNext id t (coreOuts slots msto t ins)) := by
  intro q hq x hx
  simp only [coreNext, id, List.mem_map] at hq ⊢
  obtain ⟨o, ho, rfl⟩ := hq
  unfold coreOuts at ho
  rw [List.mem_iff_getElem] at ho
  obtain ⟨k, hk, rfl⟩ := ho
  simp only [List.getElem_zipWith] at hx
  have hk' : k < t.qs.length := by simp [List.length_zipWith] at hk; omega
  rcases wayStep_q_mem _ _ _ _ _ _ x hx with h | h
  · have := hP _ (List.getElem_mem hk') x h
    omega
  · omega

theorem coreRunAdds_rel (ew slots msto : Nat) (s t : Core) (h : List (List WayIn)) (hR : Rel ew s t) (hP : Past t) :
    coreRunAdds slots msto (wrapHW ew) (durHW ew) s h
      = (coreRunAdds slots msto id durTrue t h).map (List.map (Option.map (· % 2 ^ ew))) := by
  induction h generalizing s t with
  | nil => rfl
  | cons ins h ih =>
    simp only [coreRunAdds, List.map_cons]
    rw [coreAdds_rel ew slots msto s t ins hR hP,
      ih _ _ (coreNext_rel ew slots msto s t ins hR) (coreNext_past slots msto t ins hP)]

theorem coreRun_rel (ew slots msto : Nat) (s t : Core) (h : List (List WayIn)) (hR : Rel ew s t) (hP : Past t) :
    Rel ew (coreRun slots msto (wrapHW ew) s h) (coreRun slots msto id t h) ∧ Past (coreRun slots msto id t h) := by
  induction h generalizing s t with
  | nil => exact ⟨hR, hP⟩
  | cons ins h ih =>
    simp only [coreRun]
    exact ih _ _ (coreNext_rel ew slots msto s t ins hR) (coreNext_past slots msto t ins hP)

theorem rel_init (ew ways : Nat) : Rel ew (coreInit ways) (coreInit ways) ∧ Past (coreInit ways) := by
  refine ⟨⟨by simp [coreInit], ?_⟩, ?_⟩
  · simp [coreInit]
  · intro q hq x hx
    simp only [coreInit, List.mem_replicate] at hq
    rw [hq.2] at hx
    simp at hx

/-- the model's histogram is the C31 histogram fed with the model's per-cycle samples -/
theorem run_hist (c : Cfg) (s : State) (h : List (List WayIn)) :
    (run c s h).hist = c.hcfg.run s.hist (coreRunAdds c.slots c.msto (wrapHW c.ew) (durHW c.ew) s.core h) ∧
    (run c s h).core = coreRun c.slots c.msto (wrapHW c.ew) s.core h := by
  induction h generalizing s with
  | nil => exact ⟨rfl, rfl⟩
  | cons ins h ih =>
    simp only [run, List.foldl_cons, coreRunAdds, coreRun, HCfg.run] at ih ⊢
    exact ih (step c s ins)

/-- when no sample exceeds `2^ew - 1` the truncation is the identity -/
theorem map_mod_id (M : Nat) (A : List (List (Option Nat))) (hA : ∀ l ∈ A, ∀ o ∈ l, ∀ x, o = some x → x < M) :
    A.map (List.map (Option.map (· % M))) = A := by
  conv => rhs; rw [← List.map_id A]
  apply List.map_congr_left
  intro l hl
  conv => rhs; rw [id, ← List.map_id l]
  apply List.map_congr_left
  intro o ho
  cases o with
  | none => rfl
  | some x => simp only [Option.map_some, id]; rw [Nat.mod_eq_of_lt (hA l hl _ ho x rfl)]

/-! ### single way, whole history: FIFO order -/

/-- one way of the specification machine over a history: (start times of the finished events in
    the order they finish, start times of all registered events in the order they start, final queue) -/
def wayRun (slots msto : Nat) : Nat → List Nat → List WayIn → List Nat × List Nat × List Nat
  | _, q, [] => ([], [], q)
  | now, q, i :: h =>
    let o := wayStep slots msto now q i.1 i.2
    let r := wayRun slots msto (now + 1) o.q h
    (o.popped ++ r.1, (if o.startDone then List.replicate (i.1.getD 0) now else []) ++ r.2.1, r.2.2)

theorem wayRun_fifo (slots msto now : Nat) (q : List Nat) (h : List WayIn) :
    q ++ (wayRun slots msto now q h).2.1 = (wayRun slots msto now q h).1 ++ (wayRun slots msto now q h).2.2 := by
  induction h generalizing now q with
  | nil => simp [wayRun]
  | cons i h ih =>
    simp only [wayRun]
    have hf := wayStep_fifo slots msto now q i.1 i.2
    simp only at hf
    rw [← List.append_assoc, ← hf, List.append_assoc, ih, List.append_assoc]

/-- the core machine restricted to one way is `wayRun` -/
theorem coreRun_single (slots msto now : Nat) (q : List Nat) (h : List WayIn) :
    (coreRun slots msto id { now := now, qs := [q] } (h.map fun i => [i])).qs = [(wayRun slots msto now q h).2.2] := by
  induction h generalizing now q with
  | nil => rfl
  | cons i h ih =>
    simp only [List.map_cons, coreRun, coreNext, coreOuts, List.zipWith_cons_cons, List.zipWith_nil_left,
      List.map_cons, List.map_nil, id, wayRun]
    exact ih _ _

/-! ### TaggedLatencyMeasurer -/

def TRel (ew : Nat) (s t : TCore) : Prop :=
  s.now = t.now % 2 ^ ew ∧ s.mem = t.mem.map (· % 2 ^ ew)

def TPast (t : TCore) : Prop := ∀ x ∈ t.mem, x ≤ t.now

theorem tAdds_rel (ew : Nat) (s t : TCore) (ins : List TWayIn) (hR : TRel ew s t) (hP : TPast t) :
    tAdds (durHW ew) s ins = (tAdds durTrue t ins).map (Option.map (· % 2 ^ ew)) := by
  obtain ⟨hn, hm⟩ := hR
  simp only [tAdds, List.map_map]
  apply List.map_congr_left
  intro i _
  simp only [Function.comp]
  cases i.2 with
  | none => rfl
  | some slot =>
    simp only [Option.bind_some, hm, List.getElem?_map]
    cases hx : t.mem[slot]? with
    | none => rfl
    | some x =>
      simp only [Option.map_some, hn, durTrue]
      rw [durHW_mod ew x t.now (hP x (List.mem_of_getElem? hx))]

theorem foldl_write_map (f : Nat → Nat) (v : Nat) (ins : List TWayIn) (m : List Nat) :
    ins.foldl (fun m i => i.1.elim m fun slot => m.set slot (f v)) (m.map f)
      = (ins.foldl (fun m i => i.1.elim m fun slot => m.set slot v) m).map f := by
  induction ins generalizing m with
  | nil => rfl
  | cons i ins ih =>
    simp only [List.foldl_cons]
    cases i.1 with
    | none => simpa using ih m
    | some slot =>
      simp only [Option.elim_some]
      rw [← ih]
      congr 1
      rw [List.map_set]

theorem tNext_rel (ew : Nat) (s t : TCore) (ins : List TWayIn) (hR : TRel ew s t) :
    TRel ew (tNext (wrapHW ew) s ins) (tNext id t ins) := by
  obtain ⟨hn, hm⟩ := hR
  refine ⟨?_, ?_⟩
  · simp only [tNext, wrapHW, id, hn, Nat.mod_add_mod]
  · simp only [tNext, tWrite, hn, hm]
    exact foldl_write_map (· % 2 ^ ew) t.now ins t.mem

theorem foldl_write_mem (v : Nat) (ins : List TWayIn) (m : List Nat) :
    ∀ x ∈ ins.foldl (fun m i => i.1.elim m fun slot => m.set slot v) m, x ∈ m ∨ x = v := by
  induction ins generalizing m with
  | nil => intro x hx; exact Or.inl hx
  | cons i ins ih =>
    intro x hx
    simp only [List.foldl_cons] at hx
    rcases ih _ x hx with h | h
    · cases hi : i.1 with
      | none => rw [hi] at h; exact Or.inl h
      | some slot =>
        rw [hi] at h
        simp only [Option.elim_some] at h
        rcases List.mem_or_eq_of_mem_set h with h | h
        · exact Or.inl h
        · exact Or.inr h
    · exact Or.inr h

theorem tNext_past (t : TCore) (ins : List TWayIn) (hP : TPast t) : TPast (tNext id t ins) := by
  intro x hx
  simp only [tNext, tWrite, id] at hx ⊢
  rcases foldl_write_mem t.now ins t.mem x hx with h | h
  · have := hP x h; omega
  · omega

theorem tRunAdds_rel (ew : Nat) (s t : TCore) (h : List (List TWayIn)) (hR : TRel ew s t) (hP : TPast t) :
    tRunAdds (wrapHW ew) (durHW ew) s h = (tRunAdds id durTrue t h).map (List.map (Option.map (· % 2 ^ ew))) := by
  induction h generalizing s t with
  | nil => rfl
  | cons ins h ih =>
    simp only [tRunAdds, List.map_cons]
    rw [tAdds_rel ew s t ins hR hP, ih _ _ (tNext_rel ew s t ins hR) (tNext_past t ins hP)]

theorem trel_init (ew slots : Nat) : TRel ew (tCoreInit slots) (tCoreInit slots) ∧ TPast (tCoreInit slots) := by
  refine ⟨⟨by simp [tCoreInit], by simp [tCoreInit]⟩, ?_⟩
  intro x hx
  simp only [tCoreInit, List.mem_replicate] at hx
  simp [tCoreInit, hx.2]

theorem tRunState_hist (c : TCfg) (s : TState) (h : List (List TWayIn)) :
    (tRunState c s h).hist = c.hcfg.run s.hist (tRunAdds (wrapHW c.ew) (durHW c.ew) s.core h) := by
  induction h generalizing s with
  | nil => rfl
  | cons ins h ih =>
    simp only [tRunState, List.foldl_cons, tRunAdds, HCfg.run] at ih ⊢
    exact ih (tStep c s ins)

/-- does some way start `slot` in this cycle -/
def startsSlot (ins : List TWayIn) (slot : Nat) : Bool := ins.any fun i => i.1 == some slot

/-- number of cycles back from the end of the history to the most recent start of `slot`
    (`some 1` = started in the last cycle) -/
def sinceStart : List (List TWayIn) → Nat → Option Nat
  | [], _ => none
  | ins :: h, slot =>
    match sinceStart h slot with
    | some d => some d
    | none => if startsSlot ins slot then some (h.length + 1) else none

theorem tWrite_get (s : TCore) (ins : List TWayIn) (slot : Nat) (hs : slot < s.mem.length) :
    (tWrite s ins)[slot]? = if startsSlot ins slot then some s.now else s.mem[slot]? := by
  unfold tWrite startsSlot
  generalize s.mem = m at hs ⊢
  induction ins generalizing m with
  | nil => simp
  | cons i ins ih =>
    obtain ⟨i1, i2⟩ := i
    simp only [List.foldl_cons, List.any_cons]
    cases i1 with
    | none =>
      simp only [Option.elim_none]
      rw [ih m hs]
      have : (none == some slot) = false := rfl
      simp only [this, Bool.false_or]
    | some sl =>
      simp only [Option.elim_some]
      rw [ih _ (by simpa using hs)]
      by_cases he : sl = slot
      · subst he
        simp [List.getElem?_set, hs]
      · have : (some sl == some slot) = false := by simpa using he
        simp only [this, Bool.false_or]
        rw [List.getElem?_set_ne he]

theorem tWrite_length (s : TCore) (ins : List TWayIn) : (tWrite s ins).length = s.mem.length := by
  unfold tWrite
  generalize s.mem = m
  induction ins generalizing m with
  | nil => rfl
  | cons i ins ih =>
    simp only [List.foldl_cons]
    cases i.1 with
    | none => exact ih m
    | some sl => simp only [Option.elim_some]; rw [ih]; simp

theorem sinceStart_le (h : List (List TWayIn)) (slot d : Nat) (hd : sinceStart h slot = some d) :
    1 ≤ d ∧ d ≤ h.length := by
  induction h with
  | nil => simp [sinceStart] at hd
  | cons ins h ih =>
    simp only [sinceStart] at hd
    cases hs : sinceStart h slot with
    | some d' =>
      rw [hs] at hd
      simp only [Option.some.injEq] at hd
      subst hd
      have := ih hs
      simp only [List.length_cons]; omega
    | none =>
      rw [hs] at hd
      simp only at hd
      split at hd
      · simp only [Option.some.injEq] at hd; subst hd; simp
      · simp at hd

/-- the slot memory of the specification holds, per slot, the time of its most recent start -/
theorem tRun_mem (s : TCore) (h : List (List TWayIn)) (slot : Nat) (hs : slot < s.mem.length) :
    (tRun id s h).now = s.now + h.length ∧
    (tRun id s h).mem[slot]? =
      match sinceStart h slot with
      | some d => some (s.now + h.length - d)
      | none => s.mem[slot]? := by
  induction h generalizing s with
  | nil => simp [tRun, sinceStart]
  | cons ins h ih =>
    simp only [tRun, sinceStart, List.length_cons]
    have hl : slot < (tNext id s ins).mem.length := by simp only [tNext, tWrite_length]; exact hs
    obtain ⟨h1, h2⟩ := ih (tNext id s ins) hl
    have hnow : (tNext id s ins).now = s.now + 1 := rfl
    refine ⟨by rw [h1, hnow]; omega, ?_⟩
    rw [h2]
    cases hd : sinceStart h slot with
    | some d => simp only [hnow]; congr 2; omega
    | none =>
      simp only [tNext, tWrite_get s ins slot hs]
      by_cases hst : startsSlot ins slot = true
      · simp only [hst, if_true]; congr 1; omega
      · have : startsSlot ins slot = false := by simpa using hst
        simp [this]

end TxV.Latency
