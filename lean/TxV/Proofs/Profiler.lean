import TxV.Model.Profiler
/-! Helper lemmas for C35 (profiler). -/
namespace TxV.Profiler

/-! ### insertion-ordered dicts -/

theorem lookup_cons_if {α} (k a : Nat) (b : α) (es : List (Nat × α)) :
    List.lookup k ((a, b) :: es) = if k = a then some b else es.lookup k := by
  rw [List.lookup_cons]
  by_cases h : k = a
  · subst h; simp
  · have : (k == a) = false := by simpa using h
    simp [this, h]

theorem lookup_dset {α} (d : List (Nat × α)) (k : Nat) (v : α) (k' : Nat) :
    (dset d k v).lookup k' = if k' = k then some v else d.lookup k' := by
  induction d with
  | nil => simp [dset, lookup_cons_if]
  | cons e d ih =>
    obtain ⟨a, b⟩ := e
    simp only [dset]
    by_cases h : a = k
    · subst h
      simp only [beq_self_eq_true, ↓reduceIte, lookup_cons_if]
      by_cases h2 : k' = a <;> simp [h2]
    · have : (a == k) = false := by simpa using h
      simp only [this, Bool.false_eq_true, ↓reduceIte, lookup_cons_if, ih]
      by_cases h2 : k' = a
      · subst h2; simp [h]
      · simp [h2]

theorem mem_keys_iff_lookup {α} (d : List (Nat × α)) (k : Nat) :
    k ∈ keys d ↔ ∃ v, d.lookup k = some v := by
  induction d with
  | nil => simp [keys]
  | cons e d ih =>
    obtain ⟨a, b⟩ := e
    simp only [keys, List.map_cons, List.mem_cons, lookup_cons_if] at *
    by_cases h : k = a
    · subst h; simp
    · simp [h, ih]

theorem dmem_iff {α} (d : List (Nat × α)) (k : Nat) : dmem d k = true ↔ k ∈ keys d := by
  rw [mem_keys_iff_lookup]; simp [dmem, Option.isSome_iff_exists]

theorem mem_keys_dset {α} (d : List (Nat × α)) (k : Nat) (v : α) (k' : Nat) :
    k' ∈ keys (dset d k v) ↔ k' = k ∨ k' ∈ keys d := by
  rw [mem_keys_iff_lookup, mem_keys_iff_lookup, lookup_dset]
  by_cases h : k' = k <;> simp [h]

theorem keys_dset_of_mem {α} (d : List (Nat × α)) (k : Nat) (v : α) (h : k ∈ keys d) :
    keys (dset d k v) = keys d := by
  induction d with
  | nil => simp [keys] at h
  | cons e d ih =>
    obtain ⟨a, b⟩ := e
    simp only [dset]
    by_cases h2 : a = k
    · subst h2; simp [keys]
    · have : (a == k) = false := by simpa using h2
      simp only [this, Bool.false_eq_true, ↓reduceIte, keys, List.map_cons, List.cons.injEq, true_and]
      apply ih
      simp only [keys, List.map_cons, List.mem_cons] at h
      rcases h with h | h
      · exact absurd h.symm h2
      · exact h

theorem keys_dset_of_not_mem {α} (d : List (Nat × α)) (k : Nat) (v : α) (h : k ∉ keys d) :
    keys (dset d k v) = keys d ++ [k] := by
  induction d with
  | nil => simp [keys, dset]
  | cons e d ih =>
    obtain ⟨a, b⟩ := e
    simp only [keys, List.map_cons, List.mem_cons, not_or] at h
    have : (a == k) = false := by simpa using fun h' => h.1 h'.symm
    simp only [dset, this, Bool.false_eq_true, ↓reduceIte, keys, List.map_cons, List.cons_append,
      List.cons.injEq, true_and]
    exact ih h.2

theorem nodup_keys_dset {α} (d : List (Nat × α)) (k : Nat) (v : α) (h : (keys d).Nodup) :
    (keys (dset d k v)).Nodup := by
  by_cases hk : k ∈ keys d
  · rw [keys_dset_of_mem d k v hk]; exact h
  · rw [keys_dset_of_not_mem d k v hk]
    rw [List.nodup_append]
    refine ⟨h, by simp, ?_⟩
    intro a ha b hb
    simp at hb; subst hb
    intro hab; subst hab; exact hk ha


/-! ### `for x in l: if p x: d[t] = g x` -/

def condSet {α β} (p : β → Bool) (g : β → α) (t : Nat) (d0 : List (Nat × α)) (l : List β) : List (Nat × α) :=
  l.foldl (fun d x => if p x then dset d t (g x) else d) d0

theorem lockLoop_eq (s : Samples) (t : Nat) (locked : List (Nat × Nat)) (conf : List Nat) :
    lockLoop s t locked conf = condSet (txRun s) id t locked conf := rfl

theorem parentLoop_eq (run : List Nat) (m : Nat) (r : List (Nat × Option Nat)) (ps : List Nat) :
    parentLoop run m r ps = condSet (fun p => run.elem p) some m r ps := rfl

theorem lookup_condSet_sound {α β} (p : β → Bool) (g : β → α) (t : Nat) (l : List β) (d0 : List (Nat × α))
    (k : Nat) (v : α) (h : (condSet p g t d0 l).lookup k = some v) :
    (k = t ∧ ∃ x ∈ l, p x = true ∧ g x = v) ∨ d0.lookup k = some v := by
  induction l generalizing d0 with
  | nil => right; simpa [condSet] using h
  | cons x l ih =>
    simp only [condSet, List.foldl_cons] at h
    have := ih _ h
    rcases this with ⟨hk, y, hy, hp, hg⟩ | h2
    · left; exact ⟨hk, y, List.mem_cons_of_mem _ hy, hp, hg⟩
    · by_cases hp : p x = true
      · simp only [hp, ↓reduceIte, lookup_dset] at h2
        by_cases hk : k = t
        · simp only [hk, ↓reduceIte, Option.some.injEq] at h2
          left; exact ⟨hk, x, List.mem_cons_self, hp, h2⟩
        · simp only [hk, ↓reduceIte] at h2; right; exact h2
      · simp only [hp, Bool.false_eq_true, ↓reduceIte] at h2; right; exact h2

theorem mem_keys_condSet {α β} (p : β → Bool) (g : β → α) (t : Nat) (l : List β) (d0 : List (Nat × α))
    (k : Nat) : k ∈ keys (condSet p g t d0 l) ↔ k ∈ keys d0 ∨ (k = t ∧ ∃ x ∈ l, p x = true) := by
  induction l generalizing d0 with
  | nil => simp [condSet]
  | cons x l ih =>
    simp only [condSet, List.foldl_cons]
    have := ih (if p x = true then dset d0 t (g x) else d0)
    simp only [condSet] at this
    rw [this]
    by_cases hp : p x = true
    · simp only [hp, ↓reduceIte, mem_keys_dset, List.mem_cons, exists_eq_or_imp, true_or, and_true]
      constructor
      · rintro ((h | h) | h)
        · right; exact h
        · left; exact h
        · right; exact h.1
      · rintro (h | h)
        · left; right; exact h
        · left; left; exact h
    · simp only [hp, Bool.false_eq_true, ↓reduceIte, List.mem_cons, exists_eq_or_imp, false_or]

theorem nodup_keys_condSet {α β} (p : β → Bool) (g : β → α) (t : Nat) (l : List β) (d0 : List (Nat × α))
    (h : (keys d0).Nodup) : (keys (condSet p g t d0 l)).Nodup := by
  induction l generalizing d0 with
  | nil => simpa [condSet]
  | cons x l ih =>
    simp only [condSet, List.foldl_cons]
    apply ih
    by_cases hp : p x = true
    · simp only [hp, ↓reduceIte]; exact nodup_keys_dset _ _ _ h
    · simp only [hp, Bool.false_eq_true, ↓reduceIte]; exact h


/-! ### the loop over transactions (profiler.py:229-235) -/

/-- the condition under which `make` gives transaction sample `t` an entry in `locked` -/
def lockedCond (s : Samples) (d : Data) (t : TxSample) : Bool :=
  !t.run && (t.ready && t.runnable) && (confOf d t.id).any (txRun s)

theorem txStep_running (s : Samples) (d : Data) (c : CycleProfile) (t : TxSample) :
    (txStep s d c t).running = if t.run then dset c.running t.id none else c.running := by
  unfold txStep
  by_cases h : t.run = true
  · simp [h]
  · by_cases h2 : (t.ready && t.runnable) = true
    · simp [h, h2]
    · simp [h, h2]

theorem txStep_locked (s : Samples) (d : Data) (c : CycleProfile) (t : TxSample) :
    (txStep s d c t).locked =
      if !t.run && (t.ready && t.runnable) then condSet (txRun s) id t.id c.locked (confOf d t.id) else c.locked := by
  unfold txStep
  by_cases h : t.run = true
  · simp [h]
  · by_cases h2 : (t.ready && t.runnable) = true
    · simp [h, h2, lockLoop_eq]
    · simp [h, h2]

theorem mem_keys_txFold_running (s : Samples) (d : Data) (l : List TxSample) (c : CycleProfile) (k : Nat) :
    k ∈ keys (l.foldl (txStep s d) c).running ↔
      k ∈ keys c.running ∨ ∃ t ∈ l, t.id = k ∧ t.run = true := by
  induction l generalizing c with
  | nil => simp
  | cons t l ih =>
    simp only [List.foldl_cons, ih, txStep_running, List.mem_cons, exists_eq_or_imp]
    by_cases h : t.run = true
    · simp only [h, ↓reduceIte, mem_keys_dset, and_true]
      constructor
      · rintro ((h1 | h1) | h1)
        · right; left; exact h1.symm
        · left; exact h1
        · right; right; exact h1
      · rintro (h1 | h1 | h1)
        · left; right; exact h1
        · left; left; exact h1.symm
        · right; exact h1
    · simp [h]

theorem lookup_txFold_running (s : Samples) (d : Data) (l : List TxSample) (c : CycleProfile) (k : Nat)
    (v : Option Nat) (h : (l.foldl (txStep s d) c).running.lookup k = some v) :
    v = none ∨ c.running.lookup k = some v := by
  induction l generalizing c with
  | nil => right; simpa using h
  | cons t l ih =>
    simp only [List.foldl_cons] at h
    rcases ih _ h with h1 | h1
    · left; exact h1
    · rw [txStep_running] at h1
      by_cases hr : t.run = true
      · simp only [hr, ↓reduceIte, lookup_dset] at h1
        by_cases hk : k = t.id
        · simp only [hk, ↓reduceIte, Option.some.injEq] at h1; left; exact h1.symm
        · simp only [hk, ↓reduceIte] at h1; right; exact h1
      · simp only [hr, Bool.false_eq_true, ↓reduceIte] at h1; right; exact h1

theorem nodup_txFold (s : Samples) (d : Data) (l : List TxSample) (c : CycleProfile)
    (h : (keys c.running).Nodup ∧ (keys c.locked).Nodup) :
    (keys (l.foldl (txStep s d) c).running).Nodup ∧ (keys (l.foldl (txStep s d) c).locked).Nodup := by
  induction l generalizing c with
  | nil => simpa using h
  | cons t l ih =>
    simp only [List.foldl_cons]
    apply ih
    rw [txStep_running, txStep_locked]
    constructor
    · split
      · exact nodup_keys_dset _ _ _ h.1
      · exact h.1
    · split
      · exact nodup_keys_condSet _ _ _ _ _ h.2
      · exact h.2

theorem mem_keys_txFold_locked (s : Samples) (d : Data) (l : List TxSample) (c : CycleProfile) (k : Nat) :
    k ∈ keys (l.foldl (txStep s d) c).locked ↔
      k ∈ keys c.locked ∨ ∃ t ∈ l, t.id = k ∧ lockedCond s d t = true := by
  induction l generalizing c with
  | nil => simp
  | cons t l ih =>
    simp only [List.foldl_cons, ih, txStep_locked, List.mem_cons, exists_eq_or_imp]
    by_cases h : (!t.run && (t.ready && t.runnable)) = true
    · simp only [h, ↓reduceIte, mem_keys_condSet, lockedCond, Bool.true_and, List.any_eq_true]
      constructor
      · rintro ((h1 | ⟨h1, h2⟩) | h1)
        · left; exact h1
        · right; left; exact ⟨h1.symm, h2⟩
        · right; right; exact h1
      · rintro (h1 | ⟨h1, h2⟩ | h1)
        · left; left; exact h1
        · left; right; exact ⟨h1.symm, h2⟩
        · right; exact h1
    · have h' : (!t.run && (t.ready && t.runnable)) = false := by simpa using h
      simp [h', lockedCond]

theorem lookup_txFold_locked (s : Samples) (d : Data) (l : List TxSample) (c : CycleProfile) (k v : Nat)
    (h : (l.foldl (txStep s d) c).locked.lookup k = some v) :
    c.locked.lookup k = some v ∨
      ∃ t ∈ l, t.id = k ∧ t.run = false ∧ t.ready = true ∧ t.runnable = true ∧
        v ∈ confOf d k ∧ txRun s v = true := by
  induction l generalizing c with
  | nil => left; simpa using h
  | cons t l ih =>
    simp only [List.foldl_cons] at h
    rcases ih _ h with h1 | ⟨t', ht', h1⟩
    · rw [txStep_locked] at h1
      by_cases hc : (!t.run && (t.ready && t.runnable)) = true
      · simp only [hc, ↓reduceIte] at h1
        rcases lookup_condSet_sound _ _ _ _ _ _ _ h1 with ⟨hk, x, hx, hp, hg⟩ | h2
        · right
          refine ⟨t, List.mem_cons_self, hk.symm, ?_⟩
          simp only [Bool.and_eq_true, Bool.not_eq_eq_eq_not, Bool.not_true] at hc
          simp only [id] at hg
          subst hg; subst hk
          exact ⟨hc.1, hc.2.1, hc.2.2, hx, hp⟩
        · left; exact h2
      · simp only [hc, Bool.false_eq_true, ↓reduceIte] at h1; left; exact h1
    · right; exact ⟨t', List.mem_cons_of_mem _ ht', h1⟩


/-! ### the final loop over methods (profiler.py:248-259) -/

theorem mStep_running (d : Data) (run lm : List Nat) (c : CycleProfile) (m : MSample) :
    (mStep d run lm c m).running =
      if run.elem m.id then condSet (fun p => run.elem p) some m.id c.running (parentsOf d m.id) else c.running := by
  unfold mStep
  cases hr : List.elem m.id run
  · simp only [Bool.false_eq_true, ↓reduceIte]
    cases hl : List.elem m.id lm
    · simp only [Bool.false_eq_true, ↓reduceIte]
    · simp only [↓reduceIte]
      cases lockedCaller run lm (parentsOf d m.id) <;> rfl
  · simp only [↓reduceIte, parentLoop_eq]

theorem mStep_locked (d : Data) (run lm : List Nat) (c : CycleProfile) (m : MSample) :
    (mStep d run lm c m).locked =
      if run.elem m.id then c.locked
      else if lm.elem m.id then
        match lockedCaller run lm (parentsOf d m.id) with
        | some p => dset c.locked m.id p
        | none => c.locked
      else c.locked := by
  unfold mStep
  cases hr : List.elem m.id run
  · simp only [Bool.false_eq_true, ↓reduceIte]
    cases hl : List.elem m.id lm
    · simp only [Bool.false_eq_true, ↓reduceIte]
    · simp only [↓reduceIte]
      cases lockedCaller run lm (parentsOf d m.id) <;> rfl
  · simp only [↓reduceIte]

theorem mem_keys_mFold_running (d : Data) (run lm : List Nat) (l : List MSample) (c : CycleProfile) (k : Nat) :
    k ∈ keys (l.foldl (mStep d run lm) c).running ↔
      k ∈ keys c.running ∨
        ∃ m ∈ l, m.id = k ∧ run.elem k = true ∧ ∃ p ∈ parentsOf d k, run.elem p = true := by
  induction l generalizing c with
  | nil => simp
  | cons m l ih =>
    simp only [List.foldl_cons, ih, mStep_running, List.mem_cons, exists_eq_or_imp]
    by_cases h : run.elem m.id = true
    · simp only [h, ↓reduceIte, mem_keys_condSet]
      constructor
      · rintro ((h1 | ⟨h1, h2⟩) | h1)
        · left; exact h1
        · right; left; subst h1; exact ⟨rfl, h, h2⟩
        · right; right; exact h1
      · rintro (h1 | ⟨h1, _, h2⟩ | h1)
        · left; left; exact h1
        · left; right; subst h1; exact ⟨rfl, h2⟩
        · right; exact h1
    · simp only [h, Bool.false_eq_true, ↓reduceIte]
      constructor
      · rintro (h1 | h1)
        · left; exact h1
        · right; right; exact h1
      · rintro (h1 | ⟨h1, h2, _⟩ | h1)
        · left; exact h1
        · subst h1; exact absurd h2 h
        · right; exact h1

theorem lookup_mFold_running (d : Data) (run lm : List Nat) (l : List MSample) (c : CycleProfile) (k : Nat)
    (v : Option Nat) (h : (l.foldl (mStep d run lm) c).running.lookup k = some v) :
    c.running.lookup k = some v ∨
      ∃ m ∈ l, m.id = k ∧ run.elem k = true ∧ ∃ p ∈ parentsOf d k, run.elem p = true ∧ v = some p := by
  induction l generalizing c with
  | nil => left; simpa using h
  | cons m l ih =>
    simp only [List.foldl_cons] at h
    rcases ih _ h with h1 | ⟨m', hm', h1⟩
    · rw [mStep_running] at h1
      by_cases hr : run.elem m.id = true
      · simp only [hr, ↓reduceIte] at h1
        rcases lookup_condSet_sound _ _ _ _ _ _ _ h1 with ⟨hk, x, hx, hp, hg⟩ | h2
        · right
          subst hk
          exact ⟨m, List.mem_cons_self, rfl, hr, x, hx, hp, hg.symm⟩
        · left; exact h2
      · simp only [hr, Bool.false_eq_true, ↓reduceIte] at h1; left; exact h1
    · right; exact ⟨m', List.mem_cons_of_mem _ hm', h1⟩

theorem lookup_mFold_locked (d : Data) (run lm : List Nat) (l : List MSample) (c : CycleProfile) (k v : Nat)
    (h : (l.foldl (mStep d run lm) c).locked.lookup k = some v) :
    c.locked.lookup k = some v ∨
      ∃ m ∈ l, m.id = k ∧ run.elem k = false ∧ lm.elem k = true ∧
        lockedCaller run lm (parentsOf d k) = some v := by
  induction l generalizing c with
  | nil => left; simpa using h
  | cons m l ih =>
    simp only [List.foldl_cons] at h
    rcases ih _ h with h1 | ⟨m', hm', h1⟩
    · rw [mStep_locked] at h1
      by_cases hr : run.elem m.id = true
      · simp only [hr, ↓reduceIte] at h1; left; exact h1
      · have hr' : run.elem m.id = false := by simpa using hr
        simp only [hr, Bool.false_eq_true, ↓reduceIte] at h1
        by_cases hl : lm.elem m.id = true
        · simp only [hl, ↓reduceIte] at h1
          cases hc : lockedCaller run lm (parentsOf d m.id) with
          | none => simp only [hc] at h1; left; exact h1
          | some p =>
            simp only [hc, lookup_dset] at h1
            by_cases hk : k = m.id
            · simp only [hk, ↓reduceIte, Option.some.injEq] at h1
              right; subst hk; subst h1
              exact ⟨m, List.mem_cons_self, rfl, hr', hl, hc⟩
            · simp only [hk, ↓reduceIte] at h1; left; exact h1
        · simp only [hl, Bool.false_eq_true, ↓reduceIte] at h1; left; exact h1
    · right; exact ⟨m', List.mem_cons_of_mem _ hm', h1⟩

theorem nodup_mFold (d : Data) (run lm : List Nat) (l : List MSample) (c : CycleProfile)
    (h : (keys c.running).Nodup ∧ (keys c.locked).Nodup) :
    (keys (l.foldl (mStep d run lm) c).running).Nodup ∧ (keys (l.foldl (mStep d run lm) c).locked).Nodup := by
  induction l generalizing c with
  | nil => simpa using h
  | cons m l ih =>
    simp only [List.foldl_cons]
    apply ih
    rw [mStep_running, mStep_locked]
    constructor
    · split
      · exact nodup_keys_condSet _ _ _ _ _ h.1
      · exact h.1
    · split
      · exact h.2
      · split
        · split
          · exact nodup_keys_dset _ _ _ h.2
          · exact h.2
        · exact h.2

/-- keys of `locked` only grow in the method loop -/
theorem mem_keys_mFold_locked_mono (d : Data) (run lm : List Nat) (l : List MSample) (c : CycleProfile) (k : Nat)
    (h : k ∈ keys c.locked) : k ∈ keys (l.foldl (mStep d run lm) c).locked := by
  induction l generalizing c with
  | nil => simpa using h
  | cons m l ih =>
    simp only [List.foldl_cons]
    apply ih
    rw [mStep_locked]
    split
    · exact h
    · split
      · split
        · rw [mem_keys_dset]; right; exact h
        · exact h
      · exact h


/-! ### well-formed samples; the sets `running` and `locked_methods` -/

def Samples.ids (s : Samples) : List Nat := s.txs.map (·.id) ++ s.ms.map (·.id)

/-- ids are dict keys handed out by one `IdGenerator`: pairwise distinct -/
def Samples.wf (s : Samples) : Prop := s.ids.Nodup

/-- `i` is the id of a sampled transaction or method whose `run` bit is set -/
def isRunning (s : Samples) (i : Nat) : Prop :=
  (∃ t ∈ s.txs, t.id = i ∧ t.run = true) ∨ (∃ m ∈ s.ms, m.id = i ∧ m.run = true)

theorem inj_of_nodup_map {α} (f : α → Nat) (l : List α) (h : (l.map f).Nodup) :
    ∀ x ∈ l, ∀ y ∈ l, f x = f y → x = y := by
  induction l with
  | nil => intro x hx; cases hx
  | cons a l ih =>
    simp only [List.map_cons, List.nodup_cons, List.mem_map, not_exists, not_and] at h
    intro x hx y hy hxy
    simp only [List.mem_cons] at hx hy
    rcases hx with rfl | hx <;> rcases hy with rfl | hy
    · rfl
    · exact absurd hxy.symm (h.1 y hy)
    · exact absurd hxy (h.1 x hx)
    · exact ih h.2 x hx y hy hxy

theorem wf_tx_inj (s : Samples) (h : s.wf) : ∀ x ∈ s.txs, ∀ y ∈ s.txs, x.id = y.id → x = y := by
  unfold Samples.wf Samples.ids at h
  exact inj_of_nodup_map _ _ (List.nodup_append.1 h).1

theorem wf_m_inj (s : Samples) (h : s.wf) : ∀ x ∈ s.ms, ∀ y ∈ s.ms, x.id = y.id → x = y := by
  unfold Samples.wf Samples.ids at h
  exact inj_of_nodup_map _ _ (List.nodup_append.1 h).2.1

theorem wf_tx_m_ne (s : Samples) (h : s.wf) (t : TxSample) (ht : t ∈ s.txs) (m : MSample) (hm : m ∈ s.ms) :
    t.id ≠ m.id := by
  unfold Samples.wf Samples.ids at h
  exact (List.nodup_append.1 h).2.2 _ (List.mem_map.2 ⟨t, ht, rfl⟩) _ (List.mem_map.2 ⟨m, hm, rfl⟩)

theorem mem_runningSet (s : Samples) (d : Data) (i : Nat) : i ∈ runningSet s d ↔ isRunning s i := by
  unfold runningSet isRunning txLoop
  rw [List.mem_append, mem_keys_txFold_running]
  simp only [keys, List.map_nil, List.not_mem_nil, false_or, List.mem_map, List.mem_filter]
  constructor
  · rintro (h | ⟨a, ⟨h1, h2⟩, h3⟩)
    · left; exact h
    · right; exact ⟨a, h1, h3, h2⟩
  · rintro (h | ⟨a, h1, h3, h2⟩)
    · left; exact h
    · right; exact ⟨a, ⟨h1, h2⟩, h3⟩

theorem elem_runningSet (s : Samples) (d : Data) (i : Nat) :
    (runningSet s d).elem i = true ↔ isRunning s i := by
  rw [← mem_runningSet s d]; simp

theorem isRunning_tx (s : Samples) (h : s.wf) (t : TxSample) (ht : t ∈ s.txs) :
    isRunning s t.id ↔ t.run = true := by
  constructor
  · rintro (⟨t', ht', hid, hr⟩ | ⟨m, hm, hid, _⟩)
    · rw [← wf_tx_inj s h _ ht' _ ht hid]; exact hr
    · exact absurd hid.symm (wf_tx_m_ne s h t ht m hm)
  · intro hr; left; exact ⟨t, ht, rfl, hr⟩

theorem isRunning_m (s : Samples) (h : s.wf) (m : MSample) (hm : m ∈ s.ms) :
    isRunning s m.id ↔ m.run = true := by
  constructor
  · rintro (⟨t, ht, hid, _⟩ | ⟨m', hm', hid, hr⟩)
    · exact absurd hid (wf_tx_m_ne s h t ht m hm)
    · rw [← wf_m_inj s h _ hm' _ hm hid]; exact hr
  · intro hr; right; exact ⟨m, hm, rfl, hr⟩

theorem txRun_true (s : Samples) (t2 : Nat) (h : txRun s t2 = true) : ∃ x ∈ s.txs, x.id = t2 ∧ x.run = true := by
  unfold txRun at h
  split at h
  · rename_i x hx
    have h1 := List.mem_of_find?_eq_some hx
    have h2 := List.find?_some hx
    exact ⟨x, h1, by simpa using h2, h⟩
  · cases h

theorem txRun_of_wf (s : Samples) (h : s.wf) (t : TxSample) (ht : t ∈ s.txs) : txRun s t.id = t.run := by
  unfold txRun
  split
  · rename_i x hx
    have h1 := List.mem_of_find?_eq_some hx
    have h2 := List.find?_some hx
    rw [wf_tx_inj s h x h1 t ht (by simpa using h2)]
  · rename_i hx
    rw [List.find?_eq_none] at hx
    have := hx t ht
    simp at this

/-! ### `CycleProfile.make` as a whole -/

theorem make_nodup (s : Samples) (d : Data) :
    (keys (make s d).running).Nodup ∧ (keys (make s d).locked).Nodup := by
  unfold make txLoop
  apply nodup_mFold
  apply nodup_txFold
  simp [keys]

/-- every entry of `running` is justified by the samples -/
theorem make_running_sound (s : Samples) (d : Data) (k : Nat) (v : Option Nat)
    (h : (make s d).running.lookup k = some v) :
    (v = none ∧ ∃ t ∈ s.txs, t.id = k ∧ t.run = true) ∨
    (∃ p, v = some p ∧ (∃ m ∈ s.ms, m.id = k) ∧ isRunning s k ∧ p ∈ parentsOf d k ∧ isRunning s p) := by
  unfold make at h
  rcases lookup_mFold_running _ _ _ _ _ _ _ h with h1 | ⟨m, hm, hid, hr, p, hp, hpr, hv⟩
  · left
    have hk : k ∈ keys (txLoop s d).running := (mem_keys_iff_lookup _ _).2 ⟨v, h1⟩
    unfold txLoop at h1 hk
    rw [mem_keys_txFold_running] at hk
    rcases lookup_txFold_running _ _ _ _ _ _ h1 with h2 | h2
    · refine ⟨h2, ?_⟩
      rcases hk with hk | hk
      · simp [keys] at hk
      · exact hk
    · simp at h2
  · right
    exact ⟨p, hv, ⟨m, hm, hid⟩, (elem_runningSet s d k).1 hr, hp, (elem_runningSet s d p).1 hpr⟩

theorem make_running_tx (s : Samples) (d : Data) (h : s.wf) (t : TxSample) (ht : t ∈ s.txs) :
    (make s d).running.lookup t.id = if t.run then some none else none := by
  cases hl : (make s d).running.lookup t.id with
  | some v =>
    rcases make_running_sound s d _ _ hl with ⟨hv, t', ht', hid, hr⟩ | ⟨p, _, ⟨m, hm, hid⟩, _⟩
    · rw [wf_tx_inj s h _ ht' _ ht hid] at hr
      simp [hr, hv]
    · exact absurd hid.symm (wf_tx_m_ne s h t ht m hm)
  | none =>
    by_cases hr : t.run = true
    · exfalso
      have : t.id ∈ keys (make s d).running := by
        unfold make
        rw [mem_keys_mFold_running]; left
        unfold txLoop
        rw [mem_keys_txFold_running]; right
        exact ⟨t, ht, rfl, hr⟩
      rw [mem_keys_iff_lookup] at this
      obtain ⟨v, hv⟩ := this
      rw [hl] at hv; cases hv
    · simp [hr]

theorem make_running_m (s : Samples) (d : Data) (h : s.wf) (m : MSample) (hm : m ∈ s.ms)
    (hpar : m.run = true → ∃ p ∈ parentsOf d m.id, isRunning s p) :
    (m.run = true → ∃ p, (make s d).running.lookup m.id = some (some p) ∧
        p ∈ parentsOf d m.id ∧ isRunning s p) ∧
    (m.run = false → (make s d).running.lookup m.id = none) := by
  constructor
  · intro hr
    obtain ⟨p0, hp0, hp0r⟩ := hpar hr
    have : m.id ∈ keys (make s d).running := by
      unfold make
      rw [mem_keys_mFold_running]; right
      refine ⟨m, hm, rfl, ?_, p0, hp0, ?_⟩
      · exact (elem_runningSet s d _).2 ((isRunning_m s h m hm).2 hr)
      · exact (elem_runningSet s d _).2 hp0r
    rw [mem_keys_iff_lookup] at this
    obtain ⟨v, hv⟩ := this
    rcases make_running_sound s d _ _ hv with ⟨_, t, ht, hid, _⟩ | ⟨p, hvp, _, _, hp, hpr⟩
    · exact absurd hid (wf_tx_m_ne s h t ht m hm)
    · exact ⟨p, by rw [hv, hvp], hp, hpr⟩
  · intro hr
    cases hl : (make s d).running.lookup m.id with
    | none => rfl
    | some v =>
      exfalso
      rcases make_running_sound s d _ _ hl with ⟨_, t, ht, hid, _⟩ | ⟨p, _, _, hrun, _⟩
      · exact absurd hid (wf_tx_m_ne s h t ht m hm)
      · have := (isRunning_m s h m hm).1 hrun
        rw [hr] at this; cases this

/-- every entry of `locked` is justified by the samples -/
theorem make_locked_sound (s : Samples) (d : Data) (k v : Nat)
    (h : (make s d).locked.lookup k = some v) :
    (∃ t ∈ s.txs, t.id = k ∧ t.run = false ∧ t.ready = true ∧ t.runnable = true ∧
        v ∈ confOf d k ∧ txRun s v = true) ∨
    (∃ m ∈ s.ms, m.id = k ∧ ¬ isRunning s k ∧ v ∈ parentsOf d k) := by
  unfold make at h
  rcases lookup_mFold_locked _ _ _ _ _ _ _ h with h1 | ⟨m, hm, hid, hr, _, hc⟩
  · left
    unfold txLoop at h1
    rcases lookup_txFold_locked _ _ _ _ _ _ h1 with h2 | h2
    · simp at h2
    · exact h2
  · right
    refine ⟨m, hm, hid, ?_, ?_⟩
    · intro hrun
      rw [← elem_runningSet s d] at hrun
      rw [hr] at hrun; cases hrun
    · unfold lockedCaller at hc
      exact List.mem_of_find?_eq_some hc

theorem make_locked_tx (s : Samples) (d : Data) (h : s.wf) (t : TxSample) (ht : t ∈ s.txs) (t' : Nat)
    (hl : (make s d).locked.lookup t.id = some t') :
    t.ready = true ∧ t.runnable = true ∧ t.run = false ∧ t' ∈ confOf d t.id ∧
      ∃ x ∈ s.txs, x.id = t' ∧ x.run = true := by
  rcases make_locked_sound s d _ _ hl with ⟨x, hx, hid, h1, h2, h3, h4, h5⟩ | ⟨m, hm, hid, _⟩
  · rw [wf_tx_inj s h _ hx _ ht hid] at h1 h2 h3
    exact ⟨h2, h3, h1, h4, txRun_true s t' h5⟩
  · exact absurd hid.symm (wf_tx_m_ne s h t ht m hm)

theorem make_locked_tx_iff (s : Samples) (d : Data) (h : s.wf) (t : TxSample) (ht : t ∈ s.txs) :
    t.id ∈ keys (make s d).locked ↔ lockedCond s d t = true := by
  constructor
  · intro hk
    rw [mem_keys_iff_lookup] at hk
    obtain ⟨v, hv⟩ := hk
    rcases make_locked_sound s d _ _ hv with ⟨x, hx, hid, h1, h2, h3, h4, h5⟩ | ⟨m, hm, hid, _⟩
    · rw [wf_tx_inj s h _ hx _ ht hid] at h1 h2 h3
      simp only [lockedCond, h1, h2, h3, Bool.not_false, Bool.and_self, Bool.true_and, List.any_eq_true]
      exact ⟨v, h4, h5⟩
    · exact absurd hid.symm (wf_tx_m_ne s h t ht m hm)
  · intro hc
    unfold make
    apply mem_keys_mFold_locked_mono
    unfold txLoop
    rw [mem_keys_txFold_locked]; right
    exact ⟨t, ht, rfl, hc⟩


/-! ### `analyze_transactions` -/

/-- the condition "ready and runnable, did not run, some conflicting transaction ran" for id `t` -/
def lockedB (s : Samples) (d : Data) (t : Nat) : Bool :=
  match s.txs.find? (·.id == t) with
  | some x => lockedCond s d x
  | none => false

theorem count_of_nodup (l : List Nat) (t : Nat) (h : l.Nodup) : l.count t = if t ∈ l then 1 else 0 := by
  induction l with
  | nil => simp
  | cons a l ih =>
    simp only [List.nodup_cons] at h
    rw [List.count_cons, ih h.2]
    by_cases hat : a = t
    · subst hat; simp [h.1]
    · have : t ≠ a := fun e => hat e.symm
      simp [hat, this]

theorem statOf_bumpRun (st : List Stat) (i t : Nat) (x : Stat) (h : statOf st t = some x) :
    statOf (bumpRun st i) t = some (if t = i then { x with run := x.run + 1 } else x) := by
  induction st with
  | nil => simp [statOf] at h
  | cons a st ih =>
    simp only [statOf, bumpRun, List.map_cons, List.find?_cons] at h ⊢
    by_cases ha : a.id = t
    · have e1 : (a.id == t) = true := by simpa using ha
      simp only [e1, Option.some.injEq] at h
      subst h
      by_cases hi : a.id = i
      · have e2 : (a.id == i) = true := by simpa using hi
        have : t = i := by rw [← ha, hi]
        simp [e2, this]
      · have e2 : (a.id == i) = false := by simpa using hi
        have : ¬ t = i := by rw [← ha]; exact hi
        simp [e2, e1, this]
    · have e1 : (a.id == t) = false := by simpa using ha
      simp only [e1] at h
      have := ih h
      simp only [statOf, bumpRun] at this
      by_cases hi : a.id = i
      · have e2 : (a.id == i) = true := by simpa using hi
        simp only [e2, ↓reduceIte, e1]; exact this
      · have e2 : (a.id == i) = false := by simpa using hi
        simp only [e2, Bool.false_eq_true, ↓reduceIte, e1]; exact this

theorem statOf_bumpLocked (st : List Stat) (i t : Nat) (x : Stat) (h : statOf st t = some x) :
    statOf (bumpLocked st i) t = some (if t = i then { x with locked := x.locked + 1 } else x) := by
  induction st with
  | nil => simp [statOf] at h
  | cons a st ih =>
    simp only [statOf, bumpLocked, List.map_cons, List.find?_cons] at h ⊢
    by_cases ha : a.id = t
    · have e1 : (a.id == t) = true := by simpa using ha
      simp only [e1, Option.some.injEq] at h
      subst h
      by_cases hi : a.id = i
      · have e2 : (a.id == i) = true := by simpa using hi
        have : t = i := by rw [← ha, hi]
        simp [e2, this]
      · have e2 : (a.id == i) = false := by simpa using hi
        have : ¬ t = i := by rw [← ha]; exact hi
        simp [e2, e1, this]
    · have e1 : (a.id == t) = false := by simpa using ha
      simp only [e1] at h
      have := ih h
      simp only [statOf, bumpLocked] at this
      by_cases hi : a.id = i
      · have e2 : (a.id == i) = true := by simpa using hi
        simp only [e2, ↓reduceIte, e1]; exact this
      · have e2 : (a.id == i) = false := by simpa using hi
        simp only [e2, Bool.false_eq_true, ↓reduceIte, e1]; exact this

theorem statOf_foldl_bumpRun (ks : List Nat) (st : List Stat) (t : Nat) (x : Stat) (h : statOf st t = some x) :
    statOf (ks.foldl bumpRun st) t = some { x with run := x.run + ks.count t } := by
  induction ks generalizing st x with
  | nil => simpa using h
  | cons k ks ih =>
    simp only [List.foldl_cons]
    rw [ih _ _ (statOf_bumpRun st k t x h)]
    by_cases hk : t = k
    · subst hk; simp; omega
    · have : ¬ k = t := fun e => hk e.symm
      simp [hk, this]

theorem statOf_foldl_bumpLocked (ks : List Nat) (st : List Stat) (t : Nat) (x : Stat) (h : statOf st t = some x) :
    statOf (ks.foldl bumpLocked st) t = some { x with locked := x.locked + ks.count t } := by
  induction ks generalizing st x with
  | nil => simpa using h
  | cons k ks ih =>
    simp only [List.foldl_cons]
    rw [ih _ _ (statOf_bumpLocked st k t x h)]
    by_cases hk : t = k
    · subst hk; simp; omega
    · have : ¬ k = t := fun e => hk e.symm
      simp [hk, this]

theorem statOf_analyzeCycle (st : List Stat) (c : CycleProfile) (t : Nat) (x : Stat) (h : statOf st t = some x) :
    statOf (analyzeCycle st c) t =
      some { x with run := x.run + (keys c.running).count t, locked := x.locked + (keys c.locked).count t } := by
  unfold analyzeCycle
  rw [statOf_foldl_bumpLocked _ _ _ _ (statOf_foldl_bumpRun _ _ _ _ h)]

theorem statOf_initStats_aux (l : List (Nat × Bool)) (t : Nat) (h : (t, true) ∈ l) :
    ((l.filter (·.2)).map fun e => ({ id := e.1, run := 0, locked := 0 } : Stat)).find? (·.id == t) =
      some { id := t, run := 0, locked := 0 } := by
  induction l with
  | nil => cases h
  | cons e l ih =>
    obtain ⟨a, b⟩ := e
    cases b
    · simp only [List.mem_cons, Prod.mk.injEq, Bool.true_eq_false, and_false, false_or] at h
      simpa [List.filter_cons] using ih h
    · simp only [List.filter_cons, ↓reduceIte, List.map_cons, List.find?_cons]
      by_cases ha : a = t
      · subst ha; simp
      · have e1 : (a == t) = false := by simpa using ha
        simp only [e1]
        simp only [List.mem_cons, Prod.mk.injEq, and_true] at h
        rcases h with h | h
        · exact absurd h.symm ha
        · exact ih h

theorem statOf_initStats (d : Data) (t : Nat) (h : (t, true) ∈ d.info) :
    statOf (initStats d) t = some { id := t, run := 0, locked := 0 } :=
  statOf_initStats_aux d.info t h

theorem count_running_make (s : Samples) (d : Data) (h : s.wf) (x : TxSample) (hx : x ∈ s.txs) :
    (keys (make s d).running).count x.id = if txRun s x.id then 1 else 0 := by
  rw [count_of_nodup _ _ (make_nodup s d).1, txRun_of_wf s h x hx]
  have := make_running_tx s d h x hx
  by_cases hr : x.run = true
  · have hm : x.id ∈ keys (make s d).running := by
      rw [mem_keys_iff_lookup, this]; simp [hr]
    simp [hr, hm]
  · have hm : x.id ∉ keys (make s d).running := by
      rw [mem_keys_iff_lookup, this]; simp [hr]
    simp [hr, hm]

theorem lockedB_of_wf (s : Samples) (d : Data) (h : s.wf) (x : TxSample) (hx : x ∈ s.txs) :
    lockedB s d x.id = lockedCond s d x := by
  unfold lockedB
  split
  · rename_i y hy
    have h1 := List.mem_of_find?_eq_some hy
    have h2 := List.find?_some hy
    rw [wf_tx_inj s h y h1 x hx (by simpa using h2)]
  · rename_i hy
    rw [List.find?_eq_none] at hy
    have := hy x hx
    simp at this

theorem count_locked_make (s : Samples) (d : Data) (h : s.wf) (x : TxSample) (hx : x ∈ s.txs) :
    (keys (make s d).locked).count x.id = if lockedB s d x.id then 1 else 0 := by
  rw [count_of_nodup _ _ (make_nodup s d).2, lockedB_of_wf s d h x hx]
  by_cases hc : lockedCond s d x = true
  · simp [hc, (make_locked_tx_iff s d h x hx).2 hc]
  · have : x.id ∉ keys (make s d).locked := fun hm => hc ((make_locked_tx_iff s d h x hx).1 hm)
    simp [hc, this]

theorem statOf_analyze_fold (d : Data) (hist : List Samples) (t : Nat) (st : List Stat) (x : Stat)
    (hst : statOf st t = some x)
    (hwf : ∀ s ∈ hist, s.wf ∧ ∃ y ∈ s.txs, y.id = t) :
    statOf ((profile d hist).foldl analyzeCycle st) t =
      some { x with run := x.run + hist.countP (fun s => txRun s t),
                    locked := x.locked + hist.countP (fun s => lockedB s d t) } := by
  induction hist generalizing st x with
  | nil => simpa [profile] using hst
  | cons s hist ih =>
    obtain ⟨hs, y, hy, hid⟩ := hwf s List.mem_cons_self
    have hrest : ∀ s' ∈ hist, s'.wf ∧ ∃ y ∈ s'.txs, y.id = t :=
      fun s' hs' => hwf s' (List.mem_cons_of_mem _ hs')
    simp only [profile, List.map_cons, List.foldl_cons]
    have h1 := statOf_analyzeCycle st (make s d) t x hst
    have h2 := ih _ _ h1 hrest
    simp only [profile] at h2
    rw [h2]
    subst hid
    rw [count_running_make s d hs y hy, count_locked_make s d hs y hy, List.countP_cons, List.countP_cons]
    simp only [Option.some.injEq, Stat.mk.injEq, true_and]
    constructor <;> omega


/-! ### `next(...)` in `make` never raises on consistent `ProfileData` -/

/-- `transactions_by_method` is consistent with `method_parents`: a transaction uses `m` through one of
    `m`'s parents — it is that parent, or it uses a sampled method which is that parent -/
def tbmClosed (s : Samples) (d : Data) : Prop :=
  ∀ m ∈ s.ms, ∀ t ∈ tbmOf d m.id, ∃ p ∈ parentsOf d m.id,
    p = t ∨ ((∃ m' ∈ s.ms, m'.id = p) ∧ t ∈ tbmOf d p)

theorem mem_lockedMethods (s : Samples) (d : Data) (i : Nat) :
    i ∈ lockedMethods s d ↔
      ∃ m ∈ s.ms, m.id = i ∧ (runningSet s d).elem i = false ∧ ∃ t ∈ tbmOf d i, (runningSet s d).elem t = true := by
  unfold lockedMethods
  simp only [List.mem_map, List.mem_filter, Bool.and_eq_true, Bool.not_eq_eq_eq_not, Bool.not_true,
    List.any_eq_true]
  constructor
  · rintro ⟨m, ⟨hm, h1, h2⟩, rfl⟩
    exact ⟨m, hm, rfl, h1, h2⟩
  · rintro ⟨m, hm, rfl, h1, h2⟩
    exact ⟨m, ⟨hm, h1, h2⟩, rfl⟩

theorem makeRaises_false (s : Samples) (d : Data) (h : tbmClosed s d) : makeRaises s d = false := by
  unfold makeRaises
  rw [List.any_eq_false]
  intro m hm hbad
  simp only [Bool.and_eq_true, Bool.not_eq_eq_eq_not, Bool.not_true, Option.isNone_iff_eq_none] at hbad
  obtain ⟨⟨_, hl⟩, hnone⟩ := hbad
  have hl' : m.id ∈ lockedMethods s d := by simpa using hl
  obtain ⟨m', hm', hid, _, t, ht, htr⟩ := (mem_lockedMethods s d m.id).1 hl'
  obtain ⟨p, hp, hcase⟩ := h m hm t ht
  unfold lockedCaller at hnone
  rw [List.find?_eq_none] at hnone
  have hp' := hnone p hp
  simp only [Bool.or_eq_true, not_or, Bool.not_eq_true] at hp'
  rcases hcase with rfl | ⟨⟨mp, hmp, hmpid⟩, htp⟩
  · rw [htr] at hp'; exact absurd hp'.1 (by simp)
  · have : p ∈ lockedMethods s d := by
      rw [mem_lockedMethods]
      exact ⟨mp, hmp, hmpid, hp'.1, t, htp, htr⟩
    have : (lockedMethods s d).elem p = true := by simpa using this
    rw [this] at hp'; exact absurd hp'.2 (by simp)

end TxV.Profiler
