import TxV.Model.Testbench
/-! Helper lemmas for C43 (testbench helpers). -/
namespace TxV.Testbench

/-! ### the caller -/

/-- the method ran for this adapter in a cycle exactly when the process got a value back in it -/
def CallerOut.success (o : CallerOut) : Bool :=
  match o.evt with
  | some (.called _) => true
  | some (.tried (some _)) => true
  | _ => false

theorem step_done_iff_success (c : Caller) (e : Env) : (c.step e).2.done = (c.step e).2.success := by
  obtain ⟨prog⟩ := c
  cases prog with
  | nil => simp [Caller.step, Caller.drive, Caller.edge, CallerOut.success]
  | cons cmd rest =>
    cases cmd with
    | call d =>
      cases hg : e.grant <;> simp [Caller.step, Caller.drive, Caller.edge, CallerOut.success, hg]
    | try_ d =>
      cases hg : e.grant <;> simp [Caller.step, Caller.drive, Caller.edge, CallerOut.success, hg]
    | tick => simp [Caller.step, Caller.drive, Caller.edge, CallerOut.success]

theorem run_call_waiting (d : Nat) (rest : List Cmd) (pre : List Env) (tail : List Env)
    (hpre : ∀ e ∈ pre, e.grant = false) :
    Caller.run ⟨.call d :: rest⟩ (pre ++ tail) =
      pre.map (fun _ => ⟨true, false, none⟩) ++ Caller.run ⟨.call d :: rest⟩ tail := by
  induction pre with
  | nil => simp
  | cons e pre ih =>
    have he : e.grant = false := hpre e List.mem_cons_self
    have ih' := ih (fun x hx => hpre x (List.mem_cons_of_mem _ hx))
    simp only [List.cons_append, Caller.run, List.map_cons]
    have h1 : (Caller.step ⟨.call d :: rest⟩ e) = (⟨.call d :: rest⟩, ⟨true, false, none⟩) := by
      simp [Caller.step, Caller.drive, Caller.edge, he]
    rw [h1]
    simp only [List.cons.injEq, true_and]
    exact ih'

theorem run_call (d : Nat) (rest : List Cmd) (pre : List Env) (o : Nat) (post : List Env)
    (hpre : ∀ e ∈ pre, e.grant = false) :
    Caller.run ⟨.call d :: rest⟩ (pre ++ ⟨true, o⟩ :: post) =
      pre.map (fun _ => ⟨true, false, none⟩) ++
        ⟨true, true, some (.called o)⟩ :: Caller.run ⟨rest⟩ post := by
  rw [run_call_waiting d rest pre _ hpre]
  simp [Caller.run, Caller.step, Caller.drive, Caller.edge]

theorem run_call_never (d : Nat) (rest : List Cmd) (env : List Env) (h : ∀ e ∈ env, e.grant = false) :
    Caller.run ⟨.call d :: rest⟩ env = env.map (fun _ => ⟨true, false, none⟩) := by
  have := run_call_waiting d rest env [] h
  simpa [Caller.run] using this

theorem run_try (d : Nat) (rest : List Cmd) (e : Env) (post : List Env) :
    Caller.run ⟨.try_ d :: rest⟩ (e :: post) =
      ⟨true, e.grant, some (.tried (if e.grant then some e.out else none))⟩ :: Caller.run ⟨rest⟩ post := by
  simp [Caller.run, Caller.step, Caller.drive, Caller.edge]

theorem run_tick (rest : List Cmd) (e : Env) (post : List Env) :
    Caller.run ⟨.tick :: rest⟩ (e :: post) = ⟨false, false, none⟩ :: Caller.run ⟨rest⟩ post := by
  simp [Caller.run, Caller.step, Caller.drive, Caller.edge]

theorem run_finished (env : List Env) : Caller.run ⟨[]⟩ env = env.map (fun _ => ⟨false, false, none⟩) := by
  induction env with
  | nil => simp [Caller.run]
  | cons e env ih => simp [Caller.run, Caller.step, Caller.drive, Caller.edge]; exact ih

/-! ### the mock -/

/-- the value of the wires after a list of changes -/
def lastWire (w0 : Bool × Nat) (l : List (Bool × Nat)) : Bool × Nat := l.foldl (fun _ x => x) w0

theorem pair_eta (p : Bool × Nat) : (p.1, p.2) = p := rfl

theorem lastWire_append (w0 : Bool × Nat) (a b : List (Bool × Nat)) :
    lastWire w0 (a ++ b) = lastWire (lastWire w0 a) b := by
  simp [lastWire, List.foldl_append]

theorem comb_of_not_done (f : MockFn) (m : Mock) (arg : Nat) : m.comb f false arg = m := by
  simp [Mock.comb]

theorem comb_of_frozen (f : MockFn) (m : Mock) (done : Bool) (arg : Nat) (h : m.freeze = true) :
    m.comb f done arg = m := by
  simp [Mock.comb, h]

/-- changes while the mock is disabled do not touch it -/
theorem fold_set_disabled (f : MockFn) (l : List (Bool × Nat)) (s : MState) (h : s.mock.en = false) :
    l.foldl (MState.set f) s = { mock := s.mock, req := (lastWire (s.req, s.arg) l).1, arg := (lastWire (s.req, s.arg) l).2 } := by
  induction l generalizing s with
  | nil => simp [lastWire]
  | cons w l ih =>
    simp only [List.foldl_cons]
    have h1 : (MState.set f s w) = { mock := s.mock, req := w.1, arg := w.2 } := by
      simp [MState.set, h, comb_of_not_done]
    rw [h1, ih { mock := s.mock, req := w.1, arg := w.2 } h]
    simp [lastWire]

/-- changes while the mock is frozen do not touch it -/
theorem fold_set_frozen (f : MockFn) (l : List (Bool × Nat)) (s : MState) (h : s.mock.freeze = true) :
    l.foldl (MState.set f) s = { mock := s.mock, req := (lastWire (s.req, s.arg) l).1, arg := (lastWire (s.req, s.arg) l).2 } := by
  induction l generalizing s with
  | nil => simp [lastWire]
  | cons w l ih =>
    simp only [List.foldl_cons]
    have h1 : (MState.set f s w) = { mock := s.mock, req := w.1, arg := w.2 } := by
      simp [MState.set, comb_of_frozen f s.mock _ _ h]
    rw [h1, ih { mock := s.mock, req := w.1, arg := w.2 } h]
    simp [lastWire]

/-- between the re-enable and the edge: whenever the method is being called, `_effects` and the returned
    value are those of the current argument -/
def Live (f : MockFn) (log : List Nat) (b : Bool) (s : MState) : Prop :=
  s.mock.freeze = false ∧ s.mock.en = b ∧ s.mock.log = log ∧
    ((s.req && b) = true → s.mock.effects = f.effs log s.arg ∧ s.mock.dataIn = f.ret log s.arg)

theorem live_enable (f : MockFn) (s : MState) (b : Bool) : Live f s.mock.log b (s.enable f b) := by
  unfold Live MState.enable Mock.reenable Mock.comb
  by_cases h : (s.req && b) = true
  · simp [h]
  · simp [h]

theorem enable_wires (f : MockFn) (s : MState) (b : Bool) :
    (s.enable f b).req = s.req ∧ (s.enable f b).arg = s.arg := by simp [MState.enable]

theorem live_set (f : MockFn) (log : List Nat) (b : Bool) (s : MState) (w : Bool × Nat) (h : Live f log b s) :
    Live f log b (s.set f w) := by
  obtain ⟨h1, h2, h3, _⟩ := h
  unfold Live MState.set Mock.comb
  cases hd : (w.1 && s.mock.en)
  · simp only [Bool.false_and, Bool.false_eq_true, ↓reduceIte]
    refine ⟨h1, h2, h3, ?_⟩
    intro hb; rw [h2] at hd; rw [hd] at hb; cases hb
  · simp only [h1, Bool.not_false, Bool.and_self, ↓reduceIte, h3]
    exact ⟨trivial, h2, trivial, fun _ => ⟨trivial, trivial⟩⟩

theorem live_fold (f : MockFn) (log : List Nat) (b : Bool) (l : List (Bool × Nat)) (s : MState) (h : Live f log b s) :
    Live f log b (l.foldl (MState.set f) s) ∧
      (l.foldl (MState.set f) s).req = (lastWire (s.req, s.arg) l).1 ∧
      (l.foldl (MState.set f) s).arg = (lastWire (s.req, s.arg) l).2 := by
  induction l generalizing s with
  | nil => simp [lastWire, h]
  | cons w l ih =>
    simp only [List.foldl_cons]
    have := ih _ (live_set f log b s w h)
    simpa [lastWire, MState.set] using this

/-- the specification of one cycle of a mock: which call executed, which effects were applied, what the
    caller received -/
structure MSpec where
  done : Bool
  applied : List Nat
  ret : Option Nat
deriving Repr, DecidableEq

def MOut.view (o : MOut) : MSpec := { done := o.done, applied := o.applied, ret := if o.done then some o.ret else none }

def specCycle (f : MockFn) (log : List Nat) (w0 : Bool × Nat) (c : MCycle) : (List Nat × (Bool × Nat)) × MSpec :=
  let w := lastWire w0 (c.pre ++ c.post)             -- the wires sampled at the edge
  let done := w.1 && c.men                            -- requested and enabled
  let app := if done then f.effs log w.2 else []      -- effects of that call, once; none otherwise
  ((log ++ app, lastWire w c.after),
   { done := done, applied := app, ret := if done then some (f.ret log w.2) else none })

def specRun (F : Nat → MockFn) (log : List Nat) (w0 : Bool × Nat) : List MCycle → List Nat × List MSpec
  | [] => (log, [])
  | c :: cs =>
    let (st, o) := specCycle (F c.x) log w0 c
    let (l, os) := specRun F st.1 st.2 cs
    (l, o :: os)

/-- from the re-enable to the clock edge -/
theorem enable_post (f : MockFn) (t : MState) (b : Bool) (post : List (Bool × Nat)) :
    Live f t.mock.log b (post.foldl (MState.set f) (t.enable f b)) ∧
      (post.foldl (MState.set f) (t.enable f b)).req = (lastWire (t.req, t.arg) post).1 ∧
      (post.foldl (MState.set f) (t.enable f b)).arg = (lastWire (t.req, t.arg) post).2 := by
  have := live_fold f t.mock.log b post (t.enable f b) (live_enable f t b)
  rw [(enable_wires f t b).1, (enable_wires f t b).2] at this
  exact this

theorem cycle_spec (f : MockFn) (s : MState) (c : MCycle) (hs : s.mock.en = false) :
    ((s.cycle f c).1.mock.log, ((s.cycle f c).1.req, (s.cycle f c).1.arg)) = (specCycle f s.mock.log (s.req, s.arg) c).1 ∧
    (s.cycle f c).2.view = (specCycle f s.mock.log (s.req, s.arg) c).2 ∧
    (s.cycle f c).1.mock.en = false := by
  simp only [MState.cycle]
  rw [fold_set_disabled f c.pre s hs]
  obtain ⟨⟨hf, hen, hlog, heff⟩, hreq, harg⟩ := enable_post f
    { mock := s.mock, req := (lastWire (s.req, s.arg) c.pre).1, arg := (lastWire (s.req, s.arg) c.pre).2 } c.men c.post
  simp only [pair_eta, ← lastWire_append] at hreq harg
  generalize (c.post.foldl (MState.set f) (MState.enable f
    { mock := s.mock, req := (lastWire (s.req, s.arg) c.pre).1, arg := (lastWire (s.req, s.arg) c.pre).2 } c.men)) = s3 at *
  rw [fold_set_frozen f c.after { s3 with mock := s3.mock.clk } (by simp [Mock.clk])]
  unfold specCycle MOut.view
  simp only [Mock.clk, Mock.applyEffects, hreq, harg, hen, hlog, pair_eta]
  cases hd : ((lastWire (s.req, s.arg) (c.pre ++ c.post)).1 && c.men)
  · simp
  · have := heff (by rw [hreq]; exact hd)
    rw [harg] at this
    simp [this.1, this.2]

theorem run_spec (F : Nat → MockFn) (cs : List MCycle) (s : MState) (hs : s.mock.en = false) :
    (MState.run F s cs).1.mock.log = (specRun F s.mock.log (s.req, s.arg) cs).1 ∧
    (MState.run F s cs).2.map MOut.view = (specRun F s.mock.log (s.req, s.arg) cs).2 := by
  induction cs generalizing s with
  | nil => simp [MState.run, specRun]
  | cons c cs ih =>
    obtain ⟨h1, h2, h3⟩ := cycle_spec (F c.x) s c hs
    have := ih (s.cycle (F c.x) c).1 h3
    simp only [MState.run, specRun, List.map_cons]
    rw [← h1, ← h2]
    simp only at this ⊢
    exact ⟨this.1, by rw [this.2]⟩


/-! ### caller + design + mock -/

/-- what the testbench process saw of the method in a cycle of the system -/
def SysOut.env (o : SysOut) : Env := { grant := o.done, out := o.out }

theorem step_caller (f : MockFn) (s : Sys) (i : CycIn) :
    (s.step f i).1.caller = (s.caller.step (s.step f i).2.env).1 := rfl

theorem step_evt (f : MockFn) (s : Sys) (i : CycIn) :
    (s.step f i).2.evt = (s.caller.step (s.step f i).2.env).2.evt := rfl

theorem sys_caller (F : Nat → MockFn) (is : List CycIn) (s : Sys) :
    (Caller.run s.caller ((Sys.run F s is).map SysOut.env)).map (·.evt) = (Sys.run F s is).map (·.evt) := by
  induction is generalizing s with
  | nil => simp [Sys.run, Caller.run]
  | cons i is ih =>
    simp only [Sys.run, List.map_cons, Caller.run, List.cons.injEq]
    refine ⟨(step_evt (F i.x) s i).symm, ?_⟩
    rw [← step_caller]
    exact ih _

def lastRdy (r0 : Bool) (ps : List Phase) : Bool := ps.foldl (fun _ p => p.rdy) r0

theorem phaseWires_cmd (w k : Nat) (aen : Bool) (adata : Nat) (rdy : Bool) (ps : List Phase)
    (h : ∀ p ∈ ps, p.raw = none) :
    phaseWires w k aen adata rdy ps =
      (ps.map (fun p => wiresOf w k aen adata p.rdy), (aen, adata, lastRdy rdy ps)) := by
  induction ps generalizing rdy with
  | nil => simp [phaseWires, lastRdy]
  | cons p ps ih =>
    have hp : p.raw = none := h p List.mem_cons_self
    simp only [phaseWires, hp, List.map_cons]
    rw [ih p.rdy (fun q hq => h q (List.mem_cons_of_mem _ hq))]
    simp [lastRdy]

theorem lastWire_map (g : Bool → Bool × Nat) (r : Bool) (ps : List Phase) :
    lastWire (g r) (ps.map fun p => g p.rdy) = g (lastRdy r ps) := by
  induction ps generalizing r with
  | nil => simp [lastWire, lastRdy]
  | cons p ps ih =>
    simp only [List.map_cons, lastWire, List.foldl_cons, lastRdy]
    exact ih p.rdy


/-- `cycle_spec` unfolded, with the parts of the cycle as separate arguments -/
theorem cycle_facts (f : MockFn) (s : MState) (pre post after : List (Bool × Nat)) (men : Bool) (x : Nat)
    (hs : s.mock.en = false) :
    (s.cycle f ⟨pre, men, post, after, x⟩).2.done = ((lastWire (s.req, s.arg) (pre ++ post)).1 && men) ∧
    (s.cycle f ⟨pre, men, post, after, x⟩).2.applied =
      (if ((lastWire (s.req, s.arg) (pre ++ post)).1 && men) then
        f.effs s.mock.log (lastWire (s.req, s.arg) (pre ++ post)).2 else []) ∧
    (((lastWire (s.req, s.arg) (pre ++ post)).1 && men) = true →
      (s.cycle f ⟨pre, men, post, after, x⟩).2.ret = f.ret s.mock.log (lastWire (s.req, s.arg) (pre ++ post)).2) ∧
    (s.cycle f ⟨pre, men, post, after, x⟩).1.mock.log = s.mock.log ++ (s.cycle f ⟨pre, men, post, after, x⟩).2.applied ∧
    (s.cycle f ⟨pre, men, post, after, x⟩).1.mock.en = false := by
  obtain ⟨h1, h2, h3⟩ := cycle_spec f s ⟨pre, men, post, after, x⟩ hs
  simp only [specCycle, MOut.view] at h1 h2
  have hdone := congrArg MSpec.done h2
  have happ := congrArg MSpec.applied h2
  have hret := congrArg MSpec.ret h2
  have hlog := congrArg Prod.fst h1
  simp only at hdone happ hret hlog
  refine ⟨hdone, happ, ?_, ?_, h3⟩
  · intro hg
    rw [hdone, hg] at hret
    simpa using hret
  · rw [hlog, happ]

/-- one cycle of the system while the testbench process is inside `call d` / `call_try d` -/
theorem sys_step_cmd (f : MockFn) (s : Sys) (i : CycIn) (d : Nat)
    (hinv : s.ms.mock.en = false) (hd : s.caller.drive = some d)
    (p0 : Phase) (ps : List Phase) (hph : i.phases = p0 :: ps) (hraw : ∀ p ∈ i.phases, p.raw = none) :
    (s.step f i).2.en = true ∧
    (s.step f i).2.done = (lastRdy p0.rdy ps && i.men) ∧
    (s.step f i).2.applied =
      (if (lastRdy p0.rdy ps && i.men) then f.effs s.ms.mock.log ((d % 2 ^ s.w + s.k) % 2 ^ s.w) else []) ∧
    ((lastRdy p0.rdy ps && i.men) = true →
      (s.step f i).2.out = (f.ret s.ms.mock.log ((d % 2 ^ s.w + s.k) % 2 ^ s.w) + i.val) % 2 ^ s.w) ∧
    (s.step f i).1.ms.mock.log = s.ms.mock.log ++ (s.step f i).2.applied ∧
    (s.step f i).1.ms.mock.en = false := by
  have hw := phaseWires_cmd s.w s.k true (d % 2 ^ s.w) s.rdy i.phases hraw
  have hlast : lastWire (s.ms.req, s.ms.arg)
      (List.take (i.e + 1) (List.map (fun p => wiresOf s.w s.k true (d % 2 ^ s.w) p.rdy) i.phases) ++
       List.drop (i.e + 1) (List.map (fun p => wiresOf s.w s.k true (d % 2 ^ s.w) p.rdy) i.phases)) =
      wiresOf s.w s.k true (d % 2 ^ s.w) (lastRdy p0.rdy ps) := by
    simp only [List.take_append_drop, hph, List.map_cons, lastWire, List.foldl_cons]
    exact lastWire_map (fun r => wiresOf s.w s.k true (d % 2 ^ s.w) r) p0.rdy ps
  obtain ⟨h1, h2, h3, h4, h5⟩ := cycle_facts f s.ms
    (List.take (i.e + 1) (List.map (fun p => wiresOf s.w s.k true (d % 2 ^ s.w) p.rdy) i.phases))
    (List.drop (i.e + 1) (List.map (fun p => wiresOf s.w s.k true (d % 2 ^ s.w) p.rdy) i.phases))
    [wiresOf s.w (s.k + 1) true (d % 2 ^ s.w) (lastRdy s.rdy i.phases),
      wiresOf s.w (s.k + 1) (if (some d).isSome = true then false else true) (d % 2 ^ s.w) (lastRdy s.rdy i.phases)]
    i.men i.x hinv
  have e1 : (wiresOf s.w s.k true (d % 2 ^ s.w) (lastRdy p0.rdy ps)).1 = lastRdy p0.rdy ps := by
    simp [wiresOf]
  have e2 : (wiresOf s.w s.k true (d % 2 ^ s.w) (lastRdy p0.rdy ps)).2 = (d % 2 ^ s.w + s.k) % 2 ^ s.w := by
    simp [wiresOf]
  rw [hlast, e1] at h1 h3
  rw [hlast, e1, e2] at h2
  rw [e2] at h3
  simp only [Sys.step, hd, hw]
  refine ⟨trivial, h1, h2, ?_, h4, h5⟩
  intro hg
  rw [h3 hg]

/-! ### `CallTrigger` with several calls -/

/-- what the adapters show in a cycle in which the trigger with entries `es` is awaited -/
def tout (es : List Entry) (e : TEnv) (evt : Option (List (Option Nat))) : TOut :=
  { en := fun m => (dataOf es e m).isSome, done := doneOf es e, evt := evt }

theorem step_trig (es : List Entry) (mode : Mode) (rest : List TCmd) (e : TEnv) :
    TCaller.step ⟨.trig es mode :: rest⟩ e =
      if fires mode (results es e) then (⟨rest⟩, tout es e (some (results es e)))
      else (⟨.trig es mode :: rest⟩, tout es e none) := by
  simp only [TCaller.step, TCaller.entries, tout]

theorem run_trig (es : List Entry) (mode : Mode) (rest : List TCmd) (pre : List TEnv) (e0 : TEnv)
    (post : List TEnv) (hpre : ∀ e ∈ pre, fires mode (results es e) = false)
    (h0 : fires mode (results es e0) = true) :
    TCaller.run ⟨.trig es mode :: rest⟩ (pre ++ e0 :: post) =
      pre.map (fun e => tout es e none) ++ tout es e0 (some (results es e0)) :: TCaller.run ⟨rest⟩ post := by
  induction pre with
  | nil => simp [TCaller.run, step_trig, h0]
  | cons e pre ih =>
    have he := hpre e List.mem_cons_self
    simp only [List.cons_append, TCaller.run, step_trig, he, Bool.false_eq_true, ↓reduceIte, List.map_cons,
      List.cons.injEq, true_and]
    exact ih (fun x hx => hpre x (List.mem_cons_of_mem _ hx))

theorem run_trig_never (es : List Entry) (mode : Mode) (rest : List TCmd) (env : List TEnv)
    (h : ∀ e ∈ env, fires mode (results es e) = false) :
    TCaller.run ⟨.trig es mode :: rest⟩ env = env.map (fun e => tout es e none) := by
  induction env with
  | nil => simp [TCaller.run]
  | cons e env ih =>
    have he := h e List.mem_cons_self
    simp only [TCaller.run, step_trig, he, Bool.false_eq_true, ↓reduceIte, List.map_cons, List.cons.injEq, true_and]
    exact ih (fun x hx => h x (List.mem_cons_of_mem _ hx))

theorem tout_called (es : List Entry) (e : TEnv) (evt : Option (List (Option Nat))) (m d : Nat)
    (h : callData es m = some d) :
    (tout es e evt).en m = true ∧ (tout es e evt).done m = e.grant m := by
  simp [tout, doneOf, dataOf, h]

theorem tout_not_called (es : List Entry) (e : TEnv) (evt : Option (List (Option Nat))) (m : Nat)
    (h : callData es m = none) :
    (tout es e evt).en m = (e.ext m).isSome ∧ (tout es e evt).done m = ((e.ext m).isSome && e.grant m) := by
  simp [tout, doneOf, dataOf, h]

theorem resOf_call (es : List Entry) (e : TEnv) (m d : Nat) :
    (resOf es e (.call m d) = none ↔ doneOf es e m = false) ∧
    (doneOf es e m = true → resOf es e (.call m d) = some (e.out m d)) := by
  cases h : doneOf es e m <;> simp [resOf, h]

theorem resOf_samp (es : List Entry) (e : TEnv) (m : Nat) :
    (resOf es e (.samp m) = none ↔ doneOf es e m = false) := by
  cases h : doneOf es e m
  · simp [resOf, h]
  · simp only [resOf, h, ↓reduceIte, Bool.true_eq_false, iff_false]
    simp only [doneOf, Bool.and_eq_true] at h
    cases hd : dataOf es e m with
    | none => rw [hd] at h; simp at h
    | some a => simp

end TxV.Testbench
