import TxV.Model.EvLog
/-!
Helper lemmas for C33 (event log).
-/
namespace TxV.EvLog

/-! ### capture -/

theorem mem_captureFrom (c : Nat) (l : List (Site × SiteIn)) (i : Nat) (e : RawEvent) :
    e ∈ captureFrom c i l ↔
      e.cycle = c ∧ ∃ j st si, l[j]? = some (st, si) ∧ e.site = i + j ∧ si.active = true ∧ e.vals = sampled st si := by
  induction l generalizing i with
  | nil => simp [captureFrom]
  | cons p rest ih =>
    obtain ⟨st, si⟩ := p
    have key : (e.cycle = c ∧ ∃ j st' si', ((st, si) :: rest)[j]? = some (st', si') ∧ e.site = i + j ∧
          si'.active = true ∧ e.vals = sampled st' si') ↔
        ((si.active = true ∧ e = ⟨c, i, sampled st si⟩) ∨
          (e.cycle = c ∧ ∃ j st' si', rest[j]? = some (st', si') ∧ e.site = i + 1 + j ∧
            si'.active = true ∧ e.vals = sampled st' si')) := by
      constructor
      · rintro ⟨hc, j, st', si', hj, hs, ha, hv⟩
        cases j with
        | zero =>
          simp at hj
          obtain ⟨rfl, rfl⟩ := hj
          left
          refine ⟨ha, ?_⟩
          cases e
          simp_all
        | succ j =>
          right
          refine ⟨hc, j, st', si', by simpa using hj, by omega, ha, hv⟩
      · rintro (⟨ha, rfl⟩ | ⟨hc, j, st', si', hj, hs, ha, hv⟩)
        · exact ⟨rfl, 0, st, si, by simp, by simp, ha, rfl⟩
        · exact ⟨hc, j + 1, st', si', by simpa using hj, by omega, ha, hv⟩
    rw [key]
    unfold captureFrom
    by_cases ha : si.active = true
    · simp only [ha, if_true, List.mem_cons, true_and]
      rw [ih (i + 1)]
    · rw [if_neg ha, ih (i + 1)]
      simp [ha]

theorem mem_captureCycle (sch : Schema) (c : Nat) (ins : List SiteIn) (e : RawEvent) :
    e ∈ captureCycle sch c ins ↔
      e.cycle = c ∧ ∃ st si, sch[e.site]? = some st ∧ ins[e.site]? = some si ∧
        si.active = true ∧ e.vals = sampled st si := by
  unfold captureCycle
  rw [mem_captureFrom]
  constructor
  · rintro ⟨hc, j, st, si, hj, hs, ha, hv⟩
    rw [List.getElem?_zip_eq_some] at hj
    have : e.site = j := by omega
    subst this
    exact ⟨hc, st, si, hj.1, hj.2, ha, hv⟩
  · rintro ⟨hc, st, si, h1, h2, ha, hv⟩
    refine ⟨hc, e.site, st, si, ?_, by omega, ha, hv⟩
    rw [List.getElem?_zip_eq_some]
    exact ⟨h1, h2⟩

theorem mem_capture (sch : Schema) (trace : List (List SiteIn)) (c0 : Nat) (e : RawEvent) :
    e ∈ capture sch c0 trace ↔
      ∃ k ins, trace[k]? = some ins ∧ e.cycle = c0 + k ∧ e ∈ captureCycle sch (c0 + k) ins := by
  induction trace generalizing c0 with
  | nil => simp [capture]
  | cons ins rest ih =>
    unfold capture
    rw [List.mem_append, ih (c0 + 1)]
    constructor
    · rintro (h | ⟨k, ins', hk, hc, hm⟩)
      · have hc := ((mem_captureCycle _ _ _ _).1 h).1
        exact ⟨0, ins, by simp, by omega, by simpa using h⟩
      · refine ⟨k + 1, ins', by simpa using hk, by omega, ?_⟩
        have : c0 + (k + 1) = c0 + 1 + k := by omega
        rw [this]; exact hm
    · rintro ⟨k, ins', hk, hc, hm⟩
      cases k with
      | zero =>
        simp at hk
        subst hk
        left; simpa using hm
      | succ k =>
        right
        refine ⟨k, ins', by simpa using hk, by omega, ?_⟩
        have : c0 + (k + 1) = c0 + 1 + k := by omega
        rw [← this]; exact hm

/-- the order of a captured log: by cycle, then by site index -/
def evLt (a b : RawEvent) : Prop := a.cycle < b.cycle ∨ (a.cycle = b.cycle ∧ a.site < b.site)

theorem captureFrom_sorted (c : Nat) (l : List (Site × SiteIn)) (i : Nat) :
    (captureFrom c i l).Pairwise evLt := by
  induction l generalizing i with
  | nil => simp [captureFrom]
  | cons p rest ih =>
    obtain ⟨st, si⟩ := p
    unfold captureFrom
    split
    · rw [List.pairwise_cons]
      refine ⟨?_, ih (i + 1)⟩
      intro b hb
      rw [mem_captureFrom] at hb
      obtain ⟨hc, j, _, _, _, hs, _, _⟩ := hb
      right
      exact ⟨hc.symm, by simp; omega⟩
    · exact ih (i + 1)

theorem capture_sorted (sch : Schema) (trace : List (List SiteIn)) (c0 : Nat) :
    (capture sch c0 trace).Pairwise evLt := by
  induction trace generalizing c0 with
  | nil => simp [capture]
  | cons ins rest ih =>
    unfold capture
    rw [List.pairwise_append]
    refine ⟨captureFrom_sorted _ _ _, ih (c0 + 1), ?_⟩
    intro a ha b hb
    have h1 := ((mem_captureCycle _ _ _ _).1 ha).1
    obtain ⟨k, _, _, h2, _⟩ := (mem_capture _ _ _ _).1 hb
    left; omega

/-! ### sampler -/

theorem samplePerSiteFrom_sigs (c : Nat) (sch : Schema) (ins : List SiteIn) (i : Nat) :
    samplePerSiteFrom c i (sigsOf sch ins) = captureFrom c i (sch.zip ins) := by
  induction sch generalizing ins i with
  | nil => simp [sigsOf, samplePerSiteFrom, captureFrom]
  | cons st sch ih =>
    cases ins with
    | nil => simp [sigsOf, samplePerSiteFrom, captureFrom]
    | cons si ins =>
      have ih' := ih ins (i + 1)
      unfold sigsOf at ih' ⊢
      simp only [List.zipWith_cons_cons, List.zip_cons_cons, samplePerSiteFrom, captureFrom, sigOf]
      by_cases ha : si.active = true
      · simp [ha, ih']
      · simp [ha, ih']

theorem testBit_iff (p i : Nat) : ((p >>> i) % 2 == 1) = p.testBit i := by
  rw [Nat.testBit_eq_decide_div_mod_eq, Nat.shiftRight_eq_div_pow]
  by_cases h : p / 2 ^ i % 2 = 1 <;> simp [h]

theorem samplePackedFrom_eq (c p : Nat) (sigs : List SiteSig) (i : Nat)
    (h : ∀ j (hj : j < sigs.length), p.testBit (i + j) = (sigs[j].trig != 0)) :
    samplePackedFrom c p i sigs = samplePerSiteFrom c i sigs := by
  induction sigs generalizing i with
  | nil => simp [samplePackedFrom, samplePerSiteFrom]
  | cons s rest ih =>
    have h0 := h 0 (by simp)
    have hr : ∀ j (hj : j < rest.length), p.testBit (i + 1 + j) = (rest[j].trig != 0) := by
      intro j hj
      have := h (j + 1) (by simp; omega)
      have e : i + (j + 1) = i + 1 + j := by omega
      rw [e] at this
      simpa using this
    simp only [samplePackedFrom, samplePerSiteFrom, testBit_iff]
    simp only [Nat.add_zero, List.getElem_cons_zero] at h0
    rw [h0, ih (i + 1) hr]

theorem samplePerSiteFrom_none (c : Nat) (sigs : List SiteSig) (i : Nat)
    (h : ∀ j (hj : j < sigs.length), (sigs[j].trig != 0) = false) :
    samplePerSiteFrom c i sigs = [] := by
  induction sigs generalizing i with
  | nil => simp [samplePerSiteFrom]
  | cons s rest ih =>
    have h0 := h 0 (by simp)
    simp only [List.getElem_cons_zero] at h0
    simp only [samplePerSiteFrom, h0]
    apply ih
    intro j hj
    have := h (j + 1) (by simp; omega)
    simp only [List.getElem_cons_succ] at this
    exact this

theorem packBits_testBit (bs : List Bool) (i : Nat) (h : i < bs.length) :
    (packBits bs).testBit i = bs[i] := by
  induction bs generalizing i with
  | nil => simp at h
  | cons b rest ih =>
    cases i with
    | zero =>
      simp only [packBits, Nat.testBit_zero, List.getElem_cons_zero]
      cases b <;> simp <;> omega
    | succ i =>
      simp only [packBits, Nat.testBit_succ, List.getElem_cons_succ]
      have : (b.toNat + 2 * packBits rest) / 2 = packBits rest := by
        cases b <;> simp <;> omega
      rw [this]
      exact ih i (by simpa using h)

/-! ### save / load / reader -/

theorem numsOf_map (l : List Int) : numsOf (l.map J.num) = some l := by
  induction l with
  | nil => rfl
  | cons a l ih => simp [numsOf, ih]

theorem ofJ_toJ (e : RawEvent) : ofJ (toJ e) = some e := by
  cases e with
  | mk c s vs =>
    simp [toJ, ofJ, numsOf_map]

theorem parseLines_save {Text : Type} (c : Codec Text) (hc : c.Faithful) (raw : List RawEvent) :
    parseLines c (raw.map fun e => c.enc (toJ e)) = some raw := by
  induction raw with
  | nil => rfl
  | cons e rest ih =>
    simp [parseLines, parseLine, hc.not_blank, hc.dec_enc, ofJ_toJ, ih]

theorem readLines_eq {Text : Type} (c : Codec Text) (sch : Schema) (ls : List Text) :
    readLines c sch ls = (parseLines c ls).bind (decodeAll sch) := by
  induction ls with
  | nil => rfl
  | cons t rest ih =>
    unfold readLines parseLines
    by_cases hb : c.blank t = true
    · simp [hb, ih]
    · simp only [hb, Bool.false_eq_true, if_false]
      cases hp : parseLine c t with
      | none => simp
      | some e =>
        cases hr : parseLines c rest with
        | none =>
          rw [hr] at ih
          simp [ih]
        | some es =>
          rw [hr] at ih
          simp only [Option.bind_some] at ih
          simp [ih, decodeAll]

/-! ### stable sort by cycle -/

def ByCycle (l : List Decoded) : Prop := l.Pairwise fun a b => a.cycle ≤ b.cycle

theorem mem_insertByCycle (x z : Decoded) (l : List Decoded) :
    z ∈ insertByCycle x l ↔ z = x ∨ z ∈ l := by
  induction l with
  | nil => simp [insertByCycle]
  | cons y ys ih =>
    unfold insertByCycle
    split
    · simp
    · simp [ih]
      constructor
      · rintro (h | h | h) <;> simp [h]
      · rintro (h | h | h) <;> simp [h]

theorem insertByCycle_sorted (x : Decoded) (l : List Decoded) (h : ByCycle l) :
    ByCycle (insertByCycle x l) := by
  induction l with
  | nil => simp [insertByCycle, ByCycle]
  | cons y ys ih =>
    unfold ByCycle at h ih ⊢
    rw [List.pairwise_cons] at h
    unfold insertByCycle
    split
    · rename_i hle
      rw [List.pairwise_cons]
      refine ⟨?_, List.pairwise_cons.2 h⟩
      intro b hb
      rcases List.mem_cons.1 hb with rfl | hb
      · exact hle
      · exact Nat.le_trans hle (h.1 b hb)
    · rename_i hle
      rw [List.pairwise_cons]
      refine ⟨?_, ih h.2⟩
      intro b hb
      rcases (mem_insertByCycle _ _ _).1 hb with rfl | hb
      · omega
      · exact h.1 b hb

theorem sortByCycle_sorted (l : List Decoded) : ByCycle (sortByCycle l) := by
  induction l with
  | nil => simp [sortByCycle, ByCycle]
  | cons x xs ih => exact insertByCycle_sorted x _ ih

theorem insertByCycle_perm (x : Decoded) (l : List Decoded) : (insertByCycle x l).Perm (x :: l) := by
  induction l with
  | nil => simp [insertByCycle]
  | cons y ys ih =>
    unfold insertByCycle
    split
    · exact List.Perm.refl _
    · exact (List.Perm.cons y ih).trans (List.Perm.swap x y ys)

theorem sortByCycle_perm (l : List Decoded) : (sortByCycle l).Perm l := by
  induction l with
  | nil => exact List.Perm.refl _
  | cons x xs ih => exact (insertByCycle_perm x _).trans (List.Perm.cons x ih)

theorem insertByCycle_filter (x : Decoded) (l : List Decoded) (c : Nat) :
    (insertByCycle x l).filter (fun d => d.cycle == c) = (x :: l).filter (fun d => d.cycle == c) := by
  induction l with
  | nil => simp [insertByCycle]
  | cons y ys ih =>
    unfold insertByCycle
    split
    · rfl
    · rename_i hle
      rw [List.filter_cons, ih]
      by_cases hx : x.cycle = c <;> by_cases hy : y.cycle = c
      · omega
      · simp [hx, hy]
      · simp [hx, hy]
      · simp [hx, hy]

theorem sortByCycle_filter (l : List Decoded) (c : Nat) :
    (sortByCycle l).filter (fun d => d.cycle == c) = l.filter (fun d => d.cycle == c) := by
  induction l with
  | nil => rfl
  | cons x xs ih =>
    unfold sortByCycle
    rw [insertByCycle_filter, List.filter_cons, List.filter_cons, ih]

end TxV.EvLog
