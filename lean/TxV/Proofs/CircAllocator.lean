import TxV.Model.CircAllocator
/-!
Helper lemmas for C27 (CircularAllocator): `mod_add` is addition modulo `mod` in the region the
allocator uses it, truncations are identities under the invariant, the abstraction to a queue of
identifiers, and preservation of the invariant.
-/
namespace TxV.CircAllocator

/-! ### `x & (m-1) = x % m` when `m & (m-1) = 0` (functions.py:66-67) -/

theorem and_decomp (a b : Nat) : a &&& b = 2 * ((a/2) &&& (b/2)) + (a % 2) * (b % 2) := by
  have h1 : (a &&& b) / 2 = a / 2 &&& b / 2 := Nat.and_div_two
  have h2 : (a &&& b) % 2 = (a % 2) * (b % 2) := by
    have := @Nat.and_mod_two_pow a b 1
    simp at this
    rw [this]
    have ha : a % 2 = 0 ∨ a % 2 = 1 := by omega
    have hb : b % 2 = 0 ∨ b % 2 = 1 := by omega
    rcases ha with ha | ha <;> rcases hb with hb | hb <;> simp [ha, hb]
  have := Nat.div_add_mod (a &&& b) 2
  omega

/-- `m & (m-1) = 0` characterises powers of two: then `x & (m-1) = x % m` -/
theorem and_pred_eq_mod : ∀ (m : Nat), 0 < m → m &&& (m - 1) = 0 → ∀ x, x &&& (m - 1) = x % m := by
  intro m
  induction m using Nat.strongRecOn with
  | _ m ih =>
    intro hm h x
    by_cases h1 : m = 1
    · subst h1; simp [Nat.mod_one]
    · have hd := and_decomp m (m - 1)
      rw [h] at hd
      by_cases hev : m % 2 = 0
      · have hk : 0 < m / 2 := by omega
        have hp : (m - 1) / 2 = m / 2 - 1 := by omega
        have hz : m / 2 &&& (m / 2 - 1) = 0 := by
          rw [hp] at hd; omega
        have := ih (m / 2) (by omega) hk hz (x / 2)
        have hx := and_decomp x (m - 1)
        rw [hp, this] at hx
        have hm1 : (m - 1) % 2 = 1 := by omega
        rw [hm1] at hx
        rw [hx]
        have : x % m = 2 * (x / 2 % (m / 2)) + x % 2 := by
          have hm2 : m = 2 * (m / 2) := by omega
          conv => lhs; rw [hm2]
          rw [Nat.mod_mul]
          omega
        omega
      · exfalso
        have hp : (m - 1) / 2 = m / 2 := by omega
        rw [hp, Nat.and_self] at hd
        have hm1 : (m - 1) % 2 = 0 := by omega
        rw [hm1] at hd
        omega

theorem mod_wrap (a d : Nat) (h : a < 2 * d) : a % d = if a < d then a else a - d := by
  split
  · exact Nat.mod_eq_of_lt ‹_›
  · rw [Nat.mod_eq_sub_mod (by omega)]; exact Nat.mod_eq_of_lt (by omega)

/-- `mod_add` computes `(sig + incr) % mod` for `sig < mod`, `incr ≤ max_incr` (any `max_incr`, also
    above `mod`: the case table maps `mod + i` to `i % mod`, functions.py:68). -/
theorem modAdd_eq' (sig mod incr mx : Nat) (hs : sig < mod) (hi : incr ≤ mx) :
    modAdd sig mod incr mx = (sig + incr) % mod := by
  unfold modAdd
  by_cases hp : isPow2 mod = true
  · rw [if_pos hp]
    exact and_pred_eq_mod mod (by omega) (by simpa [isPow2] using hp) _
  · rw [if_neg hp]
    by_cases h : sig + incr < mod
    · rw [if_neg (by omega), Nat.mod_eq_of_lt h]
    · rw [if_pos (by omega)]
      exact (Nat.mod_eq_sub_mod (by omega)).symm

theorem modAdd_eq (sig mod incr mx : Nat) (hs : sig < mod) (hi : incr ≤ mx) (_him : incr ≤ mod) :
    modAdd sig mod incr mx = (sig + incr) % mod := modAdd_eq' sig mod incr mx hs hi

/-! ### widths -/

theorem lt_two_pow_bitsFor {x m : Nat} (h : x ≤ m) : x < 2 ^ bitsFor m := by
  unfold bitsFor
  split
  · omega
  · exact Nat.lt_of_le_of_lt h Nat.lt_log2_self

theorem bitsFor_zero : bitsFor 0 = 0 := rfl
theorem bitsFor_one : bitsFor 1 = 1 := by decide

theorem trunc_idw (c : Cfg) (x : Nat) (h : x < c.n) : trunc (idw c) x = x :=
  Nat.mod_eq_of_lt (lt_two_pow_bitsFor (by omega))

/-! ### invariant, abstraction, environment hypotheses -/

/-- well-formed register valuation -/
def Inv (c : Cfg) (s : State) : Prop :=
  s.start < c.n ∧ s.end_ < c.n ∧ s.allocated ≤ c.n ∧ s.end_ = (s.start + s.allocated) % c.n

/-- the allocated identifiers, oldest first -/
def abs (c : Cfg) (s : State) : List Nat :=
  (List.range s.allocated).map fun k => (s.start + k) % c.n

/-- Environment hypotheses of the property for one cycle, stated on the calls that *execute*:
    the count is in the declared range `range(max+1)`, and when the component was built without
    argument validation the caller respects the free / allocated amount. -/
def EnvOk (c : Cfg) (s : State) (i : In) : Prop :=
  (∀ cnt, allocRuns c s i.alloc = some cnt → cnt ≤ c.ma ∧ (c.validate = false → s.allocated + cnt ≤ c.n)) ∧
  (∀ cnt, freeRuns c s i.free = some cnt → cnt ≤ c.mf ∧ (c.validate = false → cnt ≤ s.allocated))

/-- what the proofs use: executed counts are in range and neither overflow nor underflow -/
def RunsOk (c : Cfg) (s : State) (i : In) : Prop :=
  (∀ cnt, allocRuns c s i.alloc = some cnt → cnt ≤ c.ma ∧ s.allocated + cnt ≤ c.n) ∧
  (∀ cnt, freeRuns c s i.free = some cnt → cnt ≤ c.mf ∧ cnt ≤ s.allocated)

theorem allocRuns_some {c : Cfg} {s : State} {a : Option Nat} {cnt : Nat} (h : allocRuns c s a = some cnt) :
    a = some cnt ∧ s.allocated ≠ c.n ∧ allocValid c s cnt = true := by
  cases a with
  | none => simp [allocRuns] at h
  | some x =>
    simp only [allocRuns] at h
    split at h
    · rename_i hc
      simp only [Option.some.injEq] at h; subst h
      simp only [Bool.and_eq_true, allocReady, bne_iff_ne] at hc
      exact ⟨rfl, hc.1, hc.2⟩
    · cases h

theorem freeRuns_some {c : Cfg} {s : State} {a : Option Nat} {cnt : Nat} (h : freeRuns c s a = some cnt) :
    a = some cnt ∧ s.allocated ≠ 0 ∧ freeValid c s cnt = true := by
  cases a with
  | none => simp [freeRuns] at h
  | some x =>
    simp only [freeRuns] at h
    split at h
    · rename_i hc
      simp only [Option.some.injEq] at h; subst h
      simp only [Bool.and_eq_true, freeReady, bne_iff_ne] at hc
      exact ⟨rfl, hc.1, hc.2⟩
    · cases h

/-- with validation (or `max ≤ 1`, where readiness suffices) the environment only has to keep the
    counts in the declared range -/
theorem envOk_runsOk {c : Cfg} {s : State} {i : In} (hc : s.allocated ≤ c.n) (h : EnvOk c s i) : RunsOk c s i := by
  refine ⟨fun cnt hr => ?_, fun cnt hr => ?_⟩
  · have ⟨hle, hv⟩ := h.1 cnt hr
    have ⟨_, hne, hval⟩ := allocRuns_some hr
    refine ⟨hle, ?_⟩
    cases hvd : c.validate with
    | false => exact hv hvd
    | true =>
      by_cases hma : 1 < c.ma
      · simpa [allocValid, hvd, hma] using hval
      · omega
  · have ⟨hle, hv⟩ := h.2 cnt hr
    have ⟨_, hne, hval⟩ := freeRuns_some hr
    refine ⟨hle, ?_⟩
    cases hvd : c.validate with
    | false => exact hv hvd
    | true =>
      by_cases hmf : 1 < c.mf
      · simpa [freeValid, hvd, hmf] using hval
      · omega

/-! ### unfolding `step` -/

theorem step_out_alloc (c : Cfg) (s : State) (i : In) :
    (step c s i).2.alloc = (allocRuns c s i.alloc).map fun cnt => result c s.end_ cnt c.ma := rfl
theorem step_out_free (c : Cfg) (s : State) (i : In) :
    (step c s i).2.free = (freeRuns c s i.free).map fun cnt => result c s.start cnt c.mf := rfl
theorem step_out_clear (c : Cfg) (s : State) (i : In) : (step c s i).2.clear = i.clear := rfl

theorem step_clear (c : Cfg) (s : State) (i : In) (h : i.clear = true) : (step c s i).1 = init := by
  simp [step, h]

/-- the counter update does not wrap when executed counts neither overflow nor underflow -/
theorem count_update (c : Cfg) (al ac fc : Nat) (h1 : al + ac ≤ c.n) (h2 : fc ≤ al) :
    (al + ac + 2 ^ (cntw c + bitsFor c.mf) - fc) % 2 ^ (cntw c) = al + ac - fc := by
  have : al + ac + 2 ^ (cntw c + bitsFor c.mf) - fc = (al + ac - fc) + 2 ^ (cntw c) * 2 ^ (bitsFor c.mf) := by
    rw [Nat.pow_add]; omega
  rw [this, Nat.add_mul_mod_self_left]
  exact Nat.mod_eq_of_lt (lt_two_pow_bitsFor (m := c.n) (by omega))

/-- next state of a cycle without `clear`, under `Inv` and `RunsOk`: pointers advance by the executed
    counts modulo `entries`, the counter is updated exactly -/
theorem step_noclear {c : Cfg} {s : State} {i : In} (hI : Inv c s) (hR : RunsOk c s i) (h : i.clear = false) :
    (step c s i).1 =
      { start := (s.start + (freeRuns c s i.free).getD 0) % c.n
        end_ := (s.end_ + (allocRuns c s i.alloc).getD 0) % c.n
        allocated := s.allocated + (allocRuns c s i.alloc).getD 0 - (freeRuns c s i.free).getD 0 } := by
  obtain ⟨hs, he, hc, _⟩ := hI
  have hn : 0 < c.n := by omega
  have hmod (x : Nat) : x % c.n < c.n := Nat.mod_lt _ hn
  have ha : (allocRuns c s i.alloc).getD 0 ≤ c.ma ∧ s.allocated + (allocRuns c s i.alloc).getD 0 ≤ c.n := by
    cases hr : allocRuns c s i.alloc with
    | none => simp; omega
    | some cnt => simpa using hR.1 cnt hr
  have hf : (freeRuns c s i.free).getD 0 ≤ c.mf ∧ (freeRuns c s i.free).getD 0 ≤ s.allocated := by
    cases hr : freeRuns c s i.free with
    | none => simp
    | some cnt => simpa using hR.2 cnt hr
  simp only [step, h, Bool.false_eq_true, if_false]
  congr 1
  · cases hr : freeRuns c s i.free with
    | none => simp [Nat.mod_eq_of_lt hs]
    | some cnt =>
      rw [hr] at hf; simp only [Option.getD_some] at hf
      simp only [Option.map_some, Option.getD_some, result]
      rw [modAdd_eq _ _ _ _ hs hf.1 (by omega)]
      exact trunc_idw c _ (hmod _)
  · cases hr : allocRuns c s i.alloc with
    | none => simp [Nat.mod_eq_of_lt he]
    | some cnt =>
      rw [hr] at ha; simp only [Option.getD_some] at ha
      simp only [Option.map_some, Option.getD_some, result]
      rw [modAdd_eq _ _ _ _ he ha.1 (by omega)]
      exact trunc_idw c _ (hmod _)
  · exact count_update c _ _ _ ha.2 hf.2

theorem inv_init (c : Cfg) (hn : 0 < c.n) : Inv c init := by
  simp [Inv, init, hn]

theorem inv_step {c : Cfg} {s : State} {i : In} (hI : Inv c s) (hR : RunsOk c s i) : Inv c (step c s i).1 := by
  have hn : 0 < c.n := by have := hI.1; omega
  cases hcl : i.clear with
  | true => rw [step_clear c s i hcl]; exact inv_init c hn
  | false =>
    rw [step_noclear hI hR hcl]
    obtain ⟨hs, he, hc, hend⟩ := hI
    have ha : s.allocated + (allocRuns c s i.alloc).getD 0 ≤ c.n := by
      cases hr : allocRuns c s i.alloc with
      | none => simp; omega
      | some cnt => simpa using (hR.1 cnt hr).2
    have hf : (freeRuns c s i.free).getD 0 ≤ s.allocated := by
      cases hr : freeRuns c s i.free with
      | none => simp
      | some cnt => simpa using (hR.2 cnt hr).2
    refine ⟨Nat.mod_lt _ hn, Nat.mod_lt _ hn, by simp only; omega, ?_⟩
    simp only
    rw [hend, Nat.mod_add_mod, Nat.mod_add_mod]
    congr 1
    omega

/-! ### returned identifiers -/

theorem result_length (c : Cfg) (p cnt mx : Nat) : (result c p cnt mx).idents.length = mx := by
  simp [result]

/-- the first `cnt` identifiers of a result are the `cnt` residues following the pointer -/
theorem result_take (c : Cfg) (p cnt mx : Nat) (hp : p < c.n) (h1 : cnt ≤ mx) (h2 : cnt ≤ c.n) :
    (result c p cnt mx).idents.take cnt = (List.range cnt).map fun j => (p + j) % c.n := by
  simp only [result]
  rw [← List.map_take, List.take_range, Nat.min_eq_left h1]
  apply List.map_congr_left
  intro j hj
  have hj' : j < cnt := by simpa using hj
  rw [modAdd_eq _ _ _ _ hp (Nat.le_refl _) (by omega)]
  exact trunc_idw c _ (Nat.mod_lt _ (by omega))

theorem result_next (c : Cfg) (p cnt mx : Nat) (hp : p < c.n) (h1 : cnt ≤ mx) (h2 : cnt ≤ c.n) :
    (result c p cnt mx).next = (p + cnt) % c.n := by
  simp only [result]
  rw [modAdd_eq _ _ _ _ hp h1 h2]
  exact trunc_idw c _ (Nat.mod_lt _ (by omega))

/-! ### the abstraction -/

theorem abs_length (c : Cfg) (s : State) : (abs c s).length = s.allocated := by simp [abs]

theorem abs_take (c : Cfg) (s : State) (k : Nat) (hk : k ≤ s.allocated) :
    (abs c s).take k = (List.range k).map fun j => (s.start + j) % c.n := by
  simp only [abs]
  rw [← List.map_take, List.take_range, Nat.min_eq_left hk]

/-- queue law for the abstraction: drop `fc` oldest, append `ac` residues after the newest -/
theorem abs_update (c : Cfg) (s : State) (ac fc : Nat) (hf : fc ≤ s.allocated) :
    abs c { start := (s.start + fc) % c.n, end_ := (s.end_ + ac) % c.n, allocated := s.allocated + ac - fc }
      = (abs c s).drop fc ++ (List.range ac).map fun j => (s.start + s.allocated + j) % c.n := by
  apply List.ext_getElem?
  intro k
  simp only [abs, List.getElem?_append, List.getElem?_map, List.getElem?_drop, List.length_drop,
    List.length_map, List.length_range, Nat.mod_add_mod]
  by_cases h1 : k < s.allocated - fc
  · have h2 : fc + k < s.allocated := by omega
    have h3 : k < s.allocated + ac - fc := by omega
    simp [h1, h2, h3, Nat.add_assoc]
  · by_cases h3 : k < s.allocated + ac - fc
    · have h4 : k - (s.allocated - fc) < ac := by omega
      simp only [h1, h3, h4, List.getElem?_range, if_false, Option.map_some]
      congr 2
      omega
    · have h4 : ¬ k - (s.allocated - fc) < ac := by omega
      simp [h1, h3, h4]

/-- the allocated identifiers are pairwise distinct -/
theorem abs_nodup (c : Cfg) (s : State) (h : s.allocated ≤ c.n) : (abs c s).Nodup := by
  simp only [abs, List.Nodup]
  rw [List.pairwise_map]
  have hr : (List.range s.allocated).Pairwise (· < ·) := List.pairwise_lt_range
  apply List.Pairwise.imp_of_mem _ hr
  intro a b ha hb hab
  simp only [List.mem_range] at ha hb
  intro heq
  have e0 := Nat.div_add_mod (s.start + a) c.n
  have e1 := Nat.div_add_mod (s.start + b) c.n
  rw [heq] at e0
  -- (start+b) - (start+a) = n * (q1 - q0), 0 < b - a < n
  have hq : (s.start + a) / c.n ≤ (s.start + b) / c.n := Nat.div_le_div_right (by omega)
  have : c.n * ((s.start + b) / c.n - (s.start + a) / c.n) = b - a := by
    rw [Nat.mul_sub]; omega
  rcases Nat.eq_zero_or_pos ((s.start + b) / c.n - (s.start + a) / c.n) with h0 | h0
  · rw [h0] at this; omega
  · have : c.n ≤ b - a := by
      calc c.n = c.n * 1 := by omega
        _ ≤ c.n * ((s.start + b) / c.n - (s.start + a) / c.n) := Nat.mul_le_mul_left _ h0
        _ = b - a := this
    omega

/-! ### histories -/

/-- the environment hypotheses along a whole history (each cycle judged in the state it meets) -/
def EnvOkRun (c : Cfg) : State → List In → Prop
  | _, [] => True
  | s, i :: is => EnvOk c s i ∧ EnvOkRun c (step c s i).1 is

/-- executable form of `EnvOk` (used for concrete witnesses) -/
def envOkB (c : Cfg) (s : State) (i : In) : Bool :=
  (match allocRuns c s i.alloc with
   | some cnt => decide (cnt ≤ c.ma) && (c.validate || decide (s.allocated + cnt ≤ c.n))
   | none => true) &&
  (match freeRuns c s i.free with
   | some cnt => decide (cnt ≤ c.mf) && (c.validate || decide (cnt ≤ s.allocated))
   | none => true)

theorem envOkB_sound {c : Cfg} {s : State} {i : In} (h : envOkB c s i = true) : EnvOk c s i := by
  simp only [envOkB, Bool.and_eq_true] at h
  refine ⟨fun cnt hr => ?_, fun cnt hr => ?_⟩
  · have h1 := h.1; rw [hr] at h1
    simp only [Bool.and_eq_true, decide_eq_true_eq, Bool.or_eq_true] at h1
    refine ⟨h1.1, fun hv => ?_⟩
    rcases h1.2 with h2 | h2
    · rw [hv] at h2; cases h2
    · exact h2
  · have h1 := h.2; rw [hr] at h1
    simp only [Bool.and_eq_true, decide_eq_true_eq, Bool.or_eq_true] at h1
    refine ⟨h1.1, fun hv => ?_⟩
    rcases h1.2 with h2 | h2
    · rw [hv] at h2; cases h2
    · exact h2

def envOkRunB (c : Cfg) : State → List In → Bool
  | _, [] => true
  | s, i :: is => envOkB c s i && envOkRunB c (step c s i).1 is

theorem envOkRunB_sound {c : Cfg} : ∀ (is : List In) (s : State), envOkRunB c s is = true → EnvOkRun c s is
  | [], _, _ => trivial
  | i :: is, s, h => by
    simp only [envOkRunB, Bool.and_eq_true] at h
    exact ⟨envOkB_sound h.1, envOkRunB_sound is _ h.2⟩

/-- count argument of an executed call (0 when the call was not attempted or did not execute) -/
def execCount : Option Nat → Option Res → Nat
  | some cnt, some _ => cnt
  | _, _ => 0

/-- identifiers handed out by an executed alloc: the first `count` entries of the returned array -/
def allocated? (i : In) (o : Out) : List Nat :=
  match o.alloc with
  | some r => r.idents.take (execCount i.alloc o.alloc)
  | none => []

/-- reference bookkeeping of a whole observed history: a queue of identifiers, rebuilt from the
    observations only (what was returned, which calls executed) -/
def replay (q : List Nat) : List (In × Out) → List Nat
  | [] => q
  | (i, o) :: rest =>
    replay (if o.clear then [] else q.drop (execCount i.free o.free) ++ allocated? i o) rest

theorem run_cons (c : Cfg) (s : State) (i : In) (is : List In) :
    run c s (i :: is) = ((run c (step c s i).1 is).1, (step c s i).2 :: (run c (step c s i).1 is).2) := rfl

theorem run_inv {c : Cfg} : ∀ (is : List In) (s : State), Inv c s → EnvOkRun c s is → Inv c (run c s is).1
  | [], _, h, _ => h
  | i :: is, s, h, he => by
    rw [run_cons]
    exact run_inv is _ (inv_step h (envOk_runsOk h.2.2.1 he.1)) he.2

end TxV.CircAllocator
