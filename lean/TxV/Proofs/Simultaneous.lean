import TxV.Core.BridgeOrder
import TxV.Core.BridgeSources
/-!
# C12 / C13 — theory on the POST-merge design

`_simultaneous` (manager.py:378-460) replaces every group of simultaneous transactions by one merged
transaction that calls the methods made from the members.  On the resulting flat design the
theorems of the core (C01, C03, C04, C07, C08: `TxV/Core/*`) apply unchanged; what is specific to
`condition()` / `simultaneous()` is the *shape* of the merged design, stated here as decidable
predicates (`ShapeC12`, `NbrOk`, `ShapeC13`, with Boolean checkers that the drivers evaluate on the
real post-merge design) and two kinds of per-cycle facts about enables:

* `LinkEn L`   — a call placed unconditionally in its caller (`enable_sig` is assigned 1 in `av_comb`
                 under no further condition, method.py:316-321; a merged call with an empty set of
                 conditionally-called ready dependencies) is enabled whenever the caller runs;
* `DerEn Dr`   — the `enable_call` of a merged call is the conjunction of the `run` signals of the
                 listed bodies (manager.py:454-455).
-/
namespace TxV.Core

variable {D : Design} {v : Val} {S : Sched} {run : Nat → Bool}

/-! ## per-cycle facts about enables -/

/-- the sites in `L` are enabled whenever their caller runs -/
def LinkEn (D : Design) (v : Val) (run : Nat → Bool) (L : List Nat) : Prop :=
  ∀ p ∈ D.allSites, p.2.site ∈ L → run p.1 = true → v.en p.2.site = true

def linkEnB (D : Design) (v : Val) (run : Nat → Bool) (L : List Nat) : Bool :=
  D.allSites.all fun p => !L.contains p.2.site || !run p.1 || v.en p.2.site

theorem linkEnB_sound {L : List Nat} (h : linkEnB D v run L = true) : LinkEn D v run L := by
  intro p hp hl hr
  simp only [linkEnB, List.all_eq_true] at h
  have := h p hp
  simpa [hl, hr] using this

/-- `enable_call = Cat(dep.run for dep in deps).all()` for the listed sites -/
def DerEn (v : Val) (run : Nat → Bool) (Dr : List (Nat × List Nat)) : Prop :=
  ∀ e ∈ Dr, v.en e.1 = e.2.all run

def derEnB (v : Val) (run : Nat → Bool) (Dr : List (Nat × List Nat)) : Bool :=
  Dr.all fun e => v.en e.1 == e.2.all run

theorem derEnB_sound {Dr : List (Nat × List Nat)} (h : derEnB v run Dr = true) : DerEn v run Dr := by
  intro e he
  simp only [derEnB, List.all_eq_true, beq_iff_eq] at h
  exact h e he

/-! ## chains of unconditional calls -/

/-- along a chain of link sites starting in a running transaction every call is enabled and the
target runs -/
theorem link_chain_runs (hwf : D.WF) (hm : MethodRunEq D v run) {L : List Nat} (hl : LinkEn D v run L)
    {t : Nat} (ht : D.isTrans t = true) (hr : run t = true) :
    ∀ (k : Nat) (ch : List Call), ch.length = k → IsChain D t ch → (∀ c ∈ ch, c.site ∈ L) →
      chainEn v ch = true ∧ ∀ m, target ch = some m → run m = true := by
  intro k
  induction k with
  | zero =>
    intro ch hk hc
    cases ch with
    | nil => exact absurd rfl hc.ne_nil
    | cons _ _ => simp at hk
  | succ k ih =>
    intro ch hk hc hL
    obtain ⟨m0, hm0⟩ := hc.target_some
    obtain ⟨c, hlast, hcm, _⟩ := hc.target_callee hm0
    have hen : chainEn v ch = true := by
      rcases hc.last_call hlast with ⟨he, hcc⟩ | ⟨init, b, he, hi, hti, hcc⟩
      · subst he
        have := hl (t, c) (Design.mem_allSites.2 hcc) (hL c (by simp)) hr
        simpa [chainEn] using this
      · subst he
        have hlen : init.length = k := by simpa using hk
        obtain ⟨e1, r1⟩ := ih init hlen hi (fun x hx => hL x (by simp [hx]))
        have rb : run b = true := r1 b hti
        have := hl (b, c) (Design.mem_allSites.2 hcc) (hL c (by simp)) rb
        rw [chainEn_append, e1]
        simpa [chainEn] using this
    refine ⟨hen, ?_⟩
    intro m htm
    obtain ⟨hlt, hnt⟩ := Reaches.lt hwf ⟨ch, hc, htm⟩
    exact (hm m hlt hnt).2 ⟨t, ch, ht, hr, hc, htm, hen⟩

/-- executable: a chain from `g` to `tgt` through sites of `L` -/
def linkChainB (D : Design) (L : List Nat) (g tgt : Nat) : Bool :=
  (D.chainsOf g).any fun ch => target ch == some tgt && ch.all fun c => L.contains c.site

theorem linkChainB_sound (hb : Bounded D) {L : List Nat} {g tgt : Nat} (h : linkChainB D L g tgt = true) :
    ∃ ch, IsChain D g ch ∧ target ch = some tgt ∧ ∀ c ∈ ch, c.site ∈ L := by
  simp only [linkChainB, List.any_eq_true, Bool.and_eq_true, beq_iff_eq, List.all_eq_true,
    List.contains_eq_mem, decide_eq_true_eq] at h
  obtain ⟨ch, hmem, ht, hall⟩ := h
  exact ⟨ch, (mem_chainsOf hb).1 hmem, ht, hall⟩

/-! ## an implicit conflict is a conflict edge -/

theorem implicit_edge (hA : Accepted D S) {t1 t2 : Nat} (h1 : D.isTrans t1 = true) (h2 : D.isTrans t2 = true)
    (hne : t1 ≠ t2) (hi : ImplicitConflict D t1 t2) : S.cgr t1 t2 = true := by
  cases he : S.cgr t1 t2 with
  | true => rfl
  | false => exact absurd hi (not_implicit_of_no (hA.cgrImplicit t1 t2 h1 h2 hne he))

/-! ## C12: shape of a `condition()` use in the merged design -/

/-- one use of `condition()`: the body it is used in, its branch bodies in source order (the
implicit default of `nonblocking=True` included), whether the last branch is a catch-all and whether
`priority=True` -/
structure CondUse where
  parent : Nat
  branches : List Nat
  hasDefault : Bool
  priority : Bool
deriving Repr

def consecutive : List Nat → List (Nat × Nat)
  | a :: b :: t => (a, b) :: consecutive (b :: t)
  | _ => []

/-- the static shape (no scheduler data involved) -/
structure ShapeC12 (D : Design) (U : CondUse) (L : List Nat) (Dr : List (Nat × List Nat)) : Prop where
  nodup : U.branches.Nodup
  branchLt : ∀ b ∈ U.branches, b < D.n ∧ D.isTrans b = false
  parentLt : U.parent < D.n ∧ D.isTrans U.parent = false
  /-- every call of a branch is made by a (merged) transaction; its enable is derived from the
  parent's `run`, or the transaction also calls the parent's body through unconditional calls -/
  callers : ∀ b ∈ U.branches, ∀ p ∈ D.allSites, p.2.callee = b →
    D.isTrans p.1 = true ∧
    ((∃ e ∈ Dr, e.1 = p.2.site ∧ U.parent ∈ e.2) ∨
     (∃ ch, IsChain D p.1 ch ∧ target ch = some U.parent ∧ ∀ c ∈ ch, c.site ∈ L))
  /-- callers of different branches are different transactions with an implicit conflict (they share
  the exclusive method made from the parent's calling transaction) -/
  excl : ∀ b ∈ U.branches, ∀ b' ∈ U.branches, b ≠ b' → ∀ p ∈ D.allSites, ∀ p' ∈ D.allSites,
    p.2.callee = b → p'.2.callee = b' → p.1 ≠ p'.1 ∧ ImplicitConflict D p.1 p'.1
  /-- every transaction that reaches the parent calls a branch, unconditionally or enabled by the
  parent's `run` alone -/
  parentCallers : ∀ g, D.isTrans g = true → Reaches D g U.parent →
    ∃ c ∈ (D.body g).calls, c.callee ∈ U.branches ∧
      (c.site ∈ L ∨ ∃ e ∈ Dr, e.1 = c.site ∧ ∀ d ∈ e.2, d = U.parent)
  /-- `priority=True`: the `schedule_before` chain between consecutive branches, each branch called -/
  prioChain : U.priority = true →
    (∀ ab ∈ consecutive U.branches, ∃ r ∈ (D.body ab.1).rels, r.dst = ab.2 ∧ r.prio = .left ∧ r.conflict = false) ∧
    (∀ b ∈ U.branches, ∃ p ∈ D.allSites, p.2.callee = b)

/-- the call sites that target `b` -/
def callersOf (D : Design) (b : Nat) : List (Nat × Call) := D.allSites.filter fun p => p.2.callee == b

theorem mem_callersOf {b : Nat} {p : Nat × Call} : p ∈ callersOf D b ↔ p ∈ D.allSites ∧ p.2.callee = b := by
  simp [callersOf, List.mem_filter]

def shapeC12B (D : Design) (U : CondUse) (L : List Nat) (Dr : List (Nat × List Nat)) : Bool :=
  decide U.branches.Nodup &&
  (U.branches.all fun b => decide (b < D.n) && !D.isTrans b) &&
  (decide (U.parent < D.n) && !D.isTrans U.parent) &&
  (U.branches.all fun b => D.allSites.all fun p => !(p.2.callee == b) ||
    (D.isTrans p.1 && ((Dr.any fun e => e.1 == p.2.site && e.2.contains U.parent) || linkChainB D L p.1 U.parent))) &&
  (U.branches.all fun b => U.branches.all fun b' => b == b' || (callersOf D b).all fun p => (callersOf D b').all fun p' =>
    !(p.1 == p'.1) && implicitB D p.1 p'.1) &&
  ((List.range D.n).all fun g => !D.isTrans g || !reachesB D g U.parent ||
    (D.body g).calls.any fun c => U.branches.contains c.callee &&
      (L.contains c.site || Dr.any fun e => e.1 == c.site && e.2.all (· == U.parent))) &&
  (!U.priority ||
    (((consecutive U.branches).all fun ab => (D.body ab.1).rels.any fun r => r.dst == ab.2 && r.prio == .left && !r.conflict) &&
     (U.branches.all fun b => D.allSites.any fun p => p.2.callee == b)))

theorem shapeC12B_sound (hb : Bounded D) {U : CondUse} {L : List Nat} {Dr : List (Nat × List Nat)}
    (h : shapeC12B D U L Dr = true) : ShapeC12 D U L Dr := by
  simp only [shapeC12B, Bool.and_eq_true, decide_eq_true_eq] at h
  obtain ⟨⟨⟨⟨⟨⟨h1, h2⟩, h3⟩, h4⟩, h5⟩, h6⟩, h7⟩ := h
  refine ⟨h1, ?_, ?_, ?_, ?_, ?_, ?_⟩
  · intro b hbm
    have := List.all_eq_true.1 h2 b hbm
    simpa using this
  · simpa using h3
  · intro b hbm p hp hc
    have := List.all_eq_true.1 (List.all_eq_true.1 h4 b hbm) p hp
    simp only [hc, beq_self_eq_true, Bool.not_true, Bool.false_or, Bool.and_eq_true, Bool.or_eq_true] at this
    refine ⟨this.1, ?_⟩
    rcases this.2 with hd | hl
    · left
      obtain ⟨e, he, hx⟩ := List.any_eq_true.1 hd
      simp only [Bool.and_eq_true, beq_iff_eq, List.contains_eq_mem, decide_eq_true_eq] at hx
      exact ⟨e, he, hx.1, hx.2⟩
    · right; exact linkChainB_sound hb hl
  · intro b hbm b' hbm' hne p hp p' hp' hc hc'
    have := List.all_eq_true.1 (List.all_eq_true.1 h5 b hbm) b' hbm'
    simp only [Bool.or_eq_true, beq_iff_eq] at this
    rcases this with heq | hall
    · exact absurd heq hne
    · have := List.all_eq_true.1 (List.all_eq_true.1 hall p (mem_callersOf.2 ⟨hp, hc⟩)) p' (mem_callersOf.2 ⟨hp', hc'⟩)
      simp only [Bool.and_eq_true, Bool.not_eq_true', beq_eq_false_iff_ne] at this
      exact ⟨this.1, implicitB_sound hb this.2⟩
  · intro g hg hr
    have := all_range.1 h6 g (D.isTrans_lt hg)
    simp only [hg, Bool.not_true, Bool.false_or, (reachesB_iff hb).2 hr] at this
    obtain ⟨c, hc, hx⟩ := List.any_eq_true.1 this
    simp only [Bool.and_eq_true, List.contains_eq_mem, decide_eq_true_eq, Bool.or_eq_true] at hx
    refine ⟨c, hc, hx.1, ?_⟩
    rcases hx.2 with hl | hd
    · exact Or.inl hl
    · right
      obtain ⟨e, he, hy⟩ := List.any_eq_true.1 hd
      simp only [Bool.and_eq_true, beq_iff_eq, List.all_eq_true] at hy
      exact ⟨e, he, hy.1, hy.2⟩
  · intro hp
    simp only [hp, Bool.not_true, Bool.false_or, Bool.and_eq_true] at h7
    constructor
    · intro ab hab
      obtain ⟨r, hr, hx⟩ := List.any_eq_true.1 (List.all_eq_true.1 h7.1 ab hab)
      simp only [Bool.and_eq_true, beq_iff_eq, Bool.not_eq_true'] at hx
      exact ⟨r, hr, hx.1.1, hx.1.2, hx.2⟩
    · intro b hbm
      obtain ⟨p, hp', hx⟩ := List.any_eq_true.1 (List.all_eq_true.1 h7.2 b hbm)
      exact ⟨p, hp', by simpa using hx⟩

/-- the last branch of a use with a catch-all is ready only if no other branch's condition holds
(simultaneous.py:78: `ready = ~Cat(*conds).any()`) -/
def DefaultReady (v : Val) (U : CondUse) : Prop :=
  U.hasDefault = true → ∀ d, U.branches.getLast? = some d → v.ready d = true →
    ∀ b ∈ U.branches.dropLast, v.ready b = false

def defaultReadyB (v : Val) (U : CondUse) : Bool :=
  !U.hasDefault || match U.branches.getLast? with
    | some d => !v.ready d || U.branches.dropLast.all fun b => !v.ready b
    | none => true

theorem defaultReadyB_sound {U : CondUse} (h : defaultReadyB v U = true) : DefaultReady v U := by
  intro hd d hl hr b hbm
  simp only [defaultReadyB, hd, Bool.not_true, Bool.false_or, hl, hr] at h
  simpa using List.all_eq_true.1 h b hbm

/-- a running branch has an active call site in a running transaction -/
theorem branch_active (hA : Accepted D S) (hC : Cycle D v S run) {b : Nat} (hlt : b < D.n)
    (hnt : D.isTrans b = false) (hr : run b = true) :
    ∃ p ∈ D.allSites, p.2.callee = b ∧ run p.1 = true ∧ v.en p.2.site = true := by
  have hne := (run_iff_active hA.wf hC.methodRun hlt hnt).1 hr
  obtain ⟨p, hp⟩ := List.exists_mem_of_ne_nil _ hne
  obtain ⟨⟨hc, hrp, hen⟩, hcm⟩ := mem_activeSites.1 hp
  exact ⟨p, Design.mem_allSites.2 hc, hcm, hrp, hen⟩

/-- **C12, sentence 1**: a branch runs only if the enclosing body runs, its condition holds (the
branch body is ready) and every method of its static call tree is ready -/
theorem branch_needs (hA : Accepted D S) (hC : Cycle D v S run) {U : CondUse} {L : List Nat}
    {Dr : List (Nat × List Nat)} (hS : ShapeC12 D U L Dr) (hl : LinkEn D v run L) (hd : DerEn v run Dr)
    {b : Nat} (hbm : b ∈ U.branches) (hr : run b = true) :
    run U.parent = true ∧ v.ready b = true ∧ ∀ m, Reaches D b m → v.ready m = true := by
  obtain ⟨hlt, hnt⟩ := hS.branchLt b hbm
  obtain ⟨p, hp, hcm, hrp, hen⟩ := branch_active hA hC hlt hnt hr
  obtain ⟨hpt, hcase⟩ := hS.callers b hbm p hp hcm
  have hcall : p.2 ∈ (D.body p.1).calls := Design.mem_allSites.1 hp
  have hreach : Reaches D p.1 b := ⟨[p.2], .single hcall, by simp [target, hcm]⟩
  obtain ⟨_, hready, _, _⟩ := run_requires hC.grants hpt hrp
  refine ⟨?_, hready b hreach, ?_⟩
  · rcases hcase with ⟨e, he, hs, hpe⟩ | ⟨ch, hch, htg, hL⟩
    · have := hd e he
      rw [hs, hen] at this
      exact List.all_eq_true.1 this.symm _ hpe
    · exact (link_chain_runs hA.wf hC.methodRun hl hpt hrp ch.length ch rfl hch hL).2 _ htg
  · intro m ⟨ch, hch, htg⟩
    apply hready m
    refine ⟨[p.2] ++ ch, ?_, ?_⟩
    · exact IsChain.append hch (.single hcall) (by simp [target, hcm])
    · rw [target_append_of_ne_nil _ hch.ne_nil]; exact htg

/-- **C12, sentence 2**: at most one branch runs per cycle -/
theorem one_branch (hA : Accepted D S) (hC : Cycle D v S run) {U : CondUse} {L : List Nat}
    {Dr : List (Nat × List Nat)} (hS : ShapeC12 D U L Dr) {b b' : Nat} (hbm : b ∈ U.branches)
    (hbm' : b' ∈ U.branches) (hr : run b = true) (hr' : run b' = true) : b = b' := by
  apply Classical.byContradiction
  intro hne
  obtain ⟨hlt, hnt⟩ := hS.branchLt b hbm
  obtain ⟨hlt', hnt'⟩ := hS.branchLt b' hbm'
  obtain ⟨p, hp, hcm, hrp, _⟩ := branch_active hA hC hlt hnt hr
  obtain ⟨p', hp', hcm', hrp', _⟩ := branch_active hA hC hlt' hnt' hr'
  obtain ⟨hne', hi⟩ := hS.excl b hbm b' hbm' hne p hp p' hp' hcm hcm'
  have t1 := (hS.callers b hbm p hp hcm).1
  have t2 := (hS.callers b' hbm' p' hp' hcm').1
  exact hC.mutex p.1 p'.1 t1 t2 hne' (implicit_edge hA t1 t2 hne' hi) ⟨hrp, hrp'⟩

/-- **C12, sentence 3**: the default branch runs only when no other condition holds -/
theorem default_needs (hA : Accepted D S) (hC : Cycle D v S run) {U : CondUse} {L : List Nat}
    {Dr : List (Nat × List Nat)} (hS : ShapeC12 D U L Dr) (hl : LinkEn D v run L) (hd : DerEn v run Dr)
    (hdr : DefaultReady v U) (hdef : U.hasDefault = true) {d : Nat} (hlast : U.branches.getLast? = some d)
    (hr : run d = true) : ∀ b ∈ U.branches.dropLast, v.ready b = false :=
  hdr hdef d hlast (branch_needs hA hC hS hl hd (List.mem_of_getLast? hlast) hr).2.1

/-- **C12, sentence 4**: the enclosing body runs only together with a branch (the implicit default of
`nonblocking=True` is a branch of the use) -/
theorem parent_needs_branch (hA : Accepted D S) (hC : Cycle D v S run) {U : CondUse} {L : List Nat}
    {Dr : List (Nat × List Nat)} (hS : ShapeC12 D U L Dr) (hl : LinkEn D v run L) (hd : DerEn v run Dr)
    (hr : run U.parent = true) : ∃ b ∈ U.branches, run b = true := by
  obtain ⟨hlt, hnt⟩ := hS.parentLt
  obtain ⟨t, ch, ht, hrt, hch, htg, _⟩ := (hC.methodRun U.parent hlt hnt).1 hr
  obtain ⟨c, hc, hcb, hcase⟩ := hS.parentCallers t ht ⟨ch, hch, htg⟩
  refine ⟨c.callee, hcb, ?_⟩
  obtain ⟨blt, bnt⟩ := hS.branchLt _ hcb
  have hen : v.en c.site = true := by
    rcases hcase with hL | ⟨e, he, hs, hall⟩
    · exact hl (t, c) (Design.mem_allSites.2 hc) hL hrt
    · have := hd e he
      rw [hs] at this; rw [this]
      apply List.all_eq_true.2
      intro x hx; rw [hall x hx]; exact hr
  exact (hC.methodRun c.callee blt bnt).2 ⟨t, [c], ht, hrt, .single hc, by simp [target], by simp [chainEn, hen]⟩

/-! ### priority -/

/-- position of a branch in the source order -/
def CondUse.pos (U : CondUse) (b : Nat) : Nat := U.branches.idxOf b

theorem consecutive_mem : ∀ (l : List Nat) (i : Nat) (h : i + 1 < l.length),
    (l[i]'(by omega), l[i + 1]'h) ∈ consecutive l
  | [], i, h => by simp at h
  | [_], i, h => by simp at h
  | a :: b :: t, 0, _ => by simp [consecutive]
  | a :: b :: t, i + 1, h => by
    simp only [consecutive, List.mem_cons]
    right
    have := consecutive_mem (b :: t) i (by simpa using h)
    simpa using this

/-- the callers of an earlier branch precede the callers of a later branch in every valid order -/
theorem prio_order (ho : ValidOrder D S) {U : CondUse} {L : List Nat}
    {Dr : List (Nat × List Nat)} (hS : ShapeC12 D U L Dr) (hp : U.priority = true) :
    ∀ (k i : Nat) (hj : i + k + 1 < U.branches.length) (g g' : Nat × Call), g ∈ D.allSites → g' ∈ D.allSites →
      g.2.callee = U.branches[i]'(by omega) → g'.2.callee = U.branches[i + k + 1]'hj →
      S.ord g.1 < S.ord g'.1 := by
  obtain ⟨hrel, hcalled⟩ := hS.prioChain hp
  have edge : ∀ (i : Nat) (hi : i + 1 < U.branches.length) (g g' : Nat × Call), g ∈ D.allSites → g' ∈ D.allSites →
      g.2.callee = U.branches[i]'(by omega) → g'.2.callee = U.branches[i + 1]'hi → S.ord g.1 < S.ord g'.1 := by
    intro i hi g g' hg hg' hc hc'
    obtain ⟨r, hr, hdst, hprio, hconf⟩ := hrel _ (consecutive_mem U.branches i hi)
    have ma : U.branches[i]'(by omega) ∈ U.branches := List.getElem_mem _
    have mb : U.branches[i + 1]'hi ∈ U.branches := List.getElem_mem _
    have tg := (hS.callers _ ma g hg hc).1
    have tg' := (hS.callers _ mb g' hg' hc').1
    apply ho
    refine ⟨_, _, r, (hS.branchLt _ ma).1, (hS.branchLt _ mb).1, hr, hdst, g.1, g'.1, ?_, ?_, ?_, Or.inl ⟨hprio, rfl, rfl⟩⟩
    · exact ⟨tg, Or.inr ⟨[g.2], .single (Design.mem_allSites.1 hg), by simp [target, hc]⟩⟩
    · exact ⟨tg', Or.inr ⟨[g'.2], .single (Design.mem_allSites.1 hg'), by simp [target, hc']⟩⟩
    · intro h; rw [hconf] at h; exact absurd h.1 (by simp)
  intro k
  induction k with
  | zero => intro i hj g g' hg hg' hc hc'; exact edge i hj g g' hg hg' hc hc'
  | succ k ih =>
    intro i hj g g' hg hg' hc hc'
    have hmid : i + k + 1 < U.branches.length := by omega
    obtain ⟨q, hq, hqc⟩ := hcalled _ (List.getElem_mem hmid)
    have h1 := ih i hmid g q hg hq hc hqc
    have h2 := edge (i + k + 1) (by omega) q g' hq hg' hqc (by simpa [Nat.add_assoc] using hc')
    exact Nat.lt_trans h1 h2

/-- no transaction outside competes for what only one branch needs: every conflict-graph neighbour
of a caller of an earlier branch is a neighbour of (or is) every caller of a later branch -/
def NbrOk (D : Design) (S : Sched) (U : CondUse) : Prop :=
  ∀ g ∈ D.allSites, ∀ g' ∈ D.allSites, g.2.callee ∈ U.branches → g'.2.callee ∈ U.branches →
    U.pos g.2.callee < U.pos g'.2.callee →
    ∀ t, t < D.n → S.cgr g.1 t = true → t = g'.1 ∨ S.cgr g'.1 t = true

def branchCallers (D : Design) (U : CondUse) : List (Nat × Call) :=
  D.allSites.filter fun p => U.branches.contains p.2.callee

def nbrOkB (D : Design) (S : Sched) (U : CondUse) : Bool :=
  (branchCallers D U).all fun g => (branchCallers D U).all fun g' =>
    !(decide (U.pos g.2.callee < U.pos g'.2.callee)) ||
    (List.range D.n).all fun t => !S.cgr g.1 t || t == g'.1 || S.cgr g'.1 t

theorem nbrOkB_sound {U : CondUse} (h : nbrOkB D S U = true) : NbrOk D S U := by
  intro g hg g' hg' hb hb' hpos t ht hc
  have m1 : g ∈ branchCallers D U := List.mem_filter.2 ⟨hg, by simpa using hb⟩
  have m2 : g' ∈ branchCallers D U := List.mem_filter.2 ⟨hg', by simpa using hb'⟩
  have := List.all_eq_true.1 (List.all_eq_true.1 h g m1) g' m2
  simp only [hpos, decide_true, Bool.not_true, Bool.false_or] at this
  have := all_range.1 this t ht
  simpa [hc] using this

/-- a branch is *admissible*: some transaction that would execute it is fully enabled
(`ready ∧ runnable`: the enclosing body and all methods of the static call tree are ready, …) -/
def Admissible (D : Design) (v : Val) (run : Nat → Bool) (b : Nat) : Prop :=
  ∃ g ∈ D.allSites, g.2.callee = b ∧ FullyEnabled D v run g.1

/-- **C12, sentence 5**: with `priority=True` a branch runs only if no earlier branch is admissible -/
theorem priority_needs (hA : Accepted D S) (hC : Cycle D v S run) (he : Eager D v S run) (ho : ValidOrder D S)
    {U : CondUse} {L : List Nat} {Dr : List (Nat × List Nat)} (hS : ShapeC12 D U L Dr) (hN : NbrOk D S U)
    (hp : U.priority = true) {i j : Nat} (hij : i < j) (hj : j < U.branches.length)
    (hr : run (U.branches[j]'hj) = true) : ¬ Admissible D v run (U.branches[i]'(by omega)) := by
  rintro ⟨g, hg, hgc, hen⟩
  have mi : U.branches[i]'(by omega) ∈ U.branches := List.getElem_mem _
  have mj : U.branches[j]'hj ∈ U.branches := List.getElem_mem _
  obtain ⟨hlt, hnt⟩ := hS.branchLt _ mj
  obtain ⟨g', hg', hgc', hrg', _⟩ := branch_active hA hC hlt hnt hr
  have hne : U.branches[i]'(by omega) ≠ U.branches[j]'hj := by
    intro h
    have := (List.getElem_inj hS.nodup).1 h
    omega
  have tg := (hS.callers _ mi g hg hgc).1
  have tg' := (hS.callers _ mj g' hg' hgc').1
  obtain ⟨hne', hi⟩ := hS.excl _ mi _ mj hne g hg g' hg' hgc hgc'
  have hedge := implicit_edge hA tg tg' hne' hi
  obtain ⟨k, hk⟩ : ∃ k, j = i + k + 1 := ⟨j - i - 1, by omega⟩
  subst hk
  have hord := prio_order ho hS hp k i hj g g' hg hg' hgc hgc'
  obtain ⟨_, t, htne, htt, _, htc, htr⟩ := eager_priority he hA.cgrSymm tg tg' hord hedge hen.1 hen.2 hrg'
  have hpos : U.pos g.2.callee < U.pos g'.2.callee := by
    rw [hgc, hgc']
    simp only [CondUse.pos]
    rw [List.Nodup.idxOf_getElem hS.nodup _ _, List.Nodup.idxOf_getElem hS.nodup _ _]
    omega
  rcases hN g hg g' hg' (hgc ▸ mi) (hgc' ▸ mj) hpos t (D.isTrans_lt htt) htc with h | h
  · exact htne h
  · exact hC.mutex g'.1 t tg' htt (fun h' => htne h'.symm) h ⟨hrg', htr⟩

/-! ## C13 -/

/-- shape of two simultaneous bodies `a`, `b` in the merged design: every transaction that reaches
one of them calls the other through unconditional calls -/
structure ShapeC13 (D : Design) (a b : Nat) (L : List Nat) : Prop where
  aLt : a < D.n ∧ D.isTrans a = false
  bLt : b < D.n ∧ D.isTrans b = false
  fwd : ∀ g, D.isTrans g = true → Reaches D g a → ∃ ch, IsChain D g ch ∧ target ch = some b ∧ ∀ c ∈ ch, c.site ∈ L
  bwd : ∀ g, D.isTrans g = true → Reaches D g b → ∃ ch, IsChain D g ch ∧ target ch = some a ∧ ∀ c ∈ ch, c.site ∈ L

def shapeC13B (D : Design) (a b : Nat) (L : List Nat) : Bool :=
  (decide (a < D.n) && !D.isTrans a) && (decide (b < D.n) && !D.isTrans b) &&
  ((List.range D.n).all fun g => !D.isTrans g || !reachesB D g a || linkChainB D L g b) &&
  ((List.range D.n).all fun g => !D.isTrans g || !reachesB D g b || linkChainB D L g a)

theorem shapeC13B_sound (hb : Bounded D) {a b : Nat} {L : List Nat} (h : shapeC13B D a b L = true) :
    ShapeC13 D a b L := by
  simp only [shapeC13B, Bool.and_eq_true, decide_eq_true_eq, Bool.not_eq_true'] at h
  obtain ⟨⟨⟨h1, h2⟩, h3⟩, h4⟩ := h
  refine ⟨h1, h2, ?_, ?_⟩
  · intro g hg hr
    have := all_range.1 h3 g (D.isTrans_lt hg)
    simp only [hg, Bool.not_true, Bool.false_or, (reachesB_iff hb).2 hr] at this
    exact linkChainB_sound hb this
  · intro g hg hr
    have := all_range.1 h4 g (D.isTrans_lt hg)
    simp only [hg, Bool.not_true, Bool.false_or, (reachesB_iff hb).2 hr] at this
    exact linkChainB_sound hb this

theorem simul_runs_of (hA : Accepted D S) (hC : Cycle D v S run) {L : List Nat} (hl : LinkEn D v run L)
    {a b : Nat} (aLt : a < D.n ∧ D.isTrans a = false)
    (fwd : ∀ g, D.isTrans g = true → Reaches D g a → ∃ ch, IsChain D g ch ∧ target ch = some b ∧ ∀ c ∈ ch, c.site ∈ L)
    (hr : run a = true) : run b = true := by
  obtain ⟨t, ch, ht, hrt, hch, htg, _⟩ := (hC.methodRun a aLt.1 aLt.2).1 hr
  obtain ⟨ch', hch', htg', hL⟩ := fwd t ht ⟨ch, hch, htg⟩
  exact (link_chain_runs hA.wf hC.methodRun hl ht hrt ch'.length ch' rfl hch' hL).2 _ htg'

/-- **C13, sentence 1**: two simultaneous bodies run in exactly the same cycles -/
theorem same_cycles (hA : Accepted D S) (hC : Cycle D v S run) {L : List Nat} (hl : LinkEn D v run L)
    {a b : Nat} (hS : ShapeC13 D a b L) : run a = true ↔ run b = true :=
  ⟨simul_runs_of hA hC hl hS.aLt hS.fwd, simul_runs_of hA hC hl hS.bLt hS.bwd⟩

/-- **C13, sentence 1, nested form**: a transaction `b` nested in body `a` and declared simultaneous with it (what
`condition()` builds for one branch; the merged call of `b` may be enabled by `a.run`, manager.py:454-455) runs in
exactly the cycles in which `a` runs -/
theorem same_cycles_nested (hA : Accepted D S) (hC : Cycle D v S run) {L : List Nat} {Dr : List (Nat × List Nat)}
    {a b : Nat} {hd pr : Bool} (hS : ShapeC12 D ⟨a, [b], hd, pr⟩ L Dr) (hl : LinkEn D v run L) (hd' : DerEn v run Dr) :
    run a = true ↔ run b = true := by
  constructor
  · intro hr
    obtain ⟨x, hx, hrx⟩ := parent_needs_branch hA hC hS hl hd' hr
    simp only [List.mem_singleton] at hx
    subst hx; exact hrx
  · intro hr
    exact (branch_needs hA hC hS hl hd' (b := b) (by simp) hr).1

/-- connectors.py:268-283: `Connect.read` returns `read_value`, which the body of `write` assigns from
its argument (in `av_comb`, i.e. unconditionally): the value of `write.data_in` -/
def connectReadOut (D : Design) (v : Val) (run : Nat → Bool) (write : Nat) : Nat :=
  dataIn defaultCombiner D v run write

/-- … and `write` returns `rev_read_value`, assigned from the argument of `read` -/
def connectWriteOut (D : Design) (v : Val) (run : Nat → Bool) (read : Nat) : Nat :=
  dataIn defaultCombiner D v run read

/-- **C13, sentence 2**: in a cycle in which `write` (hence `read`) runs, each has exactly one active
caller, `read` returns the argument that caller passed to `write`, and `write` returns the argument
passed to `read` -/
theorem connect_data (hA : Accepted D S) (hC : Cycle D v S run) (hn : D.SitesNodup) {L : List Nat}
    (hl : LinkEn D v run L) {w r : Nat} (hS : ShapeC13 D w r L) (hxw : D.nonexcl w = false)
    (hxr : D.nonexcl r = false) (hr : run w = true) :
    ∃ sw sr, activeSites D v run w = [sw] ∧ activeSites D v run r = [sr] ∧
      connectReadOut D v run w = v.arg sw.2.site ∧ connectWriteOut D v run r = v.arg sr.2.site := by
  have hrr := (same_cycles hA hC hl hS).1 hr
  obtain ⟨sw, h1, h2⟩ := exclusive_input hA hC hn hS.aLt.1 hS.aLt.2 hxw hr
  obtain ⟨sr, h3, h4⟩ := exclusive_input hA hC hn hS.bLt.1 hS.bLt.2 hxr hrr
  exact ⟨sw, sr, h1, h3, h2, h4⟩

end TxV.Core

/-! ## from the driver's checks to the hypotheses of the theorems -/
namespace TxV.Core

/-- the static hypotheses from the executable manager model (`Bridge.elaborate_static`) and the per-cycle
ones from the driver's per-valuation check -/
theorem model_hyps {Dm : CoreModel.Design} {E : CoreModel.Elab} {order : List Nat} {vm : CoreModel.Val}
    {r : Nat → Bool} (hel : CoreModel.elaborate Dm = .ok E)
    (hvo : CoreModel.validOrder E.g.before Dm.transactions order = true)
    (hcy : Bridge.cycleOk Dm E order vm r = true) :
    Accepted (Bridge.toAbs Dm) (Bridge.toSched E order) ∧ ValidOrder (Bridge.toAbs Dm) (Bridge.toSched E order) ∧
    (Bridge.toAbs Dm).SitesNodup ∧
    Cycle (Bridge.toAbs Dm) (Bridge.toVal Dm vm) (Bridge.toSched E order) (Bridge.runAll E vm r) ∧
    Eager (Bridge.toAbs Dm) (Bridge.toVal Dm vm) (Bridge.toSched E order) (Bridge.runAll E vm r) := by
  obtain ⟨hA, hO, hN⟩ := Bridge.elaborate_static hel hvo
  obtain ⟨hC, hE⟩ := cycleEagerB_sound hA hcy
  exact ⟨hA, hO, hN, hC, hE⟩

end TxV.Core
