import TxV.Model.BasicFifo
import TxV.Proofs.QueueUtil
/-! Refinement of the BasicFifo model to the bounded queue, and history lemmas of the queue (C14). -/
namespace TxV.BasicFifo
open TxV.QueueUtil

/-- abstraction: the `alloc` memory rows starting at `start`, cyclically -/
def abs (d : Nat) (s : State) : List Nat :=
  (List.range s.alloc).map (fun k => s.mem.getD ((s.start + k) % d) 0)

structure Inv (d : Nat) (s : State) : Prop where
  hd : 0 < d
  hs : s.start < d
  ha : s.alloc ≤ d
  he : s.stop = (s.start + s.alloc) % d
  hm : s.mem.length = d
  hr : 0 < s.alloc → s.rd = s.mem.getD s.start 0

theorem inv_init (d : Nat) (h : 0 < d) : Inv d (init d) := by
  refine ⟨h, h, Nat.zero_le _, ?_, by simp [init], ?_⟩
  · simp [init]
  · intro h'; simp [init] at h'

theorem abs_init (d : Nat) : abs d (init d) = [] := by simp [abs, init]

theorem abs_length (d : Nat) (s : State) : (abs d s).length = s.alloc := by simp [abs]

theorem stop_lt {d : Nat} {s : State} (h : Inv d s) : s.stop < d := by
  rw [h.he]; exact Nat.mod_lt _ h.hd

theorem abs_head {d : Nat} {s : State} (h : Inv d s) (hpos : 0 < s.alloc) :
    (abs d s).head? = some s.rd := by
  unfold abs
  obtain ⟨n, hn⟩ : ∃ n, s.alloc = n + 1 := ⟨s.alloc - 1, by omega⟩
  rw [hn, List.range_succ_eq_map]
  simp [Nat.mod_eq_of_lt h.hs, h.hr hpos]

/-- positions of live elements differ from the write position while not full -/
theorem idx_ne {d start alloc k : Nat} (hs : start < d) (ha : alloc < d) (hk : k < alloc) :
    (start + k) % d ≠ (start + alloc) % d := by
  rw [mod_small hs (by omega), mod_small hs (by omega)]
  split <;> split <;> omega

def absOf (d start n : Nat) (mem : List Nat) : List Nat :=
  (List.range n).map (fun k => mem.getD ((start + k) % d) 0)

theorem abs_eq (d : Nat) (s : State) : abs d s = absOf d s.start s.alloc s.mem := rfl

theorem absOf_tail (d start n : Nat) (mem : List Nat) :
    (absOf d start (n + 1) mem).tail = absOf d ((start + 1) % d) n mem := by
  unfold absOf
  rw [List.range_succ_eq_map]
  simp only [List.map_cons, List.tail_cons, List.map_map]
  apply List.map_congr_left
  intro k _
  simp only [Function.comp]
  congr 1
  rw [Nat.mod_add_mod]; congr 1; omega

theorem absOf_write {d start n : Nat} {mem : List Nat} (hd : 0 < d) (hs : start < d) (hn : n < d)
    (hm : mem.length = d) (x : Nat) :
    absOf d start (n + 1) (mem.set ((start + n) % d) x) = absOf d start n mem ++ [x] := by
  unfold absOf
  rw [List.range_succ, List.map_append]
  congr 1
  · apply List.map_congr_left
    intro k hk
    have hk' : k < n := by simpa using hk
    have := idx_ne hs hn hk'
    simp [List.getD_eq_getElem?_getD, Ne.symm this]
  · have hlt : (start + n) % d < mem.length := by rw [hm]; exact Nat.mod_lt _ hd
    simp [List.getD_eq_getElem?_getD, hlt]

theorem absOf_length (d start n : Nat) (mem : List Nat) : (absOf d start n mem).length = n := by
  simp [absOf]

/-- the step with `mod_add` and the width truncation of `allocated` resolved (valid under `Inv`) -/
def step' (d : Nat) (s : State) (i : In) : State × Out :=
  let wrdy := s.alloc != d
  let rrdy := s.alloc != 0
  let wr : Option Nat := if wrdy then i.w else none
  let rrun := i.r && rrdy
  let prun := i.p && rrdy
  let nstart := (s.start + 1) % d
  let nstop := (s.stop + 1) % d
  let raddr := if rrun then nstart else s.start
  let mem' := match wr with
    | some v => s.mem.set s.stop v
    | none => s.mem
  let rd' := mem'.getD raddr 0
  let alloc' := s.alloc + wr.isSome.toNat - rrun.toNat
  let s' : State :=
    if i.c then ⟨0, 0, 0, mem', rd'⟩
    else ⟨if rrun then nstart else s.start, if wr.isSome then nstop else s.stop, alloc', mem', rd'⟩
  (s', ⟨wr, if rrun then some s.rd else none, if prun then some s.rd else none, i.c, rrdy, wrdy⟩)

theorem step_eq {d : Nat} {s : State} (h : Inv d s) (i : In) : step d s i = step' d s i := by
  have hsl := stop_lt h
  have hle : s.alloc + (if (s.alloc != d) = true then i.w else none).isSome.toNat
      - (i.r && s.alloc != 0).toNat ≤ d := by
    have hwle : s.alloc + (if (s.alloc != d) = true then i.w else none).isSome.toNat ≤ d := by
      by_cases h1 : s.alloc = d
      · simp [h1]
      · have : (if (s.alloc != d) = true then i.w else none).isSome.toNat ≤ 1 := Bool.toNat_le _
        have := h.ha
        omega
    omega
  simp only [step, step', modAdd1_eq h.hs, modAdd1_eq hsl, trunc_bitsFor _ _ hle]
  rfl

theorem refines' {d : Nat} {s : State} (h : Inv d s) (i : In) :
    Inv d (step' d s i).1 ∧ (step' d s i).2 = (specStep d (abs d s) i).2 ∧
      abs d (step' d s i).1 = (specStep d (abs d s) i).1 := by
  obtain ⟨w, r, p, c⟩ := i
  have hlen := abs_length d s
  have hsl := stop_lt h
  generalize hw : (if (s.alloc != d) = true then w else none) = wr
  generalize hr : (r && s.alloc != 0) = rrun
  have hwa : wr.isSome = true → s.alloc < d := by
    intro e; subst hw
    by_cases h1 : s.alloc = d
    · simp [h1] at e
    · have := h.ha; omega
  have hra : rrun = true → 0 < s.alloc := by
    intro e; subst hr; simp at e; omega
  have hmem' : (match wr with | some v => s.mem.set s.stop v | none => s.mem).length = d := by
    cases wr <;> simp [h.hm]
  refine ⟨?_, ?_, ?_⟩
  · -- invariant
    simp only [step', hw, hr]
    cases c
    case true =>
      simp only [if_true]
      exact ⟨h.hd, h.hd, Nat.zero_le _, by simp, hmem', by intro h0; simp at h0⟩
    case false =>
      simp only [Bool.false_eq_true, if_false]
      refine ⟨h.hd, ?_, ?_, ?_, hmem', ?_⟩
      · split
        · exact Nat.mod_lt _ h.hd
        · exact h.hs
      · have := h.ha
        cases hwv : wr <;> cases hrv : rrun <;> simp <;>
          first | omega | (have := hwa (by simp [hwv]); omega)
      · cases hwv : wr <;> cases hrv : rrun <;> simp
        · exact h.he
        · have := hra hrv
          rw [h.he]; congr 1; omega
        · rw [h.he, Nat.mod_add_mod]; congr 1
        · have := hra hrv
          rw [h.he, Nat.mod_add_mod]; congr 1; omega
      · intro _; rfl
  · -- outputs
    simp only [step', specStep, hlen, hw, hr]
    cases hrv : rrun
    · by_cases h0 : s.alloc = 0
      · subst hr; simp [h0]
      · subst hr
        have hp : 0 < s.alloc := by omega
        simp [abs_head h hp, h0]
    · have hp := hra hrv
      have h0 : s.alloc ≠ 0 := by omega
      simp [abs_head h hp, h0]
  · -- abstraction commutes
    simp only [step', specStep, hlen, hw, hr]
    cases c
    case true => simp [abs]
    case false =>
      simp only [Bool.false_eq_true, if_false]
      cases hwv : wr <;> cases hrv : rrun <;> simp only [abs_eq] <;> simp
      · -- read only
        have hp := hra hrv
        obtain ⟨n, hn⟩ : ∃ n, s.alloc = n + 1 := ⟨s.alloc - 1, by omega⟩
        rw [hn, absOf_tail]; simp
      · -- write only
        rw [h.he, absOf_write h.hd h.hs (hwa (by simp [hwv])) h.hm]
      · -- both
        rename_i v
        have hp := hra hrv
        obtain ⟨n, hn⟩ : ∃ n, s.alloc = n + 1 := ⟨s.alloc - 1, by omega⟩
        have hlt := hwa (by simp [hwv])
        rw [hn] at hlt ⊢
        have e1 := absOf_write h.hd h.hs hlt h.hm v
        have e2 := congrArg List.tail e1
        rw [absOf_tail] at e2
        rw [h.he, hn]
        try simp only [Nat.add_sub_cancel] at *
        rw [e2]
        have : absOf d s.start (n + 1) s.mem ≠ [] := by
          intro hnil; have := absOf_length d s.start (n+1) s.mem; rw [hnil] at this; simp at this
        rw [List.tail_append_of_ne_nil this]

theorem refines {d : Nat} {s : State} (h : Inv d s) (i : In) :
    Inv d (step d s i).1 ∧ (step d s i).2 = (specStep d (abs d s) i).2 ∧
      abs d (step d s i).1 = (specStep d (abs d s) i).1 := by
  rw [step_eq h]; exact refines' h i

theorem run_refines {d : Nat} : ∀ (is : List In) {s : State}, Inv d s →
    Inv d (run d s is).1 ∧ (run d s is).2 = (specRun d (abs d s) is).2 ∧
      abs d (run d s is).1 = (specRun d (abs d s) is).1
  | [], _, h => ⟨h, rfl, rfl⟩
  | i :: is, s, h => by
    obtain ⟨h1, h2, h3⟩ := refines h i
    obtain ⟨g1, g2, g3⟩ := run_refines is h1
    simp only [run, specRun]
    rw [h3] at g2 g3
    exact ⟨g1, by rw [h2, g2], g3⟩

/-! ### the bounded queue: histories -/

/-- one cycle of the queue keeps `delivered ++ stored = written` -/
theorem spec_hist_step (d : Nat) (q : List Nat) (i : In) (del wr : List Nat) (h : del ++ q = wr) :
    (upd (del, wr) (ev (specStep d q i).2)).1 ++ (specStep d q i).1
      = (upd (del, wr) (ev (specStep d q i).2)).2 := by
  subst h
  obtain ⟨w, r, p, c⟩ := i
  cases c
  case true => simp [specStep, upd, ev]
  case false =>
    cases q with
    | nil => cases r <;> simp [specStep, upd, ev]
    | cons x q => cases r <;> simp [specStep, upd, ev]

theorem spec_hist_run (d : Nat) : ∀ (is : List In) (q : List Nat) (g : List Nat × List Nat),
    g.1 ++ q = g.2 →
    (histFrom g ((specRun d q is).2.map ev)).1 ++ (specRun d q is).1
      = (histFrom g ((specRun d q is).2.map ev)).2
  | [], q, g, h => by simpa [specRun, histFrom] using h
  | i :: is, q, g, h => by
    simp only [specRun, List.map_cons, histFrom_cons]
    exact spec_hist_run d is _ _ (spec_hist_step d q i g.1 g.2 h)

theorem specRun_append (d : Nat) : ∀ (is js : List In) (q : List Nat),
    specRun d q (is ++ js) =
      ((specRun d (specRun d q is).1 js).1, (specRun d q is).2 ++ (specRun d (specRun d q is).1 js).2)
  | [], js, q => by simp [specRun]
  | i :: is, js, q => by
    simp only [List.cons_append, specRun]
    rw [specRun_append d is js]

theorem run_append (d : Nat) : ∀ (is js : List In) (s : State),
    run d s (is ++ js) =
      ((run d (run d s is).1 js).1, (run d s is).2 ++ (run d (run d s is).1 js).2)
  | [], js, s => by simp [run]
  | i :: is, js, s => by
    simp only [List.cons_append, run]
    rw [run_append d is js]

end TxV.BasicFifo
