import TxV.Model.BankMem
/-! Lemmas about the ideal memory of `TxV/Model/BankMem.lean` (used by C21 and C22). -/
namespace TxV.BankMem

/-! ### bit-level meaning of a masked write -/

/-- bit `b` lies in an enabled chunk: its chunk `b / g` is one of the `n` chunks and its enable bit is set -/
def covers (g n mask b : Nat) : Bool := decide (b / g < n) && mask.testBit (b / g)

theorem testBit_expandMask (g n mask b : Nat) (hg : 0 < g) :
    (expandMask g n mask).testBit b = covers g n mask b := by
  induction n with
  | zero => simp [expandMask, covers]
  | succ n ih =>
    simp only [expandMask, Nat.testBit_or, ih, covers]
    have h1 : (g * n ≤ b) ↔ n ≤ b / g := by
      rw [Nat.le_div_iff_mul_le hg, Nat.mul_comm]
    have h2 : (b - g * n < g ∧ g * n ≤ b) ↔ (b / g = n) := by
      rw [h1]
      constructor
      · intro ⟨h, h'⟩
        have : b / g < n + 1 := by
          rw [Nat.div_lt_iff_lt_mul hg]
          have := (Nat.le_div_iff_mul_le hg).1 h'
          rw [Nat.add_mul, Nat.mul_comm n g]; rw [Nat.mul_comm n g] at this; omega
        omega
      · intro h
        have h' : n ≤ b / g := by omega
        refine ⟨?_, h'⟩
        have : b / g < n + 1 := by omega
        rw [Nat.div_lt_iff_lt_mul hg, Nat.add_mul, Nat.mul_comm n g] at this
        omega
    by_cases hm : mask.testBit n = true
    · simp only [hm, if_true, Nat.testBit_shiftLeft, Nat.testBit_two_pow_sub_one]
      by_cases hb : b / g = n
      · have := h2.2 hb
        simp [hb, hm, this.1, this.2]
      · have hn : ¬ (b - g * n < g ∧ g * n ≤ b) := fun h => hb (h2.1 h)
        by_cases hlt : b / g < n
        · have : b / g < n + 1 := by omega
          simp [hlt, this]
          intro hx hy; exact absurd ⟨hy, hx⟩ hn
        · have : ¬ b / g < n + 1 := by omega
          simp [hlt, this]
          intro hx
          apply Nat.le_of_not_lt
          intro hy; exact absurd ⟨hy, hx⟩ hn
    · simp only [hm]
      by_cases hb : b / g = n
      · simp [hb, hm]
      · by_cases hlt : b / g < n
        · have : b / g < n + 1 := by omega
          simp [hlt, this]
        · have : ¬ b / g < n + 1 := by omega
          simp [hlt, this]

theorem testBit_merge (g n old data mask b : Nat) (hg : 0 < g) :
    (merge g n old data mask).testBit b =
      if covers g n mask b then data.testBit b else old.testBit b := by
  simp only [merge, Nat.testBit_xor, Nat.testBit_and, testBit_expandMask _ _ _ _ hg]
  cases covers g n mask b <;> cases old.testBit b <;> cases data.testBit b <;> rfl


/-! ### rows -/

/-- the write call of this cycle addressing row `a` (first port that does) -/
def wrTo : List (Option Wr) → Nat → Option Wr
  | [], _ => none
  | some w :: ws, a => if w.addr = a then some w else wrTo ws a
  | none :: ws, a => wrTo ws a

/-- a row after an optional write to it -/
def applyTo (f : Nat → Wr → Nat) (old : Nat) : Option Wr → Nat
  | some w => f old w
  | none => old

theorem length_wr1 (f : Nat → Wr → Nat) (m : Mem) (w : Wr) : (wr1 f m w).length = m.length := by
  unfold wr1; split <;> simp

theorem length_wrOpt (f : Nat → Wr → Nat) (m : Mem) (w : Option Wr) : (wrOpt f m w).length = m.length := by
  cases w <;> simp [wrOpt, length_wr1]

theorem length_wrAll (f : Nat → Wr → Nat) (m : Mem) (ws : List (Option Wr)) :
    (wrAll f m ws).length = m.length := by
  induction ws generalizing m with
  | nil => rfl
  | cons w ws ih => simp only [wrAll, List.foldl_cons] at ih ⊢; rw [ih, length_wrOpt]

theorem rd_of_lt (m : Mem) (a : Nat) (h : a < m.length) : rd m a = m[a] := by
  simp [rd, List.getElem?_eq_getElem h]

theorem rd_of_ge (m : Mem) (a : Nat) (h : m.length ≤ a) : rd m a = 0 := by
  simp [rd, List.getElem?_eq_none h]

theorem rd_wr1 (f : Nat → Wr → Nat) (m : Mem) (w : Wr) (a : Nat) :
    rd (wr1 f m w) a =
      if w.addr = a ∧ a < m.length then f (rd m a) w else rd m a := by
  unfold wr1
  by_cases hl : w.addr < m.length
  · rw [List.getElem?_eq_getElem hl]
    simp only
    by_cases ha : w.addr = a
    · subst ha
      simp [rd, hl]
    · have : ¬ (w.addr = a ∧ a < m.length) := fun h => ha h.1
      simp only [this, if_false, rd]
      rw [List.getElem?_set_ne ha]
  · have hn : m[w.addr]? = none := List.getElem?_eq_none (by omega)
    rw [hn]
    have : ¬ (w.addr = a ∧ a < m.length) := fun h => hl (h.1 ▸ h.2)
    simp [this]

theorem wrAddrs_cons_some (w : Wr) (ws : List (Option Wr)) :
    wrAddrs (some w :: ws) = w.addr :: wrAddrs ws := by simp [wrAddrs]

theorem wrAddrs_cons_none (ws : List (Option Wr)) : wrAddrs (none :: ws) = wrAddrs ws := by
  simp [wrAddrs]

theorem wrTo_none_of_not_mem (ws : List (Option Wr)) (a : Nat) (h : a ∉ wrAddrs ws) :
    wrTo ws a = none := by
  induction ws with
  | nil => rfl
  | cons w ws ih =>
    cases w with
    | none => rw [wrAddrs_cons_none] at h; simpa [wrTo] using ih h
    | some w =>
      rw [wrAddrs_cons_some] at h
      simp only [List.mem_cons, not_or] at h
      have : ¬ w.addr = a := fun e => h.1 e.symm
      simp [wrTo, this, ih h.2]

/-- under "no two write ports address the same row", a row after the cycle's writes is the row
    with the one write addressed to it applied (out-of-range rows stay unreadable) -/
theorem rd_wrAll (f : Nat → Wr → Nat) (m : Mem) (ws : List (Option Wr)) (a : Nat)
    (hd : distinctRows ws = true) :
    rd (wrAll f m ws) a = if a < m.length then applyTo f (rd m a) (wrTo ws a) else 0 := by
  induction ws generalizing m with
  | nil =>
    simp only [wrAll, List.foldl_nil, wrTo, applyTo]
    split
    · rfl
    · exact rd_of_ge _ _ (by omega)
  | cons w ws ih =>
    simp only [distinctRows, decide_eq_true_eq] at hd ih
    cases w with
    | none =>
      rw [wrAddrs_cons_none] at hd
      simp only [wrAll, List.foldl_cons, wrOpt, wrTo] at ih ⊢
      exact ih m hd
    | some w =>
      rw [wrAddrs_cons_some, List.nodup_cons] at hd
      simp only [wrAll, List.foldl_cons, wrOpt] at ih ⊢
      rw [ih _ hd.2, length_wr1, rd_wr1]
      by_cases hl : a < m.length
      · simp only [hl, if_true, and_true]
        by_cases ha : w.addr = a
        · subst ha
          simp [wrTo, wrTo_none_of_not_mem _ _ hd.1, applyTo]
        · simp [wrTo, ha]
      · simp [hl]

/-- for an address below the depth, a transparent read port latches the row after the writes
    (whatever the write ports do, also when several address the row) -/
theorem rdT_eq (f : Nat → Wr → Nat) (m : Mem) (ws : List (Option Wr)) (a : Nat) (ha : a < m.length) :
    rdT f m ws a = rd (wrAll f m ws) a := by
  unfold rdT wrAll
  induction ws generalizing m with
  | nil => rfl
  | cons w ws ih =>
    simp only [List.foldl_cons]
    cases w with
    | none => exact ih m ha
    | some w =>
      simp only [wrOpt]
      rw [← ih (wr1 f m w) (by rw [length_wr1]; exact ha), rd_wr1]
      by_cases h : w.addr = a <;> simp [h, ha]

theorem expandMask_zero (n m : Nat) : expandMask 0 n m = 0 := by
  induction n with
  | zero => rfl
  | succ n ih => simp [expandMask, ih]

/-- a masked write keeps a row within the word width -/
theorem merge_lt (g n old d m : Nat) (h : old < 2 ^ (g * n)) : merge g n old d m < 2 ^ (g * n) := by
  rcases Nat.eq_zero_or_pos g with hg | hg
  · subst hg; simp [merge, expandMask_zero] at h ⊢; exact h
  · apply Nat.lt_pow_two_of_testBit
    intro b hb
    rw [testBit_merge _ _ _ _ _ _ hg]
    have hc : covers g n m b = false := by
      unfold covers
      have : ¬ b / g < n := by
        intro hlt
        have := (Nat.div_lt_iff_lt_mul hg).1 hlt
        rw [Nat.mul_comm] at this; omega
      simp [this]
    simp only [hc, Bool.false_eq_true, if_false]
    exact Nat.testBit_lt_two_pow (Nat.lt_of_lt_of_le h (Nat.pow_le_pow_right (by omega) hb))

/-- with a single chunk per word the enable bit 0 gates the whole word -/
theorem merge_one (g old d m : Nat) (h : old < 2 ^ g) :
    merge g 1 old d m = if m.testBit 0 then d % 2 ^ g else old := by
  rcases Nat.eq_zero_or_pos g with hg | hg
  · subst hg
    have : old = 0 := by simpa using h
    subst this
    simp [merge, expandMask_zero, Nat.mod_one]
  · apply Nat.eq_of_testBit_eq
    intro b
    rw [testBit_merge _ _ _ _ _ _ hg]
    unfold covers
    by_cases hb : b < g
    · have : b / g = 0 := Nat.div_eq_of_lt hb
      by_cases hm : m.testBit 0 = true
      · simp [this, hm, Nat.testBit_mod_two_pow, hb]
      · simp [this, hm]
    · have h1 : ¬ b / g < 1 := by
        intro hlt
        have := (Nat.div_lt_iff_lt_mul hg).1 hlt
        omega
      have ho : old.testBit b = false :=
        Nat.testBit_lt_two_pow (Nat.lt_of_lt_of_le h (Nat.pow_le_pow_right (by omega) (by omega)))
      by_cases hm : m.testBit 0 = true
      · simp [h1, hm, ho, Nat.testBit_mod_two_pow, hb]
      · simp [h1, hm]

end TxV.BankMem
